/-
  C05 — byte-level models of every `_handle_*_frame` of connection.py (and of
  `pull_ack_frame`, `_get_or_create_stream`, `_assert_stream_can_*`), over the
  part of the connection state their exceptions depend on.  A handler is a
  computation `M Unit`: it returns an outcome AND the state it leaves behind
  (Python mutation is not rolled back when an exception propagates).

  Inputs (never guessed): `tlsOutcome` — what `tls.Context.handle_message` plus
  the connection's TLS callbacks produce when a CRYPTO frame delivers data;
  `ackOutcome` — `QuicPacketRecovery.on_ack_received` (model: AQ.Model.Recovery, C08).
-/
import AQ.Model.RecvPath
import AQ.Model.Stream

namespace AQ.RecvF
open AQ AQ.Gen.Recv AQ.Recv

def UINT_VAR_MAX : Nat := 0x3FFFFFFFFFFFFFFF
def STREAM_COUNT_MAX : Nat := 0x1000000000000000
def MAX_PENDING_CRYPTO : Nat := 524288
def CONNECTION_ID_MAX_SIZE : Nat := 20
def MAX_REMOTE_CHALLENGES : Nat := 32
def MAX_PENDING_RETIRES : Nat := 100

structure StreamInfo where
  sid : Nat
  /-- `stream.max_stream_data_local` -/
  maxLocal : Nat
  /-- `stream.receiver.highest_offset` / `_final_size` -/
  highest : Nat := 0
  finalSize : Option Nat := none
  deriving Repr, DecidableEq

structure Ctx where
  /-- unread part of the packet payload (`buf.capacity - buf.tell()` = its length) -/
  buf : Bytes := []
  isClient : Bool := false
  epoch : Epoch := .oneRtt
  maxData : Nat := 0
  maxDataUsed : Nat := 0
  msdUni : Nat := 0
  msdBidiRemote : Nat := 0
  msBidi : Nat := 0
  msBidiUsed : Nat := 0
  msUni : Nat := 0
  msUniUsed : Nat := 0
  streams : List StreamInfo := []
  finished : List Nat := []
  /-- receive half of `_crypto_streams[context.epoch]` (C10 model) -/
  crypto : AQ.Stream.Recv := {}
  localChallenges : List Bytes := []
  remoteChallenges : Nat := 0
  hostCidSeq : Nat := 1
  hostCids : List (Nat × Bytes) := []
  ctxHostCid : Bytes := []
  remoteCidLimit : Nat := 2
  peerCidSeq : Nat := 0
  peerRetirePriorTo : Nat := 0
  peerAvail : List Nat := []
  peerSeen : List Nat := [0]
  cidLimit : Nat := 8
  retirePending : Nat := 0
  maxDatagramFrameSize : Option Nat := none
  closeEvent : Option Nat := none
  draining : Bool := false
  events : Nat := 0
  deriving Repr

/-- inputs of the handlers that the model does not compute -/
structure Env where
  /-- `self.tls.handle_message(...)` + `_push_crypto_data()` incl. the TLS callbacks -/
  tls : Outcome Unit := .ok ()
  /-- `self._loss.on_ack_received(...)` -/
  ack : Outcome Unit := .ok ()

/-! ## The handler monad: outcome × state left behind -/

def M (α : Type) : Type := Ctx → Outcome α × Ctx

@[inline] def M.pure {α : Type} (a : α) : M α := fun c => (.ok a, c)
@[inline] def M.bind {α β : Type} (m : M α) (f : α → M β) : M β := fun c =>
  match m c with
  | (.ok a, c') => f a c'
  | (.error e, c') => (.error e, c')

instance : Monad M where
  pure := M.pure
  bind := M.bind

def raise {α : Type} (e : Err) : M α := fun c => (.error e, c)
def getCtx : M Ctx := fun c => (.ok c, c)
def modifyCtx (f : Ctx → Ctx) : M Unit := fun c => (.ok (), f c)
/-- lift an input outcome (TLS, recovery) -/
def liftOutcome (o : Outcome Unit) : M Unit := fun c => (o, c)

/-! ## Buffer reads (`aioquic._buffer`) -/

def beNat : Bytes → Nat
  | [] => 0
  | b :: rest => b.toNat * 256 ^ rest.length + beNat rest

def pullUint8 : M Nat := fun c =>
  match c.buf with
  | [] => (.error .bufferRead, c)
  | b :: rest => (.ok b.toNat, { c with buf := rest })

def pullBytes (n : Nat) : M Bytes := fun c =>
  if n > c.buf.length then (.error .bufferRead, c)
  else (.ok (c.buf.take n), { c with buf := c.buf.drop n })

/-- `pull_uint_var`: two top bits of the first byte give the length 1/2/4/8 -/
def pullUintVar : M Nat := fun c =>
  match c.buf with
  | [] => (.error .bufferRead, c)
  | b :: rest =>
    let n := 1 <<< (b.toNat >>> 6)
    if n > c.buf.length then (.error .bufferRead, c)
    else (.ok ((b.toNat % 64) * 256 ^ (n - 1) + beNat (rest.take (n - 1))), { c with buf := c.buf.drop n })

def remaining : M Nat := fun c => (.ok c.buf.length, c)

/-! ## Error codes (QuicErrorCode) -/
def FLOW_CONTROL_ERROR : Nat := 0x3
def STREAM_LIMIT_ERROR : Nat := 0x4
def STREAM_STATE_ERROR : Nat := 0x5
def FINAL_SIZE_ERROR : Nat := 0x6
def FRAME_ENCODING_ERROR : Nat := 0x7
def CONNECTION_ID_LIMIT_ERROR : Nat := 0x9
def CRYPTO_BUFFER_EXCEEDED : Nat := 0xD

/-! ## Streams -/

def clientInitiated (sid : Nat) : Bool := sid % 2 == 0
def unidirectional (sid : Nat) : Bool := (sid / 2) % 2 == 1

/-- `_assert_stream_can_receive` -/
def assertCanReceive (sid : Nat) : M Unit := do
  let c ← getCtx
  if clientInitiated sid != c.isClient || ! unidirectional sid then pure ()
  else raise (.conn STREAM_STATE_ERROR)

/-- `_assert_stream_can_send` -/
def assertCanSend (sid : Nat) : M Unit := do
  let c ← getCtx
  if clientInitiated sid == c.isClient || ! unidirectional sid then pure ()
  else raise (.conn STREAM_STATE_ERROR)

def findStream (sid : Nat) (l : List StreamInfo) : Option StreamInfo := l.find? (·.sid == sid)

def putStream (s : StreamInfo) (l : List StreamInfo) : List StreamInfo :=
  if l.any (·.sid == s.sid) then l.map (fun x => if x.sid == s.sid then s else x) else l ++ [s]

/-- `_get_or_create_stream` -/
def getOrCreateStream (sid : Nat) : M StreamInfo := do
  let c ← getCtx
  if c.finished.contains sid then raise .streamFinished else
  match findStream sid c.streams with
  | some s => pure s
  | none =>
    if clientInitiated sid == c.isClient then raise (.conn STREAM_STATE_ERROR) else
    let count := sid / 4 + 1
    if unidirectional sid then
      if count > c.msUni then raise (.conn STREAM_LIMIT_ERROR) else
      let s : StreamInfo := { sid := sid, maxLocal := c.msdUni }
      modifyCtx (fun c => { c with msUniUsed := max c.msUniUsed count, streams := c.streams ++ [s] })
      pure s
    else
      if count > c.msBidi then raise (.conn STREAM_LIMIT_ERROR) else
      let s : StreamInfo := { sid := sid, maxLocal := c.msdBidiRemote }
      modifyCtx (fun c => { c with msBidiUsed := max c.msBidiUsed count, streams := c.streams ++ [s] })
      pure s

/-! ## Handlers -/

def handlePadding : M Unit := modifyCtx (fun c => { c with buf := c.buf.dropWhile (· == 0) })

def handlePing : M Unit := pure ()

/-- the `for _ in range(ack_range_count)` loop of `pull_ack_frame`; `end` may go
    negative (Python ints): `RangeSet.add(end - n, end + 1)` asserts `stop > start`,
    which holds because `n ≥ 0`.  `fuel` ≥ number of bytes left. -/
def ackRanges : Nat → Nat → Int → M Unit
  | _, 0, _ => pure ()
  | 0, _ + 1, _ => raise .bufferRead        -- nothing left to read: the next pull raises
  | fuel + 1, count + 1, e => do
    let gap ← pullUintVar
    let e := e - (gap + 2)
    let n ← pullUintVar
    if ¬ (e + 1 > e - n) then raise (.py .assertion) else
    ackRanges fuel count (e - n)

/-- `_handle_ack_frame` (incl. `pull_ack_frame`) -/
def handleAck (env : Env) (ftype : Nat) : M Unit := do
  let e ← pullUintVar
  let _delay ← pullUintVar
  let count ← pullUintVar
  let first ← pullUintVar
  if ¬ ((e : Int) + 1 > (e : Int) - first) then raise (.py .assertion) else
  let c ← getCtx
  ackRanges c.buf.length count ((e : Int) - first)
  if ftype == 0x03 then
    let _ ← pullUintVar
    let _ ← pullUintVar
    let _ ← pullUintVar
    pure ()
  liftOutcome env.ack

/-- `_handle_reset_stream_frame` -/
def handleResetStream : M Unit := do
  let sid ← pullUintVar
  let _code ← pullUintVar
  let finalSize ← pullUintVar
  assertCanReceive sid
  let s ← getOrCreateStream sid
  if finalSize > s.maxLocal then raise (.conn FLOW_CONTROL_ERROR) else
  let newly := finalSize - s.highest
  let c ← getCtx
  if c.maxDataUsed + newly > c.maxData then raise (.conn FLOW_CONTROL_ERROR) else
  -- stream.receiver.handle_reset: FinalSizeError -> FINAL_SIZE_ERROR
  match s.finalSize with
  | some z => if finalSize ≠ z then raise (.conn FINAL_SIZE_ERROR) else pure ()
  | none => pure ()
  modifyCtx (fun c => { c with
    streams := putStream { s with finalSize := some finalSize, highest := max s.highest finalSize } c.streams
    maxDataUsed := c.maxDataUsed + newly, events := c.events + 1 })

/-- `_handle_stop_sending_frame` -/
def handleStopSending : M Unit := do
  let sid ← pullUintVar
  let _code ← pullUintVar
  assertCanSend sid
  let _ ← getOrCreateStream sid
  modifyCtx (fun c => { c with events := c.events + 1 })

/-- `stream.receiver.handle_frame(frame)` on the crypto stream of the epoch (C10 model).
    A `FinalSizeError` would propagate uncaught; it needs a FIN or a reset, which a crypto
    stream never sees (`CryptoOk`). -/
def cryptoHandleFrame (offset : Nat) (data : Bytes) : M (Option AQ.Stream.DataEv) := fun c =>
  match AQ.Stream.handleFrame c.crypto ⟨offset, data, false⟩ with
  | .error e => (.error e, c)
  | .ok (r, ev) => (.ok ev, { c with crypto := r })

/-- `try: self.tls.handle_message(...); self._push_crypto_data()  except tls.Alert as exc:
    raise QuicConnectionError(CRYPTO_ERROR + int(exc.description))` -/
def tlsCall (env : Env) : M Unit :=
  match env.tls with
  | .ok () => pure ()
  | .error e =>
    match catchAction "_handle_crypto_frame" "handle_message" e, e with
    | some (.raiseConn base), .alert d => raise (.conn (base + d))
    | _, _ => raise e

/-- `_handle_crypto_frame` up to (and including the outcome of) the TLS call -/
def handleCrypto (env : Env) : M Unit := do
  let offset ← pullUintVar
  let length ← pullUintVar
  if offset + length > UINT_VAR_MAX then raise (.conn FRAME_ENCODING_ERROR) else
  let data ← pullBytes length
  let c ← getCtx
  -- pending = offset + length - starting_offset  (Python int, may be negative)
  if (offset + length : Int) - c.crypto.bufStart > MAX_PENDING_CRYPTO then raise (.conn CRYPTO_BUFFER_EXCEEDED) else
  let ev ← cryptoHandleFrame offset data
  match ev with
  | none => pure ()
  | some _ => tlsCall env

/-- `_handle_new_token_frame` -/
def handleNewToken : M Unit := do
  let length ← pullUintVar
  let _ ← pullBytes length
  let c ← getCtx
  if ¬ c.isClient then raise (.conn PROTOCOL_VIOLATION) else pure ()

/-- `_handle_stream_frame` -/
def handleStream (ftype : Nat) : M Unit := do
  let sid ← pullUintVar
  let offset ← if ftype / 4 % 2 == 1 then pullUintVar else pure 0
  let length ← if ftype / 2 % 2 == 1 then pullUintVar else remaining
  if offset + length > UINT_VAR_MAX then raise (.conn FRAME_ENCODING_ERROR) else
  let data ← pullBytes length
  let fin := ftype % 2 == 1
  assertCanReceive sid
  let s ← getOrCreateStream sid
  if offset + length > s.maxLocal then raise (.conn FLOW_CONTROL_ERROR) else
  let newly := offset + length - s.highest
  let c ← getCtx
  if c.maxDataUsed + newly > c.maxData then raise (.conn FLOW_CONTROL_ERROR) else
  -- stream.receiver.handle_frame: FinalSizeError -> FINAL_SIZE_ERROR  (guard shared with the C10 model)
  if AQ.Stream.frameFinalSizeError s.finalSize ⟨offset, data, fin⟩ then raise (.conn FINAL_SIZE_ERROR) else
  let fs := if fin then some (offset + length) else s.finalSize
  modifyCtx (fun c => { c with
    streams := putStream { s with finalSize := fs, highest := max s.highest (offset + length) } c.streams
    maxDataUsed := c.maxDataUsed + newly })

def handleMaxData : M Unit := do
  let _ ← pullUintVar

def handleMaxStreamData : M Unit := do
  let sid ← pullUintVar
  let _ ← pullUintVar
  assertCanSend sid
  let _ ← getOrCreateStream sid

/-- `_handle_max_streams_bidi_frame` / `_uni_` -/
def handleMaxStreams : M Unit := do
  let v ← pullUintVar
  if v > STREAM_COUNT_MAX then raise (.conn FRAME_ENCODING_ERROR) else pure ()

def handleDataBlocked : M Unit := do
  let _ ← pullUintVar

def handleStreamDataBlocked : M Unit := do
  let sid ← pullUintVar
  let _ ← pullUintVar
  assertCanReceive sid
  let _ ← getOrCreateStream sid

def handleStreamsBlocked : M Unit := do
  let v ← pullUintVar
  if v > STREAM_COUNT_MAX then raise (.conn FRAME_ENCODING_ERROR) else pure ()

/-- `_handle_new_connection_id_frame`.  `if change_cid: if not self._peer_cid_available: raise
    QuicConnectionError(PROTOCOL_VIOLATION); self._consume_peer_cid()` — the `pop(0)` of
    `_consume_peer_cid` is guarded by the emptiness test just before it. -/
def handleNewConnectionId : M Unit := do
  let seq ← pullUintVar
  let rpt ← pullUintVar
  let length ← pullUint8
  let cid ← pullBytes length
  let _token ← pullBytes 16
  if cid.isEmpty ∨ cid.length > CONNECTION_ID_MAX_SIZE then raise (.conn FRAME_ENCODING_ERROR) else
  if rpt > seq then raise (.conn PROTOCOL_VIOLATION) else
  let c ← getCtx
  let prt := max rpt c.peerRetirePriorTo
  let retired := (c.peerAvail.filter (· < prt)).length
  let changeCid := decide (c.peerCidSeq < prt)
  let avail := c.peerAvail.filter (· ≥ prt)
  let fresh := ! c.peerSeen.contains seq
  let avail := if fresh && decide (seq ≥ prt) then avail ++ [seq] else avail
  let retiredNew := if fresh && decide (seq < prt) then 1 else 0
  let seen := if fresh then c.peerSeen ++ [seq] else c.peerSeen
  let pending := c.retirePending + retired + (if changeCid then 1 else 0) + retiredNew
  modifyCtx (fun c => { c with peerRetirePriorTo := prt, peerAvail := avail, peerSeen := seen,
                               retirePending := pending })
  if changeCid then
    match avail with
    | [] => raise (.conn PROTOCOL_VIOLATION)
    | x :: rest => modifyCtx (fun c => { c with peerCidSeq := x, peerAvail := rest })
  else pure ()
  let c ← getCtx
  if 1 + c.peerAvail.length > c.cidLimit then raise (.conn CONNECTION_ID_LIMIT_ERROR) else
  if c.retirePending > min (c.cidLimit * 4) MAX_PENDING_RETIRES then raise (.conn CONNECTION_ID_LIMIT_ERROR) else
  pure ()

/-- `_handle_retire_connection_id_frame` -/
def handleRetireConnectionId : M Unit := do
  let seq ← pullUintVar
  let c ← getCtx
  if seq ≥ c.hostCidSeq then raise (.conn PROTOCOL_VIOLATION) else
  match c.hostCids.find? (·.1 == seq) with
  | some (_, cid) =>
    if cid == c.ctxHostCid then raise (.conn PROTOCOL_VIOLATION) else
    let n := (c.hostCids.filter (·.1 != seq)).length
    let add := min 8 c.remoteCidLimit - n
    modifyCtx (fun c => { c with hostCids := c.hostCids.filter (·.1 != seq), events := c.events + 1,
                                 hostCidSeq := c.hostCidSeq + add })
  | none => pure ()

def handlePathChallenge : M Unit := do
  let _ ← pullBytes 8
  modifyCtx (fun c => if c.remoteChallenges < MAX_REMOTE_CHALLENGES
                      then { c with remoteChallenges := c.remoteChallenges + 1 } else c)

/-- `_handle_path_response_frame`: `self._local_challenges.pop(data)` / `except KeyError` -/
def handlePathResponse : M Unit := do
  let data ← pullBytes 8
  let c ← getCtx
  if c.localChallenges.contains data then
    modifyCtx (fun c => { c with localChallenges := c.localChallenges.filter (· != data) })
  else
    match catchAction "_handle_path_response_frame" "pop" (.py .key) with
    | some (.raiseConn code) => raise (.conn code)
    | _ => raise (.py .key)

/-- `_handle_connection_close_frame`: an undecodable reason becomes "" (`except UnicodeDecodeError`) -/
def handleConnectionClose (ftype : Nat) : M Unit := do
  let code ← pullUintVar
  if ftype == 0x1C then
    let _ ← pullUintVar
    pure ()
  let n ← pullUintVar
  let _reason ← pullBytes n
  match catchAction "_handle_connection_close_frame" "decode" (.py .unicode) with
  | some .assign =>
    modifyCtx (fun c => if c.closeEvent.isNone then { c with closeEvent := some code, draining := true } else c)
  | _ => raise (.py .unicode)

def handleHandshakeDone : M Unit := do
  let c ← getCtx
  if ¬ c.isClient then raise (.conn PROTOCOL_VIOLATION) else pure ()

/-- `_handle_datagram_frame` -/
def handleDatagram (ftype : Nat) : M Unit := do
  let c0 ← getCtx
  let length ← if ftype == 0x31 then pullUintVar else remaining
  let _ ← pullBytes length
  let c ← getCtx
  match c.maxDatagramFrameSize with
  | none => raise (.conn PROTOCOL_VIOLATION)
  | some m =>
    if c0.buf.length - c.buf.length ≥ m then raise (.conn PROTOCOL_VIOLATION) else
    modifyCtx (fun c => { c with events := c.events + 1 })

/-! ## `pull_quic_header` (packet.py) -/

def pullUint32 : M Nat := do
  let b ← pullBytes 4
  pure (beNat b)

/-- what `pull_quic_header` returns, as far as `receive_datagram` reads it -/
structure RawHdr where
  ptype : PType
  version : Option Nat := none
  dcid : Bytes := []
  scid : Bytes := []
  tokenLen : Nat := 0
  /-- `packet_end - packet_start` -/
  packetLength : Nat := 0
  nVersions : Nat := 0
  deriving Repr

def RETRY_INTEGRITY_TAG_SIZE : Nat := 16

/-- `PACKET_LONG_TYPE_DECODE_VERSION_1/2[(first_byte & 0x30) >> 4]` (total: 4 entries each) -/
def longType (version bits : Nat) : PType :=
  if version = 0x6B3343CF then
    (if bits = 1 then .initial else if bits = 2 then .zeroRtt else if bits = 3 then .handshake else .retry)
  else
    (if bits = 0 then .initial else if bits = 1 then .zeroRtt else if bits = 2 then .handshake else .retry)

/-- the `while not buf.eof(): supported_versions.append(buf.pull_uint32())` loop -/
def pullVersions : Nat → Nat → M Nat
  | 0, n => pure n
  | fuel + 1, n => do
    let c ← getCtx
    if c.buf.isEmpty then pure n else
    let _ ← pullUint32
    pullVersions fuel (n + 1)

/-- `pull_quic_header(buf, host_cid_length)`; the buffer holds the datagram from the start of
    the packet on (`capacity - tell` = remaining length) -/
def pullQuicHeader (hostCidLength : Nat) : M RawHdr := do
  let c0 ← getCtx
  let total := c0.buf.length
  let first ← pullUint8
  if first / 128 % 2 == 1 then
    let version ← pullUint32
    let dlen ← pullUint8
    if dlen > CONNECTION_ID_MAX_SIZE then raise (.py .value) else
    let dcid ← pullBytes dlen
    let slen ← pullUint8
    if slen > CONNECTION_ID_MAX_SIZE then raise (.py .value) else
    let scid ← pullBytes slen
    if version == 0 then
      let c ← getCtx
      let n ← pullVersions (c.buf.length + 1) 0
      let c ← getCtx
      pure { ptype := .versionNegotiation, version := some version, dcid := dcid, scid := scid,
             packetLength := total - c.buf.length, nVersions := n }
    else
      if first / 64 % 2 == 0 then raise (.py .value) else
      let ptype := longType version (first / 16 % 4)
      let (tokenLen, rest) ← (match ptype with
        | .initial => do
          let tl ← pullUintVar
          let _ ← pullBytes tl
          let rl ← pullUintVar
          pure (tl, rl)
        | .zeroRtt | .handshake => do
          let rl ← pullUintVar
          pure (0, rl)
        | _ => do
          -- token_length = buf.capacity - buf.tell() - RETRY_INTEGRITY_TAG_SIZE  (may be negative:
          -- pull_bytes(negative) raises BufferReadError)
          let c ← getCtx
          if c.buf.length < RETRY_INTEGRITY_TAG_SIZE then raise .bufferRead else
          let tl := c.buf.length - RETRY_INTEGRITY_TAG_SIZE
          let _ ← pullBytes tl
          let _ ← pullBytes RETRY_INTEGRITY_TAG_SIZE
          pure (tl, 0))
      let c ← getCtx
      if rest > c.buf.length then raise (.py .value) else
      pure { ptype := ptype, version := some version, dcid := dcid, scid := scid, tokenLen := tokenLen,
             packetLength := total - c.buf.length + rest }
  else
    if first / 64 % 2 == 0 then raise (.py .value) else
    let dcid ← pullBytes hostCidLength
    pure { ptype := .oneRtt, dcid := dcid, packetLength := total }

/-- dispatch by the handler NAME of the extracted table -/
def runHandler (env : Env) (name : String) (ftype : Nat) : M Unit :=
  if name == "_handle_padding_frame" then handlePadding
  else if name == "_handle_ping_frame" then handlePing
  else if name == "_handle_ack_frame" then handleAck env ftype
  else if name == "_handle_reset_stream_frame" then handleResetStream
  else if name == "_handle_stop_sending_frame" then handleStopSending
  else if name == "_handle_crypto_frame" then handleCrypto env
  else if name == "_handle_new_token_frame" then handleNewToken
  else if name == "_handle_stream_frame" then handleStream ftype
  else if name == "_handle_max_data_frame" then handleMaxData
  else if name == "_handle_max_stream_data_frame" then handleMaxStreamData
  else if name == "_handle_max_streams_bidi_frame" then handleMaxStreams
  else if name == "_handle_max_streams_uni_frame" then handleMaxStreams
  else if name == "_handle_data_blocked_frame" then handleDataBlocked
  else if name == "_handle_stream_data_blocked_frame" then handleStreamDataBlocked
  else if name == "_handle_streams_blocked_frame" then handleStreamsBlocked
  else if name == "_handle_new_connection_id_frame" then handleNewConnectionId
  else if name == "_handle_retire_connection_id_frame" then handleRetireConnectionId
  else if name == "_handle_path_challenge_frame" then handlePathChallenge
  else if name == "_handle_path_response_frame" then handlePathResponse
  else if name == "_handle_connection_close_frame" then handleConnectionClose ftype
  else if name == "_handle_handshake_done_frame" then handleHandshakeDone
  else if name == "_handle_datagram_frame" then handleDatagram ftype
  else raise (.py .notImplemented)       -- a handler this model does not know: tables_ok rules it out

/-- the byte-level instance of the dispatch loop -/
def byteHandlers (env : Env) : Handlers Ctx where
  eof := fun c => c.buf.isEmpty
  pullType := fun c => pullUintVar c
  run := fun name ftype _ c => runHandler env name ftype c

/-- `_payload_received(context, plain)` on real bytes -/
def payloadBytes (env : Env) (c : Ctx) (cryptoRequired : Bool) : Outcome (Bool × Bool) × Ctx :=
  payloadReceived (byteHandlers env) c.epoch cryptoRequired (c.buf.length + 1) c

end AQ.RecvF
