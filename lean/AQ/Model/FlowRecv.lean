/-
  Flow control and stream-count limits of aioquic/quic/connection.py, RECEIVE
  side (property C07), and the `Op` / `step` interface over the whole
  flow-control state (send + receive ops act on the same `_streams` dict).

  Also: the peer-driven queues whose bounds C07 states — CRYPTO reassembly
  (`MAX_PENDING_CRYPTO`), `remote_challenges` (`MAX_REMOTE_CHALLENGES`),
  `_retire_connection_ids` / `_peer_cid_available`.
-/
import AQ.Model.FlowSend

namespace AQ.Flow
open AQ AQ.Stream

/-! ## `_get_or_create_stream` -/

inductive GetErr where
  | finished             -- StreamFinishedError
  | conn (code : Nat)    -- QuicConnectionError
deriving Repr, DecidableEq, Inhabited

/-- `_get_or_create_stream(frame_type, stream_id)` -/
def getOrCreateStream (c : Conn) (sid : Nat) : Except GetErr (Conn × Strm) :=
  if c.finishedIds.contains sid then .error .finished else
  match c.find? sid with
  | some st => .ok (c, st)
  | none =>
    if clientInitiated sid == c.isClient then .error (.conn STREAM_STATE_ERROR) else
    let count := sid / 4 + 1
    if unidirectional sid then
      if count > c.localMaxStreamsUni.value then .error (.conn STREAM_LIMIT_ERROR) else
      let lim := if count > c.localMaxStreamsUni.used then { c.localMaxStreamsUni with used := count }
                 else c.localMaxStreamsUni
      let st := Strm.create sid c.localMaxStreamDataUni 0 false
      .ok ({ c.addStrm st with localMaxStreamsUni := lim }, st)
    else
      if count > c.localMaxStreamsBidi.value then .error (.conn STREAM_LIMIT_ERROR) else
      let lim := if count > c.localMaxStreamsBidi.used then { c.localMaxStreamsBidi with used := count }
                 else c.localMaxStreamsBidi
      let st := Strm.create sid c.localMaxStreamDataBidiRemote c.remoteMaxStreamDataBidiLocal true
      .ok ({ c.addStrm st with localMaxStreamsBidi := lim }, st)

def GetErr.out : GetErr → Out
  | .finished => { ignored := true }
  | .conn code => Out.connError code

/-! ## frames that touch the send half of a stream -/

/-- `_handle_max_stream_data_frame` -/
def rxMaxStreamData (c : Conn) (sid v : Nat) : Conn × Out :=
  if !c.canSend sid then (c, Out.connError STREAM_STATE_ERROR) else
  match getOrCreateStream c sid with
  | .error e => (c, e.out)
  | .ok (c', st) =>
    if v > st.maxRemote then (c'.setStrm { st with maxRemote := v }, {}) else (c', {})

/-- `_handle_stop_sending_frame` -/
def rxStopSending (c : Conn) (sid : Nat) : Conn × Out :=
  if !c.canSend sid then (c, Out.connError STREAM_STATE_ERROR) else
  match getOrCreateStream c sid with
  | .error e => (c, e.out)
  | .ok (c', st) => (c'.setStrm { st with send := reset st.send 0 }, {})

/-- `_handle_stream_data_blocked_frame` -/
def rxStreamDataBlocked (c : Conn) (sid : Nat) : Conn × Out :=
  if !c.canReceive sid then (c, Out.connError STREAM_STATE_ERROR) else
  match getOrCreateStream c sid with
  | .error e => (c, e.out)
  | .ok (c', _) => (c', {})

/-! ## STREAM / RESET_STREAM -/

/-- `handle_reset` with today's (fixed) or the earlier behaviour -/
def handleResetQ (q : Quirks) (r : Recv) (finalSize : Nat) : Outcome Recv :=
  match handleReset r finalSize with
  | .error e => .error e
  | .ok r' => .ok (if q.resetKeepsHighest then { r' with highest := r.highest } else r')

/-- `_handle_stream_frame` after the frame has been parsed -/
def rxStream (c : Conn) (sid off : Nat) (data : Bytes) (fin : Bool) : Conn × Out :=
  let stop := off + data.length
  if stop > UINT_VAR_MAX then (c, Out.connError FRAME_ENCODING_ERROR) else
  if !c.canReceive sid then (c, Out.connError STREAM_STATE_ERROR) else
  match getOrCreateStream c sid with
  | .error e => (c, e.out)
  | .ok (c', st) =>
    if stop > st.maxLocal then (c', Out.connError FLOW_CONTROL_ERROR) else
    let newly := stop - st.recv.highest
    if c'.localMaxData.used + newly > c'.localMaxData.value then (c', Out.connError FLOW_CONTROL_ERROR) else
    match handleFrame st.recv ⟨off, data, fin⟩ with
    | .error _ => (c', Out.connError FINAL_SIZE_ERROR)
    | .ok (r, _) =>
      ({ c'.setStrm { st with recv := r } with
           localMaxData := { c'.localMaxData with used := c'.localMaxData.used + newly } }, {})

/-- `_handle_reset_stream_frame` -/
def rxResetStream (c : Conn) (sid finalSize : Nat) : Conn × Out :=
  if !c.canReceive sid then (c, Out.connError STREAM_STATE_ERROR) else
  match getOrCreateStream c sid with
  | .error e => (c, e.out)
  | .ok (c', st) =>
    if finalSize > st.maxLocal then (c', Out.connError FLOW_CONTROL_ERROR) else
    let newly := finalSize - st.recv.highest
    if c'.localMaxData.used + newly > c'.localMaxData.value then (c', Out.connError FLOW_CONTROL_ERROR) else
    match handleResetQ c'.quirks st.recv finalSize with
    | .error _ => (c', Out.connError FINAL_SIZE_ERROR)
    | .ok r =>
      ({ c'.setStrm { st with recv := r } with
           localMaxData := { c'.localMaxData with used := c'.localMaxData.used + newly } }, {})

/-! ## advertising limits -/

/-- one iteration of the loop of `_write_connection_limits` on one `Limit`;
    `room = false`: `start_frame` raises QuicPacketBuilderStop.
    Returns the limit, the value written (if any) and whether it raised. -/
def writeLimit (q : Quirks) (l : Limit) (room : Bool) : Limit × Option Nat × Bool :=
  let value := if l.used * 2 > l.value then l.value * 2 else l.value
  if q.raiseBeforeWrite then
    let l := { l with value := value }
    if l.value != l.sent then
      if !room then (l, none, true) else ({ l with sent := l.value }, some l.value, false)
    else (l, none, false)
  else
    if value != l.sent then
      if !room then (l, none, true)
      else ({ l with value := value, sent := value }, some value, false)
    else (l, none, false)

/-- `_write_connection_limits(builder, space)` -/
def writeConnLimits (c : Conn) (r1 r2 r3 : Bool) : Conn × Out :=
  let (l1, w1, s1) := writeLimit c.quirks c.localMaxData r1
  let c := { c with localMaxData := l1 }
  let f1 := match w1 with | some v => [WFrame.maxData v] | none => []
  if s1 then (c, { err := some .builderStop, frames := f1 }) else
  let (l2, w2, s2) := writeLimit c.quirks c.localMaxStreamsBidi r2
  let c := { c with localMaxStreamsBidi := l2 }
  let f2 := f1 ++ (match w2 with | some v => [WFrame.maxStreams false v] | none => [])
  if s2 then (c, { err := some .builderStop, frames := f2 }) else
  let (l3, w3, s3) := writeLimit c.quirks c.localMaxStreamsUni r3
  let c := { c with localMaxStreamsUni := l3 }
  let f3 := f2 ++ (match w3 with | some v => [WFrame.maxStreams true v] | none => [])
  if s3 then (c, { err := some .builderStop, frames := f3 }) else (c, { frames := f3 })

/-- `_write_stream_limits(builder, space, stream)` -/
def writeStreamLimits (c : Conn) (sid : Nat) (room : Bool) : Conn × Out :=
  match c.find? sid with
  | none => (c, {})
  | some st =>
    let value := if st.maxLocal != 0 && st.recv.highest * 2 > st.maxLocal then st.maxLocal * 2 else st.maxLocal
    if c.quirks.raiseBeforeWrite then
      let st := { st with maxLocal := value }
      if st.maxLocalSent != st.maxLocal then
        if !room then (c.setStrm st, Out.error .builderStop)
        else (c.setStrm { st with maxLocalSent := st.maxLocal }, { frames := [WFrame.maxStreamData sid st.maxLocal] })
      else (c.setStrm st, {})
    else
      if st.maxLocalSent != value then
        if !room then (c, Out.error .builderStop)
        else (c.setStrm { st with maxLocal := value, maxLocalSent := value },
              { frames := [WFrame.maxStreamData sid value] })
      else (c, {})

inductive LimitKind where
  | data | streamsBidi | streamsUni
deriving Repr, DecidableEq, Inhabited

/-- `_on_connection_limit_delivery(delivery, limit)` -/
def connLimitDelivery (c : Conn) (k : LimitKind) (d : Delivery) : Conn :=
  if d != .acked then
    match k with
    | .data => { c with localMaxData := { c.localMaxData with sent := 0 } }
    | .streamsBidi => { c with localMaxStreamsBidi := { c.localMaxStreamsBidi with sent := 0 } }
    | .streamsUni => { c with localMaxStreamsUni := { c.localMaxStreamsUni with sent := 0 } }
  else c

/-- `_on_max_stream_data_delivery(delivery, stream)` on a live stream -/
def maxStreamDataDelivery (c : Conn) (sid : Nat) (d : Delivery) : Conn :=
  match c.find? sid with
  | none => c
  | some st => if d != .acked then c.setStrm { st with maxLocalSent := 0 } else c

/-! ## the operations -/

inductive Op where
  -- application
  | sendStreamData (sid : Nat) (data : Bytes) (fin : Bool)
  | resetStream (sid code : Nat)
  | stopStream (sid : Nat)
  -- limits received from the peer
  | rxMaxData (v : Nat)
  | rxMaxStreamData (sid v : Nat)
  | rxMaxStreams (uni : Bool) (v : Nat)
  | transportParams (tp : TP)
  | unblock (uni : Bool)
  -- other received frames
  | rxStopSending (sid : Nat)
  | rxStreamDataBlocked (sid : Nat)
  | rxStream (sid off : Nat) (data : Bytes) (fin : Bool)
  | rxResetStream (sid finalSize : Nat)
  -- packet building
  | serve (sid : Nat) (stopRoom resetRoom : Bool) (flightSpace : Int)
  | writeConnLimits (r1 r2 r3 : Bool)
  | writeStreamLimits (sid : Nat) (room : Bool)
  -- delivery reports
  | dataDelivery (sid : Nat) (d : Delivery) (start stop : Nat) (fin : Bool)
  | resetDelivery (sid : Nat) (d : Delivery)
  | stopDelivery (sid : Nat) (d : Delivery)
  | connLimitDelivery (k : LimitKind) (d : Delivery)
  | maxStreamDataDelivery (sid : Nat) (d : Delivery)
deriving Repr, Inhabited

def step (c : Conn) : Op → Conn × Out
  | .sendStreamData sid data fin => sendStreamData c sid data fin
  | .resetStream sid code => resetStream c sid code
  | .stopStream sid => stopStream c sid
  | .rxMaxData v => rxMaxData c v
  | .rxMaxStreamData sid v => rxMaxStreamData c sid v
  | .rxMaxStreams uni v => rxMaxStreams c uni v
  | .transportParams tp => rxTransportParams c tp
  | .unblock uni => (unblockStreams c uni, {})
  | .rxStopSending sid => rxStopSending c sid
  | .rxStreamDataBlocked sid => rxStreamDataBlocked c sid
  | .rxStream sid off data fin => rxStream c sid off data fin
  | .rxResetStream sid fs => rxResetStream c sid fs
  | .serve sid a b fs => serve c sid a b fs
  | .writeConnLimits a b d => writeConnLimits c a b d
  | .writeStreamLimits sid room => writeStreamLimits c sid room
  | .dataDelivery sid d a b fin => dataDelivery c sid d a b fin
  | .resetDelivery sid d => resetDelivery c sid d
  | .stopDelivery sid d => stopDelivery c sid d
  | .connLimitDelivery k d => (connLimitDelivery c k d, {})
  | .maxStreamDataDelivery sid d => (maxStreamDataDelivery c sid d, {})

/-- run a sequence of operations; the outputs are collected oldest first -/
def run (c : Conn) : List Op → Conn × List Out
  | [] => (c, [])
  | op :: ops =>
    let p := step c op
    let q := run p.1 ops
    (q.1, p.2 :: q.2)

def runState (c : Conn) (ops : List Op) : Conn := ops.foldl (fun c op => (step c op).1) c

/-! ## CRYPTO reassembly (`_handle_crypto_frame` up to `handle_frame`) -/

def MAX_PENDING_CRYPTO : Nat := 524288

/-- the receive half of `self._crypto_streams[epoch]`; returns the new
    receiver and the bytes handed to TLS -/
def rxCrypto (r : Recv) (off : Nat) (data : Bytes) : Except Nat (Recv × Option Bytes) :=
  let stop := off + data.length
  if stop > UINT_VAR_MAX then .error FRAME_ENCODING_ERROR else
  -- pending = offset + length - starting_offset()   (Python int, may be negative)
  if (stop : Int) - r.bufStart > MAX_PENDING_CRYPTO then .error CRYPTO_BUFFER_EXCEEDED else
  match handleFrame r ⟨off, data, false⟩ with
  | .error _ => .error FINAL_SIZE_ERROR   -- unreachable: CRYPTO frames carry no FIN
  | .ok (r', ev) => .ok (r', ev.map (·.data))

/-! ## PATH_CHALLENGE queue of one network path -/

def MAX_REMOTE_CHALLENGES : Nat := 32

/-- `_handle_path_challenge_frame`: the deque `remote_challenges` -/
def rxPathChallenge (q : List Bytes) (data : Bytes) : List Bytes :=
  if q.length < MAX_REMOTE_CHALLENGES then q ++ [data] else q

/-- the `while len(remote_challenges) > 0` loop of `_write_application`;
    `rooms` = for each PATH_RESPONSE whether `start_frame` succeeds (missing
    entries: it raises) -/
def writePathResponses : List Bytes → List Bool → List Bytes × Bool
  | [], _ => ([], false)
  | q, [] => (q, false)          -- the loop was not reached (pacing / handshake not complete)
  | q, false :: _ => (q, true)
  | _ :: q, true :: rooms => writePathResponses q rooms

/-! ## peer connection IDs: retirement queue and stock -/

def MAX_PENDING_RETIRES : Nat := 100

structure Cids where
  /-- `_local_active_connection_id_limit` -/
  limit : Nat := 8
  /-- `_peer_cid.sequence_number` (None before the first packet: modelled as 0) -/
  current : Nat := 0
  /-- `_peer_cid_available` (sequence numbers, in list order) -/
  available : List Nat := []
  /-- `_peer_cid_sequence_numbers` -/
  seen : List Nat := [0]
  /-- `_peer_retire_prior_to` -/
  retirePriorTo : Nat := 0
  /-- `_retire_connection_ids` -/
  retire : List Nat := []
  /-- ghost: RETIRE_CONNECTION_ID frames written and not yet reported -/
  inFlight : Nat := 0
deriving Repr, DecidableEq, Inhabited

/-- `_consume_peer_cid`: `pop(0)` on an empty list is an IndexError -/
def consumePeerCid (s : Cids) : Outcome Cids :=
  match s.available with
  | [] => .error (.py .index)
  | x :: rest => .ok { s with current := x, available := rest }

/-- `_handle_new_connection_id_frame` after parsing (the connection id itself
    plays no role for the bounds) -/
def ncidApply (s : Cids) (seq rpt : Nat) : Cids × Bool :=
  let s := { s with retirePriorTo := max rpt s.retirePriorTo }
  let retireAvail := s.available.filter (· < s.retirePriorTo)
  let changeCid := decide (s.current < s.retirePriorTo)
  let retire := if changeCid then s.current :: retireAvail else retireAvail
  let s := { s with available := s.available.filter (· ≥ s.retirePriorTo) }
  -- a sequence number seen for the first time: stocked, or (issued by a reordered frame
  -- below Retire Prior To) retired straight away, once
  let fresh := !s.seen.contains seq
  let retire := if fresh ∧ seq < s.retirePriorTo then retire ++ [seq] else retire
  let s := if fresh then
      (if seq ≥ s.retirePriorTo then { s with available := s.available ++ [seq], seen := seq :: s.seen }
       else { s with seen := seq :: s.seen })
    else s
  ({ s with retire := s.retire ++ retire }, changeCid)

def rxNewConnectionId (s : Cids) (seq rpt : Nat) : Cids × Option Err :=
  if rpt > seq then (s, some (.conn 10)) else
  -- the list updates up to "retire previous CIDs", and whether the active CID was retired
  let p := ncidApply s seq rpt
  -- "Retire Prior To leaves no usable connection ID": PROTOCOL_VIOLATION
  if p.2 ∧ p.1.available.isEmpty then (p.1, some (.conn 10)) else
  match (if p.2 then consumePeerCid p.1 else .ok p.1) with
  | .error e => (p.1, some e)
  | .ok s =>
    if 1 + s.available.length > s.limit then (s, some (.conn CONNECTION_ID_LIMIT_ERROR)) else
    if s.retire.length > min (s.limit * 4) MAX_PENDING_RETIRES then
      (s, some (.conn CONNECTION_ID_LIMIT_ERROR))
    else (s, none)

/-- `change_connection_id()` (application) -/
def changeConnectionId (s : Cids) : Outcome Cids :=
  match s.available with
  | [] => .ok s
  | _ => consumePeerCid { s with retire := s.retire ++ [s.current] }

/-- the RETIRE_CONNECTION_ID loop of `_write_application` (`rooms` as above) -/
def writeRetires (s : Cids) : List Bool → Cids × Bool
  | [] => (s, false)             -- the loop was not reached, or is done
  | false :: _ => (s, !s.retire.isEmpty)
  | true :: rooms =>
    match s.retire with
    | [] => (s, false)
    | _ :: rest => writeRetires { s with retire := rest, inFlight := s.inFlight + 1 } rooms

/-- `_on_retire_connection_id_delivery` for a frame in flight -/
def retireDelivery (s : Cids) (d : Delivery) (seq : Nat) : Cids :=
  let s := { s with inFlight := s.inFlight - 1 }
  if d != .acked then { s with retire := s.retire ++ [seq] } else s

end AQ.Flow
