/-
  Model of aioquic/asyncio/protocol.py (QuicConnectionProtocol, QuicStreamAdapter)
  and aioquic/asyncio/server.py (QuicServer.datagram_received and the routing
  handlers), statement by statement, WITH THE PROPOSED FIXES APPLIED
    fixes/C19-1-connected-flag.diff             (Quirks.noConnectedFlag switches it off)
    fixes/C19-2-waiters-after-termination.diff  (Quirks.noClosedCheck)
    fixes/C19-3-concurrent-wait-connected.diff  (Quirks.assertSingle)
    fixes/C19-4-transmit-processes-events.diff  (Quirks.deferTxEvents)
    fixes/C19-5-create-stream-reserves-id.diff  (Quirks.sharedStreamId)
  `Quirks.today` reproduces the unchanged tree (checked by the same correspondence with
  C19_QUIRK=31 against the unpatched source).

  asyncio callbacks run to completion, so a schedule is a list of atomic steps
  (`Op`).  What the underlying `QuicConnection` does during a callback is an
  INPUT of the step: the list of QUIC events it produced while receiving /
  handling the timer (`evs`), the events it produced while building packets in
  `transmit()` (`txevs`), and the deadline `get_timer()` returned (`tat`).
  `id(waiter)` (ping uid), `os.urandom` (connection IDs) and the parsed packet
  header are inputs as well.  Python exceptions are outcomes.
-/
import AQ.Base.Basic

namespace AQ.Adapter
open AQ

/-! ## association lists with Python `dict` semantics -/

abbrev AL (κ α : Type) := List (κ × α)

def AL.get [DecidableEq κ] (k : κ) : AL κ α → Option α
  | [] => none
  | (k', v) :: rest => if k' = k then some v else AL.get k rest

/-- `d[k] = v`: replace in place, else append -/
def AL.set [DecidableEq κ] (k : κ) (v : α) : AL κ α → AL κ α
  | [] => [(k, v)]
  | (k', v') :: rest => if k' = k then (k, v) :: rest else (k', v') :: AL.set k v rest

/-- `del d[k]` / `d.pop(k, None)` -/
def AL.del [DecidableEq κ] (k : κ) (d : AL κ α) : AL κ α := d.filter (fun e => e.1 ≠ k)

def AL.keys (d : AL κ α) : List κ := d.map (·.1)

/-! ## data -/

abbrev WaiterId := Nat
abbrev CID := Bytes

/-- how an awaiting coroutine finished -/
inductive Res where
  | ok                 -- returned normally
  | cerr               -- ConnectionError
  | assertion          -- AssertionError("already awaiting connected") (today's code only)
deriving Repr, DecidableEq, Inhabited

/-- the QUIC events the adapter looks at (everything else is `other`) -/
inductive Ev where
  | handshake
  | terminated
  | pingAck (uid : Nat)
  | issued (cid : CID)
  | retired (cid : CID)
  | data (sid : Nat) (d : Bytes) (fin : Bool)
  | other
deriving Repr, DecidableEq, Inhabited

/-- each flag switches one proposed fix OFF (reproduces the unchanged tree) -/
structure Quirks where
  noConnectedFlag : Bool := false   -- HandshakeCompleted sets `_connected` only if a waiter exists
  noClosedCheck : Bool := false     -- wait_connected()/ping() do not look at `_closed`
  assertSingle : Bool := false      -- wait_connected() asserts there is no other waiter
  deferTxEvents : Bool := false     -- transmit() leaves the events raised while sending in the queue
  sharedStreamId : Bool := false    -- create_stream() does not open the stream it returns
deriving Repr, DecidableEq, Inhabited

def Quirks.fixed : Quirks := {}
def Quirks.today : Quirks := ⟨true, true, true, true, true⟩

/-- asyncio.StreamReader as far as the adapter drives it -/
structure Reader where
  data : Bytes := []
  eof : Bool := false
deriving Repr, DecidableEq, Inhabited

structure Proto where
  connected : Bool := false                 -- _connected
  connWaiters : List WaiterId := []         -- callers awaiting _connected_waiter (future exists iff non-empty)
  pingWaiters : AL Nat WaiterId := []       -- _ping_waiters: uid -> caller
  closed : Bool := false                    -- _closed.is_set()
  closedWaiters : List WaiterId := []       -- callers inside _closed.wait()
  log : List (WaiterId × Res) := []         -- completions, in order
  timer : Option Nat := none                -- _timer (armed handle, with its deadline)
  timerAt : Option Nat := none              -- _timer_at
  transmitTask : Bool := false              -- _transmit_task is not None
  pendingSoon : Nat := 0                    -- call_soon(transmit) callbacks not yet run
  readers : AL Nat Reader := []             -- _stream_readers
  adapters : AL Nat Bool := []              -- newest QuicStreamAdapter per stream: `_closing`
  sent : AL Nat (Bytes × Nat) := []         -- what was passed to quic.send_stream_data: bytes, number of FINs
  deferred : List Ev := []                  -- (quirk) events left in the QUIC queue by transmit()
  -- ghost
  created : List WaiterId := []             -- every waiter ever started on this connection
  connCreated : List WaiterId := []         -- … by wait_connected()
  evLog : List Ev := []                     -- events processed, in order
  issuedG : List CID := []                  -- connection IDs the QUIC layer has issued (when it raised the event)
  retiredG : List CID := []                 -- … and seen retired
  -- assumption monitors (ghost): set when an INPUT departs from what the rest of the stack guarantees
  vEv : Bool := false      -- C01/C09: an event after ConnectionTerminated, or stream data after that stream's end_stream
  vCid : Bool := false     -- C18 / os.urandom: an issued ID that is already routed, a retired ID that is not live
  vUid : Bool := false     -- CPython: id(waiter) equal to the id of a live ping waiter
  vStream : Bool := false  -- QUIC layer: create_stream() given an ID that already has a reader, or after termination
  -- detector (ghost): `feed_data` was called on a reader that already had EOF
  feedAfterEof : Bool := false
  -- ghost: callers whose awaiting task the application cancelled while their waiter was still pending
  cancelled : List WaiterId := []
  -- detector (ghost): the server's retire handler raised (KeyError / AssertionError)
  retireFailed : Bool := false
deriving Repr, DecidableEq, Inhabited

def isFin (sid : Nat) : Ev → Bool
  | .data s _ f => s == sid && f
  | _ => false

def Proto.termSeen (p : Proto) : Bool := decide (Ev.terminated ∈ p.evLog)
def Proto.hsSeen (p : Proto) : Bool := decide (Ev.handshake ∈ p.evLog)
def Proto.finSeen (p : Proto) (sid : Nat) : Bool := p.evLog.any (isFin sid)
/-- the bytes of the StreamDataReceived events of stream `sid`, in order -/
def dataOf (sid : Nat) : List Ev → Bytes
  | [] => []
  | .data s d _ :: rest => if s = sid then d ++ dataOf sid rest else dataOf sid rest
  | _ :: rest => dataOf sid rest
/-- the waiters that have not been completed -/
def Proto.pending (p : Proto) : List WaiterId :=
  p.connWaiters ++ p.pingWaiters.map (·.2) ++ p.closedWaiters

abbrev Table := AL CID Nat

/-- what one protocol callback can touch: its own state and (through the three
    handlers the server installed) the server's routing table -/
structure PS where
  tbl : Table
  p : Proto
deriving Repr, DecidableEq, Inhabited

structure Ctx where
  q : Quirks
  self : Nat        -- index of this connection
  ss : Bool         -- server side: the handlers are the server's; client side: `lambda: None`
deriving Repr, DecidableEq

def completeAll (ws : List WaiterId) (r : Res) (log : List (WaiterId × Res)) : List (WaiterId × Res) :=
  log ++ ws.map (fun w => (w, r))

/-- ghost bookkeeping when event `ev` is taken from the queue; `note = false` for an event the
    QUIC layer raised in an earlier step (today's `transmit()` leaves those queued) -/
def observe (c : Ctx) (s : PS) (note : Bool) (ev : Ev) : Proto :=
  let p := s.p
  let okOrder := !p.termSeen && (match ev with | .data sid _ _ => !p.finSeen sid | _ => true)
  let okCid := match ev with
    | .issued cid => !c.ss || !(s.tbl.keys.contains cid)
    | .retired cid => !c.ss || ((p.issuedG.contains cid && !p.retiredG.contains cid) || !note)
    | _ => true
  let p := { p with vEv := p.vEv || !okOrder, vCid := p.vCid || !okCid, evLog := p.evLog ++ [ev] }
  if note then
    match ev with
    | .issued cid => { p with issuedG := p.issuedG ++ [cid] }
    | .retired cid => { p with retiredG := p.retiredG ++ [cid] }
    | _ => p
  else p

/-- one iteration of the `while event is not None` loop of `_process_events`,
    including `quic_event_received(event)` -/
def processEvent (c : Ctx) (s : PS) (nev : Bool × Ev) : PS × Option Err :=
  let ev := nev.2
  let s := { s with p := observe c s nev.1 ev }
  match ev with
  | .issued cid =>
    -- _connection_id_issued: self._protocols[cid] = protocol
    (if c.ss then { s with tbl := s.tbl.set cid c.self } else s, none)
  | .retired cid =>
    if c.ss then
      -- assert self._protocols[cid] == protocol; del self._protocols[cid]
      match s.tbl.get cid with
      | none => ({ s with p := { s.p with retireFailed := true } }, some (.py .key))
      | some o =>
        if o = c.self then ({ s with tbl := s.tbl.del cid }, none)
        else ({ s with p := { s.p with retireFailed := true } }, some (.py .assertion))
    else (s, none)
  | .terminated =>
    -- _connection_terminated: drop every entry of this protocol
    let tbl := if c.ss then s.tbl.filter (fun e => e.2 ≠ c.self) else s.tbl
    let p := s.p
    -- abort connection waiter, abort ping waiters, self._closed.set()
    let log := completeAll p.connWaiters .cerr p.log
    let log := completeAll (p.pingWaiters.map (·.2)) .cerr log
    let log := completeAll p.closedWaiters .ok log
    -- quic_event_received: feed_eof() on every reader
    let readers := p.readers.map (fun e => (e.1, { e.2 with eof := true }))
    ({ tbl := tbl, p := { p with connWaiters := [], pingWaiters := [], closed := true, closedWaiters := [],
                                 log := log, readers := readers } }, none)
  | .handshake =>
    let p := s.p
    if c.q.noConnectedFlag then
      if p.connWaiters.isEmpty then (s, none)
      else ({ s with p := { p with connected := true, log := completeAll p.connWaiters .ok p.log, connWaiters := [] } }, none)
    else
      ({ s with p := { p with connected := true, log := completeAll p.connWaiters .ok p.log, connWaiters := [] } }, none)
  | .pingAck uid =>
    let p := s.p
    match p.pingWaiters.get uid with
    | none => (s, none)
    | some w => ({ s with p := { p with pingWaiters := p.pingWaiters.del uid, log := p.log ++ [(w, .ok)] } }, none)
  | .data sid d fin =>
    let p := s.p
    -- reader = self._stream_readers.get(sid) or _create_stream(sid) (+ stream_handler)
    let (p, r) := match p.readers.get sid with
      | some r => (p, r)
      | none => ({ p with readers := p.readers.set sid {}, adapters := p.adapters.set sid false }, {})
    -- StreamReader.feed_data: assert not self._eof
    if r.eof then ({ s with p := { p with feedAfterEof := true } }, some (.py .assertion))
    else
      let r := { r with data := r.data ++ d }
      let r := if fin then { r with eof := true } else r
      ({ s with p := { p with readers := p.readers.set sid r } }, none)
  | .other => (s, none)

/-- `_process_events`: stops at the first exception (the rest stays queued in
    the QUIC connection) -/
def processEvents (c : Ctx) : PS → List (Bool × Ev) → PS × Option Err
  | s, [] => (s, none)
  | s, e :: es =>
    match processEvent c s e with
    | (s', some err) => (s', some err)
    | (s', none) => processEvents c s' es

/-- ghost: the QUIC layer has issued / seen retired these IDs now, although the events are only
    processed in a later step (today's `transmit()`) -/
def noteEmitted (p : Proto) (evs : List Ev) : Proto :=
  { p with
    issuedG := p.issuedG ++ evs.filterMap (fun e => match e with | .issued c => some c | _ => none),
    retiredG := p.retiredG ++ evs.filterMap (fun e => match e with | .retired c => some c | _ => none) }

def fresh (evs : List Ev) : List (Bool × Ev) := evs.map (fun e => (true, e))

/-- the timer part of `transmit()` -/
def rearm (p : Proto) (tat : Option Nat) : Proto :=
  let t1 := if p.timer.isSome ∧ p.timerAt ≠ tat then none else p.timer
  let t2 := if t1.isNone ∧ tat.isSome then tat else t1
  { p with timer := t2, timerAt := tat }

/-- `transmit()`; `txevs` = events the QUIC layer raised in `datagrams_to_send` -/
def transmit (c : Ctx) (s : PS) (tat : Option Nat) (txevs : List Ev) : PS × Option Err :=
  let s := { s with p := { s.p with transmitTask := false } }
  if c.q.deferTxEvents then
    ({ s with p := rearm (noteEmitted { s.p with deferred := s.p.deferred ++ txevs } txevs) tat }, none)
  else
    match processEvents c s (fresh txevs) with
    | (s, some e) => (s, some e)
    | (s, none) => ({ s with p := rearm s.p tat }, none)

/-- what `_process_events` finds in the queue -/
def queued (c : Ctx) (p : Proto) (evs : List Ev) : List (Bool × Ev) :=
  if c.q.deferTxEvents then p.deferred.map (fun e => (false, e)) ++ fresh evs else fresh evs

/-- `datagram_received`: receive_datagram; _process_events; transmit -/
def datagramReceived (c : Ctx) (s : PS) (tat : Option Nat) (evs txevs : List Ev) : PS × Option Err :=
  let all := queued c s.p evs
  let s := { s with p := { s.p with deferred := [] } }
  match processEvents c s all with
  | (s, some e) => (s, some e)
  | (s, none) => transmit c s tat txevs

/-- `_handle_timer` (only ever called by the armed timer handle) -/
def handleTimer (c : Ctx) (s : PS) (tat : Option Nat) (evs txevs : List Ev) : PS × Option Err :=
  let all := queued c s.p evs
  let s := { s with p := { s.p with deferred := [], timer := none, timerAt := none } }
  match processEvents c s all with
  | (s, some e) => (s, some e)
  | (s, none) => transmit c s tat txevs

/-- `_transmit_soon` -/
def transmitSoon (p : Proto) : Proto :=
  if p.transmitTask then p else { p with transmitTask := true, pendingSoon := p.pendingSoon + 1 }

/-- the scheduled `transmit` callback fires (or the application calls `transmit()`) -/
def transmitOp (c : Ctx) (s : PS) (tat : Option Nat) (txevs : List Ev) : PS × Option Err :=
  transmit c { s with p := { s.p with pendingSoon := s.p.pendingSoon - 1 } } tat txevs

/-- `wait_connected()` up to its first suspension; `w` is the caller -/
def waitConnected (c : Ctx) (p : Proto) (w : WaiterId) : Proto :=
  let p := { p with created := p.created ++ [w], connCreated := p.connCreated ++ [w] }
  if c.q.assertSingle ∧ ¬ p.connWaiters.isEmpty then { p with log := p.log ++ [(w, .assertion)] }
  else if p.connected then { p with log := p.log ++ [(w, .ok)] }
  else if ¬ c.q.noClosedCheck ∧ p.closed then { p with log := p.log ++ [(w, .cerr)] }
  else { p with connWaiters := p.connWaiters ++ [w] }

/-- `wait_closed()`: `await self._closed.wait()` -/
def waitClosed (p : Proto) (w : WaiterId) : Proto :=
  let p := { p with created := p.created ++ [w] }
  if p.closed then { p with log := p.log ++ [(w, .ok)] } else { p with closedWaiters := p.closedWaiters ++ [w] }

/-- `ping()` up to its first suspension; `uid = id(waiter)` is an input -/
def ping (c : Ctx) (s : PS) (w : WaiterId) (uid : Nat) (tat : Option Nat) (txevs : List Ev) : PS × Option Err :=
  let p := { s.p with created := s.p.created ++ [w] }
  if ¬ c.q.noClosedCheck ∧ p.closed then ({ s with p := { p with log := p.log ++ [(w, .cerr)] } }, none)
  else
    let p := { p with vUid := p.vUid || p.pingWaiters.keys.contains uid }
    transmit c { s with p := { p with pingWaiters := p.pingWaiters.set uid w } } tat txevs

/-- `close()`: quic.close(); transmit() -/
def close (c : Ctx) (s : PS) (tat : Option Nat) (txevs : List Ev) : PS × Option Err :=
  transmit c s tat txevs

/-- The application cancels the task that awaits waiter `w` (`task.cancel()`, `asyncio.wait_for` timing
    out, …) — a schedule event like any other.  `wait_connected()` and `ping()` await
    `asyncio.shield(waiter)`: the CancelledError is raised in the caller only, the waiter future is not
    cancelled and stays registered (`_connected_waiter`, `_ping_waiters[uid]`); `wait_closed()` awaits
    `asyncio.Event.wait()`, whose private future is removed by the Event itself.  So the adapter state does
    not change, and `set_result` / `set_exception` in `_process_events` always find a pending future: they
    never raise InvalidStateError.  The model records the cancellation as a ghost. -/
def cancelCaller (p : Proto) (w : WaiterId) : Proto :=
  if w ∈ p.pending then { p with cancelled := p.cancelled ++ [w] } else p

def sentAppend (sent : AL Nat (Bytes × Nat)) (sid : Nat) (d : Bytes) (fin : Bool) : AL Nat (Bytes × Nat) :=
  let (b, n) := (sent.get sid).getD ([], 0)
  sent.set sid (b ++ d, if fin then n + 1 else n)

/-- `create_stream()` for the stream ID the QUIC layer proposes -/
def createStream (c : Ctx) (p : Proto) (sid : Nat) : Proto :=
  let p := { p with vStream := p.vStream || p.readers.keys.contains sid || p.termSeen }
  let p := if c.q.sharedStreamId then p else { p with sent := sentAppend p.sent sid [] false }
  { p with readers := p.readers.set sid {}, adapters := p.adapters.set sid false }

/-- `QuicStreamAdapter.write` on the newest adapter of the stream (`none`: no such writer) -/
def write (p : Proto) (sid : Nat) (d : Bytes) : Option Proto :=
  match p.adapters.get sid with
  | none => none
  | some _ => some (transmitSoon { p with sent := sentAppend p.sent sid d false })

/-- `QuicStreamAdapter.write_eof` -/
def writeEof (p : Proto) (sid : Nat) : Option Proto :=
  match p.adapters.get sid with
  | none => none
  | some true => some p
  | some false => some (transmitSoon { p with adapters := p.adapters.set sid true, sent := sentAppend p.sent sid [] true })

/-! ## server -/

/-- a retry token is a sealed triple; `junk` is anything else an attacker sends -/
inductive Token where
  | empty
  | sealed (key : Nat) (addr : Nat) (odcid rscid : CID)
  | junk (n : Nat)
deriving Repr, DecidableEq, Inhabited

/-- retry.py `encode_address`: `ipaddress.ip_address(addr[0]).packed + bytes([addr[1] >> 8, addr[1] & 0xFF])`;
    `host` is the packed IP address (4 or 16 bytes); `bytes([x])` raises ValueError for `x > 255`.
    The abstract addresses (`Nat`) of the server model stand for these encodings: `validate_token`
    compares `encode_address` of the datagram's source with the sealed one. -/
def encodeAddress (host : Bytes) (port : Nat) : Outcome Bytes :=
  if port / 256 > 255 then .error (.py .value)
  else .ok (host ++ [UInt8.ofNat (port / 256), UInt8.ofNat (port % 256)])

/-- `QuicRetryTokenHandler.validate_token` for the handler holding `key` -/
def validate (key : Nat) (addr : Nat) : Token → Option (CID × CID)
  | .sealed k a o r => if k = key ∧ a = addr then some (o, r) else none
  | _ => none

/-- result of `pull_quic_header` as far as the demultiplexer uses it -/
inductive Hdr where
  | bad                                                        -- ValueError
  | unsupported                                                -- version not supported
  | h (dcid : CID) (initial : Bool) (big : Bool) (tok : Token) -- big: len(data) >= 1200
deriving Repr, DecidableEq, Inhabited

structure Conn where
  p : Proto := {}
  ss : Bool := false
deriving Repr, DecidableEq, Inhabited

/-- ghost record of a connection the server created -/
structure Created where
  conn : Nat
  addr : Nat
  odcid : CID
  rscid : Option CID
  underRetry : Bool
  dcid : CID := []       -- DCID of the datagram that created it
deriving Repr, DecidableEq, Inhabited

structure World where
  q : Quirks := {}
  conns : List Conn := []
  retry : Bool := false
  key : Nat := 0
  tbl : Table := []                               -- QuicServer._protocols
  tokens : List (Nat × CID × CID) := []           -- ghost: every (addr, odcid, rscid) sealed by create_token
  createdG : List Created := []
  nextWid : Nat := 0
  -- assumption monitors (ghost)
  vRand : Bool := false    -- os.urandom produced a connection ID that is already routed
  vSeal : Bool := false    -- a datagram carried a token sealed under the server's key that the server never issued
  vRetryDcid : Bool := false  -- peer: a token-bearing Initial whose DCID is not the source CID of the Retry it answers
deriving Repr, DecidableEq, Inhabited

inductive Action where
  | none | skip | nostream | noconn | drop | vn
  | retry (k : Nat)
  | new (c : Nat) (odcid : CID) (rscid : Option CID)
  | route (c : Nat)
deriving Repr, DecidableEq, Inhabited

structure Out where
  err : Option Err := none
  action : Action := .none
  conn : Option Nat := none
  logFrom : Nat := 0        -- completions of this step = the connection's log from here on
deriving Repr, DecidableEq, Inhabited

inductive Op where
  | newConn                                                            -- a client protocol is constructed
  | dgram (c : Nat) (tat : Option Nat) (evs txevs : List Ev)
  | timer (c : Nat) (tat : Option Nat) (evs txevs : List Ev)
  | transmit (c : Nat) (tat : Option Nat) (txevs : List Ev)
  | waitConn (c : Nat)
  | waitClosed (c : Nat)
  | ping (c : Nat) (uid : Nat) (tat : Option Nat) (txevs : List Ev)
  | close (c : Nat) (tat : Option Nat) (txevs : List Ev)
  | cancelCaller (c : Nat) (w : WaiterId)
  | mkStream (c : Nat) (sid : Nat)
  | write (c : Nat) (sid : Nat) (d : Bytes)
  | eof (c : Nat) (sid : Nat)
  | sdgram (addr : Nat) (hdr : Hdr) (rand : CID) (tat : Option Nat) (evs txevs : List Ev)
deriving Repr, DecidableEq, Inhabited

def World.ctx (w : World) (c : Nat) (k : Conn) : Ctx := { q := w.q, self := c, ss := k.ss }

/-- run a protocol callback of connection `c` -/
def World.onConn (w : World) (c : Nat) (f : Ctx → PS → PS × Option Err) (act : Action := .none) : World × Out :=
  match w.conns[c]? with
  | none => (w, { action := .noconn })
  | some k =>
    let (s, e) := f (w.ctx c k) { tbl := w.tbl, p := k.p }
    ({ w with tbl := s.tbl, conns := w.conns.set c { k with p := s.p } },
     { err := e, action := act, conn := some c, logFrom := k.p.log.length })

def World.onProto (w : World) (c : Nat) (f : Ctx → Proto → Proto) : World × Out :=
  w.onConn c (fun ctx s => ({ s with p := f ctx s.p }, none))

/-- ghost: the datagram carries a token sealed under this server's key that it never issued -/
def World.markSeal (w : World) (tok : Token) : World :=
  { w with vSeal := w.vSeal || (match tok with
      | .sealed k a o r => k == w.key && !(w.tokens.contains (a, o, r))
      | _ => false) }

/-- `create_token(addr, header.destination_cid, source_cid)` with `source_cid = os.urandom(8)` -/
def World.issueToken (w : World) (addr : Nat) (dcid rand : CID) : World :=
  { w with tokens := w.tokens ++ [(addr, dcid, rand)] }

/-- the connection IDs the server has handed to the client of a new connection: its host CID, and — when the
    connection is created from a token-bearing Initial under address validation — the DCID of that Initial, which
    is the source connection ID of the server's own Retry packet (monitor `vRetryDcid`: it equals the sealed one) -/
def serverIssued (rand dcid : CID) : Option CID → List CID
  | some _ => [rand, dcid]
  | none => [rand]

/-- "create new connection" + "register callbacks" + the two routing entries -/
def World.addServerConn (w : World) (addr : Nat) (dcid rand odcid : CID) (rscid : Option CID) : World :=
  let c := w.conns.length
  { w with conns := w.conns ++ [({ ss := true, p := { issuedG := serverIssued rand dcid rscid } } : Conn)],
           tbl := (w.tbl.set dcid c).set rand c,
           createdG := w.createdG ++ [⟨c, addr, odcid, rscid, w.retry, dcid⟩],
           vRand := w.vRand || ((w.tbl.set dcid c).keys.contains rand),
           vRetryDcid := w.vRetryDcid || (match rscid with | some r => decide (dcid ≠ r) | none => false) }

/-- `protocol.datagram_received(data, addr)` -/
def World.deliver (w : World) (c : Nat) (tat : Option Nat) (evs txevs : List Ev) (act : Action) : World × Out :=
  w.onConn c (fun ctx s => datagramReceived ctx s tat evs txevs) act

/-- `QuicServer.datagram_received` -/
def sdgram (w : World) (addr : Nat) (hdr : Hdr) (rand : CID) (tat : Option Nat) (evs txevs : List Ev) : World × Out :=
  match hdr with
  | .bad => (w, { action := .drop })
  | .unsupported => (w, { action := .vn })
  | .h dcid initial big tok =>
    let w := w.markSeal tok
    match w.tbl.get dcid with
    | some c => w.deliver c tat evs txevs (.route c)
    | none =>
      if big ∧ initial then
        if w.retry then
          match tok with
          | .empty => (w.issueToken addr dcid rand, { action := .retry w.tokens.length })
          | t =>
            match validate w.key addr t with
            | none => (w, { action := .drop })
            | some (o, r) =>
              (w.addServerConn addr dcid rand o (some r)).deliver w.conns.length tat evs txevs
                (.new w.conns.length o (some r))
        else
          (w.addServerConn addr dcid rand dcid none).deliver w.conns.length tat evs txevs
            (.new w.conns.length dcid none)
      else (w, { action := .drop })

def step (w : World) : Op → World × Out
  | .newConn => ({ w with conns := w.conns ++ [{}] }, { conn := some w.conns.length })
  | .dgram c tat evs txevs =>
    match w.conns[c]? with
    | some k => if k.ss then (w, { action := .noconn }) else w.onConn c (fun ctx s => datagramReceived ctx s tat evs txevs)
    | none => (w, { action := .noconn })
  | .timer c tat evs txevs =>
    match w.conns[c]? with
    | some k => if k.p.timer.isNone then (w, { action := .skip, conn := some c, logFrom := k.p.log.length })
                else w.onConn c (fun ctx s => handleTimer ctx s tat evs txevs)
    | none => (w, { action := .noconn })
  | .transmit c tat txevs => w.onConn c (fun ctx s => transmitOp ctx s tat txevs)
  | .waitConn c =>
    let (w', o) := w.onProto c (fun ctx p => waitConnected ctx p w.nextWid)
    ({ w' with nextWid := w.nextWid + 1 }, o)
  | .waitClosed c =>
    let (w', o) := w.onProto c (fun _ p => waitClosed p w.nextWid)
    ({ w' with nextWid := w.nextWid + 1 }, o)
  | .ping c uid tat txevs =>
    let (w', o) := w.onConn c (fun ctx s => ping ctx s w.nextWid uid tat txevs)
    ({ w' with nextWid := w.nextWid + 1 }, o)
  | .close c tat txevs => w.onConn c (fun ctx s => close ctx s tat txevs)
  | .cancelCaller c wd => w.onProto c (fun _ p => cancelCaller p wd)
  | .mkStream c sid => w.onProto c (fun ctx p => createStream ctx p sid)
  | .write c sid d =>
    match w.conns[c]? with
    | some k => match write k.p sid d with
      | none => (w, { action := .nostream, conn := some c, logFrom := k.p.log.length })
      | some _ => w.onProto c (fun _ p => (write p sid d).getD p)
    | none => (w, { action := .noconn })
  | .eof c sid =>
    match w.conns[c]? with
    | some k => match writeEof k.p sid with
      | none => (w, { action := .nostream, conn := some c, logFrom := k.p.log.length })
      | some _ => w.onProto c (fun _ p => (writeEof p sid).getD p)
    | none => (w, { action := .noconn })
  | .sdgram addr hdr rand tat evs txevs => sdgram w addr hdr rand tat evs txevs

def run (w : World) : List Op → World
  | [] => w
  | op :: ops => run (step w op).1 ops

end AQ.Adapter
