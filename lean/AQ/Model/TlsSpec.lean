import AQ.Gen.TlsMachine
/-
  Specification side of C11 / C03, written from the RFCs (NOT from the code):

  * RFC 8446 Appendix A.1 / A.2 state machines and §4 message flow, with the
    QUIC restrictions of RFC 9001 (§8.3: EndOfEarlyData is never sent, §6:
    KeyUpdate messages are forbidden) and without post-handshake client
    authentication (the `post_handshake_auth` extension is never offered, so a
    post-handshake CertificateRequest must be refused, RFC 8446 §4.6.2) and
    without certificate compression (extension never offered).
  * which verification must precede the release of which traffic secret
    (RFC 8446 §7.1 key schedule, §4.4 authentication messages).
-/
namespace AQ.TlsSpec
open AQ.Gen.Tls

/-- states of RFC 8446 Appendix A (client A.1, server A.2) -/
inductive Rfc where
  | cSTART | cWAIT_SH | cWAIT_EE | cWAIT_CERT_CR | cWAIT_CERT | cWAIT_CV | cWAIT_FINISHED | cCONNECTED
  | sSTART | sWAIT_CERT | sWAIT_CV | sWAIT_FINISHED | sCONNECTED
  deriving DecidableEq, Repr

/-- the handshake message types the RFC lets the peer send next in each state -/
def Rfc.next : Rfc → List HT
  | .cSTART => []                                   -- nothing is expected before ClientHello is sent
  | .cWAIT_SH => [.SERVER_HELLO]                    -- ServerHello or HelloRetryRequest (same type)
  | .cWAIT_EE => [.ENCRYPTED_EXTENSIONS]
  | .cWAIT_CERT_CR => [.CERTIFICATE_REQUEST, .CERTIFICATE]
  | .cWAIT_CERT => [.CERTIFICATE]
  | .cWAIT_CV => [.CERTIFICATE_VERIFY]
  | .cWAIT_FINISHED => [.FINISHED]
  | .cCONNECTED => [.NEW_SESSION_TICKET]            -- KeyUpdate forbidden in QUIC; no post-handshake auth
  | .sSTART => [.CLIENT_HELLO]
  | .sWAIT_CERT => [.CERTIFICATE]
  | .sWAIT_CV => [.CERTIFICATE_VERIFY]
  | .sWAIT_FINISHED => [.FINISHED]                  -- EndOfEarlyData forbidden in QUIC
  | .sCONNECTED => []                               -- KeyUpdate forbidden in QUIC

/-- the RFC state each implementation state stands for -/
def rfcState : St → Rfc
  | .CLIENT_HANDSHAKE_START => .cSTART
  | .CLIENT_EXPECT_SERVER_HELLO => .cWAIT_SH
  | .CLIENT_EXPECT_ENCRYPTED_EXTENSIONS => .cWAIT_EE
  | .CLIENT_EXPECT_CERTIFICATE_REQUEST_OR_CERTIFICATE => .cWAIT_CERT_CR
  | .CLIENT_EXPECT_CERTIFICATE => .cWAIT_CERT
  | .CLIENT_EXPECT_CERTIFICATE_VERIFY => .cWAIT_CV
  | .CLIENT_EXPECT_FINISHED => .cWAIT_FINISHED
  | .CLIENT_POST_HANDSHAKE => .cCONNECTED
  | .SERVER_EXPECT_CLIENT_HELLO => .sSTART
  | .SERVER_EXPECT_CERTIFICATE => .sWAIT_CERT
  | .SERVER_EXPECT_CERTIFICATE_VERIFY => .sWAIT_CV
  | .SERVER_EXPECT_FINISHED => .sWAIT_FINISHED
  | .SERVER_POST_HANDSHAKE => .sCONNECTED

def rfcAllows (s : St) (t : HT) : Bool := (rfcState s).next.contains t

def isClientState : St → Bool
  | .CLIENT_HANDSHAKE_START | .CLIENT_EXPECT_SERVER_HELLO | .CLIENT_EXPECT_ENCRYPTED_EXTENSIONS
  | .CLIENT_EXPECT_CERTIFICATE_REQUEST_OR_CERTIFICATE | .CLIENT_EXPECT_CERTIFICATE
  | .CLIENT_EXPECT_CERTIFICATE_VERIFY | .CLIENT_EXPECT_FINISHED | .CLIENT_POST_HANDSHAKE => true
  | _ => false

/-- RFC 8446 §2 / §4: the only server flights after ServerHello that let a
    client finish — certificate authentication (with or without a
    CertificateRequest) or, when a PSK was accepted, none -/
def legalServerFlight (resumed : Bool) : List (List HT) :=
  if resumed then [[.ENCRYPTED_EXTENSIONS, .FINISHED]]
  else [[.ENCRYPTED_EXTENSIONS, .CERTIFICATE, .CERTIFICATE_VERIFY, .FINISHED],
        [.ENCRYPTED_EXTENSIONS, .CERTIFICATE_REQUEST, .CERTIFICATE, .CERTIFICATE_VERIFY, .FINISHED]]

/-- RFC 8446 §4.4: client flight after the server Finished: Finished alone, or
    Certificate [CertificateVerify] Finished when a certificate was requested -/
def legalClientFlight (requested : Bool) : List (List HT) :=
  if requested then [[.CERTIFICATE, .FINISHED], [.CERTIFICATE, .CERTIFICATE_VERIFY, .FINISHED]]
  else [[.FINISHED]]

/-- RFC 8446 Appendix A.1, transitions of the client after ServerHello
    (`psk` = the server accepted the offered pre-shared key) -/
def clientNext (psk : Bool) : St → HT → Option St
  | .CLIENT_EXPECT_ENCRYPTED_EXTENSIONS, .ENCRYPTED_EXTENSIONS =>
      some (if psk then .CLIENT_EXPECT_FINISHED else .CLIENT_EXPECT_CERTIFICATE_REQUEST_OR_CERTIFICATE)
  | .CLIENT_EXPECT_CERTIFICATE_REQUEST_OR_CERTIFICATE, .CERTIFICATE_REQUEST => some .CLIENT_EXPECT_CERTIFICATE
  | .CLIENT_EXPECT_CERTIFICATE_REQUEST_OR_CERTIFICATE, .CERTIFICATE => some .CLIENT_EXPECT_CERTIFICATE_VERIFY
  | .CLIENT_EXPECT_CERTIFICATE, .CERTIFICATE => some .CLIENT_EXPECT_CERTIFICATE_VERIFY
  | .CLIENT_EXPECT_CERTIFICATE_VERIFY, .CERTIFICATE_VERIFY => some .CLIENT_EXPECT_FINISHED
  | .CLIENT_EXPECT_FINISHED, .FINISHED => some .CLIENT_POST_HANDSHAKE
  | .CLIENT_POST_HANDSHAKE, .NEW_SESSION_TICKET => some .CLIENT_POST_HANDSHAKE
  | _, _ => none

/-- RFC 8446 Appendix A.2, transitions of the server after its own flight
    (`cert` = the client's Certificate message carries a certificate) -/
def serverNext (cert : Bool) : St → HT → Option St
  | .SERVER_EXPECT_CERTIFICATE, .CERTIFICATE =>
      some (if cert then .SERVER_EXPECT_CERTIFICATE_VERIFY else .SERVER_EXPECT_FINISHED)
  | .SERVER_EXPECT_CERTIFICATE_VERIFY, .CERTIFICATE_VERIFY => some .SERVER_EXPECT_FINISHED
  | .SERVER_EXPECT_FINISHED, .FINISHED => some .SERVER_POST_HANDSHAKE
  | _, _ => none

def clientPath (psk : Bool) : St → List HT → Option St
  | s, [] => some s
  | s, t :: ts => match clientNext psk s t with
    | some s' => clientPath psk s' ts
    | none => none

def afterServerHello : St → Bool
  | .CLIENT_EXPECT_ENCRYPTED_EXTENSIONS | .CLIENT_EXPECT_CERTIFICATE_REQUEST_OR_CERTIFICATE
  | .CLIENT_EXPECT_CERTIFICATE | .CLIENT_EXPECT_CERTIFICATE_VERIFY | .CLIENT_EXPECT_FINISHED
  | .CLIENT_POST_HANDSHAKE => true
  | _ => false

def isVerifyFinished : Act → Bool | .verifyFinished _ => true | _ => false
def isVerifyBinder : Act → Bool | .verifyBinder _ => true | _ => false

/-- RFC 8446 §7.1 / §4.4.4: what must have been done, in the same handler run,
    before a traffic secret of (direction, epoch) is handed to QUIC.
    `client = true` for the client role. -/
def keyGuard (client : Bool) (d : Dir) (e : Epoch) : Act → Bool :=
  match client, d, e with
  -- handshake secrets exist only once the peer's hello was parsed and the
  -- (EC)DHE secret was mixed in
  | true, .DECRYPT, .HANDSHAKE => fun a => a == .extract .main
  | true, .ENCRYPT, .HANDSHAKE => fun a => a == .parse .ENCRYPTED_EXTENSIONS
  | false, _, .HANDSHAKE => fun a => a == .extract .main
  -- application secrets: a client installs them only after the server Finished verified
  | true, _, .ONE_RTT => isVerifyFinished
  -- a server may send 0.5-RTT data once its own Finished is computed ..
  | false, .ENCRYPT, .ONE_RTT => fun a => a == .pushMessage .FINISHED true .main
  -- .. but reads application data only after the client Finished verified
  | false, .DECRYPT, .ONE_RTT => isVerifyFinished
  -- early data: the client derives it from the PSK it offers (binder computed);
  -- the server accepts it only after the binder verified
  | true, .ENCRYPT, .ZERO_RTT => fun a => a == .computeMac .binder .psk
  | false, .DECRYPT, .ZERO_RTT => isVerifyBinder
  -- nothing else is ever released
  | _, _, _ => fun _ => false

/-- RFC 8446 §4.4.1: the Transcript-Hash input, as message types in wire order,
    at the moment each authentication value is computed or checked -/
def transcriptBeforeServerCV (cr : Bool) : List HT :=
  [.CLIENT_HELLO, .SERVER_HELLO, .ENCRYPTED_EXTENSIONS] ++ (if cr then [.CERTIFICATE_REQUEST] else []) ++ [.CERTIFICATE]

def transcriptBeforeServerFinished (resumed cr : Bool) : List HT :=
  if resumed then [.CLIENT_HELLO, .SERVER_HELLO, .ENCRYPTED_EXTENSIONS]
  else transcriptBeforeServerCV cr ++ [.CERTIFICATE_VERIFY]


/-! ### required order of hashing, authentication and key derivation

Written from RFC 8446 §4.4.1 (Transcript-Hash = hash of all handshake messages in
wire order, each whole), §4.4.3 (CertificateVerify signs the transcript up to and
including Certificate), §4.4.4 (Finished MACs the transcript up to and including
CertificateVerify, resp. the peer Finished / own Certificate* for the client),
§4.2.11.2 (binder over the ClientHello truncated before the binders list), §7.1
(which transcript each secret label is derived over):

    early secret:      "res binder", "c e traffic"  over (truncated) ClientHello
    handshake secret:  "c hs traffic", "s hs traffic"  over ClientHello..ServerHello
    master secret:     "c ap traffic", "s ap traffic"  over ClientHello..server Finished

Each entry: guard (tests of tls.py that select the RFC's optional parts) and
action; the list is the order in which the RFC requires them. -/

abbrev Ord := List (List (Test × Bool) × Act)

def whenL (c : List (Test × Bool)) (l : List Act) : Ord := l.map fun a => (c, a)
def always (l : List Act) : Ord := whenL [] l

/-- server: "anticipate" the client Finished — MAC over the transcript before it, then hash it;
    the NewSessionTicket that may follow is NOT part of the transcript (hashed = false) -/
def expectClientFinished (c : List (Test × Bool)) : Ord :=
  whenL c [.computeMac .dec .main, .updateHash .main .anticipatedFinished] ++
  whenL (c ++ [(.sef_send_ticket, true)]) [.pushMessage .NEW_SESSION_TICKET false .none]

def orderSpec : Fn → Ord
  | .client_send_hello =>
      -- offered PSK: early secret, binder over the truncated hello, then the binders are hashed
      whenL [(.hello_ticket_valid, true)]
        [.extract .psk, .derive .res_binder .psk, .updateHash .psk .beforeBinders, .computeMac .binder .psk,
         .updateHash .psk .binders] ++
      whenL [(.hello_ticket_valid, true), (.hello_early_data, true)]
        [.derive .c_e_traffic .psk, .releaseKey .ENCRYPT .ZERO_RTT] ++
      always [.extract .proxy, .pushMessage .CLIENT_HELLO true .proxy]
  | .client_handle_hello =>
      always [.parse .SERVER_HELLO, .updateHash .main .whole, .extract .main,
              .derive .s_hs_traffic .main, .releaseKey .DECRYPT .HANDSHAKE]
  | .client_handle_encrypted_extensions =>
      -- "c hs traffic" is over ClientHello..ServerHello: derived BEFORE EncryptedExtensions is hashed
      always [.parse .ENCRYPTED_EXTENSIONS, .derive .c_hs_traffic .main, .releaseKey .ENCRYPT .HANDSHAKE,
              .updateHash .main .whole]
  | .client_handle_certificate_request => always [.parse .CERTIFICATE_REQUEST, .updateHash .main .whole]
  | .client_handle_certificate => always [.parse .CERTIFICATE, .updateHash .main .whole]
  | .client_handle_certificate_verify =>
      -- the signature covers the transcript up to Certificate: verified BEFORE CertificateVerify is hashed
      always [.parse .CERTIFICATE_VERIFY, .verifySig] ++ whenL [(.cv_verify_required, true)] [.verifyCert] ++
      always [.updateHash .main .whole]
  | .client_handle_finished =>
      always [.parse .FINISHED, .computeMac .dec .main, .verifyFinished .AlertDecryptError, .updateHash .main .whole,
              .extract .main, .derive .s_ap_traffic .main, .releaseKey .DECRYPT .ONE_RTT,
              .derive .c_ap_traffic .main] ++
      whenL [(.fin_cert_requested, true)] [.pushMessage .CERTIFICATE true .main] ++
      whenL [(.fin_cert_requested, true), (.fin_have_sigalg, true)]
        [.sign .client, .pushMessage .CERTIFICATE_VERIFY true .main] ++
      always [.computeMac .enc .main, .pushMessage .FINISHED true .main, .releaseKey .ENCRYPT .ONE_RTT]
  | .client_handle_new_session_ticket => always [.parse .NEW_SESSION_TICKET]
  | .server_handle_hello =>
      always [.parse .CLIENT_HELLO] ++
      whenL [(.sh_psk_offered, true), (.sh_ticket_ok, true)]
        [.extract .main, .derive .res_binder .main, .updateHash .main .beforeBinders, .computeMac .binder .main,
         .verifyBinder .AlertHandshakeFailure, .updateHash .main .binders] ++
      whenL [(.sh_psk_offered, true), (.sh_ticket_ok, true), (.sh_early_data, true)]
        [.derive .c_e_traffic .main, .releaseKey .DECRYPT .ZERO_RTT] ++
      whenL [(.sh_no_psk_a, true)] [.extract .main, .updateHash .main .whole] ++
      always [.pushMessage .SERVER_HELLO true .main, .extract .main,
              .derive .s_hs_traffic .main, .releaseKey .ENCRYPT .HANDSHAKE,
              .derive .c_hs_traffic .main, .releaseKey .DECRYPT .HANDSHAKE,
              .pushMessage .ENCRYPTED_EXTENSIONS true .main] ++
      whenL [(.sh_no_psk_b, true), (.sh_request_cert_a, true)] [.pushMessage .CERTIFICATE_REQUEST true .main] ++
      whenL [(.sh_no_psk_b, true)]
        [.pushMessage .CERTIFICATE true .main, .sign .server, .pushMessage .CERTIFICATE_VERIFY true .main] ++
      always [.computeMac .enc .main, .pushMessage .FINISHED true .main, .extract .main,
              .derive .s_ap_traffic .main, .releaseKey .ENCRYPT .ONE_RTT, .derive .c_ap_traffic .main] ++
      expectClientFinished [(.sh_request_cert_b, false)]
  | .server_handle_certificate =>
      always [.parse .CERTIFICATE, .updateHash .main .whole] ++ expectClientFinished [(.scert_nonempty, false)]
  | .server_handle_certificate_verify =>
      always [.parse .CERTIFICATE_VERIFY, .verifySig, .updateHash .main .whole] ++ expectClientFinished []
  | .server_handle_finished =>
      always [.parse .FINISHED, .verifyFinished .AlertDecryptError, .releaseKey .DECRYPT .ONE_RTT]
  | .server_expect_finished => expectClientFinished []
  | .check_certificate_verify_signature => []
  | .set_peer_certificate => []

end AQ.TlsSpec
