/-
  Model of the anti-amplification ledger of aioquic/quic/connection.py:
  `QuicNetworkPath` (bytes_received / bytes_sent / is_validated), the path list
  `_network_paths` (index 0 = where datagrams go), the accounting at the top of
  `receive_datagram`, path validation / promotion, and the budgets
  `datagrams_to_send` hands to the packet builder:

      max_flight_bytes = cwnd - bytes_in_flight   (at least one datagram when a probe is pending)
      max_total_bytes  = 3 * bytes_received - bytes_sent   when path 0 is not validated

  Follows the code WITH fixes/C13-close-amplification.diff applied (the budget
  is also set when a CONNECTION_CLOSE is sent).
-/
import AQ.Model.Builder

namespace AQ.Amp
open AQ AQ.Builder

/-- QuicNetworkPath -/
structure Path where
  addr : Nat
  bytesReceived : Nat := 0
  bytesSent : Nat := 0
  validated : Bool := false
deriving Repr, DecidableEq, Inhabited

/-- `QuicNetworkPath.can_send(size)` -/
def Path.canSend (p : Path) (size : Nat) : Bool := p.validated || p.bytesSent + size ≤ 3 * p.bytesReceived

/-- `builder.max_total_bytes` as set by `datagrams_to_send` -/
def Path.maxTotal (p : Path) : Option Int :=
  if p.validated then none else some ((p.bytesReceived : Int) * 3 - p.bytesSent)

/-- `builder.max_flight_bytes` as set by `datagrams_to_send` (not on the close path) -/
def maxFlight (cwnd bytesInFlight : Int) (probePending : Bool) (mds : Nat) : Int :=
  if probePending && cwnd - bytesInFlight < mds then mds else cwnd - bytesInFlight

structure Net where
  paths : List Path := []        -- `_network_paths`
deriving Repr, Inhabited

/-- the parameters of one `datagrams_to_send` call that reach the builder -/
structure SendCall where
  isClient : Bool
  maxDatagramSize : Nat
  peerCidLen : Nat
  hostCidLen : Nat
  tokenLen : Nat
  packetNumber : Nat
  /-- `none` on the close path (no congestion budget there) -/
  flight : Option Int
  /-- the builder calls made by `_write_handshake` / `_write_application` /
      the close path, ending with `flush()` -/
  ops : List Builder.Op

inductive Op where
  /-- top of `receive_datagram` for a datagram from the address of `paths[i]` -/
  | rx (i : Nat) (len : Nat)
  /-- a datagram from an unknown address: a fresh QuicNetworkPath counts it; it
      joins the list (at the end) only if a packet of the datagram was accepted -/
  | rxNew (addr : Nat) (len : Nat) (accepted : Bool)
  /-- server initialisation on the first Initial: `_network_paths = [network_path]` -/
  | rxFirst (addr : Nat) (len : Nat)
  /-- a Handshake packet arrived on `paths[i]` / a PATH_RESPONSE matched the challenge sent on it -/
  | validate (i : Nat)
  /-- "Network path promoted": move `paths[i]` to the front -/
  | promote (i : Nat)
  | send (c : SendCall)

def builderCfg (p : Path) (c : SendCall) : Cfg :=
  { isClient := c.isClient, maxDatagramSize := c.maxDatagramSize, peerCidLen := c.peerCidLen,
    hostCidLen := c.hostCidLen, tokenLen := c.tokenLen, maxFlight := c.flight, maxTotal := p.maxTotal }

/-- the datagrams one `datagrams_to_send` call returns -/
def sendOut (p : Path) (c : SendCall) : List Dgram :=
  let r := Builder.run (St.init (builderCfg p c) c.packetNumber) c.ops
  r.1.out ++ r.1.datagrams

def totalSize : List Dgram → Nat
  | [] => 0
  | d :: ds => d.size + totalSize ds

/-- the loop at the end of `datagrams_to_send`: `network_path.bytes_sent += payload_length`
    for every datagram returned (they all go to `_network_paths[0]`) -/
def sent (n : Net) (total : Nat) : Net :=
  match n.paths with
  | [] => n
  | p :: rest => { paths := { p with bytesSent := p.bytesSent + total } :: rest }

/-- what `datagrams_to_send` looks at when it sets the builder budgets.
    `pingPending` (application PINGs queued by `send_ping`) is listed to make
    explicit that it plays no role: only a loss-detection probe may exceed the window. -/
structure SendIn where
  cwnd : Int
  bytesInFlight : Int
  probePending : Bool
  pingPending : Bool
  closePending : Bool
  maxDatagramSize : Nat
deriving Repr, Inhabited

/-- `builder.max_flight_bytes` for this call (`none`: the close branch sets no congestion budget) -/
def flightBudget (i : SendIn) : Option Int :=
  if i.closePending then none else some (maxFlight i.cwnd i.bytesInFlight i.probePending i.maxDatagramSize)

/-- `builder.max_total_bytes` for this call: path 0's remaining anti-amplification budget,
    in the normal and in the close branch -/
def totalBudget (n : Net) : Option Int :=
  match n.paths with
  | [] => none
  | p :: _ => p.maxTotal

/-- a whole `datagrams_to_send` call: budgets from the connection state, the builder
    calls of the three packet-number spaces (a QuicPacketBuilderStop raised in one
    space is caught there and the next space goes on: `Builder.run` continues after
    `stop`), `flush()`, ledger update -/
def connSendCall (i : SendIn) (isClient : Bool) (peerCidLen hostCidLen tokenLen pn : Nat) (ops : List Builder.Op) : SendCall :=
  { isClient := isClient, maxDatagramSize := i.maxDatagramSize, peerCidLen := peerCidLen, hostCidLen := hostCidLen,
    tokenLen := tokenLen, packetNumber := pn, flight := flightBudget i, ops := ops }

def step (n : Net) : Op → Net
  | .rx i len =>
    match n.paths[i]? with
    | none => n
    | some p => if p.validated then n else { paths := n.paths.set i { p with bytesReceived := p.bytesReceived + len } }
  | .rxNew addr len accepted =>
    if accepted then { paths := n.paths ++ [{ addr := addr, bytesReceived := len }] } else n
  | .rxFirst addr len => { paths := [{ addr := addr, bytesReceived := len }] }
  | .validate i =>
    match n.paths[i]? with
    | none => n
    | some p => { paths := n.paths.set i { p with validated := true } }
  | .promote i =>
    match n.paths[i]? with
    | none => n
    | some p => { paths := p :: n.paths.eraseIdx i }
  | .send c =>
    match n.paths with
    | [] => n          -- (IndexError before fixes/C09-no-network-path.diff; nothing is sent)
    | p :: _ => sent n (totalSize (sendOut p c))

def run (n : Net) : List Op → Net
  | [] => n
  | op :: ops => run (step n op) ops

end AQ.Amp
