/-
  Flow control and stream-count limits of aioquic/quic/connection.py, SEND side
  (property C06), statement by statement, on top of the stream halves of
  AQ.Model.Stream.

  Modelled against the code WITH the fixes
    fixes/C06-unblock-any-order.diff            (_unblock_streams; commit 913dd4b)
    fixes/C07-limit-raised-when-advertised.diff (_write_connection_limits, _write_stream_limits; 1778857)
    fixes/C07-reset-final-size-accounting.diff  (QuicStreamReceiver.handle_reset; 58d6e6f)
    fixes/C06-no-reopen-finished-stream.diff    (_get_or_create_stream_for_send; 51656a6)
  applied; `Quirks` reproduces the earlier behaviour of each of them.

  What is an INPUT of a step (model nondeterminism, never guessed):
    * the packet builder: whether `builder.start_frame` raises
      QuicPacketBuilderStop (`room` booleans) and the `remaining_flight_space`
      seen by `_write_stream_frame` (`flightSpace : Int`);
    * the order in which `_write_application` serves the streams (one `serve`
      step = one iteration of the `for stream in self._streams_queue` loop);
    * delivery reports (ack / loss) of the recovery layer;
    * the values carried by received frames and transport parameters.
  Not modelled (no influence on the property): `_streams_queue` order,
  `_local_next_stream_id_*`, `_streams_blocked_pending`, events, logging.
  Stream ids, offsets, limits are non-negative (decoded varints / `Nat`).
-/
import AQ.Model.Stream

namespace AQ.Flow
open AQ AQ.Stream

def UINT_VAR_MAX : Nat := 0x3FFFFFFFFFFFFFFF
def STREAM_COUNT_MAX : Nat := 0x1000000000000000

/-! QuicErrorCode -/
def FLOW_CONTROL_ERROR : Nat := 3
def STREAM_LIMIT_ERROR : Nat := 4
def STREAM_STATE_ERROR : Nat := 5
def FINAL_SIZE_ERROR : Nat := 6
def FRAME_ENCODING_ERROR : Nat := 7
def PROTOCOL_VIOLATION : Nat := 10
def CONNECTION_ID_LIMIT_ERROR : Nat := 9
def CRYPTO_BUFFER_EXCEEDED : Nat := 13

/-- behaviour switches reproducing the code before the proposed fixes -/
structure Quirks where
  /-- `_unblock_streams` only pops while the HEAD of the blocked list is allowed -/
  unblockHeadOnly : Bool := false
  /-- `_write_connection_limits` / `_write_stream_limits` double the enforced
      value before `start_frame` (which may raise) -/
  raiseBeforeWrite : Bool := false
  /-- `handle_reset` leaves `receiver.highest_offset` unchanged -/
  resetKeepsHighest : Bool := false
  /-- `_get_or_create_stream_for_send` silently creates a fresh stream object for
      an id whose stream was finished and discarded -/
  reopenFinished : Bool := false
  /-- `_parse_transport_parameters` assigns the handshake parameters of a server that
      accepted 0-RTT without comparing them with the remembered ones -/
  acceptReducedParams : Bool := false
deriving Repr, DecidableEq, Inhabited

/-- `buffer.size_uint_var` (ValueError beyond 2^62-1) -/
def sizeUintVar (v : Nat) : Outcome Nat :=
  if v ≤ 0x3F then .ok 1
  else if v ≤ 0x3FFF then .ok 2
  else if v ≤ 0x3FFFFFFF then .ok 4
  else if v ≤ 0x3FFFFFFFFFFFFFFF then .ok 8
  else .error (.py .value)

/-- class `Limit` -/
structure Limit where
  value : Nat
  sent : Nat
  used : Nat := 0
deriving Repr, DecidableEq, Inhabited

def Limit.init (v : Nat) : Limit := { value := v, sent := v, used := 0 }

/-- class `QuicStream` (+ `receiver.stop_pending`) -/
structure Strm where
  sid : Nat
  isBlocked : Bool := false
  maxLocal : Nat := 0        -- max_stream_data_local
  maxLocalSent : Nat := 0    -- max_stream_data_local_sent
  maxRemote : Nat := 0       -- max_stream_data_remote
  recv : Recv := {}
  send : Send := {}
  stopPending : Bool := false
deriving Repr, DecidableEq, Inhabited

/-- `QuicStream.is_finished` -/
def Strm.isFinished (s : Strm) : Bool := s.recv.finished && s.send.finished

/-- `QuicStream(stream_id, max_stream_data_local, max_stream_data_remote, writable)` -/
def Strm.create (sid maxLocal maxRemote : Nat) (writable : Bool) : Strm :=
  { sid := sid, maxLocal := maxLocal, maxLocalSent := maxLocal, maxRemote := maxRemote,
    send := Send.init writable }

/-- the flow-control relevant attributes of `QuicConnection` -/
structure Conn where
  isClient : Bool := true
  -- limits received from the peer
  remoteMaxData : Nat := 0
  remoteMaxDataUsed : Nat := 0
  remoteMaxStreamDataBidiLocal : Nat := 0
  remoteMaxStreamDataBidiRemote : Nat := 0
  remoteMaxStreamDataUni : Nat := 0
  remoteMaxStreamsBidi : Nat := 0
  remoteMaxStreamsUni : Nat := 0
  -- limits this endpoint grants
  localMaxData : Limit := Limit.init 0
  localMaxStreamDataBidiLocal : Nat := 0
  localMaxStreamDataBidiRemote : Nat := 0
  localMaxStreamDataUni : Nat := 0
  localMaxStreamsBidi : Limit := Limit.init 128
  localMaxStreamsUni : Limit := Limit.init 128
  -- `_streams` (dict, insertion order), blocked lists (stream ids), `_streams_finished`
  streams : List Strm := []
  blockedBidi : List Nat := []
  blockedUni : List Nat := []
  finishedIds : List Nat := []
  -- ghost state: what the discarded stream objects had sent / received
  goneSent : Nat := 0
  goneRecv : Nat := 0
  quirks : Quirks := {}
deriving Repr, Inhabited

/-- frames written into the packet by a step (what the wire oracle sees) -/
inductive WFrame where
  | stream (sid off len : Nat) (fin : Bool)
  | resetStream (sid finalSize : Nat)
  | stopSending (sid : Nat)
  | maxData (v : Nat)
  | maxStreams (uni : Bool) (v : Nat)
  | maxStreamData (sid v : Nat)
deriving Repr, DecidableEq, Inhabited

/-- result of a step: the exception that escaped the modelled function (if
    any), the frames written before it, and what `_write_stream_frame`
    returned (`used`). -/
structure Out where
  err : Option Err := none
  frames : List WFrame := []
  /-- `StreamFinishedError`, swallowed by `_payload_received` -/
  ignored : Bool := false
  /-- the stream was discarded by the write loop -/
  discarded : Bool := false
  used : Nat := 0
deriving Repr, DecidableEq, Inhabited

def Out.error (e : Err) : Out := { err := some e }
def Out.connError (code : Nat) : Out := { err := some (.conn code) }

/-! ## stream ids -/

/-- `stream_is_client_initiated` -/
def clientInitiated (sid : Nat) : Bool := sid % 2 == 0
/-- `stream_is_unidirectional` -/
def unidirectional (sid : Nat) : Bool := sid / 2 % 2 == 1

/-- `_stream_can_receive` -/
def Conn.canReceive (c : Conn) (sid : Nat) : Bool :=
  (clientInitiated sid != c.isClient) || !unidirectional sid
/-- `_stream_can_send` -/
def Conn.canSend (c : Conn) (sid : Nat) : Bool :=
  (clientInitiated sid == c.isClient) || !unidirectional sid

/-! ## the `_streams` dict -/

def Conn.find? (c : Conn) (sid : Nat) : Option Strm := c.streams.find? (fun s => s.sid == sid)

def setIn (st : Strm) : List Strm → List Strm
  | [] => []
  | x :: xs => if x.sid == st.sid then st :: xs else x :: setIn st xs

/-- mutation of the stream object with id `st.sid` -/
def Conn.setStrm (c : Conn) (st : Strm) : Conn := { c with streams := setIn st c.streams }

def Conn.addStrm (c : Conn) (st : Strm) : Conn := { c with streams := c.streams ++ [st] }

/-! ## send side: API -/

/-- `_get_or_create_stream_for_send` -/
def getOrCreateStreamForSend (c : Conn) (sid : Nat) : Outcome (Conn × Strm) :=
  if !c.canSend sid then .error (.py .value) else
  match c.find? sid with
  | some st => .ok (c, st)
  | none =>
    -- the stream was created, but its state was since discarded
    if !c.quirks.reopenFinished && c.finishedIds.contains sid then .error (.py .value) else
    if clientInitiated sid != c.isClient then .error (.py .value) else
    if unidirectional sid then
      let st := Strm.create sid 0 c.remoteMaxStreamDataUni true
      if sid / 4 ≥ c.remoteMaxStreamsUni then
        let st := { st with isBlocked := true }
        .ok ({ c.addStrm st with blockedUni := c.blockedUni ++ [sid] }, st)
      else .ok (c.addStrm st, st)
    else
      let st := Strm.create sid c.localMaxStreamDataBidiLocal c.remoteMaxStreamDataBidiRemote true
      if sid / 4 ≥ c.remoteMaxStreamsBidi then
        let st := { st with isBlocked := true }
        .ok ({ c.addStrm st with blockedBidi := c.blockedBidi ++ [sid] }, st)
      else .ok (c.addStrm st, st)

/-- `send_stream_data(stream_id, data, end_stream)` -/
def sendStreamData (c : Conn) (sid : Nat) (data : Bytes) (fin : Bool) : Conn × Out :=
  match getOrCreateStreamForSend c sid with
  | .error e => (c, Out.error e)
  | .ok (c', st) =>
    match write st.send data fin with
    | .error e => (c', Out.error e)
    | .ok snd => (c'.setStrm { st with send := snd }, {})

/-- `reset_stream(stream_id, error_code)` -/
def resetStream (c : Conn) (sid code : Nat) : Conn × Out :=
  match getOrCreateStreamForSend c sid with
  | .error e => (c, Out.error e)
  | .ok (c', st) => (c'.setStrm { st with send := reset st.send code }, {})

/-- `stop_stream(stream_id, error_code)` -/
def stopStream (c : Conn) (sid : Nat) : Conn × Out :=
  if !c.canReceive sid then (c, Out.error (.py .value)) else
  match c.find? sid with
  | none => (c, Out.error (.py .value))
  | some st => (c.setStrm { st with stopPending := true }, {})

/-! ## send side: limits received from the peer -/

/-- `_handle_max_data_frame` -/
def rxMaxData (c : Conn) (v : Nat) : Conn × Out :=
  if v > c.remoteMaxData then ({ c with remoteMaxData := v }, {}) else (c, {})

/-- the loop of `_unblock_streams` over one blocked list: returns the ids that
    stay blocked and the ids that are released. -/
def unblockSplit (headOnly : Bool) (maxStreams : Nat) : List Nat → List Nat × List Nat
  | [] => ([], [])
  | sid :: rest =>
    if sid / 4 < maxStreams then
      let p := unblockSplit headOnly maxStreams rest
      (p.1, sid :: p.2)
    else if headOnly then (sid :: rest, [])
    else
      let p := unblockSplit headOnly maxStreams rest
      (sid :: p.1, p.2)

def releaseIn (maxRemote : Nat) (ids : List Nat) (ss : List Strm) : List Strm :=
  ss.map fun s => if ids.contains s.sid then { s with isBlocked := false, maxRemote := maxRemote } else s

/-- `_unblock_streams(is_unidirectional)` -/
def unblockStreams (c : Conn) (uni : Bool) : Conn :=
  if uni then
    let p := unblockSplit c.quirks.unblockHeadOnly c.remoteMaxStreamsUni c.blockedUni
    { c with blockedUni := p.1, streams := releaseIn c.remoteMaxStreamDataUni p.2 c.streams }
  else
    let p := unblockSplit c.quirks.unblockHeadOnly c.remoteMaxStreamsBidi c.blockedBidi
    { c with blockedBidi := p.1, streams := releaseIn c.remoteMaxStreamDataBidiRemote p.2 c.streams }

/-- `_handle_max_streams_bidi_frame` / `_handle_max_streams_uni_frame` -/
def rxMaxStreams (c : Conn) (uni : Bool) (v : Nat) : Conn × Out :=
  if v > STREAM_COUNT_MAX then (c, Out.connError FRAME_ENCODING_ERROR) else
  if uni then
    if v > c.remoteMaxStreamsUni then (unblockStreams { c with remoteMaxStreamsUni := v } true, {})
    else (c, {})
  else
    if v > c.remoteMaxStreamsBidi then (unblockStreams { c with remoteMaxStreamsBidi := v } false, {})
    else (c, {})

/-- the six flow-control entries of the peer's transport parameters
    (`None` = parameter absent) -/
structure TP where
  maxData : Option Nat := none
  maxStreamDataBidiLocal : Option Nat := none
  maxStreamDataBidiRemote : Option Nat := none
  maxStreamDataUni : Option Nat := none
  maxStreamsBidi : Option Nat := none
  maxStreamsUni : Option Nat := none
  /-- `self._is_client and not from_session_ticket and self.tls.early_data_accepted`:
      the handshake parameters of a server that accepted this client's 0-RTT data -/
  checked : Bool := false
deriving Repr, DecidableEq, Inhabited

/-- the `setattr(self, "_remote_" + param, value)` loop at the end of
    `_parse_transport_parameters` (also used with `from_session_ticket=True`
    for the limits remembered for 0-RTT): plain assignment, NO comparison with
    the value held before. -/
def transportParams (c : Conn) (tp : TP) : Conn :=
  { c with
    remoteMaxData := tp.maxData.getD c.remoteMaxData
    remoteMaxStreamDataBidiLocal := tp.maxStreamDataBidiLocal.getD c.remoteMaxStreamDataBidiLocal
    remoteMaxStreamDataBidiRemote := tp.maxStreamDataBidiRemote.getD c.remoteMaxStreamDataBidiRemote
    remoteMaxStreamDataUni := tp.maxStreamDataUni.getD c.remoteMaxStreamDataUni
    remoteMaxStreamsBidi := tp.maxStreamsBidi.getD c.remoteMaxStreamsBidi
    remoteMaxStreamsUni := tp.maxStreamsUni.getD c.remoteMaxStreamsUni }

/-- `(value or 0) < getattr(self, "_remote_" + param)` for one of the six parameters -/
def TP.reduced (c : Conn) (tp : TP) : Bool :=
  decide (tp.maxData.getD 0 < c.remoteMaxData) ||
  decide (tp.maxStreamDataBidiLocal.getD 0 < c.remoteMaxStreamDataBidiLocal) ||
  decide (tp.maxStreamDataBidiRemote.getD 0 < c.remoteMaxStreamDataBidiRemote) ||
  decide (tp.maxStreamDataUni.getD 0 < c.remoteMaxStreamDataUni) ||
  decide (tp.maxStreamsBidi.getD 0 < c.remoteMaxStreamsBidi) ||
  decide (tp.maxStreamsUni.getD 0 < c.remoteMaxStreamsUni)

/-- the flow-control part of `_parse_transport_parameters`: a client whose early
    data was accepted closes with PROTOCOL_VIOLATION when the server's handshake
    parameters are below the remembered ones (RFC 9000 §7.4.1); otherwise the
    values are assigned. -/
def rxTransportParams (c : Conn) (tp : TP) : Conn × Out :=
  if tp.checked && !c.quirks.acceptReducedParams && tp.reduced c then
    (c, Out.connError PROTOCOL_VIOLATION)
  else (transportParams c tp, {})

/-- handshake completion in `_handle_crypto_frame`: both blocked lists are
    re-examined (two `unblock` operations) -/
def handshakeComplete (c : Conn) : Conn := unblockStreams (unblockStreams c false) true

/-! ## send side: the stream loop of `_write_application` -/

/-- the `max_offset=min(...)` argument computed in `_write_application`
    (Python ints: the difference may be negative) -/
def maxOffsetFor (c : Conn) (st : Strm) : Int :=
  min ((st.send.highest : Int) + c.remoteMaxData - c.remoteMaxDataUsed) (st.maxRemote : Int)

/-- `_write_stream_frame(builder, space, stream, max_offset)`; returns the
    stream, the frame written and the credit used.  After the overhead check
    `start_frame(capacity=frame_overhead)` cannot raise (flight space ≤ buffer
    space).  `get_frame` treats a negative `max_offset` like 0 (`stop ≤ start`). -/
def writeStreamFrame (st : Strm) (maxOffset : Int) (flightSpace : Int) :
    Outcome (Strm × Option OutFrame × Nat) := do
  let a ← sizeUintVar st.sid
  let nxt := nextOffset st.send
  let b ← if nxt ≠ 0 then sizeUintVar nxt else pure 0
  let overhead : Nat := 3 + a + b
  if flightSpace < overhead then return (st, none, 0)
  let prev := st.send.highest
  let (snd, fr) ← getFrame st.send (flightSpace - overhead).toNat (some maxOffset.toNat)
  match fr with
  | none => return ({ st with send := snd }, none, 0)
  | some f => return ({ st with send := snd }, some f, snd.highest - prev)

/-- one iteration of `for stream in self._streams_queue:` for the stream with
    id `sid`.  `stopRoom` / `resetRoom`: `start_frame` does not raise for the
    STOP_SENDING / RESET_STREAM frame. -/
def serve (c : Conn) (sid : Nat) (stopRoom resetRoom : Bool) (flightSpace : Int) : Conn × Out :=
  match c.find? sid with
  | none => (c, {})
  | some st =>
    if st.isFinished then
      ({ c with streams := c.streams.filter (fun s => s.sid != sid),
                finishedIds := sid :: c.finishedIds,
                goneSent := c.goneSent + st.send.highest,
                goneRecv := c.goneRecv + st.recv.highest }, { discarded := true })
    else if st.isBlocked then (c, {})
    else if st.stopPending && !stopRoom then (c, Out.error .builderStop)
    else
      let fr1 := if st.stopPending then [WFrame.stopSending sid] else []
      let st := if st.stopPending then { st with stopPending := false } else st
      if st.send.resetPending then
        if !resetRoom then (c.setStrm st, { err := some .builderStop, frames := fr1 })
        else
          let p := getResetFrame st.send
          (c.setStrm { st with send := p.1 }, { frames := fr1 ++ [WFrame.resetStream sid p.2] })
      else if !st.send.bufferIsEmpty then
        match writeStreamFrame st (maxOffsetFor c st) flightSpace with
        | .error e => (c.setStrm st, { err := some e, frames := fr1 })
        | .ok (st', fr, used) =>
          let frs := match fr with
            | none => fr1
            | some f => fr1 ++ [WFrame.stream sid f.offset f.data.length f.fin]
          ({ c.setStrm st' with remoteMaxDataUsed := c.remoteMaxDataUsed + used },
           { frames := frs, used := used })
      else (c.setStrm st, { frames := fr1 })

/-! ## send side: delivery reports -/

/-- `stream.sender.on_data_delivery` of a live stream -/
def dataDelivery (c : Conn) (sid : Nat) (d : Delivery) (start stop : Nat) (fin : Bool) : Conn × Out :=
  match c.find? sid with
  | none => (c, {})
  | some st =>
    match onDataDelivery st.send d start stop fin with
    | .error e => (c, Out.error e)
    | .ok snd => (c.setStrm { st with send := snd }, {})

/-- `stream.sender.on_reset_delivery` -/
def resetDelivery (c : Conn) (sid : Nat) (d : Delivery) : Conn × Out :=
  match c.find? sid with
  | none => (c, {})
  | some st => (c.setStrm { st with send := onResetDelivery st.send d }, {})

/-- `stream.receiver.on_stop_sending_delivery` -/
def stopDelivery (c : Conn) (sid : Nat) (d : Delivery) : Conn × Out :=
  match c.find? sid with
  | none => (c, {})
  | some st => (if d != .acked then c.setStrm { st with stopPending := true } else c, {})

end AQ.Flow
