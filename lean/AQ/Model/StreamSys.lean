/-
  One QUIC stream, one direction, end to end (property C01): the send half of
  the sending endpoint, the wire, and the receive half of the receiving
  endpoint, wired together the way aioquic/quic/connection.py wires them.

  Modelled statement by statement:
  * `send_stream_data`  → `QuicStreamSender.write`            (`appWrite`)
  * `reset_stream`      → `QuicStreamSender.reset`            (`appReset`)
  * the body of the stream loop of `_write_application` for this stream
      `if sender.reset_pending: _write_reset_stream_frame`    (`emitReset`)
      `elif not sender.buffer_is_empty: _write_stream_frame`  (`emit`)
    with `_write_stream_frame` = header-room guard, `get_frame`, `start_frame`
  * `_handle_stream_frame` from "# process data" on           (`deliver`)
  * `_handle_reset_stream_frame` from "# process reset" on    (`deliverReset`)
  * `_get_or_create_stream` refusing a stream whose state was discarded
    (`StreamFinishedError`, swallowed by `_payload_received`)  (`discardRecv`)
  * `_get_or_create_stream_for_send` refusing a discarded stream id
    (`ValueError`, "fix: refuse to send on a stream whose state was already
    discarded")                                              (`discardSend`)
  * the delivery handlers registered by `start_frame`
    (`on_data_delivery`, `on_reset_delivery`)                 (`ackFrame`, `loseFrame`, …)

  The network is the op sequence: `deliver i` hands ANY frame ever emitted
  (index into `wire`) to the receiver, any number of times, in any order — this
  is drop / delay / duplicate / reorder at frame level (a dropped frame is one
  that is never the argument of `deliver`).

  Inputs of a step that the property does not depend on are parameters of the
  op, never guessed: the builder's `remaining_flight_space` and the
  flow-control cap `max_offset` seen by `_write_stream_frame`.

  OUT OF SCOPE (modelled as always passing; properties C06 / C07): the
  direction / stream-limit / flow-control checks at the head of
  `_handle_stream_frame` and `_handle_reset_stream_frame`.

  Ghost fields (not in the Python objects): `ghost` (the history record of C10:
  bytes written, FIN written, frames outstanding / acknowledged …), `wire`,
  `resetWire`, `recvOps`, `deliveredBytes`, `endEvents`, `resetEvents`,
  `connError`.

  Imports two core-only `Proofs` modules for the ghost history (`Ghost`, `SOp`,
  `step`) and `ROp`, `evData`, `evEnd` of property C10, which this model
  re-uses unchanged.  No Mathlib anywhere below this file.
-/
import AQ.Proofs.StreamSend
import AQ.Proofs.StreamRecvRun

namespace AQ.StreamSys
open AQ AQ.Stream AQ.RangeSet

/-- `aioquic.buffer.size_uint_var` -/
def sizeUintVar (v : Nat) : Outcome Nat :=
  if v ≤ 0x3F then .ok 1
  else if v ≤ 0x3FFF then .ok 2
  else if v ≤ 0x3FFFFFFF then .ok 4
  else if v ≤ 0x3FFFFFFFFFFFFFFF then .ok 8
  else .error (.py .value)

/-- `frame_overhead` of `_write_stream_frame` -/
def frameOverhead (streamId : Nat) (s : Send) : Outcome Nat := do
  let a ← sizeUintVar streamId
  let b ← if nextOffset s ≠ 0 then sizeUintVar (nextOffset s) else pure 0
  pure (3 + a + b)

/-- `QuicErrorCode.FINAL_SIZE_ERROR` -/
def FINAL_SIZE_ERROR : Nat := 6

/-- what `_write_stream_frame` did -/
inductive Written where
  /-- returned `used`; `frame` is on the wire with its delivery handler registered -/
  | ret (frame : Option OutFrame) (used : Nat)
  /-- (only with `quirkNoRoomGuard`) `start_frame` raised QuicPacketBuilderStop
      after the frame was taken from the sender: the frame is nowhere -/
  | stop (taken : OutFrame)
deriving Repr, DecidableEq

/-- `QuicConnection._write_stream_frame(builder, space, stream, max_offset)`.
    `space` = `builder.remaining_flight_space` (may be negative).

    After the guard `start_frame(capacity=frame_overhead)` cannot raise:
    `remaining_flight_space ≤ remaining_buffer_space` always
    (`_flight_capacity ≤ _buffer_capacity` in packet_builder.py) and the data
    pushed is at most `space - frame_overhead` long.

    `quirkNoRoomGuard = true` is the code before
    "fix: keep a FIN-only STREAM frame pending when the packet has no room":
    no guard; `get_frame` with a negative `max_size` behaves like `max_size = 0`
    (data: `stop ≤ start` → None; FIN-only: returned) and `start_frame` raises. -/
def writeStreamFrame (quirkNoRoomGuard : Bool) (streamId : Nat) (s : Send) (space : Int) (maxOffset : Nat) :
    Outcome (Send × Written) :=
  match frameOverhead streamId s with
  | .error e => .error e
  | .ok ov =>
    if space < (ov : Int) then
      if quirkNoRoomGuard then
        match getFrame s 0 (some maxOffset) with
        | .error e => .error e
        | .ok (s', some f) => .ok (s', .stop f)
        | .ok (s', none) => .ok (s', .ret none 0)
      else .ok (s, .ret none 0)
    else
      match getFrame s (space - (ov : Int)).toNat (some maxOffset) with
      | .error e => .error e
      | .ok (s', fr) => .ok (s', .ret fr (if fr.isSome then s'.highest - s.highest else 0))

/-- `_handle_stream_frame` from `# process data` on (with the proposed fix
    fixes/C01-end-after-reset.diff applied):

        was_finished = stream.receiver.is_finished
        event = stream.receiver.handle_frame(frame)      # FinalSizeError -> FINAL_SIZE_ERROR
        if event is not None and was_finished:
            if event.data: event.end_stream = False
            else:          event = None
        if event is not None: self._events.append(event)

    `quirkEndAfterReset = true` is the code of /repo at the time of writing
    (`if event is not None and (event.data or not was_finished)`): an event with
    data keeps its end marker even when the receiver was finished by RESET_STREAM.
    `quirkDupFin = true` is the code before
    "fix: do not signal end of stream again for a retransmitted FIN" (every event
    is appended). -/
def handleStreamFrame (quirkDupFin quirkEndAfterReset : Bool) (r : Recv) (f : Frame) :
    Outcome (Recv × Option DataEv) :=
  let wasFinished := r.finished
  match handleFrame r f with
  | .error .finalSize => .error (.conn FINAL_SIZE_ERROR)
  | .error e => .error e
  | .ok (r', none) => .ok (r', none)
  | .ok (r', some ev) =>
    if quirkDupFin = true then .ok (r', some ev)
    else if quirkEndAfterReset = true then
      (if ev.data ≠ [] ∨ wasFinished = false then .ok (r', some ev) else .ok (r', none))
    else if wasFinished = true then
      (if ev.data ≠ [] then .ok (r', some { ev with endStream := false }) else .ok (r', none))
    else .ok (r', some ev)

/-- `_handle_reset_stream_frame` from `# process reset` on -/
def handleResetStreamFrame (r : Recv) (finalSize : Nat) : Outcome Recv :=
  match handleReset r finalSize with
  | .error .finalSize => .error (.conn FINAL_SIZE_ERROR)
  | .error e => .error e
  | .ok r' => .ok r'

def OutFrame.toFrame (f : OutFrame) : Frame := ⟨f.offset, f.data, f.fin⟩

structure Sys where
  streamId : Nat := 0
  quirkDupFin : Bool := false
  quirkEndAfterReset : Bool := false
  quirkNoRoomGuard : Bool := false
  /-- sending endpoint: `conn._streams[id].sender` -/
  send : Send := Send.init true
  /-- ghost: the C10 history record of the send half -/
  ghost : Ghost := {}
  /-- receiving endpoint: `conn._streams[id].receiver` -/
  recv : Recv := {}
  /-- receiving endpoint: `id in conn._streams_finished` -/
  recvGone : Bool := false
  /-- sending endpoint: `id in conn._streams_finished` (the QuicStream object was
      discarded: `send_stream_data` / `reset_stream` raise ValueError) -/
  sendGone : Bool := false
  /-- ghost: every STREAM frame ever emitted, in emission order -/
  wire : List OutFrame := []
  /-- ghost: final sizes of the RESET_STREAM frames ever emitted -/
  resetWire : List Nat := []
  /-- ghost: the operations the receive half accepted, in order -/
  recvOps : List ROp := []
  /-- ghost: concatenation of the data of the StreamDataReceived events -/
  deliveredBytes : Bytes := []
  /-- ghost: number of StreamDataReceived events with end_stream=True -/
  endEvents : Nat := 0
  /-- ghost: number of StreamReset events -/
  resetEvents : Nat := 0
  /-- ghost: the receiving endpoint closed the connection with this error -/
  connError : Option Err := none
deriving Repr

inductive Op where
  | appWrite (data : Bytes) (fin : Bool)
  | appReset (code : Nat)
  | emit (space : Int) (maxOffset : Nat)
  | emitReset
  | deliver (i : Nat)
  | deliverReset (j : Nat)
  | ackFrame (i : Nat)
  | loseFrame (i : Nat)
  | ackReset
  | loseReset
  | discardRecv
  | discardSend
deriving Repr, DecidableEq

/-- what one step showed -/
inductive Out where
  | done
  /-- the connection did not make the call (gate of the stream loop closed,
      unknown frame index, connection already closed) -/
  | skipped
  | err (e : Err)
  | wrote (w : Written)
  | resetFrame (finalSize : Nat)
  | event (e : Option DataEv)
  | resetEvent
  /-- `StreamFinishedError`: the frame was ignored -/
  | ignored
deriving Repr, DecidableEq

def evCount (e : Option DataEv) : Nat := if evEnd e then 1 else 0

def step (s : Sys) : Op → Sys × Out
  | .appWrite data fin =>
    if s.sendGone then (s, .err (.py .value)) else
    match write s.send data fin with
    | .ok s' => ({ s with send := s', ghost := s.ghost.onWrite data fin }, .done)
    | .error e => (s, .err e)
  | .appReset code =>
    if s.sendGone then (s, .err (.py .value)) else
    ({ s with send := reset s.send code, ghost := { s.ghost with reset := true } }, .done)
  | .emit space maxOffset =>
    if s.send.resetPending = true ∨ s.send.bufferIsEmpty = true then (s, .skipped) else
    match writeStreamFrame s.quirkNoRoomGuard s.streamId s.send space maxOffset with
    | .error e => (s, .err e)
    | .ok (s', .ret fr used) =>
      ({ s with send := s', ghost := s.ghost.onGet fr, wire := s.wire ++ fr.toList }, .wrote (.ret fr used))
    | .ok (s', .stop f) => ({ s with send := s' }, .wrote (.stop f))
  | .emitReset =>
    if s.send.resetPending = true then
      let p := getResetFrame s.send
      ({ s with send := p.1, ghost := { s.ghost with resetOut := s.ghost.resetOut + 1 },
                resetWire := s.resetWire ++ [p.2] }, .resetFrame p.2)
    else (s, .skipped)
  | .deliver i =>
    match s.wire[i]? with
    | none => (s, .skipped)
    | some f =>
      if s.connError.isSome then (s, .skipped) else
      if s.recvGone then (s, .ignored) else
      match handleStreamFrame s.quirkDupFin s.quirkEndAfterReset s.recv (OutFrame.toFrame f) with
      | .error e => ({ s with connError := some e }, .err e)
      | .ok (r', ev) =>
        ({ s with recv := r', recvOps := s.recvOps ++ [.frame (OutFrame.toFrame f)],
                  deliveredBytes := s.deliveredBytes ++ evData ev,
                  endEvents := s.endEvents + evCount ev }, .event ev)
  | .deliverReset j =>
    match s.resetWire[j]? with
    | none => (s, .skipped)
    | some z =>
      if s.connError.isSome then (s, .skipped) else
      if s.recvGone then (s, .ignored) else
      match handleResetStreamFrame s.recv z with
      | .error e => ({ s with connError := some e }, .err e)
      | .ok r' =>
        ({ s with recv := r', recvOps := s.recvOps ++ [.reset z], resetEvents := s.resetEvents + 1 }, .resetEvent)
  | .ackFrame i =>
    match s.wire[i]? with
    | none => (s, .skipped)
    | some f =>
      match onDataDelivery s.send .acked f.offset (f.offset + f.data.length) f.fin with
      | .ok s' => ({ s with send := s', ghost := s.ghost.onDelivery .acked f.fr }, .done)
      | .error e => (s, .err e)
  | .loseFrame i =>
    match s.wire[i]? with
    | none => (s, .skipped)
    | some f =>
      match onDataDelivery s.send .lost f.offset (f.offset + f.data.length) f.fin with
      | .ok s' => ({ s with send := s', ghost := s.ghost.onDelivery .lost f.fr }, .done)
      | .error e => (s, .err e)
  | .ackReset =>
    ({ s with send := onResetDelivery s.send .acked, ghost := s.ghost.onResetDelivery .acked }, .done)
  | .loseReset =>
    ({ s with send := onResetDelivery s.send .lost, ghost := s.ghost.onResetDelivery .lost }, .done)
  | .discardRecv =>
    if s.recv.finished then ({ s with recvGone := true }, .done) else (s, .skipped)
  | .discardSend =>
    -- enabled by the connection when `stream.is_finished` (both halves of the
    -- sending endpoint's stream object, see AQ.StreamTable.serveOne)
    ({ s with sendGone := true }, .done)

def run (s : Sys) (ops : List Op) : Sys := ops.foldl (fun s op => (step s op).1) s

/-- The environment's side of the contract (what packet recovery guarantees,
    property C08 "callbacks once"): a delivery report names a frame that was
    emitted and whose delivery has not been reported yet; a RESET report names an
    emitted, not yet reported RESET frame.  Everything else is unconstrained. -/
def okOp (s : Sys) : Op → Prop
  | .ackFrame i | .loseFrame i => ∃ f, s.wire[i]? = some f ∧ f.fr ∈ s.ghost.outstanding
  | .ackReset | .loseReset => 0 < s.ghost.resetOut
  | _ => True

def WF (s : Sys) : List Op → Prop
  | [] => True
  | op :: rest => okOp s op ∧ WF (step s op).1 rest

instance (s : Sys) (op : Op) : Decidable (okOp s op) := by
  cases op <;> simp only [okOp] <;> try infer_instance
  all_goals
    rename_i i
    cases h : s.wire[i]? with
    | none => exact isFalse (by simp)
    | some f => exact decidable_of_iff (f.fr ∈ s.ghost.outstanding) (by simp)

instance decWF : (s : Sys) → (ops : List Op) → Decidable (WF s ops)
  | _, [] => isTrue trivial
  | s, op :: rest =>
    have := decWF (step s op).1 rest
    by unfold WF; infer_instance

/-- a fresh stream `id`, fixed code -/
def init (streamId : Nat) : Sys := { streamId := streamId }

end AQ.StreamSys
