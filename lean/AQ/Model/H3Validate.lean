/-
  Model of the HTTP/3 message validation of `src/aioquic/h3/connection.py`
  (core Lean only):

    validate_header_name, validate_header_value, validate_headers and its four
    wrappers (request / response / trailers / push promise), CPython's
    `int(<bytes>)` as used on the `content-length` value, and the per-stream
    body accounting of `_handle_request_or_push_frame` /
    `_receive_request_or_push_data` / `_check_content_length`.

  QPACK decoding is outside: the steps take the decoded header list.
-/
import AQ.Base.Basic
namespace AQ.H3V

abbrev Header := Bytes × Bytes
abbrev Headers := List Header

/-- the four callers of `validate_headers` -/
inductive Kind where
  | request | response | trailers | push
  deriving DecidableEq, Repr, Inhabited

/-- `ErrorCode.H3_MESSAGE_ERROR` (`MessageError`) -/
def msgErr : Err := .h3 0x10E
/-- `ErrorCode.H3_FRAME_UNEXPECTED` (`FrameUnexpected`) -/
def frameUnexpected : Err := .h3 0x105
/-- `ErrorCode.H3_FRAME_ERROR` (`FrameError`) -/
def frameError : Err := .h3 0x106

/-! ### byte-string constants (explicit so that `decide` can evaluate them) -/
/-- `b":method"` -/
def bMethod : Bytes := [0x3A, 0x6D, 0x65, 0x74, 0x68, 0x6F, 0x64]
/-- `b":scheme"` -/
def bScheme : Bytes := [0x3A, 0x73, 0x63, 0x68, 0x65, 0x6D, 0x65]
/-- `b":authority"` -/
def bAuthority : Bytes := [0x3A, 0x61, 0x75, 0x74, 0x68, 0x6F, 0x72, 0x69, 0x74, 0x79]
/-- `b":path"` -/
def bPath : Bytes := [0x3A, 0x70, 0x61, 0x74, 0x68]
/-- `b":protocol"` -/
def bProtocol : Bytes := [0x3A, 0x70, 0x72, 0x6F, 0x74, 0x6F, 0x63, 0x6F, 0x6C]
/-- `b":status"` -/
def bStatus : Bytes := [0x3A, 0x73, 0x74, 0x61, 0x74, 0x75, 0x73]
/-- `b"content-length"` -/
def bContentLength : Bytes :=
  [0x63, 0x6F, 0x6E, 0x74, 0x65, 0x6E, 0x74, 0x2D, 0x6C, 0x65, 0x6E, 0x67, 0x74, 0x68]
/-- `b"transfer-encoding"` -/
def bTransferEncoding : Bytes :=
  [0x74, 0x72, 0x61, 0x6E, 0x73, 0x66, 0x65, 0x72, 0x2D, 0x65, 0x6E, 0x63, 0x6F, 0x64, 0x69, 0x6E, 0x67]
/-- `b"trailers"` -/
def bTrailers : Bytes := [0x74, 0x72, 0x61, 0x69, 0x6C, 0x65, 0x72, 0x73]
/-- `b"http"` -/
def bHttp : Bytes := [0x68, 0x74, 0x74, 0x70]
/-- `b"https"` -/
def bHttps : Bytes := [0x68, 0x74, 0x74, 0x70, 0x73]

/-! ### validate_header_name -/

/-- `c <= 0x20 or (c >= 0x41 and c <= 0x5A) or c >= 0x7F` -/
def badNameByte (c : UInt8) : Bool := c ≤ 0x20 || (c ≥ 0x41 && c ≤ 0x5A) || c ≥ 0x7F

/-- the `for i, c in enumerate(key)` loop from index `i` -/
def validateHeaderNameFrom (i : Nat) : Bytes → Outcome Unit
  | [] => .ok ()
  | c :: cs =>
    if badNameByte c then .error msgErr
    else if c = 0x3A ∧ i ≠ 0 then .error msgErr
    else validateHeaderNameFrom (i + 1) cs

def validateHeaderName (key : Bytes) : Outcome Unit := validateHeaderNameFrom 0 key

/-! ### validate_header_value -/

/-- `c == NUL or c == LF or c == CR` -/
def badValueByte (c : UInt8) : Bool := c = 0x00 || c = 0x0A || c = 0x0D

/-- `c in WHITESPACE` = `(SP, HTAB)` -/
def isWs (c : UInt8) : Bool := c = 0x20 || c = 0x09

/-- the `for c in value` loop -/
def valueLoop : Bytes → Outcome Unit
  | [] => .ok ()
  | c :: cs => if badValueByte c then .error msgErr else valueLoop cs

def validateHeaderValue (value : Bytes) : Outcome Unit := do
  valueLoop value
  match value with
  | [] => .ok ()                                   -- `if len(value) > 0` fails
  | first :: rest =>
    if isWs first then .error msgErr
    else
      match rest.getLast? with
      | none => .ok ()                             -- `if len(value) > 1` fails
      | some last => if isWs last then .error msgErr else .ok ()   -- `value[-1]`

/-! ### `int(value)` for a `bytes` value (CPython 3.12 `_PyLong_FromBytes`,
    base 10): `Py_ISSPACE*  [+-]?  digit ('_'? digit)*  Py_ISSPACE*`, nothing
    else up to `len(value)` (an embedded NUL therefore fails), at most
    `sys.get_int_max_str_digits() = 4300` digits. -/

/-- `Py_ISSPACE`: HT LF VT FF CR SP -/
def isPySpace (c : UInt8) : Bool := c = 0x20 || (0x09 ≤ c && c ≤ 0x0D)

def isDigit (c : UInt8) : Bool := 0x30 ≤ c && c ≤ 0x39

def dropSpaces : Bytes → Bytes
  | [] => []
  | c :: cs => if isPySpace c then dropSpaces cs else c :: cs

/-- the digit scan: accumulated value, number of digits, whether the previous
    character was `_`, and the unread rest; `none` on a doubled underscore -/
def scanDigits (acc n : Nat) (prevU : Bool) : Bytes → Option (Nat × Nat × Bool × Bytes)
  | [] => some (acc, n, prevU, [])
  | c :: cs =>
    if c = 0x5F then (if prevU then none else scanDigits acc n true cs)
    else if isDigit c then scanDigits (acc * 10 + (c.toNat - 48)) (n + 1) false cs
    else some (acc, n, prevU, c :: cs)

/-- default `sys.int_info.default_max_str_digits` -/
def maxStrDigits : Nat := 4300

def pyIntOfBytes (b : Bytes) : Option Int :=
  let s := dropSpaces b
  let (neg, s) : Bool × Bytes := match s with
    | 0x2B :: r => (false, r)
    | 0x2D :: r => (true, r)
    | _ => (false, s)
  match s with
  | 0x5F :: _ => none                       -- may not start with an underscore
  | _ =>
    match scanDigits 0 0 false s with
    | none => none
    | some (v, n, prevU, rest) =>
      if prevU then none                    -- trailing underscore
      else if n = 0 then none               -- no digit
      else if n > maxStrDigits then none    -- "Exceeds the limit (4300 digits)"
      else if dropSpaces rest ≠ [] then none
      else some (if neg then - (v : Int) else (v : Int))

/-- `content_length = int(value); if content_length < 0: raise ValueError`,
    `except ValueError: raise MessageError` -/
def parseContentLength (value : Bytes) : Outcome Nat :=
  match pyIntOfBytes value with
  | none => .error msgErr
  | some n => if n < 0 then .error msgErr else .ok n.toNat

/-! ### validate_headers -/

/-- `key.startswith(b":")` -/
def isPseudo (key : Bytes) : Bool :=
  match key with
  | c :: _ => c = 0x3A
  | [] => false

/-- the local variables of `validate_headers` (+ the attribute it writes) -/
structure VState where
  afterPseudo : Bool := false
  authority : Option Bytes := none
  path : Option Bytes := none
  scheme : Option Bytes := none
  seen : List Bytes := []
  /-- `declared_content_length` -/
  dcl : Option Nat := none
  /-- `stream.expected_content_length` -/
  ecl : Option Nat := none
  deriving Repr, DecidableEq

/-- `declared_content_length is not None and declared_content_length != content_length` -/
def clConflict (dcl : Option Nat) (n : Nat) : Bool :=
  match dcl with
  | some d => d != n
  | none => false

/-- one iteration of `for key, value in headers` -/
def vstep (allowed : List Bytes) (hasStream : Bool) (s : VState) (h : Header) : Outcome VState := do
  validateHeaderName h.1
  validateHeaderValue h.2
  if isPseudo h.1 then
    if s.afterPseudo then .error msgErr
    else if ¬ h.1 ∈ allowed then .error msgErr
    else if h.1 ∈ s.seen then .error msgErr
    else
      let s := { s with seen := h.1 :: s.seen }
      if h.1 = bAuthority then .ok { s with authority := some h.2 }
      else if h.1 = bPath then .ok { s with path := some h.2 }
      else if h.1 = bScheme then .ok { s with scheme := some h.2 }
      else .ok s
  else
    let s := { s with afterPseudo := true }
    if h.1 = bContentLength then do
      let n ← parseContentLength h.2
      if clConflict s.dcl n then .error msgErr       -- "content-length is included twice"
      else
        let s := { s with dcl := some n }
        .ok (if hasStream then { s with ecl := some n } else s)
    else if h.1 = bTransferEncoding ∧ h.2 ≠ bTrailers then .error msgErr
    else .ok s

def vloop (allowed : List Bytes) (hasStream : Bool) : VState → Headers → Outcome VState
  | s, [] => .ok s
  | s, h :: t => do
    let s' ← vstep allowed hasStream s h
    vloop allowed hasStream s' t

/-- `not x` for an `Optional[bytes]` -/
def falsy : Option Bytes → Bool
  | none => true
  | some b => b.isEmpty

/-- the checks after the loop -/
def vfinal (required : List Bytes) (s : VState) : Outcome (Option Nat) :=
  -- `missing = required_pseudo_headers.difference(seen_pseudo_headers)`
  if (required.filter (fun r => ¬ r ∈ s.seen)) ≠ [] then .error msgErr
  else if s.scheme = some bHttp ∨ s.scheme = some bHttps then
    if falsy s.authority then .error msgErr
    else if falsy s.path then .error msgErr
    else .ok s.ecl
  else .ok s.ecl

/-- `validate_headers(headers, allowed, required, stream)`; the result is the
    stream's `expected_content_length` afterwards (`ecl0` before) -/
def validateHeaders (allowed required : List Bytes) (hasStream : Bool) (ecl0 : Option Nat)
    (hs : Headers) : Outcome (Option Nat) := do
  let s ← vloop allowed hasStream { ecl := ecl0 } hs
  vfinal required s

def allowedPseudo : Kind → List Bytes
  | .request => [bMethod, bScheme, bAuthority, bPath, bProtocol]
  | .response => [bStatus]
  | .trailers => []
  | .push => [bMethod, bScheme, bAuthority, bPath]

def requiredPseudo : Kind → List Bytes
  | .request => [bMethod, bAuthority]
  | .response => [bStatus]
  | .trailers => []
  | .push => [bMethod, bScheme, bAuthority, bPath]

/-- only `validate_request_headers` / `validate_response_headers` pass the stream -/
def hasStream : Kind → Bool
  | .request | .response => true
  | .trailers | .push => false

/-- the wrapper for `kind`, on a stream whose `expected_content_length` is `ecl0` -/
def validateOn (kind : Kind) (ecl0 : Option Nat) (hs : Headers) : Outcome (Option Nat) :=
  validateHeaders (allowedPseudo kind) (requiredPseudo kind) (hasStream kind) ecl0 hs

/-- on a fresh `H3Stream` (`expected_content_length = None`) -/
def validate (kind : Kind) (hs : Headers) : Outcome (Option Nat) := validateOn kind none hs

/-- the content-length a header block declares to `validate_headers`: the
    value of its last `content-length` header (an accepted block has them all equal) -/
def declaredCL : Headers → Option Nat
  | [] => none
  | h :: t =>
    match declaredCL t with
    | some n => some n
    | none =>
      if h.1 = bContentLength then
        match parseContentLength h.2 with
        | .ok n => some n
        | .error _ => none
      else none

/-- every content-length value a header block carries -/
def allDeclaredCL : Headers → List Nat
  | [] => []
  | h :: t =>
    if h.1 = bContentLength then
      match parseContentLength h.2 with
      | .ok n => n :: allDeclaredCL t
      | .error _ => allDeclaredCL t
    else allDeclaredCL t

/-! ### per-stream body accounting -/

inductive HState where
  | initial | afterHeaders | afterTrailers
  deriving DecidableEq, Repr, Inhabited

def HState.toNat : HState → Nat
  | .initial => 0 | .afterHeaders => 1 | .afterTrailers => 2

inductive Frame where
  | data (n : Nat)
  | headers (hs : Headers)
  | pushPromise (hs : Headers)
  | other (ftype : Nat)
  deriving Repr, DecidableEq

/-- the fields of `H3Stream` (+ `H3Connection._is_client/_is_done`) that decide
    what a request or push stream reports -/
structure St where
  isClient : Bool
  /-- `stream.push_id is not None` (a push stream) -/
  isPush : Bool
  hstate : HState := .initial
  /-- `expected_content_length` -/
  ecl : Option Nat := none
  /-- `content_length` -/
  cl : Nat := 0
  /-- `frame_size` of a partially received DATA frame (`None` = 0) -/
  rem : Nat := 0
  /-- `receiving_ended` -/
  recvEnded : Bool := false
  /-- `H3Connection._is_done` -/
  done : Bool := false
  /-- `stream.blocked`: the HEADERS / PUSH_PROMISE frame waiting for the QPACK
      encoder stream, with the header list it will decode to -/
  blocked : Option Frame := none
  /-- `stream.buffer` while blocked: the complete frames received meanwhile -/
  pending : List Frame := []
  deriving Repr, DecidableEq

inductive Event where
  | headers (hs : Headers) (ended : Bool)     -- HeadersReceived
  | data (n : Nat) (ended : Bool)             -- DataReceived with `len(data) = n`
  | pushPromise (hs : Headers)                -- PushPromiseReceived
  deriving Repr, DecidableEq

/-- `_check_content_length` -/
def checkContentLength (s : St) : Outcome Unit :=
  match s.ecl with
  | some e => if s.cl ≠ e then .error msgErr else .ok ()
  | none => .ok ()

/-- which validator the HEADERS branch applies -/
def hdrKind (s : St) : Kind :=
  if s.hstate = .initial then (if s.isClient then .response else .request) else .trailers

/-- frame types that raise `FrameUnexpected` on a request/push stream -/
def forbiddenFrame (t : Nat) : Bool :=
  t = 0x2 || t = 0x3 || t = 0x4 || t = 0x5 || t = 0x7 || t = 0xD || t = 0xE

/-- `_handle_request_or_push_frame(frame_type, frame_data, stream, stream_ended)` -/
def handleFrame (s : St) (f : Frame) (ended : Bool) : Outcome (St × List Event) :=
  match f with
  | .data n =>
    if s.hstate ≠ .afterHeaders then .error frameUnexpected
    else do
      let s := { s with cl := s.cl + n }
      if ended then checkContentLength s
      .ok (s, if ended ∨ n ≠ 0 then [.data n ended] else [])
  | .headers hs =>
    if s.hstate = .afterTrailers then .error frameUnexpected
    else if s.hstate = .initial then do
      -- validate_request_headers / validate_response_headers (headers, stream)
      let e ← validateOn (hdrKind s) s.ecl hs
      let s := { s with ecl := e }
      if ended then checkContentLength s
      .ok ({ s with hstate := .afterHeaders }, [.headers hs ended])
    else do
      -- validate_trailers(headers): no stream, nothing recorded
      let _ ← validateOn .trailers none hs
      if ended then checkContentLength s
      .ok ({ s with hstate := .afterTrailers }, [.headers hs ended])
  | .pushPromise hs =>
    if s.isPush then .error frameUnexpected              -- falls to the last `elif`
    else if ¬ s.isClient then .error frameUnexpected
    else do
      let _ ← validateOn .push none hs
      -- `if stream_ended and frame_type not in (DATA, HEADERS)`: signal the end
      if ended then checkContentLength s
      .ok (s, [.pushPromise hs] ++ (if ended then [.data 0 true] else []))
  | .other t =>
    if forbiddenFrame t then .error frameUnexpected
    else do
      if ended then checkContentLength s
      .ok (s, if ended then [.data 0 true] else [])

/-- One `StreamDataReceived` for the stream, described abstractly. -/
inductive Op where
  /-- a complete HEADERS frame -/
  | hdr (hs : Headers) (fin : Bool)
  /-- a DATA frame header announcing `total` bytes followed by `present ≤ total` of them -/
  | data (total present : Nat) (fin : Bool)
  /-- `n ≤ rem` further bytes of the DATA frame in progress -/
  | frag (n : Nat) (fin : Bool)
  /-- no bytes, FIN set -/
  | fin
  /-- a complete PUSH_PROMISE frame -/
  | pp (hs : Headers) (fin : Bool)
  /-- a complete empty frame of another type (not DATA/HEADERS/PUSH_PROMISE/WEBTRANSPORT_STREAM) -/
  | other (ftype : Nat) (fin : Bool)
  /-- a complete HEADERS frame followed by a complete DATA frame of `n` bytes -/
  | hdrdata (hs : Headers) (n : Nat) (fin : Bool)
  deriving Repr, DecidableEq

/-- QPACK (ls-qpack) can carry neither an empty list nor an empty name -/
def encodable (hs : Headers) : Bool := !hs.isEmpty && hs.all (fun h => !h.1.isEmpty)

/-- does the abstract op describe a possible input in state `s`? -/
def applicable (s : St) : Op → Bool
  | .hdr hs _ => s.rem = 0 && encodable hs
  | .data total present _ => s.rem = 0 && present ≤ total
  | .frag n _ => s.rem ≠ 0 && n ≤ s.rem
  | .fin => true
  | .pp hs _ => s.rem = 0 && encodable hs
  | .other t _ => s.rem = 0 && t ≠ 0x0 && t ≠ 0x1 && t ≠ 0x5 && t ≠ 0x41
  | .hdrdata hs _ _ => s.rem = 0 && encodable hs

/-- the "DATA frame fragment" shortcut of `_receive_request_or_push_data`
    (`stream_ended` is the FIN flag of this very `StreamDataReceived`) -/
def shortcut (s : St) (n : Nat) (streamEnded : Bool) : Outcome (St × List Event) :=
  if streamEnded then .error frameError       -- "Stream ended with a truncated frame"
  else .ok ({ s with cl := s.cl + n, rem := s.rem - n }, [.data n false])

/-- the check after the frame loop: "a stream must not end in the middle of a
    frame" (no bytes are ever left over by the ops modelled here) -/
def endCheck (s : St) : Outcome Unit :=
  if s.recvEnded ∧ s.rem ≠ 0 then .error frameError else .ok ()

/-- `_receive_request_or_push_data(stream, data, stream_ended)` for an applicable op -/
def receive (s : St) (op : Op) : Outcome (St × List Event) :=
  match op with
  | .hdr hs fin =>
    let s := { s with recvEnded := s.recvEnded || fin }
    handleFrame s (.headers hs) s.recvEnded
  | .data total present fin => do
    let s := { s with recvEnded := s.recvEnded || fin }
    -- `stream_ended = receiving_ended and buf.eof() and frame_size is None`
    let (s, evs) ← handleFrame s (.data present) (s.recvEnded && total - present == 0)
    let s := { s with rem := total - present }
    endCheck s
    .ok (s, evs)
  | .frag n fin =>
    let s := { s with recvEnded := s.recvEnded || fin }
    if n < s.rem then shortcut s n fin
    else do
      let (s, evs) ← handleFrame s (.data n) s.recvEnded
      .ok ({ s with rem := 0 }, evs)
  | .fin =>
    let s := { s with recvEnded := true }
    if 0 < s.rem then shortcut s 0 true
    else do
      -- lone FIN (`frame_size is None` here)
      checkContentLength s
      .ok (s, [.data 0 true])
  | .pp hs fin =>
    let s := { s with recvEnded := s.recvEnded || fin }
    handleFrame s (.pushPromise hs) s.recvEnded
  | .other t fin =>
    let s := { s with recvEnded := s.recvEnded || fin }
    handleFrame s (.other t) s.recvEnded
  | .hdrdata hs n fin => do
    let s := { s with recvEnded := s.recvEnded || fin }
    let (s, e1) ← handleFrame s (.headers hs) false
    let (s, e2) ← handleFrame s (.data n) s.recvEnded
    .ok (s, e1 ++ e2)

/-- `H3Connection.handle_event`: the new state, the H3 events returned and the
    error code handed to `QuicConnection.close` (if any).  An op that is not
    applicable in `s` describes no input and is skipped. -/
def step (s : St) (op : Op) : St × List Event × Option Err :=
  if s.done then (s, [], none)
  else if ¬ applicable s op then (s, [], none)
  else match receive s op with
    | .ok (s', evs) => (s', evs, none)
    | .error e => ({ s with done := true }, [], some e)

/-- all events of a sequence of ops -/
def trace : St → List Op → List Event
  | _, [] => []
  | s, op :: ops => (step s op).2.1 ++ trace (step s op).1 ops

def finalState : St → List Op → St
  | s, [] => s
  | s, op :: ops => finalState (step s op).1 ops

/-! ### QPACK-blocked streams

`_handle_request_or_push_frame` raises `pylsqpack.StreamBlocked` from
`_decode_headers`; `_receive_request_or_push_data` then only buffers what
arrives; `_receive_stream_data_uni` (peer encoder stream) resumes the frame by
calling `_handle_request_or_push_frame` DIRECTLY and then re-enters
`_receive_request_or_push_data` for the buffered bytes. -/

/-- the inputs of a request / push stream, including those that block and the
    encoder-stream delivery that unblocks -/
inductive QOp where
  | plain (op : Op)
  /-- a complete HEADERS frame whose block needs dynamic-table entries not received yet -/
  | hdrb (hs : Headers) (fin : Bool)
  /-- likewise a PUSH_PROMISE frame -/
  | ppb (hs : Headers) (fin : Bool)
  /-- the encoder-stream bytes arrive: `feed_encoder` reports the stream unblocked -/
  | unblock
  deriving Repr, DecidableEq

/-- the complete frames (and the FIN flag) an op consists of; `none` for ops
    that leave a DATA frame unfinished -/
def opFrames : Op → Option (List Frame × Bool)
  | .hdr hs fin => some ([.headers hs], fin)
  | .data total present fin => if present = total then some ([.data total], fin) else none
  | .frag _ _ => none
  | .fin => some ([], true)
  | .pp hs fin => some ([.pushPromise hs], fin)
  | .other t fin => some ([.other t], fin)
  | .hdrdata hs n fin => some ([.headers hs, .data n], fin)

def qapplicable (s : St) : QOp → Bool
  | .plain op => applicable s op && (s.blocked.isNone || (opFrames op).isSome)
  | .hdrb hs _ => s.blocked.isNone && s.rem = 0 && encodable hs
  | .ppb hs _ => s.blocked.isNone && s.rem = 0 && encodable hs
  | .unblock => s.blocked.isSome

/-- the frame loop of `_receive_request_or_push_data` over complete frames:
    `stream_ended` only for the last one -/
def processFrames (s : St) : List Frame → Outcome (St × List Event)
  | [] => .ok (s, [])
  | f :: fs => do
    let (s, e1) ← handleFrame s f (s.recvEnded && fs.isEmpty)
    let (s, e2) ← processFrames s fs
    .ok (s, e1 ++ e2)

def qreceive (s : St) (q : QOp) : Outcome (St × List Event) :=
  match q with
  | .plain op =>
    match s.blocked with
    | none => receive s op
    | some _ =>
      -- `stream.buffer += data; if stream_ended: receiving_ended = True; if stream.blocked: return []`
      match opFrames op with
      | some (fs, fin) => .ok ({ s with recvEnded := s.recvEnded || fin, pending := s.pending ++ fs }, [])
      | none => .ok (s, [])
  | .hdrb hs fin =>
    let s := { s with recvEnded := s.recvEnded || fin }
    if s.hstate = .afterTrailers then .error frameUnexpected     -- raised before decoding
    else .ok ({ s with blocked := some (.headers hs) }, [])
  | .ppb hs fin =>
    let s := { s with recvEnded := s.recvEnded || fin }
    if s.isPush then .error frameUnexpected
    else if ¬ s.isClient then .error frameUnexpected
    else .ok ({ s with blocked := some (.pushPromise hs) }, [])
  | .unblock =>
    match s.blocked with
    | none => .ok (s, [])
    | some f => do
      -- `stream_ended = stream.receiving_ended and not stream.buffer`
      let (s1, e1) ← handleFrame s f (s.recvEnded && s.pending.isEmpty)
      let s1 := { s1 with blocked := none, pending := [] }
      -- `if stream.buffer: self._receive_request_or_push_data(stream, b"", receiving_ended)`
      let (s2, e2) ← processFrames s1 s.pending
      .ok (s2, e1 ++ e2)

/-- `H3Connection.handle_event` for all inputs -/
def qstep (s : St) (q : QOp) : St × List Event × Option Err :=
  if s.done then (s, [], none)
  else if ¬ qapplicable s q then (s, [], none)
  else match qreceive s q with
    | .ok (s', evs) => (s', evs, none)
    | .error e => ({ s with done := true }, [], some e)

def qtrace : St → List QOp → List Event
  | _, [] => []
  | s, q :: qs => (qstep s q).2.1 ++ qtrace (qstep s q).1 qs

def qfinal : St → List QOp → St
  | s, [] => s
  | s, q :: qs => qfinal (qstep s q).1 qs

/-! ### what the application observes -/

/-- `stream_ended` of an event (`PushPromiseReceived` has none) -/
def Event.ended : Event → Bool
  | .headers _ e => e
  | .data _ e => e
  | .pushPromise _ => false

/-- number of body bytes carried by the `DataReceived` events -/
def bodyBytes : List Event → Nat
  | [] => 0
  | .data n _ :: t => n + bodyBytes t
  | _ :: t => bodyBytes t

/-- the header list of the first `HeadersReceived` -/
def firstHeaders : List Event → Option Headers
  | [] => none
  | .headers hs _ :: _ => some hs
  | _ :: t => firstHeaders t

end AQ.H3V
