/-
  Packet protection: model of
    * src/aioquic/_crypto.c   AEAD_encrypt / AEAD_decrypt (nonce loop, length
      checks), HeaderProtection_apply / HeaderProtection_remove (bounds checks,
      sample position, first-byte mask, packet-number bytes, truncated pn)
    * src/aioquic/quic/crypto.py  CryptoContext.encrypt_packet / decrypt_packet
      (pn length from the unmasked first byte, decode_packet_number, key-phase
      bit selecting the next-phase AEAD)
    * src/aioquic/quic/packet.py  get_retry_integrity_tag (pseudo packet)
  statement by statement.  Core Lean only.

  The cipher primitives (OpenSSL EVP AEAD, AES-ECB / ChaCha20 mask, AES-GCM of
  `cryptography` for Retry) are NOT modelled: they are the fields of
  `structure AEAD`, i.e. parameters.  Everything the C/Python code does around
  them is modelled exactly.

  The model follows the code WITH fixes/C02-hp-remove-unsigned-pn.diff and
  fixes/C02-quicv2-ku.diff applied (truncated packet number returned as an
  unsigned value; key-update label per version).
-/
import AQ.Base.Basic
import AQ.Model.Codec

namespace AQ.PacketProt
open AQ

/-- `CryptoError` (aioquic._crypto) and its subclass `KeyUnavailableError` -/
inductive PErr where
  | crypto (msg : String)
  | keyUnavailable
  deriving Repr, DecidableEq, Inhabited

abbrev Res (α : Type) := Except PErr α

def PErr.name : PErr → String
  | .crypto _ => "CryptoError"
  | .keyUnavailable => "KeyUnavailableError"

def AEAD_NONCE_LENGTH : Nat := 12
def AEAD_TAG_LENGTH : Nat := 16
def PACKET_LENGTH_MAX : Nat := 1500
def PACKET_NUMBER_LENGTH_MAX : Nat := 4
def SAMPLE_LENGTH : Nat := 16

def invalidPacketLength : PErr := .crypto "Invalid packet length"
def invalidPayloadLength : PErr := .crypto "Invalid payload length"
def decryptionFailed : PErr := .crypto "Payload decryption failed"

/-! ## AEAD nonce -/

/-- `uint64_t pn` as parsed by format `K` (no overflow check: low 64 bits) -/
def u64 (pn : Nat) : Nat := pn % 2 ^ 64

/-- one iteration `nonce[AEAD_NONCE_LENGTH - 1 - i] ^= (uint8_t)(pn >> 8 * i)` -/
def nonceStep (pn : Nat) (n : Bytes) (i : Nat) : Bytes :=
  n.modify (AEAD_NONCE_LENGTH - 1 - i) (fun b => b ^^^ UInt8.ofNat (u64 pn >>> (8 * i)))

/-- `memcpy(nonce, iv, 12); for (i = 0; i < 8; ++i) …` -/
def nonce (iv : Bytes) (pn : Nat) : Bytes :=
  (List.range 8).foldl (nonceStep pn) iv

/-- `k` bytes, big-endian, of `n` (low `8k` bits) -/
def beBytes (n : Nat) : Nat → Bytes
  | 0 => []
  | k + 1 => UInt8.ofNat (n >>> (8 * k)) :: beBytes n k

/-- big-endian value of a byte string -/
def beNat (bs : Bytes) : Nat := bs.foldl (fun a b => a * 256 + b.toNat) 0

def xorBytes (a b : Bytes) : Bytes := List.zipWith (· ^^^ ·) a b

/-! ## Header protection -/

/-- `if (buffer[0] & 0x80) buffer[0] ^= mask[0] & 0x0F; else buffer[0] ^= mask[0] & 0x1F;` -/
def fbMask (b m0 : UInt8) : UInt8 :=
  if b &&& 0x80 ≠ 0 then b ^^^ (m0 &&& 0x0f) else b ^^^ (m0 &&& 0x1f)

/-- `self->mask[i]` (a 31-byte array inside the zero-allocated object; the
    cipher writes its first 16 (AES-ECB) or 5 (ChaCha20) bytes; only indices
    0..4 are read).  All theorems assume `mask.length ≥ 5`. -/
def maskAt (mask : Bytes) (i : Nat) : UInt8 := mask.getD i 0

/-- `for (i = 0; i < pn_length; ++i) buffer[pn_offset + i] ^= mask[1 + i];` -/
def xorPn (buf : Bytes) (off : Nat) (mask : Bytes) (n : Nat) : Bytes :=
  (List.range n).foldl (fun b i => b.modify (off + i) (fun x => x ^^^ maskAt mask (1 + i))) buf

/-- where the 16-byte sample starts inside the protected payload on the send
    side: `payload + PACKET_NUMBER_LENGTH_MAX - pn_length` -/
def sampleOfPayload (payload : Bytes) (pnLen : Nat) : Bytes :=
  (payload.drop (PACKET_NUMBER_LENGTH_MAX - pnLen)).take SAMPLE_LENGTH

/-- … and on the receive side: `packet + pn_offset + PACKET_NUMBER_LENGTH_MAX` -/
def sampleOfPacket (packet : Bytes) (pnOffset : Nat) : Bytes :=
  (packet.drop (pnOffset + PACKET_NUMBER_LENGTH_MAX)).take SAMPLE_LENGTH

/-- `HeaderProtection_apply(header, payload)`; `maskOf` is `HeaderProtection_mask`
    for the object's key. -/
def hpApply (maskOf : Bytes → Bytes) (hdr payload : Bytes) : Res Bytes :=
  match hdr with
  | [] => .error invalidPacketLength                       -- header_len < 1
  | b0 :: tl =>
    let hdr := b0 :: tl
    if hdr.length > PACKET_LENGTH_MAX ∨ payload.length > PACKET_LENGTH_MAX - hdr.length then
      .error invalidPacketLength
    else
      let pnLen := (b0 &&& 0x03).toNat + 1
      -- pn_offset = header_len - pn_length < 0
      if hdr.length < pnLen ∨ payload.length < PACKET_NUMBER_LENGTH_MAX - pnLen + SAMPLE_LENGTH then
        .error invalidPacketLength
      else
        let pnOffset := hdr.length - pnLen
        let mask := maskOf (sampleOfPayload payload pnLen)
        let buf := hdr ++ payload
        let buf := buf.modify 0 (fun b => fbMask b (maskAt mask 0))
        .ok (xorPn buf pnOffset mask pnLen)

/-- one iteration of the loop of `HeaderProtection_remove`:
    `buffer[pn_offset+i] ^= mask[1+i]; pn_truncated = buffer[pn_offset+i] | (pn_truncated << 8);`
    (`pn_truncated` is a `uint32_t`) -/
def pnStep (off : Nat) (mask : Bytes) (st : Bytes × Nat) (i : Nat) : Bytes × Nat :=
  let b := st.1.modify (off + i) (fun x => x ^^^ maskAt mask (1 + i))
  (b, (b.getD (off + i) 0).toNat ||| ((st.2 <<< 8) % 2 ^ 32))

/-- `HeaderProtection_remove(packet, pn_offset)` → `(plain_header, pn_truncated)` -/
def hpRemove (maskOf : Bytes → Bytes) (packet : Bytes) (pnOffset : Nat) : Res (Bytes × Nat) :=
  if pnOffset > PACKET_LENGTH_MAX - PACKET_NUMBER_LENGTH_MAX ∨
     packet.length < pnOffset + PACKET_NUMBER_LENGTH_MAX + SAMPLE_LENGTH then
    .error invalidPacketLength
  else
    let mask := maskOf (sampleOfPacket packet pnOffset)
    let buf := packet.take (pnOffset + PACKET_NUMBER_LENGTH_MAX)
    let buf := buf.modify 0 (fun b => fbMask b (maskAt mask 0))
    let pnLen := ((buf.getD 0 0) &&& 0x03).toNat + 1
    let r := (List.range pnLen).foldl (pnStep pnOffset mask) (buf, 0)
    .ok (r.1.take (pnOffset + pnLen), r.2)

/-! ## The cipher primitives are parameters -/

/-- What OpenSSL provides for one cipher suite.  `aeSeal key nonce ad plain` is
    ciphertext ‖ 16-byte tag, `aeOpen` is its verification/decryption,
    `maskOf hpKey sample` is AES-ECB(hpKey, sample) resp. the first 5 bytes of
    the ChaCha20 key stream with counter‖nonce = sample. -/
structure AEAD where
  aeSeal : Bytes → Bytes → Bytes → Bytes → Bytes
  aeOpen : Bytes → Bytes → Bytes → Bytes → Option Bytes
  maskOf : Bytes → Bytes → Bytes

/-- `(key, iv, hp)` of `derive_key_iv_hp` -/
structure Keys where
  key : Bytes
  iv : Bytes
  hp : Bytes
  deriving Repr, DecidableEq

/-- `AEAD_encrypt(data, associated, pn)` -/
def aeadEncrypt (A : AEAD) (k : Keys) (plain ad : Bytes) (pn : Nat) : Res Bytes :=
  if plain.length > PACKET_LENGTH_MAX - AEAD_TAG_LENGTH then .error invalidPayloadLength
  else .ok (A.aeSeal k.key (nonce k.iv pn) ad plain)

/-- `AEAD_decrypt(data, associated, pn)` -/
def aeadDecrypt (A : AEAD) (k : Keys) (data ad : Bytes) (pn : Nat) : Res Bytes :=
  if data.length < AEAD_TAG_LENGTH ∨ data.length > PACKET_LENGTH_MAX then .error invalidPayloadLength
  else match A.aeOpen k.key (nonce k.iv pn) ad data with
    | none => .error decryptionFailed
    | some p => .ok p

/-- `CryptoContext.encrypt_packet(plain_header, plain_payload, packet_number)` -/
def encryptPacket (A : AEAD) (k : Keys) (hdr plain : Bytes) (pn : Nat) : Res Bytes := do
  let sealed ← aeadEncrypt A k plain hdr pn
  hpApply (A.maskOf k.hp) hdr sealed

/-- `is_long_header(first_byte)` -/
def isLong (b : UInt8) : Bool := b &&& 0x80 != 0

/-- the receiving `CryptoContext`: current keys (None before setup), its
    `key_phase`, and the AEAD keys `next_key_phase(self)` would derive (the
    header-protection key is never updated: `apply_key_phase` copies `aead`,
    `key_phase`, `secret` only and decrypt_packet uses `self.hp`). -/
structure RecvCtx where
  cur : Option Keys
  keyPhase : Nat
  next : Keys

structure Decrypted where
  hdr : Bytes
  payload : Bytes
  pn : Nat
  updateKey : Bool
  deriving Repr, DecidableEq

/-- `CryptoContext.decrypt_packet(packet, encrypted_offset, expected_packet_number)` -/
def decryptPacket (A : AEAD) (c : RecvCtx) (packet : Bytes) (encOff expected : Nat) : Res Decrypted :=
  match c.cur with
  | none => .error .keyUnavailable
  | some cur => do
    let (hdr, trunc) ← hpRemove (A.maskOf cur.hp) packet encOff
    let fb := hdr.getD 0 0
    let pnLen := (fb &&& 0x03).toNat + 1
    let pn := Codec.decodePacketNumber trunc (pnLen * 8) expected
    let useNext := !isLong fb && ((fb &&& 4) >>> 2).toNat != c.keyPhase
    let k : Keys := if useNext then { c.next with hp := cur.hp } else cur
    let payload ← aeadDecrypt A k (packet.drop hdr.length) hdr pn
    pure ⟨hdr, payload, pn, useNext⟩

/-! ## Sender side with the packet-number encoding of packet_builder -/

/-- a packet before protection: `pre` is the header up to (excluding) the packet
    number, its first byte already carrying `pnLen - 1` in its two low bits
    (packet_builder always uses `PACKET_NUMBER_SEND_SIZE = 2`:
    `push_uint16(packet_number & 0xFFFF)`). -/
structure Plain where
  pre : Bytes
  pnLen : Nat
  pn : Nat
  payload : Bytes
  deriving Repr, DecidableEq

def PACKET_NUMBER_SEND_SIZE : Nat := 2

def Plain.header (p : Plain) : Bytes := p.pre ++ beBytes p.pn p.pnLen

/-- `_end_packet`: header ‖ truncated pn, then `encrypt_packet` -/
def protect (A : AEAD) (k : Keys) (p : Plain) : Res Bytes :=
  encryptPacket A k p.header p.payload p.pn

/-- what RFC 9001 §5.3/§5.4 prescribes, without the C helpers' size limits -/
def protectSpec (A : AEAD) (k : Keys) (hdr plain : Bytes) (pn : Nat) : Bytes :=
  let sealed := A.aeSeal k.key (nonce k.iv pn) hdr plain
  let pnLen := ((hdr.getD 0 0) &&& 0x03).toNat + 1
  let mask := A.maskOf k.hp (sampleOfPayload sealed pnLen)
  xorPn ((hdr ++ sealed).modify 0 (fun b => fbMask b (maskAt mask 0))) (hdr.length - pnLen) mask pnLen

/-! ## Retry integrity -/

/-- the Retry pseudo-packet of `get_retry_integrity_tag`:
    `push_uint8(len(odcid)); push_bytes(odcid); push_bytes(packet_without_tag)` -/
def retryPseudo (odcid packetWithoutTag : Bytes) : Bytes :=
  UInt8.ofNat odcid.length :: odcid ++ packetWithoutTag

/-- `aead.encrypt(nonce, b"", pseudo)`: AES-128-GCM of the empty plaintext is
    the 16-byte tag alone -/
def retryTag (gcm : AEAD) (key nonce : Bytes) (odcid packetWithoutTag : Bytes) : Bytes :=
  gcm.aeSeal key nonce (retryPseudo odcid packetWithoutTag) []

/-- the comparison in `_receive_retry_packet` -/
def retryAccept (gcm : AEAD) (key nonce : Bytes) (odcid packet : Bytes) : Bool :=
  let n := packet.length - 16
  packet.drop n == retryTag gcm key nonce odcid (packet.take n)

end AQ.PacketProt
