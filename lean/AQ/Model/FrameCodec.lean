/-
  Byte-level codec of every QUIC frame of `QuicFrameType`: what the
  `_handle_*_frame` functions of quic/connection.py READ from the payload buffer
  (field by field, in order, with the frame-encoding checks that sit between
  reads) and what the `_write_*_frame` functions WRITE through
  `QuicPacketBuilder.start_frame` (`push_uint_var(frame_type)` first).
  The state-dependent checks of the handlers (limits, stream state, epochs) are
  the subject of C05/C06 (`AQ.Model.RecvFrames`), not of this codec.
  Core Lean only.
-/
import AQ.Model.Codec

namespace AQ.Frame
open AQ AQ.Codec

def UINT_VAR_MAX : Nat := 0x3FFFFFFFFFFFFFFF

/-- `QuicConnectionError(FRAME_ENCODING_ERROR)` -/
def frameEncodingError : Err := .conn 0x7

/-- a frame as the handlers see it.  Byte strings are kept raw (the utf-8
    decoding of a close reason is presentation, not parsing). -/
inductive Frame where
  /-- a PADDING type byte followed by `more` further zero bytes (one run) -/
  | padding (more : Nat)
  | ping
  /-- `ecn` = the three ECN counts of an ACK_ECN frame (read and ignored by the code) -/
  | ack (rs : List IRg) (delay : Nat) (ecn : Option (Nat × Nat × Nat))
  | resetStream (sid err final : Nat)
  | stopSending (sid err : Nat)
  | crypto (offset : Nat) (data : Bytes)
  | newToken (token : Bytes)
  /-- `hasOff`/`hasLen` are the OFF and LEN bits of the frame type -/
  | stream (sid offset : Nat) (data : Bytes) (fin hasOff hasLen : Bool)
  | maxData (v : Nat)
  | maxStreamData (sid v : Nat)
  | maxStreams (uni : Bool) (v : Nat)
  | dataBlocked (v : Nat)
  | streamDataBlocked (sid v : Nat)
  | streamsBlocked (uni : Bool) (v : Nat)
  | newConnectionId (seq rpt : Nat) (cid token : Bytes)
  | retireConnectionId (seq : Nat)
  | pathChallenge (data : Bytes)
  | pathResponse (data : Bytes)
  | transportClose (err ftype : Nat) (reason : Bytes)
  | applicationClose (err : Nat) (reason : Bytes)
  | handshakeDone
  | datagram (data : Bytes) (hasLen : Bool)
deriving Repr, DecidableEq, Inhabited

/-- `buf.data_slice(pos, capacity)` scanned while bytes are zero, then `buf.seek` -/
def pullZeros : Rd Nat := fun s =>
  let z := s.takeWhile (· == 0)
  .ok (z.length, s.drop z.length)

/-- the reads of the handler registered for `ftype` in `__frame_handlers` -/
def pullFrameBody (ftype : Nat) : Rd Frame :=
  if ftype = 0x00 then do
    let n ← pullZeros
    pure (.padding n)
  else if ftype = 0x01 then pure .ping
  else if ftype = 0x02 ∨ ftype = 0x03 then do
    let (rs, delay) ← pullAck
    if ftype = 0x03 then
      let a ← pullUintVar
      let b ← pullUintVar
      let c ← pullUintVar
      pure (.ack rs delay (some (a, b, c)))
    else pure (.ack rs delay none)
  else if ftype = 0x04 then do
    let sid ← pullUintVar
    let err ← pullUintVar
    let final ← pullUintVar
    pure (.resetStream sid err final)
  else if ftype = 0x05 then do
    let sid ← pullUintVar
    let err ← pullUintVar
    pure (.stopSending sid err)
  else if ftype = 0x06 then do
    let offset ← pullUintVar
    let length ← pullUintVar
    Rd.guard (decide (offset + length ≤ UINT_VAR_MAX)) frameEncodingError
    let data ← pullBytes length
    pure (.crypto offset data)
  else if ftype = 0x07 then do
    let length ← pullUintVar
    let token ← pullBytes length
    pure (.newToken token)
  else if 0x08 ≤ ftype ∧ ftype ≤ 0x0F then do
    let sid ← pullUintVar
    let offset ← (if ftype / 4 % 2 = 1 then pullUintVar else pure 0 : Rd Nat)
    let length ← (if ftype / 2 % 2 = 1 then pullUintVar else Rd.remaining : Rd Nat)
    Rd.guard (decide (offset + length ≤ UINT_VAR_MAX)) frameEncodingError
    let data ← pullBytes length
    pure (.stream sid offset data (ftype % 2 = 1) (ftype / 4 % 2 = 1) (ftype / 2 % 2 = 1))
  else if ftype = 0x10 then do let v ← pullUintVar; pure (.maxData v)
  else if ftype = 0x11 then do
    let sid ← pullUintVar
    let v ← pullUintVar
    pure (.maxStreamData sid v)
  else if ftype = 0x12 then do let v ← pullUintVar; pure (.maxStreams false v)
  else if ftype = 0x13 then do let v ← pullUintVar; pure (.maxStreams true v)
  else if ftype = 0x14 then do let v ← pullUintVar; pure (.dataBlocked v)
  else if ftype = 0x15 then do
    let sid ← pullUintVar
    let v ← pullUintVar
    pure (.streamDataBlocked sid v)
  else if ftype = 0x16 then do let v ← pullUintVar; pure (.streamsBlocked false v)
  else if ftype = 0x17 then do let v ← pullUintVar; pure (.streamsBlocked true v)
  else if ftype = 0x18 then do
    let seq ← pullUintVar
    let rpt ← pullUintVar
    let length ← pullUint8
    let cid ← pullBytes length
    let token ← pullBytes 16
    pure (.newConnectionId seq rpt cid token)
  else if ftype = 0x19 then do let seq ← pullUintVar; pure (.retireConnectionId seq)
  else if ftype = 0x1A then do let d ← pullBytes 8; pure (.pathChallenge d)
  else if ftype = 0x1B then do let d ← pullBytes 8; pure (.pathResponse d)
  else if ftype = 0x1C then do
    let err ← pullUintVar
    let ft ← pullUintVar
    let n ← pullUintVar
    let reason ← pullBytes n
    pure (.transportClose err ft reason)
  else if ftype = 0x1D then do
    let err ← pullUintVar
    let n ← pullUintVar
    let reason ← pullBytes n
    pure (.applicationClose err reason)
  else if ftype = 0x1E then pure .handshakeDone
  else if ftype = 0x30 then do
    let n ← Rd.remaining
    let d ← pullBytes n
    pure (.datagram d false)
  else if ftype = 0x31 then do
    let n ← pullUintVar
    let d ← pullBytes n
    pure (.datagram d true)
  else Rd.fail frameEncodingError      -- KeyError in `__frame_handlers`: "Unknown frame type"

/-- one iteration of the loop of `_payload_received`, codec part: frame type,
    handler lookup, handler reads; `BufferReadError` becomes FRAME_ENCODING_ERROR -/
def pullFrame : Rd Frame := fun s =>
  match pullUintVar s with
  | .error _ => .error frameEncodingError        -- "Malformed frame type"
  | .ok (ftype, s1) =>
    match pullFrameBody ftype s1 with
    | .ok r => .ok r
    | .error .bufferRead => .error frameEncodingError   -- "Failed to parse frame"
    | .error e => .error e

/-- `while not buf.eof()`; fuel as for transport parameters (every frame consumes ≥ 1 byte) -/
def pullFrames : Nat → Bytes → Outcome (List Frame)
  | _, [] => .ok []
  | 0, _ :: _ => .error frameEncodingError
  | n + 1, s =>
    match pullFrame s with
    | .error e => .error e
    | .ok (f, s') =>
      match pullFrames n s' with
      | .ok fs => .ok (f :: fs)
      | .error e => .error e

def payloadFrames (s : Bytes) : Outcome (List Frame) := pullFrames s.length s

/-! ## writers (`_write_*_frame`, `QuicPacketBuilder` padding) -/

def b2n (b : Bool) : Nat := if b then 1 else 0

/-- the pushes of the `_write_*` function producing this frame, after
    `start_frame`'s `push_uint_var(frame_type)`.  Frames the library never
    writes (ACK_ECN, NEW_TOKEN, DATA_BLOCKED, STREAM_DATA_BLOCKED, STREAM/DATAGRAM
    without LEN) have no writer: `none`. -/
def writeScript : Frame → Option Script
  | .padding more => some [.ok (zeros (more + 1))]                 -- `push_bytes(bytes(padding_size))`
  | .ping => some [chunkUintVar 0x01]
  | .ack rs delay none => some (chunkUintVar 0x02 :: ackScript rs delay)
  | .ack _ _ (some _) => none
  | .resetStream sid err final => some [chunkUintVar 0x04, chunkUintVar sid, chunkUintVar err, chunkUintVar final]
  | .stopSending sid err => some [chunkUintVar 0x05, chunkUintVar sid, chunkUintVar err]
  | .crypto offset data =>
    some [chunkUintVar 0x06, chunkUintVar offset, chunkUint16 ((data.length ||| 0x4000 : Nat) : Int), .ok data]
  | .newToken _ => none
  | .stream sid offset data fin hasOff true =>
    -- `frame_type = STREAM_BASE | 2`, `| 4` iff `frame.offset`, `| 1` iff `frame.fin`
    if hasOff = decide (offset ≠ 0) then
      some ([chunkUintVar ((0x08 ||| 2 ||| (if hasOff then 4 else 0) ||| b2n fin : Nat) : Int), chunkUintVar sid]
        ++ (if hasOff then [chunkUintVar offset] else [])
        ++ [chunkUint16 ((data.length ||| 0x4000 : Nat) : Int), .ok data])
    else none
  | .stream _ _ _ _ _ false => none
  | .maxData v => some [chunkUintVar 0x10, chunkUintVar v]
  | .maxStreamData sid v => some [chunkUintVar 0x11, chunkUintVar sid, chunkUintVar v]
  | .maxStreams uni v => some [chunkUintVar (if uni then 0x13 else 0x12), chunkUintVar v]
  | .dataBlocked _ => none
  | .streamDataBlocked _ _ => none
  | .streamsBlocked uni v => some [chunkUintVar (if uni then 0x17 else 0x16), chunkUintVar v]
  | .newConnectionId seq rpt cid token =>
    some [chunkUintVar 0x18, chunkUintVar seq, chunkUintVar rpt, chunkUint8 cid.length, .ok cid, .ok token]
  | .retireConnectionId seq => some [chunkUintVar 0x19, chunkUintVar seq]
  | .pathChallenge d => some [chunkUintVar 0x1A, .ok d]
  | .pathResponse d => some [chunkUintVar 0x1B, .ok d]
  | .transportClose err ft reason =>
    some [chunkUintVar 0x1C, chunkUintVar err, chunkUintVar ft, chunkUintVar reason.length, .ok reason]
  | .applicationClose err reason =>
    some [chunkUintVar 0x1D, chunkUintVar err, chunkUintVar reason.length, .ok reason]
  | .handshakeDone => some [chunkUintVar 0x1E]
  | .datagram d true => some [chunkUintVar 0x31, chunkUintVar d.length, .ok d]
  | .datagram _ false => none

/-- all frames of a payload written one after the other -/
def writeAll : List Frame → Option Script
  | [] => some []
  | f :: fs =>
    match writeScript f, writeAll fs with
    | some a, some b => some (a ++ b)
    | _, _ => none

/-! ## Retry token plaintext (quic/retry.py) -/

/-- tls.py `push_opaque(buf, 1, value)` = `push_block(buf, 1)` around
    `push_bytes(value)`: seek past the length byte, write the value, then
    `length.to_bytes(1, "big")` (OverflowError from 256 on), seek back, write
    the length, seek to the end. -/
def pushOpaque1 (b : Buf) (value : Bytes) : Outcome Buf :=
  match b.seek ((b.pos : Int) + 1) with
  | .error e => .error e
  | .ok b1 =>
    match b1.put value with
    | .error e => .error e
    | .ok b2 =>
      if value.length ≥ 256 then .error (.py .overflow)
      else
        match b2.seek (b.pos : Int) with
        | .error e => .error e
        | .ok b3 =>
          match b3.put [byte value.length] with
          | .error e => .error e
          | .ok b4 => b4.seek (b2.pos : Int)

/-- tls.py `pull_opaque(buf, 1)`: `pull_bytes(1)` as the length, then that many bytes -/
def pullOpaque1 : Rd Bytes := do
  let n ← pullUint8
  pullBytes n

/-- the plaintext `create_token` encrypts: address, ODCID, retry SCID in `Buffer(capacity=512)` -/
def retryTokenPlain (addr odcid rscid : Bytes) : Outcome Bytes :=
  match pushOpaque1 (Buf.ofCapacity 512) addr with
  | .error e => .error e
  | .ok b1 =>
    match pushOpaque1 b1 odcid with
    | .error e => .error e
    | .ok b2 =>
      match pushOpaque1 b2 rscid with
      | .error e => .error e
      | .ok b3 => .ok b3.data

/-- what `validate_token` reads from the decrypted plaintext -/
def pullRetryToken : Rd (Bytes × Bytes × Bytes) := do
  let addr ← pullOpaque1
  let odcid ← pullOpaque1
  let rscid ← pullOpaque1
  pure (addr, odcid, rscid)

/-- `validate_token(addr, token)` on the decrypted plaintext; `encodedAddr` is `encode_address(addr)` -/
def validateToken (encodedAddr plain : Bytes) : Outcome (Bytes × Bytes) :=
  match pullRetryToken plain with
  | .error e => .error e
  | .ok ((a, o, r), _) => if a != encodedAddr then .error (.py .value) else .ok (o, r)

end AQ.Frame
