/-
  Histories of the public recovery API (`on_packet_sent`, `on_ack_received`,
  `on_loss_detection_timeout`, `discard_space`) as op sequences over the model
  `AQ.Model.Recovery`, and the caller obligations on such histories.
-/
import AQ.Model.Recovery

namespace AQ.Recovery
open AQ AQ.RangeSet

inductive Op (F : Type) where
  | sent (i : Nat) (p : Pkt F)
  | ack (i : Nat) (rs : List Rg) (ackDelay now : F)
  | timeout (now : F)
  | discard (i : Nat)

variable {F : Type}

/-- one public call; a call that raises leaves the state unchanged (in the
    Python code every raise of these four functions happens before the first
    mutation: `bounds()` of an empty range set, `assert space in self.spaces`) -/
def step (A : FArith F) (r : Rec F) : Op F → Rec F
  | .sent i p =>
    match onPacketSent A r i p with
    | .ok r' => r'
    | .error _ => r
  | .ack i rs ackDelay now =>
    match onAckReceived A r i rs ackDelay now with
    | .ok r' => r'
    | .error _ => r
  | .timeout now => onLossDetectionTimeout A r now
  | .discard i =>
    match discardSpace r i with
    | .ok r' => r'
    | .error _ => r

def run (A : FArith F) (r₀ : Rec F) (ops : List (Op F)) : Rec F := ops.foldl (step A) r₀

/-- caller obligation on one call in state `r`: a packet handed to
    `on_packet_sent` carries a packet number that is not currently tracked in
    its space (the connection draws packet numbers from one increasing
    counter).  Nothing is required of the other calls. -/
def FreshPn (r : Rec F) : Op F → Prop
  | .sent i p => ∀ s, r.spaces[i]? = some s → ∀ q ∈ s.sent, q.pn ≠ p.pn
  | _ => True

/-- `FreshPn` along the whole history starting in `r` -/
def FreshFrom (A : FArith F) (r : Rec F) : List (Op F) → Prop
  | [] => True
  | op :: rest => FreshPn r op ∧ FreshFrom A (step A r op) rest

/-- the uids (packet-object identities) of the `sent` ops of a history -/
def sentUids : List (Op F) → List Nat
  | [] => []
  | .sent _ p :: rest => p.uid :: sentUids rest
  | _ :: rest => sentUids rest

/-- (space, packet number) of the `sent` ops of a history -/
def sentKeys : List (Op F) → List (Nat × Nat)
  | [] => []
  | .sent i p :: rest => (i, p.pn) :: sentKeys rest
  | _ :: rest => sentKeys rest

/-- Well-formed history from `r₀`: exactly the caller obligations.
    * every `sent i p` uses a packet number not currently tracked in space `i`;
    * distinct `sent` ops carry distinct packet objects (`uid`s). -/
structure WF (A : FArith F) (r₀ : Rec F) (ops : List (Op F)) : Prop where
  fresh : FreshFrom A r₀ ops
  uids : (sentUids ops).Nodup

/-- the syntactic (stronger, state-free) form of the obligation: a packet
    number is never used twice in the same space, and uids are distinct -/
structure NeverReused (ops : List (Op F)) : Prop where
  keys : (sentKeys ops).Nodup
  uids : (sentUids ops).Nodup

/-! ### vocabulary of the property statement -/

/-- total size of the in-flight packets held in one `sent_packets` dict -/
def inFlightBytes (ps : List (Pkt F)) : Int :=
  ((ps.filter (·.inFlight)).map (fun p => (p.sentBytes : Int))).sum

/-- total size of the in-flight packets still being tracked, over all spaces -/
def trackedBytes (r : Rec F) : Int := (r.spaces.map (fun s => inFlightBytes s.sent)).sum

/-- number of ack-eliciting packets tracked in a space -/
def aeTracked (s : Space F) : Int := ((s.sent.filter (·.ackEliciting)).length : Nat)

end AQ.Recovery
