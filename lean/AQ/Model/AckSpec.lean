/-
  One packet-number space of AQ.Model.Ack under ALL interleavings of its events
  (receive / ACK-of-ACK / discard / send calls), and the property C12 as two
  executable run monitors written from the property text:

    * `monApp`  — application (1-RTT) space: every ack-eliciting packet that carries
      the highest number at arrival opens an obligation with deadline
      `arrival + delay`; an emitted ACK frame closes the obligations it covers; the
      monitor trips when an event happens later than `deadline + ε` with the
      obligation still open;
    * `monHs`   — Initial / Handshake space: the next packet transmitted in the space
      must carry an ACK frame covering every open obligation.
-/
import AQ.Model.Ack

namespace AQ.Ack
open AQ AQ.RangeSet AQ.Recovery

/-- the events of one packet-number space -/
inductive SOp (F : Type) where
  | rx (pn : Nat) (ae : Bool) (now : F) (accepted : Bool) (acked : List Int)
  | aoa (h : Int)
  | discard
  | txHs (keysValid startOk ackFits : Bool) (delayEnc : Nat) (maxSize : Option Int)
  | txApp (now : F) (hsComplete keysValid pacerWait startOk ackFits : Bool) (delayEnc : Nat) (maxSize : Option Int)

def sstep {F} (A : FArith F) (delay : F) (s : Space F) : SOp F → Outcome (Space F × Out)
  | .rx pn ae now acc acked => do
    let (s, r) ← rxPacket A delay s pn ae now acc acked
    pure (s, .rx r)
  | .aoa h => do
    let s ← onAckDelivery s h
    pure (s, .unit)
  | .discard => pure (discard s, .unit)
  | .txHs kv so af de ms => do
    let (s, r) ← txHandshake s kv so af de ms
    pure (s, .tx r)
  | .txApp now hc kv pw so af de ms => do
    let (s, r) ← txApplication A s now hc kv pw so af de ms
    pure (s, .tx r)

/-- the time at which an event happens, when it has one -/
def SOp.time {F} : SOp F → Option F
  | .rx _ _ now _ _ => some now
  | .txApp now _ _ _ _ _ _ _ => some now
  | _ => none

/-- does the ACK frame acknowledge `pn` (RFC 9000 19.3.1 reading of its values) -/
def covers (f : AckFrame) (pn : Nat) : Bool :=
  (wireRanges f.values).any fun lh => decide (lh.1 ≤ (pn : Int)) && decide ((pn : Int) ≤ lh.2)

/-- an open obligation: packet number and the deadline `arrival + delay` -/
abbrev Obl (F : Type) := Nat × F

/-- does this event open an obligation: "ack-eliciting packet that carries the highest
    packet number received so far in its space" (and was recorded) -/
def opens {F} (s : Space F) : SOp F → Out → Option (Nat × F)
  | .rx pn true now _ _, .rx .recorded =>
    if (pn : Int) > s.largestReceived && !s.discarded then some (pn, now) else none
  | _, _ => none

/-- an event happens later than `deadline + ε` while an obligation is still open -/
def isLate {F} (A : FArith F) (eps : F) (op : SOp F) (open_ : List (Obl F)) : Bool :=
  match op.time with
  | some t => open_.any fun o => A.lt (A.add o.2 eps) t
  | none => false

/-- how an event that is not late changes the open obligations -/
def monAppCore {F} (A : FArith F) (delay : F) (s : Space F) (op : SOp F) (out : Out) (open_ : List (Obl F)) : List (Obl F) :=
  match op, out with
  | .discard, _ => []                         -- keys discarded: nothing can be acknowledged any more
  | _, .rx .closed => []                      -- the connection is closing (RFC 9000 10.2.1)
  | _, .tx (.ack f) => open_.filter fun o => !covers f o.1
  | _, _ => match opens s op out with
    | some (pn, now) => open_ ++ [(pn, A.add now delay)]
    | none => open_

/-- application space monitor step: `none` = the property is violated -/
def monApp {F} (A : FArith F) (delay eps : F) (s : Space F) (op : SOp F) (out : Out) (open_ : List (Obl F)) :
    Option (List (Obl F)) :=
  if isLate A eps op open_ then none else some (monAppCore A delay s op out open_)

/-- Initial / Handshake space monitor step -/
def monHs {F} (s : Space F) (op : SOp F) (out : Out) (open_ : List Nat) : Option (List Nat) :=
  match op, out with
  | .discard, _ => some []
  | _, .rx .closed => some []
  | _, .tx (.ack f) => if open_.all (covers f) then some [] else none
  | _, .tx .noAck => if open_.isEmpty then some [] else none     -- a packet of the space went out without the ACK
  | _, _ => match opens s op out with
    | some (pn, _) => some (open_ ++ [pn])
    | none => some open_

/-- run the space together with a monitor; `.ok none` = the monitor tripped -/
def runMon {F M} (A : FArith F) (delay : F) (mon : Space F → SOp F → Out → M → Option M) :
    Space F → M → List (SOp F) → Outcome (Option M)
  | _, m, [] => .ok (some m)
  | s, m, op :: ops =>
    match sstep A delay s op with
    | .error e => .error e
    | .ok (s', out) =>
      match mon s op out m with
      | none => .ok none
      | some m' => runMon A delay mon s' m' ops

end AQ.Ack
