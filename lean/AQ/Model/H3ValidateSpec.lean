/-
  `WellFormed kind hs`: the header-block rules of property C15, written from the
  property text alone (it shares only the types `Kind`, `Headers` and the
  byte-string constants with the model; none of the validator code is used).

  "Every header block handed to the application has lower-case names free of
   control, space and non-ASCII characters, values free of NUL, CR and LF and of
   leading or trailing whitespace, all pseudo-headers before regular headers
   with none repeated or unknown, a :method on requests, a :status on responses
   and none on trailers."
-/
import AQ.Model.H3Validate
namespace AQ.H3V.Spec
open AQ AQ.H3V

/-- lower-case (no `A`..`Z`), not a control character (`< 0x20`, DEL `0x7f`),
    not the space, not non-ASCII (`≥ 0x80`) -/
def NameByteOk (c : UInt8) : Prop :=
  ¬ (0x41 ≤ c.toNat ∧ c.toNat ≤ 0x5A) ∧ 0x20 < c.toNat ∧ c.toNat < 0x7F

def NameOk (name : Bytes) : Prop := ∀ c ∈ name, NameByteOk c

/-- SP or HT -/
def IsWhitespace (c : UInt8) : Prop := c.toNat = 0x20 ∨ c.toNat = 0x09

/-- no NUL, CR, LF anywhere; no whitespace first or last -/
def ValueOk (value : Bytes) : Prop :=
  (∀ c ∈ value, c.toNat ≠ 0x00 ∧ c.toNat ≠ 0x0D ∧ c.toNat ≠ 0x0A)
  ∧ (∀ c, value.head? = some c → ¬ IsWhitespace c)
  ∧ (∀ c, value.getLast? = some c → ¬ IsWhitespace c)

/-- a pseudo-header is a header whose name starts with `:` -/
def IsPseudoName (name : Bytes) : Prop := name.head? = some 0x3A

/-- the pseudo-headers defined for each kind of block (`:protocol` is RFC 8441's) -/
def knownPseudo : Kind → List Bytes
  | .request => [bMethod, bScheme, bAuthority, bPath, bProtocol]
  | .response => [bStatus]
  | .trailers => []
  | .push => [bMethod, bScheme, bAuthority, bPath]

/-- "a :method on requests, a :status on responses" (a push promise carries a request) -/
def neededPseudo : Kind → List Bytes
  | .request => [bMethod]
  | .response => [bStatus]
  | .trailers => []
  | .push => [bMethod]

def names (hs : Headers) : List Bytes := hs.map (·.1)

instance (n : Bytes) : Decidable (IsPseudoName n) := by unfold IsPseudoName; infer_instance

def WellFormed (kind : Kind) (hs : Headers) : Prop :=
  (∀ h ∈ hs, NameOk h.1)
  ∧ (∀ h ∈ hs, ValueOk h.2)
  -- all pseudo-headers before regular headers
  ∧ hs.Pairwise (fun a b => IsPseudoName b.1 → IsPseudoName a.1)
  -- none repeated
  ∧ ((names hs).filter (fun n => decide (IsPseudoName n))).Nodup
  -- none unknown (hence none at all on trailers)
  ∧ (∀ h ∈ hs, IsPseudoName h.1 → h.1 ∈ knownPseudo kind)
  -- `:method` on requests, `:status` on responses
  ∧ (∀ n ∈ neededPseudo kind, n ∈ names hs)

instance (c : UInt8) : Decidable (NameByteOk c) := by unfold NameByteOk; infer_instance
instance (n : Bytes) : Decidable (NameOk n) := by unfold NameOk; infer_instance
instance (c : UInt8) : Decidable (IsWhitespace c) := by unfold IsWhitespace; infer_instance
instance (v : Bytes) : Decidable (ValueOk v) := by
  unfold ValueOk
  have d2 : Decidable (∀ c, v.head? = some c → ¬ IsWhitespace c) :=
    match h : v.head? with
    | none => isTrue (by intro c hc; cases hc)
    | some c => if hw : IsWhitespace c then isFalse (fun hh => hh c rfl hw)
                else isTrue (by intro c' hc'; cases hc'; exact hw)
  have d3 : Decidable (∀ c, v.getLast? = some c → ¬ IsWhitespace c) :=
    match h : v.getLast? with
    | none => isTrue (by intro c hc; cases hc)
    | some c => if hw : IsWhitespace c then isFalse (fun hh => hh c rfl hw)
                else isTrue (by intro c' hc'; cases hc'; exact hw)
  infer_instance
instance (k : Kind) (hs : Headers) : Decidable (WellFormed k hs) := by
  unfold WellFormed; infer_instance

end AQ.H3V.Spec
