/-
  Reference model for the receive half of a stream (property C10): the
  "simple offset-to-byte map".  This file is the SPECIFICATION — it is meant to
  be checked by eye.  It does not mention buffers, range sets or fast paths.

  State: which not-yet-delivered offsets have a known byte, how many bytes were
  delivered so far (always a prefix of the stream), the final size once fixed,
  and the highest offset seen (only used as a search bound).
-/
import AQ.Base.Basic
import AQ.Model.Stream

namespace AQ.Stream

structure RSpec where
  /-- bytes received but not yet delivered, by stream offset -/
  known : Nat → Option UInt8 := fun _ => none
  /-- number of bytes delivered so far = offset of the next byte to deliver -/
  delivered : Nat := 0
  /-- the final size of the stream, once a FIN or reset has fixed it -/
  final : Option Nat := none
  /-- highest offset seen in any accepted frame (no byte is known at or above it) -/
  hi : Nat := 0

/-- the maximal run of known bytes starting at offset `d` (looking at most
    `fuel` offsets ahead; `deliver_maximal` below shows the bound `hi - d` used
    by `specFrame` never cuts a run short) -/
def deliver (known : Nat → Option UInt8) (d : Nat) : (fuel : Nat) → Bytes
  | 0 => []
  | fuel + 1 =>
    match known d with
    | some b => b :: deliver known (d + 1) fuel
    | none => []

/-- the event handed to the application: present iff it carries bytes or the end marker -/
def mkEvent (data : Bytes) (endStream : Bool) : Option DataEv :=
  if data ≠ [] ∨ endStream = true then some ⟨data, endStream⟩ else none

/-- A final-size error is raised exactly when the final size is already fixed
    and the frame has data beyond it, or carries a FIN at a different offset. -/
def specFrameError (t : RSpec) (f : Frame) : Prop :=
  ∃ z, t.final = some z ∧ (f.stop > z ∨ (f.fin = true ∧ f.stop ≠ z))

instance (t : RSpec) (f : Frame) : Decidable (specFrameError t f) := by
  unfold specFrameError
  cases t.final with
  | none => exact isFalse (by simp)
  | some z => exact decidable_of_iff (f.stop > z ∨ (f.fin = true ∧ f.stop ≠ z)) (by simp)

/-- A STREAM frame arrives.  `none` = FinalSizeError (state unchanged). -/
def specFrame (t : RSpec) (f : Frame) : Option (RSpec × Option DataEv) :=
  if specFrameError t f then none else
  let final' := if f.fin then some f.stop else t.final
  let hi' := max t.hi f.stop
  -- record the frame's bytes; the latest frame wins; delivered offsets are ignored
  let known₁ : Nat → Option UInt8 := fun i =>
    if t.delivered ≤ i ∧ f.offset ≤ i ∧ i < f.stop then f.data[i - f.offset]? else t.known i
  -- deliver the maximal contiguous known run starting at `delivered`
  let out := deliver known₁ t.delivered (hi' - t.delivered)
  let delivered' := t.delivered + out.length
  let known' : Nat → Option UInt8 := fun i => if i < delivered' then none else known₁ i
  let endStream := decide (some delivered' = final')
  some ({ known := known', delivered := delivered', final := final', hi := hi' }, mkEvent out endStream)

/-- A RESET_STREAM arrives.  `none` = FinalSizeError (state unchanged).  An
    accepted reset fixes the final size and counts as "seen up to final size". -/
def specReset (t : RSpec) (finalSize : Nat) : Option RSpec :=
  match t.final with
  | some z => if finalSize ≠ z then none else some { t with hi := max t.hi finalSize }
  | none => some { t with final := some finalSize, hi := max t.hi finalSize }

end AQ.Stream
