/-
  An abstract QPACK decoder (pylsqpack.Decoder / the validators as seen by
  `H3Connection`) as a PARAMETER: a structure of pure functions plus the laws
  (`QpackLaws`) that `checks/c14.py` tests on the real pylsqpack with genuine
  encoder output.  `qpackOracle Q` turns it into the stateful `Oracle` the
  H3Parser model consumes.  Core Lean only.

    * `Q.dec E blk`   what `feed_header(_, blk)` answers once the concatenation of all
                      encoder-stream bytes fed so far is `E`: headers, Blocked or
                      DecompressionFailed — it depends on nothing else
    * `feed_encoder`  appends to `E` and reports the pending (blocked) streams whose
                      block is no longer blocked
    * `resume_header` answers what `feed_header` would answer with the current `E`
-/
import AQ.Model.H3Parser
namespace AQ.H3

structure Qpack where
  /-- `Decoder.feed_header` as a function of (encoder bytes so far, header block) -/
  dec : Bytes → Bytes → DecodeResult
  /-- the encoder-stream bytes fed so far are acceptable (no EncoderStreamError) -/
  encOk : Bytes → Bool
  /-- `Encoder.feed_decoder`: the decoder-stream bytes fed so far are acceptable -/
  decInOk : Bytes → Bool
  /-- `validate_*_headers` (pure) -/
  validate : HKind → Headers → VResult
  /-- strict utf-8 decoding of the header list succeeds (qlog) -/
  logOk : Headers → Bool

/-- the laws the schedule theorems use (tested by `checks/c14.py`, section qpack-laws).
    `encErr`/`decErr` are properties of pylsqpack.  `stable` is a property of pylsqpack
    TOGETHER WITH a conformant peer encoder (RFC 9204 §2.1.1: an entry that a header block
    not yet acknowledged references is not evicted); it is tested on genuine, ack-free
    `pylsqpack.Encoder` output.  A peer that evicts a referenced entry breaks it, and the
    events then depend on the interleaving (Props/C14 `unstable_qpack_counterexample`;
    bytes on the real code: evidence note `qpack_stable_is_a_peer_obligation`). -/
structure QpackLaws (Q : Qpack) : Prop where
  /-- once a block is decodable (or fails) its answer no longer changes when more
      encoder-stream bytes arrive -/
  stable : ∀ E x blk, Q.dec E blk ≠ .blocked → Q.dec (E ++ x) blk = Q.dec E blk
  /-- an encoder-stream error is not repaired by more bytes -/
  encErr : ∀ E x, Q.encOk E = false → Q.encOk (E ++ x) = false
  /-- a decoder-stream error is not repaired by more bytes -/
  decErr : ∀ E x, Q.decInOk E = false → Q.decInOk (E ++ x) = false

/-- decoder state: all encoder-stream bytes fed so far, the blocked header blocks
    (`pending_blocks`, in arrival order), all decoder-stream bytes fed so far -/
structure QState where
  enc : Bytes := []
  pending : List (Nat × Bytes) := []
  decIn : Bytes := []
  deriving Repr, DecidableEq, Inhabited

def pendingBlock (sid : Nat) : List (Nat × Bytes) → Option Bytes
  | [] => none
  | (i, b) :: r => if i = sid then some b else pendingBlock sid r

def pendingErase (sid : Nat) : List (Nat × Bytes) → List (Nat × Bytes)
  | [] => []
  | (i, b) :: r => if i = sid then r else (i, b) :: pendingErase sid r

/-- stream ids whose pending block is decodable with encoder bytes `E` -/
def unblockedIds (Q : Qpack) (E : Bytes) : List (Nat × Bytes) → List Nat
  | [] => []
  | (i, b) :: r => if Q.dec E b = .blocked then unblockedIds Q E r else i :: unblockedIds Q E r

def qpackOracle (Q : Qpack) : Oracle QState where
  decode q sid blk :=
    match Q.dec q.enc blk with
    | .blocked => (.blocked, { q with pending := q.pending ++ [(sid, blk)] })
    | r => (r, q)
  resume q sid :=
    match pendingBlock sid q.pending with
    | none => (.failed, q)
    | some blk =>
      match Q.dec q.enc blk with
      | .headers hs => (.headers hs, { q with pending := pendingErase sid q.pending })
      | _ => (.failed, { q with pending := pendingErase sid q.pending })
  feedEncoder q x :=
    if Q.encOk (q.enc ++ x) then
      (.unblocked (unblockedIds Q (q.enc ++ x) q.pending), { q with enc := q.enc ++ x })
    else (.error, q)
  feedDecoder q x :=
    if Q.decInOk (q.decIn ++ x) then (true, { q with decIn := q.decIn ++ x }) else (false, q)
  validate q kind hs := (Q.validate kind hs, q)
  logOk q hs := (Q.logOk hs, q)

end AQ.H3
