/-
  Model of aioquic/_buffer.c (Buffer), aioquic/buffer.py and the wire codecs of
  aioquic/quic/packet.py (+ the header writer of quic/packet_builder.py),
  statement by statement.  Core Lean only.

  The integer `push_*` methods are modelled as in the code WITH
  `fixes/C17-buffer-int-range.diff` applied (out-of-range ints raise
  ValueError); the behaviour of the unfixed code (silent reduction modulo 2^N)
  is kept as the `…Legacy` quirk functions for the counterexample theorems.

  Conventions
  * Python ints are `Int` where the code can see a negative value and `Nat`
    where the value is a decoded unsigned integer or a `len()`.
  * C's `a | b` on disjoint bit fields and `a >> k`, `a << k` are written
    `|||`, `/ 2^k`, `* 2^k`; `x & (2^k-1)` is `x % 2^k` only where the operand
    is a byte and the equality is a finite table (see `Proofs/Codec.lean`).
  * A *reader* (`Rd α`) is a function of the bytes between `pos` and `end`
    returning a value and the bytes left; `capacity - tell()` is the length of
    what is left.  An error returns no new state: every C method checks its
    bounds before moving `pos`, so an error leaves `pos` unchanged.
  * A composite *encoder* is a `Script`: the list of the arguments of the
    `push_*` calls it makes, in order, each already converted the way
    `PyArg_ParseTuple` converts it (or the exception raised while evaluating
    that statement).  `Script.run` executes it on a bounded `Buf`;
    `Script.bytes` is what an unbounded buffer would receive.
  * `malloc`'ed memory that was never written is modelled as zero bytes; no
    codec reads it.
-/
import AQ.Base.Basic
import AQ.Base.RangeSet

namespace AQ.Codec
open AQ

instance instDecidableEqExcept {ε α : Type} [DecidableEq ε] [DecidableEq α] :
    DecidableEq (Except ε α)
  | .ok a, .ok b => if h : a = b then isTrue (by rw [h]) else isFalse (by intro h'; cases h'; exact h rfl)
  | .error a, .error b => if h : a = b then isTrue (by rw [h]) else isFalse (by intro h'; cases h'; exact h rfl)
  | .ok _, .error _ => isFalse (by intro h; cases h)
  | .error _, .ok _ => isFalse (by intro h; cases h)

/-- assignment of a C integer to `uint8_t` (keeps the low 8 bits) -/
def byte (n : Nat) : UInt8 := UInt8.ofNat n

/-! ## Argument conversion -/

/-- (legacy, used only by the `…Legacy` quirk functions)
    `PyArg_ParseTuple` formats `B`, `H`, `I`, `K` ("without overflow checking"):
    any Python int is accepted and reduced to its two's-complement value modulo
    `m = 2^bits` (measured on CPython 3.12: `push_uint8(-1)` writes `ff`,
    `push_uint16(65536)` writes `0000`, `push_uint_var(2**64 + 5)` writes `05`). -/
def argMask (m : Nat) (v : Int) : Nat := (v % (m : Int)).toNat

def be1 (v : Nat) : Bytes := [byte v]
def be2 (v : Nat) : Bytes := [byte (v / 256), byte v]
def be4 (v : Nat) : Bytes := [byte (v / 16777216), byte (v / 65536), byte (v / 256), byte v]
def be8 (v : Nat) : Bytes :=
  [byte (v / 72057594037927936), byte (v / 281474976710656), byte (v / 1099511627776),
   byte (v / 4294967296), byte (v / 16777216), byte (v / 65536), byte (v / 256), byte v]

/-- `parse_uint_arg(args, max, …)` of the code *with fix
    `fixes/C17-buffer-int-range.diff` applied*: `PyNumber_Index` +
    `PyLong_AsUnsignedLongLong` (OverflowError turned into ValueError) + range
    check — every int outside `[0, max]` is a ValueError. -/
def argChecked (max : Nat) (v : Int) : Outcome Nat :=
  if 0 ≤ v ∧ v ≤ (max : Int) then .ok v.toNat else .error (.py .value)

/-- bytes written by `push_uint8(v)` … `push_uint64(v)` (fixed code) -/
def chunkUint8 (v : Int) : Outcome Bytes :=
  match argChecked 0xFF v with
  | .ok n => .ok (be1 n)
  | .error e => .error e
def chunkUint16 (v : Int) : Outcome Bytes :=
  match argChecked 0xFFFF v with
  | .ok n => .ok (be2 n)
  | .error e => .error e
def chunkUint32 (v : Int) : Outcome Bytes :=
  match argChecked 0xFFFFFFFF v with
  | .ok n => .ok (be4 n)
  | .error e => .error e
def chunkUint64 (v : Int) : Outcome Bytes :=
  match argChecked 0xFFFFFFFFFFFFFFFF v with
  | .ok n => .ok (be8 n)
  | .error e => .error e

/-- quirk (code *before* the fix): formats `B`/`H`/`I`/`K` mask silently -/
def chunkUint8Legacy (v : Int) : Outcome Bytes := .ok (be1 (argMask 256 v))
def chunkUint16Legacy (v : Int) : Outcome Bytes := .ok (be2 (argMask 65536 v))
def chunkUint32Legacy (v : Int) : Outcome Bytes := .ok (be4 (argMask 4294967296 v))
def chunkUint64Legacy (v : Int) : Outcome Bytes := .ok (be8 (argMask 18446744073709551616 v))

/-- the branches of `Buffer_push_uint_var` on the converted `uint64_t value` -/
def encVarint (value : Nat) : Outcome Bytes :=
  if value ≤ 0x3F then .ok [byte value]
  else if value ≤ 0x3FFF then .ok [byte (value / 256 ||| 0x40), byte value]
  else if value ≤ 0x3FFFFFFF then
    .ok [byte (value / 16777216 ||| 0x80), byte (value / 65536), byte (value / 256), byte value]
  else if value ≤ 0x3FFFFFFFFFFFFFFF then
    .ok [byte (value / 72057594037927936 ||| 0xC0), byte (value / 281474976710656),
         byte (value / 1099511627776), byte (value / 4294967296), byte (value / 16777216),
         byte (value / 65536), byte (value / 256), byte value]
  else .error (.py .value)

/-- `push_uint_var(v)` (fixed code): range check against 2^62 − 1, then the
    branches; ValueError does not depend on the space left. -/
def chunkUintVar (v : Int) : Outcome Bytes :=
  match argChecked 0x3FFFFFFFFFFFFFFF v with
  | .ok n => encVarint n
  | .error e => .error e

/-- quirk (code before the fix): format `K` reduces modulo 2^64 first -/
def chunkUintVarLegacy (v : Int) : Outcome Bytes := encVarint (argMask 18446744073709551616 v)

/-- buffer.py `size_uint_var` (plain Python comparison, no masking) -/
def sizeUintVar (value : Int) : Outcome Nat :=
  if value ≤ 0x3F then .ok 1
  else if value ≤ 0x3FFF then .ok 2
  else if value ≤ 0x3FFFFFFF then .ok 4
  else if value ≤ 0x3FFFFFFFFFFFFFFF then .ok 8
  else .error (.py .value)

/-! ## Readers -/

/-- a decoder over the bytes between `pos` and `end` -/
def Rd (α : Type) : Type := Bytes → Outcome (α × Bytes)

instance : Monad Rd where
  pure a := fun s => .ok (a, s)
  bind m f := fun s =>
    match m s with
    | .ok (a, s') => f a s'
    | .error e => .error e

def Rd.fail {α : Type} (e : Err) : Rd α := fun _ => .error e

def Rd.lift {α : Type} (o : Outcome α) : Rd α := fun s =>
  match o with
  | .ok a => .ok (a, s)
  | .error e => .error e

/-- `if not c: raise e` -/
def Rd.guard (c : Bool) (e : Err) : Rd Unit := fun s => if c then .ok ((), s) else .error e

/-- `buf.capacity - buf.tell()` -/
def Rd.remaining : Rd Nat := fun s => .ok (s.length, s)

/-- `Buffer_pull_bytes`: format `n` (Py_ssize_t) raises OverflowError outside
    64 bits; `len < 0 || pos + len > end` is BufferReadError -/
def pullBytes (n : Int) : Rd Bytes := fun s =>
  if n ≥ 9223372036854775808 ∨ n < -9223372036854775808 then .error (.py .overflow)
  else if n < 0 ∨ n > (s.length : Int) then .error .bufferRead
  else .ok (s.take n.toNat, s.drop n.toNat)

def pullUint8 : Rd Nat := fun s =>
  match s with
  | b0 :: r => .ok (b0.toNat, r)
  | _ => .error .bufferRead

def pullUint16 : Rd Nat := fun s =>
  match s with
  | b0 :: b1 :: r => .ok (b0.toNat * 256 + b1.toNat, r)
  | _ => .error .bufferRead

def pullUint32 : Rd Nat := fun s =>
  match s with
  | b0 :: b1 :: b2 :: b3 :: r =>
    .ok (b0.toNat * 16777216 + b1.toNat * 65536 + b2.toNat * 256 + b3.toNat, r)
  | _ => .error .bufferRead

def pullUint64 : Rd Nat := fun s =>
  match s with
  | b0 :: b1 :: b2 :: b3 :: b4 :: b5 :: b6 :: b7 :: r =>
    .ok (b0.toNat * 72057594037927936 + b1.toNat * 281474976710656 + b2.toNat * 1099511627776
         + b3.toNat * 4294967296 + b4.toNat * 16777216 + b5.toNat * 65536 + b6.toNat * 256
         + b7.toNat, r)
  | _ => .error .bufferRead

/-- `Buffer_pull_uint_var`: `switch (*pos >> 6)`; first byte `& 0x3F` -/
def pullUintVar : Rd Nat := fun s =>
  match s with
  | [] => .error .bufferRead
  | b0 :: rest =>
    match b0.toNat / 64 with
    | 0 => .ok (b0.toNat % 64, rest)
    | 1 =>
      match rest with
      | b1 :: r => .ok (b0.toNat % 64 * 256 + b1.toNat, r)
      | _ => .error .bufferRead
    | 2 =>
      match rest with
      | b1 :: b2 :: b3 :: r =>
        .ok (b0.toNat % 64 * 16777216 + b1.toNat * 65536 + b2.toNat * 256 + b3.toNat, r)
      | _ => .error .bufferRead
    | _ =>
      match rest with
      | b1 :: b2 :: b3 :: b4 :: b5 :: b6 :: b7 :: r =>
        .ok (b0.toNat % 64 * 72057594037927936 + b1.toNat * 281474976710656
             + b2.toNat * 1099511627776 + b3.toNat * 4294967296 + b4.toNat * 16777216
             + b5.toNat * 65536 + b6.toNat * 256 + b7.toNat, r)
      | _ => .error .bufferRead

/-! ## The Buffer object -/

/-- `BufferObject`: `base..end` is `mem`, `pos - base` is `pos` -/
structure Buf where
  mem : Bytes
  pos : Nat
deriving Repr, DecidableEq, Inhabited

namespace Buf

/-- `Buffer(capacity=n)` -/
def ofCapacity (n : Nat) : Buf := ⟨List.replicate n 0, 0⟩
/-- `Buffer(data=d)` (a `capacity` argument is ignored when data is given) -/
def ofData (d : Bytes) : Buf := ⟨d, 0⟩

def capacity (b : Buf) : Nat := b.mem.length
def tell (b : Buf) : Nat := b.pos
def eof (b : Buf) : Bool := b.pos == b.mem.length
/-- the `data` getter: bytes from `base` to `pos` -/
def data (b : Buf) : Bytes := b.mem.take b.pos
def rest (b : Buf) : Bytes := b.mem.drop b.pos

/-- `CHECK_WRITE_BOUNDS` + `memcpy` + `pos += len` -/
def put (b : Buf) (d : Bytes) : Outcome Buf :=
  if b.pos + d.length > b.mem.length then .error .bufferWrite
  else .ok ⟨sliceAssign b.mem b.pos d, b.pos + d.length⟩

/-- one `push_*` call: convert the argument, then check bounds, then write -/
def push (b : Buf) (c : Outcome Bytes) : Outcome Buf :=
  match c with
  | .ok d => b.put d
  | .error e => .error e

/-- one `pull_*` call or a whole decoder run on this buffer -/
def pull {α : Type} (b : Buf) (rd : Rd α) : Outcome (α × Buf) :=
  match rd b.rest with
  | .ok (a, r) => .ok (a, { b with pos := b.mem.length - r.length })
  | .error e => .error e

/-- `Buffer_seek` -/
def seek (b : Buf) (p : Int) : Outcome Buf :=
  if p ≥ 9223372036854775808 ∨ p < -9223372036854775808 then .error (.py .overflow)
  else if p < 0 ∨ p > (b.mem.length : Int) then .error .bufferRead
  else .ok { b with pos := p.toNat }

/-- `Buffer_data_slice` -/
def dataSlice (b : Buf) (start stop : Int) : Outcome Bytes :=
  if start ≥ 9223372036854775808 ∨ start < -9223372036854775808 ∨
     stop ≥ 9223372036854775808 ∨ stop < -9223372036854775808 then .error (.py .overflow)
  else if start < 0 ∨ start > (b.mem.length : Int) ∨ stop < 0 ∨ stop > (b.mem.length : Int) ∨ stop < start then
    .error .bufferRead
  else .ok ((b.mem.drop start.toNat).take (stop.toNat - start.toNat))

end Buf

/-! ## Scripts (composite encoders) -/

abbrev Script := List (Outcome Bytes)

/-- what an unbounded buffer receives: the first exception in program order,
    else the concatenation -/
def Script.bytes : Script → Outcome Bytes
  | [] => .ok []
  | c :: rest =>
    match c with
    | .error e => .error e
    | .ok d =>
      match Script.bytes rest with
      | .error e => .error e
      | .ok r => .ok (d ++ r)

/-- the pushes executed one after the other on a real (bounded) buffer -/
def Script.run : Script → Buf → Outcome Buf
  | [], b => .ok b
  | c :: rest, b =>
    match b.push c with
    | .error e => .error e
    | .ok b' => Script.run rest b'

/-- buffer.py `encode_uint_var` -/
def encodeUintVar (v : Int) : Outcome Bytes :=
  match Script.run [chunkUintVar v] (Buf.ofCapacity 8) with
  | .ok b => .ok b.data
  | .error e => .error e

/-! ## ACK frames (`pull_ack_frame` / `push_ack_frame`) -/

/-- a Python `range(start, stop)` held by a `RangeSet`; `pull_ack_frame` can
    produce negative bounds, hence `Int` -/
structure IRg where
  start : Int
  stop : Int
deriving Repr, DecidableEq, Inhabited

def IRg.ofRg (r : Rg) : IRg := ⟨r.start, r.stop⟩

/-- `RangeSet.add` over Python ints (same text as `AQ.RangeSet.add`) -/
def absorbI (stop : Int) : List IRg → Int × List IRg
  | [] => (stop, [])
  | r :: rest => if r.start ≤ stop then absorbI (max r.stop stop) rest else (stop, r :: rest)

def addI (start stop : Int) : List IRg → List IRg
  | [] => [⟨start, stop⟩]
  | r :: rest =>
    if stop < r.start then ⟨start, stop⟩ :: r :: rest
    else if start > r.stop then r :: addI start stop rest
    else
      let s := min start r.start
      let p := absorbI (max stop r.stop) rest
      ⟨s, p.1⟩ :: p.2

/-- `rangeset.add(start, stop)` with its `assert stop > start` -/
def rsAdd (start stop : Int) (rs : List IRg) : Outcome (List IRg) :=
  if stop > start then .ok (addI start stop rs) else .error (.py .assertion)

/-- the `for _ in range(ack_range_count)` loop; `end_` is the variable `end` -/
def pullAckRanges : Nat → Int → List IRg → Rd (List IRg)
  | 0, _, rs => pure rs
  | n + 1, end_, rs => do
    let gap ← pullUintVar
    let end1 : Int := end_ - ((gap : Int) + 2)
    let ackCount ← pullUintVar
    let rs' ← Rd.lift (rsAdd (end1 - ackCount) (end1 + 1) rs)
    pullAckRanges n (end1 - ackCount) rs'

/-- `pull_ack_frame(buf) -> (rangeset, delay)` -/
def pullAck : Rd (List IRg × Nat) := do
  let end_ ← pullUintVar
  let delay ← pullUintVar
  let ackRangeCount ← pullUintVar
  let ackCount ← pullUintVar
  let rs ← Rd.lift (rsAdd ((end_ : Int) - ackCount) ((end_ : Int) + 1) [])
  let rs' ← pullAckRanges ackRangeCount ((end_ : Int) - ackCount) rs
  pure (rs', delay)

/-- the `while index > 0` loop of `push_ack_frame`, over the remaining ranges
    in descending order (`rangeset[index-1]`, `rangeset[index-2]`, …) -/
def ackTail (start : Int) : List IRg → Script
  | [] => []
  | r :: rest =>
    chunkUintVar (start - r.stop - 1) :: chunkUintVar (r.stop - r.start - 1) :: ackTail r.start rest

/-- `push_ack_frame(buf, rangeset, delay)`; `rangeset[-1]` of an empty set is IndexError -/
def ackScript (rs : List IRg) (delay : Int) : Script :=
  match rs.reverse with
  | [] => [.error (.py .index)]
  | r :: rest =>
    chunkUintVar (r.stop - 1) :: chunkUintVar delay :: chunkUintVar ((rs.length : Int) - 1)
      :: chunkUintVar (r.stop - 1 - r.start) :: ackTail r.start rest

/-- the `while first > 0` loop of `push_ack_frame(…, max_size)`: how many of the older ranges
    (`older` = `rangeset[index-1]`, `rangeset[index-2]`, … highest first) still fit; `size_uint_var`
    may raise ValueError -/
def ackFit (maxSize : Int) : Int → Int → List IRg → Outcome Nat
  | _, _, [] => .ok 0
  | size, start, o :: rest =>
    match sizeUintVar (start - o.stop - 1), sizeUintVar (o.stop - o.start - 1) with
    | .ok a, .ok b =>
      let size' := size + (a : Int) + (b : Int)
      if size' > maxSize then .ok 0
      else
        match ackFit maxSize size' o.start rest with
        | .ok k => .ok (k + 1)
        | .error e => .error e
    | .error e, _ => .error e
    | _, .error e => .error e

/-- `index - first`: the number of older ranges written -/
def ackKeep (r : IRg) (older : List IRg) (delay : Int) (maxSize : Option Int) : Outcome Nat :=
  match maxSize with
  | none => .ok older.length
  | some m =>
    match sizeUintVar (r.stop - 1), sizeUintVar delay, sizeUintVar (older.length : Int),
          sizeUintVar (r.stop - 1 - r.start) with
    | .ok a, .ok b, .ok c, .ok d => ackFit m ((a : Int) + b + c + d) r.start older
    | .error e, _, _, _ => .error e
    | _, .error e, _, _ => .error e
    | _, _, .error e, _ => .error e
    | _, _, _, .error e => .error e

/-- `push_ack_frame(buf, rangeset, delay, max_size)`: only the most recent ranges that fit in
    `max_size` bytes are written (the range holding the largest packet number always is) -/
def ackScriptMax (rs : List IRg) (delay : Int) (maxSize : Option Int) : Script :=
  match rs.reverse with
  | [] => [.error (.py .index)]
  | r :: older =>
    match ackKeep r older delay maxSize with
    | .error e => [.error e]
    | .ok k =>
      chunkUintVar (r.stop - 1) :: chunkUintVar delay :: chunkUintVar (k : Int)
        :: chunkUintVar (r.stop - 1 - r.start) :: ackTail r.start (older.take k)

/-- its return value: the number of ranges written -/
def ackRangesWritten (rs : List IRg) (delay : Int) (maxSize : Option Int) : Nat :=
  match rs.reverse with
  | [] => 0
  | r :: older =>
    match ackKeep r older delay maxSize with
    | .ok k => k + 1
    | .error _ => 0

/-! ## Packet numbers -/

/-- `decode_packet_number(truncated, num_bits, expected)` for non-negative
    arguments.  `expected & ~(window - 1)` clears the low `num_bits` bits of a
    non-negative int, i.e. subtracts `expected % window`; `|` is bitwise or;
    the comparisons are on unbounded ints (`expected - half_window` may be
    negative). -/
def decodePacketNumber (truncated numBits expected : Nat) : Nat :=
  let window : Nat := 2 ^ numBits
  let halfWindow : Nat := window / 2
  let candidate : Nat := (expected - expected % window) ||| truncated
  if (candidate : Int) ≤ (expected : Int) - (halfWindow : Int) ∧
     (candidate : Int) < (4611686018427387904 : Int) - (window : Int) then candidate + window
  else if candidate > expected + halfWindow ∧ candidate ≥ window then candidate - window
  else candidate

/-! ## Packet headers -/

inductive PType where
  | initial | zeroRtt | handshake | retry | versionNegotiation | oneRtt
deriving Repr, DecidableEq, Inhabited

def PType.name : PType → String
  | .initial => "INITIAL" | .zeroRtt => "ZERO_RTT" | .handshake => "HANDSHAKE"
  | .retry => "RETRY" | .versionNegotiation => "VERSION_NEGOTIATION" | .oneRtt => "ONE_RTT"

/-- `QuicHeader` -/
structure Header where
  version : Option Nat
  ptype : PType
  packetLength : Nat
  dcid : Bytes
  scid : Bytes
  token : Bytes
  tag : Bytes
  versions : List Nat
deriving Repr, DecidableEq, Inhabited

def VERSION_2 : Nat := 0x6B3343CF

/-- `PACKET_LONG_TYPE_ENCODE_VERSION_1/2[packet_type]` (KeyError otherwise) -/
def longTypeEncode (version : Nat) : PType → Outcome Nat
  | .initial => .ok (if version = VERSION_2 then 1 else 0)
  | .zeroRtt => .ok (if version = VERSION_2 then 2 else 1)
  | .handshake => .ok (if version = VERSION_2 then 3 else 2)
  | .retry => .ok (if version = VERSION_2 then 0 else 3)
  | _ => .error (.py .key)

/-- `PACKET_LONG_TYPE_DECODE_VERSION_1/2[n]` for `n = (first_byte & 0x30) >> 4 ∈ 0..3` -/
def longTypeDecode (version : Nat) (n : Nat) : PType :=
  if version = VERSION_2 then
    match n with
    | 0 => .retry | 1 => .initial | 2 => .zeroRtt | _ => .handshake
  else
    match n with
    | 0 => .initial | 1 => .zeroRtt | 2 => .handshake | _ => .retry

/-- `encode_long_header_first_byte(version, packet_type, bits)` -/
def encodeLongHeaderFirstByte (version : Nat) (pt : PType) (bits : Nat) : Outcome Nat :=
  match longTypeEncode version pt with
  | .ok t => .ok (0x80 ||| 0x40 ||| t * 16 ||| bits)
  | .error e => .error e

/-- `while not buf.eof(): supported_versions.append(buf.pull_uint32())` -/
def pullVersions : Bytes → Outcome (List Nat)
  | [] => .ok []
  | b0 :: b1 :: b2 :: b3 :: r =>
    match pullVersions r with
    | .ok vs => .ok ((b0.toNat * 16777216 + b1.toNat * 65536 + b2.toNat * 256 + b3.toNat) :: vs)
    | .error e => .error e
  | _ => .error .bufferRead

def pullAllVersions : Rd (List Nat) := fun s =>
  match pullVersions s with
  | .ok vs => .ok (vs, [])
  | .error e => .error e

/-- the part of `pull_quic_header` after the two connection ids of a long
    header whose version is not 0; returns (type, token, tag, rest_length) -/
def pullLongRest (version firstByte : Nat) : Rd (PType × Bytes × Bytes × Nat) := do
  Rd.guard (firstByte &&& 0x40 != 0) (.py .value)
  let pt := longTypeDecode version ((firstByte &&& 0x30) / 16)
  match pt with
  | .initial => do
    let tokenLength ← pullUintVar
    let token ← pullBytes tokenLength
    let restLength ← pullUintVar
    pure (pt, token, [], restLength)
  | .zeroRtt => do
    let restLength ← pullUintVar
    pure (pt, [], [], restLength)
  | .handshake => do
    let restLength ← pullUintVar
    pure (pt, [], [], restLength)
  | _ => do
    let rem ← Rd.remaining
    let token ← pullBytes ((rem : Int) - 16)
    let tag ← pullBytes 16
    pure (pt, token, tag, 0)

/-- `pull_quic_header(buf, host_cid_length)`; `n0` = `capacity - packet_start` -/
def pullQuicHeaderFrom (n0 : Nat) (hostCidLength : Option Int) : Rd Header := do
  let firstByte ← pullUint8
  if firstByte &&& 0x80 != 0 then
    let version ← pullUint32
    let dlen ← pullUint8
    Rd.guard (decide (dlen ≤ 20)) (.py .value)
    let dcid ← pullBytes dlen
    let slen ← pullUint8
    Rd.guard (decide (slen ≤ 20)) (.py .value)
    let scid ← pullBytes slen
    if version = 0 then
      let vs ← pullAllVersions
      let rem ← Rd.remaining
      pure { version := some version, ptype := .versionNegotiation, packetLength := n0 - rem,
             dcid := dcid, scid := scid, token := [], tag := [], versions := vs }
    else
      let (pt, token, tag, restLength) ← pullLongRest version firstByte
      let rem ← Rd.remaining
      -- packet_end = tell + rest_length > capacity  ⇔  rest_length > capacity - tell
      Rd.guard (decide (restLength ≤ rem)) (.py .value)
      pure { version := some version, ptype := pt, packetLength := n0 - rem + restLength,
             dcid := dcid, scid := scid, token := token, tag := tag, versions := [] }
  else
    Rd.guard (firstByte &&& 0x40 != 0) (.py .value)
    let dcid ← match hostCidLength with
      | none => Rd.fail (.py .typeErr)      -- pull_bytes(None)
      | some n => pullBytes n
    pure { version := none, ptype := .oneRtt, packetLength := n0,
           dcid := dcid, scid := [], token := [], tag := [], versions := [] }

def pullQuicHeader (hostCidLength : Option Int) : Rd Header := fun s =>
  pullQuicHeaderFrom s.length hostCidLength s

/-- `encode_quic_retry(version, source_cid, destination_cid, odcid, retry_token, unused)`.
    `tag` stands for `get_retry_integrity_tag(buf.data, odcid, version)` (AES-GCM,
    external); its `assert len(integrity_tag) == 16` is kept. -/
def retryScript (version : Nat) (scid dcid token tag : Bytes) (unused : Nat) : Script :=
  [ (match encodeLongHeaderFirstByte version .retry unused with
     | .ok fb => chunkUint8 fb
     | .error e => .error e),
    chunkUint32 version,
    chunkUint8 dcid.length, .ok dcid,
    chunkUint8 scid.length, .ok scid,
    .ok token,
    (if tag.length = 16 then .ok tag else .error (.py .assertion)) ]

def encodeQuicRetry (version : Nat) (scid dcid token tag : Bytes) (unused : Nat) : Outcome Bytes :=
  match Script.run (retryScript version scid dcid token tag unused)
      (Buf.ofCapacity (7 + dcid.length + scid.length + token.length + 16)) with
  | .error e => .error e
  | .ok b => if b.eof then .ok b.data else .error (.py .assertion)

/-- `encode_quic_version_negotiation(source_cid, destination_cid, supported_versions)`;
    `rnd` is `os.urandom(1)[0]` -/
def vnScript (rnd : Nat) (scid dcid : Bytes) (versions : List Int) : Script :=
  [ chunkUint8 ((rnd ||| 0x80 : Nat) : Int), chunkUint32 0,
    chunkUint8 dcid.length, .ok dcid, chunkUint8 scid.length, .ok scid ]
  ++ versions.map chunkUint32

def encodeQuicVersionNegotiation (rnd : Nat) (scid dcid : Bytes) (versions : List Int) : Outcome Bytes :=
  match Script.run (vnScript rnd scid dcid versions)
      (Buf.ofCapacity (7 + dcid.length + scid.length + 4 * versions.length)) with
  | .error e => .error e
  | .ok b => .ok b.data

/-- the header written by `QuicPacketBuilder._end_packet` for a long-header
    packet (`PACKET_NUMBER_SEND_SIZE = 2`) -/
def builderLongHeaderScript (version : Nat) (pt : PType) (peerCid hostCid peerToken : Bytes)
    (length packetNumber : Nat) : Script :=
  [ (match encodeLongHeaderFirstByte version pt 1 with
     | .ok fb => chunkUint8 fb
     | .error e => .error e),
    chunkUint32 version,
    chunkUint8 peerCid.length, .ok peerCid,
    chunkUint8 hostCid.length, .ok hostCid ]
  ++ (if pt = .initial then [chunkUintVar peerToken.length, .ok peerToken] else [])
  ++ [ chunkUint16 ((length ||| 0x4000 : Nat) : Int), chunkUint16 ((packetNumber &&& 0xFFFF : Nat) : Int) ]

/-- the short header written by `_end_packet` -/
def builderShortHeaderScript (spinBit keyPhase : Nat) (peerCid : Bytes) (packetNumber : Nat) : Script :=
  [ chunkUint8 ((0x40 ||| spinBit * 32 ||| keyPhase * 4 ||| 1 : Nat) : Int), .ok peerCid,
    chunkUint16 ((packetNumber &&& 0xFFFF : Nat) : Int) ]

/-! ## Transport parameters -/

inductive PKind where
  | int | bytes | flag | pref | vinfo
deriving Repr, DecidableEq, Inhabited

/-- `QuicPreferredAddress`; an address is kept as its packed bytes (the model
    does not cover `ipaddress`' text form) together with the port -/
structure PrefAddr where
  ipv4 : Option (Bytes × Nat)
  ipv6 : Option (Bytes × Nat)
  cid : Bytes
  token : Bytes
deriving Repr, DecidableEq, Inhabited

/-- `QuicVersionInformation` -/
structure VInfo where
  chosen : Nat
  available : List Nat
deriving Repr, DecidableEq, Inhabited

inductive PVal where
  | int (n : Nat)
  | bytes (b : Bytes)
  | flag
  | pref (p : PrefAddr)
  | vinfo (v : VInfo)
deriving Repr, DecidableEq, Inhabited

/-- `PARAMS` in dict order -/
def PARAMS : List (Nat × String × PKind) :=
  [ (0x00, "original_destination_connection_id", .bytes),
    (0x01, "max_idle_timeout", .int),
    (0x02, "stateless_reset_token", .bytes),
    (0x03, "max_udp_payload_size", .int),
    (0x04, "initial_max_data", .int),
    (0x05, "initial_max_stream_data_bidi_local", .int),
    (0x06, "initial_max_stream_data_bidi_remote", .int),
    (0x07, "initial_max_stream_data_uni", .int),
    (0x08, "initial_max_streams_bidi", .int),
    (0x09, "initial_max_streams_uni", .int),
    (0x0A, "ack_delay_exponent", .int),
    (0x0B, "max_ack_delay", .int),
    (0x0C, "disable_active_migration", .flag),
    (0x0D, "preferred_address", .pref),
    (0x0E, "active_connection_id_limit", .int),
    (0x0F, "initial_source_connection_id", .bytes),
    (0x10, "retry_source_connection_id", .bytes),
    (0x11, "version_information", .vinfo),
    (0x0020, "max_datagram_frame_size", .int),
    (0x0C37, "quantum_readiness", .bytes) ]

def lookupKind (id : Nat) : List (Nat × String × PKind) → Option PKind
  | [] => none
  | (i, _, k) :: rest => if i = id then some k else lookupKind id rest

/-- `QuicTransportParameters`: the field named by `PARAMS[id]`, `none` = `None`
    (`False` for `disable_active_migration`).  Fields are reached only through
    `getattr`/`setattr` by parameter id. -/
abbrev TP := Nat → Option PVal

def TP.empty : TP := fun _ => none
def TP.set (p : TP) (id : Nat) (v : PVal) : TP := fun i => if i = id then some v else p i

def zeros (n : Nat) : Bytes := List.replicate n 0

/-- `pull_quic_preferred_address` -/
def pullPreferredAddress : Rd PrefAddr := do
  let ipv4Host ← pullBytes 4
  let ipv4Port ← pullUint16
  let ipv4 := if ipv4Host != zeros 4 then some (ipv4Host, ipv4Port) else none
  let ipv6Host ← pullBytes 16
  let ipv6Port ← pullUint16
  let ipv6 := if ipv6Host != zeros 16 then some (ipv6Host, ipv6Port) else none
  let cidLength ← pullUint8
  let cid ← pullBytes cidLength
  let token ← pullBytes 16
  pure { ipv4 := ipv4, ipv6 := ipv6, cid := cid, token := token }

/-- `push_quic_preferred_address`; `.packed` of an `IPv4Address` has 4 bytes -/
def prefAddrScript (p : PrefAddr) : Script :=
  (match p.ipv4 with
   | some (host, port) => [.ok host, chunkUint16 port]
   | none => [.ok (zeros 6)])
  ++ (match p.ipv6 with
   | some (host, port) => [.ok host, chunkUint16 port]
   | none => [.ok (zeros 18)])
  ++ [chunkUint8 p.cid.length, .ok p.cid, .ok p.token]

/-- `for i in range(n): available_versions.append(buf.pull_uint32())` -/
def pullUint32s : Nat → Rd (List Nat)
  | 0 => pure []
  | n + 1 => do
    let v ← pullUint32
    let vs ← pullUint32s n
    pure (v :: vs)

/-- `pull_quic_version_information(buf, length)`; `range(length // 4 - 1)` is
    empty when `length < 8`, which is what truncated subtraction gives -/
def pullVersionInformation (length : Nat) : Rd VInfo := do
  let chosen ← pullUint32
  let available ← pullUint32s (length / 4 - 1)
  Rd.guard (chosen != 0 && !available.contains 0) (.py .value)
  pure { chosen := chosen, available := available }

def versionInfoScript (v : VInfo) : Script :=
  chunkUint32 v.chosen :: v.available.map (fun (x : Nat) => chunkUint32 (x : Int))

def pullParamValue (kind : PKind) (paramLen : Nat) : Rd PVal :=
  match kind with
  | .int => do let v ← pullUintVar; pure (.int v)
  | .bytes => do let b ← pullBytes paramLen; pure (.bytes b)
  | .pref => do let a ← pullPreferredAddress; pure (.pref a)
  | .vinfo => do let v ← pullVersionInformation paramLen; pure (.vinfo v)
  | .flag => pure .flag

/-- one iteration of the `while not buf.eof()` loop of `pull_quic_transport_parameters` -/
def pullParam (p : TP) : Rd TP := do
  let paramId ← pullUintVar
  let paramLen ← pullUintVar
  let start ← Rd.remaining
  let p' ← (match lookupKind paramId PARAMS with
    | some kind => do
      let v ← pullParamValue kind paramLen
      pure (p.set paramId v)
    | none => do
      let _ ← pullBytes paramLen
      pure p : Rd TP)
  let now ← Rd.remaining
  -- `buf.tell() != param_start + param_len`: consumed = start - now
  Rd.guard (start - now == paramLen) (.py .value)
  pure p'

/-- the loop, with fuel; every iteration consumes at least two bytes, so fuel
    `length` is never exhausted (`Proofs.Codec.pullParams_fuel`) -/
def pullParams : Nat → TP → Rd TP
  | _, p, [] => .ok (p, [])
  | 0, _, _ :: _ => .error .bufferRead
  | n + 1, p, s =>
    match pullParam p s with
    | .ok (p', s') => pullParams n p' s'
    | .error e => .error e

/-- `pull_quic_transport_parameters(buf)` -/
def pullTransportParameters : Rd TP := fun s => pullParams s.length TP.empty s

/-- the pushes into `param_buf` for one present parameter; a value of the wrong
    Python type for the field is a TypeError from the C method -/
def paramValueScript (kind : PKind) (v : PVal) : Script :=
  match kind, v with
  | .int, .int n => [chunkUintVar n]
  | .bytes, .bytes b => [.ok b]
  | .pref, .pref a => prefAddrScript a
  | .vinfo, .vinfo x => versionInfoScript x
  | .flag, .flag => []
  | _, _ => [.error (.py .typeErr)]

/-- body of the `for` loop of `push_quic_transport_parameters` for one entry of PARAMS -/
def paramScript (id : Nat) (kind : PKind) (v : Option PVal) : Script :=
  match v with
  | none => []
  | some v =>
    match Script.run (paramValueScript kind v) (Buf.ofCapacity 65536) with
    | .error e => [.error e]
    | .ok paramBuf => [chunkUintVar id, chunkUintVar paramBuf.tell, .ok paramBuf.data]

/-- `Script.run sc (Buf.ofCapacity cap)` followed by `.tell()` / `.data`,
    computed without materialising the buffer when everything fits
    (`Proofs.CodecFast.runFresh_eq`: equal for all inputs).  Only the compiled
    driver uses it, to make large exhaustive runs affordable. -/
def Script.runFresh (sc : Script) (cap : Nat) : Outcome (Nat × Bytes) :=
  match sc.bytes with
  | .ok bs =>
    if bs.length ≤ cap then .ok (bs.length, bs)
    else
      match Script.run sc (Buf.ofCapacity cap) with
      | .ok b => .ok (b.tell, b.data)
      | .error e => .error e
  | .error _ =>
    match Script.run sc (Buf.ofCapacity cap) with
    | .ok b => .ok (b.tell, b.data)
    | .error e => .error e

/-- `paramScript` through `Script.runFresh` (`Proofs.CodecFast.paramScriptFast_eq`) -/
def paramScriptFast (id : Nat) (kind : PKind) (v : Option PVal) : Script :=
  match v with
  | none => []
  | some v =>
    match Script.runFresh (paramValueScript kind v) 65536 with
    | .error e => [.error e]
    | .ok (tell, data) => [chunkUintVar id, chunkUintVar tell, .ok data]

def tpScriptOverFast (p : TP) : List (Nat × String × PKind) → Script
  | [] => []
  | (id, _, kind) :: rest => paramScriptFast id kind (p id) ++ tpScriptOverFast p rest

def tpScriptOver (p : TP) : List (Nat × String × PKind) → Script
  | [] => []
  | (id, _, kind) :: rest => paramScript id kind (p id) ++ tpScriptOver p rest

/-- `push_quic_transport_parameters(buf, params)` -/
def tpScript (p : TP) : Script := tpScriptOver p PARAMS

end AQ.Codec
