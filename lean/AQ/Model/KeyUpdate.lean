/-
  1-RTT key-update bookkeeping (property C01, "… and key updates …"): the part
  of aioquic/quic/crypto.py `CryptoPair` and connection.py `request_key_update`
  that decides WHICH key generation protects / unprotects a packet.

  Keys are abstracted to their generation number (generation n+1 is derived
  from generation n by HKDF "quic ku"); the key phase bit of a packet is the
  parity of the generation that protects it.  Abstraction of the AEAD (an input
  of the property, never guessed by the proofs): a packet authenticates under a
  key iff that key is of the generation that protected it.

  Modelled statement by statement (current code, both key-update fixes applied):
  * `CryptoPair.update_key`                 : `_update_key_requested = True`
  * `CryptoPair.key_phase`                  : parity of the send generation (the
                                              next one while an update is requested)
  * `CryptoPair.encrypt_packet`             : a requested update is applied first
  * `CryptoContext.decrypt_packet`          : key phase bit ≠ own phase → try the
                                              next generation
  * `CryptoPair.decrypt_packet`             : success with the next generation →
                                              `_update_key("remote_update")`
  * `CryptoPair._update_key`                : local: send keys only; remote: receive
                                              keys, and send keys if they are behind
  * `QuicConnection._log_key_updated`       : `_key_update_pn = _packet_number`
  * `QuicConnection.request_key_update`     : no-op while
                                              `largest_acked_packet < _key_update_pn`
  Quirk flags reproduce the two pre-fix behaviours:
  * `quirkLocalRecv`  = before "fix: keep the receive keys on a local key update"
    (every `_update_key` advances both contexts; `key_phase` reads the receive side)
  * `quirkNoGuard`    = before "fix: do not start another key update before the
    current keys were acknowledged".

  Two endpoints and the packets ever sent (`wire`); `deliver i` hands ANY packet
  to its destination any number of times in any order (loss = never delivered).
  A packet optionally carries an ACK of the largest packet number its sender has
  received so far (honest ACKs: property C12).  Core Lean only.
-/
namespace AQ.KeyUpdate

structure Pair where
  sendGen : Nat := 0
  recvGen : Nat := 0
  requested : Bool := false
deriving Repr, DecidableEq

/-- `CryptoPair.key_phase` -/
def Pair.keyPhase (quirkLocalRecv : Bool) (p : Pair) : Nat :=
  let g := if quirkLocalRecv then p.recvGen else p.sendGen
  if p.requested then (g + 1) % 2 else g % 2

/-- `CryptoPair._update_key(trigger)` -/
def Pair.updateKey (quirkLocalRecv : Bool) (p : Pair) (local_ : Bool) : Pair :=
  if quirkLocalRecv then
    { sendGen := p.sendGen + 1, recvGen := p.recvGen + 1, requested := false }
  else if local_ then
    { p with sendGen := p.sendGen + 1, requested := false }
  else
    let r := p.recvGen + 1
    { sendGen := if p.sendGen % 2 ≠ r % 2 then p.sendGen + 1 else p.sendGen, recvGen := r, requested := false }

/-- `CryptoPair.encrypt_packet`: returns the pair, the generation protecting the
    packet, the key phase bit written in its header (read from `key_phase`
    before the call), and whether the keys changed -/
def Pair.encrypt (q : Bool) (p : Pair) : Pair × Nat × Nat × Bool :=
  let bit := p.keyPhase q
  let p' := if p.requested then p.updateKey q true else p
  (p', p'.sendGen, bit, p.requested)

/-- `CryptoPair.decrypt_packet` for a packet protected with generation `gen` and
    carrying key phase bit `bit`: `none` = CryptoError (packet dropped) -/
def Pair.decrypt (q : Bool) (p : Pair) (gen bit : Nat) : Option (Pair × Bool) :=
  if bit ≠ p.recvGen % 2 then
    if p.recvGen + 1 = gen then some (p.updateKey q false, true) else none
  else
    if p.recvGen = gen then some (p, false) else none

structure End where
  pair : Pair := {}
  /-- `_key_update_pn` -/
  keyUpdatePn : Option Nat := none
  /-- `_packet_number`: the next packet number -/
  packetNumber : Nat := 1
  /-- `_spaces[ONE_RTT].largest_acked_packet` -/
  largestAcked : Nat := 0
  /-- largest 1-RTT packet number received (what an ACK frame reports) -/
  largestRecv : Option Nat := none
deriving Repr, DecidableEq

structure Pkt where
  fromA : Bool
  gen : Nat
  bit : Nat
  pn : Nat
  ack : Option Nat
deriving Repr, DecidableEq

structure Sys where
  quirkLocalRecv : Bool := false
  quirkNoGuard : Bool := false
  a : End := {}
  b : End := {}
  wire : List Pkt := []
deriving Repr, DecidableEq

def Sys.get (s : Sys) (x : Bool) : End := if x then s.a else s.b
def Sys.set (s : Sys) (x : Bool) (e : End) : Sys := if x then { s with a := e } else { s with b := e }

inductive Op where
  /-- `request_key_update()` at endpoint A (`true`) / B -/
  | request (x : Bool)
  /-- endpoint `x` builds one 1-RTT packet (with or without an ACK frame) -/
  | send (x : Bool) (withAck : Bool)
  /-- the network delivers packet `i` to its destination -/
  | deliver (i : Nat)
deriving Repr, DecidableEq

def omax (o : Option Nat) (n : Nat) : Nat :=
  match o with
  | none => n
  | some m => max m n

/-- what a step showed: `rejected` = CryptoError, `refused` = request ignored -/
inductive Out where
  | done | refused | sent (p : Pkt) | accepted (updated : Bool) | rejected | skipped
deriving Repr, DecidableEq

def step (s : Sys) : Op → Sys × Out
  | .request x =>
    let e := s.get x
    let blocked := match e.keyUpdatePn with
      | some u => decide (e.largestAcked < u)
      | none => false
    if blocked = true ∧ s.quirkNoGuard = false then (s, .refused)
    else (s.set x { e with pair := { e.pair with requested := true } }, .done)
  | .send x withAck =>
    let e := s.get x
    let r := e.pair.encrypt s.quirkLocalRecv
    let p : Pkt := ⟨x, r.2.1, r.2.2.1, e.packetNumber, if withAck then e.largestRecv else none⟩
    let e' := { e with pair := r.1, packetNumber := e.packetNumber + 1,
                       keyUpdatePn := if r.2.2.2 then some e.packetNumber else e.keyUpdatePn }
    ({ s.set x e' with wire := s.wire ++ [p] }, .sent p)
  | .deliver i =>
    match s.wire[i]? with
    | none => (s, .skipped)
    | some p =>
      let y := !p.fromA
      let e := s.get y
      match e.pair.decrypt s.quirkLocalRecv p.gen p.bit with
      | none => (s, .rejected)
      | some (pr, upd) =>
        let e' := { e with pair := pr,
                           keyUpdatePn := if upd then some e.packetNumber else e.keyUpdatePn,
                           largestRecv := some (omax e.largestRecv p.pn),
                           largestAcked := match p.ack with
                             | some m => max e.largestAcked m
                             | none => e.largestAcked }
        (s.set y e', .accepted upd)

def run (s : Sys) (ops : List Op) : Sys := ops.foldl (fun s op => (step s op).1) s

/-- the generation `x` would protect its next packet with -/
def nextGen (s : Sys) (x : Bool) : Nat :=
  let p := (s.get x).pair
  if p.requested then p.sendGen + 1 else p.sendGen

/-- would the peer of `x` unprotect a packet of generation `g` right now? -/
def accepts (s : Sys) (x : Bool) (g : Nat) : Bool :=
  ((s.get (!x)).pair.decrypt s.quirkLocalRecv g (g % 2)).isSome

end AQ.KeyUpdate
