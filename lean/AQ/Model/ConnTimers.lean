/-
  Product model: the close / idle-timer machinery of QuicConnection
  (AQ.Model.CloseTimer) TOGETHER WITH its QuicPacketRecovery object
  (AQ.Model.Recovery), so that the timer sources of `get_timer()` are no longer
  inputs:

    timer_at = self._close_at
    for space in self._loss.spaces: ack_at            -> Space.ackAt of the recovery model
    self._loss_at = self._loss.get_loss_detection_time()   -> Recovery.getLossDetectionTime
    self._pacing_at                                    -> field `pacingAt`

  and the probe timeout read by `_close_begin` is the recovery model's
  `getProbeTimeout` (which has no back-off factor) instead of an input.

  One public API call = the CloseTimer step of that call + the calls the
  connection makes on its recovery object / timer fields while it runs (`Sub`),
  in program order:
    receive_datagram : per packet, the frames handled before a CONNECTION_CLOSE
                       frame (`pre`: on_ack_received, discard_space, ...), the
                       close machinery of that packet with PTO read at that
                       moment, then the rest (`post`: ack_at arming, ...)
    datagrams_to_send: the close machinery (PTO read at entry: `_close_begin`
                       runs before any packet is registered and nothing in the
                       call changes the RTT estimate), then on_packet_sent /
                       ack_at = None / _pacing_at / discard_space
    handle_timer     : statement by statement, `on_loss_detection_timeout` on
                       the recovery component
  What stays an input: idle-timeout values (`_idle_timeout()` mixes transport
  parameters in), packet classification, builder counts, and the VALUES the
  connection stores into ack_at / _pacing_at (now + ack_delay, pacer output).
-/
import AQ.Model.CloseTimer
import AQ.Model.RecoveryOps

namespace AQ.ConnTimers
open AQ AQ.RangeSet AQ.Recovery AQ.CloseTimer

variable {F : Type}

structure Sys (F : Type) where
  conn : Conn F
  loss : Rec F
  pacingAt : Option F := none          -- QuicConnection._pacing_at
  peerValidated : Bool                 -- _loss.peer_completed_address_validation

/-- a fresh QuicConnection: no packet spaces yet (`_loss.spaces == []`) -/
def Sys.init (A : FArith F) (isClient : Bool) (algo : Algo) (mds : Nat) (rtt0 : F) : Sys F :=
  { conn := Conn.init isClient, loss := Rec.init A algo mds 0 rtt0, peerValidated := !isClient }

/-- what the connection does to its recovery object / timer fields inside an API call -/
inductive Sub (F : Type) where
  | sent (i : Nat) (p : Recovery.Pkt F)                 -- _loss.on_packet_sent
  | ack (i : Nat) (rs : List Rg) (ackDelay now : F)  -- _loss.on_ack_received
  | discard (i : Nat)                                   -- _loss.discard_space
  | resched (now : F)                                   -- _loss.reschedule_data
  | ackAt (i : Nat) (v : Option F)                      -- space.ack_at = ...
  | pacing (v : Option F)                               -- self._pacing_at = ...
  | validated                                           -- peer_completed_address_validation = True
  | spaces (n : Nat)                                    -- _initialize: fresh packet spaces
  | maxAckDelay (v : F)                                 -- _loss.max_ack_delay = ...

def sub (A : FArith F) (y : Sys F) : Sub F → Sys F
  | .sent i p => { y with loss := Recovery.step A y.loss (.sent i p) }
  | .ack i rs d now => { y with loss := Recovery.step A y.loss (.ack i rs d now) }
  | .discard i => { y with loss := Recovery.step A y.loss (.discard i) }
  | .resched now => { y with loss := rescheduleData A y.loss now }
  | .ackAt i v =>
    match y.loss.spaces[i]? with
    | some s => { y with loss := y.loss.setSpace i { s with ackAt := v } }
    | none => y
  | .pacing v => { y with pacingAt := v }
  | .validated => { y with peerValidated := true }
  | .spaces n => { y with loss := { y.loss with spaces := List.replicate n {} } }
  | .maxAckDelay v => { y with loss := { y.loss with maxAckDelay := v } }

def subs (A : FArith F) (y : Sys F) (l : List (Sub F)) : Sys F := l.foldl (sub A) y

/-- `get_probe_timeout()` of the connection's recovery object: RFC 9002 base
    PTO, no `2 ** pto_count` factor -/
def pto (A : FArith F) (y : Sys F) : F := getProbeTimeout A y.loss

/-- the PTO field of a payload packet is what `_close_begin` reads, not an input -/
def fillPto (x : F) : CloseTimer.Pkt F → CloseTimer.Pkt F
  | .payload pre pc _ post err idle => .payload pre pc x post err idle
  | p => p

/-- one packet of a datagram with the recovery calls made while it is handled -/
structure Item (F : Type) where
  pre : List (Sub F)
  pkt : CloseTimer.Pkt F
  post : List (Sub F)

/-- the `while not buf.eof()` loop -/
def rxItems (A : FArith F) (y : Sys F) (now : F) : List (Item F) → Sys F
  | [] => y
  | it :: rest =>
    let y := subs A y it.pre
    match rxPkt A y.conn now (fillPto (pto A y) it.pkt) with
    | (c, true) => rxItems A (subs A { y with conn := c } it.post) now rest
    | (c, false) => subs A { y with conn := c } it.post

/-- receive_datagram -/
def rx (A : FArith F) (y : Sys F) (now idle0 : F) (items : List (Item F)) : Sys F :=
  let c := { y.conn with started := true }
  if c.state.isEnd then { y with conn := c } else
  let c := if c.closeAt.isNone then { c with closeAt := some (A.add now idle0) } else c
  rxItems A { y with conn := c } now items

/-- the timer sources as `get_timer()` reads them -/
def ackAts (y : Sys F) : List (Option F) := y.loss.spaces.map (·.ackAt)
def lossTime (A : FArith F) (y : Sys F) : Option F := getLossDetectionTime A y.loss y.peerValidated

/-- get_timer -/
def getTimer (A : FArith F) (y : Sys F) : Sys F × Option F :=
  let (c, t) := CloseTimer.getTimer A y.conn (ackAts y) (lossTime A y) y.pacingAt
  ({ y with conn := c }, t)

/-- handle_timer, statement by statement -/
def handleTimer (A : FArith F) (y : Sys F) (now : F) : Sys F :=
  match y.conn.closeAt with
  | none => y
  | some c =>
    if A.le c now then
      let s := if y.conn.closeEvent.isNone then { y.conn with closeEvent := some idleEv } else y.conn
      { y with conn := closeEnd s }
    else
      match y.conn.lossAt with
      | some l =>
        if A.le l now then
          { y with conn := { y.conn with lossFired := y.conn.lossFired + 1 },
                   loss := onLossDetectionTimeout A y.loss now }
        else y
      | none => y

/-- datagrams_to_send: the recovery calls happen only when packets can be built -/
def send (A : FArith F) (y : Sys F) (now : F) (i : SendIn F) (l : List (Sub F)) : Sys F × Sent :=
  let (c, sent) := datagramsToSend A y.conn now { i with pto := pto A y }
  if y.conn.state.isEnd ∨ ¬ y.conn.hasPath then ({ y with conn := c }, sent)
  else (subs A { y with conn := c } l, sent)

inductive Op (F : Type) where
  | connect (now idle : F) (l : List (Sub F))
  | rx (now idle0 : F) (items : List (Item F))
  | close (e : CloseEv)
  | send (now : F) (i : SendIn F) (l : List (Sub F))
  | timer
  | fire (now : F)
  | next

def step (A : FArith F) (y : Sys F) : Op F → Sys F
  | .connect now idle l =>
    match CloseTimer.connect A y.conn now idle with
    | .ok c => subs A { y with conn := c } l
    | .error _ => y
  | .rx now idle0 items => rx A y now idle0 items
  | .close e => { y with conn := apiClose y.conn e }
  | .send now i l => (send A y now i l).1
  | .timer => (getTimer A y).1
  | .fire now => handleTimer A y now
  | .next => { y with conn := (nextEvent y.conn).1 }

def run (A : FArith F) (y : Sys F) (ops : List (Op F)) : Sys F := ops.foldl (step A) y

/-- caller obligation of a recovery call (C01Loss `IncPn`): packet numbers
    handed to on_packet_sent increase within a space -/
def Sub.ok (y : Sys F) : Sub F → Prop
  | .sent i p => ∀ s, y.loss.spaces[i]? = some s → ∀ q ∈ s.sent, q.pn < p.pn
  | _ => True

def SubsOk (A : FArith F) : Sys F → List (Sub F) → Prop
  | _, [] => True
  | y, s :: rest => s.ok y ∧ SubsOk A (sub A y s) rest

/-- the obligations along the packet loop of one datagram -/
def ItemsOk (A : FArith F) (y : Sys F) (now : F) : List (Item F) → Prop
  | [] => True
  | it :: rest =>
    SubsOk A y it.pre ∧
    (let y1 := subs A y it.pre
     match rxPkt A y1.conn now (fillPto (pto A y1) it.pkt) with
     | (c, true) => SubsOk A { y1 with conn := c } it.post ∧
         ItemsOk A (subs A { y1 with conn := c } it.post) now rest
     | (c, false) => SubsOk A { y1 with conn := c } it.post)

/-- documented usage of one API call: a client is fed no datagram before
    connect() (as in AQ.Model.CloseTimer), and the recovery calls made inside the
    call respect the packet-number obligation -/
def Op.usageOk (A : FArith F) (y : Sys F) : Op F → Prop
  | .connect now idle l =>
    match CloseTimer.connect A y.conn now idle with
    | .ok c => SubsOk A { y with conn := c } l
    | .error _ => True
  | .rx now idle0 items =>
    (y.conn.isClient = true → y.conn.connectCalled = true) ∧
    (let c := { y.conn with started := true }
     if c.state.isEnd then True else
     let c := if c.closeAt.isNone then { c with closeAt := some (A.add now idle0) } else c
     ItemsOk A { y with conn := c } now items)
  | .send now i l =>
    SubsOk A { y with conn := (datagramsToSend A y.conn now { i with pto := pto A y }).1 } l
  | _ => True

def Usage (A : FArith F) : Sys F → List (Op F) → Prop
  | _, [] => True
  | y, op :: ops => op.usageOk A y ∧ Usage A (step A y op) ops

end AQ.ConnTimers
