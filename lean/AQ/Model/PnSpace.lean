/-
  `QuicPacketSpace.expected_packet_number` (src/aioquic/quic/recovery.py, set to
  0 by `__init__`) and the only statement that writes it, in
  `QuicConnection.receive_datagram` after the decrypt decision, the duplicate
  discard and the reserved-bits check:

      # raise expected packet number
      if packet_number > space.expected_packet_number:
          space.expected_packet_number = packet_number + 1

  The value is the third argument of `decode_packet_number` for the next
  packet of the space (`crypto.decrypt_packet(…, space.expected_packet_number)`).
  Every packet that does not get that far — header drop, KeyUnavailableError,
  CryptoError, duplicate — leaves it alone (`continue` / `return` before the
  statement).  Core Lean only.
-/
namespace AQ.PnSpace

/-- `expected`: the field.  `largest`: GHOST, the largest packet number that
    reached the statement so far (nothing in the code reads it). -/
structure St where
  expected : Nat := 0
  largest : Option Nat := none
  deriving Repr, DecidableEq

/-- what happens to one received packet as far as this field is concerned -/
inductive Ev where
  | accepted (pn : Nat)     -- authenticated, not a duplicate: reaches the statement
  | dropped                 -- anything else
  deriving Repr, DecidableEq

def step (s : St) : Ev → St
  | .dropped => s
  | .accepted pn =>
    { expected := if pn > s.expected then pn + 1 else s.expected
      largest := some (match s.largest with
                       | none => pn
                       | some l => max l pn) }

def run (s : St) (evs : List Ev) : St := evs.foldl step s

end AQ.PnSpace
