/-
  C05 — the `start_packet` hypothesis of `after_close_total` / `step_total`
  (`OpOk (.send w)`: `WriterOk w.startPacket`), discharged on the C13 builder model
  AQ.Model.Builder (tied to the real QuicPacketBuilder by checks/c13.py):

  whatever the Initial token a Retry or NEW_TOKEN supplied (any length), whatever the
  connection-ID lengths, packet type and `max_datagram_size`, `start_packet` either raises
  `QuicPacketBuilderStop` or leaves `packet_start + header_size` strictly inside the buffer, so
  `buf.seek(packet_start + header_size)` cannot raise `BufferReadError: Seek out of bounds`.
-/
import AQ.Proofs.Builder
import AQ.Props.C05

namespace AQ.C05
open AQ AQ.Builder

/-- outcome of `start_packet` in the vocabulary of `AQ.Recv.Writers` -/
def startPacketOutcome (s : Builder.St) (t : Builder.PType) : Outcome Unit :=
  match (Builder.startPacket s t).2 with
  | .ok => .ok ()
  | .stop => .error .builderStop
  | .err e => .error e
  | .misuse => .error (.py .assertion)

/-- "Afterwards the … transmit … calls keep returning normally": `start_packet` returns or raises
    `QuicPacketBuilderStop` — for every token length (the header size includes
    `size_uint_var(len(token)) + len(token)` BEFORE it is compared with the buffer capacity). -/
theorem start_packet_total (s : Builder.St) (t : Builder.PType) (hi : Builder.Inv s) (hd : Builder.EndOk s) :
    AQ.Recv.WriterOk (startPacketOutcome s t) := by
  have h := (Builder.startPacket_inv (t := t) hi hd).2.1
  unfold startPacketOutcome AQ.Recv.WriterOk
  rcases h with h | h <;> rw [h] <;> simp

/-- when `start_packet` opens a packet, the position it seeks to lies strictly inside the buffer
    of the datagram: `packet_start + header_size < buffer_capacity ≤ max_datagram_size`, with
    `header_size` containing the whole Initial token -/
theorem start_packet_seek_inside (s : Builder.St) (t : Builder.PType) (hi : Builder.Inv s) (hd : Builder.EndOk s)
    (p : Builder.Pkt) (hp : (Builder.startPacket s t).1.packet = some p) :
    let s' := (Builder.startPacket s t).1
    (s'.packetStart + s'.headerSize : Int) < s'.bufferCapacity ∧
    s'.bufferCapacity ≤ s'.cfg.maxDatagramSize ∧
    s'.headerSize = Builder.headerSize s'.cfg p.ptype := by
  have hi' := (Builder.startPacket_inv (t := t) hi hd).1
  exact ⟨(hi'.open_pos p hp).2.1, hi'.bc_le, hi'.pkt_type p hp⟩

/-- the header of an Initial packet counts the token and its length prefix -/
theorem initial_header_counts_token (c : Builder.Cfg) :
    Builder.headerSize c .initial =
      11 + c.peerCidLen + c.hostCidLen + Builder.sizeUintVar c.tokenLen + c.tokenLen := rfl

#print axioms start_packet_total
#print axioms start_packet_seek_inside

end AQ.C05
