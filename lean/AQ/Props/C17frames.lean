/-
  Property C17 — "Wire codecs round-trip and agree with an independent codec",
  second part: the decoding direction for packet headers, every QUIC frame, and
  the Retry token plaintext.

  Models: `AQ.Codec.pullQuicHeader` (`AQ/Model/Codec.lean`), `AQ.Frame`
  (`AQ/Model/FrameCodec.lean`: the reads of the `_handle_*_frame` functions and
  the pushes of the `_write_*_frame` functions of quic/connection.py,
  `QuicRetryTokenHandler` of quic/retry.py).  Independent encoders:
  `AQ.CodecSpec.encFrameW` / `encLongHeader` / `encRetry` / … written from
  RFC 9000 §17, §19 and RFC 9221.  Tie: `./check C17` (ops `codec.header`,
  `frame.*`): the model decodes and re-writes byte-exactly every plaintext
  payload the real connections build, and agrees with harness/frames.py.
-/
import AQ.Proofs.CodecHeaderDec
import AQ.Proofs.FrameDecode
import AQ.Proofs.RetryToken

namespace AQ.Props.C17frames
open AQ AQ.Codec AQ.Frame

/-! ## Packet headers: decoding arbitrary bytes -/

/-- **C17** "Decoding arbitrary bytes either yields a value that re-encodes to an
equivalent encoding or raises …", packet headers (long header of every type and
version, short header, Retry, Version Negotiation).  Whatever
`pull_quic_header(buf, host_cid_length)` accepts, with `r` the bytes it left:
re-encoding the returned header with the RFC-written encoders
(`headerCanon`: `encLongHeader` / `encShortHeader` / `encRetry` /
`encVersionNegotiation`, shortest varints, unused bits 0) and decoding that,
followed by the same `r`, returns the same header; only `packet_length`
follows the (possibly shorter) header size. -/
theorem header_decode_reencode (hcl : Option Int) (s r : Bytes) (h : Header)
    (hdec : pullQuicHeader hcl s = .ok (h, r)) :
    pullQuicHeader hcl (headerCanon h (h.packetLength - (s.length - r.length)) ++ r) =
      .ok ({ h with packetLength := (headerCanon h (h.packetLength - (s.length - r.length))).length +
                                      (h.packetLength - (s.length - r.length)) }, r) :=
  header_reencode hcl s r h hdec

/-- for Retry and Version Negotiation the canonical bytes are what the library's own
encoders produce (`encode_quic_retry` with the same tag, `encode_quic_version_negotiation`
with random byte 0) -/
theorem header_reencode_library (hcl : Option Int) (s r : Bytes) (h : Header)
    (hdec : pullQuicHeader hcl s = .ok (h, r)) :
    (h.ptype = .retry → ∀ v, h.version = some v →
      encodeQuicRetry v h.scid h.dcid h.token h.tag 0 = .ok (headerCanon h 0)) ∧
    (h.ptype = .versionNegotiation →
      encodeQuicVersionNegotiation 0 h.scid h.dcid (h.versions.map (fun (v : Nat) => (v : Int))) =
        .ok (headerCanon h 0)) := by
  have hsh := header_shape hcl s r h hdec
  cases hsh with
  | vn fb dcid scid vs h1 h2 h3 h4 h5 es er eh =>
    subst eh
    refine ⟨(fun hp => nomatch hp), fun _ => ?_⟩
    have := encodeQuicVersionNegotiation_eq 0 scid dcid vs (by omega) (by omega) (by omega) h5
    simp only [headerCanon, specVN_eq]
    exact this
  | retry fb v dcid scid token tag hft hv hv0 hd hs htag es er eh =>
    subst eh
    refine ⟨fun _ v' hv' => ?_, (fun hp => nomatch hp)⟩
    cases hv'
    simp only [headerCanon, Option.getD_some, specRetry_eq]
    exact encodeQuicRetry_eq v 0 scid dcid token tag hv (by omega) (by omega) (by omega) htag
  | initial fb v dcid scid token p1 p2 len hft hv hv0 hd hs hp1 hp2 hlen es eh =>
    subst eh; exact ⟨(fun hp => nomatch hp), (fun hp => nomatch hp)⟩
  | plain fb v pt dcid scid p2 len hpt hft hv hv0 hd hs hp2 hlen es eh =>
    subst eh
    rcases hpt with rfl | rfl <;> exact ⟨(fun hp => nomatch hp), (fun hp => nomatch hp)⟩
  | short fb dcid h1 h2 h3 ehcl hd63 es eh =>
    subst eh; exact ⟨(fun hp => nomatch hp), (fun hp => nomatch hp)⟩

/-- **C17** "never reading past the declared length of an enclosing field", packet
headers: the result of `pull_quic_header` depends only on the bytes it consumed
(`pre`) and — through the checks `packet_end <= capacity` — on HOW MANY bytes
follow, never on their content:
* Initial / 0-RTT / Handshake: any tail at least as long as the declared
  payload gives the same header;
* short header: any tail gives the same connection id, `packet_length` being the
  datagram length;
* Retry / Version Negotiation extend to the end of the datagram (`r = []`). -/
theorem header_bounded (hcl : Option Int) (s r : Bytes) (h : Header)
    (hdec : pullQuicHeader hcl s = .ok (h, r)) :
    ∃ pre, s = pre ++ r ∧
      ((h.ptype = .initial ∨ h.ptype = .zeroRtt ∨ h.ptype = .handshake) →
        ∀ r', h.packetLength - pre.length ≤ r'.length → pullQuicHeader hcl (pre ++ r') = .ok (h, r')) ∧
      (h.ptype = .oneRtt →
        ∀ r', pullQuicHeader hcl (pre ++ r') = .ok ({ h with packetLength := pre.length + r'.length }, r')) ∧
      ((h.ptype = .retry ∨ h.ptype = .versionNegotiation) → r = []) :=
  Codec.header_bounded hcl s r h hdec

/-! ## Frames -/

/-- **C17** encode → decode for every frame of `QuicFrameType` against the RFC 9000
§19 encoder: for every frame with in-range fields (`FrameOK`; ACK ranges
non-negative: `AckNat`), Length fields written shortest (`two = false`) or on two
bytes as aioquic does (`two = true`, data < 16384 bytes), followed by anything
that the frame cannot swallow (`RestOK`: a PADDING run is not followed by a zero
byte, frames without a length are last), `pullFrame` returns the frame and
leaves the rest. -/
theorem frame_roundtrip (two : Bool) (f : Frame) (r : Bytes) (hok : FrameOK f) (hn : AckNat f)
    (hl : FrameLenOK two f) (hr : RestOK f r) :
    pullFrame (CodecSpec.encFrameW (if two then some 1 else none) f ++ r) = .ok (f, r) := by
  rw [reenc_eq_spec two f hok hn]
  exact reenc_roundtrip two f r hok hl hr

/-- **C17** the library's writers: the bytes a `_write_*_frame` function pushes for
a frame are the RFC 9000 §19 encoding with two-byte Length fields, and decode
back to the frame. -/
theorem frame_writer_roundtrip (f : Frame) (sc : Script) (r : Bytes) (hw : writeScript f = some sc)
    (hok : FrameOK f) (hn : AckNat f) (hl : FrameLenOK true f) (hr : RestOK f r) :
    sc.bytes = .ok (CodecSpec.encFrameW (some 1) f) ∧
    pullFrame (CodecSpec.encFrameW (some 1) f ++ r) = .ok (f, r) := by
  have e := reenc_eq_spec true f hok hn
  simp only [if_true] at e
  rw [e]
  exact ⟨writeScript_bytes f sc hw hok hl, reenc_roundtrip true f r hok hl hr⟩

/-- **C17** a whole packet payload: what the writers produce for a sequence of
frames (`ChainOK`: every frame in range, open-ended frames last, no two adjacent
PADDING runs) is decoded by the loop of `_payload_received` into the same
sequence. -/
theorem payload_writer_roundtrip (fs : List Frame) (sc : Script) (hw : writeAll fs = some sc)
    (h : ChainOK true fs) :
    ∃ bs, sc.bytes = .ok bs ∧ payloadFrames bs = .ok fs :=
  ⟨reencAll true fs, writeAll_bytes fs sc hw h, payload_roundtrip true fs h⟩

/-- **C17** decoding arbitrary bytes, frames: whatever `pullFrame` accepts has in-range
fields, consumed exactly its own bytes (`RestOK`), and its shortest re-encoding
followed by the same rest decodes to the same frame.  Every parse error of the
frame loop is FRAME_ENCODING_ERROR. -/
theorem frame_decode_reencode (s r : Bytes) (f : Frame) (h : pullFrame s = .ok (f, r)) :
    FrameOK f ∧ RestOK f r ∧ pullFrame (reenc false f ++ r) = .ok (f, r) ∧
      (AckNat f → reenc false f = CodecSpec.encFrame f) := by
  obtain ⟨hok, hr⟩ := pullFrame_inv s r f h
  refine ⟨hok, hr, pullFrame_reencode s r f h, fun hn => ?_⟩
  have := reenc_eq_spec false f hok hn
  simp only [Bool.false_eq_true, if_false] at this
  exact this.symm

/-! ## Retry token plaintext (quic/retry.py) -/

/-- **C17** the plaintext `create_token` encrypts is the three length-prefixed
vectors (address, original DCID, retry SCID); `validate_token` reads them back
and accepts exactly the same address. -/
theorem retry_token_roundtrip (addr odcid rscid x : Bytes) (ha : addr.length < 256) (ho : odcid.length < 256)
    (hr : rscid.length < 256) (hfit : addr.length + odcid.length + rscid.length + 3 ≤ 512) :
    retryTokenPlain addr odcid rscid = .ok (CodecSpec.encRetryTokenPlain addr odcid rscid) ∧
    pullRetryToken (CodecSpec.encRetryTokenPlain addr odcid rscid ++ x) = .ok ((addr, odcid, rscid), x) ∧
    validateToken addr (CodecSpec.encRetryTokenPlain addr odcid rscid) = .ok (odcid, rscid) :=
  retryToken_roundtrip addr odcid rscid x ha ho hr hfit

/-! ## Non-vacuity -/

example : pullFrame [0x0a, 0x04, 0x02, 0xaa, 0xbb, 0x01] = .ok (.stream 4 0 [0xaa, 0xbb] false false true, [0x01]) := by
  decide
example : FrameOK (.stream 4 0 [0xaa, 0xbb] false false true) := by
  refine ⟨by decide, by decide, by decide, fun _ => rfl⟩
example : CodecSpec.encFrame (.stream 4 0 [0xaa, 0xbb] true false true) = [0x0b, 0x04, 0x02, 0xaa, 0xbb] := by decide
example : writeScript (.stream 4 0 [0xaa, 0xbb] true false true) ≠ none := by decide
/-- an unknown frame type, a truncated frame -/
example : pullFrame [0x21] = .error (.conn 7) ∧ pullFrame [0x04, 0x01] = .error (.conn 7) := by decide
example : pullQuicHeader (some 2) [0x41, 0xaa, 0xbb, 0x07] =
    .ok (⟨none, .oneRtt, 4, [0xaa, 0xbb], [], [], [], []⟩, [0x07]) := by decide
example : pullRetryToken [6, 1, 2, 3, 4, 0x11, 0x51, 1, 0xaa, 0] = .ok (([1, 2, 3, 4, 0x11, 0x51], [0xaa], []), []) := by
  decide

end AQ.Props.C17frames

#print axioms AQ.Props.C17frames.header_decode_reencode
#print axioms AQ.Props.C17frames.header_reencode_library
#print axioms AQ.Props.C17frames.header_bounded
#print axioms AQ.Props.C17frames.frame_roundtrip
#print axioms AQ.Props.C17frames.frame_writer_roundtrip
#print axioms AQ.Props.C17frames.payload_writer_roundtrip
#print axioms AQ.Props.C17frames.frame_decode_reencode
#print axioms AQ.Props.C17frames.retry_token_roundtrip
