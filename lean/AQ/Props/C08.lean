import AQ.Model.Recovery
namespace AQ.Props.C08
theorem placeholder : True := trivial
end AQ.Props.C08
