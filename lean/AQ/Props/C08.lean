/-
  C08 — loss-recovery and congestion accounting stay consistent.

  "For every sequence of packets sent, acknowledged in any ranges, declared
   lost by threshold or timeout, or discarded with their packet number space,
   the bytes counted as in flight equal the total size of the in-flight
   packets still being tracked and never go negative, each packet's frames are
   reported acknowledged or lost at most once, and the congestion window never
   drops below two datagrams."                (flight-budget clause: see C13)

  Model: `AQ.Model.Recovery` (generic in the float arithmetic `FArith F`);
  histories: `AQ.Model.RecoveryOps` (`Op`, `step`, `run`, `WF`).  Every theorem
  holds for EVERY `F` and EVERY `A : FArith F`; only `cwnd_floor_cubic` has
  hypotheses about `A` (`CubicOrderFacts A`).

  Caller obligations (`WF`): a packet handed to `on_packet_sent` has a packet
  number not currently tracked in its space, and distinct `sent` ops carry
  distinct packet objects (`uid`).  `ledger_needs_fresh_pn` shows the first
  obligation cannot be dropped.
-/
import AQ.Proofs.Recovery

namespace AQ.Props.C08
open AQ AQ.Recovery AQ.RangeSet

variable {F : Type}

/-- "the bytes counted as in flight equal the total size of the in-flight
    packets still being tracked and never go negative" — after every
    well-formed history of sent / ack(any ranges) / timeout / discard calls. -/
theorem ledger (A : FArith F) (algo : Algo) (mds n : Nat) (rttInitial : F) (ops : List (Op F))
    (h : WF A (Rec.init A algo mds n rttInitial) ops) :
    (run A (Rec.init A algo mds n rttInitial) ops).cc.bytesInFlight
        = trackedBytes (run A (Rec.init A algo mds n rttInitial) ops) ∧
    0 ≤ (run A (Rec.init A algo mds n rttInitial) ops).cc.bytesInFlight := by
  have hinv := (run_ok A ops _ (Inv.init A algo mds n rttInitial) h.fresh).1
  have hl := hinv.ledger
  refine ⟨by rw [trackedBytes_eq]; exact hl, ?_⟩
  rw [hl]; exact trackedW_nonneg fbW fbW_nonneg _

/-- companion of the ledger: every space's `ack_eliciting_in_flight` counter
    equals the number of ack-eliciting packets it still tracks (so it never
    goes negative either), and the dict keys of a space are distinct. -/
theorem ae_count (A : FArith F) (algo : Algo) (mds n : Nat) (rttInitial : F) (ops : List (Op F))
    (h : WF A (Rec.init A algo mds n rttInitial) ops) :
    ∀ s ∈ (run A (Rec.init A algo mds n rttInitial) ops).spaces,
      s.aeInFlight = aeTracked s ∧ (s.sent.map (·.pn)).Nodup := by
  have hinv := (run_ok A ops _ (Inv.init A algo mds n rttInitial) h.fresh).1
  intro s hs
  exact ⟨by rw [aeTracked_eq]; exact hinv.ae s hs, hinv.nodup s hs⟩

/-- "each packet's frames are reported acknowledged or lost at most once":
    in the list of delivery callbacks fired during a well-formed history
    1. every packet object occurs at most once (never ACKED twice, never LOST
       twice, never both);
    2. a reported packet object was handed to `on_packet_sent` earlier and is
       no longer tracked in any space (so it cannot be reported again later);
    3. a packet that was still tracked when its space was discarded is never
       reported, neither before nor after the discard. -/
theorem callbacks_once (A : FArith F) (algo : Algo) (mds n : Nat) (rttInitial : F) (ops : List (Op F))
    (h : WF A (Rec.init A algo mds n rttInitial) ops) :
    ((run A (Rec.init A algo mds n rttInitial) ops).log.map (·.1)).Nodup ∧
    (∀ u d, (u, d) ∈ (run A (Rec.init A algo mds n rttInitial) ops).log →
      (∃ i p, Op.sent i p ∈ ops ∧ p.uid = u) ∧
      ∀ s ∈ (run A (Rec.init A algo mds n rttInitial) ops).spaces, ∀ q ∈ s.sent, q.uid ≠ u) ∧
    (∀ pre i post, ops = pre ++ Op.discard i :: post →
      ∀ s, (run A (Rec.init A algo mds n rttInitial) pre).spaces[i]? = some s →
        ∀ q ∈ s.sent, ∀ d, (q.uid, d) ∉ (run A (Rec.init A algo mds n rttInitial) ops).log) := by
  have h0 := Inv.init A algo mds n rttInitial
  have ht0 := total_init A algo mds n rttInitial
  have hrun := run_ok A ops _ h0 h.fresh
  have hle : ∀ u, total u (run A (Rec.init A algo mds n rttInitial) ops) ≤ sentCount u ops := by
    intro u; have := hrun.2 u; rw [ht0 u] at this; omega
  refine ⟨?_, ?_, ?_⟩
  · refine List.nodup_iff_count.2 (fun u => ?_)
    have h1 := hle u
    have h2 := logCount_le_total u (run A (Rec.init A algo mds n rttInitial) ops)
    have h3 := sentCount_le_one h.uids u
    unfold logCount at h2; omega
  · intro u d hmem
    have h1 := hle u
    have h2 := mem_log_count hmem
    have h3 := sentCount_le_one h.uids u
    have h0' := trackedW_nonneg (uidW u) (uidW_nonneg u)
      (run A (Rec.init A algo mds n rttInitial) ops).spaces
    unfold total at h1
    refine ⟨sentCount_pos (by omega), ?_⟩
    intro s hs q hq hqu
    have h4 := one_le_tracked hs hq
    rw [hqu] at h4
    omega
  · intro pre i post hops s hs q hq d hmem
    subst hops
    obtain ⟨hf1, _, hf3⟩ := (freshFrom_append A _ pre (Op.discard i :: post)).1 h.fresh
    obtain ⟨hi1, ht1⟩ := run_ok A pre _ h0 hf1
    obtain ⟨hi2, _, _⟩ := step_ok A _ (Op.discard i) hi1 trivial
    have hd := discard_total A _ i s q hi1 hs hq
    obtain ⟨_, ht3⟩ := run_ok A post _ hi2 hf3
    have e : run A (Rec.init A algo mds n rttInitial) (pre ++ Op.discard i :: post)
        = run A (step A (run A (Rec.init A algo mds n rttInitial) pre) (Op.discard i)) post := by
      rw [run_append]; rfl
    rw [e] at hmem
    have h2 := mem_log_count hmem
    have h3 := logCount_le_total q.uid
      (run A (step A (run A (Rec.init A algo mds n rttInitial) pre) (Op.discard i)) post)
    have h4 := ht1 q.uid
    rw [ht0] at h4
    have h5 := ht3 q.uid
    have h6 := sentCount_le_one h.uids q.uid
    rw [sentCount_append, sentCount_cons] at h6
    simp only [sentW] at h6
    omega

/-- "the congestion window never drops below two datagrams" — New Reno,
    unconditionally: any history at all (no caller obligation is needed), any
    datagram size, any float arithmetic. -/
theorem cwnd_floor_reno (A : FArith F) (mds n : Nat) (rttInitial : F) (ops : List (Op F)) :
    2 * (mds : Int) ≤ (run A (Rec.init A .reno mds n rttInitial) ops).cc.cwnd := by
  have h0 : RenoInv mds (Rec.init A .reno mds n rttInitial).cc := by
    refine ⟨rfl, rfl, ?_, ?_⟩ <;> simp [Rec.init, CC.init] <;> omega
  exact (run_cc A (RenoInv mds) (reno_preserved A mds) ops _ h0).2.2.1

/-- "the congestion window never drops below two datagrams" — CUBIC, for any
    history at all, for a positive datagram size and every float arithmetic
    satisfying the sign/monotonicity facts `CubicOrderFacts` (true of IEEE-754
    doubles while the integers involved stay below 2^53, see the comments on
    the structure).  Analysis of the branches of `on_packet_acked`:
    slow start adds bytes; the Reno-friendly branch sets `cwnd = W_est`, and
    `W_est` is re-initialised to `cwnd` at every entry into congestion
    avoidance and then only grows (`int(W_est + non-negative)`), so it is ≥ 2
    datagrams whenever it is read; the concave/convex branch computes
    `int(cwnd + (target - cwnd) * (mds / cwnd))` with `target ≥ cwnd` in all
    three cases of its definition; `reset` gives 10 datagrams; a loss gives
    `max(·, 2 * mds)`.  No branch can go below the floor under these facts. -/
theorem cwnd_floor_cubic (A : FArith F) (O : CubicOrderFacts A) (mds n : Nat) (hmds : 0 < mds)
    (rttInitial : F) (ops : List (Op F)) :
    2 * (mds : Int) ≤ (run A (Rec.init A .cubic mds n rttInitial) ops).cc.cwnd := by
  have h0 : CubicInv mds (Rec.init A .cubic mds n rttInitial).cc := by
    refine ⟨rfl, rfl, hmds, ?_, Or.inl rfl⟩
    simp [Rec.init, CC.init]; omega
  exact (run_cc A (CubicInv mds) (cubic_preserved A O mds) ops _ h0).2.2.2.1

/-- The state-free form of the caller obligations (no packet number is ever
    used twice in a space, uids distinct) implies `WF`, so `ledger`,
    `ae_count` and `callbacks_once` hold for such histories. -/
theorem wf_of_never_reused (A : FArith F) (algo : Algo) (mds n : Nat) (rttInitial : F) (ops : List (Op F))
    (h : NeverReused ops) : WF A (Rec.init A algo mds n rttInitial) ops :=
  wf_of_neverReused A algo mds n rttInitial ops h

/-- Well-formedness passes to prefixes, so `ledger`, `ae_count` and
    `callbacks_once` hold "after every call" of a well-formed history, not only
    at its end. -/
theorem wf_prefix (A : FArith F) (r : Rec F) (pre post : List (Op F)) (h : WF A r (pre ++ post)) :
    WF A r pre := h.prefix

/-! ### the hypotheses are necessary -/

/-- Freshness of packet numbers is not decorative: handing `on_packet_sent` a
    second packet object under a packet number that is still tracked (distinct
    uids, everything else well-formed) overwrites the dict entry while both
    sizes are added to `bytes_in_flight`: 200 bytes are counted, 100 tracked. -/
theorem ledger_needs_fresh_pn :
    ∃ ops : List (Op Unit), (sentUids ops).Nodup ∧
      (run (unitArith false false true) (Rec.init (unitArith false false true) .reno 1200 1 ()) ops).cc.bytesInFlight
        ≠ trackedBytes (run (unitArith false false true) (Rec.init (unitArith false false true) .reno 1200 1 ()) ops) :=
  ⟨[.sent 0 ⟨0, 100, true, true, false, (), 0⟩, .sent 0 ⟨0, 100, true, true, false, (), 1⟩],
    by decide, by decide⟩

/-- The order facts of `cwnd_floor_cubic` are not decorative either: for an
    arithmetic whose `int(·)` is constantly 0 a well-formed history (five
    packets, the last one acknowledged so that two are lost by the packet
    threshold, then another one acknowledged in congestion avoidance) takes the
    CUBIC window to 0. -/
theorem cwnd_floor_cubic_needs_order_facts :
    ∃ (A : FArith Unit) (ops : List (Op Unit)), NeverReused ops ∧
      (run A (Rec.init A .cubic 1200 1 ()) ops).cc.cwnd < 2 * 1200 :=
  ⟨unitArith true false true,
    [.sent 0 ⟨0, 1200, true, true, false, (), 0⟩, .sent 0 ⟨1, 1200, true, true, false, (), 1⟩,
     .sent 0 ⟨2, 1200, true, true, false, (), 2⟩, .sent 0 ⟨3, 1200, true, true, false, (), 3⟩,
     .sent 0 ⟨4, 1200, true, true, false, (), 4⟩, .ack 0 [⟨4, 5⟩] () (), .ack 0 [⟨2, 3⟩] () ()],
    ⟨by decide, by decide⟩, by decide⟩

/-! ### non-vacuity -/

/-- a well-formed history exercising every kind of call, in which packets are
    reported ACKED and LOST, one packet is dropped by a discard, and one stays
    tracked: the theorems above talk about non-trivial runs -/
example :
    let A := unitArith false false true
    let ops : List (Op Unit) :=
      [.sent 0 ⟨0, 1200, true, true, true, (), 10⟩, .sent 0 ⟨1, 1200, true, true, false, (), 11⟩,
       .sent 0 ⟨2, 40, false, false, false, (), 12⟩, .sent 0 ⟨3, 1200, true, true, false, (), 13⟩,
       .sent 0 ⟨4, 1200, true, true, false, (), 14⟩, .sent 1 ⟨0, 300, true, true, false, (), 15⟩,
       .ack 0 [⟨4, 5⟩] () (), .timeout (), .sent 1 ⟨1, 300, true, true, false, (), 16⟩, .discard 0]
    let r := run A (Rec.init A .reno 1200 2 ()) ops
    WF A (Rec.init A .reno 1200 2 ()) ops ∧
      r.log.map (·.1) = [11, 10, 14] ∧ r.log.map (·.2) = [.lost, .lost, .acked] ∧
      r.cc.bytesInFlight = 600 ∧ (r.spaces.map (fun s => s.sent.map (·.uid))) = [[], [15, 16]] := by
  intro A ops r
  exact ⟨wf_of_neverReused A .reno 1200 2 () ops ⟨by decide, by decide⟩, by decide, by decide, by decide,
    by decide⟩

/-- `CubicOrderFacts` is satisfiable: exact integer arithmetic has all of them -/
example : CubicOrderFacts intArith where
  nonneg x := 0 ≤ x
  pos x := 0 < x
  ofNat_nonneg n := Int.natCast_nonneg n
  ofInt_nonneg _ h := h
  ofInt_pos _ h := h
  div_nonneg _ _ hx hy := Int.ediv_nonneg hx (Int.le_of_lt hy)
  mul_nonneg _ _ hx hy := Int.mul_nonneg hx hy
  add_floor c y _ hy := by show c ≤ c + y; omega
  scale_floor c hc := by
    show c ≤ c * (((3 : Nat) : Int) / ((2 : Nat) : Int))
    have : (((3 : Nat) : Int) / ((2 : Nat) : Int)) = 1 := by decide
    rw [this]; omega

end AQ.Props.C08

#print axioms AQ.Props.C08.ledger
#print axioms AQ.Props.C08.ae_count
#print axioms AQ.Props.C08.callbacks_once
#print axioms AQ.Props.C08.cwnd_floor_reno
#print axioms AQ.Props.C08.cwnd_floor_cubic
#print axioms AQ.Props.C08.wf_of_never_reused
#print axioms AQ.Props.C08.wf_prefix
#print axioms AQ.Props.C08.ledger_needs_fresh_pn
#print axioms AQ.Props.C08.cwnd_floor_cubic_needs_order_facts
