/-
  C14 — HTTP/3 events are independent of chunking and survive a round trip.

  Model: AQ.Model.H3Parser (`recvReq` = `_receive_request_or_push_data`, the
  parser of request streams and — after the push id — of push streams), with
  pylsqpack and the header validators as an arbitrary stateful `Oracle`.

  Normal form `normOf sid evs` (AQ.Proofs.H3Chunk) keeps, for stream `sid`:
  header blocks in order (headers, trailers) with their push id, concatenated
  body bytes, push promises, WebTransport bytes + session, datagrams, and the
  ended flag.  `REq x y` = both runs raise the same error (the same HTTP/3 error
  code closes the connection), or both return the same parser state, the same
  oracle state and event lists with the same normal form for every stream.

  `feedAll s q [(c₁,f₁),…]` delivers `c₁ … cₙ` one after the other with FIN flags
  `f₁ … fₙ`; `recvReq s q b fin` is ONE delivery of `b`.
-/
import AQ.Proofs.H3Roundtrip2
import AQ.Proofs.H3Conn
import AQ.Proofs.H3Block
import AQ.Proofs.H3Uni
import AQ.Proofs.H3Multi
import AQ.Proofs.H3Lift
namespace AQ.Props.C14
open AQ AQ.H3

variable {σ : Type}

/-- "The HTTP/3 events produced for a connection (headers, body bytes,
    trailers, push promises, WebTransport data, end-of-stream per stream) depend
    only on the bytes of each QUIC stream, not on how those bytes are split into
    deliveries": request / push stream, quirk-free parser
    (`truncatedNoError = silentFrameNoEnd = logDecode = false`), QPACK oracle
    arbitrary and stateful (dynamic table, validators are parameters).  The oracle
    MAY answer "blocked": the stream then stays blocked and buffers what follows
    (nothing is delivered on the encoder stream in this theorem; for schedules
    with encoder-stream deliveries see `schedule_independent_stream` below).

    For EVERY byte string `b = c₁ ++ … ++ cₙ ++ last` (any of the pieces may be
    empty), delivering `c₁ … cₙ` without FIN and then `last` with the FIN flag
    `fin` is `REq` to delivering `b` at once with `fin`. -/
theorem chunk_independent (o : Oracle σ) (cfg : Cfg) (ht : cfg.k.truncatedNoError = false) (hsil : cfg.k.silentFrameNoEnd = false)
    (hlog : cfg.k.logDecode = false) {s : Stream} (hs : Fresh s) (q : σ)
    (chunks : List Bytes) (last : Bytes) (fin : Bool) :
    REq (feedAll o cfg s q (chunks.map (·, false) ++ [(last, fin)]))
        (recvReq o cfg s q (chunks.flatten ++ last) fin) :=
  feedAll_chunks o cfg ht hsil hlog hs q chunks last fin

/-- the variant "FIN is delivered alone with empty data": `c₁ … cₙ` without FIN,
    then `(b"", FIN)`, equals one delivery of all the bytes with FIN. -/
theorem chunk_independent_fin_alone (o : Oracle σ) (cfg : Cfg) (ht : cfg.k.truncatedNoError = false) (hsil : cfg.k.silentFrameNoEnd = false)
    (hlog : cfg.k.logDecode = false) {s : Stream} (hs : Fresh s) (q : σ) (chunks : List Bytes) :
    REq (feedAll o cfg s q (chunks.map (·, false) ++ [([], true)]))
        (recvReq o cfg s q chunks.flatten true) := by
  have := chunk_independent o cfg ht hsil hlog hs q chunks [] true
  simpa using this

/-- two chunkings of the same bytes agree with each other -/
theorem chunk_independent_any_two (o : Oracle σ) (cfg : Cfg) (ht : cfg.k.truncatedNoError = false) (hsil : cfg.k.silentFrameNoEnd = false)
    (hlog : cfg.k.logDecode = false) {s : Stream} (hs : Fresh s) (q : σ)
    (chunks chunks' : List Bytes) (last last' : Bytes) (fin : Bool)
    (hb : chunks.flatten ++ last = chunks'.flatten ++ last') :
    REq (feedAll o cfg s q (chunks.map (·, false) ++ [(last, fin)]))
        (feedAll o cfg s q (chunks'.map (·, false) ++ [(last', fin)])) := by
  have h1 := chunk_independent o cfg ht hsil hlog hs q chunks last fin
  have h2 := chunk_independent o cfg ht hsil hlog hs q chunks' last' fin
  rw [hb] at h1
  exact REq.trans h1 (REq.symm h2)

/-- unfolded: events of a successful run have the same normal form for every stream -/
theorem chunk_independent_events (o : Oracle σ) (cfg : Cfg) (ht : cfg.k.truncatedNoError = false) (hsil : cfg.k.silentFrameNoEnd = false)
    (hlog : cfg.k.logDecode = false) {s : Stream} (hs : Fresh s) (q : σ)
    (chunks : List Bytes) (last : Bytes) (fin : Bool) (s' : Stream) (q' : σ) (evs : List Event)
    (hw : recvReq o cfg s q (chunks.flatten ++ last) fin = .ok (s', q', evs)) :
    ∃ evs', feedAll o cfg s q (chunks.map (·, false) ++ [(last, fin)]) = .ok (s', q', evs') ∧
      ∀ sid, normOf sid evs' = normOf sid evs := by
  have h := chunk_independent o cfg ht hsil hlog hs q chunks last fin
  rw [hw] at h
  cases hf : feedAll o cfg s q (chunks.map (·, false) ++ [(last, fin)]) with
  | error x => rw [hf] at h; simp [REq] at h
  | ok v =>
    obtain ⟨a, b, c⟩ := v
    rw [hf] at h
    simp only [REq] at h
    obtain ⟨rfl, rfl, hn⟩ := h
    exact ⟨c, rfl, hn⟩

/-- unfolded: a run that ends in a ProtocolError ends in the same one for every chunking -/
theorem chunk_independent_error (o : Oracle σ) (cfg : Cfg) (ht : cfg.k.truncatedNoError = false) (hsil : cfg.k.silentFrameNoEnd = false)
    (hlog : cfg.k.logDecode = false) {s : Stream} (hs : Fresh s) (q : σ)
    (chunks : List Bytes) (last : Bytes) (fin : Bool) (x : Err)
    (hw : recvReq o cfg s q (chunks.flatten ++ last) fin = .error x) :
    feedAll o cfg s q (chunks.map (·, false) ++ [(last, fin)]) = .error x := by
  have h := chunk_independent o cfg ht hsil hlog hs q chunks last fin
  rw [hw] at h
  cases hf : feedAll o cfg s q (chunks.map (·, false) ++ [(last, fin)]) with
  | error y => rw [hf] at h; simp only [REq] at h; rw [h]
  | ok v => obtain ⟨a, b, c⟩ := v; rw [hf] at h; simp [REq] at h

/-! ## the unchanged tree: one counterexample per quirk -/

/-- QPACK oracle of the counterexamples: every block decodes to `:status: 200`
    (never blocked), every header list is valid -/
def cexOracle : Oracle Unit where
  decode _ _ _ := (.headers [([0x3a, 0x73], [0x32])], ())
  resume _ _ := (.headers [([0x3a, 0x73], [0x32])], ())
  feedEncoder _ _ := (.unblocked [], ())
  feedDecoder _ _ := (true, ())
  validate _ _ _ := (.ok none, ())
  logOk _ _ := (true, ())

/-- normal form of stream 0, or the error -/
def obs (r : Res Unit) : Err ⊕ Norm :=
  match r with
  | .error e => .inl e
  | .ok (_, _, evs) => .inr (normOf 0 evs)

def obsEnded (r : Res Unit) : Option Bool :=
  match r with
  | .error _ => none
  | .ok (_, _, evs) => some (normOf 0 evs).ended

def client (k : Quirks) : Cfg := { isClient := true, k := k }

/-- `HEADERS(01 01 00)` then an unknown (grease, type 0x21) empty frame `21 00` -/
def bytesSilent : Bytes := [0x01, 0x01, 0x00, 0x21, 0x00]
/-- `HEADERS`, then `DATA` of declared length 3 with only 2 bytes -/
def bytesTruncData : Bytes := [0x01, 0x01, 0x00, 0x00, 0x03, 0x61, 0x62]
/-- `HEADERS`, then only the header of a second HEADERS frame of length 5 -/
def bytesHeaderOnly : Bytes := [0x01, 0x01, 0x00, 0x01, 0x05]

/-- unchanged tree (`silentFrameNoEnd`): the stream `HEADERS, grease` delivered with
    FIN is never ended; with FIN delivered alone it is ended. -/
theorem silentFrame_counterexample :
    obsEnded (recvReq cexOracle (client { silentFrameNoEnd := true }) (Stream.new 0) () bytesSilent true) = some false ∧
    obsEnded (feedAll cexOracle (client { silentFrameNoEnd := true }) (Stream.new 0) ()
      [(bytesSilent, false), ([], true)]) = some true := by decide +kernel

/-- unchanged tree (`truncatedNoError`): `HEADERS, DATA(len 3)"ab"` + FIN delivered whole
    is ended; with the last byte delivered through the DATA-fragment shortcut it is not. -/
theorem truncatedData_counterexample :
    obsEnded (recvReq cexOracle (client { truncatedNoError := true }) (Stream.new 0) () bytesTruncData true) = some true ∧
    obsEnded (feedAll cexOracle (client { truncatedNoError := true }) (Stream.new 0) ()
      [(bytesTruncData.take 6, false), (bytesTruncData.drop 6, true)]) = some false := by decide +kernel

/-- unchanged tree (`truncatedNoError`): `HEADERS, 01 05` (frame header only) + FIN is
    never ended; with FIN delivered alone it is ended. -/
theorem truncatedHeaderOnly_counterexample :
    obsEnded (recvReq cexOracle (client { truncatedNoError := true }) (Stream.new 0) () bytesHeaderOnly true) = some false ∧
    obsEnded (feedAll cexOracle (client { truncatedNoError := true }) (Stream.new 0) ()
      [(bytesHeaderOnly, false), ([], true)]) = some true := by decide +kernel

/-- the same three inputs with the quirk-free parser: identical outcomes (the two
    truncated streams are H3_FRAME_ERROR = 0x106 in every chunking) -/
theorem counterexamples_fixed :
    obs (recvReq cexOracle (client {}) (Stream.new 0) () bytesSilent true) =
      obs (feedAll cexOracle (client {}) (Stream.new 0) () [(bytesSilent, false), ([], true)]) ∧
    obs (recvReq cexOracle (client {}) (Stream.new 0) () bytesTruncData true) = .inl (.h3 0x106) ∧
    obs (feedAll cexOracle (client {}) (Stream.new 0) ()
      [(bytesTruncData.take 6, false), (bytesTruncData.drop 6, true)]) = .inl (.h3 0x106) ∧
    obs (recvReq cexOracle (client {}) (Stream.new 0) () bytesHeaderOnly true) = .inl (.h3 0x106) ∧
    obs (feedAll cexOracle (client {}) (Stream.new 0) () [(bytesHeaderOnly, false), ([], true)]) =
      .inl (.h3 0x106) := by decide +kernel

/-! ### a PUSH_PROMISE waiting for the encoder stream (interleaving of two streams) -/

/-- oracle with one bit of state: blocks are "blocked" until the encoder stream
    has delivered something, which unblocks stream 0 -/
def blockingOracle : Oracle Bool where
  decode q _ _ := if q then (.headers [([0x3a, 0x6d], [0x47])], q) else (.blocked, q)
  resume q _ := (.headers [([0x3a, 0x6d], [0x47])], q)
  feedEncoder _ _ := (.unblocked [0], true)
  feedDecoder q _ := (true, q)
  validate q _ _ := (.ok none, q)
  logOk q _ := (true, q)

/-- events of a sequence of deliveries on a connection -/
def runConn (c : Conn Bool) : List QuicEvent → Option (List Event)
  | [] => some []
  | ev :: r =>
    match handleEvent blockingOracle c ev with
    | .error _ => none
    | .ok (c', evs) => (runConn c' r).map (evs ++ ·)

/-- request stream 0: `PUSH_PROMISE(push id 2, block 00)`; encoder stream 3: `02 00` -/
def ppStream : QuicEvent := .streamData 0 [0x05, 0x02, 0x02, 0x00] false
def encStream : QuicEvent := .streamData 3 [0x02, 0x00] false

/-- unchanged tree (`blockedPushAsHeaders`): encoder stream first → PushPromiseReceived;
    request stream first → the blocked PUSH_PROMISE is resumed as HEADERS → HeadersReceived. -/
theorem blockedPush_counterexample :
    ((runConn (Conn.init (client { blockedPushAsHeaders := true }) false) [encStream, ppStream]).map
        (fun evs => ((normOf 0 evs).pushes.length, (normOf 0 evs).headers.length))) = some (1, 0) ∧
    ((runConn (Conn.init (client { blockedPushAsHeaders := true }) false) [ppStream, encStream]).map
        (fun evs => ((normOf 0 evs).pushes.length, (normOf 0 evs).headers.length))) = some (0, 1) := by
  decide +kernel

/-- with the fix the order does not matter here -/
theorem blockedPush_fixed :
    (runConn (Conn.init (client {}) false) [encStream, ppStream]).map (normOf 0) =
    (runConn (Conn.init (client {}) false) [ppStream, encStream]).map (normOf 0) := by
  decide +kernel

/-! ## the connection-level step -/

/-- `chunk_independent` lifted through `H3Connection.handle_event`: for a
    connection `c` that is not done, a request (bidirectional) stream id whose
    `H3Stream` — looked up in, or created into, the stream table exactly as
    `_get_or_create_stream` does — has received no frame byte yet, feeding
    `StreamDataReceived(c₁) … (cₙ) (last, fin)` one event at a time
    (`feedConn`, which includes the table store and the `is_ended()` clean-up
    after every event) is `CEq` to feeding ONE `StreamDataReceived(c₁++…++last, fin)`:
    the same exception escapes; or both return with the same done flag and
    close code and, unless the HTTP/3 layer closed the connection, the same
    connection state (settings, stream table, QPACK state) and event lists of
    the same per-stream normal form. -/
theorem chunk_independent_connection (o : Oracle σ) (c : Conn σ)
    (ht : c.cfg.k.truncatedNoError = false) (hsil : c.cfg.k.silentFrameNoEnd = false)
    (hlog : c.cfg.k.logDecode = false) (hnd : c.isDone = false) (sid : Nat) (hb : isUni sid = false)
    (hs : Fresh (streamOf c sid)) (chunks : List Bytes) (last : Bytes) (fin : Bool) :
    CEq (feedConn o c sid (chunks.map (·, false) ++ [(last, fin)]))
        (handleEvent o c (.streamData sid (chunks.flatten ++ last) fin)) :=
  conn_chunk_independent o c ht hsil hlog hnd sid hb hs chunks last fin

/-! ## unidirectional streams -/

/-- chunk independence of `_receive_stream_data_uni` for EVERY stream type — the
    stream-type varint itself (possibly split), the control stream (SETTINGS,
    MAX_PUSH_ID, every other frame, handled when complete), push streams (push id,
    then the request parser), WebTransport streams (session id, then raw bytes),
    the QPACK encoder and decoder streams, and unknown types (discarded) — on a
    stream on which nothing has been received yet (`UniFresh`):
    `uniFeed` (deliveries one by one) is `UEq` to ONE delivery (`uniCore`): same
    error; or same connection fields (settings, peer stream ids, max push id,
    QPACK state), same `H3Stream`, same list of unblocked stream ids, and events
    of the same per-stream normal form.

    Oracle hypotheses, stated explicitly: `DecAdditive o` / `EncAdditive o` — the
    QPACK stream consumers are chunk-additive (`feed (a ++ b)` = `feed a; feed b`,
    unblocked ids concatenated, an error of a part is an error of the whole,
    `feed b""` is a no-op).  Header blocks of push streams may block.

    `_partial`, what is missing: (1) `uniCore` is `_receive_stream_data_uni` up to,
    not including, the `for stream_id in unblocked_streams` loop and the store
    into the stream table (the chunked encoder stream WITH the resumes between the
    feeds is `schedule_independent_stream` / `schedule_independent_streams_partial`
    below, for the decoder `qpackOracle Q`);
    (2) `hctl`: a FIN is not considered on the control stream — there the close
    code depends on the chunking in the CODE: `00 0d 01 05` + FIN in one delivery
    closes with H3_CLOSED_CRITICAL_STREAM (0x104), with the FIN delivered alone
    with H3_MISSING_SETTINGS (0x10a); both close the connection, no events. -/
theorem uni_chunk_independent_partial (o : Oracle σ) (hdec : DecAdditive o)
    (henc : EncAdditive o) (c : Conn σ) (ht : c.cfg.k.truncatedNoError = false)
    (hsil : c.cfg.k.silentFrameNoEnd = false) (hlog : c.cfg.k.logDecode = false)
    {s : Stream} (hs : UniFresh s) (chunks : List Bytes) (last : Bytes) (fin : Bool)
    (hctl : fin = false ∨ ∀ r, pullVarint (chunks.flatten ++ last) ≠ some (0, r)) :
    UEq (uniFeed o c s (chunks.map (·, false) ++ [(last, fin)]))
        (uniCore o c s (chunks.flatten ++ last) fin) :=
  uniFeed_chunks o hdec henc c ht hsil hlog hs chunks last fin hctl

/-! ## interleaving with the QPACK encoder stream -/

/-- `Qpack.deterministic`: if a header block is blocked (`decode` in state `q`),
    the encoder-stream bytes `eb` unblock exactly that stream, and the same bytes
    fed BEFORE the block unblock nothing, then `resume` yields the header list and
    decoder state that the unblocked `decode` yields. -/
def QpackDeterministic (o : Oracle σ) : Prop :=
  ∀ (q qb qb' qa : σ) (sid : Nat) (blk eb : Bytes),
    o.decode q sid blk = (.blocked, qb) → o.feedEncoder qb eb = (.unblocked [sid], qb') →
    o.feedEncoder q eb = (.unblocked [], qa) →
    ∃ hs qf, o.resume qb' sid = (.headers hs, qf) ∧ o.decode qa sid blk = (.headers hs, qf)

/-- "…not on … how deliveries of different streams are interleaved … including
    when header compression makes a request wait for the encoder stream":
    a request stream `HEADERS(blk), rest…` (any `rest`, FIN flag `fin`) delivered
    in one piece, and encoder-stream bytes `eb` delivered in one piece, in both
    orders.  Order B (request first): the request delivery yields NO event and
    leaves the stream blocked (`blockedState`), and the encoder delivery — which
    reports the stream unblocked — runs `resumeStream` on it.  Order A (encoder
    first: no event, decoder state `qa`): the request delivery is `recvReq … qa`.
    Under `QpackDeterministic` both yield the same error, or the same final
    `H3Stream`, decoder state and normal form of events.

    Superseded, for the decoder `qpackOracle Q` under `QpackLaws`, by
    `schedule_independent_stream` (any chunking of both streams, any interleaving, block
    at any position); kept because it holds for ANY oracle satisfying `QpackDeterministic`.

    `_partial`, what is missing: both streams in single deliveries (chunked
    deliveries while blocked are not covered); the blocked frame is the first
    HEADERS frame of the stream (not trailers, not PUSH_PROMISE); one blocked
    stream; the connection-level plumbing (`recvUni`'s table lookups, and the
    `is_ended()` clean-up, which in order B does not run for the unblocked stream
    until its next event) is only covered by the differential runs. -/
theorem interleave_independent_partial (o : Oracle σ) (cfg : Cfg) (hdet : QpackDeterministic o)
    {S : Stream} (hS : Fresh S) (hrs : S.p.recvState ≠ .afterTrailers)
    (hbfs : S.blockedFrameSize = none) (hbp : S.blockedPush = none)
    (q qb qb' qa : σ) (blk fH rest eb : Bytes) (fin : Bool) (hfH : encodeFrame 1 blk = some fH)
    (hB1 : o.decode q S.p.streamId blk = (.blocked, qb))
    (hB2 : o.feedEncoder qb eb = (.unblocked [S.p.streamId], qb'))
    (hA1 : o.feedEncoder q eb = (.unblocked [], qa)) :
    recvReq o cfg S q (fH ++ rest) fin = .ok (blockedState S fin blk.length rest, qb, []) ∧
    REq (resumeStream o cfg (blockedState S fin blk.length rest) qb')
        (recvReq o cfg S qa (fH ++ rest) fin) := by
  obtain ⟨hs, qf, hres, hdecA⟩ := hdet q qb qb' qa S.p.streamId blk eb hB1 hB2 hA1
  exact ⟨recvReq_blocks o cfg varint_law hS hrs q qb blk fH rest fin hfH hB1,
    resume_eq_unblocked o cfg varint_law hS hrs hbfs hbp qa qb' qf blk fH rest fin hs hfH hres hdecA⟩

/-! ## any schedule: chunking AND interleaving with the QPACK encoder stream

QPACK decoder as an abstract parameter `Q : Qpack` (AQ.Model.Qpack):
`Q.dec E blk` = what `feed_header` / `resume_header` answers for header block `blk`
when the decoder has been fed the encoder-stream bytes `E` (headers / StreamBlocked /
DecompressionFailed); `Q.encOk E` = `feed_encoder` accepts; validators and qlog are pure.
`qpackOracle Q` is the stateful decoder built from it: state = (all encoder bytes fed,
the blocked header blocks in arrival order, all decoder-stream bytes fed);
`feed_encoder(x)` returns the ids whose pending block decodes with `E ++ x`.

`QpackLaws Q` — the three laws used, each tested on the real `pylsqpack.Decoder` with
genuine encoder output by `checks/c14.py` (section "qpack-laws"):
  * `stable`: an answer other than StreamBlocked never changes when more encoder bytes arrive;
  * `encErr` / `decErr`: once the encoder (decoder) stream is rejected it stays rejected.
That the answers depend only on (block, CONCATENATION of the encoder bytes) — not on how
the encoder stream was chunked, nor on the other streams — is built into the type of
`Q.dec`; the correspondence section tests exactly this as well. -/

/-- the order of `for stream_id in unblocked_streams` (a Python `set`) is a parameter -/
example : OrdOK id := ⟨fun _ _ => Iff.rfl, fun _ h => h⟩

/-- "…not on how those bytes are split into deliveries, and not on how deliveries of
    different streams are interleaved … including when header compression makes a request
    wait for the encoder stream": ONE request/push stream and the QPACK encoder stream.

    A schedule `l : List Step` is any sequence of `.req chunk fin` (delivery on the
    stream) and `.enc bytes` (delivery on the encoder stream: `feed_encoder`, then the
    stream is resumed if it is reported unblocked — `encStep`).  `runSched` runs it; an
    error ends the run.  For ANY two schedules that deliver the same stream bytes
    (`reqBytes`), the same FIN (`finOf`, nothing after the FIN: `WF`) and the same
    encoder bytes (`encBytes`) — any chunking of either, any interleaving, the header
    block at any position (HEADERS, trailers, PUSH_PROMISE), blocked any number of
    times — both runs raise the same error, or end in the same `H3Stream`, the same
    decoder state and events of the same normal form.

    Hypotheses: `QpackLaws Q`; quirk-free parser; `hq`: no header block of THIS stream is
    waiting at the start (blocks of other streams may be); `hok`: the encoder bytes are
    accepted (otherwise the connection closes with 0x201 at a schedule-dependent point). -/
theorem schedule_independent_stream (Q : Qpack) (cfg : Cfg) (hL : QpackLaws Q)
    (ht : cfg.k.truncatedNoError = false) (hsil : cfg.k.silentFrameNoEnd = false)
    (hlog : cfg.k.logDecode = false) (hpp : cfg.k.blockedPushAsHeaders = false)
    {S : Stream} (hs : Fresh2 S) (q : QState) (hq : pendingBlock S.streamId q.pending = none)
    (l1 l2 : List Step) (hwf1 : WF l1) (hwf2 : WF l2) (hreq : reqBytes l1 = reqBytes l2)
    (hfin : finOf l1 = finOf l2) (henc : encBytes l1 = encBytes l2)
    (hok : Q.encOk (q.enc ++ encBytes l1) = true) :
    REq (runSched Q cfg S q l1) (runSched Q cfg S q l2) :=
  sched_independent Q cfg hL ht hsil hlog hpp hs q hq l1 l2 hwf1 hwf2 hreq hfin henc hok

/-- the canonical form behind it: every schedule equals ONE delivery of all the stream
    bytes to a decoder that already knows ALL the encoder bytes -/
theorem schedule_canonical_stream (Q : Qpack) (cfg : Cfg) (hL : QpackLaws Q)
    (ht : cfg.k.truncatedNoError = false) (hsil : cfg.k.silentFrameNoEnd = false)
    (hlog : cfg.k.logDecode = false) (hpp : cfg.k.blockedPushAsHeaders = false)
    {S : Stream} (hs : Fresh2 S) (q : QState) (hq : pendingBlock S.streamId q.pending = none)
    (l : List Step) (hwf : WF l) (hok : Q.encOk (q.enc ++ encBytes l) = true) :
    REq (runSched Q cfg S q l)
      (recvReq (qpackOracle Q) cfg S (q.ext (encBytes l)) (reqBytes l) (finOf l)) :=
  sched_canon' Q cfg hL ht hsil hlog hpp hs q hq l hwf hok

/-- **Several request/push streams and the encoder stream, any two schedules.**
    Machine `runM` (AQ.Proofs.H3Multi): a table of `H3Stream`s by stream id, ONE decoder;
    `.req i chunk fin` = `_receive_request_or_push_data` on stream `i`; `.enc x` =
    `feed_encoder(x)` followed by `for stream_id in unblocked_streams:` (skip a stream
    that is not blocked, resume the others) in an arbitrary visiting order `ord`
    (`OrdOK`: a permutation without repetition — the code iterates a `set`).
    `SameBytes l1 l2`: per stream the same bytes and FIN, nothing after a FIN, the same
    encoder bytes.  `Init m0`: nothing received yet, no block waiting.

    If both runs succeed then, STREAM BY STREAM: the same `H3Stream`, the same view of the
    decoder (`view j` = encoder bytes + the stream's own pending block; the ORDER of the
    pending list across streams is schedule dependent), and the events its parser
    produced (`L j`) have the same normal form.  The order of events of DIFFERENT
    streams is schedule dependent by nature.

    `_partial`: this is the machine; `handle_event` (stream table, `is_ended()` clean-up,
    stream-type demultiplexer) is shown to refine it in AQ.Proofs.H3Lift (`lift_run`), which
    gives `schedule_independent_connection_partial` below — see there for what is still
    missing.  The stream table itself is NOT schedule independent:
    `stale_entry_counterexample`. -/
theorem schedule_independent_streams_partial (Q : Qpack) (cfg : Cfg) (hL : QpackLaws Q)
    (ht : cfg.k.truncatedNoError = false) (hsil : cfg.k.silentFrameNoEnd = false)
    (hlog : cfg.k.logDecode = false) (hpp : cfg.k.blockedPushAsHeaders = false)
    {m0 : MState} (h0 : Init m0) {l1 l2 : List MStep} (hs : SameBytes l1 l2)
    (hok : Q.encOk (m0.q.enc ++ encBytesM l1) = true) {ord1 ord2 : List Nat → List Nat}
    (ho1 : OrdOK ord1) (ho2 : OrdOK ord2) (m1 m2 : MState)
    (h1 : runM Q cfg ord1 m0 l1 = .ok m1) (h2 : runM Q cfg ord2 m0 l2 = .ok m2) :
    m1.q.enc = m2.q.enc ∧ ∀ j, m1.T j = m2.T j ∧ view j m1.q = view j m2.q ∧ NEq (m1.L j) (m2.L j) :=
  multi_independent_ok Q cfg hL ht hsil hlog hpp h0 hs hok ho1 ho2 m1 m2 h1 h2

/-- **closed / not closed is schedule independent**: if one schedule ends in a
    ProtocolError (the connection is closed) then so does every other schedule of the
    same bytes; each close code is the error of ONE delivery of all the bytes of some
    stream `j` to a decoder that knows all the encoder bytes.  WHICH stream's error
    closes the connection depends on the schedule: `close_code_counterexample`. -/
theorem closed_schedule_independent_partial (Q : Qpack) (cfg : Cfg) (hL : QpackLaws Q)
    (ht : cfg.k.truncatedNoError = false) (hsil : cfg.k.silentFrameNoEnd = false)
    (hlog : cfg.k.logDecode = false) (hpp : cfg.k.blockedPushAsHeaders = false)
    {m0 : MState} (h0 : Init m0) {l1 l2 : List MStep} (hs : SameBytes l1 l2)
    (hok : Q.encOk (m0.q.enc ++ encBytesM l1) = true) {ord1 ord2 : List Nat → List Nat}
    (ho1 : OrdOK ord1) (ho2 : OrdOK ord2) (e : Err) (h1 : runM Q cfg ord1 m0 l1 = .error e) :
    (∃ j, recvReq (qpackOracle Q) cfg (m0.T j) (m0.q.ext (encBytesM l1)) (reqBytes (proj j l1))
        (finOf (proj j l1)) = .error e) ∧
    ∃ e' j', runM Q cfg ord2 m0 l2 = .error e' ∧
      recvReq (qpackOracle Q) cfg (m0.T j') (m0.q.ext (encBytesM l1)) (reqBytes (proj j' l1))
        (finOf (proj j' l1)) = .error e' :=
  multi_independent_err Q cfg hL ht hsil hlog hpp h0 hs hok ho1 ho2 e h1

/-- **`H3Connection.handle_event`, any two schedules, connection not closed.**
    Connection `c0` on which the peer's QPACK encoder stream `eid` has announced its type
    (`EncEntry`: entry `se` with `stream_type = 2`, empty buffer) and no request stream
    exists yet; `l1`, `l2` are schedules of deliveries on (bidirectional) request streams
    and on the encoder stream (`Legal`: non-empty encoder deliveries) that deliver the same
    bytes and FIN per stream and the same encoder bytes (`SameBytes`), each turned into
    `StreamDataReceived` events (`evOf`) and run through `handle_event` (`runEvents`:
    stream table, `_get_or_create_stream` with the `is_ended()` clean-up, the stream-type
    demultiplexer, `feed_encoder`, the unblocked-stream loop).  If neither run closed the
    connection: the returned events have the same normal form for EVERY stream (`NEq`),
    the decoder knows the same encoder bytes and holds the same pending block per stream,
    and the stream tables agree up to entries that are ended or never used
    (`TableAgree`; they can differ there: `stale_entry_counterexample`).

    `_partial`, what is missing for the first sentence of C14 at full strength: control,
    QPACK-decoder, push, WebTransport and unknown unidirectional streams in the SAME
    schedule (each of them alone: `uni_chunk_independent_partial`), the encoder stream's
    own type byte and empty deliveries on it; `QpackLaws.stable` is an obligation of the
    peer (`unstable_qpack_counterexample`). -/
theorem schedule_independent_connection_partial (Q : Qpack) (cfg : Cfg) (hL : QpackLaws Q)
    (ht : cfg.k.truncatedNoError = false) (hsil : cfg.k.silentFrameNoEnd = false)
    (hlog : cfg.k.logDecode = false) (hpp : cfg.k.blockedPushAsHeaders = false)
    (hke : cfg.k.unblockedKeyError = false) (eid : Nat) (se : H3.Stream) (hE : EncEntry eid se)
    (c0 : Conn QState) (hd : c0.isDone = false) (hcfg : c0.cfg = cfg) (hstr : c0.streams = [(eid, se)])
    (hp : c0.q.pending = []) {l1 l2 : List MStep} (hs : SameBytes l1 l2) (hl1 : Legal l1) (hl2 : Legal l2)
    (hok : Q.encOk (c0.q.enc ++ encBytesM l1) = true) (c1 c2 : Conn QState) (d1 d2 : List Event)
    (h1 : runEvents Q c0 (l1.map (evOf eid)) = .ok (c1, d1))
    (h2 : runEvents Q c0 (l2.map (evOf eid)) = .ok (c2, d2))
    (ho1 : c1.isDone = false) (ho2 : c2.isDone = false) :
    NEq d1 d2 ∧ c1.q.enc = c2.q.enc ∧ (∀ j, view j c1.q = view j c2.q) ∧ ∀ j, j ≠ eid → TableAgree j c1 c2 := by
  have hcl : ∀ l, Closed (m0Of c0) l := fun l j h => by simp [m0Of, Stream.new] at h
  exact conn_independent_open Q cfg hL ht hsil hlog hpp hke eid se hE c0 hp (CRel_init cfg eid se c0 hd hcfg hstr) hs
    (guarded_of Q cfg l1 _ hl1 hs.wf1 (hcl l1)) (guarded_of Q cfg l2 _ hl2 hs.wf2 (hcl l2)) hok c1 c2 d1 d2 h1 h2
    ho1 ho2

/-- **`handle_event`: closed / not closed is schedule independent** (same setting): if one
    schedule closes the connection then no schedule of the same bytes leaves it open.  The
    close code itself is schedule dependent (`close_code_counterexample`). -/
theorem closed_schedule_independent_connection_partial (Q : Qpack) (cfg : Cfg) (hL : QpackLaws Q)
    (ht : cfg.k.truncatedNoError = false) (hsil : cfg.k.silentFrameNoEnd = false)
    (hlog : cfg.k.logDecode = false) (hpp : cfg.k.blockedPushAsHeaders = false)
    (hke : cfg.k.unblockedKeyError = false) (eid : Nat) (se : H3.Stream) (hE : EncEntry eid se)
    (c0 : Conn QState) (hd : c0.isDone = false) (hcfg : c0.cfg = cfg) (hstr : c0.streams = [(eid, se)])
    (hp : c0.q.pending = []) {l1 l2 : List MStep} (hs : SameBytes l1 l2) (hl1 : Legal l1) (hl2 : Legal l2)
    (hok : Q.encOk (c0.q.enc ++ encBytesM l1) = true) (c1 c2 : Conn QState) (d1 d2 : List Event)
    (h1 : runEvents Q c0 (l1.map (evOf eid)) = .ok (c1, d1))
    (h2 : runEvents Q c0 (l2.map (evOf eid)) = .ok (c2, d2)) (hc1 : c1.isDone = true) : c2.isDone = true := by
  have hcl : ∀ l, Closed (m0Of c0) l := fun l j h => by simp [m0Of, Stream.new] at h
  exact conn_independent_closed Q cfg hL ht hsil hlog hpp hke eid se hE c0 hp (CRel_init cfg eid se c0 hd hcfg hstr) hs
    (guarded_of Q cfg l1 _ hl1 hs.wf1 (hcl l1)) (guarded_of Q cfg l2 _ hl2 hs.wf2 (hcl l2)) hok c1 c2 d1 d2 h1 h2
    hc1

/-! ### what IS schedule dependent (the stronger statements are false) -/

/-- final connection of a sequence of deliveries (`blockingOracle`) -/
def finalConn (c : Conn Bool) : List QuicEvent → Option (Conn Bool)
  | [] => some c
  | ev :: r =>
    match handleEvent blockingOracle c ev with
    | .error _ => none
    | .ok (c', _) => finalConn c' r

/-- "the same close code for every schedule" is FALSE: stream 0 = `DATA` before `HEADERS`
    (`00 00`, H3_FRAME_UNEXPECTED 0x105), stream 4 = `01` + FIN (truncated frame,
    H3_FRAME_ERROR 0x106); the stream delivered first decides. -/
theorem close_code_counterexample :
    (finalConn (Conn.init (client {}) true)
      [.streamData 0 [0x00, 0x00] false, .streamData 4 [0x01] true]).map (·.closeCode) = some (some 0x105) ∧
    (finalConn (Conn.init (client {}) true)
      [.streamData 4 [0x01] true, .streamData 0 [0x00, 0x00] false]).map (·.closeCode) = some (some 0x106) := by
  decide +kernel

/-- …and on ONE stream, the control stream: `00 0d 01 05` + FIN (server) closes with
    H3_CLOSED_CRITICAL_STREAM (0x104) in one delivery and with H3_MISSING_SETTINGS (0x10a)
    when the FIN is delivered alone (the frame is then handled first). -/
theorem control_fin_counterexample :
    (finalConn (Conn.init { isClient := false } true)
      [.streamData 2 [0x00, 0x0d, 0x01, 0x05] true]).map (·.closeCode) = some (some 0x104) ∧
    (finalConn (Conn.init { isClient := false } true)
      [.streamData 2 [0x00, 0x0d, 0x01, 0x05] false, .streamData 2 [] true]).map (·.closeCode) =
        some (some 0x10a) := by
  decide +kernel

/-- a decoder whose answer changes AFTER the block was decodable (an encoder that evicts an
    entry the block references): violates `QpackLaws.stable` -/
def evictQ : Qpack where
  dec E _ := if E = [] then .blocked else if E.length = 1 then .headers [([0x3a, 0x73], [0x32])] else .failed
  encOk _ := true
  decInOk _ := true
  validate _ _ := .ok none
  logOk _ := true

def obsQ (r : Res QState) : Err ⊕ Norm :=
  match r with
  | .error e => .inl e
  | .ok (_, _, evs) => .inr (normOf 0 evs)

/-- `QpackLaws.stable` is NECESSARY: with `evictQ`, the stream `HEADERS(00)` + FIN and the
    encoder bytes `aa`, `bb`: request between the two encoder deliveries = headers and end
    of stream; request after both = QPACK_DECOMPRESSION_FAILED (0x200).  The first sentence
    of C14 is therefore false against a peer whose encoder stream is not conformant. -/
theorem unstable_qpack_counterexample :
    obsQ (runSched evictQ (client {}) (Stream.new 0) {}
      [.enc [0xaa], .req [0x01, 0x01, 0x00] true, .enc [0xbb]]) =
        .inr (normOf 0 [.headers [([0x3a, 0x73], [0x32])] 0 true none]) ∧
    obsQ (runSched evictQ (client {}) (Stream.new 0) {}
      [.enc [0xaa], .enc [0xbb], .req [0x01, 0x01, 0x00] true]) = .inl (.h3 0x200) := by
  decide +kernel

/-- header blocks need one (any) encoder-stream byte -/
def demoQ : Qpack where
  dec E _ := if E = [] then .blocked else .headers [([0x3a, 0x73], [0x32])]
  encOk _ := true
  decInOk _ := true
  validate _ _ := .ok none
  logOk _ := true

/-- the laws are satisfiable: `demoQ` has them -/
theorem demoQ_laws : QpackLaws demoQ := by
  refine ⟨?_, ?_, ?_⟩
  · intro E x blk h
    have hE : E ≠ [] := by
      intro e; apply h; simp [demoQ, e]
    have hx : E ++ x ≠ [] := by
      intro e; exact hE (List.append_eq_nil_iff.mp e).1
    simp [demoQ, hE, hx]
  · intro E x h; simp [demoQ] at h
  · intro E x h; simp [demoQ] at h

def finalQ (c : Conn QState) : List QuicEvent → Option (Conn QState × List Event)
  | [] => some (c, [])
  | ev :: r =>
    match handleEvent (qpackOracle demoQ) c ev with
    | .error _ => none
    | .ok (c', evs) => (finalQ c' r).map (fun x => (x.1, evs ++ x.2))

/-- the client has sent its request with FIN on stream 0 -/
def sentConn : Conn QState :=
  { Conn.init (client {}) {} with
    streams := [(0, { Stream.new 0 with sendingEnded := true, sendState := .afterHeaders })] }

/-- "the same final connection state for every schedule" is FALSE for the stream table:
    response `HEADERS` + FIN on stream 0 and the encoder stream (3: `02 00`).  Encoder
    stream first: the response completes inside `_get_or_create_stream`, the stream is
    popped.  Response first: it blocks, is resumed by the encoder-stream delivery —
    whose clean-up looks at stream 3 only — and the ended stream 0 STAYS in
    `H3Connection._stream`.  Same events, same end of stream; the entry is never used
    again (QUIC delivers nothing after the FIN). -/
theorem stale_entry_counterexample :
    (finalQ sentConn [encStream, .streamData 0 [0x01, 0x01, 0x00] true]).map
        (fun x => x.1.streams.map (·.1)) = some [3] ∧
    (finalQ sentConn [.streamData 0 [0x01, 0x01, 0x00] true, encStream]).map
        (fun x => x.1.streams.map (·.1)) = some [0, 3] ∧
    (finalQ sentConn [encStream, .streamData 0 [0x01, 0x01, 0x00] true]).map (fun x => normOf 0 x.2) =
      (finalQ sentConn [.streamData 0 [0x01, 0x01, 0x00] true, encStream]).map (fun x => normOf 0 x.2) ∧
    (finalQ sentConn [.streamData 0 [0x01, 0x01, 0x00] true, encStream]).map
        (fun x => (normOf 0 x.2).ended) = some true := by
  decide +kernel

/-! ## the stream table -/

theorem lookupS_eraseS_ne (i sid : Nat) (l : List (Nat × H3.Stream)) (h : i ≠ sid) :
    lookupS i (eraseS sid l) = lookupS i l := by
  induction l with
  | nil => rfl
  | cons x r ih =>
    obtain ⟨j, y⟩ := x
    simp only [eraseS, lookupS]
    by_cases hj : j = sid
    · subst hj
      have : ¬ j = i := fun e => h e.symm
      simp [this]
    · simp only [hj, ↓reduceIte, lookupS, ih]

/-- "…including when header compression makes a request wait for the encoder
    stream": the clean-up at the end of every `_get_or_create_stream` block
    (`if stream.is_ended(): self._stream.pop(stream_id)`) never removes a stream
    that is blocked on the QPACK encoder stream — whichever stream the block was
    entered for, and even when both directions of the blocked stream have ended —
    so the unblocked-stream loop finds it when the encoder stream arrives. -/
theorem blocked_stream_never_removed (c : Conn σ) (sid i : Nat) (s : H3.Stream)
    (h : lookupS i c.streams = some s) (hb : s.blocked = true) :
    lookupS i (popIfEnded c sid).streams = some s := by
  unfold popIfEnded
  split
  · rename_i s1 hs1
    split
    · rename_i he
      by_cases hi : i = sid
      · subst hi
        rw [h] at hs1
        cases hs1
        simp [Stream.isEnded, hb] at he
      · simpa [lookupS_eraseS_ne i sid _ hi] using h
    · exact h
  · exact h

/-- the rule itself: `is_ended()` is false for a blocked stream -/
theorem blocked_not_ended (s : H3.Stream) (hb : s.blocked = true) : s.isEnded = false := by
  simp [Stream.isEnded, hb]

/-! ## frame codec -/

/-- "Headers, bodies and trailers submitted through the sending API … arrive
    unchanged": the framing layer.  `parse (encode_frame(t, d) ++ r) = (t, d, r)`
    for every type and payload that `encode_frame` accepts, given the varint law
    (proved for the varint codec by C17). -/
theorem frame_roundtrip
    (hv : ∀ v bs r, encVarint v = some bs → pullVarint (bs ++ r) = some (v, r))
    (t : Nat) (d b r : Bytes) (h : encodeFrame t d = some b) :
    parseFrame (b ++ r) = some (t, d, r) := by
  unfold encodeFrame at h
  cases h1 : encVarint t with
  | none => simp [h1] at h
  | some bt =>
    cases h2 : encVarint d.length with
    | none => simp [h1, h2] at h
    | some bl =>
      simp [h1, h2] at h
      subst h
      unfold parseFrame
      have e1 : pullVarint (bt ++ (bl ++ (d ++ r))) = some (t, bl ++ (d ++ r)) := hv t bt _ h1
      have e2 : pullVarint (bl ++ (d ++ r)) = some (d.length, d ++ r) := hv _ bl (d ++ r) h2
      simp only [List.append_assoc, e1, e2]
      simp

/-- the same without hypothesis: the varint law holds for the model's codec
    (`AQ.H3.varint_law`; C17 proves it for the shared codec) -/
theorem frame_roundtrip_unconditional (t : Nat) (d b r : Bytes) (h : encodeFrame t d = some b) :
    parseFrame (b ++ r) = some (t, d, r) :=
  frame_roundtrip varint_law t d b r h

/-- "Headers, bodies and trailers submitted through the sending API on one
    endpoint arrive unchanged and in order on the other for every valid header
    list, body size and write pattern": `send_headers(hs)` + `send_data(d, end_stream=True)`
    (frames `fH`, `fD` as `encode_frame` writes them), cut into ANY deliveries
    `c₁ … cₙ, last` with FIN on the last, on a fresh stream of the peer, given
    that QPACK decodes the block to `hs` (`hdec`; never blocked) and the
    validator accepts it with a content-length equal to the body size or none:
    the events have exactly one header block `hs`, body `d`, and the stream is
    ended — for every body size and every write pattern. -/
theorem send_recv_roundtrip (o : Oracle σ) (cfg : Cfg) (ht : cfg.k.truncatedNoError = false) (hsil : cfg.k.silentFrameNoEnd = false)
    (hlogq : cfg.k.logDecode = false) (hlog : cfg.logging = false)
    {s : Stream} (hs : Fresh s) (hst : s.p.recvState = .initial) (hecl : s.p.expectedCL = none)
    (hcl0 : s.p.contentLength = 0) (q q1 q2 : σ) (blk d fH fD : Bytes) (hdrs : Headers) (cl : Option Nat)
    (hfH : encodeFrame 1 blk = some fH) (hfD : encodeFrame 0 d = some fD)
    (hdec : o.decode q s.p.streamId blk = (.headers hdrs, q1))
    (hval : o.validate q1 (if cfg.isClient then .response else .request) hdrs = (.ok cl, q2))
    (hclv : cl = none ∨ cl = some d.length)
    (chunks : List Bytes) (last : Bytes) (hb : chunks.flatten ++ last = fH ++ fD) :
    ∃ s' evs, feedAll o cfg s q (chunks.map (·, false) ++ [(last, true)]) = .ok (s', q2, evs) ∧
      normOf s.p.streamId evs =
        { headers := [(hdrs, s.p.pushId)], body := d, pushes := [], wt := [], wtSession := none,
          datagrams := [], ended := true } := by
  obtain ⟨s', evs, hw, hn⟩ := recv_headers_data o cfg varint_law hlog hs hst hecl hcl0 q q1 q2 blk d fH fD hdrs cl
    hfH hfD hdec hval hclv
  rw [← hb] at hw
  obtain ⟨evs', hf, hn'⟩ := chunk_independent_events o cfg ht hsil hlogq hs q chunks last true s' q2 evs hw
  exact ⟨s', evs', hf, (hn' _).trans hn⟩

/-- the same for `send_headers(hs)`, ANY number of `send_data(dᵢ)` (bodies of any
    sizes, `EncData ds fs`), and `send_headers(trailers, end_stream=True)`, cut
    into any deliveries: header block, concatenated body, trailers, ended. -/
theorem send_recv_roundtrip_trailers (o : Oracle σ) (cfg : Cfg) (ht : cfg.k.truncatedNoError = false) (hsil : cfg.k.silentFrameNoEnd = false)
    (hlogq : cfg.k.logDecode = false) (hlog : cfg.logging = false)
    {s : Stream} (hs : Fresh s) (hst : s.p.recvState = .initial) (hecl : s.p.expectedCL = none)
    (hcl0 : s.p.contentLength = 0) (q q1 q2 q3 q4 : σ) (blk blkT fH fT : Bytes) (ds fs : List Bytes)
    (hdrs hdrsT : Headers) (cl clT : Option Nat)
    (hfH : encodeFrame 1 blk = some fH) (hfs : EncData ds fs) (hfT : encodeFrame 1 blkT = some fT)
    (hdec : o.decode q s.p.streamId blk = (.headers hdrs, q1))
    (hval : o.validate q1 (if cfg.isClient then .response else .request) hdrs = (.ok cl, q2))
    (hdecT : o.decode q2 s.p.streamId blkT = (.headers hdrsT, q3))
    (hvalT : o.validate q3 .trailers hdrsT = (.ok clT, q4))
    (hclv : cl = none ∨ cl = some (totalLen ds))
    (chunks : List Bytes) (last : Bytes) (hb : chunks.flatten ++ last = fH ++ (fs.flatten ++ fT)) :
    ∃ s' evs, feedAll o cfg s q (chunks.map (·, false) ++ [(last, true)]) = .ok (s', q4, evs) ∧
      normOf s.p.streamId evs =
        { headers := [(hdrs, s.p.pushId), (hdrsT, s.p.pushId)], body := ds.flatten, pushes := [], wt := [],
          wtSession := none, datagrams := [], ended := true } := by
  obtain ⟨s', evs, hw, hn⟩ := recv_headers_datas_trailers o cfg varint_law hlog hs hst hecl hcl0 q q1 q2 q3 q4
    blk blkT fH fT ds fs hdrs hdrsT cl clT hfH hfs hfT hdec hval hdecT hvalT hclv
  rw [← hb] at hw
  obtain ⟨evs', hf, hn'⟩ := chunk_independent_events o cfg ht hsil hlogq hs q chunks last true s' q4 evs hw
  exact ⟨s', evs', hf, (hn' _).trans hn⟩

/-- the hypotheses are satisfiable -/
example : Fresh (Stream.new 0) := ⟨rfl, rfl, rfl, rfl, rfl, rfl⟩
example : NonBlocking cexOracle := by intro q sid b; simp [cexOracle]

end AQ.Props.C14
