/-
  C14 — HTTP/3 events are independent of chunking and survive a round trip.

  Model: AQ.Model.H3Parser (`recvReq` = `_receive_request_or_push_data`, the
  parser of request streams and — after the push id — of push streams), with
  pylsqpack and the header validators as an arbitrary stateful `Oracle`.

  Normal form `normOf sid evs` (AQ.Proofs.H3Chunk) keeps, for stream `sid`:
  header blocks in order (headers, trailers) with their push id, concatenated
  body bytes, push promises, WebTransport bytes + session, datagrams, and the
  ended flag.  `REq x y` = both runs raise the same error (the same HTTP/3 error
  code closes the connection), or both return the same parser state, the same
  oracle state and event lists with the same normal form for every stream.

  `feedAll s q [(c₁,f₁),…]` delivers `c₁ … cₙ` one after the other with FIN flags
  `f₁ … fₙ`; `recvReq s q b fin` is ONE delivery of `b`.
-/
import AQ.Proofs.H3Roundtrip
namespace AQ.Props.C14
open AQ AQ.H3

variable {σ : Type}

/-- "The HTTP/3 events produced for a connection (headers, body bytes,
    trailers, push promises, WebTransport data, end-of-stream per stream) depend
    only on the bytes of each QUIC stream, not on how those bytes are split into
    deliveries": request / push stream, quirk-free parser
    (`truncatedNoError = silentFrameNoEnd = logDecode = false`), QPACK oracle
    that never answers "blocked" for this stream (`NonBlocking`; otherwise
    arbitrary and stateful — dynamic table, validators are parameters).

    For EVERY byte string `b = c₁ ++ … ++ cₙ ++ last` (any of the pieces may be
    empty), delivering `c₁ … cₙ` without FIN and then `last` with the FIN flag
    `fin` is `REq` to delivering `b` at once with `fin`. -/
theorem chunk_independent (o : Oracle σ) (cfg : Cfg) (hnb : NonBlocking o)
    (ht : cfg.k.truncatedNoError = false) (hsil : cfg.k.silentFrameNoEnd = false)
    (hlog : cfg.k.logDecode = false) {s : Stream} (hs : Fresh s) (q : σ)
    (chunks : List Bytes) (last : Bytes) (fin : Bool) :
    REq (feedAll o cfg s q (chunks.map (·, false) ++ [(last, fin)]))
        (recvReq o cfg s q (chunks.flatten ++ last) fin) :=
  feedAll_chunks o cfg hnb ht hsil hlog hs q chunks last fin

/-- the variant "FIN is delivered alone with empty data": `c₁ … cₙ` without FIN,
    then `(b"", FIN)`, equals one delivery of all the bytes with FIN. -/
theorem chunk_independent_fin_alone (o : Oracle σ) (cfg : Cfg) (hnb : NonBlocking o)
    (ht : cfg.k.truncatedNoError = false) (hsil : cfg.k.silentFrameNoEnd = false)
    (hlog : cfg.k.logDecode = false) {s : Stream} (hs : Fresh s) (q : σ) (chunks : List Bytes) :
    REq (feedAll o cfg s q (chunks.map (·, false) ++ [([], true)]))
        (recvReq o cfg s q chunks.flatten true) := by
  have := chunk_independent o cfg hnb ht hsil hlog hs q chunks [] true
  simpa using this

/-- two chunkings of the same bytes agree with each other -/
theorem chunk_independent_any_two (o : Oracle σ) (cfg : Cfg) (hnb : NonBlocking o)
    (ht : cfg.k.truncatedNoError = false) (hsil : cfg.k.silentFrameNoEnd = false)
    (hlog : cfg.k.logDecode = false) {s : Stream} (hs : Fresh s) (q : σ)
    (chunks chunks' : List Bytes) (last last' : Bytes) (fin : Bool)
    (hb : chunks.flatten ++ last = chunks'.flatten ++ last') :
    REq (feedAll o cfg s q (chunks.map (·, false) ++ [(last, fin)]))
        (feedAll o cfg s q (chunks'.map (·, false) ++ [(last', fin)])) := by
  have h1 := chunk_independent o cfg hnb ht hsil hlog hs q chunks last fin
  have h2 := chunk_independent o cfg hnb ht hsil hlog hs q chunks' last' fin
  rw [hb] at h1
  exact REq.trans h1 (REq.symm h2)

/-- unfolded: events of a successful run have the same normal form for every stream -/
theorem chunk_independent_events (o : Oracle σ) (cfg : Cfg) (hnb : NonBlocking o)
    (ht : cfg.k.truncatedNoError = false) (hsil : cfg.k.silentFrameNoEnd = false)
    (hlog : cfg.k.logDecode = false) {s : Stream} (hs : Fresh s) (q : σ)
    (chunks : List Bytes) (last : Bytes) (fin : Bool) (s' : Stream) (q' : σ) (evs : List Event)
    (hw : recvReq o cfg s q (chunks.flatten ++ last) fin = .ok (s', q', evs)) :
    ∃ evs', feedAll o cfg s q (chunks.map (·, false) ++ [(last, fin)]) = .ok (s', q', evs') ∧
      ∀ sid, normOf sid evs' = normOf sid evs := by
  have h := chunk_independent o cfg hnb ht hsil hlog hs q chunks last fin
  rw [hw] at h
  cases hf : feedAll o cfg s q (chunks.map (·, false) ++ [(last, fin)]) with
  | error x => rw [hf] at h; simp [REq] at h
  | ok v =>
    obtain ⟨a, b, c⟩ := v
    rw [hf] at h
    simp only [REq] at h
    obtain ⟨rfl, rfl, hn⟩ := h
    exact ⟨c, rfl, hn⟩

/-- unfolded: a run that ends in a ProtocolError ends in the same one for every chunking -/
theorem chunk_independent_error (o : Oracle σ) (cfg : Cfg) (hnb : NonBlocking o)
    (ht : cfg.k.truncatedNoError = false) (hsil : cfg.k.silentFrameNoEnd = false)
    (hlog : cfg.k.logDecode = false) {s : Stream} (hs : Fresh s) (q : σ)
    (chunks : List Bytes) (last : Bytes) (fin : Bool) (x : Err)
    (hw : recvReq o cfg s q (chunks.flatten ++ last) fin = .error x) :
    feedAll o cfg s q (chunks.map (·, false) ++ [(last, fin)]) = .error x := by
  have h := chunk_independent o cfg hnb ht hsil hlog hs q chunks last fin
  rw [hw] at h
  cases hf : feedAll o cfg s q (chunks.map (·, false) ++ [(last, fin)]) with
  | error y => rw [hf] at h; simp only [REq] at h; rw [h]
  | ok v => obtain ⟨a, b, c⟩ := v; rw [hf] at h; simp [REq] at h

/-! ## the unchanged tree: one counterexample per quirk -/

/-- QPACK oracle of the counterexamples: every block decodes to `:status: 200`
    (never blocked), every header list is valid -/
def cexOracle : Oracle Unit where
  decode _ _ _ := (.headers [([0x3a, 0x73], [0x32])], ())
  resume _ _ := (.headers [([0x3a, 0x73], [0x32])], ())
  feedEncoder _ _ := (.unblocked [], ())
  feedDecoder _ _ := (true, ())
  validate _ _ _ := (.ok none, ())
  logOk _ _ := (true, ())

/-- normal form of stream 0, or the error -/
def obs (r : Res Unit) : Err ⊕ Norm :=
  match r with
  | .error e => .inl e
  | .ok (_, _, evs) => .inr (normOf 0 evs)

def obsEnded (r : Res Unit) : Option Bool :=
  match r with
  | .error _ => none
  | .ok (_, _, evs) => some (normOf 0 evs).ended

def client (k : Quirks) : Cfg := { isClient := true, k := k }

/-- `HEADERS(01 01 00)` then an unknown (grease, type 0x21) empty frame `21 00` -/
def bytesSilent : Bytes := [0x01, 0x01, 0x00, 0x21, 0x00]
/-- `HEADERS`, then `DATA` of declared length 3 with only 2 bytes -/
def bytesTruncData : Bytes := [0x01, 0x01, 0x00, 0x00, 0x03, 0x61, 0x62]
/-- `HEADERS`, then only the header of a second HEADERS frame of length 5 -/
def bytesHeaderOnly : Bytes := [0x01, 0x01, 0x00, 0x01, 0x05]

/-- unchanged tree (`silentFrameNoEnd`): the stream `HEADERS, grease` delivered with
    FIN is never ended; with FIN delivered alone it is ended. -/
theorem silentFrame_counterexample :
    obsEnded (recvReq cexOracle (client { silentFrameNoEnd := true }) (Stream.new 0) () bytesSilent true) = some false ∧
    obsEnded (feedAll cexOracle (client { silentFrameNoEnd := true }) (Stream.new 0) ()
      [(bytesSilent, false), ([], true)]) = some true := by decide +kernel

/-- unchanged tree (`truncatedNoError`): `HEADERS, DATA(len 3)"ab"` + FIN delivered whole
    is ended; with the last byte delivered through the DATA-fragment shortcut it is not. -/
theorem truncatedData_counterexample :
    obsEnded (recvReq cexOracle (client { truncatedNoError := true }) (Stream.new 0) () bytesTruncData true) = some true ∧
    obsEnded (feedAll cexOracle (client { truncatedNoError := true }) (Stream.new 0) ()
      [(bytesTruncData.take 6, false), (bytesTruncData.drop 6, true)]) = some false := by decide +kernel

/-- unchanged tree (`truncatedNoError`): `HEADERS, 01 05` (frame header only) + FIN is
    never ended; with FIN delivered alone it is ended. -/
theorem truncatedHeaderOnly_counterexample :
    obsEnded (recvReq cexOracle (client { truncatedNoError := true }) (Stream.new 0) () bytesHeaderOnly true) = some false ∧
    obsEnded (feedAll cexOracle (client { truncatedNoError := true }) (Stream.new 0) ()
      [(bytesHeaderOnly, false), ([], true)]) = some true := by decide +kernel

/-- the same three inputs with the quirk-free parser: identical outcomes (the two
    truncated streams are H3_FRAME_ERROR = 0x106 in every chunking) -/
theorem counterexamples_fixed :
    obs (recvReq cexOracle (client {}) (Stream.new 0) () bytesSilent true) =
      obs (feedAll cexOracle (client {}) (Stream.new 0) () [(bytesSilent, false), ([], true)]) ∧
    obs (recvReq cexOracle (client {}) (Stream.new 0) () bytesTruncData true) = .inl (.h3 0x106) ∧
    obs (feedAll cexOracle (client {}) (Stream.new 0) ()
      [(bytesTruncData.take 6, false), (bytesTruncData.drop 6, true)]) = .inl (.h3 0x106) ∧
    obs (recvReq cexOracle (client {}) (Stream.new 0) () bytesHeaderOnly true) = .inl (.h3 0x106) ∧
    obs (feedAll cexOracle (client {}) (Stream.new 0) () [(bytesHeaderOnly, false), ([], true)]) =
      .inl (.h3 0x106) := by decide +kernel

/-! ### a PUSH_PROMISE waiting for the encoder stream (interleaving of two streams) -/

/-- oracle with one bit of state: blocks are "blocked" until the encoder stream
    has delivered something, which unblocks stream 0 -/
def blockingOracle : Oracle Bool where
  decode q _ _ := if q then (.headers [([0x3a, 0x6d], [0x47])], q) else (.blocked, q)
  resume q _ := (.headers [([0x3a, 0x6d], [0x47])], q)
  feedEncoder _ _ := (.unblocked [0], true)
  feedDecoder q _ := (true, q)
  validate q _ _ := (.ok none, q)
  logOk q _ := (true, q)

/-- events of a sequence of deliveries on a connection -/
def runConn (c : Conn Bool) : List QuicEvent → Option (List Event)
  | [] => some []
  | ev :: r =>
    match handleEvent blockingOracle c ev with
    | .error _ => none
    | .ok (c', evs) => (runConn c' r).map (evs ++ ·)

/-- request stream 0: `PUSH_PROMISE(push id 2, block 00)`; encoder stream 3: `02 00` -/
def ppStream : QuicEvent := .streamData 0 [0x05, 0x02, 0x02, 0x00] false
def encStream : QuicEvent := .streamData 3 [0x02, 0x00] false

/-- unchanged tree (`blockedPushAsHeaders`): encoder stream first → PushPromiseReceived;
    request stream first → the blocked PUSH_PROMISE is resumed as HEADERS → HeadersReceived. -/
theorem blockedPush_counterexample :
    ((runConn (Conn.init (client { blockedPushAsHeaders := true }) false) [encStream, ppStream]).map
        (fun evs => ((normOf 0 evs).pushes.length, (normOf 0 evs).headers.length))) = some (1, 0) ∧
    ((runConn (Conn.init (client { blockedPushAsHeaders := true }) false) [ppStream, encStream]).map
        (fun evs => ((normOf 0 evs).pushes.length, (normOf 0 evs).headers.length))) = some (0, 1) := by
  decide +kernel

/-- with the fix the order does not matter here -/
theorem blockedPush_fixed :
    (runConn (Conn.init (client {}) false) [encStream, ppStream]).map (normOf 0) =
    (runConn (Conn.init (client {}) false) [ppStream, encStream]).map (normOf 0) := by
  decide +kernel

/-! ## the stream table -/

theorem lookupS_eraseS_ne (i sid : Nat) (l : List (Nat × H3.Stream)) (h : i ≠ sid) :
    lookupS i (eraseS sid l) = lookupS i l := by
  induction l with
  | nil => rfl
  | cons x r ih =>
    obtain ⟨j, y⟩ := x
    simp only [eraseS, lookupS]
    by_cases hj : j = sid
    · subst hj
      have : ¬ j = i := fun e => h e.symm
      simp [this]
    · simp only [hj, ↓reduceIte, lookupS, ih]

/-- "…including when header compression makes a request wait for the encoder
    stream": the clean-up at the end of every `_get_or_create_stream` block
    (`if stream.is_ended(): self._stream.pop(stream_id)`) never removes a stream
    that is blocked on the QPACK encoder stream — whichever stream the block was
    entered for, and even when both directions of the blocked stream have ended —
    so the unblocked-stream loop finds it when the encoder stream arrives. -/
theorem blocked_stream_never_removed (c : Conn σ) (sid i : Nat) (s : H3.Stream)
    (h : lookupS i c.streams = some s) (hb : s.blocked = true) :
    lookupS i (popIfEnded c sid).streams = some s := by
  unfold popIfEnded
  split
  · rename_i s1 hs1
    split
    · rename_i he
      by_cases hi : i = sid
      · subst hi
        rw [h] at hs1
        cases hs1
        simp [Stream.isEnded, hb] at he
      · simpa [lookupS_eraseS_ne i sid _ hi] using h
    · exact h
  · exact h

/-- the rule itself: `is_ended()` is false for a blocked stream -/
theorem blocked_not_ended (s : H3.Stream) (hb : s.blocked = true) : s.isEnded = false := by
  simp [Stream.isEnded, hb]

/-! ## frame codec -/

/-- "Headers, bodies and trailers submitted through the sending API … arrive
    unchanged": the framing layer.  `parse (encode_frame(t, d) ++ r) = (t, d, r)`
    for every type and payload that `encode_frame` accepts, given the varint law
    (proved for the varint codec by C17). -/
theorem frame_roundtrip
    (hv : ∀ v bs r, encVarint v = some bs → pullVarint (bs ++ r) = some (v, r))
    (t : Nat) (d b r : Bytes) (h : encodeFrame t d = some b) :
    parseFrame (b ++ r) = some (t, d, r) := by
  unfold encodeFrame at h
  cases h1 : encVarint t with
  | none => simp [h1] at h
  | some bt =>
    cases h2 : encVarint d.length with
    | none => simp [h1, h2] at h
    | some bl =>
      simp [h1, h2] at h
      subst h
      unfold parseFrame
      have e1 : pullVarint (bt ++ (bl ++ (d ++ r))) = some (t, bl ++ (d ++ r)) := hv t bt _ h1
      have e2 : pullVarint (bl ++ (d ++ r)) = some (d.length, d ++ r) := hv _ bl (d ++ r) h2
      simp only [List.append_assoc, e1, e2]
      simp

/-- the same without hypothesis: the varint law holds for the model's codec
    (`AQ.H3.varint_law`; C17 proves it for the shared codec) -/
theorem frame_roundtrip_unconditional (t : Nat) (d b r : Bytes) (h : encodeFrame t d = some b) :
    parseFrame (b ++ r) = some (t, d, r) :=
  frame_roundtrip varint_law t d b r h

/-- "Headers, bodies and trailers submitted through the sending API on one
    endpoint arrive unchanged and in order on the other for every valid header
    list, body size and write pattern": `send_headers(hs)` + `send_data(d, end_stream=True)`
    (frames `fH`, `fD` as `encode_frame` writes them), cut into ANY deliveries
    `c₁ … cₙ, last` with FIN on the last, on a fresh stream of the peer, given
    that QPACK decodes the block to `hs` (`hdec`; never blocked) and the
    validator accepts it with a content-length equal to the body size or none:
    the events have exactly one header block `hs`, body `d`, and the stream is
    ended — for every body size and every write pattern. -/
theorem send_recv_roundtrip (o : Oracle σ) (cfg : Cfg) (hnb : NonBlocking o)
    (ht : cfg.k.truncatedNoError = false) (hsil : cfg.k.silentFrameNoEnd = false)
    (hlogq : cfg.k.logDecode = false) (hlog : cfg.logging = false)
    {s : Stream} (hs : Fresh s) (hst : s.p.recvState = .initial) (hecl : s.p.expectedCL = none)
    (hcl0 : s.p.contentLength = 0) (q q1 q2 : σ) (blk d fH fD : Bytes) (hdrs : Headers) (cl : Option Nat)
    (hfH : encodeFrame 1 blk = some fH) (hfD : encodeFrame 0 d = some fD)
    (hdec : o.decode q s.p.streamId blk = (.headers hdrs, q1))
    (hval : o.validate q1 (if cfg.isClient then .response else .request) hdrs = (.ok cl, q2))
    (hclv : cl = none ∨ cl = some d.length)
    (chunks : List Bytes) (last : Bytes) (hb : chunks.flatten ++ last = fH ++ fD) :
    ∃ s' evs, feedAll o cfg s q (chunks.map (·, false) ++ [(last, true)]) = .ok (s', q2, evs) ∧
      normOf s.p.streamId evs =
        { headers := [(hdrs, s.p.pushId)], body := d, pushes := [], wt := [], wtSession := none,
          datagrams := [], ended := true } := by
  obtain ⟨s', evs, hw, hn⟩ := recv_headers_data o cfg varint_law hlog hs hst hecl hcl0 q q1 q2 blk d fH fD hdrs cl
    hfH hfD hdec hval hclv
  rw [← hb] at hw
  obtain ⟨evs', hf, hn'⟩ := chunk_independent_events o cfg hnb ht hsil hlogq hs q chunks last true s' q2 evs hw
  exact ⟨s', evs', hf, (hn' _).trans hn⟩

/-- the hypotheses are satisfiable -/
example : Fresh (Stream.new 0) := ⟨rfl, rfl, rfl, rfl, rfl, rfl⟩
example : NonBlocking cexOracle := by intro q sid b; simp [cexOracle]

end AQ.Props.C14
