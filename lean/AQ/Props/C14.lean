/-
  C14 — HTTP/3 events are independent of chunking and survive a round trip.

  Model: AQ.Model.H3Parser (`recvReq` = `_receive_request_or_push_data`, the
  parser of request streams and — after the push id — of push streams), with
  pylsqpack and the header validators as an arbitrary stateful `Oracle`.

  Normal form `normOf sid evs` (AQ.Proofs.H3Chunk) keeps, for stream `sid`:
  header blocks in order (headers, trailers) with their push id, concatenated
  body bytes, push promises, WebTransport bytes + session, datagrams, and the
  ended flag.  `REq x y` = both runs raise the same error (the same HTTP/3 error
  code closes the connection), or both return the same parser state, the same
  oracle state and event lists with the same normal form for every stream.

  `feedAll s q [(c₁,f₁),…]` delivers `c₁ … cₙ` one after the other with FIN flags
  `f₁ … fₙ`; `recvReq s q b fin` is ONE delivery of `b`.
-/
import AQ.Proofs.H3Roundtrip2
import AQ.Proofs.H3Conn
import AQ.Proofs.H3Block
import AQ.Proofs.H3Uni
namespace AQ.Props.C14
open AQ AQ.H3

variable {σ : Type}

/-- "The HTTP/3 events produced for a connection (headers, body bytes,
    trailers, push promises, WebTransport data, end-of-stream per stream) depend
    only on the bytes of each QUIC stream, not on how those bytes are split into
    deliveries": request / push stream, quirk-free parser
    (`truncatedNoError = silentFrameNoEnd = logDecode = false`), QPACK oracle
    that never answers "blocked" for this stream (`NonBlocking`; otherwise
    arbitrary and stateful — dynamic table, validators are parameters).

    For EVERY byte string `b = c₁ ++ … ++ cₙ ++ last` (any of the pieces may be
    empty), delivering `c₁ … cₙ` without FIN and then `last` with the FIN flag
    `fin` is `REq` to delivering `b` at once with `fin`. -/
theorem chunk_independent (o : Oracle σ) (cfg : Cfg) (hnb : NonBlocking o)
    (ht : cfg.k.truncatedNoError = false) (hsil : cfg.k.silentFrameNoEnd = false)
    (hlog : cfg.k.logDecode = false) {s : Stream} (hs : Fresh s) (q : σ)
    (chunks : List Bytes) (last : Bytes) (fin : Bool) :
    REq (feedAll o cfg s q (chunks.map (·, false) ++ [(last, fin)]))
        (recvReq o cfg s q (chunks.flatten ++ last) fin) :=
  feedAll_chunks o cfg hnb ht hsil hlog hs q chunks last fin

/-- the variant "FIN is delivered alone with empty data": `c₁ … cₙ` without FIN,
    then `(b"", FIN)`, equals one delivery of all the bytes with FIN. -/
theorem chunk_independent_fin_alone (o : Oracle σ) (cfg : Cfg) (hnb : NonBlocking o)
    (ht : cfg.k.truncatedNoError = false) (hsil : cfg.k.silentFrameNoEnd = false)
    (hlog : cfg.k.logDecode = false) {s : Stream} (hs : Fresh s) (q : σ) (chunks : List Bytes) :
    REq (feedAll o cfg s q (chunks.map (·, false) ++ [([], true)]))
        (recvReq o cfg s q chunks.flatten true) := by
  have := chunk_independent o cfg hnb ht hsil hlog hs q chunks [] true
  simpa using this

/-- two chunkings of the same bytes agree with each other -/
theorem chunk_independent_any_two (o : Oracle σ) (cfg : Cfg) (hnb : NonBlocking o)
    (ht : cfg.k.truncatedNoError = false) (hsil : cfg.k.silentFrameNoEnd = false)
    (hlog : cfg.k.logDecode = false) {s : Stream} (hs : Fresh s) (q : σ)
    (chunks chunks' : List Bytes) (last last' : Bytes) (fin : Bool)
    (hb : chunks.flatten ++ last = chunks'.flatten ++ last') :
    REq (feedAll o cfg s q (chunks.map (·, false) ++ [(last, fin)]))
        (feedAll o cfg s q (chunks'.map (·, false) ++ [(last', fin)])) := by
  have h1 := chunk_independent o cfg hnb ht hsil hlog hs q chunks last fin
  have h2 := chunk_independent o cfg hnb ht hsil hlog hs q chunks' last' fin
  rw [hb] at h1
  exact REq.trans h1 (REq.symm h2)

/-- unfolded: events of a successful run have the same normal form for every stream -/
theorem chunk_independent_events (o : Oracle σ) (cfg : Cfg) (hnb : NonBlocking o)
    (ht : cfg.k.truncatedNoError = false) (hsil : cfg.k.silentFrameNoEnd = false)
    (hlog : cfg.k.logDecode = false) {s : Stream} (hs : Fresh s) (q : σ)
    (chunks : List Bytes) (last : Bytes) (fin : Bool) (s' : Stream) (q' : σ) (evs : List Event)
    (hw : recvReq o cfg s q (chunks.flatten ++ last) fin = .ok (s', q', evs)) :
    ∃ evs', feedAll o cfg s q (chunks.map (·, false) ++ [(last, fin)]) = .ok (s', q', evs') ∧
      ∀ sid, normOf sid evs' = normOf sid evs := by
  have h := chunk_independent o cfg hnb ht hsil hlog hs q chunks last fin
  rw [hw] at h
  cases hf : feedAll o cfg s q (chunks.map (·, false) ++ [(last, fin)]) with
  | error x => rw [hf] at h; simp [REq] at h
  | ok v =>
    obtain ⟨a, b, c⟩ := v
    rw [hf] at h
    simp only [REq] at h
    obtain ⟨rfl, rfl, hn⟩ := h
    exact ⟨c, rfl, hn⟩

/-- unfolded: a run that ends in a ProtocolError ends in the same one for every chunking -/
theorem chunk_independent_error (o : Oracle σ) (cfg : Cfg) (hnb : NonBlocking o)
    (ht : cfg.k.truncatedNoError = false) (hsil : cfg.k.silentFrameNoEnd = false)
    (hlog : cfg.k.logDecode = false) {s : Stream} (hs : Fresh s) (q : σ)
    (chunks : List Bytes) (last : Bytes) (fin : Bool) (x : Err)
    (hw : recvReq o cfg s q (chunks.flatten ++ last) fin = .error x) :
    feedAll o cfg s q (chunks.map (·, false) ++ [(last, fin)]) = .error x := by
  have h := chunk_independent o cfg hnb ht hsil hlog hs q chunks last fin
  rw [hw] at h
  cases hf : feedAll o cfg s q (chunks.map (·, false) ++ [(last, fin)]) with
  | error y => rw [hf] at h; simp only [REq] at h; rw [h]
  | ok v => obtain ⟨a, b, c⟩ := v; rw [hf] at h; simp [REq] at h

/-! ## the unchanged tree: one counterexample per quirk -/

/-- QPACK oracle of the counterexamples: every block decodes to `:status: 200`
    (never blocked), every header list is valid -/
def cexOracle : Oracle Unit where
  decode _ _ _ := (.headers [([0x3a, 0x73], [0x32])], ())
  resume _ _ := (.headers [([0x3a, 0x73], [0x32])], ())
  feedEncoder _ _ := (.unblocked [], ())
  feedDecoder _ _ := (true, ())
  validate _ _ _ := (.ok none, ())
  logOk _ _ := (true, ())

/-- normal form of stream 0, or the error -/
def obs (r : Res Unit) : Err ⊕ Norm :=
  match r with
  | .error e => .inl e
  | .ok (_, _, evs) => .inr (normOf 0 evs)

def obsEnded (r : Res Unit) : Option Bool :=
  match r with
  | .error _ => none
  | .ok (_, _, evs) => some (normOf 0 evs).ended

def client (k : Quirks) : Cfg := { isClient := true, k := k }

/-- `HEADERS(01 01 00)` then an unknown (grease, type 0x21) empty frame `21 00` -/
def bytesSilent : Bytes := [0x01, 0x01, 0x00, 0x21, 0x00]
/-- `HEADERS`, then `DATA` of declared length 3 with only 2 bytes -/
def bytesTruncData : Bytes := [0x01, 0x01, 0x00, 0x00, 0x03, 0x61, 0x62]
/-- `HEADERS`, then only the header of a second HEADERS frame of length 5 -/
def bytesHeaderOnly : Bytes := [0x01, 0x01, 0x00, 0x01, 0x05]

/-- unchanged tree (`silentFrameNoEnd`): the stream `HEADERS, grease` delivered with
    FIN is never ended; with FIN delivered alone it is ended. -/
theorem silentFrame_counterexample :
    obsEnded (recvReq cexOracle (client { silentFrameNoEnd := true }) (Stream.new 0) () bytesSilent true) = some false ∧
    obsEnded (feedAll cexOracle (client { silentFrameNoEnd := true }) (Stream.new 0) ()
      [(bytesSilent, false), ([], true)]) = some true := by decide +kernel

/-- unchanged tree (`truncatedNoError`): `HEADERS, DATA(len 3)"ab"` + FIN delivered whole
    is ended; with the last byte delivered through the DATA-fragment shortcut it is not. -/
theorem truncatedData_counterexample :
    obsEnded (recvReq cexOracle (client { truncatedNoError := true }) (Stream.new 0) () bytesTruncData true) = some true ∧
    obsEnded (feedAll cexOracle (client { truncatedNoError := true }) (Stream.new 0) ()
      [(bytesTruncData.take 6, false), (bytesTruncData.drop 6, true)]) = some false := by decide +kernel

/-- unchanged tree (`truncatedNoError`): `HEADERS, 01 05` (frame header only) + FIN is
    never ended; with FIN delivered alone it is ended. -/
theorem truncatedHeaderOnly_counterexample :
    obsEnded (recvReq cexOracle (client { truncatedNoError := true }) (Stream.new 0) () bytesHeaderOnly true) = some false ∧
    obsEnded (feedAll cexOracle (client { truncatedNoError := true }) (Stream.new 0) ()
      [(bytesHeaderOnly, false), ([], true)]) = some true := by decide +kernel

/-- the same three inputs with the quirk-free parser: identical outcomes (the two
    truncated streams are H3_FRAME_ERROR = 0x106 in every chunking) -/
theorem counterexamples_fixed :
    obs (recvReq cexOracle (client {}) (Stream.new 0) () bytesSilent true) =
      obs (feedAll cexOracle (client {}) (Stream.new 0) () [(bytesSilent, false), ([], true)]) ∧
    obs (recvReq cexOracle (client {}) (Stream.new 0) () bytesTruncData true) = .inl (.h3 0x106) ∧
    obs (feedAll cexOracle (client {}) (Stream.new 0) ()
      [(bytesTruncData.take 6, false), (bytesTruncData.drop 6, true)]) = .inl (.h3 0x106) ∧
    obs (recvReq cexOracle (client {}) (Stream.new 0) () bytesHeaderOnly true) = .inl (.h3 0x106) ∧
    obs (feedAll cexOracle (client {}) (Stream.new 0) () [(bytesHeaderOnly, false), ([], true)]) =
      .inl (.h3 0x106) := by decide +kernel

/-! ### a PUSH_PROMISE waiting for the encoder stream (interleaving of two streams) -/

/-- oracle with one bit of state: blocks are "blocked" until the encoder stream
    has delivered something, which unblocks stream 0 -/
def blockingOracle : Oracle Bool where
  decode q _ _ := if q then (.headers [([0x3a, 0x6d], [0x47])], q) else (.blocked, q)
  resume q _ := (.headers [([0x3a, 0x6d], [0x47])], q)
  feedEncoder _ _ := (.unblocked [0], true)
  feedDecoder q _ := (true, q)
  validate q _ _ := (.ok none, q)
  logOk q _ := (true, q)

/-- events of a sequence of deliveries on a connection -/
def runConn (c : Conn Bool) : List QuicEvent → Option (List Event)
  | [] => some []
  | ev :: r =>
    match handleEvent blockingOracle c ev with
    | .error _ => none
    | .ok (c', evs) => (runConn c' r).map (evs ++ ·)

/-- request stream 0: `PUSH_PROMISE(push id 2, block 00)`; encoder stream 3: `02 00` -/
def ppStream : QuicEvent := .streamData 0 [0x05, 0x02, 0x02, 0x00] false
def encStream : QuicEvent := .streamData 3 [0x02, 0x00] false

/-- unchanged tree (`blockedPushAsHeaders`): encoder stream first → PushPromiseReceived;
    request stream first → the blocked PUSH_PROMISE is resumed as HEADERS → HeadersReceived. -/
theorem blockedPush_counterexample :
    ((runConn (Conn.init (client { blockedPushAsHeaders := true }) false) [encStream, ppStream]).map
        (fun evs => ((normOf 0 evs).pushes.length, (normOf 0 evs).headers.length))) = some (1, 0) ∧
    ((runConn (Conn.init (client { blockedPushAsHeaders := true }) false) [ppStream, encStream]).map
        (fun evs => ((normOf 0 evs).pushes.length, (normOf 0 evs).headers.length))) = some (0, 1) := by
  decide +kernel

/-- with the fix the order does not matter here -/
theorem blockedPush_fixed :
    (runConn (Conn.init (client {}) false) [encStream, ppStream]).map (normOf 0) =
    (runConn (Conn.init (client {}) false) [ppStream, encStream]).map (normOf 0) := by
  decide +kernel

/-! ## the connection-level step -/

/-- `chunk_independent` lifted through `H3Connection.handle_event`: for a
    connection `c` that is not done, a request (bidirectional) stream id whose
    `H3Stream` — looked up in, or created into, the stream table exactly as
    `_get_or_create_stream` does — has received no frame byte yet, feeding
    `StreamDataReceived(c₁) … (cₙ) (last, fin)` one event at a time
    (`feedConn`, which includes the table store and the `is_ended()` clean-up
    after every event) is `CEq` to feeding ONE `StreamDataReceived(c₁++…++last, fin)`:
    the same exception escapes; or both return with the same done flag and
    close code and, unless the HTTP/3 layer closed the connection, the same
    connection state (settings, stream table, QPACK state) and event lists of
    the same per-stream normal form. -/
theorem chunk_independent_connection (o : Oracle σ) (hnb : NonBlocking o) (c : Conn σ)
    (ht : c.cfg.k.truncatedNoError = false) (hsil : c.cfg.k.silentFrameNoEnd = false)
    (hlog : c.cfg.k.logDecode = false) (hnd : c.isDone = false) (sid : Nat) (hb : isUni sid = false)
    (hs : Fresh (streamOf c sid)) (chunks : List Bytes) (last : Bytes) (fin : Bool) :
    CEq (feedConn o c sid (chunks.map (·, false) ++ [(last, fin)]))
        (handleEvent o c (.streamData sid (chunks.flatten ++ last) fin)) :=
  conn_chunk_independent o hnb c ht hsil hlog hnd sid hb hs chunks last fin

/-! ## unidirectional streams -/

/-- chunk independence of `_receive_stream_data_uni` for EVERY stream type — the
    stream-type varint itself (possibly split), the control stream (SETTINGS,
    MAX_PUSH_ID, every other frame, handled when complete), push streams (push id,
    then the request parser), WebTransport streams (session id, then raw bytes),
    the QPACK encoder and decoder streams, and unknown types (discarded) — on a
    stream on which nothing has been received yet (`UniFresh`):
    `uniFeed` (deliveries one by one) is `UEq` to ONE delivery (`uniCore`): same
    error; or same connection fields (settings, peer stream ids, max push id,
    QPACK state), same `H3Stream`, same list of unblocked stream ids, and events
    of the same per-stream normal form.

    Oracle hypotheses, stated explicitly: `DecAdditive o` / `EncAdditive o` — the
    QPACK stream consumers are chunk-additive (`feed (a ++ b)` = `feed a; feed b`,
    unblocked ids concatenated, an error of a part is an error of the whole,
    `feed b""` is a no-op); `NonBlocking o` for the header blocks of push streams.

    `_partial`, what is missing: (1) `uniCore` is `_receive_stream_data_uni` up to,
    not including, the `for stream_id in unblocked_streams` loop and the store
    into the stream table (with an additive oracle the resumes of the chunked run
    happen between the feeds, which needs `Qpack.deterministic`-style commutation);
    (2) `hctl`: a FIN is not considered on the control stream — there the close
    code depends on the chunking in the CODE: `00 0d 01 05` + FIN in one delivery
    closes with H3_CLOSED_CRITICAL_STREAM (0x104), with the FIN delivered alone
    with H3_MISSING_SETTINGS (0x10a); both close the connection, no events. -/
theorem uni_chunk_independent_partial (o : Oracle σ) (hnb : NonBlocking o) (hdec : DecAdditive o)
    (henc : EncAdditive o) (c : Conn σ) (ht : c.cfg.k.truncatedNoError = false)
    (hsil : c.cfg.k.silentFrameNoEnd = false) (hlog : c.cfg.k.logDecode = false)
    {s : Stream} (hs : UniFresh s) (chunks : List Bytes) (last : Bytes) (fin : Bool)
    (hctl : fin = false ∨ ∀ r, pullVarint (chunks.flatten ++ last) ≠ some (0, r)) :
    UEq (uniFeed o c s (chunks.map (·, false) ++ [(last, fin)]))
        (uniCore o c s (chunks.flatten ++ last) fin) :=
  uniFeed_chunks o hnb hdec henc c ht hsil hlog hs chunks last fin hctl

/-! ## interleaving with the QPACK encoder stream -/

/-- `Qpack.deterministic`: if a header block is blocked (`decode` in state `q`),
    the encoder-stream bytes `eb` unblock exactly that stream, and the same bytes
    fed BEFORE the block unblock nothing, then `resume` yields the header list and
    decoder state that the unblocked `decode` yields. -/
def QpackDeterministic (o : Oracle σ) : Prop :=
  ∀ (q qb qb' qa : σ) (sid : Nat) (blk eb : Bytes),
    o.decode q sid blk = (.blocked, qb) → o.feedEncoder qb eb = (.unblocked [sid], qb') →
    o.feedEncoder q eb = (.unblocked [], qa) →
    ∃ hs qf, o.resume qb' sid = (.headers hs, qf) ∧ o.decode qa sid blk = (.headers hs, qf)

/-- "…not on … how deliveries of different streams are interleaved … including
    when header compression makes a request wait for the encoder stream":
    a request stream `HEADERS(blk), rest…` (any `rest`, FIN flag `fin`) delivered
    in one piece, and encoder-stream bytes `eb` delivered in one piece, in both
    orders.  Order B (request first): the request delivery yields NO event and
    leaves the stream blocked (`blockedState`), and the encoder delivery — which
    reports the stream unblocked — runs `resumeStream` on it.  Order A (encoder
    first: no event, decoder state `qa`): the request delivery is `recvReq … qa`.
    Under `QpackDeterministic` both yield the same error, or the same final
    `H3Stream`, decoder state and normal form of events.

    `_partial`, what is missing: both streams in single deliveries (chunked
    deliveries while blocked are not covered); the blocked frame is the first
    HEADERS frame of the stream (not trailers, not PUSH_PROMISE); one blocked
    stream; the connection-level plumbing (`recvUni`'s table lookups, and the
    `is_ended()` clean-up, which in order B does not run for the unblocked stream
    until its next event) is only covered by the differential runs. -/
theorem interleave_independent_partial (o : Oracle σ) (cfg : Cfg) (hdet : QpackDeterministic o)
    {S : Stream} (hS : Fresh S) (hrs : S.p.recvState ≠ .afterTrailers)
    (hbfs : S.blockedFrameSize = none) (hbp : S.blockedPush = none)
    (q qb qb' qa : σ) (blk fH rest eb : Bytes) (fin : Bool) (hfH : encodeFrame 1 blk = some fH)
    (hB1 : o.decode q S.p.streamId blk = (.blocked, qb))
    (hB2 : o.feedEncoder qb eb = (.unblocked [S.p.streamId], qb'))
    (hA1 : o.feedEncoder q eb = (.unblocked [], qa)) :
    recvReq o cfg S q (fH ++ rest) fin = .ok (blockedState S fin blk.length rest, qb, []) ∧
    REq (resumeStream o cfg (blockedState S fin blk.length rest) qb')
        (recvReq o cfg S qa (fH ++ rest) fin) := by
  obtain ⟨hs, qf, hres, hdecA⟩ := hdet q qb qb' qa S.p.streamId blk eb hB1 hB2 hA1
  exact ⟨recvReq_blocks o cfg varint_law hS hrs q qb blk fH rest fin hfH hB1,
    resume_eq_unblocked o cfg varint_law hS hrs hbfs hbp qa qb' qf blk fH rest fin hs hfH hres hdecA⟩

/-! ## the stream table -/

theorem lookupS_eraseS_ne (i sid : Nat) (l : List (Nat × H3.Stream)) (h : i ≠ sid) :
    lookupS i (eraseS sid l) = lookupS i l := by
  induction l with
  | nil => rfl
  | cons x r ih =>
    obtain ⟨j, y⟩ := x
    simp only [eraseS, lookupS]
    by_cases hj : j = sid
    · subst hj
      have : ¬ j = i := fun e => h e.symm
      simp [this]
    · simp only [hj, ↓reduceIte, lookupS, ih]

/-- "…including when header compression makes a request wait for the encoder
    stream": the clean-up at the end of every `_get_or_create_stream` block
    (`if stream.is_ended(): self._stream.pop(stream_id)`) never removes a stream
    that is blocked on the QPACK encoder stream — whichever stream the block was
    entered for, and even when both directions of the blocked stream have ended —
    so the unblocked-stream loop finds it when the encoder stream arrives. -/
theorem blocked_stream_never_removed (c : Conn σ) (sid i : Nat) (s : H3.Stream)
    (h : lookupS i c.streams = some s) (hb : s.blocked = true) :
    lookupS i (popIfEnded c sid).streams = some s := by
  unfold popIfEnded
  split
  · rename_i s1 hs1
    split
    · rename_i he
      by_cases hi : i = sid
      · subst hi
        rw [h] at hs1
        cases hs1
        simp [Stream.isEnded, hb] at he
      · simpa [lookupS_eraseS_ne i sid _ hi] using h
    · exact h
  · exact h

/-- the rule itself: `is_ended()` is false for a blocked stream -/
theorem blocked_not_ended (s : H3.Stream) (hb : s.blocked = true) : s.isEnded = false := by
  simp [Stream.isEnded, hb]

/-! ## frame codec -/

/-- "Headers, bodies and trailers submitted through the sending API … arrive
    unchanged": the framing layer.  `parse (encode_frame(t, d) ++ r) = (t, d, r)`
    for every type and payload that `encode_frame` accepts, given the varint law
    (proved for the varint codec by C17). -/
theorem frame_roundtrip
    (hv : ∀ v bs r, encVarint v = some bs → pullVarint (bs ++ r) = some (v, r))
    (t : Nat) (d b r : Bytes) (h : encodeFrame t d = some b) :
    parseFrame (b ++ r) = some (t, d, r) := by
  unfold encodeFrame at h
  cases h1 : encVarint t with
  | none => simp [h1] at h
  | some bt =>
    cases h2 : encVarint d.length with
    | none => simp [h1, h2] at h
    | some bl =>
      simp [h1, h2] at h
      subst h
      unfold parseFrame
      have e1 : pullVarint (bt ++ (bl ++ (d ++ r))) = some (t, bl ++ (d ++ r)) := hv t bt _ h1
      have e2 : pullVarint (bl ++ (d ++ r)) = some (d.length, d ++ r) := hv _ bl (d ++ r) h2
      simp only [List.append_assoc, e1, e2]
      simp

/-- the same without hypothesis: the varint law holds for the model's codec
    (`AQ.H3.varint_law`; C17 proves it for the shared codec) -/
theorem frame_roundtrip_unconditional (t : Nat) (d b r : Bytes) (h : encodeFrame t d = some b) :
    parseFrame (b ++ r) = some (t, d, r) :=
  frame_roundtrip varint_law t d b r h

/-- "Headers, bodies and trailers submitted through the sending API on one
    endpoint arrive unchanged and in order on the other for every valid header
    list, body size and write pattern": `send_headers(hs)` + `send_data(d, end_stream=True)`
    (frames `fH`, `fD` as `encode_frame` writes them), cut into ANY deliveries
    `c₁ … cₙ, last` with FIN on the last, on a fresh stream of the peer, given
    that QPACK decodes the block to `hs` (`hdec`; never blocked) and the
    validator accepts it with a content-length equal to the body size or none:
    the events have exactly one header block `hs`, body `d`, and the stream is
    ended — for every body size and every write pattern. -/
theorem send_recv_roundtrip (o : Oracle σ) (cfg : Cfg) (hnb : NonBlocking o)
    (ht : cfg.k.truncatedNoError = false) (hsil : cfg.k.silentFrameNoEnd = false)
    (hlogq : cfg.k.logDecode = false) (hlog : cfg.logging = false)
    {s : Stream} (hs : Fresh s) (hst : s.p.recvState = .initial) (hecl : s.p.expectedCL = none)
    (hcl0 : s.p.contentLength = 0) (q q1 q2 : σ) (blk d fH fD : Bytes) (hdrs : Headers) (cl : Option Nat)
    (hfH : encodeFrame 1 blk = some fH) (hfD : encodeFrame 0 d = some fD)
    (hdec : o.decode q s.p.streamId blk = (.headers hdrs, q1))
    (hval : o.validate q1 (if cfg.isClient then .response else .request) hdrs = (.ok cl, q2))
    (hclv : cl = none ∨ cl = some d.length)
    (chunks : List Bytes) (last : Bytes) (hb : chunks.flatten ++ last = fH ++ fD) :
    ∃ s' evs, feedAll o cfg s q (chunks.map (·, false) ++ [(last, true)]) = .ok (s', q2, evs) ∧
      normOf s.p.streamId evs =
        { headers := [(hdrs, s.p.pushId)], body := d, pushes := [], wt := [], wtSession := none,
          datagrams := [], ended := true } := by
  obtain ⟨s', evs, hw, hn⟩ := recv_headers_data o cfg varint_law hlog hs hst hecl hcl0 q q1 q2 blk d fH fD hdrs cl
    hfH hfD hdec hval hclv
  rw [← hb] at hw
  obtain ⟨evs', hf, hn'⟩ := chunk_independent_events o cfg hnb ht hsil hlogq hs q chunks last true s' q2 evs hw
  exact ⟨s', evs', hf, (hn' _).trans hn⟩

/-- the same for `send_headers(hs)`, ANY number of `send_data(dᵢ)` (bodies of any
    sizes, `EncData ds fs`), and `send_headers(trailers, end_stream=True)`, cut
    into any deliveries: header block, concatenated body, trailers, ended. -/
theorem send_recv_roundtrip_trailers (o : Oracle σ) (cfg : Cfg) (hnb : NonBlocking o)
    (ht : cfg.k.truncatedNoError = false) (hsil : cfg.k.silentFrameNoEnd = false)
    (hlogq : cfg.k.logDecode = false) (hlog : cfg.logging = false)
    {s : Stream} (hs : Fresh s) (hst : s.p.recvState = .initial) (hecl : s.p.expectedCL = none)
    (hcl0 : s.p.contentLength = 0) (q q1 q2 q3 q4 : σ) (blk blkT fH fT : Bytes) (ds fs : List Bytes)
    (hdrs hdrsT : Headers) (cl clT : Option Nat)
    (hfH : encodeFrame 1 blk = some fH) (hfs : EncData ds fs) (hfT : encodeFrame 1 blkT = some fT)
    (hdec : o.decode q s.p.streamId blk = (.headers hdrs, q1))
    (hval : o.validate q1 (if cfg.isClient then .response else .request) hdrs = (.ok cl, q2))
    (hdecT : o.decode q2 s.p.streamId blkT = (.headers hdrsT, q3))
    (hvalT : o.validate q3 .trailers hdrsT = (.ok clT, q4))
    (hclv : cl = none ∨ cl = some (totalLen ds))
    (chunks : List Bytes) (last : Bytes) (hb : chunks.flatten ++ last = fH ++ (fs.flatten ++ fT)) :
    ∃ s' evs, feedAll o cfg s q (chunks.map (·, false) ++ [(last, true)]) = .ok (s', q4, evs) ∧
      normOf s.p.streamId evs =
        { headers := [(hdrs, s.p.pushId), (hdrsT, s.p.pushId)], body := ds.flatten, pushes := [], wt := [],
          wtSession := none, datagrams := [], ended := true } := by
  obtain ⟨s', evs, hw, hn⟩ := recv_headers_datas_trailers o cfg varint_law hlog hs hst hecl hcl0 q q1 q2 q3 q4
    blk blkT fH fT ds fs hdrs hdrsT cl clT hfH hfs hfT hdec hval hdecT hvalT hclv
  rw [← hb] at hw
  obtain ⟨evs', hf, hn'⟩ := chunk_independent_events o cfg hnb ht hsil hlogq hs q chunks last true s' q4 evs hw
  exact ⟨s', evs', hf, (hn' _).trans hn⟩

/-- the hypotheses are satisfiable -/
example : Fresh (Stream.new 0) := ⟨rfl, rfl, rfl, rfl, rfl, rfl⟩
example : NonBlocking cexOracle := by intro q sid b; simp [cexOracle]

end AQ.Props.C14
