/-
  Property C17, ACK frames with a size budget: `push_ack_frame(buf, rangeset,
  delay, max_size)` (packet.py, fix C12-ack-frame-fits) drops the OLDEST ranges
  that do not fit.  Model `AQ.Codec.ackScriptMax` / `ackKeep` / `ackFit`
  (statement by statement), tied by `./check C17` (op `codec.ack_pushm`, every
  range set over 7–9 packet numbers x every budget, independent RFC 9000 §19.3
  reader as oracle).
-/
import AQ.Proofs.CodecAckMax

namespace AQ.Props.C17ack
open AQ AQ.Codec AQ.RangeSet

theorem take_reverse_map (rs : List Rg) (j : Nat) (hj : j ≤ rs.length) :
    ((rs.drop (rs.length - j)).map IRg.ofRg).reverse = ((rs.map IRg.ofRg).reverse).take j := by
  rw [← List.map_reverse, ← List.map_reverse, ← List.map_take]
  congr 1
  rw [List.take_reverse]

/-- **C17** "ACK range set" with a budget: for every well-formed non-empty range set
(packet numbers < 2^62), every delay < 2^62 and EVERY `max_size` (or none),
`push_ack_frame` raises nothing, writes the RFC 9000 §19.3 encoding
(`CodecSpec.encAck`) of the `n` most recent ranges — `n ≥ 1` is the value it
returns, and the ACK Range Count field is `n − 1` — and `pull_ack_frame` on
these bytes, followed by anything, returns exactly that suffix and the delay. -/
theorem ack_budget_roundtrip (rs : List Rg) (delay : Nat) (m : Option Int) (x : Bytes) (hwf : WF rs) (hne : rs ≠ [])
    (hdelay : delay < 2 ^ 62) (hb : ∀ r ∈ rs, r.stop ≤ 2 ^ 62) :
    ∃ n, 1 ≤ n ∧ n ≤ rs.length ∧ ackRangesWritten (rs.map IRg.ofRg) (delay : Int) m = n ∧
      (ackScriptMax (rs.map IRg.ofRg) (delay : Int) m).bytes = .ok (CodecSpec.encAck (rs.drop (rs.length - n)) delay) ∧
      pullAck (CodecSpec.encAck (rs.drop (rs.length - n)) delay ++ x) =
        .ok (((rs.drop (rs.length - n)).map IRg.ofRg, delay), x) := by
  have e62 : (2 : Nat) ^ 62 = 4611686018427387904 := by decide
  rw [e62] at hdelay hb
  have hd := descOK_of_wf rs hwf hne hb
  obtain ⟨k, kept, hkept, hlen, hn, hbytes, hpull, hdk⟩ :=
    ackMax_roundtrip ((rs.map IRg.ofRg).reverse) delay m x hd hdelay
  rw [List.reverse_reverse] at hn hbytes
  have hl : k + 1 ≤ rs.length := by simpa using hlen
  have hrev := take_reverse_map rs (k + 1) hl
  have hk2 : kept = ((rs.drop (rs.length - (k + 1))).map IRg.ofRg).reverse := by rw [hkept, hrev]
  have hspec := specAck_eq (rs.drop (rs.length - (k + 1))) delay hdelay (by rw [← hk2]; exact hdk)
  refine ⟨k + 1, by omega, hl, hn, ?_, ?_⟩
  · rw [hspec, ← hk2]; exact hbytes
  · rw [hspec, ← hk2, hpull, hk2, List.reverse_reverse]

/-! ### non-vacuity -/

example : WF [⟨0, 1⟩, ⟨2, 3⟩, ⟨5, 9⟩] := ⟨by decide, by decide, by decide, by decide, show (5 : Nat) < 9 by decide⟩
/-- a budget of 5 bytes keeps the newest range only; 6 bytes keep two -/
example : ackRangesWritten [⟨0, 1⟩, ⟨2, 3⟩, ⟨5, 9⟩] 3 (some 5) = 1 ∧ ackRangesWritten [⟨0, 1⟩, ⟨2, 3⟩, ⟨5, 9⟩] 3 (some 6) = 2 ∧
    ackRangesWritten [⟨0, 1⟩, ⟨2, 3⟩, ⟨5, 9⟩] 3 none = 3 := by decide

end AQ.Props.C17ack

#print axioms AQ.Props.C17ack.ack_budget_roundtrip
