/-
  C08 (last clause) — "Apart from acknowledgement-only packets and one probe
  datagram per timeout, an endpoint never puts more in-flight bytes on the wire
  than its congestion window allows."

  Same model and caller discipline as AQ.Props.C13 (to be merged into C08).
-/
import AQ.Proofs.Amplification

namespace AQ.Props.C08
open AQ AQ.Builder AQ.Amp

/-- For every builder configuration with `max_flight_bytes = m` and every
    disciplined call sequence: the bytes of all packets marked in flight in all
    datagrams handed out (packets holding only ACK / CONNECTION_CLOSE frames are
    not in flight) total at most `max m 0`.  The builder's own counter
    additionally includes the padding appended after the packets. -/
theorem flight_budget (c : Cfg) (pn : Nat) (ops : List Builder.Op) (m : Int) (hm : c.maxFlight = some m)
    (hd : DisciplinedRun (St.init c pn) ops) :
    inflightTotal (allOut (Builder.run (St.init c pn) ops).1) ≤ max m 0 :=
  run_flight_le hd m hm

/-- with the budget `datagrams_to_send` computes: at most `max (cwnd - in flight) 0`
    bytes, or one datagram (`max_datagram_size`) more than nothing when a probe is
    pending -/
theorem flight_budget_formula (c : Cfg) (pn : Nat) (ops : List Builder.Op) (cwnd inFlight : Int) (probe : Bool)
    (hm : c.maxFlight = some (maxFlight cwnd inFlight probe c.maxDatagramSize))
    (hd : DisciplinedRun (St.init c pn) ops) :
    inflightTotal (allOut (Builder.run (St.init c pn) ops).1) ≤
      (if probe then max (cwnd - inFlight) c.maxDatagramSize else max (cwnd - inFlight) 0) := by
  have := flight_budget c pn ops _ hm hd
  unfold maxFlight at this
  cases probe <;> simp at this ⊢ <;> (try split at this) <;> omega

/-- the budget `datagrams_to_send` hands to the builder does not depend on whether
    the application has PINGs queued (`send_ping`): only a loss-detection probe may
    exceed the window -/
theorem flight_budget_ping_irrelevant (i : SendIn) (b : Bool) :
    flightBudget { i with pingPending := b } = flightBudget i := rfl

/-- "Apart from acknowledgement-only packets and one probe datagram per timeout,
    an endpoint never puts more in-flight bytes on the wire than its congestion
    window allows" — over a whole `datagrams_to_send` call of the connection-level
    model (normal branch): whatever the path ledger, the connection IDs / token, the
    queued application PINGs, and whatever the three packet-number spaces do with
    the builder (a QuicPacketBuilderStop in one space does not end the call), the
    bytes of the in-flight packets of all datagrams returned are at most
    `max (cwnd - bytes_in_flight) 0`, or one `max_datagram_size` when that is less
    and a probe is pending. -/
theorem flight_budget_conn (p : Path) (i : SendIn) (hnc : i.closePending = false) (isClient : Bool)
    (peerCidLen hostCidLen tokenLen pn : Nat) (ops : List Builder.Op)
    (hd : DisciplinedRun (St.init (builderCfg p (connSendCall i isClient peerCidLen hostCidLen tokenLen pn ops)) pn) ops) :
    inflightTotal (sendOut p (connSendCall i isClient peerCidLen hostCidLen tokenLen pn ops)) ≤
      (if i.probePending then max (i.cwnd - i.bytesInFlight) i.maxDatagramSize else max (i.cwnd - i.bytesInFlight) 0) := by
  have hm : (builderCfg p (connSendCall i isClient peerCidLen hostCidLen tokenLen pn ops)).maxFlight =
      some (maxFlight i.cwnd i.bytesInFlight i.probePending
        (builderCfg p (connSendCall i isClient peerCidLen hostCidLen tokenLen pn ops)).maxDatagramSize) := by
    simp [builderCfg, connSendCall, flightBudget, hnc]
  exact flight_budget_formula _ pn ops i.cwnd i.bytesInFlight i.probePending hm hd

end AQ.Props.C08

#print axioms AQ.Props.C08.flight_budget
#print axioms AQ.Props.C08.flight_budget_formula
#print axioms AQ.Props.C08.flight_budget_conn
#print axioms AQ.Props.C08.flight_budget_ping_irrelevant
