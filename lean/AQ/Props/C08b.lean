/-
  C08 (last clause) — "Apart from acknowledgement-only packets and one probe
  datagram per timeout, an endpoint never puts more in-flight bytes on the wire
  than its congestion window allows."

  Same model and caller discipline as AQ.Props.C13 (to be merged into C08).
-/
import AQ.Proofs.Amplification

namespace AQ.Props.C08
open AQ AQ.Builder AQ.Amp

/-- For every builder configuration with `max_flight_bytes = m` and every
    disciplined call sequence: the bytes of all packets marked in flight in all
    datagrams handed out (packets holding only ACK / CONNECTION_CLOSE frames are
    not in flight) total at most `max m 0`.  The builder's own counter
    additionally includes the padding appended after the packets. -/
theorem flight_budget (c : Cfg) (pn : Nat) (ops : List Builder.Op) (m : Int) (hm : c.maxFlight = some m)
    (hd : DisciplinedRun (St.init c pn) ops) :
    inflightTotal (allOut (Builder.run (St.init c pn) ops).1) ≤ max m 0 :=
  run_flight_le hd m hm

/-- with the budget `datagrams_to_send` computes: at most `max (cwnd - in flight) 0`
    bytes, or one datagram (`max_datagram_size`) more than nothing when a probe is
    pending -/
theorem flight_budget_formula (c : Cfg) (pn : Nat) (ops : List Builder.Op) (cwnd inFlight : Int) (probe : Bool)
    (hm : c.maxFlight = some (maxFlight cwnd inFlight probe c.maxDatagramSize))
    (hd : DisciplinedRun (St.init c pn) ops) :
    inflightTotal (allOut (Builder.run (St.init c pn) ops).1) ≤
      (if probe then max (cwnd - inFlight) c.maxDatagramSize else max (cwnd - inFlight) 0) := by
  have := flight_budget c pn ops _ hm hd
  unfold maxFlight at this
  cases probe <;> simp at this ⊢ <;> (try split at this) <;> omega

/-- the budget `datagrams_to_send` hands to the builder does not depend on whether
    the application has PINGs queued (`send_ping`): only a loss-detection probe may
    exceed the window -/
theorem flight_budget_ping_irrelevant (i : SendIn) (b : Bool) :
    flightBudget { i with pingPending := b } = flightBudget i := rfl

/-- "Apart from acknowledgement-only packets and one probe datagram per timeout,
    an endpoint never puts more in-flight bytes on the wire than its congestion
    window allows" — over a whole `datagrams_to_send` call of the connection-level
    model (normal branch): whatever the path ledger, the connection IDs / token, the
    queued application PINGs, and whatever the three packet-number spaces do with
    the builder (a QuicPacketBuilderStop in one space does not end the call), the
    bytes of the in-flight packets of all datagrams returned are at most
    `max (cwnd - bytes_in_flight) 0`, or one `max_datagram_size` when that is less
    and a probe is pending. -/
theorem flight_budget_conn (p : Path) (i : SendIn) (hnc : i.closePending = false) (isClient : Bool)
    (peerCidLen hostCidLen tokenLen pn : Nat) (ops : List Builder.Op)
    (hd : DisciplinedRun (St.init (builderCfg p (connSendCall i isClient peerCidLen hostCidLen tokenLen pn ops)) pn) ops) :
    inflightTotal (sendOut p (connSendCall i isClient peerCidLen hostCidLen tokenLen pn ops)) ≤
      (if i.probePending then max (i.cwnd - i.bytesInFlight) i.maxDatagramSize else max (i.cwnd - i.bytesInFlight) 0) := by
  have hm : (builderCfg p (connSendCall i isClient peerCidLen hostCidLen tokenLen pn ops)).maxFlight =
      some (maxFlight i.cwnd i.bytesInFlight i.probePending
        (builderCfg p (connSendCall i isClient peerCidLen hostCidLen tokenLen pn ops)).maxDatagramSize) := by
    simp [builderCfg, connSendCall, flightBudget, hnc]
  exact flight_budget_formula _ pn ops i.cwnd i.bytesInFlight i.probePending hm hd

/-- one `datagrams_to_send` call as the last clause sees it: window room
    (`cwnd - bytes_in_flight`) when it starts, whether a probe was pending, and the
    in-flight bytes it put on the wire -/
structure Call where
  room : Int
  probe : Bool
  sent : Int

/-- the per-call bound established by `flight_budget_conn` -/
def Call.ok (mds : Nat) (c : Call) : Prop :=
  c.sent ≤ (if c.probe then max c.room mds else max c.room 0)

/-- in-flight bytes the call put on the wire beyond what the window allowed -/
def Call.excess (c : Call) : Int := max (c.sent - max c.room 0) 0

/-- the call made use of the probe allowance -/
def Call.usesProbe (c : Call) : Bool := c.probe && decide (0 < c.excess)

/-- "… and ONE probe datagram per timeout …" — composition over a whole history
    of calls.  Each call obeys the per-call bound of `flight_budget_conn`
    (`Call.ok`); then everything ever sent beyond the window is at most one
    `max_datagram_size` per call that used a pending probe.  Hence, if the calls
    that use the probe allowance are at most as many as the probe timeouts `T`
    (hypothesis `hT`: the life cycle of `_probe_pending` in connection.py — set by
    a timeout, cleared when the probe is written — which this model takes as an
    input; `checks/c08.py` counts timeouts and beyond-window calls on the real
    connection itself and does not read the flag), the excess is at most `T`
    datagrams. -/
theorem probe_excess_bound (mds : Nat) (cs : List Call) (T : Nat)
    (hok : ∀ c ∈ cs, c.ok mds) (hT : (cs.filter Call.usesProbe).length ≤ T) :
    (cs.map Call.excess).sum ≤ (mds : Int) * T := by
  have key : ∀ cs : List Call, (∀ c ∈ cs, c.ok mds) →
      (cs.map Call.excess).sum ≤ (mds : Int) * ((cs.filter Call.usesProbe).length : Nat) := by
    intro cs
    induction cs with
    | nil => simp
    | cons c cs ih =>
      intro hok
      have hc : c.ok mds := hok c (by simp)
      have ih' := ih (fun d hd => hok d (by simp [hd]))
      simp only [List.map_cons, List.sum_cons, List.filter_cons]
      unfold Call.ok at hc
      by_cases hu : c.usesProbe = true
      · simp only [hu, if_true, List.length_cons]
        have hp : c.probe = true := by
          unfold Call.usesProbe at hu; simp at hu; exact hu.1
        rw [hp] at hc; simp only [if_true] at hc
        have : c.excess ≤ mds := by unfold Call.excess; omega
        push_cast; rw [Int.mul_add]; omega
      · simp only [hu, Bool.false_eq_true, if_false]
        have : c.excess ≤ 0 := by
          unfold Call.usesProbe at hu
          by_cases hp : c.probe = true
          · simp [hp] at hu; omega
          · simp at hp; rw [hp] at hc; simp at hc; unfold Call.excess; omega
        omega
  have h1 := key cs hok
  have h2 : (mds : Int) * ((cs.filter Call.usesProbe).length : Nat) ≤ (mds : Int) * T :=
    Int.mul_le_mul_of_nonneg_left (by exact_mod_cast hT) (by omega)
  omega

/-- the hypotheses of `probe_excess_bound` are satisfiable with a probe in use -/
example : (∀ c ∈ [Call.mk 0 true 1200, Call.mk 0 false 0], c.ok 1200) ∧
    ([Call.mk 0 true 1200, Call.mk 0 false 0].filter Call.usesProbe).length ≤ 1 := by
  refine ⟨?_, by decide⟩
  intro c hc
  simp at hc
  rcases hc with rfl | rfl <;> simp [Call.ok] <;> omega

end AQ.Props.C08

#print axioms AQ.Props.C08.flight_budget
#print axioms AQ.Props.C08.probe_excess_bound
#print axioms AQ.Props.C08.flight_budget_formula
#print axioms AQ.Props.C08.flight_budget_conn
#print axioms AQ.Props.C08.flight_budget_ping_irrelevant
