/-
  C05 — the byte-level part: every `_handle_*_frame` model (AQ.Model.RecvFrames, tied
  to the real handlers by the `rx.` outcome-class correspondence) ends only with
  exceptions that `_payload_received` converts; hence `_payload_received` on ANY payload
  bytes returns or raises `QuicConnectionError`.
-/
import AQ.Proofs.RecvFrames
import AQ.Props.C05

namespace AQ.C05
open AQ AQ.Recv AQ.RecvF AQ.Gen.Recv

/-- "all frame types with boundary field values, truncations and repetitions sent by a
    key-holding peer": for EVERY payload byte string, every epoch and every abstract
    connection state whose crypto stream has no final size, `_payload_received` returns
    the (ack-eliciting, probing) flags or raises `QuicConnectionError` — provided the TLS
    layer raises only `tls.Alert` / `BufferReadError` / a callback's `QuicConnectionError`
    (`EnvOk.tls`) and `on_ack_received` is total (`EnvOk.ack`, C08). -/
theorem payload_bytes_total (env : Env) (henv : EnvOk env) (c : Ctx) (cr : Bool)
    (hc : CryptoOk c) :
    CryptoOk (payloadBytes env c cr).2 ∧
    ∀ e, (payloadBytes env c cr).1 = .error e → ∃ code, e = .conn code := by
  unfold payloadBytes
  refine payloadReceived_total (byteHandlers env) c.epoch CryptoOk ?_ ?_ ?_ ?_ cr _ c hc
  · intro s hs; exact ((safe_pullUintVar (ok := handledErr) rfl) s hs).2
  · intro n eps t s hl hs; exact byte_run_keeps env henv n eps t c.epoch s hl hs
  · intro s e hs h
    have := ((safe_pullUintVar (ok := fun e => e == .bufferRead) rfl) s hs).1 e h
    simpa using this
  · intro n eps t s e hl hs h; exact byte_run_handled env henv n eps t c.epoch s e hl hs h

/-- each handler on its own: the set of exceptions it can end with -/
theorem handlers_total (env : Env) (henv : EnvOk env) :
    Safe handledErr handlePadding ∧ Safe handledErr handlePing ∧
    (∀ t, Safe handledErr (handleAck env t)) ∧ Safe handledErr handleResetStream ∧
    Safe handledErr handleStopSending ∧ Safe handledErr (handleCrypto env) ∧
    Safe handledErr handleNewToken ∧ (∀ t, Safe handledErr (handleStream t)) ∧
    Safe handledErr handleMaxData ∧ Safe handledErr handleMaxStreamData ∧
    Safe handledErr handleMaxStreams ∧ Safe handledErr handleDataBlocked ∧
    Safe handledErr handleStreamDataBlocked ∧ Safe handledErr handleStreamsBlocked ∧
    Safe handledErr handleRetireConnectionId ∧ Safe handledErr handlePathChallenge ∧
    Safe handledErr handlePathResponse ∧ (∀ t, Safe handledErr (handleConnectionClose t)) ∧
    Safe handledErr handleHandshakeDone ∧ (∀ t, Safe handledErr (handleDatagram t)) ∧
    Safe handledErr handleNewConnectionId :=
  ⟨safe_handlePadding, safe_handlePing, fun t => safe_handleAck env t henv.ack, safe_handleResetStream,
   safe_handleStopSending, safe_handleCrypto env henv.tls, safe_handleNewToken, safe_handleStream,
   safe_handleMaxData, safe_handleMaxStreamData, safe_handleMaxStreams, safe_handleDataBlocked,
   safe_handleStreamDataBlocked, safe_handleStreamsBlocked, safe_handleRetireConnectionId,
   safe_handlePathChallenge, safe_handlePathResponse, safe_handleConnectionClose,
   safe_handleHandshakeDone, safe_handleDatagram, safe_handleNewConnectionId⟩

/-- `pull_ack_frame`: "can a crafted ACK frame hit `RangeSet.add`'s `assert stop > start`?" —
    no: whatever the largest / first-range / gap / length varints are (the running `end` may
    go negative), each added range is `[end - n, end + 1)` with `n ≥ 0`. -/
theorem ack_frame_never_asserts (env : Env) (t : Nat) (h : env.ack ≠ .error (.py .assertion)) :
    Safe (fun e => e != .py .assertion) (handleAck env t) := by
  unfold handleAck
  simp only [ack_assert, if_false]
  have h1 : ∀ f n e, Safe (fun e => e != .py .assertion) (ackRanges f n e) := by
    intro f
    induction f with
    | zero => intro n e; cases n <;> (unfold ackRanges; safe_tac)
    | succ f ih =>
      intro n e
      cases n with
      | zero => unfold ackRanges; safe_tac
      | succ n =>
        unfold ackRanges
        simp only [ack_assert, if_false]
        refine safe_bind _ _ (safe_pullUintVar rfl) (fun _ => ?_)
        refine safe_bind _ _ (safe_pullUintVar rfl) (fun _ => ?_)
        exact ih _ _
  have h2 : Safe (fun e => e != .py .assertion) (liftOutcome env.ack) :=
    safe_liftOutcome _ (fun e he => by
      simp only [bne_iff_ne, ne_eq]; intro hh; subst hh; exact h he)
  safe_tac
  all_goals first | exact h1 _ _ _ | exact h2

/-- outcome classes of `pull_quic_header` -/
def hdrErr (e : Err) : Bool := e == .bufferRead || e == .py .value

theorem safe_pullUint32 : Safe hdrErr pullUint32 := by unfold pullUint32; safe_tac

theorem safe_pullVersions : ∀ fuel n, Safe hdrErr (pullVersions fuel n) := by
  intro fuel
  induction fuel with
  | zero => intro n; unfold pullVersions; safe_tac
  | succ f ih =>
    intro n
    unfold pullVersions
    have h1 := safe_pullUint32
    have h2 := ih
    safe_tac
    exact h2 _

/-- "header parse `pull_quic_header` → ValueError only?" — yes: for EVERY byte string and every
    configured connection-ID length the header parser returns or raises `ValueError` /
    `BufferReadError` (a `ValueError` subclass, `tables_ok`), which `receive_datagram` catches
    (`except ValueError: return`).  This discharges `HdrOk.1` of `recv_total`. -/
theorem pullQuicHeader_errors (n : Nat) : Safe hdrErr (pullQuicHeader n) := by
  unfold pullQuicHeader
  have h1 := safe_pullUint32
  have h2 := safe_pullVersions
  safe_tac
  all_goals first | exact h2 _ _ | skip

/-! ## Bytes all the way: `receive_datagram` over real payload bytes -/

/-- payload of an authenticated packet as bytes, together with the abstract connection state
    the handlers see (its crypto stream without final size) -/
abbrev BytesPayload := { c : Ctx // CryptoOk c }

/-- `_payload_received` on bytes, lifted to the connection-level state: a CONNECTION_CLOSE
    frame that ran sets `_close_event` and starts draining -/
def runPayloadBytes (env : Env) (s : St) (ep : Epoch) (cr : Bool) (p : BytesPayload) :
    St × Outcome (Bool × Bool) :=
  let r := payloadBytes env { p.1 with epoch := ep, closeEvent := s.closeEvent } cr
  (match s.closeEvent, r.2.closeEvent with
   | none, some code => ({ s with closeEvent := some code }).closeBegin false
   | _, _ => s,
   r.1)

theorem runPayloadBytes_ok (env : Env) (henv : EnvOk env) :
    PayloadOk (runPayloadBytes env) := by
  intro s ep cr p hi hin hst
  have hca : s.closeAtSet = true := hi.2.2.2.2.1 hin (by simp [hst, CState.isEnd])
  have ht := payload_bytes_total env henv { p.1 with epoch := ep, closeEvent := s.closeEvent } cr p.2
  unfold runPayloadBytes
  simp only
  refine ⟨?_, ?_, ?_, ?_, ht.2⟩
  all_goals
    split
    · obtain ⟨h1, h2, h3, h4, h5, h6⟩ := hi
      first
        | (refine ⟨?_, ?_, ?_, ?_, ?_, ?_⟩ <;> simp_all [St.closeBegin, CState.isEnd])
        | simp_all [St.closeBegin, CState.isEnd]
    · first | exact hi | exact hin | exact hca | exact Or.inl hst

/-- `recv_total` with the byte-level handlers: every list of coalesced packets, each either
    unparseable / undecryptable / authenticated with ARBITRARY payload bytes. -/
theorem recv_total_bytes (env : Env) (henv : EnvOk env) (small : Bool)
    (pkts : List (Pkt BytesPayload)) (s : St) (hpk : ∀ p ∈ pkts, HdrOk p) (hi : ConnInv s) :
    ConnInv (receiveDatagram (runPayloadBytes env) small pkts s).1 ∧
    ∀ cls, (receiveDatagram (runPayloadBytes env) small pkts s).2 ≠ .raised cls :=
  recv_total_generic (runPayloadBytes env) (runPayloadBytes_ok env henv) small pkts s hpk hi

/-- NEW_CONNECTION_ID that retires the active connection ID while no spare one is left:
    PROTOCOL_VIOLATION (before "fix: close the connection when Retire Prior To leaves no usable
    connection ID" this was the `IndexError` of `_consume_peer_cid`) -/
theorem retire_prior_to_without_spare_cid :
    (handleNewConnectionId { buf := [0x03, 0x03, 0x01, 0xAA] ++ List.replicate 16 0, peerSeen := [0, 3] }).1
      = .error (.conn 0xA) := by rfl

example : (payloadBytes {} { buf := [0x01], maxData := 10 } false).1 = .ok (true, false) := by rfl
example : (payloadBytes {} { buf := [0x1F] } false).1 = .error (.conn 7) := by rfl
example : (payloadBytes { tls := .error (.alert 10) } { buf := [0x06, 0x00, 0x01, 0xFF], epoch := .initial } false).1
    = .error (.conn 0x10A) := by rfl

#print axioms payload_bytes_total
#print axioms handlers_total
#print axioms pullQuicHeader_errors
#print axioms recv_total_bytes
#print axioms ack_frame_never_asserts
#print axioms retire_prior_to_without_spare_cid

end AQ.C05
