/-
  Property C01 — reliable, ordered, exactly-once stream delivery over any lossy
  network.

  Setting (model: AQ/Model/StreamSys.lean, lemmas: AQ/Proofs/StreamSys*.lean).
  ONE stream in ONE direction: the send half of the sending endpoint, the wire,
  the receive half of the receiving endpoint, wired as connection.py wires them
  (`send_stream_data`, `reset_stream`, the stream loop of `_write_application`
  with `_write_stream_frame` / `_write_reset_stream_frame`, `_handle_stream_frame`,
  `_handle_reset_stream_frame`, the delivery handlers).  Streams do not share
  state in these functions, so the per-stream statements hold for every stream
  of a connection and both directions.

  * `Op` is one step; `run (init id) ops` executes an arbitrary list of steps.
    The NETWORK is part of the list: `deliver i` hands frame number `i` of
    everything ever emitted to the receiver — any frame, any number of times, in
    any order (drop = never delivered, delay/reorder = later/out of order,
    duplicate = delivered again).  Datagram duplicates are discarded before frame
    handling by the current code (`receive_datagram`); the theorems do not need
    that: they hold for every multiplicity.
  * `WF (init id) ops` is the environment's contract and nothing more: a delivery
    report (`ackFrame i` / `loseFrame i`, `ackReset` / `loseReset`) names a frame
    that was emitted and not yet reported (packet recovery reports every packet
    at most once — property C08).  Application writes, resets, the builder space
    and flow-control cap seen by `emit`, and all `deliver` steps are unconstrained.
  * Flow-control / stream-limit checks of `_handle_stream_frame` are modelled as
    passing (properties C06 / C07).  Key updates, connection-id changes and
    address rebinding act below this layer (packet protection / paths): a packet
    that fails to decrypt is a dropped packet; they are exercised by the
    connection-level check (checks/c01.py), not by the model.
-/
import AQ.Proofs.StreamSysLive
import AQ.Proofs.StreamSysFair

namespace AQ.Props.C01
open AQ AQ.Stream AQ.RangeSet AQ.StreamSys

/-! ## Safety -/

/-- "the bytes delivered for a stream are, in order and without gaps or repeats,
    a prefix of the bytes the sender wrote".

    In every reachable state the concatenation of the data of all
    StreamDataReceived events handed to the application is EXACTLY the first
    `_buffer_start` bytes the application wrote on the sending side (so: in
    order, no gap, no repeat), and `_buffer_start` never exceeds what was written. -/
theorem c01_prefix (id : Nat) (ops : List Op) (hw : WF (init id) ops) :
    (run (init id) ops).deliveredBytes =
        (run (init id) ops).ghost.written.take (run (init id) ops).recv.bufStart ∧
    (run (init id) ops).recv.bufStart ≤ (run (init id) ops).ghost.written.length ∧
    (run (init id) ops).deliveredBytes <+: (run (init id) ops).ghost.written := by
  have h := good_prefix (good_reachable id ops hw)
  exact ⟨h.1, h.2, by rw [h.1]; exact List.take_prefix _ _⟩

/-- "end-of-stream is signalled at most once".  In every reachable state at most
    one StreamDataReceived event with `end_stream=True` was handed out. -/
theorem c01_fin_once (id : Nat) (ops : List Op) (hw : WF (init id) ops) :
    (run (init id) ops).endEvents ≤ 1 :=
  (good_reachable id ops hw).endi.ends_le

/-- "…and only after all of them": if end-of-stream was signalled then the
    sending application wrote FIN and EVERY byte it wrote has been delivered
    (a reset stream never signals end-of-stream unless that is the case). -/
theorem c01_fin_sound (id : Nat) (ops : List Op) (hw : WF (init id) ops)
    (he : (run (init id) ops).endEvents = 1) :
    (run (init id) ops).ghost.finWritten = true ∧
    (run (init id) ops).deliveredBytes = (run (init id) ops).ghost.written := by
  have hg := good_reachable id ops hw
  obtain ⟨-, h2, h3⟩ := hg.endi.ends_fin he
  have hp := good_prefix hg
  refine ⟨h2, ?_⟩
  rw [hp.1, List.take_of_length_le h3]

/-- step form of `c01_fin_sound`: the very `deliver` step whose event carries the
    end marker leaves a state in which FIN was written and everything was delivered. -/
theorem c01_fin_sound_step (id : Nat) (ops : List Op) (i : Nat) (hw : WF (init id) ops)
    (e : DataEv) (hev : (step (run (init id) ops) (.deliver i)).2 = .event (some e))
    (hend : e.endStream = true) :
    let s' := (step (run (init id) ops) (.deliver i)).1
    s'.ghost.finWritten = true ∧ s'.deliveredBytes = s'.ghost.written := by
  have hg := good_reachable id ops hw
  have hg' := good_step hg (.deliver i) trivial
  have hcnt : (step (run (init id) ops) (.deliver i)).1.endEvents = 1 := by
    have h1 := step_deliver_event hev
    have h2 := hg'.endi.ends_le
    have h3 : evCount (some e) = 1 := by simp [evCount, evEnd, hend]
    omega
  intro s'
  obtain ⟨-, h2, h3⟩ := hg'.endi.ends_fin hcnt
  have hp := good_prefix hg'
  exact ⟨h2, by rw [hp.1, List.take_of_length_le h3]⟩

/-- "such a network never causes the connection to be closed with a protocol
    error" — the stream part.  Frames of ONE honest sender are mutually
    consistent (same final size, no data beyond it): in every reachable state the
    receiving endpoint has not closed the connection because of this stream, and
    whichever emitted STREAM or RESET_STREAM frame the network delivers next (any
    index, any multiplicity, any order) the receive half does not raise
    FinalSizeError. -/
theorem c01_no_stream_error (id : Nat) (ops : List Op) (hw : WF (init id) ops) :
    (run (init id) ops).connError = none ∧
    (∀ f ∈ (run (init id) ops).wire, ¬ ∃ e, handleFrame (run (init id) ops).recv (OutFrame.toFrame f) = .error e) ∧
    (∀ z ∈ (run (init id) ops).resetWire, ¬ ∃ e, handleReset (run (init id) ops).recv z = .error e) := by
  have hg := good_reachable id ops hw
  refine ⟨hg.endi.noerr, fun f hf => deliver_no_error hg.reach hg.endi hf, ?_⟩
  intro z hz he
  obtain ⟨y, hy, hne⟩ := (handleReset_error_iff _ _).1 he
  have := (hg.reach.hi.rwire z hz).1
  have := (hg.endi.fsB y hy).1
  omega

/-! ## Liveness: the safety half and bounded progress -/

/-- "every written byte and every end-of-stream is delivered" — safety half
    (nothing is ever forgotten).  Before a reset, every written offset is pending
    at the sender (and then `buffer_is_empty` is false, so the stream loop will
    call `_write_stream_frame`), or carried by a frame on the wire whose delivery
    has not been reported yet, or covered by a frame reported ACKED; likewise the
    FIN.  (That an ACKED frame was processed by the receiver is the peer's ACK
    honesty — packets are acknowledged after `_payload_received` — and is not a
    fact about this layer; the `ackFrame` step of the model is unconstrained.) -/
theorem c01_conservation (id : Nat) (ops : List Op) (hw : WF (init id) ops)
    (hr : (run (init id) ops).ghost.reset = false) :
    let s := run (init id) ops
    (∀ i, i < s.ghost.written.length →
        (mem i s.send.pending ∧ s.send.bufferIsEmpty = false) ∨
        (∃ f ∈ s.wire, f.fr ∈ s.ghost.outstanding ∧ f.fr.cov i = true) ∨
        (∃ fr ∈ s.ghost.acked, fr.cov i = true)) ∧
    (s.ghost.finWritten = true →
        (s.send.pendingEof = true ∧ s.send.bufferIsEmpty = false) ∨
        (∃ f ∈ s.wire, f.fr ∈ s.ghost.outstanding ∧ f.fin = true) ∨
        (∃ fr ∈ s.ghost.acked, fr.fin = true)) := by
  have hg := good_reachable id ops hw
  obtain ⟨c1, c2, c3⟩ := hg.reach.snd.sinv.conservation hr
  intro s
  refine ⟨?_, ?_⟩
  · intro i hi
    rcases c1 i hi with h1 | ⟨fr, h1, h2⟩ | h1
    · refine Or.inl ⟨h1, c3 (Or.inl ?_)⟩
      intro hx; rw [hx] at h1; simp at h1
    · obtain ⟨f, hf, rfl⟩ := hg.reach.snd.out_wire fr h1
      exact Or.inr (Or.inl ⟨f, hf, h1, h2⟩)
    · exact Or.inr (Or.inr h1)
  · intro hf
    rcases c2 hf with h1 | ⟨fr, h1, h2⟩ | h1
    · exact Or.inl ⟨h1, c3 (Or.inr h1)⟩
    · obtain ⟨f, hfm, rfl⟩ := hg.reach.snd.out_wire fr h1
      exact Or.inr (Or.inl ⟨f, hfm, h1, h2⟩)
    · exact Or.inr (Or.inr h1)

/-- Bounded progress.  In any reachable state before a reset in which the byte
    at the receiver's delivery point is the first one pending at the sender (the
    state loss detection establishes: `send_lost_reoffered` of C10 puts the bytes
    of a frame declared lost back in `pending`), the fair suffix
    [`emit` with room for the header and one byte and a flow-control cap above
    that offset, `deliver` of the frame just emitted] strictly advances the
    delivery point — i.e. strictly decreases `written.length − _buffer_start`
    — and the newly delivered bytes are the written ones (`c01_prefix`). -/
theorem c01_progress (id : Nat) (ops : List Op) (hw : WF (init id) ops)
    (hr : (run (init id) ops).ghost.reset = false) (hgone : (run (init id) ops).recvGone = false)
    (r : Rg) (rest : List Rg) (hp : (run (init id) ops).send.pending = r :: rest)
    (hat : r.start = (run (init id) ops).recv.bufStart)
    (ov : Nat) (hov : frameOverhead (run (init id) ops).streamId (run (init id) ops).send = .ok ov)
    (space : Int) (hsp : (ov : Int) < space) (mo : Nat) (hmo : r.start < mo) :
    let s := run (init id) ops
    let s' := run (init id) (ops ++ [.emit space mo, .deliver s.wire.length])
    WF (init id) (ops ++ [.emit space mo, .deliver s.wire.length]) ∧
    s.recv.bufStart < s'.recv.bufStart ∧ s'.ghost.written = s.ghost.written ∧
    s'.ghost.written.length - s'.recv.bufStart < s.ghost.written.length - s.recv.bufStart := by
  intro s s'
  have hat' : r.start = s.recv.bufStart := hat
  have hg : Good s := good_reachable id ops hw
  obtain ⟨f, sd, h1, h2, e1⟩ := emit_progress hg hr hp hov hsp hmo
  change (StreamSys.step s (.emit space mo)).1 = _ at e1
  have hg1 := good_step hg (.emit space mo) trivial
  have hs' : s' = (StreamSys.step (StreamSys.step s (.emit space mo)).1 (.deliver s.wire.length)).1 := by
    show StreamSys.run (init id) (ops ++ _) = _
    rw [StreamSys.run_append]; rfl
  have hwf : WF (init id) (ops ++ [.emit space mo, .deliver s.wire.length]) := by
    rw [StreamSys.WF_append]; exact ⟨hw, trivial, trivial, trivial⟩
  have hwi : (StreamSys.step s (.emit space mo)).1.wire[s.wire.length]? = some f := by
    rw [e1]; show (s.wire ++ [f])[s.wire.length]? = some f; simp
  have hgn : (StreamSys.step s (.emit space mo)).1.recvGone = false := by rw [e1]; exact hgone
  have hrs : (StreamSys.step s (.emit space mo)).1.recv = s.recv := by rw [e1]
  have hlen : 0 < f.data.length := by
    cases hx : f.data with
    | nil => exact absurd hx h2
    | cons a l => simp
  obtain ⟨p1, p2⟩ := deliver_progress hg1 hwi hgn (by rw [hrs]; omega) (by rw [hrs]; omega)
  have hgw : (StreamSys.step s (.emit space mo)).1.ghost.written = s.ghost.written := by rw [e1]; rfl
  have hb := (good_prefix (good_reachable id _ hwf)).2
  change s'.recv.bufStart ≤ s'.ghost.written.length at hb
  rw [hs'] at hb ⊢
  rw [p2, hgw] at hb ⊢
  refine ⟨hwf, by omega, rfl, by omega⟩

/-- Bounded progress for the end marker: when only the FIN is pending at the
    sender, every written byte was delivered and end-of-stream was not signalled
    yet, [`emit` with room for the frame header, `deliver` of that frame]
    signals it. -/
theorem c01_fin_progress (id : Nat) (ops : List Op) (hw : WF (init id) ops)
    (hr : (run (init id) ops).ghost.reset = false) (hgone : (run (init id) ops).recvGone = false)
    (hp : (run (init id) ops).send.pending = []) (he : (run (init id) ops).send.pendingEof = true)
    (hall : (run (init id) ops).recv.bufStart = (run (init id) ops).ghost.written.length)
    (hnf : (run (init id) ops).recv.finished = false)
    (ov : Nat) (hov : frameOverhead (run (init id) ops).streamId (run (init id) ops).send = .ok ov)
    (space : Int) (hsp : (ov : Int) ≤ space) (mo : Nat) :
    (run (init id) (ops ++ [.emit space mo, .deliver (run (init id) ops).wire.length])).endEvents = 1 := by
  have := fin_progress (good_reachable id ops hw) hr hp he hall hgone hnf hov hsp mo
  rw [StreamSys.run_append]
  exact this

/- LIVENESS — the full statement, NOT proved:

     "If the network eventually delivers datagrams, every written byte and every
      end-of-stream is delivered":  for every infinite run of the two connections
      in which (fairness) every datagram sent after some point is eventually
      delivered and timers fire, every non-reset stream eventually reaches
      `deliveredBytes = written` and, if FIN was written, `endEvents = 1`.

   What IS proved (`c01_liveness_partial`): in every reachable state before a
   reset with an undelivered byte (or only the FIN missing), once the missing
   byte (the FIN) is pending at the sender, one fair round [emit, deliver]
   strictly decreases the measure  (written.length − _buffer_start) + [FIN
   not signalled]; and nothing is ever forgotten (`c01_conservation`).

   What is MISSING for the temporal statement:
   * the formalisation of infinite fair runs and the induction on the measure;
   * that loss detection / PTO eventually reports an undelivered outstanding
     frame LOST (what establishes "the missing byte is the first pending one" /
     `outstanding = []`): NOW PROVED for the recovery model in AQ.Props.C01Loss —
     `loss_on_ack_complete` (an ACK newly acknowledging a packet reports every
     other tracked packet 3 or more below `largest_acked_packet`, or sent at or
     before `now − loss_delay`, LOST exactly once), `loss_survivor_arms_timer`
     (a survivor below the largest acknowledged sets `loss_time`, so
     `get_loss_detection_time` is a deadline), `loss_timeout_runs_detect`,
     `loss_time_is_deadline`, `loss_timer_fires` (the timer runs `_detect_loss`;
     a survivor past `sent_time + loss_delay` is reported — order facts of the
     arithmetic as hypotheses), `pto_deadline`, `pto_fires` (no loss time: a PTO
     deadline exists, the timeout bumps `pto_count`, reschedules CRYPTO data and
     requests a probe whose ACK triggers `loss_on_ack_complete`), `reports_once`
     (packet reports → `ackFrame` / `loseFrame` steps, each frame at most once).
     What is still NOT proved: that an ACK or the timer call actually happens
     (network fairness, the event loop calling `handle_timer` at
     `get_timer()`), that the registered delivery handlers are this model's
     `ackFrame` / `loseFrame` (checked by the correspondence of checks/c01.py),
     and the composition over an infinite run;
   * that the stream loop eventually serves the stream with enough builder
     space and flow-control credit (congestion window, pacing, MAX_DATA /
     MAX_STREAM_DATA updates from the peer: C06/C07/C08/C13);
   * that an ACKED frame was really processed by the peer (ACK honesty, C12);
   * packet protection across key updates (a packet that cannot be decrypted is
     a dropped one) — the key bookkeeping itself is proved in AQ.Props.C01Keys;
   * PATH VALIDATION AFTER AN APPARENT MIGRATION IS OUTSIDE THE MODEL: the model
     has no network paths, no anti-amplification budget and no PATH_CHALLENGE /
     PATH_RESPONSE.  `emit` takes the builder space as an input, so "the stream
     is eventually served with enough space" is a hypothesis — and it is FALSE
     in the current code in one situation (recorded finding
     C01-rebind-challenge-lost, found by the oracle of checks/c01.py): after a
     client address change seen on one datagram the server's current path is
     unvalidated; once its 3x budget is used up and the (never retransmitted)
     PATH_CHALLENGE is lost, `remaining_flight_space` stays below every frame
     header forever unless the client happens to send.  No quirk flag /
     counterexample theorem exists for it because the defect lives entirely in
     the part that is an input of this model; the check classifies such runs by
     the trigger predicate `rebind_starved`.
   These are exercised by the oracle of checks/c01.py (fair phase after the
   adversarial phase), not proved. -/

/-- see the comment above: one fair round strictly decreases the liveness
    measure, in both situations in which something is still undelivered and the
    missing item is pending at the sender -/
theorem c01_liveness_partial (id : Nat) (ops : List Op) (hw : WF (init id) ops)
    (hr : (run (init id) ops).ghost.reset = false) (hgone : (run (init id) ops).recvGone = false)
    (ov : Nat) (hov : frameOverhead (run (init id) ops).streamId (run (init id) ops).send = .ok ov)
    (space : Int) (hsp : (ov : Int) < space) (mo : Nat) :
    let s := run (init id) ops
    let s' := run (init id) (ops ++ [.emit space mo, .deliver s.wire.length])
    (∀ r rest, s.send.pending = r :: rest → r.start = s.recv.bufStart → r.start < mo →
        s'.ghost.written.length - s'.recv.bufStart < s.ghost.written.length - s.recv.bufStart) ∧
    (s.send.pending = [] → s.send.pendingEof = true → s.recv.bufStart = s.ghost.written.length →
        s.recv.finished = false → s.endEvents = 0 ∧ s'.endEvents = 1) := by
  intro s s'
  refine ⟨?_, ?_⟩
  · intro r rest hp hat hmo
    exact (c01_progress id ops hw hr hgone r rest hp hat ov hov space hsp mo hmo).2.2.2
  · intro hp he hall hnf
    refine ⟨?_, c01_fin_progress id ops hw hr hgone hp he hall hnf ov hov space (by omega) mo⟩
    have hg : Good s := good_reachable id ops hw
    have hle : s.endEvents ≤ 1 := hg.endi.ends_le
    have : s.endEvents ≠ 1 := fun h1 => by
      have := (hg.endi.ends_fin h1).1; rw [hnf] at this; cases this
    show s.endEvents = 0
    omega

/-- Fuel-bounded liveness of the one-stream model.  `WFH` is `WF` plus ACK
    honesty (a frame is reported ACKED only if the receiving endpoint processed
    it).  From ANY reachable state before a reset in which no frame is in flight
    unreported (`outstanding = []`: loss detection has declared every
    undelivered frame lost — the hypothesis that stays), a fair schedule of
    exactly `2 · (number of pending ranges)` steps — [serve the stream with room
    for the frame and flow-control credit up to the written length, deliver the
    frame just emitted], repeated — is admissible and ends in a state in which
    EVERY written byte has been delivered to the application, in order
    (`c01_prefix`), whatever was lost, duplicated or reordered before.
    (The end-of-stream event is `c01_fin_progress`.)  Still `_partial`: loss
    detection, builder space / credit and ACK honesty are hypotheses of the
    schedule, and the statement is about the model's schedule, not about the
    timers that produce it. -/
theorem c01_liveness_bounded_partial (id : Nat) (ops : List Op) (hw : WFH (init id) ops)
    (hr : (run (init id) ops).ghost.reset = false) (hgone : (run (init id) ops).recvGone = false)
    (hout : (run (init id) ops).ghost.outstanding = [])
    (hid : id < 2 ^ 62) (hlen : (run (init id) ops).ghost.written.length < 2 ^ 62) :
    ∃ sched : List Op,
      sched.length = 2 * (run (init id) ops).send.pending.length ∧
      WFH (init id) (ops ++ sched) ∧
      (run (init id) (ops ++ sched)).ghost.written = (run (init id) ops).ghost.written ∧
      (run (init id) (ops ++ sched)).deliveredBytes = (run (init id) ops).ghost.written := by
  have hf := fair_of_reachable id ops hw hr hgone hout hid hlen
  obtain ⟨w, f, p, g⟩ := fair_run _ hf rfl
  refine ⟨fairOps (run (init id) ops).send.pending.length (run (init id) ops), fairOps_length _ _,
    WFH_append _ _ _ hw w, ?_, ?_⟩
  · rw [StreamSys.run_append]; exact g
  · rw [StreamSys.run_append, fair_done f p, g]

/-! ## The behaviour before the fixes (quirk flags), by evaluation -/

/-- a FIN frame delivered twice -/
def dupFinOps : List Op := [.appWrite [1, 2] true, .emit 100 100, .deliver 0, .deliver 0]

/-- WITHOUT the `was_finished` rule (code before "fix: do not signal end of
    stream again for a retransmitted FIN") a duplicated FIN frame yields two
    end-of-stream events; with the current code one. -/
theorem c01_fin_once_counterexample :
    WF { quirkDupFin := true } dupFinOps ∧ (run { quirkDupFin := true } dupFinOps).endEvents = 2 ∧
    (run (init 0) dupFinOps).endEvents = 1 := by decide

/-- 6 bytes written, 4 of them sent in two frames, then `reset_stream`; the
    network delivers the second frame, the RESET_STREAM, then the first frame -/
def endAfterResetOps : List Op :=
  [.appWrite [1, 2, 3, 4, 5, 6] false, .emit 6 100, .emit 7 100, .appReset 7, .emitReset,
   .deliver 1, .deliverReset 0, .deliver 0]

/-- the code before fixes/C01-end-after-reset.diff (`event.data or not
    was_finished`) signals end-of-stream after 4 of 6 written bytes on a stream
    that never had a FIN; the current code delivers the 4 bytes without end marker. -/
theorem c01_fin_sound_counterexample :
    WF { quirkEndAfterReset := true } endAfterResetOps ∧
    (run { quirkEndAfterReset := true } endAfterResetOps).endEvents = 1 ∧
    (run { quirkEndAfterReset := true } endAfterResetOps).ghost.finWritten = false ∧
    (run { quirkEndAfterReset := true } endAfterResetOps).deliveredBytes = [1, 2, 3, 4] ∧
    (run (init 0) endAfterResetOps).endEvents = 0 ∧
    (run (init 0) endAfterResetOps).deliveredBytes = [1, 2, 3, 4] := by decide

/-- one byte sent, then FIN written, then the stream is served in a packet with
    no room for the frame header -/
def noRoomOps : List Op := [.appWrite [1] false, .emit 100 100, .appWrite [] true, .emit 0 100]

/-- the code before "fix: keep a FIN-only STREAM frame pending when the packet
    has no room" loses the FIN (not pending, on no frame of the wire): conservation
    fails; the current code keeps it pending. -/
theorem c01_conservation_counterexample :
    (run { quirkNoRoomGuard := true } noRoomOps).ghost.finWritten = true ∧
    (run { quirkNoRoomGuard := true } noRoomOps).send.pendingEof = false ∧
    (run { quirkNoRoomGuard := true } noRoomOps).wire.all (fun f => !f.fin) = true ∧
    (run (init 0) noRoomOps).send.pendingEof = true := by decide

/-! ## The hypotheses are satisfiable (tests, not theorems) -/

/-- 6 bytes + FIN in three frames; the network delivers the last first, the
    middle one twice, loses the first (declared lost, re-sent in two pieces);
    acknowledgements arrive out of order; the receiver's stream is discarded and
    a late duplicate is ignored. -/
def exOps : List Op :=
  [ .appWrite [1, 2, 3, 4] false, .emit 6 100, .emit 7 100, .appWrite [5, 6] true, .emit 100 100,
    .deliver 2, .deliver 1, .deliver 1, .ackFrame 2, .loseFrame 0, .emit 5 100, .emit 100 100,
    .deliver 4, .deliver 3, .ackFrame 1, .ackFrame 3, .ackFrame 4, .discardRecv, .deliver 0 ]

example : WF (init 0) exOps ∧ (run (init 0) exOps).deliveredBytes = [1, 2, 3, 4, 5, 6] ∧
    (run (init 0) exOps).endEvents = 1 ∧ (run (init 0) exOps).send.finished = true ∧
    (run (init 0) (exOps.take 13)).deliveredBytes = [] ∧
    (run (init 0) (exOps.take 14)).deliveredBytes = [1, 2, 3, 4, 5, 6] := by decide

/-- the premises of `c01_liveness_bounded_partial` hold after: 4 bytes in two
    frames, the second delivered and (honestly) acknowledged, the first lost and
    declared lost; the schedule has 2 steps and delivers everything -/
def fairEx : List Op :=
  [ .appWrite [1, 2, 3, 4] false, .emit 6 100, .emit 100 100, .deliver 1, .ackFrame 1, .loseFrame 0 ]

example : WFH (init 0) fairEx ∧ (run (init 0) fairEx).ghost.outstanding = [] ∧
    (run (init 0) fairEx).send.pending = [⟨0, 2⟩] ∧ (run (init 0) fairEx).deliveredBytes = [] ∧
    (run (init 0) (fairEx ++ fairOps 1 (run (init 0) fairEx))).deliveredBytes = [1, 2, 3, 4] := by decide

/-- the premises of `c01_progress` hold in the state after the loss -/
example : (run (init 0) (exOps.take 10)).send.pending = [⟨0, 2⟩] ∧
    (run (init 0) (exOps.take 10)).recv.bufStart = 0 ∧
    (frameOverhead 0 (run (init 0) (exOps.take 10)).send).toOption = some 4 := by decide

end AQ.Props.C01

#print axioms AQ.Props.C01.c01_prefix
#print axioms AQ.Props.C01.c01_fin_once
#print axioms AQ.Props.C01.c01_fin_sound
#print axioms AQ.Props.C01.c01_fin_sound_step
#print axioms AQ.Props.C01.c01_no_stream_error
#print axioms AQ.Props.C01.c01_conservation
#print axioms AQ.Props.C01.c01_progress
#print axioms AQ.Props.C01.c01_fin_progress
#print axioms AQ.Props.C01.c01_liveness_partial
#print axioms AQ.Props.C01.c01_liveness_bounded_partial
#print axioms AQ.Props.C01.c01_fin_once_counterexample
#print axioms AQ.Props.C01.c01_fin_sound_counterexample
#print axioms AQ.Props.C01.c01_conservation_counterexample
