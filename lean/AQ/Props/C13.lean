/-
  C13 — Datagram emission respects size, padding and anti-amplification rules.

  Models: AQ.Model.Builder (QuicPacketBuilder) and AQ.Model.Amplification
  (QuicNetworkPath ledger + the budgets of datagrams_to_send), following the
  code with fixes/C13-initial-padding.diff, fixes/C13-min-payload.diff,
  fixes/C13-close-amplification.diff and fixes/C08-ack-first.diff applied.

  Hypothesis of the builder theorems: the caller is `Disciplined` (see
  AQ/Proofs/Builder.lean).  checks/c13.py replays every builder call of real
  connections on the model and confirms `discB` (⇒ `Disciplined`, theorem
  `discB_sound`) on all of them.
-/
import AQ.Proofs.Builder
import AQ.Proofs.Amplification

namespace AQ.Props.C13
open AQ AQ.Builder AQ.Amp

/-- "No datagram handed out for sending is larger than the configured maximum
    datagram size." — every datagram of every flush() of every disciplined call
    sequence, for all configurations and budgets. -/
theorem datagram_le_max (c : Cfg) (pn : Nat) (ops : List Builder.Op)
    (hd : DisciplinedRun (St.init c pn) ops) :
    ∀ d ∈ allOut (Builder.run (St.init c pn) ops).1, d.size ≤ c.maxDatagramSize := by
  intro d hdm
  have ⟨hi, _, hc⟩ := run_inv (inv_init c pn) hd
  have := (hi.good d hdm).size_le
  rw [hc] at this
  exact this

/-- "Every datagram from a client that contains an Initial packet, and every
    datagram from a server that contains an ack-eliciting Initial packet, is at
    least 1200 bytes long." — whatever the congestion / amplification budgets:
    such a packet is not built when the datagram could not be padded. -/
theorem initial_padding (c : Cfg) (pn : Nat) (ops : List Builder.Op)
    (hd : DisciplinedRun (St.init c pn) ops) :
    ∀ d ∈ allOut (Builder.run (St.init c pn) ops).1,
      (∃ q ∈ d.pkts, q.ptype = .initial ∧ (c.isClient = true ∨ q.ackEliciting = true)) → 1200 ≤ d.size := by
  intro d hdm hex
  have ⟨hi, _, hc⟩ := run_inv (inv_init c pn) hd
  have := (hi.good d hdm).padded
  rw [hc] at this
  exact this hex

/-- the builder never raises anything but QuicPacketBuilderStop (no
    BufferWriteError / BufferReadError escapes `datagrams_to_send` from here) -/
theorem builder_raises_only_stop (c : Cfg) (pn : Nat) (ops : List Builder.Op)
    (hd : DisciplinedRun (St.init c pn) ops) : (Builder.run (St.init c pn) ops).2 = .ok :=
  (run_inv (inv_init c pn) hd).2.1

/-- one `datagrams_to_send` call on an unvalidated path: the datagrams it returns
    total at most `3 * bytes_received - bytes_sent` -/
theorem send_within_budget (c : Cfg) (pn : Nat) (ops : List Builder.Op) (m : Int) (hm : c.maxTotal = some m)
    (hd : DisciplinedRun (St.init c pn) ops) :
    sumSizes (allOut (Builder.run (St.init c pn) ops).1) ≤ max m 0 :=
  run_total_le hd m hm

/-- "Until a peer address has been validated, the total bytes sent to it never
    exceed three times the total bytes received from it, for the handshake address
    and for every address the peer later migrates to." — for every history of
    datagram arrivals (known / new addresses, accepted or dropped), validations,
    promotions and send calls (including CONNECTION_CLOSE), every path in the
    list satisfies the 3x rule while unvalidated. -/
theorem amplification (ops : List Amp.Op) (hd : SendsDisciplined {} ops) :
    ∀ p ∈ (Amp.run {} ops).paths, p.validated = false → p.bytesSent ≤ 3 * p.bytesReceived :=
  run_ok (by intro p hp; cases hp) hd

/-- `QuicNetworkPath.can_send` agrees with the ledger rule -/
theorem can_send_iff (p : Path) (size : Nat) :
    p.canSend size = true ↔ (p.validated = true ∨ p.bytesSent + size ≤ 3 * p.bytesReceived) := by
  simp [Path.canSend]

/-! non-vacuity: a client Initial with a CRYPTO frame is padded to a full datagram;
    with only 700 bytes of budget the same calls produce nothing. -/
def demoCfg (mt : Option Int) : Cfg :=
  { isClient := true, maxDatagramSize := 1200, peerCidLen := 8, hostCidLen := 8, tokenLen := 0, maxTotal := mt }
def demoOps : List Builder.Op := [.startPacket .initial, .startFrame 6 20, .pushBytes 100, .flush]

example : ((Builder.run (St.init (demoCfg none) 0) demoOps).1.out.map (·.size)) = [1200] := by decide
example : ((Builder.run (St.init (demoCfg (some 700)) 0)
    [.startPacket .initial, .startFrame 6 20, .flush]).1.out.map (·.size)) = [] := by decide
def demoCall : SendCall :=
  { isClient := false, maxDatagramSize := 1200, peerCidLen := 8, hostCidLen := 8, tokenLen := 0,
    packetNumber := 0, flight := none,
    ops := [.startPacket .handshake, .startFrame 6 20, .pushBytes 1100, .flush] }
example : (Amp.run {} [.rxFirst 1 1200, .send demoCall]).paths.map (·.bytesSent) = [1144] := by decide

end AQ.Props.C13

#print axioms AQ.Props.C13.datagram_le_max
#print axioms AQ.Props.C13.initial_padding
#print axioms AQ.Props.C13.builder_raises_only_stop
#print axioms AQ.Props.C13.send_within_budget
#print axioms AQ.Props.C13.amplification
#print axioms AQ.Props.C13.can_send_iff
