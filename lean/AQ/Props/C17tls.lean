import AQ.Proofs.TlsCodecMsg
/-
  C17 (TLS part) — "Encoding then decoding returns the original value for every
  ... TLS handshake message ...  Decoding arbitrary bytes either yields a value
  that re-encodes to an equivalent encoding or raises the documented parse error,
  never reading past the declared length of an enclosing field."

  Codec combinators of `AQ.Model.TlsCodec` (`uintBE n`, `opq n` = opaque<..>,
  `block n`, `list n`) with their laws, and the handshake messages of tls.py at
  framing level (extensions as (type, extension_data)); the model follows the
  code with fixes/C17-tls-extension-length.diff applied.
-/
namespace AQ.Props.C17tls
open AQ AQ.TlsCodec

/-! ### combinator laws -/

/-- fixed-width big-endian integers round-trip -/
theorem uintBE_roundtrip (n v : Nat) (r : Bytes) (h : v < 256 ^ n) :
    uintBE n (beEnc n v ++ r) = some (v, r) := uintBE_rt n v r h

/-- `opaque<0..2^(8n)-1>` vectors round-trip -/
theorem opaque_roundtrip (n : Nat) (b r : Bytes) (h : b.length < 256 ^ n) :
    opq n (opqEnc n b ++ r) = some (b, r) := opq_rt n b r h

/-- a length-delimited block round-trips when its content does -/
theorem block_roundtrip {α} (n : Nat) (d : Dec α) (e r : Bytes) (a : α) (h : e.length < 256 ^ n)
    (hd : d e = some (a, [])) : block n d (opqEnc n e ++ r) = some (a, r) := block_rt n d e r a h hd

/-- a list of items inside a block round-trips when the items do (items are never empty encodings) -/
theorem list_roundtrip {α} (n : Nat) (d : Dec α) (e : α → Bytes) (as : List α) (r : Bytes)
    (hit : ∀ a ∈ as, ∀ r, d (e a ++ r) = some (a, r)) (hne : ∀ a ∈ as, e a ≠ [])
    (hlen : (as.flatMap e).length < 256 ^ n) : list n d (listEnc n e as ++ r) = some (as, r) :=
  list_rt n d e as r hit hne hlen

/-- "never reading past the declared length of an enclosing field": the decoder
    inside a block is applied to the declared bytes only and must end exactly at
    the declared end; the bytes after the block cannot influence the value -/
theorem block_never_reads_past {α} (n : Nat) (d : Dec α) (inner r r' : Bytes) (h : inner.length < 256 ^ n) :
    (block n d (opqEnc n inner ++ r) =
      match d inner with
      | some (a, []) => some (a, r)
      | _ => none) ∧
    (block n d (opqEnc n inner ++ r)).map (·.1) = (block n d (opqEnc n inner ++ r')).map (·.1) :=
  ⟨block_bounded n d inner r h, block_indep n d inner r r' h⟩

/-- a successful block decode used exactly its declared length -/
theorem block_uses_declared_length {α} (n : Nat) (d : Dec α) (bs rest : Bytes) (a : α)
    (h : block n d bs = some (a, rest)) :
    ∃ inner, bs = opqEnc n inner ++ rest ∧ inner.length < 256 ^ n ∧ d inner = some (a, []) := by
  rcases block_exact n d bs rest a h with ⟨inner, ho, hd⟩
  rcases opq_canon n bs inner rest ho with ⟨h1, h2⟩
  exact ⟨inner, h1, h2, hd⟩

/-- canonical encoding: bytes that decode are exactly the encoding of the value ("re-encodes to an equivalent encoding") -/
theorem uintBE_canonical (n : Nat) (bs r : Bytes) (v : Nat) (h : uintBE n bs = some (v, r)) :
    bs = beEnc n v ++ r := (uintBE_canon n bs r v h).1

theorem opaque_canonical (n : Nat) (bs b r : Bytes) (h : opq n bs = some (b, r)) :
    bs = opqEnc n b ++ r := (opq_canon n bs b r h).1

/-! ### messages -/

theorem opq_rt0 (n : Nat) (b : Bytes) (h : b.length < 256 ^ n) : opq n (opqEnc n b) = some (b, []) := by
  have := opq_rt n b [] h; rwa [List.append_nil] at this

def Finished.valid (m : Finished) : Prop := m.verifyData.length < 256 ^ 3

/-- Finished round-trips -/
theorem finished_roundtrip (m : Finished) (r : Bytes) (h : Finished.valid m) :
    Finished.dec (m.enc ++ r) = some (m, r) := by
  unfold Finished.enc
  simp only [List.cons_append, Finished.dec, opq_rt 3 m.verifyData r h, Option.map_some]

/-- ... and is canonical -/
theorem finished_canonical (bs r : Bytes) (m : Finished) (h : Finished.dec bs = some (m, r)) :
    bs = m.enc ++ r := by
  unfold Finished.dec at h
  split at h
  · rename_i rest
    cases ho : opq 3 rest with
    | none => simp [ho] at h
    | some p =>
      simp only [ho, Option.map_some, Option.some.injEq, Prod.mk.injEq] at h
      rcases opq_canon 3 rest p.1 p.2 (by simpa using ho) with ⟨h1, _⟩
      rw [← h.1, ← h.2]; simp [Finished.enc, h1]
  · simp at h

def CertificateVerify.valid (m : CertificateVerify) : Prop :=
  m.algorithm < 256 ^ 2 ∧ m.signature.length < 256 ^ 2

theorem cv_body_rt (m : CertificateVerify) (r : Bytes) (h : CertificateVerify.valid m) :
    CertificateVerify.decBody (m.body ++ r) = some (m, r) := by
  unfold CertificateVerify.decBody CertificateVerify.body
  rw [List.append_assoc, uintBE_rt 2 _ _ h.1]
  simp only [opq_rt 2 m.signature r h.2]

theorem cv_body_len (m : CertificateVerify) (h : CertificateVerify.valid m) : m.body.length < 256 ^ 3 := by
  unfold CertificateVerify.body opqEnc
  simp only [List.length_append, beEnc_length]
  have := h.2
  omega

/-- CertificateVerify round-trips -/
theorem certificate_verify_roundtrip (m : CertificateVerify) (r : Bytes) (h : CertificateVerify.valid m) :
    CertificateVerify.dec (m.enc ++ r) = some (m, r) := by
  unfold CertificateVerify.enc
  simp only [List.cons_append, CertificateVerify.dec]
  apply block_rt 3 _ _ r m (cv_body_len m h)
  have := cv_body_rt m [] h
  rwa [List.append_nil] at this

theorem cv_body_canon (i t : Bytes) (x : CertificateVerify) (h : CertificateVerify.decBody i = some (x, t)) :
    i = x.body ++ t := by
  unfold CertificateVerify.decBody at h
  cases hu : uintBE 2 i with
  | none => simp [hu] at h
  | some p =>
    rcases p with ⟨a, r1⟩
    simp only [hu] at h
    cases ho : opq 2 r1 with
    | none => simp [ho] at h
    | some q =>
      rcases q with ⟨s, r2⟩
      simp only [ho, Option.some.injEq, Prod.mk.injEq] at h
      rw [(uintBE_canon 2 i r1 a hu).1, (opq_canon 2 r1 s r2 ho).1, ← h.1, ← h.2]
      simp [CertificateVerify.body]

/-- ... and is canonical -/
theorem certificate_verify_canonical (bs r : Bytes) (m : CertificateVerify)
    (h : CertificateVerify.dec bs = some (m, r)) : bs = m.enc ++ r := by
  unfold CertificateVerify.dec at h
  split at h
  · rename_i rest
    have := block_canon 3 CertificateVerify.decBody CertificateVerify.body rest r m (fun i x t => cv_body_canon i t x) h
    simp [CertificateVerify.enc, this]
  · simp at h

def CertEntry.valid (e : CertEntry) : Prop := e.cert.length < 256 ^ 3 ∧ e.exts.length < 256 ^ 2

theorem certEntry_rt (e : CertEntry) (r : Bytes) (h : CertEntry.valid e) : CertEntry.dec (e.enc ++ r) = some (e, r) := by
  unfold CertEntry.dec CertEntry.enc
  rw [List.append_assoc, opq_rt 3 _ _ h.1]
  simp only [opq_rt 2 e.exts r h.2]

theorem certEntry_ne (e : CertEntry) : e.enc ≠ [] := by
  unfold CertEntry.enc opqEnc
  intro h
  have := congrArg List.length h
  simp [beEnc_length] at this

def Certificate.valid (m : Certificate) : Prop :=
  m.context.length < 256 ∧ (∀ e ∈ m.entries, CertEntry.valid e) ∧
    (m.entries.flatMap CertEntry.enc).length < 256 ^ 3 ∧ m.body.length < 256 ^ 3

/-- Certificate round-trips -/
theorem certificate_roundtrip (m : Certificate) (r : Bytes) (h : Certificate.valid m) :
    Certificate.dec (m.enc ++ r) = some (m, r) := by
  rcases h with ⟨h1, h2, h3, h4⟩
  unfold Certificate.enc
  simp only [List.cons_append, Certificate.dec]
  apply block_rt 3 _ _ r m h4
  unfold Certificate.decBody Certificate.body
  rw [opq_rt 1 m.context _ (by simpa using h1)]
  have hl := list_rt 3 CertEntry.dec CertEntry.enc m.entries []
    (fun e he r => certEntry_rt e r (h2 e he)) (fun e _ => certEntry_ne e) h3
  rw [List.append_nil] at hl
  simp only [hl]

theorem ext_rt (x : Ext) (r : Bytes) (h : Ext.valid x) : extDec (extEnc x ++ r) = some (x, r) := by
  unfold extDec extEnc
  rw [List.append_assoc, uintBE_rt 2 _ _ h.1]
  simp only [opq_rt 2 x.data r h.2]

theorem ext_ne (x : Ext) : extEnc x ≠ [] := by
  unfold extEnc
  intro h
  have := congrArg List.length h
  simp [beEnc_length] at this

def extsValid (xs : List Ext) : Prop :=
  (∀ x ∈ xs, Ext.valid x) ∧ (xs.flatMap extEnc).length < 256 ^ 2

theorem exts_rt (xs : List Ext) (r : Bytes) (h : extsValid xs) :
    list 2 extDec (listEnc 2 extEnc xs ++ r) = some (xs, r) :=
  list_rt 2 extDec extEnc xs r (fun x hx r => ext_rt x r (h.1 x hx)) (fun x _ => ext_ne x) h.2

/-- EncryptedExtensions round-trips (any extensions, each inside its declared length) -/
theorem encrypted_extensions_roundtrip (m : EncryptedExtensions) (r : Bytes) (h : extsValid m.exts)
    (hl : m.body.length < 256 ^ 3) :
    EncryptedExtensions.dec (m.enc ++ r) = some (m, r) := by
  unfold EncryptedExtensions.enc
  simp only [List.cons_append, EncryptedExtensions.dec]
  apply block_rt 3 _ _ r m hl
  have := exts_rt m.exts [] h
  rw [List.append_nil] at this
  simp [EncryptedExtensions.decBody, EncryptedExtensions.body, this]

def ServerHello.valid (m : ServerHello) : Prop :=
  m.random.length = 32 ∧ m.sessionId.length < 256 ∧ m.cipherSuite < 256 ^ 2 ∧ m.compression < 256 ∧
    extsValid m.exts ∧ m.body.length < 256 ^ 3

/-- ServerHello round-trips -/
theorem server_hello_roundtrip (m : ServerHello) (r : Bytes) (h : ServerHello.valid m) :
    ServerHello.dec (m.enc ++ r) = some (m, r) := by
  rcases h with ⟨h1, h2, h3, h4, h5, h6⟩
  unfold ServerHello.enc
  simp only [List.cons_append, ServerHello.dec]
  apply block_rt 3 _ _ r m h6
  unfold ServerHello.decBody ServerHello.body
  simp only [List.append_assoc]
  rw [uintBE_rt 2 0x0303 _ (by decide)]
  simp only [ne_eq, not_true_eq_false, ↓reduceIte]
  rw [bytesN_rt 32 m.random _ h1]
  simp only []
  rw [opq_rt 1 m.sessionId _ (by simpa using h2)]
  simp only []
  rw [uintBE_rt 2 m.cipherSuite _ h3]
  simp only []
  rw [uintBE_rt 1 m.compression _ (by simpa using h4)]
  simp only []
  have := exts_rt m.exts [] h5
  rw [List.append_nil] at this
  simp only [this]

theorem u16_ne (v : Nat) : beEnc 2 v ≠ [] := by
  intro h; have := congrArg List.length h; simp [beEnc_length] at this
theorem u8_ne (v : Nat) : beEnc 1 v ≠ [] := by
  intro h; have := congrArg List.length h; simp [beEnc_length] at this

def ClientHello.valid (m : ClientHello) : Prop :=
  m.random.length = 32 ∧ m.sessionId.length < 256 ∧
    (∀ c ∈ m.cipherSuites, c < 256 ^ 2) ∧ (m.cipherSuites.flatMap (beEnc 2)).length < 256 ^ 2 ∧
    (∀ c ∈ m.compression, c < 256) ∧ (m.compression.flatMap (beEnc 1)).length < 256 ∧
    extsValid m.exts ∧ m.body.length < 256 ^ 3

/-- ClientHello round-trips -/
theorem client_hello_roundtrip (m : ClientHello) (r : Bytes) (h : ClientHello.valid m) :
    ClientHello.dec (m.enc ++ r) = some (m, r) := by
  rcases h with ⟨h1, h2, h3, h4, h5, h6, h7, h8⟩
  unfold ClientHello.enc
  simp only [List.cons_append, ClientHello.dec]
  apply block_rt 3 _ _ r m h8
  unfold ClientHello.decBody ClientHello.body
  simp only [List.append_assoc]
  rw [uintBE_rt 2 0x0303 _ (by decide)]
  simp only [ne_eq, not_true_eq_false, ↓reduceIte]
  rw [bytesN_rt 32 m.random _ h1]
  simp only []
  rw [opq_rt 1 m.sessionId _ (by simpa using h2)]
  simp only []
  rw [list_rt 2 (uintBE 2) (beEnc 2) m.cipherSuites _ (fun c hc r => uintBE_rt 2 c r (h3 c hc)) (fun c _ => u16_ne c) h4]
  simp only []
  rw [list_rt 1 (uintBE 1) (beEnc 1) m.compression _ (fun c hc r => uintBE_rt 1 c r (by simpa using h5 c hc))
    (fun c _ => u8_ne c) (by simpa using h6)]
  simp only []
  have := exts_rt m.exts [] h7
  rw [List.append_nil] at this
  simp only [this]

def NewSessionTicket.valid (m : NewSessionTicket) : Prop :=
  m.lifetime < 256 ^ 4 ∧ m.ageAdd < 256 ^ 4 ∧ m.nonce.length < 256 ∧ m.ticket.length < 256 ^ 2 ∧
    extsValid m.exts ∧ m.body.length < 256 ^ 3

/-- NewSessionTicket round-trips -/
theorem new_session_ticket_roundtrip (m : NewSessionTicket) (r : Bytes) (h : NewSessionTicket.valid m) :
    NewSessionTicket.dec (m.enc ++ r) = some (m, r) := by
  rcases h with ⟨h1, h2, h3, h4, h5, h6⟩
  unfold NewSessionTicket.enc
  simp only [List.cons_append, NewSessionTicket.dec]
  apply block_rt 3 _ _ r m h6
  unfold NewSessionTicket.decBody NewSessionTicket.body
  simp only [List.append_assoc]
  rw [uintBE_rt 4 m.lifetime _ h1]
  simp only []
  rw [uintBE_rt 4 m.ageAdd _ h2]
  simp only []
  rw [opq_rt 1 m.nonce _ (by simpa using h3)]
  simp only []
  rw [opq_rt 2 m.ticket _ h4]
  simp only []
  have := exts_rt m.exts [] h5
  rw [List.append_nil] at this
  simp only [this]

def CertificateRequest.valid (m : CertificateRequest) : Prop :=
  m.context.length < 256 ∧ extsValid m.exts ∧ m.body.length < 256 ^ 3

/-- CertificateRequest round-trips -/
theorem certificate_request_roundtrip (m : CertificateRequest) (r : Bytes) (h : CertificateRequest.valid m) :
    CertificateRequest.dec (m.enc ++ r) = some (m, r) := by
  rcases h with ⟨h1, h2, h3⟩
  unfold CertificateRequest.enc
  simp only [List.cons_append, CertificateRequest.dec]
  apply block_rt 3 _ _ r m h3
  unfold CertificateRequest.decBody CertificateRequest.body
  rw [opq_rt 1 m.context _ (by simpa using h1)]
  have := exts_rt m.exts [] h2
  rw [List.append_nil] at this
  simp only [this]

/-! ### decode then re-encode (canonicity) for every message

At the framing level modelled here (fixed-width big-endian lengths, extensions
kept as an ORDERED list of (type, extension_data)), the TLS encoding is
canonical: a byte string that decodes is EXACTLY the encoding of the decoded
value, so it re-encodes to itself and decodes to the same value again.  No
non-canonical input is accepted at this level.

What tls.py's dataclasses do NOT preserve (so `push_X(pull_X(b))` may differ
from `b` while being an equivalent message; checked by checks/c17_tls.py with
`norm` / `lenient`): the ORDER of the extensions tls.py understands (they are
re-emitted in a fixed order, unknown ones after them in their original order),
duplicated extensions (the last one wins), ALPN names that are not ASCII
(skipped), and all but the first ALPN name of EncryptedExtensions. -/

theorem certificate_canonical (bs r : Bytes) (m : Certificate) (h : Certificate.dec bs = some (m, r)) :
    bs = m.enc ++ r := by
  rw [cert_dec_eq] at h; exact msgDec_canon 11 _ Certificate.body cert_body_canon bs r m h

theorem encrypted_extensions_canonical (bs r : Bytes) (m : EncryptedExtensions)
    (h : EncryptedExtensions.dec bs = some (m, r)) : bs = m.enc ++ r := by
  rw [ee_dec_eq] at h; exact msgDec_canon 8 _ EncryptedExtensions.body ee_body_canon bs r m h

theorem server_hello_canonical (bs r : Bytes) (m : ServerHello) (h : ServerHello.dec bs = some (m, r)) :
    bs = m.enc ++ r := by
  rw [sh_dec_eq] at h; exact msgDec_canon 2 _ ServerHello.body sh_body_canon bs r m h

theorem client_hello_canonical (bs r : Bytes) (m : ClientHello) (h : ClientHello.dec bs = some (m, r)) :
    bs = m.enc ++ r := by
  rw [ch_dec_eq] at h; exact msgDec_canon 1 _ ClientHello.body ch_body_canon bs r m h

theorem new_session_ticket_canonical (bs r : Bytes) (m : NewSessionTicket)
    (h : NewSessionTicket.dec bs = some (m, r)) : bs = m.enc ++ r := by
  rw [nst_dec_eq] at h; exact msgDec_canon 4 _ NewSessionTicket.body nst_body_canon bs r m h

theorem certificate_request_canonical (bs r : Bytes) (m : CertificateRequest)
    (h : CertificateRequest.dec bs = some (m, r)) : bs = m.enc ++ r := by
  rw [cr_dec_eq] at h; exact msgDec_canon 13 _ CertificateRequest.body cr_body_canon bs r m h

/-- "Decoding arbitrary bytes ... yields a value that re-encodes to an equivalent
    encoding": for all eight messages, whatever decodes re-encodes to bytes that
    decode to the same value (here even to the same bytes) -/
theorem reencode_decodes_same :
    (∀ bs r m, Finished.dec bs = some (m, r) → Finished.dec (m.enc ++ r) = some (m, r)) ∧
    (∀ bs r m, CertificateVerify.dec bs = some (m, r) → CertificateVerify.dec (m.enc ++ r) = some (m, r)) ∧
    (∀ bs r m, Certificate.dec bs = some (m, r) → Certificate.dec (m.enc ++ r) = some (m, r)) ∧
    (∀ bs r m, EncryptedExtensions.dec bs = some (m, r) → EncryptedExtensions.dec (m.enc ++ r) = some (m, r)) ∧
    (∀ bs r m, ServerHello.dec bs = some (m, r) → ServerHello.dec (m.enc ++ r) = some (m, r)) ∧
    (∀ bs r m, ClientHello.dec bs = some (m, r) → ClientHello.dec (m.enc ++ r) = some (m, r)) ∧
    (∀ bs r m, NewSessionTicket.dec bs = some (m, r) → NewSessionTicket.dec (m.enc ++ r) = some (m, r)) ∧
    (∀ bs r m, CertificateRequest.dec bs = some (m, r) → CertificateRequest.dec (m.enc ++ r) = some (m, r)) := by
  refine ⟨?_, ?_, ?_, ?_, ?_, ?_, ?_, ?_⟩ <;> intro bs r m h
  · rw [← finished_canonical bs r m h]; exact h
  · rw [← certificate_verify_canonical bs r m h]; exact h
  · rw [← certificate_canonical bs r m h]; exact h
  · rw [← encrypted_extensions_canonical bs r m h]; exact h
  · rw [← server_hello_canonical bs r m h]; exact h
  · rw [← client_hello_canonical bs r m h]; exact h
  · rw [← new_session_ticket_canonical bs r m h]; exact h
  · rw [← certificate_request_canonical bs r m h]; exact h

/-- re-emitting the extensions in another order (what tls.py does for the ones
    it understands) yields an encoding that decodes to the same message up to that
    permutation -/
theorem reordered_extensions_roundtrip (m : EncryptedExtensions) (xs : List Ext) (r : Bytes)
    (hp : xs.Perm m.exts) (h : extsValid m.exts) (hl : m.body.length < 256 ^ 3) :
    EncryptedExtensions.dec ((⟨xs⟩ : EncryptedExtensions).enc ++ r) = some (⟨xs⟩, r) := by
  have hlen : (xs.flatMap extEnc).length = (m.exts.flatMap extEnc).length := (hp.flatMap_right extEnc).length_eq
  apply encrypted_extensions_roundtrip
  · exact ⟨fun x hx => h.1 x (hp.subset hx), by rw [hlen]; exact h.2⟩
  · simp only [EncryptedExtensions.body, listEnc, opqEnc, List.length_append, beEnc_length] at hl ⊢
    rw [hlen]; exact hl

/-! ### boundedness at message level -/

/-- "never reading past the declared length of an enclosing field", for whole
    messages: the result of every message parser is determined by the bytes inside
    the declared 24-bit length; the bytes after it are returned untouched and
    cannot influence the value -/
theorem message_bounded (inner r r' : Bytes) (h : inner.length < 256 ^ 3) :
    (CertificateVerify.dec (15 :: opqEnc 3 inner ++ r)).map (·.1) = (CertificateVerify.dec (15 :: opqEnc 3 inner ++ r')).map (·.1) ∧
    (Certificate.dec (11 :: opqEnc 3 inner ++ r)).map (·.1) = (Certificate.dec (11 :: opqEnc 3 inner ++ r')).map (·.1) ∧
    (EncryptedExtensions.dec (8 :: opqEnc 3 inner ++ r)).map (·.1) = (EncryptedExtensions.dec (8 :: opqEnc 3 inner ++ r')).map (·.1) ∧
    (ServerHello.dec (2 :: opqEnc 3 inner ++ r)).map (·.1) = (ServerHello.dec (2 :: opqEnc 3 inner ++ r')).map (·.1) ∧
    (ClientHello.dec (1 :: opqEnc 3 inner ++ r)).map (·.1) = (ClientHello.dec (1 :: opqEnc 3 inner ++ r')).map (·.1) ∧
    (NewSessionTicket.dec (4 :: opqEnc 3 inner ++ r)).map (·.1) = (NewSessionTicket.dec (4 :: opqEnc 3 inner ++ r')).map (·.1) ∧
    (CertificateRequest.dec (13 :: opqEnc 3 inner ++ r)).map (·.1) = (CertificateRequest.dec (13 :: opqEnc 3 inner ++ r')).map (·.1) ∧
    (Finished.dec (20 :: opqEnc 3 inner ++ r)).map (·.1) = (Finished.dec (20 :: opqEnc 3 inner ++ r')).map (·.1) := by
  refine ⟨?_, ?_, ?_, ?_, ?_, ?_, ?_, ?_⟩
  · rw [cv_dec_eq, cv_dec_eq]; exact (msgDec_bounded 15 _ inner r r' h).2
  · rw [cert_dec_eq, cert_dec_eq]; exact (msgDec_bounded 11 _ inner r r' h).2
  · rw [ee_dec_eq, ee_dec_eq]; exact (msgDec_bounded 8 _ inner r r' h).2
  · rw [sh_dec_eq, sh_dec_eq]; exact (msgDec_bounded 2 _ inner r r' h).2
  · rw [ch_dec_eq, ch_dec_eq]; exact (msgDec_bounded 1 _ inner r r' h).2
  · rw [nst_dec_eq, nst_dec_eq]; exact (msgDec_bounded 4 _ inner r r' h).2
  · rw [cr_dec_eq, cr_dec_eq]; exact (msgDec_bounded 13 _ inner r r' h).2
  · simp only [List.cons_append, Finished.dec, opq_rt 3 inner _ h, Option.map_some]

/-! ### the hypotheses are satisfiable -/

example : Finished.dec ((⟨[1, 2, 3]⟩ : Finished).enc ++ [9]) = some (⟨[1, 2, 3]⟩, [9]) := by decide
example : CertificateVerify.dec ((⟨0x0804, [7, 7]⟩ : CertificateVerify).enc) = some (⟨0x0804, [7, 7]⟩, []) := by decide
/-- an extension whose declared length is shorter than its body is refused (the defect fixed by
    fixes/C17-tls-extension-length.diff: tls.py parsed `supported_versions` with length 0 identically) -/
example : EncryptedExtensions.dec [8, 0, 0, 8, 0, 6, 0, 43, 0, 0, 3, 4] = none := by decide
example : EncryptedExtensions.dec [8, 0, 0, 8, 0, 6, 0, 43, 0, 2, 3, 4] = some (⟨[⟨43, [3, 4]⟩]⟩, []) := by decide

end AQ.Props.C17tls

#print axioms AQ.Props.C17tls.block_never_reads_past
#print axioms AQ.Props.C17tls.list_roundtrip
#print axioms AQ.Props.C17tls.finished_roundtrip
#print axioms AQ.Props.C17tls.certificate_verify_canonical
#print axioms AQ.Props.C17tls.certificate_roundtrip
#print axioms AQ.Props.C17tls.server_hello_roundtrip
#print axioms AQ.Props.C17tls.client_hello_roundtrip
#print axioms AQ.Props.C17tls.reencode_decodes_same
#print axioms AQ.Props.C17tls.message_bounded
#print axioms AQ.Props.C17tls.new_session_ticket_roundtrip
#print axioms AQ.Props.C17tls.certificate_request_roundtrip
