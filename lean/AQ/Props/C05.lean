/-
  C05 — "Network input can never make the QUIC/TLS API raise" (QUIC part).

  Model: AQ.Model.RecvPath (datagram → packet → frame dispatch, the other four
  public calls) over the tables GENERATED from connection.py / packet.py
  (AQ.Gen.RecvTables, tools/extract_recv.py); per-handler byte-level models:
  AQ.Model.RecvFrames (theorems in AQ.Props.C05Frames).

  The TLS message layer (`tls.Context.handle_message`) is a parameter: it is
  assumed to produce ok / `tls.Alert` / `BufferReadError` / a
  `QuicConnectionError` raised by one of the connection's own callbacks
  (`_alpn_handler`, `_handle_session_ticket`) — see `FrameOk`.
-/
import AQ.Proofs.RecvPath

namespace AQ.C05
open AQ AQ.Recv AQ.Gen.Recv

/-! ## The tables extracted from the source -/

/-- RFC 9000 §12.4 Table 3 ("Pkts" column: I = Initial, H = Handshake, 0 = 0-RTT,
    1 = 1-RTT) and RFC 9221 §4 (DATAGRAM: 0-RTT and 1-RTT) -/
def rfcEpochs (t : Nat) : Option (List Epoch) :=
  let IH01 := [Epoch.initial, .handshake, .zeroRtt, .oneRtt]
  let IH_1 := [Epoch.initial, .handshake, .oneRtt]
  let __01 := [Epoch.zeroRtt, .oneRtt]
  let ___1 := [Epoch.oneRtt]
  if t = 0x00 ∨ t = 0x01 then some IH01                 -- PADDING, PING
  else if t = 0x02 ∨ t = 0x03 then some IH_1            -- ACK
  else if t = 0x04 ∨ t = 0x05 then some __01            -- RESET_STREAM, STOP_SENDING
  else if t = 0x06 then some IH_1                       -- CRYPTO
  else if t = 0x07 then some ___1                       -- NEW_TOKEN
  else if 0x08 ≤ t ∧ t ≤ 0x0F then some __01            -- STREAM
  else if 0x10 ≤ t ∧ t ≤ 0x1A then some __01            -- MAX_* … PATH_CHALLENGE
  else if t = 0x1B then some ___1                       -- PATH_RESPONSE
  else if t = 0x1C then some IH01                       -- CONNECTION_CLOSE (transport)
  else if t = 0x1D then some __01                       -- CONNECTION_CLOSE (application)
  else if t = 0x1E then some ___1                       -- HANDSHAKE_DONE
  else if t = 0x30 ∨ t = 0x31 then some __01            -- DATAGRAM
  else none

/-- the one place where the extracted table is more permissive than the RFC:
    PATH_RESPONSE is accepted in 0-RTT packets (finding C05-path-response-0rtt;
    fixes/C05-path-response-epoch.diff removes it; the check holds either way) -/
def knownDeviation (t : Nat) (e : Epoch) : Bool := t == 0x1B && e == .zeroRtt

def rowOk (row : Nat × String × List Epoch) : Bool :=
  match rfcEpochs row.1 with
  | none => false
  | some allowed => row.2.2.all (fun e => allowed.contains e || knownDeviation row.1 e)

/-- the classes an `except` site is expected to catch, and what it does with them -/
def siteOk (fn g : String) (expected : List (String × Action)) : Bool :=
  ancestors.all (fun (cls, _) =>
    catchCls fn g cls == (expected.lookup cls))

/-- `BufferReadError`'s subclasses / superclass relations used above -/
def hierarchyOk : Bool :=
  isInstance "BufferReadError" "ValueError" && isInstance "KeyUnavailableError" "CryptoError" &&
  ! isInstance "QuicConnectionError" "ValueError" && ! isInstance "StreamFinishedError" "ValueError" &&
  ! isInstance "AssertionError" "ValueError" && ! isInstance "Alert" "ValueError"

def tablesOk : Bool :=
  -- frame handler table: every entry within RFC 9000 Table 3, every RFC frame type has a handler
  handlerTable.all rowOk &&
  ((List.range 0x1F) ++ [0x30, 0x31]).all (fun t => (handlerTable.lookup t).isSome) &&
  (handlerTable.map (·.1)).all (fun t => t < 0x1F || t == 0x30 || t == 0x31) &&
  -- flags
  nonAckEliciting == [0x00, 0x02, 0x03, 0x1C, 0x1D] && probing == [0x00, 0x18, 0x1A, 0x1B] &&
  endStates == ["CLOSING", "DRAINING", "TERMINATED"] &&
  hierarchyOk &&
  -- except clauses: exactly the classes the theorems assume, nothing else is swallowed
  siteOk "_payload_received" "pull_uint_var" [("BufferReadError", .raiseConn 7)] &&
  siteOk "_payload_received" "[frame_handlers]" [("KeyError", .raiseConn 7)] &&
  siteOk "_payload_received" "frame_handler"
    [("BufferReadError", .raiseConn 7), ("StreamFinishedError", .pass)] &&
  siteOk "receive_datagram" "pull_quic_header"
    [("ValueError", .ret), ("BufferReadError", .ret), ("BufferWriteError", .ret), ("CryptoError", .ret),
     ("KeyUnavailableError", .ret), ("UnicodeDecodeError", .ret)] &&
  siteOk "receive_datagram" "decrypt_packet" [("KeyUnavailableError", .cont), ("CryptoError", .cont)] &&
  siteOk "receive_datagram" "_payload_received" [("QuicConnectionError", .close)] &&
  siteOk "_handle_crypto_frame" "handle_message" [("Alert", .raiseConn 0x100)] &&
  siteOk "next_event" "popleft" [("IndexError", .ret)] &&
  -- `change_connection_id()` is called from the migration block without a try: it must not raise
  changeCidRaises == [] &&
  -- close path of `datagrams_to_send`: `start_packet` is inside the try that catches the builder stop
  closeStartPacketGuarded &&
  -- `_alpn_handler`: `_cryptos_initial[version]` only for versions of configuration.supported_versions
  alpnLookupGuarded &&
  siteOk "datagrams_to_send" "_write_application" [("QuicPacketBuilderStop", .pass)] &&
  siteOk "datagrams_to_send" "_write_handshake" [("QuicPacketBuilderStop", .pass)] &&
  siteOk "datagrams_to_send" "_write_connection_close_frame" [("QuicPacketBuilderStop", .pass)]

/-- "frame dispatch converting parse errors into FRAME_ENCODING_ERROR and protocol
    errors into close()": the handler table, the ack-eliciting / probing sets, END_STATES
    and every `except` clause of the receive path, as extracted from the current source,
    are the ones the theorems below are stated over; every table entry's epochs lie
    within RFC 9000 §12.4 Table 3 (up to `knownDeviation`). -/
theorem tables_ok : tablesOk = true := by decide

/-! ## `receive_datagram` -/

/-- payload of an authenticated packet: frames whose type pull fails only with
    `BufferReadError` and whose handler outcome is ok, `BufferReadError`,
    `StreamFinishedError` or `QuicConnectionError` (`FrameOk`) -/
abbrev Frames := { fs : List FrameIn // ∀ f ∈ fs, FrameOk f }

def runPayload (s : St) (ep : Epoch) (cr : Bool) (p : Frames) : St × Outcome (Bool × Bool) :=
  runFrames s ep cr p.1

theorem runPayload_ok : PayloadOk runPayload := by
  intro s ep cr p hi hin hst
  exact runFrames_ok s ep cr p.1 p.2 hi hin hst

/-- "For every byte string handed to a connection as a received datagram, in every
    connection state, including correctly protected packets carrying arbitrary frames …
    the call returns normally: the input is ignored, or the connection closes itself with
    an error code."

    For every connection state satisfying `ConnInv`, every list of coalesced packets whose
    header parse raises at most `ValueError`/`BufferReadError` (`HdrOk`, discharged for the
    byte-level parser by `C05Frames.pullQuicHeader_errors`), every decrypt-oracle answer
    (key unavailable / authentication failure / authenticated with ANY list of frames of
    ANY type whose handlers produce handled outcomes): `receive_datagram` returns with
    outcome class ignored / processed / closed-with-code, never an escaping exception,
    and `ConnInv` holds afterwards.  Steps of the loop body that call out of the receive path:
    the payload processor (`runPayload`, handled outcomes by `FrameOk`) and the migration block's
    `change_connection_id()` (`migrationStep`, `change_connection_id_total`; its exception set is
    extracted from the source: `tables_ok` requires `changeCidRaises = []`). -/
theorem recv_total (small : Bool) (pkts : List (Pkt Frames)) (s : St)
    (hpk : ∀ p ∈ pkts, HdrOk p) (hi : ConnInv s) :
    ConnInv (receiveDatagram runPayload small pkts s).1 ∧
    ((receiveDatagram runPayload small pkts s).2 = .ignored ∨
     (receiveDatagram runPayload small pkts s).2 = .processed ∨
     ∃ code, (receiveDatagram runPayload small pkts s).2 = .closed code) := by
  obtain ⟨h1, h2⟩ := receiveDatagram_ok runPayload runPayload_ok small pkts s hpk hi
  refine ⟨h1, ?_⟩
  cases h : (receiveDatagram runPayload small pkts s).2 with
  | ignored => simp
  | processed => simp
  | closed c => simp
  | raised cls => exact absurd h (h2 cls)

/-- "in every connection state": the migration block of `receive_datagram` (a server that
    receives a 1-RTT packet addressed to another of its connection IDs) calls the application API
    `change_connection_id()` outside any `try`.  Whatever the number of spare peer connection IDs —
    none (the peer withheld NEW_CONNECTION_ID), one, several, all consumed — the call returns
    normally and at most consumes one spare.  `recv_total` uses this step for every packet that
    reaches the end of the loop body (`finishPacket`). -/
theorem change_connection_id_total (s : St) (migrate : Bool) :
    migrationStep s migrate = .ok s ∨
    migrationStep s migrate = .ok { s with peerCidAvailable := s.peerCidAvailable - 1 } := by
  unfold migrationStep
  split
  · exact changeConnectionId_total s
  · exact Or.inl rfl

/-- "arbitrary TLS handshake messages" × every configuration: the compatible-version selection of
    `_alpn_handler` never looks up `_cryptos_initial` with a version the server is not configured
    for — for EVERY `supported_versions` list, current version and `available_versions` list of the
    peer's version_information (unknown, duplicate, unsupported versions included). -/
theorem alpn_version_selection_total (supported : List Nat) (current : Nat) (available : List Nat) :
    ∃ r, selectVersion supported current available = .ok r := by
  have hg : alpnLookupGuarded = true := by decide
  induction available with
  | nil => exact ⟨_, rfl⟩
  | cons v rest ih =>
    unfold selectVersion
    split
    · exact ⟨_, rfl⟩
    · split
      · rename_i h
        simp only [hg, Bool.not_true, Bool.false_or, Bool.and_eq_true] at h
        exact ⟨_, by rw [if_pos h.1]⟩
      · exact ih

/-- the same for ANY payload processor satisfying `PayloadOk` — instantiated with the
    byte-level frame handlers in `AQ.Props.C05Frames` -/
theorem recv_total_generic {π : Type} (run : St → Epoch → Bool → π → St × Outcome (Bool × Bool))
    (hrun : PayloadOk run) (small : Bool) (pkts : List (Pkt π)) (s : St)
    (hpk : ∀ p ∈ pkts, HdrOk p) (hi : ConnInv s) :
    ConnInv (receiveDatagram run small pkts s).1 ∧ ∀ cls, (receiveDatagram run small pkts s).2 ≠ .raised cls :=
  receiveDatagram_ok run hrun small pkts s hpk hi

/-! ## Afterwards: timer, transmit and event calls -/

/-- the public calls as operations on the model state -/
inductive Op where
  | recv (small : Bool) (pkts : List (Pkt Frames))
  | getTimer
  | handleTimer (due : Bool)
  | send (w : Writers)
  | nextEvent
  | close (code : Nat)

def step (s : St) : Op → Except String St
  | .recv small pkts =>
    match (receiveDatagram runPayload small pkts s).2 with
    | .raised cls => .error cls
    | _ => .ok (receiveDatagram runPayload small pkts s).1
  | .getTimer => (getTimer s).map (fun _ => s)
  | .handleTimer due => handleTimer s due
  | .send w => datagramsToSend s w
  | .nextEvent => nextEvent s
  | .close code => .ok (s.close code)

/-- assumptions on one call in state `s` -/
def OpOk (_s : St) : Op → Prop
  | .recv _ pkts => ∀ p ∈ pkts, HdrOk p
  | .getTimer => True
  | .handleTimer _ => True
  -- `QuicPacketBuilder.start_packet` (header + Initial token vs. buffer: AQ.Props.C05Send, C13) and the
  -- frame writers (C12/C13/C16) return or raise QuicPacketBuilderStop (which is caught)
  | .send w => WriterOk w.startPacket ∧ WriterOk w.closeFrame ∧ WriterOk w.handshake ∧ WriterOk w.application
  | .nextEvent => True
  | .close _ => True

def run : St → List Op → Except String St
  | s, [] => .ok s
  | s, op :: rest => match step s op with
    | .error e => .error e
    | .ok s' => run s' rest

def OpsOk : St → List Op → Prop
  | _, [] => True
  | s, op :: rest => OpOk s op ∧ ∀ s', step s op = .ok s' → OpsOk s' rest

theorem step_total (s : St) (op : Op) (hi : ConnInv s) (hop : OpOk s op) :
    ∃ s', step s op = .ok s' ∧ ConnInv s' := by
  cases op with
  | recv small pkts =>
    obtain ⟨h1, h2⟩ := receiveDatagram_ok runPayload runPayload_ok small pkts s hop hi
    refine ⟨(receiveDatagram runPayload small pkts s).1, ?_, h1⟩
    cases hr : (receiveDatagram runPayload small pkts s).2 with
    | raised cls => exact absurd hr (h2 cls)
    | ignored => simp [step, hr]
    | processed => simp [step, hr]
    | closed c => simp [step, hr]
  | getTimer => exact ⟨s, by simp [step, getTimer, Except.map], hi⟩
  | handleTimer due => exact handleTimer_ok s due hi
  | send w => exact datagramsToSend_ok s w hi hop.1 hop.2.1 hop.2.2.1 hop.2.2.2
  | nextEvent => exact nextEvent_ok s hi
  | close code => exact ⟨_, rfl, inv_close s code hi⟩

/-- "Afterwards the timer, transmit and event calls keep returning normally until the
    connection reports termination."

    Any interleaving of `receive_datagram` (hostile or not), `get_timer`, `handle_timer`
    (whether or not a deadline was reported), `datagrams_to_send`, `next_event` and the
    application's `close()` from a state satisfying `ConnInv` returns normally at every call —
    before, while and after the connection closes (states CLOSING / DRAINING / TERMINATED
    included: `_close_at = None` is never compared, `_network_paths[0]` and the
    `_cryptos[...]` lookups are defined whenever they are evaluated). -/
theorem after_close_total (ops : List Op) : ∀ (s : St), ConnInv s → OpsOk s ops →
    ∃ s', run s ops = .ok s' ∧ ConnInv s' := by
  induction ops with
  | nil => intro s hi _; exact ⟨s, rfl, hi⟩
  | cons op rest ih =>
    intro s hi hok
    obtain ⟨s', hs, hi'⟩ := step_total s op hi hok.1
    obtain ⟨s'', hr, hi''⟩ := ih s' hi' (hok.2 s' hs)
    exact ⟨s'', by simp [run, hs, hr], hi''⟩

/-- a fresh server (`QuicConnection(configuration=server)`) and a client after
    `connect()` satisfy the invariant -/
def freshServer : St := { isClient := false }
def connectedClient : St := { isClient := true, initialized := true, nPaths := 1, closeAtSet := true }

theorem inv_freshServer : ConnInv freshServer := by simp [ConnInv, freshServer, CState.isEnd]
theorem inv_connectedClient : ConnInv connectedClient := by simp [ConnInv, connectedClient, CState.isEnd]

def garbagePkt : Pkt Frames := { hdr := .error (.py .value), dec := .cryptoError }

instance : DecidableEq (Except String St) := fun a b =>
  match a, b with
  | .ok x, .ok y => if h : x = y then isTrue (by rw [h]) else isFalse (by intro h'; cases h'; exact h rfl)
  | .error x, .error y => if h : x = y then isTrue (by rw [h]) else isFalse (by intro h'; cases h'; exact h rfl)
  | .ok _, .error _ => isFalse (by intro h; cases h)
  | .error _, .ok _ => isFalse (by intro h; cases h)

/-- the scenario of the (now fixed) defect "fresh server drops a datagram whose header does not
    parse, then `datagrams_to_send` raises IndexError on `self._network_paths[0]`": the current
    code ignores the datagram, arms the idle timer and sends nothing. -/
theorem fresh_server_garbage_then_send :
    (receiveDatagram runPayload true [garbagePkt] freshServer).2 = .ignored ∧
    datagramsToSend (receiveDatagram runPayload true [garbagePkt] freshServer).1 {} =
      .ok (receiveDatagram runPayload true [garbagePkt] freshServer).1 ∧
    getTimer (receiveDatagram runPayload true [garbagePkt] freshServer).1 = .ok true :=
  ⟨by decide, by decide +kernel, by rfl⟩

/-! ## Non-vacuity -/

/-- the hypotheses are satisfiable and the three outcome classes occur -/
example : (receiveDatagram runPayload false
    [{ hdr := .ok { ptype := .oneRtt }, dec := .ok false false ⟨[{ ftype := .ok 0x01, handler := .ok () }], by
        intro f hf; simp at hf; subst hf; exact ⟨by simp, by simp⟩⟩ false false }]
    { connectedClient with state := .connected }).2 = .processed := by decide

example : (receiveDatagram runPayload false
    [{ hdr := .ok { ptype := .oneRtt }, dec := .ok false false ⟨[{ ftype := .ok 0x1F, handler := .ok () }], by
        intro f hf; simp at hf; subst hf; exact ⟨by simp, by simp⟩⟩ false false }]
    { connectedClient with state := .connected }).2 = .closed 7 := by decide

example : (receiveDatagram runPayload false
    [{ hdr := .ok { ptype := .initial }, dec := .ok false false ⟨[{ ftype := .ok 0x08, handler := .ok () }], by
        intro f hf; simp at hf; subst hf; exact ⟨by simp, by simp⟩⟩ false false }]
    { connectedClient with state := .connected }).2 = .closed 10 := by decide

example : (receiveDatagram runPayload false
    [{ hdr := .ok { ptype := .oneRtt }, dec := .cryptoError }] connectedClient).2 = .ignored := by decide

/-- a server without any spare peer connection ID receives a packet addressed to another of its
    connection IDs: processed -/
example : (receiveDatagram runPayload false
    [{ hdr := .ok { ptype := .oneRtt, dcidNotCurrent := true },
       dec := .ok false false ⟨[{ ftype := .ok 0x01, handler := .ok () }], by
        intro f hf; simp at hf; subst hf; exact ⟨by simp, by simp⟩⟩ false false }]
    { isClient := false, initialized := true, nPaths := 1, closeAtSet := true, state := .connected,
      peerCidAvailable := 0 }).2 = .processed := by decide

/-- an unhandled handler outcome does escape (the hypothesis `FrameOk` is needed) -/
example : (recvLoop (fun s ep cr (fs : List FrameIn) => runFrames s ep cr fs) false
    [{ hdr := .ok { ptype := .oneRtt }, dec := .ok false false [{ ftype := .ok 0x01, handler := .error (.py .assertion) }] false false }]
    { connectedClient with state := .connected } false).2.2 = some "AssertionError" := by decide

#print axioms tables_ok
#print axioms recv_total
#print axioms recv_total_generic
#print axioms change_connection_id_total
#print axioms alpn_version_selection_total
#print axioms step_total
#print axioms after_close_total
#print axioms fresh_server_garbage_then_send

end AQ.C05
