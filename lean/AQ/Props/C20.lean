import AQ.Proofs.LogIR
/-!
# C20 — logging is observationally transparent (generic theorems)

The log IR (`AQ.Model.LogIR`) has protocol locations `P` and log-only locations
`L`; "logging off" and "logging on" are two states that agree on `P` and differ
on `L` (the logger is `None` or an object).  The theorems below hold for every
program of the IR, for every interpretation `Sem` of its uninterpreted parts
(expression functions, failing partial operations, opaque protocol statements,
exception matching), every loop bound `fuel` and every call depth.
`AQ.Props.C20Gen` instantiates them with the program regenerated from the
aioquic sources.
-/
namespace AQ.LogIR

variable {Val : Type} [Inhabited Val]

/-- "Enabling the qlog logger or the secrets log never changes what a
    connection does: for the same inputs it [...] ends in the same state as with
    logging disabled": for a well-typed program, running any function from two
    states with the same protocol part and *arbitrary* log parts (logger objects
    present or `None`, any log contents) completes the same way (same exception
    if any) with the same protocol part. -/
theorem noninterference (S : Sem Val) (prog : List FnDecl) (hw : WellTyped prog = true)
    (fuel depth f : Nat) (σ on off : State Val) :
    outcome (fnSem S prog fuel depth f (withLog σ on)) = outcome (fnSem S prog fuel depth f (withLog σ off)) := by
  apply outcome_eq_of_resEq
  apply (fnSem_ok S prog fuel hw depth).ni f
  intro l hl
  simp [withLog, hl]

/-- the same, stated on arbitrary pairs of states that agree on protocol locations -/
theorem noninterference_lowEq (S : Sem Val) (prog : List FnDecl) (hw : WellTyped prog = true)
    (fuel depth f : Nat) (σ₁ σ₂ : State Val) (h : lowEq σ₁ σ₂) :
    resEq (fnSem S prog fuel depth f σ₁) (fnSem S prog fuel depth f σ₂) :=
  (fnSem_ok S prog fuel hw depth).ni f σ₁ σ₂ h

/-- "logging never raises": in a well-typed program every log-only function
    (encoder, log helper) completes normally from every state and leaves the
    protocol part untouched. -/
theorem log_code_never_raises (S : Sem Val) (prog : List FnDecl) (hw : WellTyped prog = true)
    (fuel depth f : Nat) (hk : kindOf prog f = some .logOnly) (σ : State Val) :
    ∃ σ', fnSem S prog fuel depth f σ = .normal σ' ∧ proj σ' = proj σ := by
  obtain ⟨σ', h1, h2⟩ := (fnSem_ok S prog fuel hw depth).high f hk σ
  exact ⟨σ', h1, (proj_eq_of_lowEq h2).symm⟩

/-- statements under a logger guard complete normally and leave the protocol part untouched -/
theorem guarded_block_transparent (S : Sem Val) (prog : List FnDecl) (hw : WellTyped prog = true)
    (fuel depth : Nat) (s : Stmt) (hs : wt prog .log s = true) (σ : State Val) :
    ∃ σ', exec S fuel (fnSem S prog fuel depth) s σ = .normal σ' ∧ proj σ' = proj σ := by
  obtain ⟨σ', h1, h2⟩ := exec_high S fuel prog _ (fnSem_ok S prog fuel hw depth) s hs σ
  exact ⟨σ', h1, (proj_eq_of_lowEq h2).symm⟩

/-! ### the typing rules are not vacuous: each forbidden flow really interferes -/

/-- program: `if <logger>: P1 := 1` (protocol write under a logger guard) -/
def badGuardWrite : List FnDecl :=
  [{ id := 1, kind := .normal, body := .ite ⟨0, [.L 1]⟩ (.assign (.P 1) ⟨1, []⟩) .skip }]

def demoSem : Sem Nat where
  interp := fun f vs => if f = 0 then vs.headD 0 else if f = 1 then 1 else 0
  truthy := fun v => v != 0
  fails := fun f vs => if f = 7 ∧ vs.headD 0 = 255 then some 3 else none
  lowFn := fun _ σ => (σ, none)
  catches := fun _ _ => false

/-- a protocol write under a logger guard is rejected by the typing, and it
    does make the two runs differ -/
theorem guard_write_counterexample :
    WellTyped badGuardWrite = false ∧
    (outcome (fnSem demoSem badGuardWrite 1 1 1 (withLog (fun _ => 0) (fun _ => 1)))).2 (.P 1)
      ≠ (outcome (fnSem demoSem badGuardWrite 1 1 1 (withLog (fun _ => 0) (fun _ => 0)))).2 (.P 1) := by
  decide

/-- program: an encoder with an unprotected partial operation (`.decode("utf8")`
    of a header value), called under a guard -/
def badEncoder : List FnDecl :=
  [{ id := 1, kind := .normal, body := .ite ⟨0, [.L 1]⟩ (.call 2) .skip },
   { id := 2, kind := .logOnly, body := .check ⟨7, [.P 5]⟩ }]

/-- an unprotected partial operation in an encoder is rejected by the typing,
    and with logging on it raises where the run without logging completes
    (the HTTP/3 header defect: header value 0xff) -/
theorem partial_encoder_counterexample :
    WellTyped badEncoder = false ∧
    (outcome (fnSem demoSem badEncoder 1 2 1 (withLog (fun _ => 255) (fun _ => 1)))).1 = some (.exc 3) ∧
    (outcome (fnSem demoSem badEncoder 1 2 1 (withLog (fun _ => 255) (fun _ => 0)))).1 = none := by
  decide

/-- a guarded log statement calling an encoder: well typed -/
def okBody : Stmt :=
  .seq (.low 1 0) (.ite ⟨0, [.L 1]⟩ (.seq (.call 2) (.logEvent 1 ⟨2, [.L 1, .P 3]⟩)) .skip)
def okProg : List FnDecl :=
  [{ id := 1, kind := .normal, body := okBody }, { id := 2, kind := .logOnly, body := .assign (.L 9) ⟨3, [.P 3]⟩ }]

/-- non-vacuity of `noninterference`: its hypothesis is satisfiable -/
example : WellTyped okProg = true := by decide

end AQ.LogIR

#print axioms AQ.LogIR.noninterference
#print axioms AQ.LogIR.noninterference_lowEq
#print axioms AQ.LogIR.log_code_never_raises
#print axioms AQ.LogIR.guarded_block_transparent
#print axioms AQ.LogIR.guard_write_counterexample
#print axioms AQ.LogIR.partial_encoder_counterexample
