/-
  C16 — Peer stream bytes can never make the HTTP layers raise.

  Models: AQ.Model.H3Parser (H3Connection.handle_event and everything below it,
  pylsqpack / validators / utf-8 as an arbitrary `Oracle`), AQ.Model.H0,
  AQ.Model.CloseFrame.  An `.error` result of `handleEvent` IS an exception
  escaping `handle_event`; ProtocolErrors are turned into `isDone`/`closeCode`
  inside `handleEvent` exactly as the `except ProtocolError` clause does.
-/
import AQ.Proofs.H3Total
import AQ.Model.H0
import AQ.Model.CloseFrame
namespace AQ.Props.C16
open AQ AQ.H3

/-! ## HTTP/3 -/

/-- "For every byte sequence a peer can place on any stream (request, push,
    control, QPACK encoder or decoder, WebTransport, unknown type) or in a
    datagram, in any order and chunking, feeding the resulting transport events
    to the HTTP/3 … layer returns normally: it yields events or closes the
    connection with an HTTP/3 error code."

    For EVERY connection state `c` (no reachability assumption), every QUIC
    event (stream data on any stream id with any bytes and end flag, datagram
    with any bytes, anything else) and every behaviour of pylsqpack / the
    validators / the utf-8 codec (`o`), `handle_event` returns; it never raises.
    Holds for the parser without the five escaping-exception quirks
    (`NoEscape`), whatever the three C14 quirks are. -/
theorem h3_total {σ : Type} (o : Oracle σ) (c : Conn σ) (hk : NoEscape c.cfg.k) (ev : QuicEvent) :
    ∃ c' evs, handleEvent o c ev = .ok (c', evs) := by
  rcases handleEvent_cases o c hk ev with ⟨_, h⟩ | ⟨x, _, h⟩ | ⟨code, _, h⟩
  · exact ⟨_, _, h⟩
  · exact ⟨x.1, x.2, h⟩
  · exact ⟨_, _, h⟩

/-- … "it yields events or closes the connection with an HTTP/3 error code":
    the result is the normal result of the handler body, or — exactly when the
    body raised a ProtocolError with code `code` — the connection marked done
    with `quic.close(error_code = code)` and no events (or nothing at all when
    the connection was already done). -/
theorem h3_total_outcome {σ : Type} (o : Oracle σ) (c : Conn σ) (hk : NoEscape c.cfg.k) (ev : QuicEvent) :
    (c.isDone = true ∧ handleEvent o c ev = .ok (c, [])) ∨
    (∃ x, dispatch o c ev = .ok x ∧ handleEvent o c ev = .ok x) ∨
    (∃ code, dispatch o c ev = .error (.h3 code) ∧
      handleEvent o c ev = .ok ({ c with isDone := true, closeCode := some code }, [])) :=
  handleEvent_cases o c hk ev

/-- an exception of `handleEvent`, if any -/
def errOf {α : Type} : Outcome α → Option Err
  | .error e => some e
  | .ok _ => none

/-- an oracle for the counterexamples: QPACK decoding fails, the encoder stream
    "unblocks" stream 99, validation accepts, utf-8 decoding fails -/
def cexOracle : Oracle Unit where
  decode _ _ _ := (.headers [([0x78], [0xff])], ())
  resume _ _ := (.failed, ())
  feedEncoder _ _ := (.unblocked [99], ())
  feedDecoder _ _ := (true, ())
  validate _ _ _ := (.ok none, ())
  logOk _ _ := (false, ())

def server (k : Quirks) : Conn Unit := Conn.init { isClient := false, k := k } ()
def client (k : Quirks) (logging : Bool := false) : Conn Unit :=
  Conn.init { isClient := true, logging := logging, k := k } ()

/-- after SETTINGS on the control stream -/
def afterSettings (c : Conn Unit) : Conn Unit :=
  match handleEvent cexOracle c (.streamData 2 [0x00, 0x04, 0x00] false) with
  | .ok (c', _) => c'
  | .error _ => c

/-- unchanged tree: `parse_max_push_id` asserts on trailing bytes
    (server, control stream `00 0400 | 0d 02 01 02`). -/
theorem maxPushId_assert_counterexample :
    errOf (handleEvent cexOracle (afterSettings (server { maxPushIdRaises := true }))
      (.streamData 2 [0x0d, 0x02, 0x01, 0x02] false)) = some (.py .assertion) := by decide +kernel

/-- unchanged tree: `parse_max_push_id` on an empty payload (`0d 00`). -/
theorem maxPushId_bufferRead_counterexample :
    errOf (handleEvent cexOracle (afterSettings (server { maxPushIdRaises := true }))
      (.streamData 2 [0x0d, 0x00] false)) = some .bufferRead := by decide +kernel

/-- unchanged tree: SETTINGS payload ending inside a pair (`00 | 04 01 01`). -/
theorem settings_bufferRead_counterexample :
    errOf (handleEvent cexOracle (server { settingsBufferRead := true })
      (.streamData 2 [0x00, 0x04, 0x01, 0x01] false)) = some .bufferRead := by decide +kernel

/-- unchanged tree: empty PUSH_PROMISE frame on a request stream of a client (`05 00`). -/
theorem pushPromise_bufferRead_counterexample :
    errOf (handleEvent cexOracle (client { pushPromiseBufferRead := true })
      (.streamData 0 [0x05, 0x00] false)) = some .bufferRead := by decide +kernel

/-- unchanged tree: `self._stream[stream_id]` for an id the QPACK decoder reports
    as unblocked but which is not in the stream table (model level: reachable
    only if pylsqpack reports such an id; not reproduced with pylsqpack 0.3.24). -/
theorem unblocked_keyError_counterexample :
    errOf (handleEvent cexOracle (client { unblockedKeyError := true })
      (.streamData 3 [0x02, 0x00] false)) = some (.py .key) := by decide +kernel

/-- unchanged tree, qlog enabled: a header value that is not UTF-8
    (`HEADERS` frame, the oracle decodes it to `x: ff`). -/
theorem logDecode_counterexample :
    errOf (handleEvent cexOracle (client { logDecode := true } true)
      (.streamData 0 [0x01, 0x01, 0x00] false)) = some (.py .unicode) := by decide +kernel

/-- the same six inputs return normally without the quirks -/
theorem counterexamples_fixed :
    errOf (handleEvent cexOracle (afterSettings (server {})) (.streamData 2 [0x0d, 0x02, 0x01, 0x02] false)) = none ∧
    errOf (handleEvent cexOracle (afterSettings (server {})) (.streamData 2 [0x0d, 0x00] false)) = none ∧
    errOf (handleEvent cexOracle (server {}) (.streamData 2 [0x00, 0x04, 0x01, 0x01] false)) = none ∧
    errOf (handleEvent cexOracle (client {}) (.streamData 0 [0x05, 0x00] false)) = none ∧
    errOf (handleEvent cexOracle (client {}) (.streamData 3 [0x02, 0x00] false)) = none ∧
    errOf (handleEvent cexOracle (client {} true) (.streamData 0 [0x01, 0x01, 0x00] false)) = none := by
  decide +kernel

/-! ## HTTP/0.9 -/

/-- "… feeding the resulting transport events to the … HTTP/0.9 layer returns
    normally": for every state, stream id, bytes and end flag, the fixed
    `H0Connection.handle_event` returns. -/
theorem h0_total (s : H0.State) (hq : s.splitRaises = false) (sid : Nat) (d : Bytes) (fin : Bool) :
    ∃ s' evs, H0.handleEvent s sid d fin = .ok (s', evs) := by
  unfold H0.handleEvent
  simp only [hq]
  repeat' split
  all_goals first
    | exact ⟨_, _, rfl⟩
    | simp_all

/-- unchanged tree: request line without a space (`GET\r\n`) → ValueError. -/
theorem h0_valueError_counterexample :
    errOf (H0.handleEvent { splitRaises := true } 0 [0x47, 0x45, 0x54, 0x0d, 0x0a] false) = some (.py .value) := by
  decide +kernel

/-! ## the closing packet -/

/-- "After such a close the transport can still emit its closing packet,
    whatever text the error message contains."  With the proposed truncation
    (`noTruncate = false`), for every reason length and every UTF-8 alignment
    cut, `start_frame` does not raise as soon as an empty reason would fit … -/
theorem close_emittable (fixed remaining reasonLen cut : Nat) (h : fixed ≤ remaining) :
    ∃ n, CloseFrame.writeClose false fixed remaining reasonLen cut = .ok n ∧ n ≤ reasonLen ∧
      fixed + n ≤ remaining := by
  unfold CloseFrame.writeClose CloseFrame.reasonBytes
  simp only [Bool.false_eq_true, ↓reduceIte]
  refine ⟨min reasonLen (remaining - fixed) - cut, ?_, ?_, ?_⟩
  · split
    · omega
    · rfl
  · omega
  · omega

/-- … and the bytes actually pushed stay within the announced capacity, so the
    `Buffer` writes cannot overflow either (application close, codes < 2^62). -/
theorem close_frame_fits_app (errorCode n remaining : Nat) (h : CloseFrame.appFixed + n ≤ remaining) :
    CloseFrame.appFrameSize errorCode n ≤ remaining := by
  unfold CloseFrame.appFrameSize CloseFrame.appFixed CloseFrame.varintSize at *
  repeat' split
  all_goals omega

theorem close_frame_fits_transport (errorCode frameType n remaining : Nat)
    (h : CloseFrame.transportFixed + n ≤ remaining) :
    CloseFrame.transportFrameSize errorCode frameType n ≤ remaining := by
  unfold CloseFrame.transportFrameSize CloseFrame.transportFixed CloseFrame.varintSize at *
  repeat' split
  all_goals omega

/-- unchanged tree: a 3000-byte reason in a 1200-byte datagram → QuicPacketBuilderStop. -/
theorem close_reason_counterexample :
    errOf (CloseFrame.writeClose true CloseFrame.appFixed 1151 3000 0) = some .builderStop := by decide

/-- the hypotheses of `h3_total` / `close_emittable` are satisfiable -/
example : NoEscape (client {}).cfg.k := ⟨rfl, rfl, rfl, rfl, rfl⟩
example : CloseFrame.appFixed ≤ 1151 := by decide

end AQ.Props.C16
