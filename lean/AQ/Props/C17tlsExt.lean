import AQ.Proofs.TlsExtBody
import AQ.Proofs.TlsCodecMsg
/-
  C17 (TLS part, typed extension bodies).  `AQ.Props.C17tls` proves the round
  trip of all eight handshake messages of tls.py (ClientHello, ServerHello,
  NewSessionTicket, EncryptedExtensions, Certificate, CertificateRequest,
  CertificateVerify, Finished) with extensions as (type, extension_data).  What
  was tied by correspondence only is the *typed* content of the extensions
  tls.py parses — key_share (51), supported_versions (43),
  signature_algorithms (13), supported_groups (10), psk_key_exchange_modes (45),
  server_name (0), ALPN (16), early_data (42), pre_shared_key (41).  This file
  brings them under theorems: encoders from RFC 8446 §4.2 / RFC 6066 §3 /
  RFC 7301 §3.1, round trip through the decoders `extBodyOK` runs, and "never
  reading past the declared length": a body is accepted iff it ends exactly at
  the end of `extension_data`.
-/
namespace AQ.Props.C17tlsExt
open AQ AQ.TlsCodec

/-- **C17** "Encoding then decoding returns the original value", typed extension
bodies: for every value with in-range fields (`ExtVal.valid`: 16-bit groups /
versions / algorithms, 8-bit PSK modes, 32-bit ticket ages and early-data size,
vectors within their length prefixes, ASCII host name) the decoder tls.py applies
to a body of that shape returns the value and leaves what follows. -/
theorem ext_body_roundtrip (v : ExtVal) (r : Bytes) (h : v.valid) : v.dec (v.enc ++ r) = some (v, r) :=
  extVal_rt v r h

/-- **C17** "never reading past the declared length of an enclosing field", extension
bodies: in every (message, extension type) slot whose body tls.py parses, the
encoding of a valid value is accepted when it fills `extension_data` exactly and
refused when anything follows it inside the declared length — the body parser
is confined to, and must exhaust, the declared bytes.  (The opposite lie — a
declared length shorter than the body — cuts the body: `block`/`opq` hand the
parser the declared bytes only, `AQ.Props.C17tls.block_never_reads_past`.) -/
theorem ext_body_exact (extra : Bytes) (hx : extra ≠ []) :
    (∀ l, (ExtVal.keyShares l).valid →
      extBodyOK .clientHello ⟨51, (ExtVal.keyShares l).enc⟩ = true ∧
      extBodyOK .clientHello ⟨51, (ExtVal.keyShares l).enc ++ extra⟩ = false) ∧
    (∀ l, (ExtVal.versions l).valid →
      extBodyOK .clientHello ⟨43, (ExtVal.versions l).enc⟩ = true ∧
      extBodyOK .clientHello ⟨43, (ExtVal.versions l).enc ++ extra⟩ = false) ∧
    (∀ l, (ExtVal.u16s l).valid →
      extBodyOK .clientHello ⟨13, (ExtVal.u16s l).enc⟩ = true ∧ extBodyOK .clientHello ⟨10, (ExtVal.u16s l).enc⟩ = true ∧
      extBodyOK .certificateRequest ⟨13, (ExtVal.u16s l).enc⟩ = true ∧
      extBodyOK .clientHello ⟨13, (ExtVal.u16s l).enc ++ extra⟩ = false ∧
      extBodyOK .clientHello ⟨10, (ExtVal.u16s l).enc ++ extra⟩ = false ∧
      extBodyOK .certificateRequest ⟨13, (ExtVal.u16s l).enc ++ extra⟩ = false) ∧
    (∀ l, (ExtVal.pskModes l).valid →
      extBodyOK .clientHello ⟨45, (ExtVal.pskModes l).enc⟩ = true ∧
      extBodyOK .clientHello ⟨45, (ExtVal.pskModes l).enc ++ extra⟩ = false) ∧
    (∀ n, (ExtVal.serverName n).valid →
      extBodyOK .clientHello ⟨0, (ExtVal.serverName n).enc⟩ = true ∧
      extBodyOK .clientHello ⟨0, (ExtVal.serverName n).enc ++ extra⟩ = false) ∧
    (∀ l, (ExtVal.alpn l).valid →
      extBodyOK .clientHello ⟨16, (ExtVal.alpn l).enc⟩ = true ∧
      extBodyOK .clientHello ⟨16, (ExtVal.alpn l).enc ++ extra⟩ = false ∧
      extBodyOK .encryptedExtensions ⟨16, (ExtVal.alpn l).enc⟩ = ((l.filter isAscii).length != 0) ∧
      extBodyOK .encryptedExtensions ⟨16, (ExtVal.alpn l).enc ++ extra⟩ = false) ∧
    (extBodyOK .clientHello ⟨42, ExtVal.empty.enc⟩ = true ∧ extBodyOK .clientHello ⟨42, ExtVal.empty.enc ++ extra⟩ = false ∧
      extBodyOK .encryptedExtensions ⟨42, ExtVal.empty.enc⟩ = true ∧
      extBodyOK .encryptedExtensions ⟨42, ExtVal.empty.enc ++ extra⟩ = false) ∧
    (∀ ids bs, (ExtVal.offeredPsks ids bs).valid →
      extBodyOK .clientHello ⟨41, (ExtVal.offeredPsks ids bs).enc⟩ = true ∧
      extBodyOK .clientHello ⟨41, (ExtVal.offeredPsks ids bs).enc ++ extra⟩ = false) ∧
    (∀ v, (ExtVal.u16 v).valid →
      extBodyOK .serverHello ⟨43, (ExtVal.u16 v).enc⟩ = true ∧ extBodyOK .serverHello ⟨41, (ExtVal.u16 v).enc⟩ = true ∧
      extBodyOK .serverHello ⟨43, (ExtVal.u16 v).enc ++ extra⟩ = false ∧
      extBodyOK .serverHello ⟨41, (ExtVal.u16 v).enc ++ extra⟩ = false) ∧
    (∀ g k, (ExtVal.keyShare g k).valid →
      extBodyOK .serverHello ⟨51, (ExtVal.keyShare g k).enc⟩ = true ∧
      extBodyOK .serverHello ⟨51, (ExtVal.keyShare g k).enc ++ extra⟩ = false) ∧
    (∀ v, (ExtVal.u32 v).valid →
      extBodyOK .newSessionTicket ⟨42, (ExtVal.u32 v).enc⟩ = true ∧
      extBodyOK .newSessionTicket ⟨42, (ExtVal.u32 v).enc ++ extra⟩ = false) :=
  extBody_exact extra hx

/-- **C17** a typed extension inside the extension framing: (type, typed body) is
carved out of the message by its 16-bit length and what follows is untouched -/
theorem typed_extension_roundtrip (t : Nat) (v : ExtVal) (r : Bytes) (ht : t < 256 ^ 2) (hv : v.valid)
    (hl : v.enc.length < 256 ^ 2) :
    extDec (extEnc ⟨t, v.enc⟩ ++ r) = some (⟨t, v.enc⟩, r) ∧ v.dec v.enc = some (v, []) := by
  refine ⟨?_, ?_⟩
  · unfold extEnc extDec
    simp only [List.append_assoc, uintBE_rt 2 t _ ht, opq_rt 2 v.enc r hl]
  · have := extVal_rt v [] hv
    rwa [List.append_nil] at this

/-! ### non-vacuity -/

example : (ExtVal.keyShares [(29, [1, 2, 3])]).enc = [0, 7, 0, 29, 0, 3, 1, 2, 3] := by decide
example : (ExtVal.versions [0x0304]).enc = [2, 3, 4] := by decide
example : (ExtVal.serverName [0x61, 0x2e, 0x62]).enc = [0, 6, 0, 0, 3, 0x61, 0x2e, 0x62] := by decide
example : (ExtVal.keyShares [(29, [1, 2, 3])]).valid := by
  refine ⟨?_, by decide⟩
  intro p hp
  simp only [List.mem_singleton] at hp
  subst hp
  decide
/-- supported_versions with one stray byte inside the declared length is refused; with length 0 too
    (the defect fixed by fixes/C17-tls-extension-length.diff) -/
example : extBodyOK .clientHello ⟨43, [2, 3, 4, 9]⟩ = false ∧ extBodyOK .clientHello ⟨43, []⟩ = false ∧
    extBodyOK .clientHello ⟨43, [2, 3, 4]⟩ = true := by decide

end AQ.Props.C17tlsExt

#print axioms AQ.Props.C17tlsExt.ext_body_roundtrip
#print axioms AQ.Props.C17tlsExt.ext_body_exact
#print axioms AQ.Props.C17tlsExt.typed_extension_roundtrip
