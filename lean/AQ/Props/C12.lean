/-
  C12 — Acknowledgements are sound and timely.

  Model: AQ.Model.Ack (tail of receive_datagram, _on_ack_delivery,
  discard_space, _write_ack_frame + push_ack_frame, the ACK decisions of
  _write_handshake / _write_application, the ack part of get_timer), following
  the code with fixes/C12-ack-frame-fits.diff, fixes/C12-ack-pacing.diff and
  fixes/C08-ack-first.diff applied.  Time is an arbitrary type with the
  comparisons the code uses (`FArith`); the timing theorems assume `OrderOk`
  (the comparisons form a total order: true of non-NaN doubles).

  The byte-level varint codec of the ACK frame is C17's; here an ACK frame is
  the list of its varint values and `wireRanges` reads it as RFC 9000 §19.3.1
  prescribes.
-/
import AQ.Proofs.Ack
import AQ.Proofs.AckRun

namespace AQ.Props.C12
open AQ AQ.Ack AQ.RangeSet
open AQ.Recovery (FArith)

/-- "Every ACK frame an endpoint sends lists only packet numbers of packets it
    actually received and successfully authenticated in that packet number
    space." (queue level) — for ALL sequences of packet arrivals (any numbers,
    duplicates, gaps, orders), payload effects (ACK-of-ACK deliveries, space
    discards), and send calls: whatever is queued for acknowledgement in a space
    authenticated in that space. -/
theorem ack_sound {F} (A : FArith F) (delay : F) (ops : List (Op F)) (c : Conn F) (os : List Out)
    (h : run A (Conn.init delay) ops = .ok (c, os)) :
    ∀ s ∈ c.spaces, WF s.ackQueue ∧ ∀ x, mem x s.ackQueue → x ∈ s.received := by
  intro s hs
  have := run_inv A (cinv_init delay) h s hs
  exact ⟨this.wf, this.sound⟩

/-- … (frame level): every packet number denoted by the values of an ACK frame
    written from a reachable space state is a number that authenticated there;
    `_write_ack_frame` cannot fail (no IndexError / ValueError / TypeError) when
    the ack timer is armed.  Holds for every `max_size` (range truncation). -/
theorem ack_frame_sound {F} (s s' : Space F) (de : Nat) (ms : Option Int) (f : AckFrame) (hi : SInv s)
    (hw : writeAck s de ms = .ok (s', f)) :
    ∀ lh ∈ wireRanges f.values, ∀ x : Int, lh.1 ≤ x → x ≤ lh.2 → 0 ≤ x ∧ x.toNat ∈ s.received := by
  obtain ⟨_, _, _, _, vals, n, hp, hv, _⟩ := writeAck_inv hi hw
  intro lh hlh x h1 h2
  rw [hv] at hlh
  have ⟨a, b⟩ := pushAckFrame_sound _ _ _ _ _ hp lh hlh x h1 h2
  exact ⟨a, hi.sound _ b⟩

/-- all states reachable by any op sequence satisfy the per-space invariant that
    `ack_frame_sound` needs -/
theorem reachable_inv {F} (A : FArith F) (delay : F) (ops : List (Op F)) (c : Conn F) (os : List Out)
    (h : run A (Conn.init delay) ops = .ok (c, os)) : ∀ s ∈ c.spaces, SInv s :=
  run_inv A (cinv_init delay) h

/-- "…every ack-eliciting packet that carries the highest packet number received
    so far in its space…" arms the deadline: after recording it the ack timer is
    set to `now + ack_delay` or to an earlier armed deadline, the packet is
    queued, and no ACK sent so far can prune it. -/
theorem ack_deadline_armed {F} (A : FArith F) (delay : F) (s : Space F) (pn : Nat) (now : F) (hi : SInv s)
    (hnew : (pn : Int) > s.largestReceived) (hlive : s.discarded = false) :
    ∃ a, Pending (record A delay s pn true now) pn a ∧ (a = A.add now delay ∨ s.ackAt = some a) :=
  let ⟨a, h1, h2, _⟩ := record_pending_new A delay pn now hi hnew hlive
  ⟨a, h1, h2⟩

/-- the obligation survives every later arrival and every ACK-of-ACK delivery for
    an ACK frame that was really sent (losses of ACKs and of their carriers change
    nothing: only `ACKED` deliveries touch the queue) -/
theorem ack_pending_preserved {F} (A : FArith F) (delay : F) (s : Space F) (pn : Nat) (a : F) (hi : SInv s)
    (hp : Pending s pn a) :
    (∀ pn' ae now, Pending (record A delay s pn' ae now) pn a) ∧
    (∀ h s', h ∈ s.sentAcks → onAckDelivery s h = .ok s' → Pending s' pn a) :=
  ⟨fun pn' ae now => record_pending_keep A delay pn' ae now hi hp,
   fun _ _ hh he => onAckDelivery_pending hi hp hh he⟩

/-- "…is acknowledged by an ACK-bearing packet sent no later than the
    acknowledgement delay the endpoint advertised, provided the caller fires the
    timer when asked": a `_write_application` call at any time `now ≥ ack_at`
    (side conditions: handshake complete, 1-RTT send keys valid, start_packet and
    start_frame(ACK) not refused by the datagram budget) writes an ACK frame
    whatever the pacer says, clears the timer, and the frame covers the packet
    when every range fits OR — whatever `max_size` cut off — when the packet still
    carries the highest number received.  `ack_timer_le` shows get_timer() asks for a call no
    later than `ack_at`; `ack_at ≤ arrival + ack_delay` is `ack_deadline_armed`
    (aioquic's `_ack_delay` is 1 ms, the advertised max_ack_delay 25 ms). -/
theorem ack_timely {F} (A : FArith F) (ho : OrderOk A) (s : Space F) (pn : Nat) (a now : F) (pacerWait : Bool)
    (de : Nat) (ms : Option Int) (hi : SInv s) (hp : Pending s pn a) (hdue : A.le a now = true) :
    ∃ s' f, txApplication A s now true true pacerWait true true de ms = .ok (s', .ack f) ∧ s'.ackAt = none ∧
      ((f.ranges = s.ackQueue.length ∨ (pn : Int) = s.largestReceived) →
        ∃ lh ∈ wireRanges f.values, lh.1 ≤ (pn : Int) ∧ (pn : Int) ≤ lh.2) := by
  obtain ⟨s', f, hw⟩ := writeAck_ok hi (by simp [hp.armed]) (mem_ne_nil hp.queued) de ms
  refine ⟨s', f, ?_, (writeAck_inv hi hw).2.1, ?_⟩
  · have hpaced : paced A s now = false := by simp [paced, hp.armed, ho.le_not_lt _ _ hdue]
    have hd : ackDue A s now = true := by simp [ackDue, hp.armed, hdue]
    simp [txApplication, hpaced, hd, hw]
  · intro hor
    obtain ⟨_, _, _, _, vals, n, hpf, hv, hn⟩ := writeAck_inv hi hw
    rw [hv]
    rcases hor with hfit | hlargest
    · exact pushAckFrame_complete _ _ _ _ _ hpf (by rw [← hn]; exact hfit) pn hp.queued
    · exact pushAckFrame_covers_largest _ _ _ _ _ hpf hi.wf pn hp.queued
        (fun x hx => by have := hi.le_largest x hx; omega)

/-- the range holding the largest queued packet number survives every `max_size`
    truncation of the ACK frame (RFC 9000 13.2.3 only lets the OLDEST ranges go) -/
theorem ack_largest_always_written (rs : List Rg) (de : Nat) (ms : Option Int) (vals : List Nat) (n : Nat)
    (h : pushAckFrame rs de ms = .ok (vals, n)) (hwf : WF rs) (pn : Nat) (hm : mem pn rs)
    (hmax : ∀ x, mem x rs → x ≤ pn) : ∃ lh ∈ wireRanges vals, lh.1 ≤ (pn : Int) ∧ (pn : Int) ≤ lh.2 :=
  pushAckFrame_covers_largest rs de ms vals n h hwf pn hm hmax

/-- the ack part of get_timer(): the time returned is not later than any armed
    ack deadline -/
theorem ack_timer_le {F} (A : FArith F) (ho : OrderOk A) (closeAt : F) (spaces : List (Space F)) (s : Space F)
    (hs : s ∈ spaces) (a : F) (ha : s.ackAt = some a) : A.lt a (ackTimer A closeAt spaces) = false :=
  ackTimer_le A ho closeAt spaces s hs a ha

/-- "in the Initial and Handshake spaces such a packet is acknowledged by the next
    transmission in that space": while the obligation is pending, a
    `_write_handshake` call never starts a packet without the ACK frame (`noAck`
    is impossible — it either sends nothing in this space or the packet begins
    with the ACK); with valid keys and room it does write it, clears the timer,
    and when every range fits the frame covers the packet. -/
theorem ack_next_tx {F} (s s' : Space F) (pn : Nat) (a : F) (kv so af : Bool) (de : Nat) (ms : Option Int)
    (r : TxRes) (hi : SInv s) (hp : Pending s pn a) (he : txHandshake s kv so af de ms = .ok (s', r)) :
    r ≠ .noAck ∧
    (kv = true → so = true → af = true → ∃ f, r = .ack f) ∧
    (∀ f, r = .ack f → s'.ackAt = none ∧
      (f.ranges = s.ackQueue.length → ∃ lh ∈ wireRanges f.values, lh.1 ≤ (pn : Int) ∧ (pn : Int) ≤ lh.2)) := by
  have harm : s.ackAt.isSome = true := by simp [hp.armed]
  refine ⟨?_, ?_, ?_⟩
  · rcases txHandshake_cases he with ⟨_, h | h | h⟩ | ⟨f, _, h⟩
    · rw [h.1]; simp
    · rw [h]; simp
    · rw [harm] at h; cases h.2
    · rw [h]; simp
  · intro h1 h2 h3
    subst h1 h2 h3
    obtain ⟨s1, f, hw⟩ := writeAck_ok hi harm (mem_ne_nil hp.queued) de ms
    simp [txHandshake, harm, hw] at he
    exact ⟨f, he.2.symm⟩
  · intro f hf
    subst hf
    rcases txHandshake_cases he with ⟨_, h | h | h⟩ | ⟨f', hw, h⟩
    · cases h.1
    · cases h
    · cases h.1
    · cases h
      obtain ⟨_, h1, _, _, vals, n, hpf, hv, hn⟩ := writeAck_inv hi hw
      refine ⟨h1, fun hfit => ?_⟩
      rw [hv]
      exact pushAckFrame_complete _ _ _ _ _ hpf (by rw [← hn]; exact hfit) pn hp.queued

/-! ## Run-level statements (one packet-number space under all interleavings of its events:
     receive / ACK-of-ACK / discard / send calls; monitors in AQ.Model.AckSpec) -/

/-- TIMELINESS, application space, at full strength on the model.  For every sequence of events
    whose environment is `EnvApp` — the clock does not run backwards; the caller honours the timer
    (while `ack_at = a` is armed no event happens later than `a + ε`); when an ACK is due the send
    call is possible (handshake complete, 1-RTT keys, builder room: C13 `builder_raises_only_stop`
    and the budgets of `AQ.Amp`); every range fits (`fits_of_few_ranges`); ACK-of-ACK deliveries
    are for ACK frames that were sent (C08 `callbacks at most once per sent packet`) — the monitor
    `monApp` never trips: every ack-eliciting packet that carried the highest packet number at its
    arrival is covered by an ACK frame emitted no later than `arrival + ack_delay + ε`.
    That the timer is armed whenever such a packet is unacknowledged, that a further arrival never
    moves `ack_at` later, and that an ACK-of-ACK never cancels a pending `ack_at` are DERIVED
    (invariant `JApp`), not assumed. -/
theorem ack_timely_run {F} (A : FArith F) (hT : TimeOk A) (delay eps start : F) (ops : List (SOp F))
    (henv : EnvApp A delay eps {} start ops) :
    runMon A delay (monApp A delay eps) {} [] ops ≠ .ok none :=
  app_run_ok A hT delay eps ops {} [] start
    ⟨sinv_init, fun o ho => (by cases ho), fun a ha => (by cases ha)⟩ henv

/-- TIMELINESS, Initial / Handshake spaces: for every sequence of events (every range fits,
    ACK-of-ACK deliveries are for frames that were sent) the monitor `monHs` never trips: the next
    packet transmitted in the space carries an ACK frame covering every ack-eliciting packet that
    carried the highest number at its arrival.  No timing or caller hypothesis. -/
theorem ack_next_tx_run {F} (A : FArith F) (delay : F) (ops : List (SOp F)) (henv : EnvHs A delay {} ops) :
    runMon A delay monHs {} [] ops ≠ .ok none :=
  hs_run_ok A delay ops {} [] ⟨sinv_init, fun o ho => (by cases ho)⟩ henv

/-- SOUNDNESS at full strength: over ALL interleavings of receive / send / ACK-of-ACK / discard
    events of a space, every packet number in every range of every emitted ACK frame authenticated
    in that space before the frame was written.  No hypothesis. -/
theorem ack_sound_run {F} (A : FArith F) (delay : F) (ops : List (SOp F)) : FramesSound A delay {} ops :=
  frames_sound_run A delay ops {} sinv_init

/-- an ACK-of-ACK delivery for the frame registered with handler argument `h` (the largest number
    received when that frame was written) removes exactly the queued numbers ≤ h.  When that frame
    was complete (`Fits`) these were all in it — except numbers recorded AFTER it was written: the
    strong reading "only ranges the peer has seen acknowledged" is false for the code, see
    `ack_of_ack_prunes_late_arrival` -/
theorem ack_of_ack_prunes_exactly {F} (s s' : Space F) (h : Int) (hi : SInv s) (he : onAckDelivery s h = .ok s')
    (x : Nat) : (mem x s.ackQueue ∧ ¬ mem x s'.ackQueue) ↔ (mem x s.ackQueue ∧ (x : Int) ≤ h) :=
  aoa_prunes_exactly hi he x

/-- a complete frame reports the whole queue (so what a later ACK-of-ACK for it prunes was
    either reported in it or recorded after it) -/
theorem complete_frame_reports_queue {F} (s s' : Space F) (de : Nat) (ms : Option Int) (f : AckFrame) (hi : SInv s)
    (hw : writeAck s de ms = .ok (s', f)) (hfit : Fits s de ms) : ∀ pn, mem pn s.ackQueue → covers f pn = true :=
  (writeAck_clears_all hi hw hfit).2

/-- `Fits` is implied by a bound on the number of ranges the peer's gaps create -/
theorem fits_of_few_ranges {F} (s : Space F) (de : Nat) (m : Int) (h : 32 + 16 * ((s.ackQueue.length : Int) - 1) ≤ m) :
    Fits s de (some m) := AQ.Ack.fits_of_few_ranges s de m h

/-! non-vacuity: packets 3 and 5 arrive, an ACK covering both ranges is written -/
def demoFloat : FArith Nat :=
  { add := (· + ·), sub := (· - ·), mul := (· * ·), div := (· / ·), pow := (· ^ ·), neg := id, abs := id,
    lt := fun a b => decide (a < b), le := fun a b => decide (a ≤ b), eq := fun a b => a == b,
    ofNat := id, ofInt := Int.toNat, toInt := fun x => x, inf := 0 }

example : OrderOk demoFloat := by
  constructor <;> simp [demoFloat] <;> omega

example : (run demoFloat (Conn.init 1)
    [.rx 2 3 true 100 true [], .rx 2 5 true 100 true [], .txApp 2 101 true true false true true 0 none]).toOption.map
      (fun r => r.2.getLast?) = some (some (.tx (.ack { values := [5, 0, 1, 0, 0, 0], ranges := 2, highest := 5 }))) := by
  decide

example : TimeOk demoFloat := by
  refine { irrefl := ?_, asymm := ?_, ge_trans := ?_, le_not_lt := ?_, add_mono := ?_ } <;> simp [demoFloat] <;> omega

/-- the monitor opens obligations for 3 and 5 and the ACK written at 101 closes both -/
example : (runMon demoFloat 1 (monApp demoFloat 1 0) {} []
    [.rx 3 true 100 true [], .rx 5 true 100 true [], .txApp 101 true true false true true 0 none]).toOption
      = some (some []) := by decide

/-- ... and it does trip when the caller lets time pass the deadline without a send call -/
example : (runMon demoFloat 1 (monApp demoFloat 1 0) {} []
    [.rx 3 true 100 true [], .rx 5 true 103 true []]).toOption = some none := by decide

/-- the environment of `ack_timely_run` is satisfiable by such a run -/
example : EnvApp demoFloat 1 0 {} 0 [.rx 3 true 100 true [], .txApp 101 true true false true true 0 none] := by
  refine ⟨by simp [SOp.time, demoFloat], by simp [envOp], ?_⟩
  intro s' out he
  have : s' = record demoFloat 1 { received := [3] } 3 true 100 := by
    simp [sstep, rxPacket, isDuplicate, RangeSet.contains, deliverAll, bind, Except.bind, pure, Except.pure] at he
    exact he.1.symm
  subst this
  refine ⟨by simp [SOp.time, clockOf, record, demoFloat, RangeSet.add], ⟨by simp, fits_none _ _⟩, ?_⟩
  intro _ _ _; trivial

/-- the strong reading of "ACK-of-ACK only removes what the peer saw acknowledged" fails: 4 arrives
    after the frame for {3,5} (handler argument 5) was written; the ACK-of-ACK for that frame
    removes 4 although no frame ever reported it -/
theorem ack_of_ack_prunes_late_arrival :
    ∃ s1 f s2 s3, txApplication demoFloat
        (record demoFloat 1 (record demoFloat 1 ({} : Space Nat) 3 true 100) 5 true 100) 101 true true false true true 0 none
        = .ok (s1, .ack f) ∧ covers f 4 = false ∧ s2 = record demoFloat 1 s1 4 true 102 ∧ RangeSet.contains 4 s2.ackQueue = true
      ∧ onAckDelivery s2 5 = .ok s3 ∧ s3.ackQueue = [] := by
  refine ⟨_, _, _, _, rfl, by decide, rfl, by decide, rfl, by decide⟩

end AQ.Props.C12

#print axioms AQ.Props.C12.ack_sound
#print axioms AQ.Props.C12.ack_frame_sound
#print axioms AQ.Props.C12.reachable_inv
#print axioms AQ.Props.C12.ack_deadline_armed
#print axioms AQ.Props.C12.ack_pending_preserved
#print axioms AQ.Props.C12.ack_timely
#print axioms AQ.Props.C12.ack_largest_always_written
#print axioms AQ.Props.C12.ack_timer_le
#print axioms AQ.Props.C12.ack_next_tx
#print axioms AQ.Props.C12.ack_timely_run
#print axioms AQ.Props.C12.ack_next_tx_run
#print axioms AQ.Props.C12.ack_sound_run
#print axioms AQ.Props.C12.ack_of_ack_prunes_exactly
#print axioms AQ.Props.C12.complete_frame_reports_queue
#print axioms AQ.Props.C12.fits_of_few_ranges
#print axioms AQ.Props.C12.ack_of_ack_prunes_late_arrival
