/-
  Property C17 — "Wire codecs round-trip and agree with an independent codec"
  (all clauses except the TLS handshake messages, which are decided in a
  separate module).

  Models: `AQ.Codec` (`AQ/Model/Codec.lean`: `_buffer.c`, `buffer.py`,
  `quic/packet.py`, header writer of `quic/packet_builder.py`), tied to the
  source by `./check C17` (ops `codec.*`).  Independent encoders:
  `AQ.CodecSpec` (`AQ/Model/CodecSpec.lean`, written from RFC 9000 §16–19,
  RFC 9368, RFC 9369), compared with the real encoders' bytes by the same check
  (ops `spec.*`).

  Reading guide: a composite encoder is a `Script` (the sequence of `push_*`
  calls); `Script.bytes` is what it writes when nothing overflows,
  `Script.run` executes it on a bounded `Buf` (`script_on_buffer` relates the
  two).  `encV v` is the byte string `push_uint_var(v)` writes for `v < 2^62`.
-/
import AQ.Proofs.Codec
import AQ.Proofs.CodecAck
import AQ.Proofs.CodecHeader
import AQ.Proofs.CodecTP
import AQ.Proofs.CodecErr
import AQ.Proofs.CodecFast
import AQ.Proofs.CodecTPDec

namespace AQ.Props.C17
open AQ AQ.Codec AQ.RangeSet

/-! ## The Buffer object -/

/-- **C17** (encoders on a real, bounded buffer).  A sequence of pushes that
would write `bs` on an unbounded buffer writes exactly `bs` at `pos` when
`pos + len(bs) ≤ capacity`; conversely a sequence that completed wrote exactly
`Script.bytes`.  (An exception leaves no new state: every C method checks
before it moves `pos`.) -/
theorem script_on_buffer (sc : Script) (b : Buf) (hb : b.pos ≤ b.mem.length) :
    (∀ bs, sc.bytes = .ok bs → b.pos + bs.length ≤ b.mem.length → sc.run b = .ok (b.wrote bs)) ∧
    (∀ b', sc.run b = .ok b' → ∃ bs, sc.bytes = .ok bs ∧ b.pos + bs.length ≤ b.mem.length ∧ b' = b.wrote bs) :=
  ⟨fun bs h hfit => Script.run_of_bytes sc bs b h hfit, fun b' h => Script.run_inv sc b b' hb h⟩

/-- **C17** a buffer built from bytes reads back what a reader computes on those
bytes, and `tell()` advances by exactly what was consumed. -/
theorem buffer_pull {α : Type} (rd : Rd α) (d r : Bytes) (a : α) (h : rd d = .ok (a, r)) :
    (Buf.ofData d).pull rd = .ok (a, ⟨d, d.length - r.length⟩) := Buf.pull_ofData rd d r a h

/-! ## Variable-length integers -/

/-- **C17** "Encoding then decoding returns the original value for every
variable-length integer … and the bytes produced equal those of an independent
encoder written from the RFCs."  For every `v < 2^62`: `push_uint_var(v)` writes
`encV v`, which is the RFC 9000 §16 encoding, `encode_uint_var(v)` returns it,
and `pull_uint_var` on these bytes followed by anything returns `v` and leaves
the rest. -/
theorem varint_roundtrip (v : Nat) (r : Bytes) (h : v < 2 ^ 62) :
    chunkUintVar (v : Int) = .ok (encV v) ∧ encV v = CodecSpec.encVarint v ∧
      encodeUintVar (v : Int) = .ok (encV v) ∧ pullUintVar (encV v ++ r) = .ok (v, r) := by
  have e62 : (2 : Nat) ^ 62 = 4611686018427387904 := by decide
  rw [e62] at h
  refine ⟨chunkUintVar_ofNat v h, (specVarint_eq v h).symm, ?_, Codec.varint_roundtrip v r h⟩
  have hb : Script.bytes [chunkUintVar (v : Int)] = .ok (encV v) := by
    rw [chunkUintVar_ofNat v h]; simp [Script.bytes]
  obtain ⟨b, hrun, hdata, _, _⟩ := Script.run_fresh _ _ 8 hb (encV_length_le v)
  simp only [encodeUintVar, hrun, hdata]

/-- **C17** "Decoding arbitrary bytes either yields a value that re-encodes to an
equivalent encoding or raises the documented parse error".  Any successful
`pull_uint_var` consumed a prefix of 1, 2, 4 or 8 bytes, produced `v < 2^62`,
and re-encoding `v` (possibly shorter: non-minimal inputs are accepted) decodes
to `v` again.  The only error is `BufferReadError`. -/
theorem varint_decode_canonical (s : Bytes) :
    (∀ v r, pullUintVar s = .ok (v, r) →
      v < 2 ^ 62 ∧ (∃ pre, s = pre ++ r ∧ (pre.length = 1 ∨ pre.length = 2 ∨ pre.length = 4 ∨ pre.length = 8)) ∧
      ∀ r', pullUintVar (encV v ++ r') = .ok (v, r')) ∧
    (∀ e, pullUintVar s = .error e → e = .bufferRead) := by
  have e62 : (2 : Nat) ^ 62 = 4611686018427387904 := by decide
  rw [e62]
  constructor
  · intro v r h
    obtain ⟨h1, h2⟩ := pullUintVar_inv s r v h
    exact ⟨h1, h2, fun r' => Codec.varint_roundtrip v r' h1⟩
  · intro e h
    unfold pullUintVar at h
    repeat' split at h
    all_goals first | (cases h; rfl) | cases h

/-- **C17** `size_uint_var` agrees with the encoder. -/
theorem varint_size (v : Nat) (h : v < 2 ^ 62) : sizeUintVar (v : Int) = .ok (encV v).length := by
  have e62 : (2 : Nat) ^ 62 = 4611686018427387904 := by decide
  rw [e62] at h
  exact sizeUintVar_ofNat v h

/-- **C17** (out-of-range varints; code with `fixes/C17-buffer-int-range.diff`)
`push_uint_var(v)` raises ValueError for every int outside `[0, 2^62)`,
whatever the space left. -/
theorem varint_too_big (v : Int) (h : v < 0 ∨ (2 : Int) ^ 62 ≤ v) : chunkUintVar v = .error (.py .value) := by
  have i62 : (2 : Int) ^ 62 = 4611686018427387904 := by decide
  rw [i62] at h
  exact chunkUintVar_out v h

/-- the code *before* fix 56a913c (format `K` reduces modulo 2^64 first): an exact
characterisation, not a partial result — `push_uint_var(v)` raised ValueError
*if and only if* `v mod 2^64 ≥ 2^62`.  Nothing blocks the full statement
"every out-of-range int raises": it is `varint_too_big` above, proved for the
code as it is now; for the legacy code it is simply false
(`varint_too_big_legacy_false`). -/
theorem varint_too_big_legacy_iff (v : Int) :
    2 ^ 62 ≤ argMask (2 ^ 64) v ↔ chunkUintVarLegacy v = .error (.py .value) := by
  have e62 : (2 : Nat) ^ 62 = 4611686018427387904 := by decide
  have e64 : (2 : Nat) ^ 64 = 18446744073709551616 := by decide
  rw [e62, e64]
  unfold chunkUintVarLegacy
  constructor
  · exact encVarint_big _
  · intro h
    apply Classical.byContradiction
    intro hn
    rw [encVarint_ok _ (by omega)] at h
    cases h

/-- the full statement is refuted for the legacy code -/
theorem varint_too_big_legacy_false :
    ¬ (∀ v : Int, (2 : Int) ^ 62 ≤ v → chunkUintVarLegacy v = .error (.py .value)) := by
  intro h
  have := h (2 ^ 64 + 5) (by decide)
  have hc : chunkUintVarLegacy (2 ^ 64 + 5) = .ok [5] := by decide
  rw [hc] at this
  cases this

/-- … so `push_uint_var(2**64 + 5)` silently wrote `05` (the defect the fix removes) -/
theorem varint_too_big_legacy_counterexample : chunkUintVarLegacy (2 ^ 64 + 5) = .ok [5] := by decide

/-! ## Fixed-width integers and byte strings -/

/-- **C17** "fixed-width integer" (code with `fixes/C17-buffer-int-range.diff`):
for every Python int `v`, `push_uintN(v)` either writes N/8 bytes that
`pull_uintN` reads back as `v` (exactly when `0 ≤ v < 2^N`) or raises
ValueError — no silent truncation. -/
theorem uint_roundtrip (v : Int) (r : Bytes) :
    ((0 ≤ v ∧ v < 2 ^ 8 → ∃ bs, chunkUint8 v = .ok bs ∧ bs.length = 1 ∧ pullUint8 (bs ++ r) = .ok (v.toNat, r)) ∧
     (¬(0 ≤ v ∧ v < 2 ^ 8) → chunkUint8 v = .error (.py .value))) ∧
    ((0 ≤ v ∧ v < 2 ^ 16 → ∃ bs, chunkUint16 v = .ok bs ∧ bs.length = 2 ∧ pullUint16 (bs ++ r) = .ok (v.toNat, r)) ∧
     (¬(0 ≤ v ∧ v < 2 ^ 16) → chunkUint16 v = .error (.py .value))) ∧
    ((0 ≤ v ∧ v < 2 ^ 32 → ∃ bs, chunkUint32 v = .ok bs ∧ bs.length = 4 ∧ pullUint32 (bs ++ r) = .ok (v.toNat, r)) ∧
     (¬(0 ≤ v ∧ v < 2 ^ 32) → chunkUint32 v = .error (.py .value))) ∧
    ((0 ≤ v ∧ v < 2 ^ 64 → ∃ bs, chunkUint64 v = .ok bs ∧ bs.length = 8 ∧ pullUint64 (bs ++ r) = .ok (v.toNat, r)) ∧
     (¬(0 ≤ v ∧ v < 2 ^ 64) → chunkUint64 v = .error (.py .value))) := by
  have i8 : (2 : Int) ^ 8 = 256 := by decide
  have i16 : (2 : Int) ^ 16 = 65536 := by decide
  have i32 : (2 : Int) ^ 32 = 4294967296 := by decide
  have i64 : (2 : Int) ^ 64 = 18446744073709551616 := by decide
  rw [i8, i16, i32, i64]
  refine ⟨⟨fun h => ?_, fun h => ?_⟩, ⟨fun h => ?_, fun h => ?_⟩, ⟨fun h => ?_, fun h => ?_⟩,
    ⟨fun h => ?_, fun h => ?_⟩⟩
  · obtain ⟨n, rfl⟩ := Int.eq_ofNat_of_zero_le h.1
    exact ⟨_, chunkUint8_nat n (by omega), rfl, by simpa [be1] using uint8_roundtrip n r (by omega)⟩
  · simp only [chunkUint8, argChecked_out 255 v (by omega)]
  · obtain ⟨n, rfl⟩ := Int.eq_ofNat_of_zero_le h.1
    exact ⟨_, chunkUint16_nat n (by omega), rfl, by simpa using uint16_roundtrip n r (by omega)⟩
  · simp only [chunkUint16, argChecked_out 65535 v (by omega)]
  · obtain ⟨n, rfl⟩ := Int.eq_ofNat_of_zero_le h.1
    exact ⟨_, chunkUint32_nat n (by omega), rfl, by simpa using uint32_roundtrip n r (by omega)⟩
  · simp only [chunkUint32, argChecked_out 4294967295 v (by omega)]
  · obtain ⟨n, rfl⟩ := Int.eq_ofNat_of_zero_le h.1
    exact ⟨_, chunkUint64_nat n (by omega), rfl, by simpa using uint64_roundtrip n r (by omega)⟩
  · simp only [chunkUint64, argChecked_out 18446744073709551615 v (by omega)]

/-- the code *before* the fix (formats `B`,`H`,`I`,`K`): the truncation law —
`push_uintN(v)` never raised on the value and `pull_uintN` read back `v mod 2^N`. -/
theorem uint_truncation_legacy (v : Int) (r : Bytes) :
    (∃ bs, chunkUint8Legacy v = .ok bs ∧ pullUint8 (bs ++ r) = .ok (argMask (2 ^ 8) v, r)) ∧
    (∃ bs, chunkUint16Legacy v = .ok bs ∧ pullUint16 (bs ++ r) = .ok (argMask (2 ^ 16) v, r)) ∧
    (∃ bs, chunkUint32Legacy v = .ok bs ∧ pullUint32 (bs ++ r) = .ok (argMask (2 ^ 32) v, r)) ∧
    (∃ bs, chunkUint64Legacy v = .ok bs ∧ pullUint64 (bs ++ r) = .ok (argMask (2 ^ 64) v, r)) := by
  refine ⟨⟨_, rfl, ?_⟩, ⟨_, rfl, ?_⟩, ⟨_, rfl, ?_⟩, ⟨_, rfl, ?_⟩⟩
  · exact uint8_roundtrip _ _ (argMask_lt _ _ (by decide))
  · exact uint16_roundtrip _ _ (argMask_lt _ _ (by decide))
  · exact uint32_roundtrip _ _ (argMask_lt _ _ (by decide))
  · exact uint64_roundtrip _ _ (argMask_lt _ _ (by decide))

/-- … so `push_uint16(65536)` silently wrote `0000` (the defect the fix removes) -/
theorem uint_truncation_legacy_counterexample : chunkUint16Legacy 65536 = .ok [0, 0] := by decide

/-- **C17** `push_bytes` / `pull_bytes(len)` round trip, and `pull_bytes(n)`
returns exactly `n` bytes or raises. -/
theorem bytes_roundtrip (d r : Bytes) (h : d.length < 2 ^ 63) :
    pullBytes (d.length : Int) (d ++ r) = .ok (d, r) ∧
    (∀ n s d' r', pullBytes n s = .ok (d', r') → 0 ≤ n ∧ s = d' ++ r' ∧ (d'.length : Int) = n) :=
  ⟨pullBytes_append d r (by simpa using h), fun n s d' r' h' => pullBytes_inv n s d' r' h'⟩

/-! ## ACK frames -/

/-- **C17** "ACK range set": for every well-formed non-empty `RangeSet` whose
packet numbers are below 2^62 and every delay below 2^62, `push_ack_frame`
writes the RFC 9000 §19.3 encoding (`CodecSpec.encAck`) and `pull_ack_frame`
on these bytes followed by anything returns the same ranges and delay. -/
theorem ack_roundtrip (rs : List Rg) (delay : Nat) (r : Bytes) (hwf : WF rs) (hne : rs ≠ [])
    (hdelay : delay < 2 ^ 62) (hb : ∀ x ∈ rs, x.stop ≤ 2 ^ 62) :
    (ackScript (rs.map IRg.ofRg) (delay : Int)).bytes = .ok (CodecSpec.encAck rs delay) ∧
    pullAck (CodecSpec.encAck rs delay ++ r) = .ok ((rs.map IRg.ofRg, delay), r) := by
  have e62 : (2 : Nat) ^ 62 = 4611686018427387904 := by decide
  rw [e62] at hdelay hb
  have hd := descOK_of_wf rs hwf hne hb
  have h1 := ackScript_bytes delay hdelay _ hd
  have h2 := pullAck_desc delay hdelay _ hd r
  rw [List.reverse_reverse] at h1 h2
  rw [specAck_eq rs delay hdelay hd]
  exact ⟨h1, h2⟩

/-- **C17** "Decoding arbitrary bytes … yields a value that re-encodes to an
equivalent encoding": whatever `pull_ack_frame` accepts (including range sets
with *negative* packet numbers, which the code does not reject) is re-encoded
by `push_ack_frame` without error into bytes that decode to the same value.
`pull_ack_frame` never raises AssertionError: the only errors are
`BufferReadError`s of `pull_uint_var`. -/
theorem ack_decode_reencode (s x : Bytes) (rs : List IRg) (delay : Nat)
    (h : pullAck s = .ok ((rs, delay), x)) :
    ∃ bs, (ackScript rs (delay : Int)).bytes = .ok bs ∧ ∀ y, pullAck (bs ++ y) = .ok ((rs, delay), y) := by
  obtain ⟨hd, hdelay⟩ := pullAck_inv s x rs delay h
  refine ⟨ackBytesDesc delay rs.reverse, ?_, ?_⟩
  · have := ackScript_bytes delay hdelay _ hd
    rwa [List.reverse_reverse] at this
  · intro y
    have := pullAck_desc delay hdelay _ hd y
    rwa [List.reverse_reverse] at this

/-! ## Packet headers -/

/-- **C17** first byte of long headers, both versions: `encode_long_header_first_byte`
equals the RFC 9000 §17.2 / RFC 9369 §3.2 layout for the four long packet types
and any 4 low bits. -/
theorem first_byte_eq_spec (version : Nat) (pt : PType) (bits : Nat) (h : pt.isLong = true) (hb : bits < 16) :
    encodeLongHeaderFirstByte version pt bits = .ok (CodecSpec.longFirstByte version pt bits) :=
  firstByte_eq_spec version pt bits h hb

/-- **C17** "Retry … packet": for every non-zero 32-bit version (hence both QUIC
versions), CID lengths 0..20, any token, any 16-byte integrity tag and any 4
unused bits, `encode_quic_retry` produces the RFC 9000 §17.2.5 bytes and
`pull_quic_header` returns the same fields and the total length. -/
theorem retry_roundtrip (hcl : Option Int) (version unused : Nat) (dcid scid token tag : Bytes)
    (hv : version < 2 ^ 32) (hv0 : version ≠ 0) (hu : unused < 16)
    (hd : dcid.length ≤ 20) (hs : scid.length ≤ 20) (htag : tag.length = 16) (htok : token.length < 2 ^ 62) :
    encodeQuicRetry version scid dcid token tag unused =
      .ok (CodecSpec.encRetry version dcid scid token tag unused) ∧
    pullQuicHeader hcl (CodecSpec.encRetry version dcid scid token tag unused) =
      .ok ({ version := some version, ptype := .retry,
             packetLength := (CodecSpec.encRetry version dcid scid token tag unused).length,
             dcid := dcid, scid := scid, token := token, tag := tag, versions := [] }, []) := by
  have hv' : version < 4294967296 := by simpa using hv
  have htok' : token.length < 9223372036854775808 := by
    have : (2 : Nat) ^ 62 = 4611686018427387904 := by decide
    omega
  rw [specRetry_eq]
  refine ⟨encodeQuicRetry_eq version unused scid dcid token tag hv' hu (by omega) (by omega) htag, ?_⟩
  rw [retry_header hcl version unused dcid scid token tag hv' hv0 hu hd hs htag htok']
  rw [longPrefix_length, List.length_append, htag]
  congr 3

/-- **C17** "Version Negotiation packet": for CID lengths 0..20, any list of 32-bit
versions and any random byte, `encode_quic_version_negotiation` produces the RFC
9000 §17.2.1 bytes and `pull_quic_header` returns the same fields. -/
theorem vn_roundtrip (hcl : Option Int) (rnd : Nat) (dcid scid : Bytes) (vs : List Nat)
    (hr : rnd < 128) (hd : dcid.length ≤ 20) (hs : scid.length ≤ 20) (hvs : ∀ v ∈ vs, v < 2 ^ 32) :
    encodeQuicVersionNegotiation rnd scid dcid (vs.map (fun (v : Nat) => (v : Int))) =
      .ok (CodecSpec.encVersionNegotiation rnd dcid scid vs) ∧
    pullQuicHeader hcl (CodecSpec.encVersionNegotiation rnd dcid scid vs) =
      .ok ({ version := some 0, ptype := .versionNegotiation,
             packetLength := (CodecSpec.encVersionNegotiation rnd dcid scid vs).length,
             dcid := dcid, scid := scid, token := [], tag := [], versions := vs }, []) := by
  have hvs' : ∀ v ∈ vs, v < 4294967296 := fun v hv => by simpa using hvs v hv
  have hor : rnd ||| 128 = 128 + rnd := by
    have : ∀ x, x < 128 → x ||| 128 = 128 + x := by decide +kernel
    exact this rnd hr
  rw [specVN_eq]
  constructor
  · rw [← hor]
    exact encodeQuicVersionNegotiation_eq rnd scid dcid vs (by omega) (by omega) (by omega) hvs'
  · have hp := lor128_props rnd (by omega)
    rw [hor] at hp
    unfold pullQuicHeader
    exact vn_header _ hcl _ dcid scid vs hp.1 hp.2 hd hs hvs'

/-- **C17** "packet header", long headers (Initial / 0-RTT / Handshake × version 1
and 2 and any other non-zero version × CID lengths 0..20 × any token): the
header `QuicPacketBuilder._end_packet` writes equals the RFC 9000 §17.2 layout
(`CodecSpec.encLongHeader`, Length on 2 bytes, 2-byte packet number), and
`pull_quic_header` on it followed by a payload `x` of at least the declared
length returns the same fields; it stops after the Length field (the two
packet-number bytes are the start of what is left). -/
theorem long_header_roundtrip (hcl : Option Int) (version : Nat) (pt : PType) (dcid scid token x : Bytes)
    (length pn : Nat) (hpt : pt = .initial ∨ pt = .zeroRtt ∨ pt = .handshake)
    (htoken : pt ≠ .initial → token = [])
    (hv : version < 2 ^ 32) (hv0 : version ≠ 0) (hd : dcid.length ≤ 20) (hs : scid.length ≤ 20)
    (htok : token.length < 2 ^ 62) (hlen : length < 16384) (hx : length ≤ 2 + x.length) :
    (builderLongHeaderScript version pt dcid scid token length pn).bytes =
      .ok (CodecSpec.encLongHeader version pt dcid scid token 1 length 2 (pn % 65536)) ∧
    ∃ hdr, CodecSpec.encLongHeader version pt dcid scid token 1 length 2 (pn % 65536) = hdr ++ be2 (pn % 65536) ∧
      pullQuicHeader hcl (hdr ++ (be2 (pn % 65536) ++ x)) =
        .ok ({ version := some version, ptype := pt, packetLength := hdr.length + length,
               dcid := dcid, scid := scid, token := token, tag := [], versions := [] },
             be2 (pn % 65536) ++ x) := by
  have hv' : version < 4294967296 := by simpa using hv
  have htok' : token.length < 4611686018427387904 := by
    have : (2 : Nat) ^ 62 = 4611686018427387904 := by decide
    omega
  rw [specLongHeader_eq version pt dcid scid token length pn htok']
  refine ⟨builderLongHeader_bytes version pt dcid scid token length pn hpt hv' (by omega) (by omega) htok' hlen, ?_⟩
  have hx' : length ≤ (be2 (pn % 65536) ++ x).length := by simp [be2]; omega
  rcases hpt with rfl | hpt
  · refine ⟨longPrefix (CodecSpec.longFirstByte version .initial 1) version dcid scid
      (encV token.length ++ (token ++ be2 (length + 16384))), ?_, ?_⟩
    · simp [longPrefix, builderRest]
    · have := initial_header hcl version 1 dcid scid token (be2 (pn % 65536) ++ x) length hv' hv0 (by omega)
        hd hs htok' hlen hx'
      have e : longPrefix (CodecSpec.longFirstByte version .initial 1) version dcid scid
          (encV token.length ++ (token ++ be2 (length + 16384))) ++ (be2 (pn % 65536) ++ x) =
          longPrefix (CodecSpec.longFirstByte version .initial 1) version dcid scid
          (encV token.length ++ (token ++ (be2 (length + 16384) ++ (be2 (pn % 65536) ++ x)))) := by
        simp [longPrefix]
      rw [e, this, longPrefix_length]
      simp only [List.length_append, be2, List.length_cons, List.length_nil]
      congr 3
      omega
  · have hne : pt ≠ .initial := by rcases hpt with rfl | rfl <;> simp
    have htk := htoken hne
    subst htk
    refine ⟨longPrefix (CodecSpec.longFirstByte version pt 1) version dcid scid (be2 (length + 16384)), ?_, ?_⟩
    · simp [longPrefix, builderRest, hne]
    · have := plain_long_header hcl version 1 pt dcid scid (be2 (pn % 65536) ++ x) length hpt hv' hv0 (by omega)
        hd hs hlen hx'
      have e : longPrefix (CodecSpec.longFirstByte version pt 1) version dcid scid (be2 (length + 16384)) ++
          (be2 (pn % 65536) ++ x) =
          longPrefix (CodecSpec.longFirstByte version pt 1) version dcid scid
          (be2 (length + 16384) ++ (be2 (pn % 65536) ++ x)) := by
        simp [longPrefix]
      rw [e, this, longPrefix_length]
      simp only [be2, List.length_cons, List.length_nil]

/-- **C17** "packet header", short header: for spin bit, key phase ∈ {0,1} and any
connection id, the header the builder writes equals the RFC 9000 §17.3.1 layout
and `pull_quic_header(buf, host_cid_length=len(cid))` returns the connection id,
type ONE_RTT and the whole datagram as packet length. -/
theorem short_header_roundtrip (spin kp : Nat) (dcid x : Bytes) (pn : Nat) (hsp : spin < 2) (hkp : kp < 2)
    (hd : dcid.length < 2 ^ 63) :
    (builderShortHeaderScript spin kp dcid pn).bytes =
      .ok (CodecSpec.encShortHeader spin kp dcid 2 (pn % 65536)) ∧
    pullQuicHeader (some (dcid.length : Int)) (CodecSpec.encShortHeader spin kp dcid 2 (pn % 65536) ++ x) =
      .ok ({ version := none, ptype := .oneRtt,
             packetLength := (CodecSpec.encShortHeader spin kp dcid 2 (pn % 65536) ++ x).length,
             dcid := dcid, scid := [], token := [], tag := [], versions := [] }, be2 (pn % 65536) ++ x) := by
  rw [specShortHeader_eq]
  refine ⟨builderShortHeader_bytes spin kp dcid pn hsp hkp, ?_⟩
  obtain ⟨_, p2, p3⟩ := short_fb_props spin hsp kp hkp
  have hfb : CodecSpec.shortFirstByte spin kp 2 < 256 := by unfold CodecSpec.shortFirstByte; omega
  have e : CodecSpec.shortFirstByte spin kp 2 = 64 + 32 * spin + 4 * kp + 1 := rfl
  rw [← e] at p2 p3
  have := short_header (CodecSpec.shortFirstByte spin kp 2) dcid (be2 (pn % 65536) ++ x) hfb p2 p3
    (by simpa using hd)
  simp only [List.cons_append, List.append_assoc]
  rw [this]
  simp only [List.length_cons, List.length_append]
  congr 3
  omega

/-! ## Transport parameters -/

/-- **C17** "transport-parameter set": for every parameter set whose present
fields are listed in `PARAMS` with in-range values (`ValOK`: integers < 2^62,
byte strings ≤ 65536 bytes, preferred address with 4/16-byte non-zero hosts,
16-bit ports, CID < 256 bytes, 16-byte token, version information with
non-zero 32-bit versions), `push_quic_transport_parameters` writes the RFC 9000
§18 encoding of the present parameters in ascending id order, and
`pull_quic_transport_parameters` on these bytes returns the same set. -/
theorem tp_roundtrip (p : TP) (h : TPValid p) :
    (tpScript p).bytes = .ok (CodecSpec.encParams (entriesOver p PARAMS)) ∧
    pullTransportParameters (CodecSpec.encParams (entriesOver p PARAMS)) = .ok (p, []) := by
  rw [specParams_eq p PARAMS (validOver_params p h)]
  exact ⟨tpScript_bytes p h, pullTransportParameters_bytes p h⟩

/-- **C17** "never reading past the declared length of an enclosing field": a
transport parameter that is accepted consumed its id, its length `len` and
exactly `len` further bytes — each parameter parser (integer, bytes, flag,
preferred address, version information, unknown id) is confined to the
declared length or the whole decode raises ValueError/BufferReadError. -/
theorem tp_param_bounded (q q' : TP) (s s' : Bytes) (h : pullParam q s = .ok (q', s')) :
    ∃ id len s0 s1 body, pullUintVar s = .ok (id, s0) ∧ pullUintVar s0 = .ok (len, s1) ∧
      s1 = body ++ s' ∧ body.length = len :=
  pullParam_confined q q' s s' h

/-- **C17** "Decoding arbitrary bytes either yields a value that re-encodes to an
equivalent encoding or raises …": whatever `pull_quic_transport_parameters`
accepts from at most 65536 bytes (the TLS extension is at most 65535 bytes) has
consumed the whole input, is in range, and `push_quic_transport_parameters`
re-encodes it (canonical order, minimal varints, unknown ids dropped) into bytes
that decode to the same parameter set. -/
theorem tp_decode_reencode (s r : Bytes) (p : TP) (hs : s.length ≤ 65536)
    (h : pullTransportParameters s = .ok (p, r)) :
    r = [] ∧ ∃ bs, (tpScript p).bytes = .ok bs ∧ pullTransportParameters bs = .ok (p, []) := by
  obtain ⟨hv, hr⟩ := pullTransportParameters_valid s r p hs h
  exact ⟨hr, tpBytes p, tpScript_bytes p hv, pullTransportParameters_bytes p hv⟩

/-- **C17** the fuel used to model `while not buf.eof()` never decides an outcome. -/
theorem tp_fuel_irrelevant (n : Nat) (s : Bytes) (h : s.length ≤ n) :
    pullParams n TP.empty s = pullTransportParameters s :=
  pullParams_fuel n s.length TP.empty s h (Nat.le_refl _)

/-! ## Error classes ("raises the documented parse error") -/

/-- **C17** `pull_ack_frame` can only raise `BufferReadError`: the
`assert stop > start` inside `RangeSet.add` is unreachable from it. -/
theorem ack_errors (s : Bytes) (e : Err) (h : pullAck s = .error e) : e = .bufferRead :=
  pullAck_err s e h

/-- **C17** `pull_quic_transport_parameters` can only raise `ValueError` or its
subclass `BufferReadError` — what `connection.py` turns into
TRANSPORT_PARAMETER_ERROR (`except ValueError`). -/
theorem tp_errors (s : Bytes) (e : Err) (h : pullTransportParameters s = .error e) :
    e = .bufferRead ∨ e = .py .value :=
  pullTransportParameters_err s e h

/-! ## The compiled driver's shortcuts are the model -/

/-- the driver evaluates scripts on fresh buffers through `Script.runFresh` and
`tpScriptOverFast`; both equal the buffer-based model for all inputs. -/
theorem driver_shortcuts (sc : Script) (cap : Nat) (p : TP) :
    (Script.runFresh sc cap =
      match Script.run sc (Buf.ofCapacity cap) with
      | .ok b => .ok (b.tell, b.data)
      | .error e => .error e) ∧
    tpScriptOverFast p PARAMS = tpScript p :=
  ⟨runFresh_eq sc cap, tpScriptOverFast_eq p PARAMS⟩

/-! ## Non-vacuity -/

example : (2 : Nat) ^ 62 - 1 < 2 ^ 62 := by decide
example : pullUintVar (encV 16384 ++ [7]) = .ok (16384, [7]) := by decide
example : encV 16383 = [0x7f, 0xff] := by decide
/-- a non-minimal encoding is accepted and re-encodes shorter -/
example : pullUintVar [0x40, 0x05] = .ok (5, []) ∧ encV 5 = [0x05] := by decide
example : WF [⟨0, 3⟩, ⟨5, 7⟩] ∧ ([⟨0, 3⟩, ⟨5, 7⟩] : List Rg) ≠ [] := by
  refine ⟨⟨by decide, by decide, ?_⟩, by simp⟩
  show (5 : Nat) < 7
  decide
example : CodecSpec.encAck [⟨0, 3⟩, ⟨5, 7⟩] 9 = [0x06, 0x09, 0x01, 0x01, 0x01, 0x02] := by decide
/-- `pull_ack_frame` accepts a first range larger than the largest acknowledged: negative packet numbers -/
example : pullAck [0x02, 0x00, 0x00, 0x05] = .ok (([⟨-3, 3⟩], 0), []) := by decide
example : PType.isLong .initial = true ∧ (1 : Nat) < 2 ^ 32 ∧ (1 : Nat) ≠ 0 := by decide
example : TPValid (TP.empty.set 1 (.int 5)) := by
  intro id v h
  simp only [TP.set, TP.empty] at h
  split at h
  · subst_vars; cases h; exact ⟨.int, by decide, by simp [ValOK]⟩
  · cases h
/-- a parameter whose value runs over its declared length is rejected -/
example : pullTransportParameters [0x01, 0x01, 0x40, 0x05] = .error (.py .value) := rfl

end AQ.Props.C17

#print axioms AQ.Props.C17.script_on_buffer
#print axioms AQ.Props.C17.buffer_pull
#print axioms AQ.Props.C17.varint_roundtrip
#print axioms AQ.Props.C17.varint_decode_canonical
#print axioms AQ.Props.C17.varint_size
#print axioms AQ.Props.C17.varint_too_big
#print axioms AQ.Props.C17.varint_too_big_legacy_iff
#print axioms AQ.Props.C17.varint_too_big_legacy_false
#print axioms AQ.Props.C17.varint_too_big_legacy_counterexample
#print axioms AQ.Props.C17.uint_roundtrip
#print axioms AQ.Props.C17.uint_truncation_legacy
#print axioms AQ.Props.C17.uint_truncation_legacy_counterexample
#print axioms AQ.Props.C17.bytes_roundtrip
#print axioms AQ.Props.C17.ack_roundtrip
#print axioms AQ.Props.C17.ack_decode_reencode
#print axioms AQ.Props.C17.first_byte_eq_spec
#print axioms AQ.Props.C17.retry_roundtrip
#print axioms AQ.Props.C17.vn_roundtrip
#print axioms AQ.Props.C17.long_header_roundtrip
#print axioms AQ.Props.C17.short_header_roundtrip
#print axioms AQ.Props.C17.tp_roundtrip
#print axioms AQ.Props.C17.tp_param_bounded
#print axioms AQ.Props.C17.tp_fuel_irrelevant
#print axioms AQ.Props.C17.ack_errors
#print axioms AQ.Props.C17.tp_errors
#print axioms AQ.Props.C17.driver_shortcuts
#print axioms AQ.Props.C17.tp_decode_reencode
