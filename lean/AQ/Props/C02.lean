/-
  Property C02, first part:
  "… and a truncated packet number is always expanded to the candidate closest
   to the next expected number."

  Code: `decode_packet_number(truncated, num_bits, expected)` in
  src/aioquic/quic/packet.py, modelled by `AQ.Codec.decodePacketNumber`
  (tied to the source by `./check C02`, op `codec.pn`).  The remaining parts of
  C02 (packet protection, altered packets) are decided elsewhere.
-/
import AQ.Proofs.CodecPn

namespace AQ.Props.C02
open AQ AQ.Codec

/-- **C02** "a truncated packet number is always expanded to the candidate
closest to the next expected number".

For every width `bits` (the code uses 8, 16, 24, 32; proved for 1 ≤ bits ≤ 62),
every `truncated < 2^bits` and every `expected` (unbounded, as in Python) the
result `r` of `decode_packet_number`

* is a candidate: `r ≡ truncated (mod 2^bits)`;
* is at least as close to `expected` as every candidate `c < 2^62`
  (`adiff a b = |a − b|`); candidates ≥ 2^62 are excluded by the code's guard
  `candidate < (1 << 62) - window`, candidates < 0 by `candidate >= window`
  (RFC 9000 A.3 has exactly these two guards);
* when two candidates are equally close (distance exactly `2^bits / 2`) the
  larger one is chosen: the window is `(expected − half, expected + half]`;
* stays below 2^62 whenever `expected` is. -/
theorem pn_decode_closest (bits truncated expected : Nat) (h1 : 1 ≤ bits) (h62 : bits ≤ 62)
    (ht : truncated < 2 ^ bits) :
    decodePacketNumber truncated bits expected % 2 ^ bits = truncated ∧
    (∀ c, c % 2 ^ bits = truncated → c < 2 ^ 62 →
        adiff (decodePacketNumber truncated bits expected) expected ≤ adiff c expected) ∧
    (∀ c, c % 2 ^ bits = truncated → c < 2 ^ 62 →
        adiff c expected = adiff (decodePacketNumber truncated bits expected) expected →
        c ≤ decodePacketNumber truncated bits expected) ∧
    (expected < 2 ^ 62 → decodePacketNumber truncated bits expected < 2 ^ 62) := by
  have e62 : (2 : Nat) ^ 62 = 4611686018427387904 := by decide
  rw [e62]
  refine ⟨pn_mod _ _ _ h1 ht, ?_, ?_, pn_lt _ _ _ h1 h62 ht⟩
  · intro c hc hc62
    exact (pn_closest _ _ _ h1 ht c hc hc62).1
  · intro c hc hc62
    exact (pn_closest _ _ _ h1 ht c hc hc62).2

/-- **C02** round trip: a packet number `pn < 2^62` sent truncated to its low
`bits` bits is recovered exactly when it lies in the window
`expected − 2^(bits−1) < pn ≤ expected + 2^(bits−1)`.
(The window is half-open on the *lower* side: `pn = expected − 2^(bits−1)` is
decoded as `expected + 2^(bits−1)`, see `pn_window_lower_edge`.) -/
theorem pn_roundtrip (pn bits expected : Nat) (h1 : 1 ≤ bits) (hpn : pn < 2 ^ 62)
    (hlo : expected < pn + 2 ^ (bits - 1)) (hhi : pn ≤ expected + 2 ^ (bits - 1)) :
    decodePacketNumber (pn % 2 ^ bits) bits expected = pn := by
  have e62 : (2 : Nat) ^ 62 = 4611686018427387904 := by decide
  rw [e62] at hpn
  have hh : 2 ^ bits / 2 = 2 ^ (bits - 1) := by
    obtain ⟨k, rfl⟩ : ∃ k, bits = k + 1 := ⟨bits - 1, by omega⟩
    rw [Nat.pow_succ]; simp
  exact Codec.pn_roundtrip pn bits expected h1 hpn (by rw [hh]; exact hlo) (by rw [hh]; exact hhi)

/-! ### the hypotheses are satisfiable, and the edges are as stated -/

/-- RFC 9000 A.3 worked example: expected 0xa82f30eb, 16 bits 0x9b32 → 0xa82f9b32 -/
example : decodePacketNumber 0x9b32 16 0xa82f30eb = 0xa82f9b32 := by decide

/-- the lower edge of the window is *not* recovered (tie goes up) -/
theorem pn_window_lower_edge : decodePacketNumber ((1000 - 128) % 2 ^ 8) 8 1000 = 1000 + 128 := by decide

/-- the upper edge is recovered -/
example : decodePacketNumber ((1000 + 128) % 2 ^ 8) 8 1000 = 1000 + 128 := by decide

/-- the 2^62 guard: the closer candidate 2^62 is not a packet number, the code keeps 2^62 − 256 -/
example : decodePacketNumber 0 8 (2 ^ 62 - 1) = 2 ^ 62 - 256 := by decide

/-- the `candidate >= window` guard: no negative result near 0 -/
example : decodePacketNumber 255 8 0 = 255 := by decide

example : ∃ bits t e : Nat, 1 ≤ bits ∧ bits ≤ 62 ∧ t < 2 ^ bits ∧ e < 2 ^ 62 := ⟨8, 3, 77, by decide⟩

end AQ.Props.C02

#print axioms AQ.Props.C02.pn_decode_closest
#print axioms AQ.Props.C02.pn_roundtrip
#print axioms AQ.Props.C02.pn_window_lower_edge
