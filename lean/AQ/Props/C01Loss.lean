/-
  Property C01, liveness part: "loss detection eventually reports an undelivered
  outstanding frame LOST" — the hypothesis that `c01_liveness_partial` /
  `c01_liveness_bounded_partial` (AQ/Props/C01.lean) leave open, discharged for
  the recovery model AQ/Model/Recovery.lean (tied bit-exactly to recovery.py by
  checks/c08.py).  C08 `callbacks_once` is the "at most once" half; these
  theorems are the "at least once" half.

  Setting.  `run A (Rec.init …) ops` is ANY history of the public recovery API
  (`on_packet_sent`, `on_ack_received`, `on_loss_detection_timeout`,
  `discard_space`), for EVERY float arithmetic `A : FArith F`.  Caller
  obligation `WFI`: packet numbers handed to `on_packet_sent` increase within a
  space (the connection draws them from one increasing counter) and packet
  objects are distinct.  It implies C08's `WF`.  The increasing order matters:
  `_detect_loss` walks `sent_packets` in insertion order and BREAKS at the first
  packet number above `largest_acked_packet`.
-/
import AQ.Proofs.RecoveryLoss
import AQ.Props.C08

namespace AQ.Props.C01Loss
open AQ AQ.RangeSet AQ.Recovery

variable {F : Type}

/-- caller obligations on a history (see the header) -/
structure WFI (A : FArith F) (r₀ : Rec F) (ops : List (Op F)) : Prop where
  inc : IncFrom A r₀ ops
  uids : (sentUids ops).Nodup

theorem WFI.wf {A : FArith F} {r₀ : Rec F} {ops : List (Op F)} (h : WFI A r₀ ops) : WF A r₀ ops :=
  ⟨h.inc.fresh A, h.uids⟩

theorem incFrom_snoc (A : FArith F) (r : Rec F) (ops : List (Op F)) (op : Op F)
    (h : IncFrom A r ops) (ho : IncPn (run A r ops) op) : IncFrom A r (ops ++ [op]) := by
  induction ops generalizing r with
  | nil => exact ⟨ho, trivial⟩
  | cons o rest ih => exact ⟨h.1, ih _ h.2 ho⟩

theorem sentUids_snoc_nonsent (ops : List (Op F)) (op : Op F) (h : ∀ i p, op ≠ .sent i p) :
    sentUids (ops ++ [op]) = sentUids ops := by
  induction ops with
  | nil => cases op <;> first | rfl | exact absurd rfl (h _ _)
  | cons o rest ih => cases o <;> simp [sentUids, ih]

/-- a history extended by a call that is not `on_packet_sent` is still well formed -/
theorem WFI.snoc {A : FArith F} {r₀ : Rec F} {ops : List (Op F)} (h : WFI A r₀ ops) (op : Op F)
    (hn : ∀ i p, op ≠ .sent i p) : WFI A r₀ (ops ++ [op]) := by
  refine ⟨incFrom_snoc A r₀ ops op h.inc ?_, by rw [sentUids_snoc_nonsent ops op hn]; exact h.uids⟩
  cases op with
  | sent i p => exact absurd rfl (hn i p)
  | _ => trivial

/-- exactly once: in a reachable state a uid that is in the log is there once,
    and its packet is tracked in no space (C08 `callbacks_once`) -/
theorem logged_once (A : FArith F) (algo : Algo) (mds n : Nat) (rtt0 : F) (ops : List (Op F))
    (h : WFI A (Rec.init A algo mds n rtt0) ops) (u : Nat) (d : Delivery)
    (hm : (u, d) ∈ (run A (Rec.init A algo mds n rtt0) ops).log) :
    ((run A (Rec.init A algo mds n rtt0) ops).log.map (·.1)).count u = 1 ∧
    ∀ s ∈ (run A (Rec.init A algo mds n rtt0) ops).spaces, ∀ q ∈ s.sent, q.uid ≠ u := by
  obtain ⟨c1, c2, -⟩ := AQ.Props.C08.callbacks_once A algo mds n rtt0 ops h.wf
  have h1 := List.nodup_iff_count.1 c1 u
  have h2 : 0 < ((run A (Rec.init A algo mds n rtt0) ops).log.map (·.1)).count u :=
    List.count_pos_iff.2 (List.mem_map.2 ⟨(u, d), hm, rfl⟩)
  exact ⟨by omega, (c2 u d hm).2⟩

/-- reachable states keep `sent_packets` in increasing packet-number order and
    satisfy the C08 ledger invariant -/
theorem reachable (A : FArith F) (algo : Algo) (mds n : Nat) (rtt0 : F) (ops : List (Op F))
    (h : WFI A (Rec.init A algo mds n rtt0) ops) :
    SortedInv (run A (Rec.init A algo mds n rtt0) ops) ∧ Inv (run A (Rec.init A algo mds n rtt0) ops) :=
  ⟨sorted_run A ops _ (sorted_init A algo mds n rtt0) h.inc,
   (run_ok A ops _ (Inv.init A algo mds n rtt0) (h.inc.fresh A)).1⟩

/-! ## 1 + 2. `on_ack_received`: packet threshold and time threshold are complete -/

/-- Completeness of loss detection on an ACK, both thresholds.  In ANY reachable
    state, process an ACK frame (`on_ack_received(rs, ack_delay, now)`) for space
    `i` that newly acknowledges at least one tracked packet.  Then, with `s'` the
    space afterwards (its `largest_acked_packet` is at least every newly
    acknowledged number, in particular the largest one `L`):
    * every newly acknowledged packet is untracked and reported ACKED;
    * EVERY OTHER packet tracked before with `packet_number + K_PACKET_THRESHOLD(3)
      ≤ largest_acked_packet` (packet threshold), or at or below
      `largest_acked_packet` and sent at or before `now − loss_delay`
      (time threshold; `loss_delay = 9/8 · max(latest_rtt, smoothed_rtt)` resp.
      `9/8 · rtt_initial`, with the RTT sample of this very ACK already taken —
      the code has no K_GRANULARITY floor) is no longer tracked, its delivery
      handlers were invoked with LOST, exactly once in the whole history, and its
      packet object is tracked in no space any more;
    * `pto_count` is reset to 0. -/
theorem loss_on_ack_complete (A : FArith F) (algo : Algo) (mds n : Nat) (rtt0 : F) (ops : List (Op F))
    (h : WFI A (Rec.init A algo mds n rtt0) ops) (i : Nat) (rs : List Rg) (ackDelay now : F)
    (s : Space F) (b : Rg) (hs : (run A (Rec.init A algo mds n rtt0) ops).spaces[i]? = some s)
    (hb : bounds rs = some b) (hnew : ∃ p ∈ s.sent, ackedP ((b.stop : Int) - 1) rs p = true) :
    let r' := run A (Rec.init A algo mds n rtt0) (ops ++ [.ack i rs ackDelay now])
    ∃ s', r'.spaces[i]? = some s' ∧ r'.ptoCount = 0 ∧
      (∀ p ∈ s.sent, ackedP ((b.stop : Int) - 1) rs p = true →
        p.pn ≤ s'.largestAcked ∧ p ∉ s'.sent ∧ (p.uid, Delivery.acked) ∈ r'.log) ∧
      (∀ q ∈ s.sent, ackedP ((b.stop : Int) - 1) rs q = false →
        (q.pn + 3 ≤ s'.largestAcked ∨
          (q.pn ≤ s'.largestAcked ∧ A.le q.sentTime (timeThreshold A r' now) = true)) →
        q ∉ s'.sent ∧ (q.uid, Delivery.lost) ∈ r'.log ∧ (r'.log.map (·.1)).count q.uid = 1 ∧
        ∀ t ∈ r'.spaces, ∀ x ∈ t.sent, x.uid ≠ q.uid) := by
  intro r'
  obtain ⟨hso, _⟩ := reachable A algo mds n rtt0 ops h
  have hr' : r' = step A (run A (Rec.init A algo mds n rtt0) ops) (.ack i rs ackDelay now) := by
    show run A _ (ops ++ _) = _; rw [run_append]; rfl
  have hwf' : WFI A (Rec.init A algo mds n rtt0) (ops ++ [.ack i rs ackDelay now]) :=
    h.snoc _ (by intro j p hc; cases hc)
  cases hok : onAckReceived A (run A (Rec.init A algo mds n rtt0) ops) i rs ackDelay now with
  | error e =>
    exfalso
    rw [onAckReceived_eq A _ i rs ackDelay now s b hs hb] at hok
    unfold ackTail at hok
    simp only [] at hok
    split at hok <;> cases hok
  | ok r1 =>
    have e1 : r' = r1 := by rw [hr']; simp only [step, hok]
    obtain ⟨s', hsp⟩ := onAckReceived_spec A _ r1 i rs ackDelay now s b hs hb
      (hso s (List.mem_of_getElem? hs)) hnew hok
    rw [← e1] at hsp
    refine ⟨s', hsp.space, hsp.pto, hsp.acked, ?_⟩
    intro q hq hnq hthr
    have hle : q.pn ≤ s'.largestAcked := by rcases hthr with h1 | h1 <;> omega
    have hc : lostCond A s'.largestAcked (timeThreshold A r' now) q := by
      rcases hthr with h1 | h1
      · exact Or.inl h1
      · exact Or.inr h1.2
    obtain ⟨k1, k2⟩ := hsp.lost q hq hnq hle hc
    obtain ⟨k3, k4⟩ := logged_once A algo mds n rtt0 _ hwf' q.uid Delivery.lost k2
    exact ⟨k1, k2, k3, k4⟩

/-- After the same ACK: a packet at or below `largest_acked_packet` that is STILL
    tracked is within both thresholds, the space's `loss_time` is set, and
    `get_loss_detection_time()` returns a deadline (not None) — the timer that
    will run `_detect_loss` again. -/
theorem loss_survivor_arms_timer (A : FArith F) (algo : Algo) (mds n : Nat) (rtt0 : F) (ops : List (Op F))
    (h : WFI A (Rec.init A algo mds n rtt0) ops) (i : Nat) (rs : List Rg) (ackDelay now : F)
    (s : Space F) (b : Rg) (hs : (run A (Rec.init A algo mds n rtt0) ops).spaces[i]? = some s)
    (hb : bounds rs = some b) (hnew : ∃ p ∈ s.sent, ackedP ((b.stop : Int) - 1) rs p = true)
    (peerValidated : Bool) :
    let r' := run A (Rec.init A algo mds n rtt0) (ops ++ [.ack i rs ackDelay now])
    ∃ s', r'.spaces[i]? = some s' ∧
      ∀ q ∈ s'.sent, q.pn ≤ s'.largestAcked →
        ¬ (q.pn + 3 ≤ s'.largestAcked) ∧ A.le q.sentTime (timeThreshold A r' now) ≠ true ∧
        s'.lossTime.isSome = true ∧ (getLossDetectionTime A r' peerValidated).isSome = true := by
  intro r'
  obtain ⟨hso, _⟩ := reachable A algo mds n rtt0 ops h
  have hr' : r' = step A (run A (Rec.init A algo mds n rtt0) ops) (.ack i rs ackDelay now) := by
    show run A _ (ops ++ _) = _; rw [run_append]; rfl
  cases hok : onAckReceived A (run A (Rec.init A algo mds n rtt0) ops) i rs ackDelay now with
  | error e =>
    exfalso
    rw [onAckReceived_eq A _ i rs ackDelay now s b hs hb] at hok
    unfold ackTail at hok
    simp only [] at hok
    split at hok <;> cases hok
  | ok r1 =>
    have e1 : r' = r1 := by rw [hr']; simp only [step, hok]
    obtain ⟨s', hsp⟩ := onAckReceived_spec A _ r1 i rs ackDelay now s b hs hb
      (hso s (List.mem_of_getElem? hs)) hnew hok
    rw [← e1] at hsp
    refine ⟨s', hsp.space, ?_⟩
    intro q hq hle
    obtain ⟨t1, t2⟩ := hsp.timer q hq hle
    refine ⟨fun hx => t1 (Or.inl hx), fun hx => t1 (Or.inr hx), t2, ?_⟩
    unfold getLossDetectionTime
    cases hg : getLossSpace A r' with
    | none =>
      have := (getLossSpace_none_iff A r').1 hg s' (List.mem_of_getElem? hsp.space)
      rw [this] at t2; cases t2
    | some j =>
      obtain ⟨sj, tj, h1, h2⟩ := getLossSpace_some A r' j hg
      simp [h1, h2]

/-! ## 2 (continued). The loss timer: `on_loss_detection_timeout` with a `loss_time` set -/

/-- When some space has a `loss_time`, `on_loss_detection_timeout(now)` is
    `_detect_loss(now)` on the space `_get_loss_space()` picks — a space whose
    `loss_time` is set — and that run is complete: every packet of that space at
    or below its `largest_acked_packet` that meets the packet threshold or was
    sent at or before `now − loss_delay` is untracked and reported LOST. -/
theorem loss_timeout_runs_detect (A : FArith F) (algo : Algo) (mds n : Nat) (rtt0 : F) (ops : List (Op F))
    (h : WFI A (Rec.init A algo mds n rtt0) ops) (now : F) (j : Nat)
    (hj : getLossSpace A (run A (Rec.init A algo mds n rtt0) ops) = some j) :
    let r := run A (Rec.init A algo mds n rtt0) ops
    let r' := run A (Rec.init A algo mds n rtt0) (ops ++ [.timeout now])
    r' = detectLoss A r j now ∧
    ∃ s t s', r.spaces[j]? = some s ∧ s.lossTime = some t ∧ r'.spaces[j]? = some s' ∧
      ∀ q ∈ s.sent, q.pn ≤ s.largestAcked →
        (q.pn + 3 ≤ s.largestAcked ∨ A.le q.sentTime (timeThreshold A r now) = true) →
        q ∉ s'.sent ∧ (q.uid, Delivery.lost) ∈ r'.log := by
  intro r r'
  obtain ⟨hso, _⟩ := reachable A algo mds n rtt0 ops h
  have hr' : r' = detectLoss A r j now := by
    show run A _ (ops ++ _) = _
    rw [run_append]
    show onLossDetectionTimeout A r now = _
    unfold onLossDetectionTimeout; rw [hj]
  obtain ⟨s, t, h1, h2⟩ := getLossSpace_some A r j hj
  obtain ⟨s', lost, hd⟩ := detectLoss_spec A r j now s h1 (hso s (List.mem_of_getElem? h1))
  have hlt : j < r.spaces.length := (List.getElem?_eq_some_iff.1 h1).1
  refine ⟨hr', s, t, s', h1, h2, by rw [hr', hd.spaces]; exact List.getElem?_set_self hlt, ?_⟩
  intro q hq hle hc
  rw [hr']
  exact hd.lost_reported (hd.complete q hq hle hc)

/-- `loss_time` is the earliest DEADLINE of the survivors (order facts of the
    arithmetic as hypotheses): after `_detect_loss` on a space in increasing
    order, if a packet at or below `largest_acked_packet` is still tracked then
    `loss_time = sent_time + loss_delay` of one such packet, and
    `loss_time ≤ sent_time + loss_delay` for every such packet. -/
theorem loss_time_is_deadline (A : FArith F) (O : LossOrderFacts A) (r : Rec F) (j : Nat) (now : F) (s : Space F)
    (hs : r.spaces[j]? = some s) (hso : SortedSp s) :
    ∃ s', (detectLoss A r j now).spaces[j]? = some s' ∧
      ∀ q ∈ s'.sent, q.pn ≤ s.largestAcked →
        ∃ t, s'.lossTime = some t ∧ A.le t (A.add q.sentTime (lossDelay A r)) = true ∧
          ∃ q0 ∈ s'.sent, q0.pn ≤ s.largestAcked ∧ t = A.add q0.sentTime (lossDelay A r) := by
  obtain ⟨s', lost, hd⟩ := detectLoss_spec A r j now s hs hso
  have hlt : j < r.spaces.length := (List.getElem?_eq_some_iff.1 hs).1
  refine ⟨s', by rw [hd.spaces]; exact List.getElem?_set_self hlt, ?_⟩
  intro q hq hle
  obtain ⟨hqs, hn, -⟩ := hd.survivor hq hle
  obtain ⟨t, ht, hle'⟩ := detectLoop_deadline A O s.largestAcked (timeThreshold A r now) (lossDelay A r)
    s.sent [] none hso q hqs hle hn
  refine ⟨t, by rw [hd.lossTime_eq]; exact ht, hle', ?_⟩
  rcases detectLoop_attained A s.largestAcked _ _ s.sent [] none t ht with h0 | ⟨q0, hq0, h1, h2, h3⟩
  · cases h0
  · refine ⟨q0, ?_, h1, h3⟩
    rw [hd.sent]
    apply mem_removeAll hq0
    intro p hp he
    obtain ⟨hp1, -, hp3⟩ := hd.sound p hp
    have := eq_of_pn_eq (sortedSp_nodup hso) hq0 hp1 he
    subst this; exact h2 hp3

/-- When `_detect_loss` runs at or after a survivor's own deadline
    (`sent_time + loss_delay ≤ now`, e.g. the timer fired at `loss_time` and this
    survivor is the one that attains it), the survivor is declared lost:
    `sent_time + loss_delay ≤ now` gives `sent_time ≤ now − loss_delay`. -/
theorem loss_timer_fires (A : FArith F) (O : LossOrderFacts A) (r : Rec F) (j : Nat) (now : F) (s : Space F)
    (hs : r.spaces[j]? = some s) (hso : SortedSp s) (q : Pkt F) (hq : q ∈ s.sent) (hle : q.pn ≤ s.largestAcked)
    (hfire : A.le (A.add q.sentTime (lossDelay A r)) now = true) :
    ∃ s', (detectLoss A r j now).spaces[j]? = some s' ∧ q ∉ s'.sent ∧
      (q.uid, Delivery.lost) ∈ (detectLoss A r j now).log := by
  obtain ⟨s', lost, hd⟩ := detectLoss_spec A r j now s hs hso
  have hlt : j < r.spaces.length := (List.getElem?_eq_some_iff.1 hs).1
  have hc : lostCond A s.largestAcked (timeThreshold A r now) q :=
    Or.inr (O.le_sub_of_add_le _ _ _ hfire)
  obtain ⟨k1, k2⟩ := hd.lost_reported (hd.complete q hq hle hc)
  exact ⟨s', by rw [hd.spaces]; exact List.getElem?_set_self hlt, k1, k2⟩

/-! ## 3. No loss time: the PTO probe -/

/-- When no space has a `loss_time` and an ack-eliciting packet is tracked (or the
    peer address is not validated yet), `get_loss_detection_time()` returns the PTO
    deadline `last ack-eliciting send time + get_probe_timeout() · 2^pto_count` —
    never None. -/
theorem pto_deadline (A : FArith F) (algo : Algo) (mds n : Nat) (rtt0 : F) (ops : List (Op F))
    (h : WFI A (Rec.init A algo mds n rtt0) ops) (peerValidated : Bool)
    (hnone : ∀ s ∈ (run A (Rec.init A algo mds n rtt0) ops).spaces, s.lossTime = none)
    (hae : peerValidated = false ∨
      ∃ s ∈ (run A (Rec.init A algo mds n rtt0) ops).spaces, ∃ p ∈ s.sent, p.ackEliciting = true) :
    let r := run A (Rec.init A algo mds n rtt0) ops
    getLossDetectionTime A r peerValidated =
      some (A.add r.lastAeSent (A.mul (getProbeTimeout A r) (A.ofNat (2 ^ r.ptoCount)))) := by
  intro r
  obtain ⟨_, hinv⟩ := reachable A algo mds n rtt0 ops h
  unfold getLossDetectionTime
  rw [(getLossSpace_none_iff A r).2 hnone]
  simp only []
  rw [if_pos]
  rcases hae with hv | ⟨s, hs, p, hp, hpe⟩
  · left; simp [hv]
  · right; exact ae_sum_pos hinv hs hp hpe

/-- …and `on_loss_detection_timeout(now)` then does exactly this: `pto_count += 1`,
    `reschedule_data()` — every CRYPTO packet tracked in any space is untracked
    and reported LOST (so the handshake data is retransmitted) — and one
    `send_probe()` call (`probes` counts them; the connection sets
    `_probe_pending` and sends a PING-carrying packet, whose ACK runs
    `_detect_loss` by `loss_on_ack_complete`).  Nothing else is reported. -/
theorem pto_fires (A : FArith F) (algo : Algo) (mds n : Nat) (rtt0 : F) (ops : List (Op F)) (now : F)
    (hnone : ∀ s ∈ (run A (Rec.init A algo mds n rtt0) ops).spaces, s.lossTime = none) :
    let r := run A (Rec.init A algo mds n rtt0) ops
    let r' := run A (Rec.init A algo mds n rtt0) (ops ++ [.timeout now])
    r'.ptoCount = r.ptoCount + 1 ∧ r'.probes = r.probes + 1 ∧
    (∀ e ∈ r.log, e ∈ r'.log) ∧
    ∀ (j : Nat) (s : Space F), r.spaces[j]? = some s → ∀ p ∈ s.sent, p.isCrypto = true →
      (p.uid, Delivery.lost) ∈ r'.log ∧ ∀ s' : Space F, r'.spaces[j]? = some s' → p ∉ s'.sent := by
  intro r r'
  have hr' : r' = rescheduleData A { r with ptoCount := r.ptoCount + 1 } now := by
    show run A _ (ops ++ _) = _
    rw [run_append]
    show onLossDetectionTimeout A r now = _
    unfold onLossDetectionTimeout; rw [(getLossSpace_none_iff A r).2 hnone]
  obtain ⟨b1, b2, b3, -, b5⟩ := rescheduleFold_facts A now (List.range r.spaces.length)
    { r with ptoCount := r.ptoCount + 1 }
  rw [hr', rescheduleData_eq]
  refine ⟨b1, by simp only []; rw [b2], b3, ?_⟩
  intro j s hs p hp hc
  have hlt : j < r.spaces.length := (List.getElem?_eq_some_iff.1 hs).1
  exact b5 j (List.mem_range.2 hlt) s hs p hp hc

/-! ## 4. From delivery-handler invocations to the `ackFrame` / `loseFrame` steps of StreamSys

  Map (connection.py `_write_stream_frame` / packet_builder `start_frame`): every
  STREAM frame emitted by `StreamSys.emit` (wire index `i` of stream `k`) rides in
  exactly one packet object `u`; the builder registers `sender.on_data_delivery`
  with that frame's (start, stop, fin) on it.  `QuicPacketRecovery` invokes the
  handlers of packet `u` with ACKED / LOST exactly when `(u, acked)` / `(u, lost)`
  enters `log` — that is `StreamSys.ackFrame i` / `loseFrame i` on stream `k`
  (`StreamTable.report`).  With `frames u` the list of (stream, wire index) pairs
  riding in packet `u`:
  * `reports_once` below: each emitted frame is reported at most once — the
    `okOp` obligation of StreamSys (`f.fr ∈ outstanding`) is met by every report
    (C08 `callbacks_once` + one packet per frame);
  * `loss_on_ack_complete`, `loss_timeout_runs_detect`, `pto_fires`: a packet below
    the thresholds / past its deadline IS reported, i.e. its frames get their
    `loseFrame` — the hypothesis `outstanding = []` of
    `c01_liveness_bounded_partial` is eventually established for every frame whose
    packet meets a threshold.
  What remains informal: the builder's registration of handlers (one packet per
  frame, handler args = the frame) is checked by the correspondence of
  checks/c01.py (`Tracer`: every delivery report names an outstanding emitted
  frame), not proved; and that an ACK or the timer actually arrives is the
  network's fairness. -/

/-- the per-frame reports a history of packet reports induces, in order -/
def reportOps (frames : Nat → List (Nat × Nat)) (log : List (Nat × Delivery)) : List ((Nat × Nat) × Delivery) :=
  log.reverse.flatMap (fun e => (frames e.1).map (fun f => (f, e.2)))

/-- each emitted frame is reported (ACKED or LOST) at most once -/
theorem reports_once (frames : Nat → List (Nat × Nat)) (log : List (Nat × Delivery))
    (hlog : (log.map (·.1)).Nodup) (hf : ∀ u, (frames u).Nodup)
    (hdisj : ∀ u v, u ≠ v → ∀ f ∈ frames u, f ∉ frames v) :
    ((reportOps frames log).map (·.1)).Nodup := by
  unfold reportOps
  have hrev : (log.reverse.map (·.1)).Nodup := by rw [List.map_reverse]; exact (List.Perm.nodup_iff (List.reverse_perm _)).2 hlog
  generalize log.reverse = l at hrev
  induction l with
  | nil => simp
  | cons e l ih =>
    simp only [List.map_cons, List.nodup_cons, List.mem_map, not_exists, not_and] at hrev
    simp only [List.flatMap_cons, List.map_append, List.map_map]
    rw [List.nodup_append]
    refine ⟨?_, ih hrev.2, ?_⟩
    · have : (List.map ((fun x => x.1) ∘ fun f => (f, e.2)) (frames e.1)) = frames e.1 := by
        simp [Function.comp_def]
      rw [this]; exact hf e.1
    · intro a ha b hb
      simp only [List.mem_map, Function.comp_apply] at ha
      obtain ⟨f, hfm, rfl⟩ := ha
      simp only [List.mem_map, List.mem_flatMap] at hb
      obtain ⟨x, ⟨e', he', g, hg, rfl⟩, rfl⟩ := hb
      intro heq
      simp only [] at heq
      have hne : e.1 ≠ e'.1 := fun hx => hrev.1 e' he' hx.symm
      exact hdisj e.1 e'.1 hne f hfm (by rw [heq]; exact hg)

/-! ## The hypotheses are satisfiable (tests, not theorems) -/

/-- the order facts hold for exact integer arithmetic (`AQ.Recovery.intArith`,
    times in microseconds) -/
example : LossOrderFacts intArith where
  le_refl := by intro a; simp [intArith]
  le_trans := by intro a b c; simp only [intArith, decide_eq_true_eq]; omega
  le_of_lt := by intro a b; simp only [intArith, decide_eq_true_eq]; omega
  le_of_not_lt := by intro a b; simp only [intArith, decide_eq_false_iff_not, decide_eq_true_eq]; omega
  le_sub_of_add_le := by intro a d n; simp only [intArith, decide_eq_true_eq]; omega

/- NOTE on IEEE-754 doubles (the arithmetic recovery.py really uses): the fact
   `le_sub_of_add_le` — `a + d ≤ n → a ≤ n − d` — can fail by one unit in the last
   place.  Concretely (replayed on the real recovery.py through
   harness/impl_recovery.py, and bit-identical on the model driver):
     rec.new reno 1200 3 rtt_initial=0.4166062851367214
     rec.sent 2 0 100 1 1 0 t=1015.5272674464906      (ack-eliciting, in flight)
     rec.sent 2 1 40 0 0 0  t=1015.5272674464906      (not ack-eliciting)
     rec.ack 2 [1,2) delay 0 now=1015.5282674464906   -> packet 0 survives, loss_time = 1015.9959495172693
     rec.timeout now=1015.9959495172693               (exactly loss_time)
   `_detect_loss` computes time_threshold = now − loss_delay = 1015.5272674464904 <
   sent_time, so packet 0 is NOT declared lost and loss_time is set to the same
   value (= now): a caller whose clock equals the deadline exactly (a virtual-time
   harness) re-fires forever; with a real clock the next call is later and
   `loss_timer_fires` applies.  `loss_timer_fires` therefore keeps the order fact
   as an explicit hypothesis. -/

/-- five packets (the fifth not ack-eliciting: no RTT sample), an ACK for the fifth: 1 and 2 (three or more below) are reported
    LOST, 3 and 4 survive and arm the loss timer; the timer then reports them one
    deadline at a time -/
def exOps : List (Op Int) :=
  [ .sent 0 ⟨1, 100, true, true, false, 1000, 11⟩, .sent 0 ⟨2, 100, true, true, false, 2000, 12⟩,
    .sent 0 ⟨3, 100, true, true, false, 3000, 13⟩, .sent 0 ⟨4, 100, true, true, false, 4000, 14⟩,
    .sent 0 ⟨5, 40, false, false, false, 5000, 15⟩, .ack 0 [⟨5, 6⟩] 0 6000 ]

example : WFI intArith (Rec.init intArith .reno 1200 1 100000) exOps := by
  refine ⟨?_, by decide⟩
  simp only [exOps, IncFrom, IncPn]
  decide

example : (run intArith (Rec.init intArith .reno 1200 1 100000) exOps).log =
    [(12, .lost), (11, .lost), (15, .acked)] ∧
    ((run intArith (Rec.init intArith .reno 1200 1 100000) exOps).spaces.map
      (fun s => (s.sent.map (·.pn), s.lossTime))) = [([3, 4], some 103000)] ∧
    -- the timer fires at `loss_time`: the survivor that attains it is reported, the next deadline is armed
    (run intArith (Rec.init intArith .reno 1200 1 100000) (exOps ++ [.timeout 103000])).log =
    [(13, .lost), (12, .lost), (11, .lost), (15, .acked)] ∧
    ((run intArith (Rec.init intArith .reno 1200 1 100000) (exOps ++ [.timeout 103000])).spaces.map
      (fun s => (s.sent.map (·.pn), s.lossTime))) = [([4], some 104000)] ∧
    (run intArith (Rec.init intArith .reno 1200 1 100000) (exOps ++ [.timeout 103000, .timeout 104000])).log =
    [(14, .lost), (13, .lost), (12, .lost), (11, .lost), (15, .acked)] := by decide

end AQ.Props.C01Loss

#print axioms AQ.Props.C01Loss.logged_once
#print axioms AQ.Props.C01Loss.reachable
#print axioms AQ.Props.C01Loss.loss_on_ack_complete
#print axioms AQ.Props.C01Loss.loss_survivor_arms_timer
#print axioms AQ.Props.C01Loss.loss_timeout_runs_detect
#print axioms AQ.Props.C01Loss.loss_time_is_deadline
#print axioms AQ.Props.C01Loss.loss_timer_fires
#print axioms AQ.Props.C01Loss.pto_deadline
#print axioms AQ.Props.C01Loss.pto_fires
#print axioms AQ.Props.C01Loss.reports_once
