/-
  C06 — the sender never exceeds the peer's flow-control and stream-count limits.

  Model: AQ.Model.FlowSend / AQ.Model.FlowRecv (`Conn`, `Op`, `step`), the code
  of connection.py with the fix commits applied (`Quirks` all off).  The packet
  builder (`remaining_flight_space`, whether `start_frame` raises), the order in
  which the write loop serves the streams, delivery reports and everything the
  peer sends are inputs of the steps: the theorems hold for all of them.

  Hypotheses (`WFRun`, see `Op.wf`):
    * `transportParams tp`: `tp.guarded c ∨ tp.monotone c`.  MAX_* frames are monotone
      by construction (the handlers keep the max, `remote_limits_monotone`).
      `_parse_transport_parameters` has three kinds of applications:
      (1) the first one, on limits that are still 0 (server; client without
          resumption; the remembered parameters loaded by a resuming client) —
          monotone by itself (`invariant_single_handshake`);
      (2) `tp.checked`: the handshake parameters of a server that ACCEPTED this
          client's early data — the code compares each of the six parameters with
          the remembered value and closes with PROTOCOL_VIOLATION when one is smaller
          (`reduced_params_refused`), so the clause holds by construction
          (`guarded`) and the main theorems need no hypothesis on the peer:
          `invariant_resumed_accepted`; `tp_reduction_counterexample` /
          `tp_stream_reduction_counterexample` show the behaviour before that fix
          (quirk `acceptReducedParams`);
      (3) the handshake parameters of a server that REJECTED the early data: they
          are assigned without comparison and nothing else is done (no stream is
          reset, `_remote_max_data_used` and the per-stream limits of the streams
          opened in 0-RTT stay).  A server may choose any parameters there, so
          `tp.monotone c` remains a hypothesis for exactly this case;
          `tp_rejected_counterexample` shows the property fails without it.
    * `dataDelivery` / `resetDelivery`: the stream is not blocked — delivery
      reports exist only for frames that were emitted (recovery, C08), and no
      frame is emitted for a blocked stream (`stream_count`).
  `GWFRun` (used by `ghost_invariant`, `emitted_within_stream_limit`,
  `retransmit_free`) adds: every delivery report names a frame that was emitted
  for that stream and not yet reported — the hypothesis under which C10 proves
  the sender invariant `AQ.Stream.SInv` (AQ.Proofs.StreamSend), to which the
  send half of every stream is connected here; checks/c06.py validates it on
  every real trace.
-/
import AQ.Proofs.FlowGhost4
import AQ.Proofs.FlowRemoteMono

namespace AQ.Props.C06
open AQ AQ.Stream AQ.Flow

/-- a connection before any stream exists (any limits, any configuration) -/
def Fresh (c : Conn) : Prop :=
  c.quirks.unblockHeadOnly = false ∧ c.streams = [] ∧ c.blockedBidi = [] ∧ c.blockedUni = [] ∧
  c.remoteMaxDataUsed = 0 ∧ c.goneSent = 0

/-- the send-side invariant holds after every well-formed operation sequence -/
theorem invariant (c0 : Conn) (hf : Fresh c0) (ops : List Op) (hwf : WFRun c0 ops) : Inv (runState c0 ops) :=
  run_inv (inv_init c0 hf.1 hf.2.1 hf.2.2.1 hf.2.2.2.1 hf.2.2.2.2.1 hf.2.2.2.2.2) ops hwf

/-- "Retransmissions consume no additional credit" / credit is neither double
    counted nor leaked: `_remote_max_data_used` is exactly the sum of the highest
    offsets sent over ALL stream objects ever created (`goneSent` = the streams
    discarded since), whatever the application writes, whatever is lost,
    retransmitted, reset or discarded. -/
theorem credit_ledger (c0 : Conn) (hf : Fresh c0) (ops : List Op) (hwf : WFRun c0 ops) :
    (runState c0 ops).remoteMaxDataUsed = sumHi (runState c0 ops).streams + (runState c0 ops).goneSent :=
  (invariant c0 hf ops hwf).ledger

/-- "At every moment the highest stream offset sent on each stream is within the
    latest per-stream limit received from the peer". -/
theorem stream_limit (c0 : Conn) (hf : Fresh c0) (ops : List Op) (hwf : WFRun c0 ops) :
    ∀ s ∈ (runState c0 ops).streams, s.send.highest ≤ s.maxRemote :=
  fun s hs => ((invariant c0 hf ops hwf).strm s hs).limit

/-- "the sum of highest offsets over all streams is within the peer's connection
    limit". -/
theorem conn_limit (c0 : Conn) (hf : Fresh c0) (ops : List Op) (hwf : WFRun c0 ops) :
    sumHi (runState c0 ops).streams + (runState c0 ops).goneSent ≤ (runState c0 ops).remoteMaxData := by
  have h := invariant c0 hf ops hwf
  rw [← h.ledger]; exact h.connLimit

/-- "no stream is opened beyond the peer's stream-count limits": every STREAM,
    RESET_STREAM or STOP_SENDING frame written by any operation for a locally
    initiated stream `sid` has `sid / 4` below the stream-count limit in force
    when it is written. -/
theorem stream_count (c0 : Conn) (hf : Fresh c0) (ops : List Op) (hwf : WFRun c0 ops) (op : Op)
    (f : WFrame) (sid : Nat) (hfr : f ∈ (step (runState c0 ops) op).2.frames)
    (hs : frameStreamId f = some sid) (hl : localSid (runState c0 ops) sid = true) :
    sid / 4 < maxStreamsFor (runState c0 ops) sid := by
  have h := invariant c0 hf ops hwf
  obtain ⟨a, b, fs, rfl⟩ := step_stream_frames hfr hs
  obtain ⟨_, st, hfind, hnb⟩ := serve_frames hfr
  obtain ⟨hm, hsid⟩ := Conn.find?_mem hfind
  have := (h.strm st hm).count (by rw [hsid]; exact hl) hnb
  rwa [hsid] at this

/-- a fresh connection, also for the receive-side and ghost invariants -/
def FreshAll (c : Conn) : Prop :=
  Fresh c ∧ c.quirks.resetKeepsHighest = false ∧ c.localMaxData.used = 0 ∧ c.goneRecv = 0

/-- no frame emitted yet on any stream -/
def G0 : GMap := fun _ => {}

/-- `GWFRun`: besides `WFRun`, every delivery report names a frame that was
    emitted for that stream and not yet reported (the recovery layer reports each
    sent frame once, C08) — the hypothesis under which C10 proves the sender
    invariant.  Under it every stream's send half satisfies the C10 invariant
    `AQ.Stream.SInv` with its ghost history, and every emitted frame ends at or
    below `highest_offset`. -/
theorem ghost_invariant (c0 : Conn) (hf : FreshAll c0) (ops : List Op) (hwf : GWFRun c0 G0 ops) :
    Inv (runState c0 ops) ∧ RInv (runState c0 ops) ∧ GI (runState c0 ops) (grun c0 G0 ops).2 := by
  have hi := inv_init c0 hf.1.1 hf.1.2.1 hf.1.2.2.1 hf.1.2.2.2.1 hf.1.2.2.2.2.1 hf.1.2.2.2.2.2
  have hr := rinv_init c0 hf.2.1 hf.1.2.1 hf.2.2.1 hf.2.2.2
  have hg : GI c0 G0 := by intro st hs; rw [hf.1.2.1] at hs; simp at hs
  have := grun_inv hi hr hg ops hwf
  rwa [grun_fst] at this

/-- on the wire: a STREAM frame written by any operation ends at or below the
    per-stream limit held for its stream when it is written — FIN-only frames
    included (their offset is the final size, which is at or below
    `highest_offset` by the C10 sender invariant) — and a RESET_STREAM frame
    carries a final size within that limit. -/
theorem emitted_within_stream_limit (c0 : Conn) (hf : FreshAll c0) (ops : List Op) (hwf : GWFRun c0 G0 ops)
    (op : Op) :
    (∀ sid off len fin, WFrame.stream sid off len fin ∈ (step (runState c0 ops) op).2.frames →
      ∃ st, (runState c0 ops).find? sid = some st ∧ off + len ≤ st.maxRemote) ∧
    (∀ sid z, WFrame.resetStream sid z ∈ (step (runState c0 ops) op).2.frames →
      ∃ st, (runState c0 ops).find? sid = some st ∧ z ≤ st.maxRemote) := by
  obtain ⟨h, _, hg⟩ := ghost_invariant c0 hf ops hwf
  constructor
  · intro sid off len fin hfr
    obtain ⟨a, b, fs, rfl⟩ := step_stream_frames hfr rfl
    obtain ⟨st, st1, st', f, used, hfind, e1, e2, hw, rfl, rfl, _, hpost⟩ := serve_stream_ghost hg hfr
    refine ⟨st, hfind, ?_⟩
    have hlim := (h.strm st (Conn.find?_mem hfind).1).limit
    obtain ⟨_, _, _, _, _, w6, _⟩ := writeStreamFrame_spec hw
    have hmo : (maxOffsetFor (runState c0 ops) st1).toNat ≤ st1.maxRemote := by unfold maxOffsetFor; omega
    rw [e1] at w6; rw [e2] at hmo; omega
  · intro sid z hfr
    obtain ⟨a, b, fs, rfl⟩ := step_stream_frames hfr rfl
    obtain ⟨st, hfind, _, rfl⟩ := serve_reset_frame hfr
    exact ⟨st, hfind, (h.strm st (Conn.find?_mem hfind).1).limit⟩

/-- one-step core of `retransmit_free`, for any state whose sender buffer holds
    its pending ranges (`Covers`) -/
theorem retransmit_free_of_covers (c : Conn) (sid sid' off len : Nat) (fin a b : Bool) (fs : Int) (st : Strm)
    (hfr : WFrame.stream sid' off len fin ∈ (serve c sid a b fs).2.frames)
    (hst : c.find? sid = some st) (hcov : Covers st.send) (hbelow : off + len ≤ st.send.highest) :
    (serve c sid a b fs).1.remoteMaxDataUsed = c.remoteMaxDataUsed ∧ (serve c sid a b fs).2.used = 0 := by
  obtain ⟨st0, st1, st', f, used, hfind, _, e1, _, _, hw, _, rfl, rfl, _, hc', hu⟩ := serve_stream_frame hfr
  rw [hst] at hfind; cases hfind
  obtain ⟨_, _, _, w4, w5, _, _⟩ := writeStreamFrame_spec hw
  have hcase := (writeStreamFrame_frame hw).2 (by rw [e1]; exact hcov)
  have hz : used = 0 := by rw [e1] at w4 w5 hcase; omega
  rw [hc', hu, hz]; exact ⟨rfl, rfl⟩

/-- "Retransmissions consume no additional credit": after any well-formed
    operation sequence, a write-loop step that emits a STREAM frame lying entirely
    at or below the highest offset already sent on that stream (a retransmission)
    takes no connection credit.  (`Covers` is no longer a hypothesis: it follows
    from the C10 sender invariant carried by `ghost_invariant`.) -/
theorem retransmit_free (c0 : Conn) (hf : FreshAll c0) (ops : List Op) (hwf : GWFRun c0 G0 ops)
    (sid sid' off len : Nat) (fin a b : Bool) (fs : Int) (st : Strm)
    (hfr : WFrame.stream sid' off len fin ∈ (serve (runState c0 ops) sid a b fs).2.frames)
    (hst : (runState c0 ops).find? sid = some st) (hbelow : off + len ≤ st.send.highest) :
    (serve (runState c0 ops) sid a b fs).1.remoteMaxDataUsed = (runState c0 ops).remoteMaxDataUsed ∧
    (serve (runState c0 ops) sid a b fs).2.used = 0 := by
  obtain ⟨_, _, hg⟩ := ghost_invariant c0 hf ops hwf
  obtain ⟨st0, _, _, _, _, hfind, _, _, _, _, _, hcov, _⟩ := serve_stream_ghost hg hfr
  rw [hst] at hfind; cases hfind
  exact retransmit_free_of_covers _ sid sid' off len fin a b fs st hfr hst hcov hbelow

/-- "data blocked by a limit is sent once the limit is raised", stream-count
    part: a MAX_STREAMS frame raising the limit to `v` releases every blocked
    stream whose index is below `v` (in whatever order the streams were
    created), and only streams at or beyond `v` stay in the blocked list. -/
theorem unblock_progress_streams (c : Conn) (hq : c.quirks.unblockHeadOnly = false) (uni : Bool) (v : Nat)
    (hv : v ≤ STREAM_COUNT_MAX)
    (hraise : (if uni then c.remoteMaxStreamsUni else c.remoteMaxStreamsBidi) < v) :
    (∀ sid ∈ (if uni then (rxMaxStreams c uni v).1.blockedUni else (rxMaxStreams c uni v).1.blockedBidi), ¬ sid / 4 < v) ∧
    (∀ s' ∈ (rxMaxStreams c uni v).1.streams, s'.sid ∈ (if uni then c.blockedUni else c.blockedBidi) →
      s'.sid / 4 < v → s'.isBlocked = false) :=
  rxMaxStreams_releases hq uni v hv hraise

/-- "data blocked by a limit is sent once the limit is raised", data part.
    Exact hypotheses: the stream `sid` exists, is not finished, not blocked by the
    stream count, has no STOP_SENDING / RESET_STREAM pending and was not reset,
    wants to send (`buffer_is_empty` false, first pending range `r` non-empty);
    the limits now leave room beyond the first pending byte
    (`r.start < min(highest + max_data − used, max_stream_data)`); the builder
    offers at least 20 bytes (frame header ≤ 19) and ids / offsets are varints.
    Then the next write-loop step for that stream writes exactly one STREAM frame
    starting at `r.start`, without error, carrying at least one byte. -/
theorem unblock_progress_data (c : Conn) (sid : Nat) (st : Strm) (r : Rg) (rest : List Rg) (a b : Bool) (fs : Int)
    (hf : c.find? sid = some st) (hfin : st.isFinished = false) (hnb : st.isBlocked = false)
    (hstop : st.stopPending = false) (hrp : st.send.resetPending = false) (hrc : st.send.resetCode = none)
    (hne : st.send.bufferIsEmpty = false) (hp : st.send.pending = r :: rest) (hr : r.start < r.stop)
    (hsid : sid ≤ UINT_VAR_MAX) (hoff : r.start ≤ UINT_VAR_MAX) (hfs : 20 ≤ fs)
    (hlim : (r.start : Int) < maxOffsetFor c st) :
    ∃ len fin, (serve c sid a b fs).2.frames = [WFrame.stream sid r.start len fin] ∧
      (serve c sid a b fs).2.err = none ∧ (Covers st.send → 1 ≤ len) :=
  serve_offers hf hfin hnb hstop hrp hrc hne hp hr hsid hoff hfs hlim

/-! ## where the transport-parameter hypothesis comes from -/

/-- MAX_DATA / MAX_STREAMS handlers keep the maximum and nothing else touches the
    limits received from the peer: over ANY operation sequence that does not apply
    transport parameters, `_remote_max_data`, `_remote_max_streams_bidi` and
    `_remote_max_streams_uni` never decrease.  No hypothesis. -/
theorem remote_limits_monotone (c : Conn) (ops : List Op) (h : ∀ op ∈ ops, op.isTP = false) :
    c.remoteMaxData ≤ (runState c ops).remoteMaxData ∧
    c.remoteMaxStreamsBidi ≤ (runState c ops).remoteMaxStreamsBidi ∧
    c.remoteMaxStreamsUni ≤ (runState c ops).remoteMaxStreamsUni :=
  run_rl_mono c ops h

/-- the same over well-formed sequences with transport parameters -/
theorem remote_limits_monotone_wf (c : Conn) (ops : List Op) (hwf : WFRun c ops) :
    c.remoteMaxData ≤ (runState c ops).remoteMaxData ∧
    c.remoteMaxStreamsBidi ≤ (runState c ops).remoteMaxStreamsBidi ∧
    c.remoteMaxStreamsUni ≤ (runState c ops).remoteMaxStreamsUni :=
  run_rl_mono_wf c ops hwf

/-- the hypothesis `TP.monotone` says exactly that `_parse_transport_parameters`
    (which assigns without comparing) does not lower one of the three limits -/
theorem tp_hypothesis_iff (c : Conn) (tp : TP) :
    tp.monotone c ↔
      (c.remoteMaxData ≤ (transportParams c tp).remoteMaxData ∧
       c.remoteMaxStreamsBidi ≤ (transportParams c tp).remoteMaxStreamsBidi ∧
       c.remoteMaxStreamsUni ≤ (transportParams c tp).remoteMaxStreamsUni) :=
  (transportParams_rl_iff c tp).symm

/-- Without 0-RTT resumption the hypothesis is not needed: a connection that starts
    with the three limits at 0 (`QuicConnection.__init__`, no session ticket) and
    applies the peer's transport parameters once, before any MAX_DATA / MAX_STREAMS
    frame, satisfies the send-side invariant — hence `credit_ledger`, `stream_limit`,
    `conn_limit`, `stream_count` — under the delivery hypothesis alone. -/
theorem invariant_single_handshake (c0 : Conn) (hf : Fresh c0)
    (h0 : c0.remoteMaxData = 0 ∧ c0.remoteMaxStreamsBidi = 0 ∧ c0.remoteMaxStreamsUni = 0)
    (pre post : List Op) (tp : TP)
    (hpre : ∀ op ∈ pre, op.touchesRemote = false) (hpost : ∀ op ∈ post, op.isTP = false)
    (hd : WFRunD c0 (pre ++ .transportParams tp :: post)) :
    WFRun c0 (pre ++ .transportParams tp :: post) ∧
    Inv (runState c0 (pre ++ .transportParams tp :: post)) := by
  have hwf := wfRun_single_handshake c0 (by simp [rl, h0]) pre post tp hpre hpost hd
  exact ⟨hwf, invariant c0 hf _ hwf⟩

/-- A resuming client whose early data is accepted: the remembered parameters are
    loaded when it connects (`remembered`, on limits that are still 0), every later
    application of transport parameters is a checked one (`AllTPChecked rest`).  The
    send-side invariant — `credit_ledger`, `stream_limit`, `conn_limit`,
    `stream_count` — holds WITHOUT any hypothesis on the server's parameters: the
    code refuses reduced ones.  (`rest` without `transportParams`: no resumption.)
    Remaining hypothesis: the delivery clause `WFRunD`. -/
theorem invariant_resumed_accepted (c0 : Conn) (hf : Fresh c0)
    (hq : c0.quirks.raiseBeforeWrite = false ∧ c0.quirks.acceptReducedParams = false)
    (h0 : c0.remoteMaxData = 0 ∧ c0.remoteMaxStreamsBidi = 0 ∧ c0.remoteMaxStreamsUni = 0)
    (pre rest : List Op) (remembered : TP)
    (hpre : ∀ op ∈ pre, op.touchesRemote = false) (hrest : AllTPChecked rest)
    (hd : WFRunD c0 (pre ++ .transportParams remembered :: rest)) :
    WFRun c0 (pre ++ .transportParams remembered :: rest) ∧
    Inv (runState c0 (pre ++ .transportParams remembered :: rest)) := by
  have hwf := wfRun_resumed_accepted c0 hq (by simp [rl, h0]) pre rest remembered hpre hrest hd
  exact ⟨hwf, invariant c0 hf _ hwf⟩

/-- what a checked application does, in any state: it refuses — the connection
    closes with PROTOCOL_VIOLATION, the state is untouched and nothing is written —
    exactly when one of the six parameters (absent = 0) is below the remembered
    value; otherwise it assigns and none of the six limits has decreased (the
    per-stream ones included, which `TP.monotone` does not mention). -/
theorem reduced_params_refused (c : Conn) (tp : TP) (hg : tp.guarded c) :
    (tp.reduced c = true ∧ step c (.transportParams tp) = (c, Out.connError PROTOCOL_VIOLATION)) ∨
    (tp.reduced c = false ∧ (step c (.transportParams tp)).2 = {} ∧
      c.remoteMaxData ≤ (step c (.transportParams tp)).1.remoteMaxData ∧
      c.remoteMaxStreamDataBidiLocal ≤ (step c (.transportParams tp)).1.remoteMaxStreamDataBidiLocal ∧
      c.remoteMaxStreamDataBidiRemote ≤ (step c (.transportParams tp)).1.remoteMaxStreamDataBidiRemote ∧
      c.remoteMaxStreamDataUni ≤ (step c (.transportParams tp)).1.remoteMaxStreamDataUni ∧
      c.remoteMaxStreamsBidi ≤ (step c (.transportParams tp)).1.remoteMaxStreamsBidi ∧
      c.remoteMaxStreamsUni ≤ (step c (.transportParams tp)).1.remoteMaxStreamsUni) :=
  rxTransportParams_checked c tp hg

/-- before `fix: client refuses transport parameters reduced after accepted 0-RTT
    data` (quirk `acceptReducedParams`): a server accepts 0-RTT and answers with a
    SMALLER per-stream limit; the stream opened under the remembered limit 5000 keeps
    it, and after the handshake parameters (limit 2 for such streams) NEW data is
    sent at offsets 3..5.  With the fix the same application closes the connection
    and leaves the state untouched. -/
theorem tp_stream_reduction_counterexample :
    let remembered : TP := { maxData := some 10000, maxStreamDataBidiRemote := some 5000, maxStreamsBidi := some 4 }
    let lowered : TP := { maxData := some 10000, maxStreamDataBidiRemote := some 2, maxStreamsBidi := some 4,
                          checked := true }
    let early : List Op := [.transportParams remembered, .sendStreamData 0 [1, 2, 3] false, .serve 0 true true 100]
    let ops : List Op := early ++ [.transportParams lowered, .sendStreamData 0 [4, 5] false]
    let old : Conn := { quirks := { acceptReducedParams := true } }
    ((runState old ops).remoteMaxStreamDataBidiRemote = 2 ∧
     (step (runState old ops) (.serve 0 true true 100)).2.frames = [.stream 0 3 2 false]) ∧
    ((step (runState {} early) (.transportParams lowered)).2 = Out.connError PROTOCOL_VIOLATION ∧
     (step (runState {} early) (.transportParams lowered)).1.remoteMaxStreamDataBidiRemote = 5000) := by
  refine ⟨⟨by decide, by decide⟩, by decide, by decide⟩

/-! ## the hypotheses are needed / satisfiable -/

/-- client, peer grants 10 bytes on the connection and on a stream, one stream -/
def tpA : TP := { maxData := some 10, maxStreamDataBidiRemote := some 10, maxStreamsBidi := some 1 }

def demoOps : List Op :=
  [.transportParams tpA, .sendStreamData 0 [1, 2, 3, 4, 5] false, .serve 0 true true 100]

/-- non-vacuity: a fresh client accepts this well-formed run and sends 5 bytes -/
example : Fresh ({} : Conn) ∧ WFRun {} demoOps ∧ (runState {} demoOps).remoteMaxDataUsed = 5 := by
  refine ⟨⟨rfl, rfl, rfl, rfl, rfl, rfl⟩, ?_, by decide⟩
  simp [WFRun, demoOps, Op.wf, TP.monotone, tpA]

/-- non-vacuity of `invariant_single_handshake`: the demo run is of that shape -/
example : Inv (runState {} demoOps) :=
  (invariant_single_handshake {} ⟨rfl, rfl, rfl, rfl, rfl, rfl⟩ ⟨rfl, rfl, rfl⟩ []
    [.sendStreamData 0 [1, 2, 3, 4, 5] false, .serve 0 true true 100] tpA
    (by simp) (by simp [Op.isTP]) (by simp [WFRunD, Op.wfD])).2

/-- non-vacuity of `invariant_resumed_accepted`: remembered parameters, 0-RTT
    data, then the checked handshake parameters (raised: accepted; the hypotheses
    say nothing about them) -/
example :
    let hs : TP := { maxData := some 20, maxStreamDataBidiRemote := some 10, maxStreamsBidi := some 1, checked := true }
    Inv (runState {} (demoOps ++ [.transportParams hs])) ∧
    (runState {} (demoOps ++ [.transportParams hs])).remoteMaxData = 20 := by
  intro hs
  refine ⟨(invariant_resumed_accepted {} ⟨rfl, rfl, rfl, rfl, rfl, rfl⟩ ⟨rfl, rfl⟩ ⟨rfl, rfl, rfl⟩ []
    [.sendStreamData 0 [1, 2, 3, 4, 5] false, .serve 0 true true 100, .transportParams hs] tpA
    (by simp) ?_ (by simp [WFRunD, Op.wfD])).2, by decide⟩
  intro tp htp
  simp at htp
  rw [htp]

/-- non-vacuity of `reduced_params_refused`: both outcomes occur -/
example :
    let c := runState {} demoOps
    (TP.reduced c { maxData := some 9, maxStreamDataBidiRemote := some 10, maxStreamsBidi := some 1, checked := true } = true) ∧
    (TP.reduced c { maxData := some 10, maxStreamDataBidiRemote := some 10, maxStreamsBidi := some 1, checked := true } = false) ∧
    TP.guarded c { maxData := some 9, checked := true } :=
  ⟨by decide, by decide, rfl, rfl⟩

/-- non-vacuity of `remote_limits_monotone`: MAX_DATA 7 after MAX_DATA 9 leaves 9 -/
example : (runState {} [.rxMaxData 9, .rxMaxData 7]).remoteMaxData = 9 ∧
    (0 : Nat) ≤ (runState {} [.rxMaxData 9, .rxMaxData 7]).remoteMaxData :=
  ⟨by decide, (remote_limits_monotone {} [.rxMaxData 9, .rxMaxData 7] (by simp [Op.isTP])).1⟩

/-- non-vacuity of `GWFRun`: the same run followed by the acknowledgement of the
    frame that was emitted is well-formed -/
example : FreshAll ({} : Conn) ∧ GWFRun {} G0 (demoOps ++ [.dataDelivery 0 .acked 0 5 false]) := by
  refine ⟨⟨⟨rfl, rfl, rfl, rfl, rfl, rfl⟩, rfl, rfl, rfl⟩, ?_⟩
  refine ⟨?_, trivial, trivial, trivial, trivial, trivial, ?_, ?_, trivial⟩
  · simp [Op.wf, TP.monotone, tpA]
  · simp only [Op.wf, notBlocked]; decide
  · simp only [wfG]; decide

/-- before the same fix: a server accepts 0-RTT and REDUCES the connection limit:
    5 bytes were sent under the remembered limit 10, the new limit is 2 — the
    connection limit is broken.  With the fix the application is refused. -/
theorem tp_reduction_counterexample :
    let lowered : TP := { maxData := some 2, maxStreamDataBidiRemote := some 10, maxStreamsBidi := some 1, checked := true }
    let old : Conn := { quirks := { acceptReducedParams := true } }
    let c := runState old (demoOps ++ [.transportParams lowered])
    ¬ (sumHi c.streams + c.goneSent ≤ c.remoteMaxData) ∧
    (step (runState {} demoOps) (.transportParams lowered)).2.err = some (.conn PROTOCOL_VIOLATION) := by decide

/-- 0-RTT REJECTED (an unchecked application after the remembered one, today's
    code): the server's parameters are assigned, nothing is reset.  With a smaller
    connection limit the sum of highest offsets exceeds the latest limit, and the data
    of the stream opened under the remembered per-stream limit 10 is offered again
    (here after the loss of the 0-RTT packet) beyond the server's limit 2: the
    hypothesis `tp.monotone` cannot be dropped for this case. -/
theorem tp_rejected_counterexample :
    let server : TP := { maxData := some 2, maxStreamDataBidiRemote := some 2, maxStreamsBidi := some 1 }
    let ops := demoOps ++ [.transportParams server, .dataDelivery 0 .lost 0 5 false]
    ¬ (sumHi (runState {} ops).streams + (runState {} ops).goneSent ≤ (runState {} ops).remoteMaxData) ∧
    (step (runState {} (demoOps ++ [.transportParams { server with maxData := some 100 },
        .dataDelivery 0 .lost 0 5 false])) (.serve 0 true true 100)).2.frames = [.stream 0 0 5 false] := by decide

/-- before `fix: unblock every stream allowed by MAX_STREAMS, whatever the
    creation order` (quirk `unblockHeadOnly`): streams 8 then 4 created while the
    limit is 1; MAX_STREAMS 2 allows stream 4, which stays blocked. -/
theorem unblock_headOnly_counterexample :
    let c0 : Conn := { quirks := { unblockHeadOnly := true } }
    let c := runState c0 [.transportParams { maxStreamsBidi := some 1 }, .sendStreamData 8 [1] false,
      .sendStreamData 4 [1] false, .rxMaxStreams false 2]
    c.blockedBidi = [8, 4] := by decide

/-! ## two behaviours of the code that C06 tolerates (documented, with what is guaranteed) -/

/-- 0-RTT: transport parameters (remembered or real) never touch the streams that
    already exist — a stream created under the remembered limits keeps the
    `max_stream_data_remote` it was created with.  Safety is unaffected
    (`stream_limit` is about that field, and a server must not reduce the limit,
    RFC 9000 §7.4.1); what is lost is only the benefit of a larger real limit,
    until a MAX_STREAM_DATA frame arrives (`zero_rtt_limit_not_raised_example`). -/
theorem transportParams_keeps_streams (c : Conn) (tp : TP) : (transportParams c tp).streams = c.streams := rfl

/-- remembered per-stream limit 5, stream 0 created and 5 of 8 bytes sent in
    0-RTT; the real transport parameters grant 10, yet the stream still holds 5
    and the next write-loop step sends nothing more; MAX_STREAM_DATA releases it. -/
theorem zero_rtt_limit_not_raised_example :
    let ops : List Op :=
      [.transportParams { maxData := some 100, maxStreamDataBidiRemote := some 5, maxStreamsBidi := some 1 },
       .sendStreamData 0 [1, 2, 3, 4, 5, 6, 7, 8] false, .serve 0 true true 100,
       .transportParams { maxData := some 100, maxStreamDataBidiRemote := some 10, maxStreamsBidi := some 1 }]
    let c := runState {} ops
    (c.streams.map (fun s => (s.maxRemote, s.send.highest)) = [(5, 5)]) ∧
    (serve c 0 true true 100).2.frames = [] ∧
    (serve (rxMaxStreamData c 0 10).1 0 true true 100).2.frames = [WFrame.stream 0 5 3 false] := by decide

/-- a stream released by MAX_STREAMS gets the initial per-stream limit of its type
    (`_unblock_streams` assigns `max_stream_data_remote`): a MAX_STREAM_DATA frame
    received while the stream was still blocked is overwritten.  Safe (nothing was
    sent on a blocked stream, and the initial limit is one the peer granted); a
    peer does not send MAX_STREAM_DATA for a stream beyond its own stream limit. -/
theorem released_stream_gets_initial_limit (c : Conn) (uni : Bool) :
    ∀ s' ∈ (unblockStreams c uni).streams,
      (∃ s ∈ c.streams, s' = s) ∨
      (s'.isBlocked = false ∧
        s'.maxRemote = (if uni then c.remoteMaxStreamDataUni else c.remoteMaxStreamDataBidiRemote)) := by
  intro s' hs'
  unfold unblockStreams at hs'
  cases uni with
  | true =>
    simp only [if_true] at hs' ⊢
    obtain ⟨s, hs, rfl⟩ := mem_releaseIn hs'
    split
    · exact .inr ⟨rfl, rfl⟩
    · exact .inl ⟨s, hs, rfl⟩
  | false =>
    simp only [Bool.false_eq_true, if_false] at hs' ⊢
    obtain ⟨s, hs, rfl⟩ := mem_releaseIn hs'
    split
    · exact .inr ⟨rfl, rfl⟩
    · exact .inl ⟨s, hs, rfl⟩

/-- stream 0 blocked (stream limit 0), MAX_STREAM_DATA 100 received for it, then
    MAX_STREAMS 1: the stream is released with the initial limit 5, not 100. -/
theorem blocked_max_stream_data_overwritten_example :
    let ops : List Op :=
      [.transportParams { maxData := some 100, maxStreamDataBidiRemote := some 5, maxStreamsBidi := some 0 },
       .sendStreamData 0 [1, 2, 3] false, .rxMaxStreamData 0 100]
    ((runState {} ops).streams.map (fun s => (s.isBlocked, s.maxRemote)) = [(true, 100)]) ∧
    ((runState {} (ops ++ [.rxMaxStreams false 1])).streams.map (fun s => (s.isBlocked, s.maxRemote)) = [(false, 5)]) := by
  decide

/-- before `fixes/C06-no-reopen-finished-stream.diff` (quirk `reopenFinished`):
    writing on an id whose stream was finished and discarded silently creates a
    fresh stream object (data from offset 0 again on a closed stream — the peer
    answers FINAL_SIZE_ERROR); with the fix the call raises ValueError. -/
theorem reopen_finished_counterexample :
    let c0 : Conn := { quirks := { reopenFinished := true }, finishedIds := [0] }
    ((step c0 (.sendStreamData 0 [1] false)).2.err = none ∧
     (step c0 (.sendStreamData 0 [1] false)).1.streams.length = 1) ∧
    (step { c0 with quirks := {} } (.sendStreamData 0 [1] false)).2.err = some (.py .value) := by decide

end AQ.Props.C06

#print axioms AQ.Props.C06.reopen_finished_counterexample
#print axioms AQ.Props.C06.transportParams_keeps_streams
#print axioms AQ.Props.C06.zero_rtt_limit_not_raised_example
#print axioms AQ.Props.C06.released_stream_gets_initial_limit
#print axioms AQ.Props.C06.blocked_max_stream_data_overwritten_example
#print axioms AQ.Props.C06.invariant
#print axioms AQ.Props.C06.credit_ledger
#print axioms AQ.Props.C06.stream_limit
#print axioms AQ.Props.C06.conn_limit
#print axioms AQ.Props.C06.stream_count
#print axioms AQ.Props.C06.emitted_within_stream_limit
#print axioms AQ.Props.C06.ghost_invariant
#print axioms AQ.Props.C06.retransmit_free_of_covers
#print axioms AQ.Props.C06.retransmit_free
#print axioms AQ.Props.C06.unblock_progress_streams
#print axioms AQ.Props.C06.unblock_progress_data
#print axioms AQ.Props.C06.tp_reduction_counterexample
#print axioms AQ.Props.C06.unblock_headOnly_counterexample
#print axioms AQ.Props.C06.remote_limits_monotone
#print axioms AQ.Props.C06.remote_limits_monotone_wf
#print axioms AQ.Props.C06.tp_hypothesis_iff
#print axioms AQ.Props.C06.invariant_single_handshake
#print axioms AQ.Props.C06.tp_stream_reduction_counterexample
#print axioms AQ.Props.C06.tp_rejected_counterexample
#print axioms AQ.Props.C06.invariant_resumed_accepted
#print axioms AQ.Props.C06.reduced_params_refused
