/-
  C18 — Connection-ID lifecycle honours the peer's instructions.

  Theorems about AQ.Model.Cid (= connection.py's connection-ID bookkeeping with
  fixes/C18-no-replacement-cid.diff and fixes/C18-retire-reordered-cid.diff
  applied; `quirkConsume` / `quirkDropReordered` = today's code).  A history is
  any `List Op`: NEW_CONNECTION_ID (any sequence number, retire-prior-to, length,
  duplicates, reordering), RETIRE_CONNECTION_ID via any destination ID, local
  changes, peer switches, packets being built with any room, acknowledgement or
  loss of any CID frame, in any order.  `run` stops at the first error (the
  connection is closed by it).

  Hypotheses used: `1 ≤ c.localLimit` (the code's constant is 8) and
  `2 ≤ c.remoteLimit` (transport parameters with a smaller value are rejected).
-/
import AQ.Proofs.Cid

namespace AQ.Props.C18
open AQ AQ.Cid

/-- "After processing a peer's request to retire connection IDs below a sequence
    number, an endpoint addresses every later packet to a connection ID at or
    above it": after any error-free history the current destination ID (and every
    spare one it could switch to) is at or above the largest retire-prior-to
    processed. -/
theorem dest_ge_rpt (c : Cfg) (hl : 1 ≤ c.localLimit) (hr : 2 ≤ c.remoteLimit) (ops : List Op) (s' : State)
    (h : run c State.init ops = (s', none)) :
    s'.peerRetirePriorTo ≤ s'.peerCid ∧ ∀ a ∈ s'.peerAvailable, s'.peerRetirePriorTo ≤ a := by
  have := run_inv c ops _ s' (inv_init c hl (by omega)) h
  exact ⟨this.dest, this.avail⟩

/-- … and it stays so: for EVERY NEW_CONNECTION_ID frame processed anywhere in an
    error-free history, the destination ID in use at the end of the history is at
    or above that frame's Retire Prior To. -/
theorem dest_ge_every_rpt (c : Cfg) (hl : 1 ≤ c.localLimit) (hr : 2 ≤ c.remoteLimit)
    (pre post : List Op) (seq rpt n : Nat) (s' : State)
    (h : run c State.init (pre ++ .rxNewConnectionId seq rpt n :: post) = (s', none)) : rpt ≤ s'.peerCid := by
  obtain ⟨s1, h1, h2⟩ := run_append c pre _ _ s' h
  obtain ⟨s2, h3, h4⟩ := run_cons_ok c _ post s1 s' h2
  have hd := (dest_ge_rpt c hl hr _ s' h).1
  have hm := (run_rpt_seen_mono c post s2).1
  rw [h4] at hm
  have hf := rxNcid_shape c s1 s2 seq rpt n h3
  obtain ⟨_, hcase⟩ := ncidFinish_ok c _ s2 _ hf
  have hr2 : rpt ≤ s2.peerRetirePriorTo := by
    rcases hcase with ⟨_, rfl⟩ | ⟨_, a, rest, _, rfl⟩
    · rw [ncidCore_rpt]; omega
    · show rpt ≤ (ncidCore c s1 seq rpt).peerRetirePriorTo
      rw [ncidCore_rpt]; omega
  simp only at hm
  omega

/-- "announces the retirement of each ID it abandons (again after loss)": at the
    end of an error-free history, the initial ID and the ID of every
    NEW_CONNECTION_ID frame processed are either still held (current or spare)
    or their retirement is queued for sending, carried by a RETIRE_CONNECTION_ID
    frame in a packet still tracked, or acknowledged. -/
theorem retire_announced (c : Cfg) (hl : 1 ≤ c.localLimit) (hr : 2 ≤ c.remoteLimit)
    (hq : c.quirkDropReordered = false)
    (pre post : List Op) (seq rpt n : Nat) (s' : State)
    (h : run c State.init (pre ++ .rxNewConnectionId seq rpt n :: post) = (s', none)) :
    Accounted s' seq ∧ Accounted s' 0 := by
  have hinv := run_inv c _ _ s' (inv_init c hl (by omega)) h
  obtain ⟨s1, h1, h2⟩ := run_append c pre _ _ s' h
  obtain ⟨s2, h3, h4⟩ := run_cons_ok c _ post s1 s' h2
  have hs2 := (rxNcid_seen c s1 s2 seq rpt n hq h3).1
  have hm := (run_rpt_seen_mono c post s2).2
  rw [h4] at hm
  have h0 := (run_rpt_seen_mono c (pre ++ .rxNewConnectionId seq rpt n :: post) State.init).2 0 (by simp [State.init])
  rw [h] at h0
  exact ⟨hinv.accounted seq (hm seq hs2), hinv.accounted 0 h0⟩

/-- "(again after loss)": a RETIRE_CONNECTION_ID frame reported lost is queued again … -/
theorem retire_lost_requeued (s : State) (seq : Nat) (h : seq ∈ s.retireInflight) :
    seq ∈ (retireDelivery s seq false).retireQueue := by
  simp [retireDelivery, h]

/-- … and the next packet with room for the pending CID frames carries every
    queued retirement and every unannounced issued ID. -/
theorem pending_written (s : State) (room : Nat) (h : unsent s.hostCids + s.retireQueue.length ≤ room) :
    (writeCid s room).retireQueue = [] ∧ (∀ x ∈ s.retireQueue, x ∈ (writeCid s room).retireInflight) ∧
    ∀ hc ∈ (writeCid s room).hostCids, hc.wasSent = true := by
  obtain ⟨_, h2⟩ := writeNewCids_spec s.hostCids room
  obtain ⟨j1, j2, j3⟩ := h2 (by omega)
  obtain ⟨q1, q2⟩ := writeRetires_spec s.retireQueue (writeNewCids room s.hostCids).1
  have hq := q2 (by rw [j2]; omega)
  unfold writeCid; simp only [j1, Bool.false_eq_true, if_false]
  refine ⟨hq, ?_, j3⟩
  intro x hx
  rw [q1, hq, List.append_nil] at hx
  exact List.mem_append.mpr (Or.inr hx)

/-- "never keeps more peer-issued IDs than it advertised": after every
    error-free history the ID in use plus the spare ones are within the limit. -/
theorem stock_le_limit (c : Cfg) (hl : 1 ≤ c.localLimit) (hr : 2 ≤ c.remoteLimit) (ops : List Op) (s' : State)
    (h : run c State.init ops = (s', none)) : 1 + s'.peerAvailable.length ≤ c.localLimit :=
  (run_inv c ops _ s' (inv_init c hl (by omega)) h).stock

/-- … else CONNECTION_ID_LIMIT_ERROR: a NEW_CONNECTION_ID frame that leaves more
    IDs than the limit is answered by exactly that connection error (from any
    state within the limit). -/
theorem stock_exceeded_error (c : Cfg) (s : State) (seq rpt n : Nat) (hl : 1 ≤ c.localLimit)
    (hs : 1 + s.peerAvailable.length ≤ c.localLimit)
    (hx : c.localLimit < 1 + (rxNewConnectionId c s seq rpt n).1.peerAvailable.length) :
    (rxNewConnectionId c s seq rpt n).2 = some (.conn CONNECTION_ID_LIMIT_ERROR) := by
  unfold rxNewConnectionId at hx ⊢
  split
  · next h => rw [if_pos h] at hx; simp only at hx; omega
  · next h =>
    rw [if_neg h] at hx
    split
    · next h2 => rw [if_pos h2] at hx; simp only at hx; omega
    · next h2 =>
      rw [if_neg h2] at hx
      unfold ncidFinish at hx ⊢
      split
      · next hb =>
        rw [if_pos hb] at hx
        split
        · next heq => simp only [heq] at hx; split at hx <;> (simp only [heq, List.length_nil] at hx; omega)
        · next a rest heq =>
          simp only [heq] at hx
          rw [ncidLimitChecks_state] at hx
          unfold ncidLimitChecks
          rw [if_pos (by simpa using hx)]
      · next hb =>
        rw [if_neg hb, ncidLimitChecks_state] at hx
        unfold ncidLimitChecks
        rw [if_pos (by omega)]

/-- "It never issues more simultaneously active IDs than the peer allows". -/
theorem issued_le_peer_limit (c : Cfg) (hl : 1 ≤ c.localLimit) (hr : 2 ≤ c.remoteLimit) (ops : List Op) (s' : State)
    (h : run c State.init ops = (s', none)) : s'.hostCids.length ≤ min 8 c.remoteLimit :=
  (run_inv c ops _ s' (inv_init c hl (by omega)) h).issued

/-- "keeps accepting packets addressed to any ID it issued until the peer retires
    it": from ANY state, an ID in `_host_cids` passes the destination-ID check
    after any history (also one ended by an error) that contains no
    RETIRE_CONNECTION_ID frame for its sequence number. -/
theorem accept_until_retired (c : Cfg) (ops : List Op) : ∀ (s : State) (q : Nat), accepts s q = true →
    (∀ via, Op.rxRetire q via ∉ ops) → accepts (run c s ops).1 q = true := by
  induction ops with
  | nil => intro s q h _; exact h
  | cons op rest ih =>
    intro s q h hno
    have hq : q ∈ seqs s.hostCids := (hasHost_iff q s.hostCids).mp h
    have hstep : q ∈ seqs (step c s op).1.hostCids := by
      rcases step_keeps_host c s op q hq with h1 | ⟨via, h1, _⟩
      · exact h1
      · exact absurd (by rw [h1]; simp) (hno via)
    simp only [run]
    split
    · next s1 hs =>
      rw [hs] at hstep
      exact ih s1 q ((hasHost_iff q _).mpr hstep) (fun via hm => hno via (List.mem_cons_of_mem _ hm))
    · next s1 e hs => rw [hs] at hstep; exact (hasHost_iff q _).mpr hstep

/-- "and replaces retired IDs": after a RETIRE_CONNECTION_ID frame is processed
    (at any point of an error-free history) the endpoint again has
    min(8, peer limit) IDs, the new ones carry sequence numbers never used
    before, and they are unannounced (`was_sent = False`, so the next packet
    with room carries their NEW_CONNECTION_ID frames: `pending_written`). -/
theorem replaced (c : Cfg) (hl : 1 ≤ c.localLimit) (hr : 2 ≤ c.remoteLimit)
    (pre : List Op) (seq : Nat) (via : Option Nat) (s' : State)
    (h : run c State.init (pre ++ [.rxRetire seq via]) = (s', none)) :
    s'.hostCids.length = min 8 c.remoteLimit := by
  obtain ⟨s1, h1, h2⟩ := run_append c pre _ _ s' h
  obtain ⟨s2, h3, h4⟩ := run_cons_ok c _ [] s1 s' h2
  simp only [run, Prod.mk.injEq, and_true] at h4
  subst h4
  have hinv := run_inv c pre _ s1 (inv_init c hl (by omega)) h1
  rw [rxRetire_ok c s1 s2 seq via h3]
  have r := (replenish_spec c { s1 with hostCids := delHost seq s1.hostCids }).1
  have d := (delHost_spec seq s1.hostCids).1
  have i := hinv.issued
  rw [r]; simp only; omega

/-- the replacement IDs are fresh -/
theorem replaced_fresh (c : Cfg) (s s' : State) (seq : Nat) (via : Option Nat)
    (h : rxRetire c s seq via = (s', none)) :
    ∀ hc ∈ s'.hostCids, hc ∈ s.hostCids ∨ (s.hostSeq ≤ hc.seq ∧ hc.seq < s'.hostSeq) := by
  rw [rxRetire_ok c s s' seq via h]
  intro hc hm
  rcases (replenish_spec c { s with hostCids := delHost seq s.hostCids }).2.2.2 hc hm with h1 | h1
  · exact Or.inl ((delHost_spec seq s.hostCids).2.1 hc h1)
  · exact Or.inr h1

/-- no step of the (fixed) code lets a Python exception escape, from ANY state -/
theorem cid_total (c : Cfg) (hq : c.quirkConsume = false) (s : State) (op : Op) (e : PyExc) :
    (step c s op).2 ≠ some (.py e) :=
  step_not_py c s op hq e

/-- … hence no history does -/
theorem cid_total_run (c : Cfg) (hq : c.quirkConsume = false) (ops : List Op) : ∀ (s : State) (e : PyExc),
    (run c s ops).2 ≠ some (.py e) := by
  induction ops with
  | nil => intro s e; simp [run]
  | cons op rest ih =>
    intro s e
    have := cid_total c hq s op e
    simp only [run]
    split
    · next s1 hs => exact ih s1 e
    · next s1 e1 hs => rw [hs] at this; exact this

/-- today's code (before fixes/C18-no-replacement-cid.diff): NEW_CONNECTION_ID 3,
    NEW_CONNECTION_ID 2, two local changes, NEW_CONNECTION_ID 3 with
    retire-prior-to 3 → `IndexError` escapes -/
theorem cid_total_counterexample :
    (run { isClient := true, remoteLimit := 8, quirkConsume := true, quirkDropReordered := true } State.init
      [.rxNewConnectionId 3 0 8, .rxNewConnectionId 2 0 8, .localChange, .localChange,
       .rxNewConnectionId 3 3 8]).2 = some (.py .index) := by decide

/-- today's code (before fixes/C18-retire-reordered-cid.diff): a reordered
    NEW_CONNECTION_ID below the known retire-prior-to is processed without error
    and its ID is neither held nor ever retired -/
theorem retire_announced_counterexample :
    (run { isClient := true, remoteLimit := 8, quirkDropReordered := true } State.init
      [.rxNewConnectionId 2 2 8, .rxNewConnectionId 1 0 8]).2 = none ∧
    ¬ Accounted (run { isClient := true, remoteLimit := 8, quirkDropReordered := true } State.init
      [.rxNewConnectionId 2 2 8, .rxNewConnectionId 1 0 8]).1 1 := by decide

/-! non-vacuity: the hypotheses are satisfiable and the histories are not all errors -/
example : (run { isClient := false, remoteLimit := 8 } State.init
    [.replenish, .writeCid 99, .rxNewConnectionId 2 2 8, .rxNewConnectionId 1 0 8, .writeCid 1,
     .retireDelivery 0 false, .rxRetire 3 (some 0), .peerSwitched (some 1), .writeCid 99]).2 = none := by decide
example : (run { isClient := true, remoteLimit := 8 } State.init
    [.rxNewConnectionId 3 0 8, .rxNewConnectionId 2 0 8, .localChange, .localChange,
     .rxNewConnectionId 3 3 8]).2 = some (.conn PROTOCOL_VIOLATION) := by decide

end AQ.Props.C18

#print axioms AQ.Props.C18.dest_ge_rpt
#print axioms AQ.Props.C18.dest_ge_every_rpt
#print axioms AQ.Props.C18.retire_announced
#print axioms AQ.Props.C18.retire_lost_requeued
#print axioms AQ.Props.C18.pending_written
#print axioms AQ.Props.C18.stock_le_limit
#print axioms AQ.Props.C18.stock_exceeded_error
#print axioms AQ.Props.C18.issued_le_peer_limit
#print axioms AQ.Props.C18.accept_until_retired
#print axioms AQ.Props.C18.replaced
#print axioms AQ.Props.C18.replaced_fresh
#print axioms AQ.Props.C18.cid_total
#print axioms AQ.Props.C18.cid_total_run
#print axioms AQ.Props.C18.cid_total_counterexample
#print axioms AQ.Props.C18.retire_announced_counterexample
