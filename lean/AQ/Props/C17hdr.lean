/-
  Property C17, packet headers in full: "Encoding then decoding returns the
  original value for every … packet header, Retry and Version Negotiation packet
  …  Decoding arbitrary bytes either yields a value that re-encodes to an
  equivalent encoding or raises the documented parse error, never reading past
  the declared length of an enclosing field."

  Decoder: `AQ.Codec.pullQuicHeader` (model of `pull_quic_header`, tied by
  `./check C17`, ops `codec.header`).  Encoders: the RFC layout `hdrBytes`
  (RFC 9000 §17.2/§17.2.1/§17.2.5/§17.3.1, RFC 9369 §3.2) with every choice the
  RFC leaves to the sender, proved equal to what the library writes
  (`QuicPacketBuilder._end_packet`, `encode_quic_retry` for a given tag,
  `encode_quic_version_negotiation`).  The decoding direction
  (`header_decode_reencode`, `header_bounded`) is in `AQ.Props.C17frames`.
-/
import AQ.Proofs.CodecHeaderErr

namespace AQ.Props.C17hdr
open AQ AQ.Codec

/-- **C17** decode (encode h) = h for EVERY well-formed header.  `hdrWF` is an explicit
decidable predicate: connection ids ≤ 20 bytes; version a non-zero 32-bit number
(1, 0x6b3343cf — whose type bits are permuted, RFC 9369 — or unknown, read with the
v1 table) or 0 for Version Negotiation; Initial token < 2^62 bytes; Retry tag 16
bytes; short header with `host_cid_length = len(dcid)`; any value of the low
first-byte bits (long/Retry: 4 type-specific bits = reserved bits and
packet-number length 1–4 before protection; VN: 7 unused bits; short: spin,
reserved, key phase, packet-number length); any of the four widths of the Length
varint.  `hdrTailOK`: a long-header packet is followed by at least its declared
payload, Retry/VN end the datagram. -/
theorem header_roundtrip (hcl : Option Int) (h : Header) (o : HdrOpts) (x : Bytes)
    (hwf : hdrWF hcl h o = true) (ht : hdrTailOK h o x = true) :
    pullQuicHeader hcl (hdrBytes h o ++ x) = .ok ({ h with packetLength := hdrPacketLength h o x }, x) :=
  header_roundtrip_wf hcl h o x hwf ht

/-- **C17** the library's encoders produce `hdrBytes` (so `header_roundtrip` is about
what aioquic sends): the long and short headers written by
`QuicPacketBuilder._end_packet` (2-byte Length, 2-byte packet number),
`encode_quic_retry` (for the tag computed by AES-GCM), `encode_quic_version_negotiation`
(for the random byte drawn), and the RFC 9000 §17.2 encoder with a 1–4 byte packet number. -/
theorem library_encoders (version : Nat) (pt : PType) (dcid scid token tag : Bytes) (length pn pl unused rnd : Nat)
    (vs : List Nat) (spin kp k pnLen : Nat)
    (hv : version < 2 ^ 32) (hd : dcid.length ≤ 20) (hs : scid.length ≤ 20) (htok : token.length < 2 ^ 62) :
    ((pt = .initial ∨ pt = .zeroRtt ∨ pt = .handshake) → (pt ≠ .initial → token = []) → length < 16384 →
      (builderLongHeaderScript version pt dcid scid token length pn).bytes =
        .ok (hdrBytes ⟨some version, pt, pl, dcid, scid, token, [], []⟩ ⟨1, 1, length⟩ ++ be2 (pn % 65536))) ∧
    (spin < 2 → kp < 2 →
      (builderShortHeaderScript spin kp dcid pn).bytes =
        .ok (hdrBytes ⟨none, .oneRtt, pl, dcid, [], [], [], []⟩ ⟨32 * spin + 4 * kp + 1, 0, 0⟩ ++ be2 (pn % 65536))) ∧
    (unused < 16 → tag.length = 16 →
      encodeQuicRetry version scid dcid token tag unused =
        .ok (hdrBytes ⟨some version, .retry, pl, dcid, scid, token, tag, []⟩ ⟨unused, 0, 0⟩)) ∧
    (rnd < 128 → (∀ v ∈ vs, v < 2 ^ 32) →
      encodeQuicVersionNegotiation rnd scid dcid (vs.map (fun (v : Nat) => (v : Int))) =
        .ok (hdrBytes ⟨some 0, .versionNegotiation, pl, dcid, scid, [], [], vs⟩ ⟨rnd, 0, 0⟩)) ∧
    ((pt = .initial ∨ pt = .zeroRtt ∨ pt = .handshake) → (pt ≠ .initial → token = []) →
      CodecSpec.encLongHeader version pt dcid scid token k length pnLen pn =
        hdrBytes ⟨some version, pt, pl, dcid, scid, token, [], []⟩ ⟨pnLen - 1, k, length⟩ ++
          CodecSpec.beBytes pnLen pn) := by
  have hv' : version < 4294967296 := by simpa using hv
  have htok' : token.length < 4611686018427387904 := by
    have : (2 : Nat) ^ 62 = 4611686018427387904 := by decide
    omega
  refine ⟨fun hpt htk hl => builderLong_hdrBytes version pt dcid scid token length pn pl hpt htk hv' (by omega) (by omega)
      htok' hl,
    fun h1 h2 => builderShort_hdrBytes spin kp dcid pn pl h1 h2,
    fun hu htag => encodeRetry_hdrBytes version unused scid dcid token tag pl hv' hu (by omega) (by omega) htag,
    fun hr hvs => encodeVN_hdrBytes rnd scid dcid vs pl hr (by omega) (by omega) (fun v hv => by simpa using hvs v hv),
    fun hpt htk => specLong_hdrBytes version pt dcid scid token k length pnLen pn pl hpt htk⟩

/-- **C17** "raises the documented parse error": for a buffer shorter than 2^63 bytes and
an integer `host_cid_length` (that fits `Py_ssize_t`), whatever `pull_quic_header`
raises is `ValueError` or its subclass `BufferReadError` — what
`receive_datagram` catches (`except ValueError`: packet dropped). -/
theorem header_errors (hcl : Option Int) (hh : HclOK hcl) (s : Bytes) (hs : s.length < 2 ^ 63) (e : Err)
    (h : pullQuicHeader hcl s = .error e) : e = .bufferRead ∨ e = .py .value :=
  pullQuicHeader_err hcl hh s (by simpa using hs) e h

/-- **C17** malformed inputs, by the code's actual checks: a connection-id length
byte above 20 (destination or source), a zero fixed bit (long header with version
≠ 0, short header), a Version Negotiation list cut inside a version, a Retry
without room for the 16-byte tag — each is refused, with the error shown. -/
theorem header_malformed (n0 : Nat) (hcl : Option Int) (fb v : Nat) (dcid scid rest : Bytes) (hfb : fb < 256)
    (hv : v < 2 ^ 32) (hd : dcid.length ≤ 20) (hs : scid.length ≤ 20) :
    ((fb &&& 128 != 0) = true → ∀ dl, 20 < dl → dl < 256 →
      pullQuicHeaderFrom n0 hcl (byte fb :: (be4 v ++ (byte dl :: rest))) = .error (.py .value)) ∧
    ((fb &&& 128 != 0) = true → ∀ sl, 20 < sl → sl < 256 →
      pullQuicHeaderFrom n0 hcl (byte fb :: (be4 v ++ (byte dcid.length :: (dcid ++ (byte sl :: rest))))) =
        .error (.py .value)) ∧
    ((fb &&& 128 != 0) = true → (fb &&& 64 != 0) = false → v ≠ 0 →
      pullQuicHeaderFrom n0 hcl (longPrefix fb v dcid scid rest) = .error (.py .value)) ∧
    ((fb &&& 128 != 0) = false → (fb &&& 64 != 0) = false →
      pullQuicHeaderFrom n0 hcl (byte fb :: rest) = .error (.py .value)) ∧
    ((fb &&& 128 != 0) = true → rest.length % 4 ≠ 0 →
      pullQuicHeaderFrom n0 hcl (longPrefix fb 0 dcid scid rest) = .error .bufferRead) ∧
    (FbType fb v .retry → v ≠ 0 → rest.length < 16 →
      pullQuicHeaderFrom n0 hcl (longPrefix fb v dcid scid rest) = .error .bufferRead) := by
  have hv' : v < 4294967296 := by simpa using hv
  exact ⟨fun hl dl h1 h2 => dcid_too_long n0 hcl fb v dl rest hfb hl hv' h1 h2,
    fun hl sl h1 h2 => scid_too_long n0 hcl fb v sl dcid rest hfb hl hv' hd h1 h2,
    fun hl hf hv0 => fixed_bit_zero_long n0 hcl fb v dcid scid rest hfb hl hf hv' hv0 hd hs,
    fun hsb hf => fixed_bit_zero_short n0 hcl fb rest hfb hsb hf,
    fun hl h4 => vn_truncated_list n0 hcl fb dcid scid rest hfb hl hd hs h4,
    fun hft hv0 h16 => retry_too_short n0 hcl fb v dcid scid rest hft hv' hv0 hd hs h16⟩

/-- **C17** truncated at any position: a well-formed Initial / 0-RTT / Handshake packet
cut anywhere before the end of its declared payload — inside the header or
inside the payload — is refused with the documented parse error; and no accepted
header ever claims more bytes than the buffer holds ("reads nothing beyond the
buffer": `packet_length ≤ len(buffer)`, and what is left is a suffix of the input). -/
theorem header_truncated (hcl : Option Int) (hh : HclOK hcl) (h : Header) (o : HdrOpts) (x : Bytes) (k : Nat)
    (hpt : h.ptype = .initial ∨ h.ptype = .zeroRtt ∨ h.ptype = .handshake)
    (hwf : hdrWF hcl h o = true) (ht : hdrTailOK h o x = true) (hlen : (hdrBytes h o ++ x).length < 2 ^ 63)
    (hk : k < (hdrBytes h o).length + o.length) :
    (∃ e, pullQuicHeader hcl ((hdrBytes h o ++ x).take k) = .error e ∧ (e = .bufferRead ∨ e = .py .value)) ∧
    (∀ s r h', pullQuicHeader hcl s = .ok (h', r) →
      h'.packetLength ≤ s.length ∧ s.length - r.length ≤ h'.packetLength ∧ ∃ pre, s = pre ++ r) := by
  refine ⟨Codec.header_truncated hcl hh h o x k hpt hwf ht (by simpa using hlen) hk, fun s r h' hd => ?_⟩
  obtain ⟨f1, f2, _⟩ := header_fits hcl s r h' hd
  obtain ⟨pre, e, _⟩ := Codec.header_bounded hcl s r h' hd
  exact ⟨f1, f2, pre, e⟩

/-! ### non-vacuity -/

/-- a v2 Initial: type bits 0b01 (RFC 9369), 4-byte packet number (low = 3), 4-byte Length -/
example : hdrWF none ⟨some 0x6b3343cf, .initial, 0, [1, 2], [3], [9, 9], [], []⟩ ⟨3, 2, 5⟩ = true := by decide
example : hdrBytes ⟨some 0x6b3343cf, .initial, 0, [1, 2], [3], [9, 9], [], []⟩ ⟨3, 2, 5⟩ =
    [0xd3, 0x6b, 0x33, 0x43, 0xcf, 2, 1, 2, 1, 3, 2, 9, 9, 0x80, 0, 0, 5] := by decide
example : hdrWF (some 3) ⟨none, .oneRtt, 0, [7, 8, 9], [], [], [], []⟩ ⟨0x25, 0, 0⟩ = true := by decide
example : hdrWF none ⟨some 0, .versionNegotiation, 0, [1], [], [], [], [1, 0x6b3343cf]⟩ ⟨0x7f, 0, 0⟩ = true := by decide
/-- CID length 21 is refused; a VN list of 5 bytes is refused -/
example : pullQuicHeader none ([0xc0, 0, 0, 0, 1, 21] ++ List.replicate 40 0) = .error (.py .value) := by decide
example : pullQuicHeader none [0x80, 0, 0, 0, 0, 0, 0, 0, 0, 0, 1, 0] = .error .bufferRead := by decide
example : HclOK (some 8) := ⟨by decide, by decide⟩

end AQ.Props.C17hdr

#print axioms AQ.Props.C17hdr.header_roundtrip
#print axioms AQ.Props.C17hdr.library_encoders
#print axioms AQ.Props.C17hdr.header_errors
#print axioms AQ.Props.C17hdr.header_malformed
#print axioms AQ.Props.C17hdr.header_truncated
