import AQ.Proofs.TlsNegotiate
import AQ.Proofs.TlsC03
import AQ.Model.TlsSymbolic
/-
  C03 — Handshake completes only with the authentic peer and both sides agree.
-/
namespace AQ.Props.C03
open AQ AQ.TlsNeg

/-! ### option negotiation -/

/-- `negotiate supported offered = c` exactly when `c` is the FIRST element of
    `supported` that occurs in `offered` -/
theorem negotiate_spec (sup off : List Nat) (c : Nat) :
    negotiate sup (some off) = some c ↔
      ∃ pre post, sup = pre ++ c :: post ∧ c ∈ off ∧ ∀ x ∈ pre, x ∉ off := by
  unfold negotiate
  rw [find_spec]
  constructor
  · rintro ⟨pre, post, h1, h2, h3⟩
    exact ⟨pre, post, h1, by simpa using h2, fun x hx => by simpa using h3 x hx⟩
  · rintro ⟨pre, post, h1, h2, h3⟩
    exact ⟨pre, post, h1, by simpa using h2, fun x hx => by simpa using h3 x hx⟩

/-- the result is always a common option -/
theorem negotiate_common (sup : List Nat) (off : Option (List Nat)) (c : Nat) (h : negotiate sup off = some c) :
    c ∈ sup ∧ ∃ o, off = some o ∧ c ∈ o := by
  cases off with
  | none => simp [negotiate] at h
  | some o =>
    rcases (negotiate_spec sup o c).mp h with ⟨pre, post, h1, h2, _⟩
    exact ⟨by rw [h1]; simp, o, rfl, h2⟩

/-- "when the configurations share no common option": nothing is selected, i.e.
    the `exc` alert is raised (cipher suites, signature algorithms, TLS versions,
    ALPN when configured) exactly when nothing was offered or nothing is common -/
theorem no_common_iff (sup : List Nat) (off : Option (List Nat)) :
    negotiate sup off = none ↔ off = none ∨ ∃ o, off = some o ∧ ∀ c ∈ sup, c ∉ o := by
  cases off with
  | none => simp [negotiate]
  | some o =>
    unfold negotiate
    rw [find_none]
    simp

/-! ### QUIC version selection -/

/-- compatibility is symmetric and relates exactly version 1 and version 2 -/
theorem compatible_iff (a b : Nat) :
    isVersionCompatible a b = true ↔ (a = V1 ∧ b = V2) ∨ (a = V2 ∧ b = V1) := by
  simp [isVersionCompatible]

/-- after a Version Negotiation packet the client retries with the FIRST of its
    own versions that the server listed -/
theorem vn_retry_spec (cur : Nat) (cs vn : List Nat) (v : Nat) (h : vnChoice cur cs vn = .retry v) :
    cur ∉ vn ∧ v ∈ cs ∧ v ∈ vn ∧ ∃ pre post, cs = pre ++ v :: post ∧ ∀ x ∈ pre, x ∉ vn := by
  unfold vnChoice at h
  simp only [List.contains_eq_mem] at h
  by_cases hc : cur ∈ vn
  · simp [hc] at h
  · simp only [hc, decide_false, Bool.false_eq_true, ↓reduceIte] at h
    cases hf : cs.filter (fun x => decide (x ∈ vn)) with
    | nil => simp [hf] at h
    | cons w ws =>
      simp only [hf, VnResult.retry.injEq] at h
      subst h
      have hfind : cs.find? (fun x => decide (x ∈ vn)) = some w := by
        rw [← List.head?_filter, hf]; rfl
      rcases (find_spec _ cs w).mp hfind with ⟨pre, post, h1, h2, h3⟩
      refine ⟨hc, by rw [h1]; simp, by simpa using h2, pre, post, h1, ?_⟩
      intro x hx; simpa using h3 x hx

/-- no common version: the client terminates instead of connecting -/
theorem vn_fail_iff (cur : Nat) (cs vn : List Nat) :
    vnChoice cur cs vn = .fail ↔ cur ∉ vn ∧ ∀ x ∈ cs, x ∉ vn := by
  unfold vnChoice
  simp only [List.contains_eq_mem]
  by_cases hc : cur ∈ vn
  · simp [hc]
  · simp only [hc, decide_false, Bool.false_eq_true, ↓reduceIte, not_false_eq_true, true_and]
    cases hf : cs.filter (fun x => decide (x ∈ vn)) with
    | nil =>
      simp only [true_iff]
      intro x hx hv
      have : x ∈ cs.filter (fun x => decide (x ∈ vn)) := List.mem_filter.mpr ⟨hx, by simpa using hv⟩
      rw [hf] at this; simp at this
    | cons w ws =>
      simp only [reduceCtorEq, false_iff]
      intro hall
      have : w ∈ cs.filter (fun x => decide (x ∈ vn)) := by rw [hf]; simp
      rcases List.mem_filter.mp this with ⟨h1, h2⟩
      exact hall w h1 (by simpa using h2)

/-- the server either keeps the version in use or moves to a version that it
    supports, that the client listed, and that is compatible -/
theorem server_choice_spec (cur : Nat) (ss av : List Nat) :
    serverChoice cur ss av = cur ∨
      (serverChoice cur ss av ∈ ss ∧ serverChoice cur ss av ∈ av ∧
        isVersionCompatible cur (serverChoice cur ss av) = true) := by
  induction av with
  | nil => left; rfl
  | cons v rest ih =>
    unfold serverChoice
    by_cases h1 : v = cur
    · simp [h1]
    · simp only [h1, ↓reduceIte]
      by_cases h2 : (ss.contains v && isVersionCompatible cur v) = true
      · simp only [h2, ↓reduceIte]
        simp only [Bool.and_eq_true] at h2
        right; exact ⟨by simpa using h2.1, by simp, h2.2⟩
      · simp only [h2, Bool.false_eq_true, ↓reduceIte]
        rcases ih with h | ⟨h3, h4, h5⟩
        · left; exact h
        · right; exact ⟨h3, by simp [h4], h5⟩

/-- whatever the lists, the version both endpoints end with is one BOTH support
    (the server's list contains it, and the client listed or started with it) -/
theorem final_version_supported (orig : Option Nat) (cs ss : List Nat) (v : Nat)
    (h : finalVersion orig cs ss = some v) :
    v ∈ ss ∧ (v ∈ cs ∨ orig = some v) := by
  unfold finalVersion at h
  cases hf : clientFirstVersion orig cs with
  | error e => simp [hf] at h
  | ok v0 =>
    simp only [hf] at h
    have hv0 : v0 ∈ cs ∨ orig = some v0 := by
      unfold clientFirstVersion at hf
      cases orig with
      | some o => simp at hf; right; rw [hf]
      | none => cases cs with
        | nil => simp at hf
        | cons a t => simp at hf; left; simp [hf]
    by_cases hs : ss.contains v0 = true
    · simp only [hs, ↓reduceIte, Option.some.injEq] at h
      rcases server_choice_spec v0 ss cs with h1 | ⟨h2, h3, _⟩
      · rw [h1] at h; subst h; exact ⟨by simpa using hs, hv0⟩
      · rw [h] at h2 h3; exact ⟨h2, Or.inl h3⟩
    · simp only [hs, Bool.false_eq_true, ↓reduceIte] at h
      cases hvn : vnChoice v0 cs ss with
      | ignored => simp [hvn] at h
      | fail => simp [hvn] at h
      | retry w =>
        simp only [hvn, Option.some.injEq] at h
        rcases vn_retry_spec v0 cs ss w hvn with ⟨_, hw1, hw2, _⟩
        rcases server_choice_spec w ss cs with h1 | ⟨h2, h3, _⟩
        · rw [h1] at h; subst h; exact ⟨hw2, Or.inl hw1⟩
        · rw [h] at h2 h3; exact ⟨h2, Or.inl h3⟩

/-- "when the configurations share no common option, neither endpoint ever
    reports completion" (QUIC versions): no version in common — no connection -/
theorem no_common_version (cs ss : List Nat) (h : ∀ x ∈ cs, x ∉ ss) : finalVersion none cs ss = none := by
  unfold finalVersion
  cases cs with
  | nil => simp [clientFirstVersion]
  | cons a t =>
    have ha : ss.contains a = false := by simpa using h a (by simp)
    simp only [clientFirstVersion, ha, Bool.false_eq_true, ↓reduceIte]
    have : vnChoice a (a :: t) ss = .fail := (vn_fail_iff a (a :: t) ss).mpr ⟨by simpa using ha, h⟩
    simp [this]

end AQ.Props.C03

namespace AQ.Props.C03
open AQ.Gen.Tls AQ.Tls AQ.TlsSpec

/-! ### transcript coverage -/

/-- the extracted handlers perform hashing, authentication and key derivation in
    exactly the order RFC 8446 requires (`orderSpec`, written from the RFC): the
    sub-sequence of transcript / key-schedule actions of every handler of
    tls.py, with its guards, EQUALS the specification -/
theorem order_matches_rfc : ∀ f : Fn, viewOf keyRelevant (flat f) = orderSpec f := by
  intro f; cases f <;> decide

/-- "every handshake message sent or received is hashed whole, in wire order,
    before the MAC / signature that must cover it is computed or checked": a
    handler run that returns normally performed exactly the RFC's sequence for the
    parts selected by its guards (and whatever the outcome, a prefix of it) -/
theorem transcript_coverage (env : Env) (f : Fn) :
    ((exec env (flat f)).2 = .done →
      (exec env (flat f)).1.filterMap keyRelevant
        = ((orderSpec f).filter fun p => condOK env p.1).map (·.2)) ∧
    (exec env (flat f)).1.filterMap keyRelevant
        <+: ((orderSpec f).filter fun p => condOK env p.1).map (·.2) := by
  rw [← order_matches_rfc f]
  exact ⟨fun hd => done_view keyRelevant env (flat f) (noRet_all f) hd, prefix_view keyRelevant env (flat f)⟩

end AQ.Props.C03

namespace AQ.Props.C03
open AQ.Gen.Tls AQ.Tls AQ.TlsSpec

/-! ### completion requires authentication -/

/-- "A client reports handshake completion only after the server has proved
    possession of the private key of a certificate that validates for the
    requested name (or of a resumption secret the client offered)": for ALL
    message sequences fed to a fresh client that verifies certificates
    (`verify_mode != CERT_NONE`), completion implies that the CertificateVerify
    signature was checked with the certificate's key (`VerifySig`, see
    `C11.verifySig_checks`) and `verify_certificate` (chain, dates, server name)
    passed, and Finished was verified — or the client resumed with a PSK it had
    offered.  The cryptographic soundness of the three checks is external. -/
theorem client_complete_authentic (l : List (HT × Env)) (hc : Consistent initClient l) (hv : AllVerify l)
    (h : (run initClient l).st = .CLIENT_POST_HANDSHAKE) :
    (∃ a, .verifyFinished a ∈ (run initClient l).log) ∧
    ((.verifySig ∈ (run initClient l).log ∧ .verifyCert ∈ (run initClient l).log) ∨
      ((run initClient l).attr .session_resumed = .true ∧ PskOffered (run initClient l).log)) := by
  have hi := clientInv_run initClient l clientInv_init hc
  have ha := authInv_run initClient l clientInv_init
    ⟨by intro h; simp [initClient] at h, by intro h; simp [initClient] at h⟩ hc hv
  rcases hi.post h with ⟨pre, a, post, h1, _⟩
  refine ⟨⟨a, by rw [h1]; simp⟩, ?_⟩
  rcases ha.post h with h2 | h2
  · exact Or.inl h2
  · exact Or.inr ⟨h2, hi.resumed h2⟩

/-- "... a certificate that validates for the REQUESTED name": the value handed to
    `verify_certificate` as `server_name` (and as trust anchors) is the
    configuration attribute itself, the peer's certificate and chain are the ones
    received, and no method of `Context` other than the constructor ever assigns
    `_server_name`, `_cadata`, `_cafile`, `_capath` or `_verify_mode` — so the name
    checked is the name the application asked for, whatever its form (DNS name or
    IP literal), not a value rewritten on the way. -/
theorem verify_cert_uses_configured_name :
    verifyCertArgs =
      [("cadata", "self._cadata"), ("cafile", "self._cafile"), ("capath", "self._capath"),
       ("certificate", "self._peer_certificate"), ("chain", "self._peer_certificate_chain"),
       ("server_name", "self._server_name")] ∧
    configWriters =
      [("_server_name", ["__init__"]), ("_cadata", ["__init__"]), ("_cafile", ["__init__"]), ("_capath", ["__init__"]), ("_verify_mode", ["__init__"]), ("_cipher_suites", ["__init__"]), ("_alpn_protocols", ["__init__"]), ("_signature_algorithms", ["__init__"]), ("_supported_groups", ["__init__"]), ("_supported_versions", ["__init__"]), ("_legacy_compression_methods", ["__init__"]), ("_psk_key_exchange_modes", ["__init__"])] := ⟨rfl, rfl⟩

/-- "when the configurations share no common option ... / the negotiated option is one both
    configurations allow": what the client OFFERS is a function of its configuration only — the
    ClientHello is built from the configuration attributes themselves (cipher suites, compression
    methods, ALPN, signature algorithms, TLS versions; `psk_key_exchange_modes` is the configured
    list or absent), and no method of `Context` other than the constructor assigns or mutates
    them (`configWriters` in `verify_cert_uses_configured_name`).  In particular a session ticket
    cannot add a cipher suite to the offer. -/
theorem offer_is_configuration_only : clientHelloOffer =
      [("cipher_suites", "[int(x) for x in self._cipher_suites]"), ("legacy_compression_methods", "self._legacy_compression_methods"), ("alpn_protocols", "self._alpn_protocols"), ("psk_key_exchange_modes", "self._psk_key_exchange_modes if self.session_ticket or self.new_session_ticket_cb is not None else None"), ("signature_algorithms", "self._signature_algorithms"), ("supported_versions", "self._supported_versions"), ("other_extensions", "self.handshake_extensions")] := rfl

/-- "... a certificate that VALIDATES ...": the trust anchors of `verify_certificate` are
    only configured CA material — the certifi bundle when nothing is configured, the
    certificates of `cadata`, the locations `cafile` / `capath` — and nothing else is ever
    added to the X509 store; the peer's certificate is the one being verified and the
    peer's `chain` is handed to the store context as UNTRUSTED intermediates only.  So a
    certificate the server sends can never become a trust anchor (every use of the store,
    with its enclosing conditions, extracted from tls.py; the store is not passed to any
    other function — the extractor refuses that). -/
theorem trust_store_only_configured : verifyCertStore = [
      ("", "crypto.X509Store()"),
      ("if cadata is None and cafile is None and (capath is None)", "store.load_locations(certifi.where())"),
      ("if cadata is not None ; for cert in load_pem_x509_certificates(cadata)", "store.add_cert(crypto.X509.from_cryptography(cert))"),
      ("if cafile is not None or capath is not None", "store.load_locations(cafile, capath)"),
      ("", "crypto.X509StoreContext(store, crypto.X509.from_cryptography(certificate), [crypto.X509.from_cryptography(cert) for cert in chain])"),
      ("", "store_ctx.verify_certificate()")] := rfl

/-- the authentication values are the ones of RFC 8446 §4.4 (data flow extracted from tls.py):

    * §4.4.3 CertificateVerify: the signature field of the message is verified with the public
      key of the PEER CERTIFICATE over `64 x 0x20 || context string || 0x00 || Transcript-Hash`,
      the context string being the peer's ("TLS 1.3, server CertificateVerify" on a client), with
      the parameters of the algorithm named in the message;
    * §4.4.4 Finished: the received `verify_data` is compared with
      `HMAC(HKDF-Expand-Label(BaseKey, "finished", "", Hash.length), Transcript-Hash)` where BaseKey
      is the READ traffic secret (`_dec_key`), on both roles; the server's expected value is the one
      computed by `_server_expect_finished`;
    * (strings are in the extractor's canonical form: locals resolved to their definitions or
      alpha-renamed `v0, v1, ..`, private expression helpers inlined — tools/tls_norm.py)
    * the refusal test is Python's `!=` on the two byte strings (entries `*.refuse_if`): exact
      equality, LENGTH INCLUDED — a shortened or lengthened `verify_data` / binder is refused like an
      altered one.  Any other comparison (a helper call, a prefix or constant-time loop without a length
      check) is not recognised as VerifyFinished / VerifyBinder by the extractor and breaks the tie;
    * `_dec_key` / `_enc_key` are only written by `_setup_traffic_protection` (the secret it just
      derived for the given direction) and, after the respective Finished, by the 1-RTT commit — so
      with `order_matches_rfc` the BaseKey at the Finished checks is the peer's handshake traffic
      secret ("s hs traffic" on the client, "c hs traffic" on the server) and the Transcript-Hash
      is the running hash at that point of the order (`transcript_coverage`). -/
theorem auth_values_are_rfc : authFlow = [
      ("sig.key", "self._peer_certificate.public_key()"),
      ("sig.signature", "verify.signature"),
      ("sig.data", "self.key_schedule.certificate_verify_data(SERVER_CONTEXT_STRING if self._is_client else CLIENT_CONTEXT_STRING)"),
      ("sig.params", "*signature_algorithm_params(verify.algorithm)"),
      ("finished._client_handle_finished.received", "finished.verify_data"),
      ("finished._client_handle_finished.expected", "self.key_schedule.finished_verify_data(self._dec_key)"),
      ("finished._client_handle_finished.refuse_if", "finished.verify_data != self.key_schedule.finished_verify_data(self._dec_key)"),
      ("binder._server_handle_hello.expected", "self.key_schedule.finished_verify_data(self.key_schedule.derive_secret(b'res binder'))"),
      ("binder._server_handle_hello.refuse_if", "input_buf.data_slice(v0 + 3, v0 + 3 + v1) != self.key_schedule.finished_verify_data(self.key_schedule.derive_secret(b'res binder'))"),
      ("finished._server_handle_finished.received", "finished.verify_data"),
      ("finished._server_handle_finished.expected", "self.key_schedule.finished_verify_data(self._dec_key)"),
      ("finished._server_handle_finished.refuse_if", "finished.verify_data != self.key_schedule.finished_verify_data(self._dec_key)"),
      ("KeySchedule.certificate_verify_data", "return b' ' * 64 + context_string + b'\\x00' + self.hash.copy().finalize()"),
      ("KeySchedule.finished_verify_data", "v0 = hmac.HMAC(hkdf_expand_label(algorithm=self.algorithm, secret=secret, label=b'finished', hash_value=b'', length=self.algorithm.digest_size), algorithm=self.algorithm); v0.update(self.hash.copy().finalize()); return v0.finalize()"),
      ("KeySchedule.derive_secret", "return hkdf_expand_label(algorithm=self.algorithm, secret=self.secret, label=label, hash_value=self.hash.copy().finalize(), length=self.algorithm.digest_size)"),
      ("KeySchedule.update_hash", "self.hash.update(data)"),
      ("_setup_traffic_protection", "v0 = self.key_schedule.derive_secret(label); if direction == Direction.ENCRYPT:     self._enc_key = v0 else:     self._dec_key = v0; self.update_traffic_key_cb(direction, epoch, self.key_schedule.cipher_suite, v0)"),
      ("writers._enc_key", "__init__: None | _client_handle_finished: self.key_schedule.derive_secret(b'c ap traffic') | _setup_traffic_protection: self.key_schedule.derive_secret(label)"),
      ("writers._dec_key", "__init__: None | _server_handle_finished: self._next_dec_key | _setup_traffic_protection: self.key_schedule.derive_secret(label)"),
      ("writers._expected_verify_data", "_server_expect_finished: self.key_schedule.finished_verify_data(self._dec_key)"),
      ("CLIENT_CONTEXT_STRING", "TLS 1.3, client CertificateVerify"),
      ("SERVER_CONTEXT_STRING", "TLS 1.3, server CertificateVerify")] := rfl

/-! ### no common option — no progress -/

def isProgress : Act → Bool
  | .setState _ => true
  | .releaseKey _ _ => true
  | .pushMessage _ _ _ => true
  | _ => false

/-- "when the configurations share no common option, neither endpoint ever
    reports completion": in the server's ClientHello handler the negotiations of
    cipher suite, signature algorithm and TLS version (each raising its alert when
    `negotiate` finds nothing, `no_common_iff`) come first: no message is written,
    no key released and no state set unless all three succeeded; likewise the
    client checks the server's cipher suite before anything else. -/
theorem negotiation_first (env : Env) :
    GuardedIn (fun a => a == .negotiate .cipher_suite (some .AlertHandshakeFailure)) isProgress
      (exec env (flat .server_handle_hello)).1 ∧
    GuardedIn (fun a => a == .negotiate .signature_algorithm (some .AlertHandshakeFailure)) isProgress
      (exec env (flat .server_handle_hello)).1 ∧
    GuardedIn (fun a => a == .negotiate .supported_version (some .AlertProtocolVersion)) isProgress
      (exec env (flat .server_handle_hello)).1 ∧
    GuardedIn (fun a => a == .negotiate .cipher_suite (some .AlertHandshakeFailure)) isProgress
      (exec env (flat .client_handle_hello)).1 := by
  refine ⟨?_, ?_, ?_, ?_⟩ <;>
    exact dom_sound _ _ (by intro a h; simp at h; simp [h, isProgress]) env _ (by decide)

/-- ALPN: when the server is configured with protocols, the ALPN negotiation
    (alert "No common ALPN protocols") precedes every message, key and state change -/
theorem alpn_negotiation_first (env : Env) (h : env.test .sh_alpn_configured = true) :
    GuardedIn (fun a => a == .negotiate .alpn_negotiated (some .AlertHandshakeFailure)) isProgress
      (exec env (flat .server_handle_hello)).1 :=
  domK_sound [(.sh_alpn_configured, true)] _ _ (by intro a h; simp at h; simp [h, isProgress]) env
    (by simp [condsHold, h]) _ (by decide)

end AQ.Props.C03

namespace AQ.Props.C03
open AQ.TlsSym

/-! ### agreement and byte flips (symbolic; PARTIAL relative to the computational claim)

Full statement (kept here): whenever both endpoints complete they hold identical
traffic secrets and report the same QUIC version, cipher suite, ALPN protocol
and resumption status; changing any byte of any handshake message in either
direction prevents completion on the endpoint that received it.

Proved below in the symbolic model, under explicit hypotheses: hash and MAC
collision freedom, unforgeability of Finished, correctness of the key agreement
(both sides obtain the same input keying material from the same transcript) and
the fact that every reported parameter is a function of the transcript (each side
reads / wrote it in ServerHello, EncryptedExtensions and the transport
parameters; checked on real connections by checks/c03.py).  Missing for the full
claim: the computational security of SHA-2 / HMAC / HKDF / signatures, X.509
validation, and the refinement from tls.py's byte-level objects to `View`. -/

variable {Msg H K Tag : Type}

/-- an accepted Finished was computed by the peer over the SAME transcript with the same key -/
theorem finished_binds_transcript (P : Prims Msg H K Tag) (r s : View Msg K Tag)
    (hh : HashInjective P) (hm : MacInjective P) (hu : Unforgeable P r s)
    (hs : s.honest P) (ha : r.accepts P) : r.prefixIn = s.prefixOut ∧ r.keyIn = s.keyOut := by
  have h1 : r.received = s.sent := hu _ ha
  unfold View.accepts at ha
  unfold View.honest at hs
  rw [ha, hs] at h1
  rcases hm _ _ _ _ h1 with ⟨hk, hhash⟩
  exact ⟨hh _ _ hhash, hk⟩

/-- `agreement_partial`: both endpoints completed ⇒ equal transcripts at both
    Finished messages, hence equal values of everything computed from the
    transcript (`params`: cipher suite, ALPN, version information, resumption
    flag) and equal secrets (`derive ikm transcript`) given equal input keying
    material -/
theorem agreement_partial {Params Sec IKM : Type} (P : Prims Msg H K Tag) (c s : View Msg K Tag)
    (params : List Msg → Params) (derive : IKM → List Msg → Sec) (ikmC ikmS : IKM)
    (hh : HashInjective P) (hm : MacInjective P)
    (huc : Unforgeable P c s) (hus : Unforgeable P s c)
    (hcs : c.honest P) (hss : s.honest P) (hca : c.accepts P) (hsa : s.accepts P)
    (hdh : c.prefixIn = s.prefixOut → ikmC = ikmS) :
    -- transcript up to the server Finished, and up to the client Finished
    c.prefixIn = s.prefixOut ∧ s.prefixIn = c.prefixOut ∧
    params c.prefixOut = params s.prefixIn ∧
    derive ikmC c.prefixIn = derive ikmS s.prefixOut ∧ derive ikmC c.prefixOut = derive ikmS s.prefixIn := by
  have h1 := (finished_binds_transcript P c s hh hm huc hss hca).1
  have h2 := (finished_binds_transcript P s c hh hm hus hcs hsa).1
  have hk := hdh h1
  refine ⟨h1, h2, by rw [h2], by rw [h1, hk], by rw [h2, hk]⟩

/-- `byte_flip_blocks_partial` (messages covered by the peer's Finished): if the
    receiver's transcript differs from the sender's in ANY position before the
    sender's Finished — one altered byte makes the message at that position
    different — the receiver does not complete -/
theorem byte_flip_blocks_partial (P : Prims Msg H K Tag) (r s : View Msg K Tag)
    (hh : HashInjective P) (hm : MacInjective P) (hu : Unforgeable P r s) (hs : s.honest P)
    (i : Nat) (m' : Msg) (hi : i < s.prefixOut.length) (hne : s.prefixOut[i] ≠ m')
    (hrecv : r.prefixIn = alter s.prefixOut i m') : ¬ r.accepts P := by
  intro ha
  have h := (finished_binds_transcript P r s hh hm hu hs ha).1
  rw [hrecv] at h
  have : (alter s.prefixOut i m')[i]'(by simp [alter, hi]) = m' := by simp [alter]
  have h2 : (alter s.prefixOut i m')[i]'(by simp [alter, hi]) = s.prefixOut[i] := by
    simp only [h]
  rw [this] at h2
  exact hne h2.symm

/-- ... and an altered Finished itself: a verify_data different from the one the
    peer sent is never accepted.  `Tag` and `Msg` are terms, not fixed-length
    strings: a SHORTENED or lengthened verify_data (resp. message) is simply a
    different term, so this theorem and `byte_flip_blocks_partial` quantify over
    length-changing alterations as well (`m'` / `r.received` are arbitrary).  What
    the symbolic model cannot see is an implementation whose acceptance test is not
    equality of the two values (e.g. a comparison over the common prefix): that is a
    failure of the refinement `View.accepts` ↔ tls.py, guarded by the extraction —
    only `a != b` followed by `raise` is recognised as VerifyFinished / VerifyBinder
    (`auth_values_are_rfc`, entries `*.refuse_if`); anything else breaks the tie —
    and by the truncation family of checks/c03.py on the real objects. -/
theorem finished_flip_blocks (P : Prims Msg H K Tag) (r s : View Msg K Tag)
    (hu : Unforgeable P r s) (hne : r.received ≠ s.sent) : ¬ r.accepts P := by
  intro ha
  exact hne (hu _ ha)

/-- `agreement_partial`, strengthened: both endpoints completed ⇒ the SAME
    transcript on both sides up to each Finished, hence — for every handshake
    shape (with or without CertificateRequest / client Certificate flight, with
    or without PSK) — the same report (cipher suite, resumption flag, ALPN, 0-RTT
    offered / accepted, client and server QUIC transport parameters incl.
    version information) and the same early / handshake / application /
    resumption secrets, given the same input keying material -/
theorem agreement_full_partial {Suite Alpn TP IKM PSK Sec : Type} (P : Prims Msg H K Tag) (c s : View Msg K Tag)
    (F : Fields Msg Suite Alpn TP) (kdf : IKM → PSK → H → Nat → Sec) (finMsg : Tag → Msg)
    (ikmC ikmS : IKM) (pskC pskS : PSK)
    (hh : HashInjective P) (hm : MacInjective P)
    (huc : Unforgeable P c s) (hus : Unforgeable P s c)
    (hcs : c.honest P) (hss : s.honest P) (hca : c.accepts P) (hsa : s.accepts P)
    -- same key shares and same PSK identity in the same transcript give the same keying material
    (hdh : c.prefixIn = s.prefixOut → ikmC = ikmS) (hpsk : c.prefixIn = s.prefixOut → pskC = pskS) :
    report F c.prefixOut = report F s.prefixIn ∧
    report F c.prefixIn = report F s.prefixOut ∧
    secrets P kdf ikmC pskC c.prefixOut c.prefixIn.length (finMsg c.sent)
      = secrets P kdf ikmS pskS s.prefixIn s.prefixOut.length (finMsg s.received) := by
  have h1 := (finished_binds_transcript P c s hh hm huc hss hca).1
  have h2 := (finished_binds_transcript P s c hh hm hus hcs hsa).1
  have h3 : s.received = c.sent := hus _ hsa
  refine ⟨by rw [h2], by rw [h1], ?_⟩
  rw [h2, h1, hdh h1, hpsk h1, h3]

/-- `byte_flip_blocks_partial` in BOTH directions and for EVERY handshake
    message before a Finished: ClientHello, ServerHello, EncryptedExtensions,
    CertificateRequest, Certificate, CertificateVerify towards the client (any
    position of the server's transcript before its Finished, the ClientHello
    included since the server hashed the altered one it received), and
    ClientHello, the client's Certificate / CertificateVerify and the echoed
    server flight towards the server (any position of the client's transcript
    before its Finished); the two Finished messages themselves by
    `finished_flip_blocks` -/
theorem byte_flip_blocks_both_directions (P : Prims Msg H K Tag) (c s : View Msg K Tag)
    (hh : HashInjective P) (hm : MacInjective P) (huc : Unforgeable P c s) (hus : Unforgeable P s c)
    (hcs : c.honest P) (hss : s.honest P) :
    (∀ i m', ∀ hi : i < s.prefixOut.length, s.prefixOut[i] ≠ m' →
        c.prefixIn = alter s.prefixOut i m' → ¬ c.accepts P) ∧
    (∀ i m', ∀ hi : i < c.prefixOut.length, c.prefixOut[i] ≠ m' →
        s.prefixIn = alter c.prefixOut i m' → ¬ s.accepts P) ∧
    (c.received ≠ s.sent → ¬ c.accepts P) ∧ (s.received ≠ c.sent → ¬ s.accepts P) :=
  ⟨fun i m' hi hne hr => byte_flip_blocks_partial P c s hh hm huc hss i m' hi hne hr,
   fun i m' hi hne hr => byte_flip_blocks_partial P s c hh hm hus hcs i m' hi hne hr,
   finished_flip_blocks P c s huc, finished_flip_blocks P s c hus⟩

/-! What keeps these statements `_partial` (they cannot be closed inside this development):

  1. cryptography is symbolic: `HashInjective`, `MacInjective`, `Unforgeable` stand for the
     collision resistance of SHA-256/384, the PRF/MAC security of HMAC and the secrecy of the
     handshake traffic secrets (which itself rests on (EC)DHE and on the authentication of the key
     share by CertificateVerify / the PSK); a computational statement needs a game-based model;
  2. `hdh` / `hpsk` (same keying material from the same transcript) are the correctness of
     X25519 / X448 / ECDH and of the ticket store — external libraries and application callbacks;
  3. `View` is an abstraction of tls.py: that each endpoint MACs exactly its running transcript with
     its read / write handshake secret is proved for the extracted machine (`order_matches_rfc`,
     `auth_values_are_rfc`), but the refinement from the byte-level Python objects (Buffer slices,
     hashlib state) to `List Msg` is checked by the correspondence runs, not proved;
  4. `Fields`: that the reported values are the fields of ClientHello / ServerHello /
     EncryptedExtensions (the server writes what it negotiated, the client reads it) is observed on
     real connection pairs over the configuration lattice (checks/c03.py), not extracted;
  5. byte flips in NewSessionTicket (after completion) and in 0-RTT application data are outside
     the handshake transcript and outside this property. -/

/-- the hypotheses are satisfiable: a concrete injective instantiation -/
example : ∃ P : Prims Nat (List Nat) Nat (Nat × List Nat), HashInjective P ∧ MacInjective P :=
  ⟨⟨id, fun k h => (k, h)⟩, fun _ _ h => h, fun _ _ _ _ h => by simpa using h⟩

end AQ.Props.C03

#print axioms AQ.Props.C03.negotiate_spec
#print axioms AQ.Props.C03.no_common_iff
#print axioms AQ.Props.C03.final_version_supported
#print axioms AQ.Props.C03.transcript_coverage
#print axioms AQ.Props.C03.client_complete_authentic
#print axioms AQ.Props.C03.verify_cert_uses_configured_name
#print axioms AQ.Props.C03.auth_values_are_rfc
#print axioms AQ.Props.C03.trust_store_only_configured
#print axioms AQ.Props.C03.offer_is_configuration_only
#print axioms AQ.Props.C03.negotiation_first
#print axioms AQ.Props.C03.agreement_partial
#print axioms AQ.Props.C03.byte_flip_blocks_partial
#print axioms AQ.Props.C03.agreement_full_partial
#print axioms AQ.Props.C03.byte_flip_blocks_both_directions
