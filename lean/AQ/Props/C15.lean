/-
  C15 — HTTP/3 applications only ever see well-formed messages.

  "Every header block handed to the application has lower-case names free of
   control, space and non-ASCII characters, values free of NUL, CR and LF and of
   leading or trailing whitespace, all pseudo-headers before regular headers with
   none repeated or unknown, a :method on requests, a :status on responses and
   none on trailers; and when a stream ends, a declared content-length equals the
   number of body bytes delivered.  A peer message breaking any of these rules
   closes the connection with the HTTP/3 message error instead of producing the
   event."

  Model: AQ.Model.H3Validate (validators + per-stream accounting, tied to
  src/aioquic/h3/connection.py by checks/c15.py).  Spec: AQ.Model.H3ValidateSpec
  (`WellFormed`, written from the text above).

  Fixed in /repo 4067c72: a block whose content-length headers declare
  different integers is now rejected (`differing_content_length_rejected`).

  Fixed in /repo 602426e + 3e2c1f0: a stream that ends inside a DATA frame is
  a frame error (H3_FRAME_ERROR), and a FIN that comes with a PUSH_PROMISE or
  unknown-type frame is checked and reported (`DataReceived(b"", stream_ended=True)`).
  So `stream_end_reported` holds for EVERY way the FIN can arrive, and with
  `content_length_checked` gives `content_length_at_stream_end`.  The trace
  theorems quantify over `QOp`: plain inputs, HEADERS / PUSH_PROMISE frames that
  block on QPACK, inputs buffered behind them, and the encoder-stream delivery
  that resumes them through `_receive_stream_data_uni`.
-/
import AQ.Proofs.H3Validate
namespace AQ.Props.C15
open AQ AQ.H3V AQ.H3V.Spec

/-! ## character classes (all 256 byte values) -/

/-- "lower-case names free of control, space and non-ASCII characters": the
    guard of `validate_header_name` rejects byte `c` exactly when the rule does,
    for every byte value. -/
theorem name_byte_guard (c : UInt8) : badNameByte c = false ↔ NameByteOk c :=
  badNameByte_false_iff c

/-- "values free of NUL, CR and LF": the guard of `validate_header_value`, for every byte value. -/
theorem value_byte_guard (c : UInt8) :
    badValueByte c = false ↔ (c.toNat ≠ 0x00 ∧ c.toNat ≠ 0x0D ∧ c.toNat ≠ 0x0A) :=
  badValueByte_false_iff c

/-- "leading or trailing whitespace": `c in (SP, HTAB)`, for every byte value. -/
theorem whitespace_guard (c : UInt8) : isWs c = true ↔ IsWhitespace c := isWs_iff c

/-- `validate_header_name` accepts exactly the names obeying the rule that have
    no colon after their first byte. -/
theorem validate_header_name_exact (name : Bytes) :
    validateHeaderName name = .ok () ↔ NameOk name ∧ (0x3A : UInt8) ∉ name.tail := by
  rw [validateHeaderName_ok_iff]
  unfold NameOk
  simp only [badNameByte_false_iff]

/-- `validate_header_value` accepts exactly the values obeying the rule. -/
theorem validate_header_value_exact (value : Bytes) :
    validateHeaderValue value = .ok () ↔ ValueOk value := validateHeaderValue_ok_iff value

/-! ## the validators, for all header lists -/

/-- "Every header block handed to the application has … ": whatever
    `validate_{request,response,push_promise}_headers` / `validate_trailers`
    accept is well-formed. -/
theorem validate_sound (kind : Kind) (hs : Headers) (r : Option Nat)
    (h : validate kind hs = .ok r) : WellFormed kind hs :=
  validateOn_wf h

/-- "A peer message breaking any of these rules closes the connection with the
    HTTP/3 message error": a list that is not well-formed raises `MessageError`
    (H3_MESSAGE_ERROR = 0x10E). -/
theorem validate_rejects (kind : Kind) (hs : Headers) (h : ¬ WellFormed kind hs) :
    validate kind hs = .error (.h3 0x10E) :=
  validateOn_rejects none h

/-- The validators never raise anything but `MessageError`. -/
theorem validate_error_code (kind : Kind) (hs : Headers) (e : Err)
    (h : validate kind hs = .error e) : e = .h3 0x10E :=
  validateOn_err _ _ _ _ h

/-- Exact characterisation: accepted ⇔ well-formed and the extra checks of the
    code hold — (1) a colon only as first byte of a name, (2) every
    content-length value is accepted by `int()` and non-negative, (3) all
    content-length headers of the block declare the same integer
    (`allDeclaredCL`, see `declared_content_lengths`), (4) transfer-encoding is
    `trailers`, (5) the code's required pseudo-headers (`:method` and
    `:authority` on requests, `:status` on responses, all of `:method :scheme
    :authority :path` on push promises), (6) `:scheme` http or https implies
    non-empty `:authority` and `:path`. -/
theorem validate_exact (kind : Kind) (hs : Headers) :
    (∃ r, validate kind hs = .ok r) ↔
      WellFormed kind hs ∧
      (∀ h ∈ hs, (0x3A : UInt8) ∉ h.1.tail) ∧
      (∀ h ∈ hs, h.1 = bContentLength → ∃ n : Int, pyIntOfBytes h.2 = some n ∧ 0 ≤ n) ∧
      (∀ a ∈ allDeclaredCL hs, ∀ b ∈ allDeclaredCL hs, a = b) ∧
      (∀ h ∈ hs, h.1 = bTransferEncoding → h.2 = bTrailers) ∧
      (∀ n ∈ requiredPseudo kind, n ∈ names hs) ∧
      (∀ sch, (bScheme, sch) ∈ hs → sch = bHttp ∨ sch = bHttps →
        (∃ a, (bAuthority, a) ∈ hs ∧ a ≠ []) ∧ (∃ p, (bPath, p) ∈ hs ∧ p ≠ [])) := by
  constructor
  · rintro ⟨r, h⟩
    have := (validateOn_ok_iff kind none hs r).1 h
    exact ⟨this.1, this.2.1⟩
  · rintro ⟨hw, he⟩
    exact ⟨_, (validateOn_ok_iff kind none hs _).2 ⟨hw, he, rfl⟩⟩

/-- `allDeclaredCL hs` lists exactly the integers declared by the
    content-length headers of `hs`. -/
theorem declared_content_lengths (hs : Headers) (n : Nat) :
    n ∈ allDeclaredCL hs ↔ ∃ h ∈ hs, h.1 = bContentLength ∧ pyIntOfBytes h.2 = some (n : Int) :=
  mem_allDeclaredCL hs n

/-- The content-length an accepted request/response block leaves in
    `stream.expected_content_length` is the value of its content-length
    headers (`declaredCL` = the last, all being equal); trailers and push
    promises record nothing. -/
theorem validate_result (kind : Kind) (hs : Headers) (r : Option Nat)
    (h : validate kind hs = .ok r) :
    r = (if hasStream kind = true then declaredCL hs else none) := by
  have := ((validateOn_ok_iff kind none hs r).1 h).2.2
  rw [this]
  cases hasStream kind <;> simp
  cases declaredCL hs <;> rfl

/-! ## events -/

/-- "… instead of producing the event": when handling a `StreamDataReceived`
    closes the connection, no H3 event at all is returned, and the connection
    is done; the error is H3_MESSAGE_ERROR, H3_FRAME_UNEXPECTED or H3_FRAME_ERROR. -/
theorem event_after_validate_error (s : St) (op : Op) (e : Err)
    (h : (step s op).2.2 = some e) :
    (step s op).2.1 = [] ∧ (step s op).1.done = true ∧ (e = .h3 0x10E ∨ e = .h3 0x105 ∨ e = .h3 0x106) :=
  ⟨(step_error_no_events s op e h).1, (step_error_no_events s op e h).2, step_err s op e h⟩

/-- "Every header block handed to the application …": every `HeadersReceived`
    produced by a step carries a list that is well-formed for the kind the
    stream state selects (request/response first, trailers second), every
    `PushPromiseReceived` one that is well-formed for a push promise. -/
theorem event_after_validate (s : St) (op : Op) :
    ∀ ev ∈ (step s op).2.1,
      (∀ hs e, ev = .headers hs e → WellFormed (hdrKind s) hs) ∧
      (∀ hs, ev = .pushPromise hs → WellFormed .push hs) := by
  intro ev hev
  have := step_events_wf s op ev hev
  constructor
  · rintro hs e rfl; exact this
  · rintro hs rfl; exact this

/-- The same over whole input sequences, from any state, INCLUDING frames that
    are QPACK-blocked and resumed by the encoder stream (`QOp.hdrb/ppb/unblock`). -/
theorem events_well_formed (s : St) (ops : List QOp) :
    ∀ ev ∈ qtrace s ops,
      (∀ hs e, ev = .headers hs e →
        WellFormed .request hs ∨ WellFormed .response hs ∨ WellFormed .trailers hs) ∧
      (∀ hs, ev = .pushPromise hs → WellFormed .push hs) := by
  intro ev hev
  have := qtrace_events_wf s ops ev hev
  constructor
  · rintro hs e rfl; exact this
  · rintro hs rfl; exact this

/-- A HEADERS frame whose block breaks a rule closes the connection with
    H3_MESSAGE_ERROR and produces nothing. -/
theorem bad_headers_close (s : St) (hs : Headers) (fin : Bool) (hd : s.done = false)
    (ha : applicable s (.hdr hs fin) = true) (ht : s.hstate ≠ .afterTrailers)
    (hwf : ¬ WellFormed (hdrKind s) hs) :
    step s (.hdr hs fin) = ({ s with done := true }, [], some (.h3 0x10E)) :=
  step_hdr_rejects s hs fin hd ha ht hwf

/-- A PUSH_PROMISE frame (request stream, client) whose block breaks a rule
    closes the connection with H3_MESSAGE_ERROR and produces nothing. -/
theorem bad_push_promise_closes (s : St) (hs : Headers) (fin : Bool) (hd : s.done = false)
    (ha : applicable s (.pp hs fin) = true) (hc : s.isClient = true) (hp : s.isPush = false)
    (hwf : ¬ WellFormed .push hs) :
    step s (.pp hs fin) = ({ s with done := true }, [], some (.h3 0x10E)) :=
  step_pp_rejects s hs fin hd ha hc hp hwf

/-! ## content-length -/

/-- "when a stream ends, a declared content-length equals the number of body
    bytes delivered": for every sequence of inputs on a fresh request or push
    stream and every prefix `p` of the reported events that ends with an event
    with `stream_ended = True`: if ANY content-length header of the first
    `HeadersReceived` of `p` declares `n`, the `DataReceived` events of `p`
    carry exactly `n` bytes.  The inputs include HEADERS / trailers / PUSH_PROMISE
    frames that are QPACK-blocked when they (and possibly the FIN and further
    frames) arrive and are resumed later by `_receive_stream_data_uni`. -/
theorem content_length_checked (isClient isPush : Bool) (ops : List QOp) (p : List Event)
    (hp : p <+: qtrace { isClient := isClient, isPush := isPush } ops)
    (ev : Event) (hlast : p.getLast? = some ev) (hend : ev.ended = true)
    (hs0 : Headers) (n : Nat) (hfirst : firstHeaders p = some hs0) (hdecl : n ∈ allDeclaredCL hs0) :
    bodyBytes p = n := by
  have := (qtrace_good ops (good_init isClient isPush)).2
  simp only [List.nil_append] at this
  exact this p hp ev hlast hend hs0 n hfirst hdecl

/-- A mismatch at the end of the stream closes the connection with
    H3_MESSAGE_ERROR: `_check_content_length` raises nothing else. -/
theorem content_length_error_code (s : St) (e : Err) (h : checkContentLength s = .error e) :
    e = .h3 0x10E := checkContentLength_err s e h

/-- "when a stream ends": whichever way the end of the stream becomes known to
    the frame handlers — the FIN arrives on a stream that is not blocked (with a
    HEADERS, DATA, PUSH_PROMISE or unknown-type frame, with the last or with some
    middle bytes of a DATA frame, or alone), or a stream whose FIN has arrived is
    unblocked by the QPACK encoder stream — either the connection is closed or
    the last event returned by that step has `stream_ended = True`. -/
theorem stream_end_reported (s : St) (q : QOp) (hd : s.done = false)
    (ha : qapplicable s q = true) (hfin : endsStream s q = true) (hok : (qstep s q).2.2 = none) :
    ∃ ev, (qstep s q).2.1.getLast? = some ev ∧ ev.ended = true :=
  qfin_reports_end s q hd ha hfin hok

/-- on a stream that is not blocked, `qstep` is the `step` of the theorems above -/
theorem unblocked_step (s : St) (op : Op) (hb : s.blocked = none) : qstep s (.plain op) = step s op :=
  qstep_plain s op hb

/-- The content-length clause in full: for every input sequence on a fresh
    stream whose last input ends the stream (see `stream_end_reported`) without
    closing the connection, any content-length declared by the first
    `HeadersReceived` equals the number of body bytes of ALL `DataReceived` events. -/
theorem content_length_at_stream_end (isClient isPush : Bool) (pre : List QOp) (q : QOp)
    (hd : (qfinal { isClient := isClient, isPush := isPush } pre).done = false)
    (ha : qapplicable (qfinal { isClient := isClient, isPush := isPush } pre) q = true)
    (hfin : endsStream (qfinal { isClient := isClient, isPush := isPush } pre) q = true)
    (hok : (qstep (qfinal { isClient := isClient, isPush := isPush } pre) q).2.2 = none)
    (hs0 : Headers) (n : Nat)
    (hfirst : firstHeaders (qtrace { isClient := isClient, isPush := isPush } (pre ++ [q])) = some hs0)
    (hdecl : n ∈ allDeclaredCL hs0) :
    bodyBytes (qtrace { isClient := isClient, isPush := isPush } (pre ++ [q])) = n := by
  obtain ⟨ev, hlast, hend⟩ := qfin_reports_end _ q hd ha hfin hok
  refine content_length_checked isClient isPush (pre ++ [q]) _ (List.prefix_refl _) ev ?_ hend
    hs0 n hfirst hdecl
  rw [qtrace_append, List.getLast?_append, hlast]
  rfl

/-- Errors of every input, blocked or not: no event, connection done, one of
    H3_MESSAGE_ERROR / H3_FRAME_UNEXPECTED / H3_FRAME_ERROR. -/
theorem resume_error_no_event (s : St) (q : QOp) (e : Err) (h : (qstep s q).2.2 = some e) :
    (qstep s q).2.1 = [] ∧ (qstep s q).1.done = true ∧ (e = .h3 0x10E ∨ e = .h3 0x105 ∨ e = .h3 0x106) :=
  ⟨(qstep_error_no_events s q e h).1, (qstep_error_no_events s q e h).2, qstep_err s q e h⟩

/-- The resume path checks: a headers-only response (content-length: 5) whose
    HEADERS were blocked when the FIN arrived, and trailers blocked at the FIN after
    3 of 5 bytes, close the connection with H3_MESSAGE_ERROR when unblocked; with
    matching lengths the end is reported. -/
theorem resumed_end_of_stream_checked :
    (qstep (qfinal { isClient := true, isPush := false } [.hdrb [hStatus200, hCL [0x35]] true]) .unblock).2
      = ([], some (.h3 0x10E)) ∧
    (qstep (qfinal { isClient := true, isPush := false }
      [.plain (.hdr [hStatus200, hCL [0x35]] false), .plain (.data 3 3 false), .hdrb [([0x78], [0x79])] true]) .unblock).2
      = ([], some (.h3 0x10E)) ∧
    qtrace { isClient := true, isPush := false }
      [.hdrb [hStatus200, hCL [0x33]] false, .plain (.data 3 3 false), .plain .fin, .unblock]
      = [.headers [hStatus200, hCL [0x33]] false, .data 3 true] := by
  decide +kernel

/-! ### the former counterexamples of the content-length clause, now checked -/


/-- FIXED (4067c72): `content-length: 5` followed by `content-length: 3` is
    rejected for every kind of block, and on a stream it closes the connection
    with H3_MESSAGE_ERROR; repeating the same integer (`3` and `+3`) is accepted. -/
theorem differing_content_length_rejected :
    (∀ kind, validate kind (GOODPREFIX kind ++ [hCL [0x35], hCL [0x33]]) = .error (.h3 0x10E)) ∧
    validate .response [hStatus200, hCL [0x33], hCL [0x2B, 0x33]] = .ok (some 3) ∧
    step { isClient := true, isPush := false } (.hdr [hStatus200, hCL [0x35], hCL [0x33]] false)
      = ({ isClient := true, isPush := false, done := true }, [], some (.h3 0x10E)) := by
  refine ⟨fun kind => ?_, ?_, ?_⟩
  · cases kind <;> decide +kernel
  · decide +kernel
  · decide +kernel

/-- For ALL blocks: two content-length headers declaring different integers
    make every validator raise `MessageError`. -/
theorem differing_content_length_rejected_all (kind : Kind) (hs : Headers) (a b : Nat)
    (ha : a ∈ allDeclaredCL hs) (hb : b ∈ allDeclaredCL hs) (hab : a ≠ b) :
    validate kind hs = .error (.h3 0x10E) := by
  cases hv : validate kind hs with
  | error e => rw [validateOn_err _ _ _ _ hv]; rfl
  | ok r =>
    have := ((validateOn_ok_iff kind none hs r).1 hv).2.1.2.2.1
    exact absurd (this a ha b hb) hab

/-- FIXED (3e2c1f0): HEADERS (content-length: 5), then an unknown-type frame
    carrying the FIN: the content-length is checked (0 of 5 bytes: H3_MESSAGE_ERROR);
    with a matching length the end of the stream is reported; same for PUSH_PROMISE. -/
theorem fin_after_other_frame_checked :
    (step (finalState { isClient := true, isPush := false } [.hdr [hStatus200, hCL [0x35]] false])
      (.other 0x21 true)).2 = ([], some (.h3 0x10E)) ∧
    trace { isClient := true, isPush := false }
      [.hdr [hStatus200, hCL [0x30]] false, .other 0x21 true]
      = [.headers [hStatus200, hCL [0x30]] false, .data 0 true] ∧
    trace { isClient := true, isPush := false }
      [.hdr [hStatus200] false, .pp (GOODPREFIX .push) true]
      = [.headers [hStatus200] false, .pushPromise (GOODPREFIX .push), .data 0 true] := by
  decide +kernel

/-- FIXED (602426e): the FIN arrives inside a DATA frame (10 announced, 3 + 1
    received), with bytes or alone: H3_FRAME_ERROR, no event. -/
theorem fin_inside_data_frame_is_frame_error :
    let s := finalState { isClient := true, isPush := false }
      [.hdr [hStatus200, hCL [0x35]] false, .data 10 3 false]
    (step s (.frag 1 true)).2 = ([], some (.h3 0x106)) ∧
    (step s .fin).2 = ([], some (.h3 0x106)) ∧
    (step (finalState { isClient := true, isPush := false } [.hdr [hStatus200, hCL [0x35]] false])
      (.data 10 3 true)).2 = ([], some (.h3 0x106)) := by
  decide +kernel

/-- A content-length in trailers is syntax-checked but never compared with anything. -/
theorem trailers_content_length_ignored :
    trace { isClient := true, isPush := false }
      [.hdr [hStatus200, hCL [0x32]] false, .data 2 2 false, .hdr [hCL [0x37]] true]
      = [.headers [hStatus200, hCL [0x32]] false, .data 2 false, .headers [hCL [0x37]] true] := by
  decide +kernel

/-! ## non-vacuity -/

/-- an accepted request, an accepted response, accepted trailers and push promise exist -/
example : validate .request [hMethodGet, hAuthorityX, hCL [0x2B, 0x31, 0x5F, 0x30]] = .ok (some 10) := by
  decide +kernel
example : validate .response [hStatus200] = .ok none := by decide +kernel
example : validate .trailers [([0x78], [0x79])] = .ok none := by decide +kernel
example : validate .push [hMethodGet, (bScheme, bHttps), hAuthorityX, (bPath, [0x2F])] = .ok none := by
  decide +kernel
/-- rejected ones too: upper case, pseudo-header after a regular header, trailers with a pseudo-header -/
example : validate .request [hMethodGet, hAuthorityX, ([0x41], [])] = .error (.h3 0x10E) := by decide +kernel
example : validate .request [hMethodGet, ([0x61], []), hAuthorityX] = .error (.h3 0x10E) := by decide +kernel
example : validate .trailers [hStatus200] = .error (.h3 0x10E) := by decide +kernel
/-- the hypotheses of `content_length_checked` are satisfiable, with `n ≠ 0` -/
example :
    let tr := trace { isClient := false, isPush := false }
      [.hdr [hMethodGet, hAuthorityX, hCL [0x33]] false, .data 3 1 false, .frag 2 true]
    tr <+: tr ∧ tr.getLast? = some (.data 2 true) ∧ firstHeaders tr = some [hMethodGet, hAuthorityX, hCL [0x33]] ∧
      3 ∈ allDeclaredCL [hMethodGet, hAuthorityX, hCL [0x33]] ∧ bodyBytes tr = 3 := by
  decide +kernel
/-- and a mismatch closes the connection -/
example :
    (step { isClient := false, isPush := false, hstate := .afterHeaders, ecl := some 3 } (.data 2 2 true)).2.2
      = some (.h3 0x10E) := by decide +kernel
/-- `WellFormed` is decidable and satisfiable / refutable -/
example : WellFormed .request [hMethodGet, hAuthorityX] := by decide
example : ¬ WellFormed .request [hAuthorityX] := by decide

end AQ.Props.C15

#print axioms AQ.Props.C15.name_byte_guard
#print axioms AQ.Props.C15.value_byte_guard
#print axioms AQ.Props.C15.whitespace_guard
#print axioms AQ.Props.C15.validate_header_name_exact
#print axioms AQ.Props.C15.validate_header_value_exact
#print axioms AQ.Props.C15.validate_sound
#print axioms AQ.Props.C15.validate_rejects
#print axioms AQ.Props.C15.validate_error_code
#print axioms AQ.Props.C15.validate_exact
#print axioms AQ.Props.C15.validate_result
#print axioms AQ.Props.C15.event_after_validate_error
#print axioms AQ.Props.C15.event_after_validate
#print axioms AQ.Props.C15.events_well_formed
#print axioms AQ.Props.C15.bad_headers_close
#print axioms AQ.Props.C15.bad_push_promise_closes
#print axioms AQ.Props.C15.content_length_checked
#print axioms AQ.Props.C15.content_length_error_code
#print axioms AQ.Props.C15.stream_end_reported
#print axioms AQ.Props.C15.content_length_at_stream_end
#print axioms AQ.Props.C15.unblocked_step
#print axioms AQ.Props.C15.resume_error_no_event
#print axioms AQ.Props.C15.resumed_end_of_stream_checked
#print axioms AQ.Props.C15.declared_content_lengths
#print axioms AQ.Props.C15.differing_content_length_rejected
#print axioms AQ.Props.C15.differing_content_length_rejected_all
#print axioms AQ.Props.C15.fin_after_other_frame_checked
#print axioms AQ.Props.C15.fin_inside_data_frame_is_frame_error
#print axioms AQ.Props.C15.trailers_content_length_ignored
