/-
  Property C01, multi-stream part: "… on any set of streams …".

  Model: AQ/Model/StreamTable.lean — both endpoints' stream tables as a finite
  map from directed streams (id, direction) to independent one-stream systems
  `StreamSys.Sys`, with `_streams_queue`, `_streams_finished`, creation on first
  use, the stream loop of `_write_application` (service in queue order, discard of
  finished streams, served streams moved to the end) and the delivery handlers.
  `run {} ops` executes ANY interleaving of operations on any streams; `WF {} ops`
  only requires delivery reports to name outstanding frames of their stream (C08).
-/
import AQ.Proofs.StreamTable

namespace AQ.Props.C01Multi
open AQ AQ.Stream AQ.StreamSys AQ.StreamTable

/-- Independence: an application call, a frame arrival or a delivery report on
    one directed stream changes that stream by exactly one `StreamSys` step and
    leaves every other directed stream of the connection untouched. -/
theorem c01_multi_independent (t : Table) (ep : Bool) (id : Nat) (k' : Key) :
    (∀ c, (StreamTable.step t (.api ep id c)).1.get k' =
        if k' = (id, ep) then (StreamSys.step (t.get (id, ep)) c.op).1 else t.get k') ∧
    (∀ a, (StreamTable.step t (.arrive ep id a)).1.get k' =
        if k' = (id, !ep) then (StreamSys.step (t.get (id, !ep)) a.op).1 else t.get k') ∧
    (∀ r, (StreamTable.step t (.report ep id r)).1.get k' =
        if k' = (id, ep) then (StreamSys.step (t.get (id, ep)) r.op).1 else t.get k') := by
  refine ⟨fun c => ?_, fun a => ?_, fun r => ?_⟩
  · simp only [StreamTable.step, get_on, get_ensure]
  · simp only [StreamTable.step, get_on, get_ensure]
  · simp only [StreamTable.step, get_on]

/-- Lifting: every property of one-stream states that is preserved by every
    one-stream step (under the delivery-report contract) holds for EVERY stream of
    the table after ANY interleaving of table operations — in particular the
    invariant `Good` from which all per-stream C01 theorems are read off. -/
theorem c01_multi_stable (P : Sys → Prop) (hP : Stable P) (ops : List StreamTable.Op)
    (hw : StreamTable.WF {} ops) (k : Key) : P ((StreamTable.run {} ops).get k) :=
  all_run hP (all_init P hP) ops hw k

/-- "For every sequence of application writes, resets … on ANY SET OF STREAMS …":
    after any interleaving, for every directed stream of the connection:
    delivered bytes = the first `_buffer_start` written bytes (a prefix, in order,
    gap- and repeat-free); at most one end-of-stream event, and only if FIN was
    written and everything delivered; the receiving endpoint did not close the
    connection because of this stream and no emitted frame of it can raise
    FinalSizeError. -/
theorem c01_multi (ops : List StreamTable.Op) (hw : StreamTable.WF {} ops) (k : Key) :
    let s := (StreamTable.run {} ops).get k
    s.deliveredBytes = s.ghost.written.take s.recv.bufStart ∧
    s.deliveredBytes <+: s.ghost.written ∧
    s.endEvents ≤ 1 ∧
    (s.endEvents = 1 → s.ghost.finWritten = true ∧ s.deliveredBytes = s.ghost.written) ∧
    s.connError = none ∧
    (∀ f ∈ s.wire, ¬ ∃ e, handleFrame s.recv (OutFrame.toFrame f) = .error e) := by
  intro s
  have hg : Good s := c01_multi_stable Good stable_good ops hw k
  have hp := good_prefix hg
  refine ⟨hp.1, by rw [hp.1]; exact List.take_prefix _ _, hg.endi.ends_le, ?_, hg.endi.noerr,
    fun f hf => deliver_no_error hg.reach hg.endi hf⟩
  intro he
  obtain ⟨-, h2, h3⟩ := hg.endi.ends_fin he
  exact ⟨h2, by rw [hp.1, List.take_of_length_le h3]⟩

/-- The discard rule.  After any interleaving, for a stream id in
    `_streams_finished` of endpoint `ep`: a frame of that stream arriving at `ep`
    is ignored (StreamFinishedError) and `send_stream_data` / `reset_stream` at
    `ep` raise ValueError — neither changes any stream's state. -/
theorem c01_multi_discard (ops : List StreamTable.Op) (ep : Bool) (id : Nat)
    (hf : id ∈ (StreamTable.run {} ops).fin ep) :
    let t := StreamTable.run {} ops
    (∀ i f, (t.get (id, !ep)).wire[i]? = some f → (t.get (id, !ep)).connError = none →
        StreamSys.step (t.get (id, !ep)) (.deliver i) = (t.get (id, !ep), .ignored)) ∧
    (∀ d fin, StreamSys.step (t.get (id, ep)) (.appWrite d fin) = (t.get (id, ep), .err (.py .value))) ∧
    (∀ c, StreamSys.step (t.get (id, ep)) (.appReset c) = (t.get (id, ep), .err (.py .value))) := by
  intro t
  obtain ⟨h1', h2'⟩ := finGone_run finGone_init ops ep id hf
  have h1 : (t.get (id, ep)).sendGone = true := h1'
  have h2 : (t.get (id, !ep)).recvGone = true := h2'
  refine ⟨?_, ?_, ?_⟩
  · intro i f hw hc
    simp [StreamSys.step, hw, hc, h2]
  · intro d fin; simp [StreamSys.step, h1]
  · intro c; simp [StreamSys.step, h1]

/-- Service order: one run of the stream loop — any number of iterations, any
    builder space, any order of the moved tail — loses no stream: every stream of
    `_streams_queue` is still queued afterwards or was discarded as finished. -/
theorem c01_multi_queue (t : Table) (ep : Bool) (n : Nat) (inputs : List (Nat × Int × Nat))
    (tail : List Nat) (x : Nat) (hx : x ∈ t.queue ep) :
    x ∈ (StreamTable.step t (.serve ep n inputs tail)).1.queue ep ∨
    x ∈ (StreamTable.step t (.serve ep n inputs tail)).1.fin ep :=
  serve_keeps t ep n inputs tail x hx

/-! ### The hypotheses are satisfiable (test) -/

/-- two client streams interleaved with a server stream; stream 4 finishes in
    both directions and is discarded at the client; a late frame is ignored and a
    later write raises ValueError -/
def exOps : List StreamTable.Op :=
  [ .api true 0 (.write [1, 2, 3] false), .api true 4 (.write [9] true), .api false 4 (.write [] true),
    .serve true 2 [(0, 100, 100), (4, 100, 100)] [0, 4], .serve false 1 [(4, 100, 100)] [],
    .arrive false 4 (.frame 0), .arrive true 4 (.frame 0), .arrive false 0 (.frame 0),
    .report true 4 (.ack 0), .report false 4 (.ack 0),
    .serve true 2 [] [], .arrive true 4 (.frame 0), .api true 4 (.write [7] false) ]

example : StreamTable.WF {} exOps ∧ (StreamTable.run {} exOps).finC = [4] ∧
    (StreamTable.run {} exOps).queueC = [0] ∧
    ((StreamTable.run {} exOps).get (4, true)).deliveredBytes = [9] ∧
    ((StreamTable.run {} exOps).get (4, true)).endEvents = 1 ∧
    ((StreamTable.run {} exOps).get (4, false)).endEvents = 1 ∧
    ((StreamTable.run {} exOps).get (0, true)).deliveredBytes = [1, 2, 3] ∧
    ((StreamTable.run {} exOps).get (4, true)).ghost.written = [9] := by decide

end AQ.Props.C01Multi

#print axioms AQ.Props.C01Multi.c01_multi_independent
#print axioms AQ.Props.C01Multi.c01_multi_stable
#print axioms AQ.Props.C01Multi.c01_multi
#print axioms AQ.Props.C01Multi.c01_multi_discard
#print axioms AQ.Props.C01Multi.c01_multi_queue
