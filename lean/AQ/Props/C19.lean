/-
  Property C19 — asyncio adapter stays consistent under any event-loop schedule.

  Model: `AQ.Adapter` (AQ/Model/Adapter.lean) = aioquic/asyncio/protocol.py +
  server.py with fixes/C19-*.diff applied, tied to the code by the
  correspondence check (checks/c19.py: stub mode and real-stack traces).
  asyncio callbacks run to completion, so a schedule IS a list of atomic steps
  `Op`; `run {} ops` executes it from the empty world.  Every theorem below
  quantifies over ALL `ops`: all interleavings of datagram arrivals, timer
  callbacks, deferred transmissions, application coroutines and server
  datagrams, with arbitrary QUIC event lists / timer values / headers as inputs.

  HYPOTHESES.  What the rest of the stack guarantees is stated as explicit predicates on the schedule,
  and — where another property of this project proves it — DERIVED from that property's model:
    LiveDistinct   CPython    `id(waiter)` handed to send_ping differs from the ids of the ping waiters alive
                              (still registered) at that moment.  Nothing is assumed about dead objects: ids
                              may be, and in CPython are, re-used after a waiter completed.
    EventStreamOK  C09, C01   nothing follows ConnectionTerminated; per stream nothing follows the
                              StreamDataReceived with end_stream.  `event_order_discharged` derives it from
                              C09 `terminated_once` (AQ.CloseTimer) and C01 (`c01_nothing_after_end`, built on
                              `c01_fin_once` / `c01_fin_sound` / `c01_prefix`, AQ.StreamSys) through the
                              projections `termShape` / `streamView`.
    UNFORGEABLE SEAL (crypto, named hypothesis of `token_bound`): `vSeal = false`, i.e. no datagram carried a
                              token sealed under this server's key that the server never produced
                              (`World.markSeal`; RSA-OAEP under a key pair that never leaves the handler).
  Still ghost monitors (inputs of other layers not modelled in this project's C19 scope):
    vCid    C18      a ConnectionIdIssued whose ID is already routed; a ConnectionIdRetired for an ID that this
                     connection has not issued or has already retired
    vStream QUIC     create_stream() handed a stream ID that already has a reader, or called after termination
    vRand   urandom  a new connection's host CID that is already routed
    vRetryDcid peer  a token-bearing Initial whose DCID is not the source CID of the Retry it answers (only used
                     by `retry_scid_issued`, which NAMES that DCID; `routing_inv` does not need it)
  Monitors are monotone, so silence in the FINAL state is silence throughout.  TRUSTED: asyncio runs each
  modelled callback to completion (audited at run time by checks/c19.py: the modelled methods are plain
  `def`s without yield points and never re-enter the loop).
-/
import AQ.Proofs.AdapterEvents

namespace AQ.Props.C19
open AQ AQ.Adapter

/-! ## waiters -/

/-- "every connect, ping and close waiter finishes exactly once, with success or a connection error"

    For every schedule — datagrams, timers, deferred transmissions, API calls AND cancellations of awaiting
    application tasks at any point (`Op.cancelCaller`, see `cancel_harmless`) — whose ping uids are ids of
    simultaneously live objects (`LiveDistinct`: the uid of a
    new ping differs from the uids of the waiters registered at that moment — NOT global uniqueness; a uid
    may be re-used once its waiter has completed) and every connection:
    (1) no waiter is completed twice;
    (2) a completion is a normal return or ConnectionError, nothing else;
    (3) only started waiters are completed;
    (4) once ConnectionTerminated has been processed EVERY waiter ever started on the connection —
        before or after that event — has been completed exactly once;
    (5) once HandshakeCompleted has been processed every wait_connected() caller — before or after —
        has been completed exactly once. -/
theorem waiters_once (ops : List Op) (hlive : LiveDistinct {} ops) (c : Nat) (k : Conn)
    (hk : (run {} ops).conns[c]? = some k) :
    (∀ w, (ids k.p.log).count w ≤ 1) ∧
    (∀ e ∈ k.p.log, e.2 = Res.ok ∨ e.2 = Res.cerr) ∧
    (∀ w, w ∈ ids k.p.log → w ∈ k.p.created) ∧
    (k.p.termSeen = true → ∀ w ∈ k.p.created, (ids k.p.log).count w = 1) ∧
    (k.p.hsSeen = true → ∀ w ∈ k.p.connCreated, (ids k.p.log).count w = 1) := by
  have huid : k.p.vUid = false := liveDistinct_silent ops hlive c k hk
  have h : WInv (run {} ops).nextWid k.p := run_ginv presW {} rfl (ginv_init _) ops (by simp) c k hk huid
  have hle : ∀ w, (ids k.p.log).count w ≤ 1 := by
    intro w
    have h1 := h.cnt w
    have h2 : k.p.created.count w ≤ 1 := by rw [h.nodup.count]; split <;> omega
    omega
  refine ⟨hle, ?_, ?_, ?_, ?_⟩
  · intro e he
    have := h.noAssert e he
    cases hr : e.2 <;> simp_all
  · intro w hw
    have h1 := h.cnt w
    have : 0 < (ids k.p.log).count w := List.count_pos_iff.2 hw
    exact List.count_pos_iff.1 (by omega)
  · intro ht w hw
    have h1 := h.cnt w
    rw [h.termPend ht] at h1
    have : 0 < k.p.created.count w := List.count_pos_iff.2 hw
    have := hle w
    simp at h1; omega
  · intro hh w hw
    have hc : k.p.connected = true := by rw [h.connIff]; exact hh
    rcases h.connC w hw with h1 | h1
    · rw [h.connPend hc] at h1; cases h1
    · have : 0 < (ids k.p.log).count w := List.count_pos_iff.2 h1
      have := hle w
      omega

/-- Cancellation of the awaiting application task (`task.cancel()`, `asyncio.wait_for` timing out) is a
    schedule event (`Op.cancelCaller`), so `waiters_once`, `reader_bytes`, `routing_inv`, … quantify over
    cancellations at every point as well.  What the code guarantees — `wait_connected()` / `ping()` await
    `asyncio.shield(waiter)`, `wait_closed()` awaits the Event's own future — is that the step changes
    NOTHING of the adapter: no exception, same routing table, and every connection keeps every field (the
    waiter stays registered and pending, to be completed later by its deciding event exactly as if the caller
    were still there); only the ghost list `cancelled` grows.  In particular no waiter future is ever in a
    cancelled state, so `set_result` / `set_exception` in `_process_events` cannot raise InvalidStateError
    (the model has no such outcome; the correspondence check replays `adp.cancel` steps on the real objects
    and its oracle reports any InvalidStateError or cancelled waiter future). -/
theorem cancel_harmless (w : World) (c : Nat) (wd : WaiterId) :
    (step w (.cancelCaller c wd)).2.err = none ∧
    (step w (.cancelCaller c wd)).1.tbl = w.tbl ∧
    (step w (.cancelCaller c wd)).1.conns.length = w.conns.length ∧
    ∀ (c' : Nat) (k' : Conn), (step w (.cancelCaller c wd)).1.conns[c']? = some k' →
      ∃ k : Conn, w.conns[c']? = some k ∧ k'.ss = k.ss ∧ k'.p = { k.p with cancelled := k'.p.cancelled } ∧
        k'.p.pending = k.p.pending ∧ k'.p.log = k.p.log := by
  simp only [step, World.onProto]
  have herr : (w.onConn c (fun _ s => ({ s with p := cancelCaller s.p wd }, none)) .none).2.err = none := by
    simp only [World.onConn]; split <;> rfl
  refine ⟨herr, ?_⟩
  cases hk : w.conns[c]? with
  | none =>
    rw [onConn_none w c _ _ hk]
    exact ⟨rfl, rfl, fun c' k' h => ⟨k', h, rfl, rfl, rfl, rfl⟩⟩
  | some k =>
    rw [onConn_some w c _ _ k hk]
    refine ⟨rfl, by simp, ?_⟩
    intro c' k' h
    simp only [List.getElem?_set] at h
    by_cases e : c = c'
    · subst e
      simp only [if_true] at h
      split at h
      · cases h
        refine ⟨k, hk, rfl, ?_, ?_, ?_⟩ <;> (simp only [cancelCaller]; split <;> rfl)
      · cases h
    · simp only [e, if_false] at h
      exact ⟨k', h, rfl, rfl, rfl, rfl⟩

/-- Today's code (all fixes switched off) violates the clause on three two- or three-step schedules:
    (a) wait_connected() called after HandshakeCompleted was processed is never completed;
    (b) wait_connected() and ping() called after ConnectionTerminated was processed are never completed;
    (c) a second concurrent wait_connected() finishes with AssertionError. -/
theorem waiters_once_counterexample :
    -- (a) monitors silent, HandshakeCompleted processed, caller 0 started by wait_connected(): still pending
    (((run { q := Quirks.today } [.newConn, .dgram 0 none [.handshake] [], .waitConn 0]).conns[0]?.map
        (fun k => (k.p.vUid, k.p.hsSeen, k.p.connCreated))) = some (false, true, [0]) ∧
     ((run { q := Quirks.today } [.newConn, .dgram 0 none [.handshake] [], .waitConn 0]).conns[0]?.map
        (fun k => (k.p.connWaiters, k.p.log))) = some ([0], [])) ∧
    -- (b) ConnectionTerminated processed, callers 0 (wait_connected) and 1 (ping) started afterwards: pending
    (((run { q := Quirks.today } [.newConn, .dgram 0 none [.terminated] [], .waitConn 0, .ping 0 7 none []]).conns[0]?.map
        (fun k => (k.p.vUid, k.p.termSeen, k.p.created))) = some (false, true, [0, 1]) ∧
     ((run { q := Quirks.today } [.newConn, .dgram 0 none [.terminated] [], .waitConn 0, .ping 0 7 none []]).conns[0]?.map
        (fun k => (k.p.pending, k.p.log))) = some ([0, 1], [])) ∧
    -- (c) the second concurrent caller finishes with AssertionError
    ((run { q := Quirks.today } [.newConn, .waitConn 0, .waitConn 0]).conns[0]?.map
        (fun k => (k.p.vUid, k.p.log))) = some (false, [(1, Res.assertion)]) :=
  ⟨⟨by decide, by decide⟩, ⟨by decide, by decide⟩, by decide⟩

/-! ## stream readers -/

/-- "bytes … are read unchanged and in order from the peer's reader followed by end-of-file"
    (adapter part: the QUIC layer's StreamDataReceived events carry the peer's bytes, C01/C10).

    For every schedule and every connection whose processed events form a well-shaped event stream
    (`EventStreamOK`, derived from C09 / C01 by `event_order_discharged`) and whose stream IDs were fresh: each reader holds exactly the concatenation of the data of the StreamDataReceived events of
    its stream, in event order; it is at EOF iff an end_stream for the stream or ConnectionTerminated
    has been processed; and `feed_data` was never called on a reader already at EOF. -/
theorem reader_bytes (ops : List Op) (c : Nat) (k : Conn)
    (hk : (run {} ops).conns[c]? = some k) (hevs : EventStreamOK k.p.evLog) (hst : k.p.vStream = false) :
    (∀ sid r, k.p.readers.get sid = some r →
      r.data = dataOf sid k.p.evLog ∧ r.eof = (k.p.finSeen sid || k.p.termSeen)) ∧
    k.p.feedAfterEof = false := by
  have hev : k.p.vEv = false := (vEv_iff_okLog ops c k hk).2 (okLog_of_eventStreamOK hevs)
  have h : RS k.p := run_ginv presR {} rfl (ginv_init _) ops (by simp) c k hk hev hst
  exact ⟨h.inv.some_, h.clean⟩

/-! ## timer and deferred transmission -/

/-- "receive → process events → transmit → re-arm timer": for EVERY schedule (no hypothesis) the armed
    timer handle is exactly the deadline `get_timer()` last reported (so none is armed once the QUIC
    layer reports none, as it does after termination), and a recorded `_transmit_task` always has its
    `transmit` callback queued on the loop (a deferred transmission is never lost). -/
theorem timer_sync (ops : List Op) (c : Nat) (k : Conn) (hk : (run {} ops).conns[c]? = some k) :
    k.p.timer = k.p.timerAt ∧ (k.p.transmitTask = true → 1 ≤ k.p.pendingSoon) :=
  run_ginv presT {} rfl (ginv_init _) ops (by simp) c k hk

/-- The only Python exceptions `_process_events` can let escape are the StreamReader assertion
    (`feed_data` after `feed_eof`) and the server's retire handler (KeyError / AssertionError); both are
    recorded by the detectors that `reader_bytes` and `routing_inv` prove silent.  Hence, under those
    theorems' hypotheses, no exception escapes a datagram / timer / transmit callback of the adapter. -/
theorem exceptions_detected (c : Ctx) (s : PS) (e : Bool × Ev) (err : Err)
    (h : (processEvent c s e).2 = some err) :
    (processEvent c s e).1.p.feedAfterEof = true ∨ (processEvent c s e).1.p.retireFailed = true := by
  obtain ⟨note, ev⟩ := e
  revert h
  cases ev <;> simp only [processEvent] <;> (repeat' split) <;> simp

/-! ## server routing -/

/-- "A server keeps every live connection reachable through each connection ID it has issued and not
    seen retired … and holds no routing entry for a connection after it terminates."

    For every schedule in which connection IDs were fresh and retired only while live (C18, os.urandom:
    monitors `vCid`, `vRand`) and every connection's processed events are a well-shaped event stream
    (`EventStreamOK`, derived from C09 / C01): every server-side connection that has not processed ConnectionTerminated is
    the routing target of every ID the QUIC layer has issued for it and not retired; every routing entry
    points to such a live server-side connection (none to a terminated one, none to a client); and the
    retire handler never raised. -/
theorem routing_inv (ops : List Op)
    (hrand : (run {} ops).vRand = false)
    (hmon : ∀ (c : Nat) (k : Conn), (run {} ops).conns[c]? = some k → EventStreamOK k.p.evLog ∧ k.p.vCid = false) :
    (∀ (c : Nat) (k : Conn), (run {} ops).conns[c]? = some k → k.ss = true → k.p.termSeen = false →
      ∀ cid, cid ∈ k.p.issuedG → cid ∉ k.p.retiredG → (run {} ops).tbl.get cid = some c) ∧
    (∀ e ∈ (run {} ops).tbl, ∃ k : Conn, (run {} ops).conns[e.2]? = some k ∧ k.ss = true ∧ k.p.termSeen = false) ∧
    (∀ (c : Nat) (k : Conn), (run {} ops).conns[c]? = some k → k.p.retireFailed = false) := by
  have hmon' : ∀ (c : Nat) (k : Conn), (run {} ops).conns[c]? = some k → k.p.vEv = false ∧ k.p.vCid = false :=
    fun c k hk => ⟨(vEv_iff_okLog ops c k hk).2 (okLog_of_eventStreamOK (hmon c k hk).1), (hmon c k hk).2⟩
  have h := run_tw {} rfl ops ⟨hrand, hmon'⟩ tw_init
  exact ⟨h.inv.reach, h.inv.entries, h.ok⟩

/-- The source connection ID of the server's own Retry packet is a connection ID the server issued.  A
    connection created from a validated token starts with issued set [host CID, DCID of the token-bearing
    Initial] (`serverIssued`), so `routing_inv` covers that DCID like any other issued ID: while the connection
    lives and the ID is not retired, every datagram addressed to it is routed to that very connection (a
    retransmitted / duplicated / second Initial cannot create a second connection state).  This theorem names
    the ID: as long as the peer monitor `vRetryDcid` is silent (token-bearing Initials are addressed to the
    source CID of the Retry they answer, RFC 9000 §8.1.2), that DCID IS the sealed retry source connection ID,
    for every connection ever created on every schedule. -/
theorem retry_scid_issued (ops : List Op) (hpeer : (run {} ops).vRetryDcid = false) :
    ∀ cr ∈ (run {} ops).createdG, ∀ r, cr.rscid = some r → cr.dcid = r :=
  run_dj {} (by intro _ cr hcr; simp at hcr) ops hpeer

/-- Today's `transmit()` leaves the events raised while sending in the queue: after the single step
    "Initial datagram creates a connection whose first flight advertises a new connection ID", that ID
    is issued, not retired, the connection is live — and the table has no entry for it. -/
theorem routing_counterexample :
    (run { q := Quirks.today } [.sdgram 0 (.h [1] true true .empty) [2] none [] [.issued [3]]]).vRand = false ∧
    ((run { q := Quirks.today } [.sdgram 0 (.h [1] true true .empty) [2] none [] [.issued [3]]]).conns[0]?.map
        (fun k => (k.ss, k.p.vEv, k.p.vCid))) = some (true, false, false) ∧
    ((run { q := Quirks.today } [.sdgram 0 (.h [1] true true .empty) [2] none [] [.issued [3]]]).conns[0]?.map
        (fun k => (k.p.termSeen, k.p.issuedG, k.p.retiredG))) = some (false, [[2], [3]], []) ∧
    (run { q := Quirks.today } [.sdgram 0 (.h [1] true true .empty) [2] none [] [.issued [3]]]).tbl.get [3] = none :=
  ⟨by decide, by decide, by decide, by decide⟩

/-! ## the event-order hypothesis is what C09 and C01 prove -/

/-- `EventStreamOK` is exactly the condition under which the model's event-order monitor stays silent:
    for every schedule, `vEv = false` iff the events the connection processed are a well-shaped stream. -/
theorem event_order_exact (ops : List Op) (c : Nat) (k : Conn) (hk : (run {} ops).conns[c]? = some k) :
    k.p.vEv = false ↔ EventStreamOK k.p.evLog :=
  ⟨fun h => eventStreamOK_of_okLog ((vEv_iff_okLog ops c k hk).1 h),
   fun h => (vEv_iff_okLog ops c k hk).2 (okLog_of_eventStreamOK h)⟩

/-- C01, completed: over ANY lossy-network schedule of the stream system (`StreamSys.WF`: delivery reports
    name frames that were emitted and not yet reported — C08), after the StreamDataReceived that carries
    end_stream the stream hands NO further StreamDataReceived to the application. -/
theorem c01_nothing_after_end (id : Nat) (ops : List StreamSys.Op) (hw : StreamSys.WF (StreamSys.init id) ops) :
    ∀ pre e post, evTrace (StreamSys.init id) ops = pre ++ e :: post → e.endStream = true → post = [] :=
  AQ.Adapter.c01_nothing_after_end id ops hw

/-- The refinement map.  Let `l` be the events an adapter connection has processed.  If
    * the termination shape of `l` (`termShape`) is the shape of a prefix of the event log of a reachable
      state of C09's connection model (`CloseTimer.run`, documented usage), and
    * for every stream, the StreamDataReceived events of `l` (`streamView`) are a prefix of the events of a
      run of C01's stream system,
    then `l` satisfies `EventStreamOK` — so the hypothesis of `reader_bytes` / `routing_inv` is DISCHARGED by
    `AQ.Props.C09.terminated_once` and C01, not assumed. -/
theorem event_order_discharged {T : Type} (A : Recovery.FArith T) (c : Bool) (cops : List (CloseTimer.Op T))
    (hu : CloseTimer.Usage A (CloseTimer.Conn.init c) cops)
    (l : List Ev) (pre : List CloseTimer.Ev)
    (hp : pre <+: (CloseTimer.run A (CloseTimer.Conn.init c) cops).log)
    (hs : termShape l = pre.map CloseTimer.Ev.isTerm)
    (hstreams : ∀ sid, ∃ (id : Nat) (ops : List StreamSys.Op), StreamSys.WF (StreamSys.init id) ops ∧
      streamView sid l <+: evTrace (StreamSys.init id) ops) :
    EventStreamOK l :=
  eventStreamOK_of_models A c cops hu l pre hp hs hstreams

/-! ## retry tokens -/

/-- "creates connection state under address validation only for tokens it issued to that address"

    Hypothesis (unforgeable seal, `World.markSeal`): no datagram of the schedule carried a token that
    validates under this server's key without having been produced by its `create_token`.  Then every
    connection created while retry is on was created for a datagram from address `a` carrying a token
    that the server had sealed for that very address `a`, and with exactly the sealed connection IDs. -/
theorem token_bound (ops : List Op) (hseal : (run {} ops).vSeal = false) :
    ∀ cr ∈ (run {} ops).createdG, cr.underRetry = true →
      ∃ r, cr.rscid = some r ∧ (cr.addr, cr.odcid, r) ∈ (run {} ops).tokens :=
  (run_k {} ops hseal).2 (by intro cr hcr; simp at hcr)

/-- "tokens it issued to that address": the address a token is bound to is compared through
    retry.py `encode_address` (model `encodeAddress`, compared with the real function over a host / port
    grid by the check).  The encoding is injective on (packed host, port < 65536): two source addresses
    with the same encoding are the same host AND the same port — so the abstract address equality of
    `token_bound` is equality of real (host, port) pairs. -/
theorem encode_address_injective (h h' : Bytes) (p p' : Nat) (b : Bytes)
    (e : encodeAddress h p = .ok b) (e' : encodeAddress h' p' = .ok b) : h = h' ∧ p = p' := by
  simp only [encodeAddress] at e e'
  split at e
  · cases e
  · split at e'
    · cases e'
    · rename_i hp hp'
      have heq : h' ++ [UInt8.ofNat (p' / 256), UInt8.ofNat (p' % 256)] =
          h ++ [UInt8.ofNat (p / 256), UInt8.ofNat (p % 256)] :=
        (Except.ok.inj e').trans (Except.ok.inj e).symm
      obtain ⟨h1, h2⟩ := List.append_inj' heq rfl
      simp only [List.cons.injEq, and_true] at h2
      have a1 : p / 256 < 256 := by omega
      have a2 : p' / 256 < 256 := by omega
      have b1 : p % 256 < 256 := Nat.mod_lt _ (by decide)
      have b2 : p' % 256 < 256 := Nat.mod_lt _ (by decide)
      have c1 : p' / 256 = p / 256 := by
        have := congrArg UInt8.toNat h2.1
        simpa [UInt8.toNat_ofNat, Nat.mod_eq_of_lt a1, Nat.mod_eq_of_lt a2] using this
      have c2 : p' % 256 = p % 256 := by
        have := congrArg UInt8.toNat h2.2
        simpa [UInt8.toNat_ofNat, Nat.mod_eq_of_lt b1, Nat.mod_eq_of_lt b2] using this
      exact ⟨h1.symm, by omega⟩

/-- every port a UDP datagram can come from is encodable -/
theorem encode_address_total (h : Bytes) (p : Nat) (hp : p < 65536) : ∃ b, encodeAddress h p = .ok b := by
  simp only [encodeAddress]
  have : ¬ p / 256 > 255 := by omega
  simp [this]

/-! ## the hypotheses are satisfiable on runs where everything happens -/

/-- handshake, pings, connection IDs issued (also from `transmit()`) and retired, streams, termination,
    late waiters, a retry exchange and a forged token — with every monitor silent -/
def demo : List Op :=
  [ .newConn, .waitConn 0, .ping 0 5 (some 1) [], .dgram 0 (some 2) [.handshake, .pingAck 5] [],
    .mkStream 0 0, .write 0 0 [1, 2], .eof 0 0, .transmit 0 (some 3) [],
    .dgram 0 (some 3) [.data 0 [9] false, .data 0 [8] true] [], .waitConn 0,
    .sdgram 1 (.h [1] true true .empty) [2] none [] [],
    .sdgram 1 (.h [2] true true (.sealed 0 1 [1] [2])) [3] (some 4) [.handshake] [.issued [4]],
    .sdgram 2 (.h [7] true true (.junk 1)) [8] none [] [],
    .sdgram 2 (.h [7] true true (.sealed 0 1 [1] [2])) [8] none [] [],
    .sdgram 1 (.h [4] false false .empty) [] (some 5) [.retired [3]] [.issued [5]],
    .timer 1 none [.terminated] [], .waitClosed 1, .ping 1 6 none [],
    .dgram 0 none [.terminated] [], .waitConn 0, .ping 0 5 none [], .waitClosed 0 ]

def demoWorld : World := run { retry := true } demo

example : (demoWorld.vRand, demoWorld.vSeal) = (false, false) := by decide
example : demoWorld.conns.map (fun k => (k.p.vEv, k.p.vCid, k.p.vUid)) = [(false, false, false), (false, false, false)] := by
  decide
example : demoWorld.conns.map (fun k => k.p.vStream) = [false, false] := by decide
example : demoWorld.conns.map (fun k => k.p.log) =
    [[(0, Res.ok), (1, Res.ok), (2, Res.ok), (5, Res.ok), (6, Res.cerr), (7, Res.ok)], [(3, Res.ok), (4, Res.cerr)]] := by
  decide
example : (demoWorld.tbl, demoWorld.createdG.length) = ([], 1) := by decide

/-! ### the explicit hypotheses are satisfiable — and not trivially so -/

-- the demo schedule re-uses ping uid 5 after its first waiter completed: allowed
example : LiveDistinct {} demo := by decide
example : LiveDistinct {} [.newConn, .ping 0 5 none [], .dgram 0 none [.pingAck 5] [], .ping 0 5 none []] := by decide
-- the same uid for two simultaneously live waiters is what the hypothesis excludes (the model then loses a waiter)
example : ¬ LiveDistinct {} [.newConn, .ping 0 5 none [], .ping 0 5 none []] := by decide
example : ((run {} [.newConn, .ping 0 5 none [], .ping 0 5 none [], .dgram 0 none [.terminated] []]).conns[0]?.map
    (fun k => (k.p.created, k.p.log))) = some ([0, 1], [(1, Res.cerr)]) := by decide

-- cancelling the caller of an unacknowledged ping leaves the waiter registered; the late ack / the termination
-- complete it (and the others) exactly once
example : ((run {} [.newConn, .ping 0 5 none [], .ping 0 6 none [], .waitClosed 0, .cancelCaller 0 0,
    .dgram 0 none [.pingAck 5] [], .dgram 0 none [.terminated] []]).conns[0]?.map
    (fun k => (k.p.cancelled, k.p.log, k.p.pending))) =
    some ([0], [(0, Res.ok), (1, Res.cerr), (2, Res.ok)], []) := by decide
example : LiveDistinct {} [.newConn, .ping 0 5 none [], .cancelCaller 0 0, .dgram 0 none [.terminated] []] := by decide

-- retry world: Initial -> Retry (token s0, source CID [2]); token-bearing Initial addressed to [2] creates connection 0
-- with issued set [host CID [3], Retry SCID [2]]; a LATER Initial addressed to the Retry SCID (PTO retransmission,
-- duplicate, second half of a large ClientHello) is routed to the same connection: no second connection state
def retryDemo : List Op :=
  [ .sdgram 1 (.h [1] true true .empty) [2] none [] [],
    .sdgram 1 (.h [2] true true (.sealed 0 1 [1] [2])) [3] (some 4) [] [],
    .sdgram 1 (.h [2] true true (.sealed 0 1 [1] [2])) [9] (some 4) [] [] ]
example : ((run { retry := true } retryDemo).conns.length, (run { retry := true } retryDemo).tbl,
    (run { retry := true } retryDemo).vRetryDcid) = (1, [([2], 0), ([3], 0)], false) := by decide
example : (run { retry := true } retryDemo).conns.map (fun k => (k.p.issuedG, k.p.vEv, k.p.vCid)) =
    [([[3], [2]], false, false)] := by decide
example : (step (run { retry := true } (retryDemo.take 2))
    (.sdgram 1 (.h [2] true true (.sealed 0 1 [1] [2])) [9] (some 4) [] [])).2.action = .route 0 := by decide

-- every connection of the demo world processed a well-shaped event stream
example : demoWorld.conns.all (fun k => okLog k.p.evLog) = true := by decide
example : EventStreamOK [Ev.handshake, .data 0 [1] false, .data 4 [7] true, .data 0 [2] true, .terminated] :=
  eventStreamOK_of_okLog (by decide)
example : ¬ EventStreamOK [Ev.data 0 [1] true, .data 0 [2] false] :=
  fun h => h.end_last 0 [] [1] [.data 0 [2] false] rfl [2] false (by simp)

/-- `event_order_discharged` instantiated: C09's idle-timeout demo (log = [other, ConnectionTerminated]) and
    C01's duplicated-FIN schedule (the stream system emits ONE event for two deliveries of the FIN frame)
    justify the adapter event list [StreamDataReceived(0, [1,2], end), ConnectionTerminated] -/
example : EventStreamOK [Ev.data 0 [1, 2] true, .terminated] := by
  refine event_order_discharged AQ.Props.C09.natArith false AQ.Props.C09.demoIdle
    ⟨(fun h => nomatch h), trivial, trivial, trivial⟩ _ [.other, .terminated (some CloseTimer.idleEv)]
    ⟨[], by decide⟩ (by decide) ?_
  intro sid
  refine ⟨0, AQ.Props.C01.dupFinOps, by decide, ?_⟩
  by_cases h : sid = 0
  · subst h
    have : evTrace (StreamSys.init 0) AQ.Props.C01.dupFinOps = [⟨[1, 2], true⟩] := by decide
    rw [this]; simp [streamView]
  · have h' : ¬ (0 = sid) := fun e => h e.symm
    simp [streamView, h']

end AQ.Props.C19

#print axioms AQ.Props.C19.waiters_once
#print axioms AQ.Props.C19.cancel_harmless
#print axioms AQ.Props.C19.waiters_once_counterexample
#print axioms AQ.Props.C19.reader_bytes
#print axioms AQ.Props.C19.timer_sync
#print axioms AQ.Props.C19.exceptions_detected
#print axioms AQ.Props.C19.routing_inv
#print axioms AQ.Props.C19.retry_scid_issued
#print axioms AQ.Props.C19.routing_counterexample
#print axioms AQ.Props.C19.event_order_exact
#print axioms AQ.Props.C19.c01_nothing_after_end
#print axioms AQ.Props.C19.event_order_discharged
#print axioms AQ.Props.C19.token_bound
#print axioms AQ.Props.C19.encode_address_injective
#print axioms AQ.Props.C19.encode_address_total
