import AQ.Proofs.C04Inv
import AQ.Gen.CBuffer
import AQ.Gen.CCrypto
set_option linter.unusedSimpArgs false
set_option linter.unusedVariables false
-- symbolic execution of ~100-statement functions allocates a lot (each step tries ~30 rules);
-- wall time stays around a second per function
set_option maxHeartbeats 1600000
/-!
# C04 — native helpers never access memory out of bounds

Every theorem is about a definition GENERATED from the current C source by
`tools/extract_c.py` (`AQ.Gen.CBuffer`, `AQ.Gen.CCrypto`).  `Safe f s Q` (see
`AQ/Proofs/CSafety.lean`) says: running `f` from state `s` never faults (no
out-of-bounds read/write, no signed overflow, no violated external contract)
and the result and final state satisfy `Q`.  The quantification is over ALL
states satisfying the object invariant and ALL Python arguments (`PyArg`
includes ill-typed ones: they end in `TypeError`/`OverflowError`).
-/
namespace AQ.C04
open AQ.C AQ.Gen

/-- `Buffer_eof` stays in bounds, keeps the invariant, and on exception leaves `pos` unchanged. -/
theorem Buffer_eof_safe (s : St) (h : BufInv s) :
    Safe CBuffer.Buffer_eof s (BufPost s) := by
  obtain ⟨h0, h1, h2, h3, h4, h5, h6, h7⟩ := h
  unfold BufPost BufInv
  c_safety [CBuffer.Buffer_eof] [h0, h1, h2, h3]

/-- `Buffer_pull_uint8` stays in bounds, keeps the invariant, and on exception leaves `pos` unchanged. -/
theorem Buffer_pull_uint8_safe (s : St) (h : BufInv s) :
    Safe CBuffer.Buffer_pull_uint8 s (BufPost s) := by
  obtain ⟨h0, h1, h2, h3, h4, h5, h6, h7⟩ := h
  unfold BufPost BufInv
  c_safety [CBuffer.Buffer_pull_uint8] [h0, h1, h2, h3]

/-- `Buffer_pull_uint16` stays in bounds, keeps the invariant, and on exception leaves `pos` unchanged. -/
theorem Buffer_pull_uint16_safe (s : St) (h : BufInv s) :
    Safe CBuffer.Buffer_pull_uint16 s (BufPost s) := by
  obtain ⟨h0, h1, h2, h3, h4, h5, h6, h7⟩ := h
  unfold BufPost BufInv
  c_safety [CBuffer.Buffer_pull_uint16] [h0, h1, h2, h3]

/-- `Buffer_pull_uint32` stays in bounds, keeps the invariant, and on exception leaves `pos` unchanged. -/
theorem Buffer_pull_uint32_safe (s : St) (h : BufInv s) :
    Safe CBuffer.Buffer_pull_uint32 s (BufPost s) := by
  obtain ⟨h0, h1, h2, h3, h4, h5, h6, h7⟩ := h
  unfold BufPost BufInv
  c_safety [CBuffer.Buffer_pull_uint32] [h0, h1, h2, h3]

/-- `Buffer_pull_uint64` stays in bounds, keeps the invariant, and on exception leaves `pos` unchanged. -/
theorem Buffer_pull_uint64_safe (s : St) (h : BufInv s) :
    Safe CBuffer.Buffer_pull_uint64 s (BufPost s) := by
  obtain ⟨h0, h1, h2, h3, h4, h5, h6, h7⟩ := h
  unfold BufPost BufInv
  c_safety [CBuffer.Buffer_pull_uint64] [h0, h1, h2, h3]

/-- `Buffer_pull_uint_var` stays in bounds, keeps the invariant, and on exception leaves `pos` unchanged. -/
theorem Buffer_pull_uint_var_safe (s : St) (h : BufInv s) :
    Safe CBuffer.Buffer_pull_uint_var s (BufPost s) := by
  obtain ⟨h0, h1, h2, h3, h4, h5, h6, h7⟩ := h
  unfold BufPost BufInv
  c_safety [CBuffer.Buffer_pull_uint_var] [h0, h1, h2, h3]

/-- `Buffer_tell` stays in bounds, keeps the invariant, and on exception leaves `pos` unchanged. -/
theorem Buffer_tell_safe (s : St) (h : BufInv s) :
    Safe CBuffer.Buffer_tell s (BufPost s) := by
  obtain ⟨h0, h1, h2, h3, h4, h5, h6, h7⟩ := h
  unfold BufPost BufInv
  c_safety [CBuffer.Buffer_tell] [h0, h1, h2, h3]

/-- `Buffer_capacity_getter` stays in bounds, keeps the invariant, and on exception leaves `pos` unchanged. -/
theorem Buffer_capacity_getter_safe (s : St) (h : BufInv s) :
    Safe CBuffer.Buffer_capacity_getter s (BufPost s) := by
  obtain ⟨h0, h1, h2, h3, h4, h5, h6, h7⟩ := h
  unfold BufPost BufInv
  c_safety [CBuffer.Buffer_capacity_getter] [h0, h1, h2, h3]

/-- `Buffer_data_getter` stays in bounds, keeps the invariant, and on exception leaves `pos` unchanged. -/
theorem Buffer_data_getter_safe (s : St) (h : BufInv s) :
    Safe CBuffer.Buffer_data_getter s (BufPost s) := by
  obtain ⟨h0, h1, h2, h3, h4, h5, h6, h7⟩ := h
  unfold BufPost BufInv
  c_safety [CBuffer.Buffer_data_getter] [h0, h1, h2, h3]

/-- `Buffer_pull_bytes` for ANY Python argument. -/
theorem Buffer_pull_bytes_safe (s : St) (a0 : PyArg) (h : BufInv s) :
    Safe (CBuffer.Buffer_pull_bytes a0) s (BufPost s) := by
  obtain ⟨h0, h1, h2, h3, h4, h5, h6, h7⟩ := h
  unfold BufPost BufInv
  c_safety [CBuffer.Buffer_pull_bytes] [h0, h1, h2, h3]

/-- `Buffer_push_uint8` for ANY Python argument. -/
theorem Buffer_push_uint8_safe (s : St) (a0 : PyArg) (h : BufInv s) :
    Safe (CBuffer.Buffer_push_uint8 a0) s (BufPost s) := by
  obtain ⟨h0, h1, h2, h3, h4, h5, h6, h7⟩ := h
  unfold BufPost BufInv
  c_safety [CBuffer.Buffer_push_uint8] [h0, h1, h2, h3]

/-- `Buffer_push_uint16` for ANY Python argument. -/
theorem Buffer_push_uint16_safe (s : St) (a0 : PyArg) (h : BufInv s) :
    Safe (CBuffer.Buffer_push_uint16 a0) s (BufPost s) := by
  obtain ⟨h0, h1, h2, h3, h4, h5, h6, h7⟩ := h
  unfold BufPost BufInv
  c_safety [CBuffer.Buffer_push_uint16] [h0, h1, h2, h3]

/-- `Buffer_push_uint32` for ANY Python argument. -/
theorem Buffer_push_uint32_safe (s : St) (a0 : PyArg) (h : BufInv s) :
    Safe (CBuffer.Buffer_push_uint32 a0) s (BufPost s) := by
  obtain ⟨h0, h1, h2, h3, h4, h5, h6, h7⟩ := h
  unfold BufPost BufInv
  c_safety [CBuffer.Buffer_push_uint32] [h0, h1, h2, h3]

/-- `Buffer_push_uint64` for ANY Python argument. -/
theorem Buffer_push_uint64_safe (s : St) (a0 : PyArg) (h : BufInv s) :
    Safe (CBuffer.Buffer_push_uint64 a0) s (BufPost s) := by
  obtain ⟨h0, h1, h2, h3, h4, h5, h6, h7⟩ := h
  unfold BufPost BufInv
  c_safety [CBuffer.Buffer_push_uint64] [h0, h1, h2, h3]

/-- `Buffer_push_uint_var` for ANY Python argument. -/
theorem Buffer_push_uint_var_safe (s : St) (a0 : PyArg) (h : BufInv s) :
    Safe (CBuffer.Buffer_push_uint_var a0) s (BufPost s) := by
  obtain ⟨h0, h1, h2, h3, h4, h5, h6, h7⟩ := h
  unfold BufPost BufInv
  c_safety [CBuffer.Buffer_push_uint_var] [h0, h1, h2, h3]

/-- `Buffer_seek` for ANY Python argument. -/
theorem Buffer_seek_safe (s : St) (a0 : PyArg) (h : BufInv s) :
    Safe (CBuffer.Buffer_seek a0) s (BufPost s) := by
  obtain ⟨h0, h1, h2, h3, h4, h5, h6, h7⟩ := h
  unfold BufPost BufInv
  c_safety [CBuffer.Buffer_seek] [h0, h1, h2, h3]

/-- `Buffer_data_slice` for ANY two Python arguments. -/
theorem Buffer_data_slice_safe (s : St) (a0 a1 : PyArg) (h : BufInv s) :
    Safe (CBuffer.Buffer_data_slice a0 a1) s (BufPost s) := by
  obtain ⟨h0, h1, h2, h3, h4, h5, h6, h7⟩ := h
  unfold BufPost BufInv
  c_safety [CBuffer.Buffer_data_slice] [h0, h1, h2, h3]

/-- `Buffer_push_bytes` for ANY argument; a bytes argument is object 10. -/
theorem Buffer_push_bytes_safe (s : St) (a0 : PyArg) (h : BufInv s) (hb : BytesArg s 10) :
    Safe (CBuffer.Buffer_push_bytes a0) s (BufPost s) := by
  obtain ⟨h0, h1, h2, h3, h4, h5, h6, h7⟩ := h
  obtain ⟨b0, b1, b2⟩ := hb
  unfold BufPost BufInv
  c_safety [CBuffer.Buffer_push_bytes] [h0, h1, h2, h3]

/-- `Buffer_init` from ANY prior object state and ANY arguments (`capacity`, `data` may be absent):
    never faults; success (0) establishes the invariant; failure (-1) has the error indicator set
    (the object is then not handed out by CPython). -/
theorem Buffer_init_safe (s : St) (a0 a1 : PyArg) (hb : BytesArg s 10) :
    Safe (CBuffer.Buffer_init a0 a1) s (fun r s' => (r = 0 → BufInv s') ∧ (r ≠ 0 → s'.err.isSome)) := by
  obtain ⟨b0, b1, b2⟩ := hb
  unfold BufInv
  c_safety [CBuffer.Buffer_init] [true_and]

/-! ## `_crypto.c`

Helper functions of the translation unit (`create_ctx`, `HeaderProtection_mask`, …) are inlined by the
translator at every call site, so their access obligations are part of each entry point's theorem
(in that caller's context) and no theorem depends on a generated helper name. -/

/-- `AEAD_decrypt` for ANY arguments (`data`, `associated` bytes objects 10, 11; any packet number). -/
theorem AEAD_decrypt_safe (s : St) (a0 a1 a2 : PyArg) (h : AeadInv s) (hb0 : BytesArg s 10) (hb1 : BytesArg s 11) :
    Safe (CCrypto.AEAD_decrypt a0 a1 a2) s (fun r s' => AeadInv s' ∧ (r = .null → s'.err.isSome)) := by
  obtain ⟨z2, z3, z4, z5, c0, c1, k0, k1, k2, k3, k4, k5, k6, k7⟩ := h
  obtain ⟨b0, b1, b2⟩ := hb0
  obtain ⟨d0, d1, d2⟩ := hb1
  unfold AeadInv
  c_safety [CCrypto.AEAD_decrypt] [z2, z3, z4, z5]

/-- `AEAD_encrypt` for ANY arguments. -/
theorem AEAD_encrypt_safe (s : St) (a0 a1 a2 : PyArg) (h : AeadInv s) (hb0 : BytesArg s 10) (hb1 : BytesArg s 11) :
    Safe (CCrypto.AEAD_encrypt a0 a1 a2) s (fun r s' => AeadInv s' ∧ (r = .null → s'.err.isSome)) := by
  obtain ⟨z2, z3, z4, z5, c0, c1, k0, k1, k2, k3, k4, k5, k6, k7⟩ := h
  obtain ⟨b0, b1, b2⟩ := hb0
  obtain ⟨d0, d1, d2⟩ := hb1
  unfold AeadInv
  c_safety [CCrypto.AEAD_encrypt] [z2, z3, z4, z5]

/-- `AEAD_init` for ANY three arguments (cipher name, key, iv = objects 10, 11, 12): never faults
    (key/iv longer than `key[32]`/`iv[12]` are rejected); success establishes the invariant. -/
theorem AEAD_init_safe (s : St) (a0 a1 a2 : PyArg) (hz : CCrypto.AEADObject_arrays s)
    (hb0 : BytesArg s 10) (hb1 : BytesArg s 11) (hb2 : BytesArg s 12) :
    Safe (CCrypto.AEAD_init a0 a1 a2) s (fun r s' => (r = 0 → AeadInv s') ∧ (r ≠ 0 → s'.err.isSome)) := by
  obtain ⟨z2, z3, z4, z5⟩ := hz
  obtain ⟨b0, b1, b2⟩ := hb0
  obtain ⟨d0, d1, d2⟩ := hb1
  obtain ⟨e0, e1, e2⟩ := hb2
  unfold AeadInv
  c_safety [CCrypto.AEAD_init] [z2, z3, z4, z5, b2, d2, e2]

/-- `HeaderProtection_init` for ANY two arguments (cipher name, key = objects 10, 11). -/
theorem HeaderProtection_init_safe (s : St) (a0 a1 : PyArg) (hz : CCrypto.HeaderProtectionObject_arrays s)
    (hl : CCrypto.LitsOk s) (hb0 : BytesArg s 10) (hb1 : BytesArg s 11) :
    Safe (CCrypto.HeaderProtection_init a0 a1) s (fun r s' => (r = 0 → HpInv s') ∧ (r ≠ 0 → s'.err.isSome)) := by
  obtain ⟨z2, z3, z4⟩ := hz
  unfold CCrypto.LitsOk at hl
  obtain ⟨b0, b1, b2⟩ := hb0
  obtain ⟨d0, d1, d2⟩ := hb1
  unfold HpInv
  c_safety [CCrypto.HeaderProtection_init] [z2, z3, z4, hl, b2, d2]

/-- `HeaderProtection_apply` for ANY two arguments (header, payload = objects 10, 11). -/
theorem HeaderProtection_apply_safe (s : St) (a0 a1 : PyArg) (h : HpInv s)
    (hb0 : BytesArg s 10) (hb1 : BytesArg s 11) :
    Safe (CCrypto.HeaderProtection_apply a0 a1) s (fun r s' => HpInv s' ∧ (r = .null → s'.err.isSome)) := by
  obtain ⟨z2, z3, z4, c0, k0, k1⟩ := h
  obtain ⟨b0, b1, b2⟩ := hb0
  obtain ⟨d0, d1, d2⟩ := hb1
  unfold HpInv
  c_safety [CCrypto.HeaderProtection_apply] [z2, z3, z4]

/-- `HeaderProtection_remove` for ANY two arguments (packet = object 10, any integer `pn_offset`). -/
theorem HeaderProtection_remove_safe (s : St) (a0 a1 : PyArg) (h : HpInv s) (hb0 : BytesArg s 10) :
    Safe (CCrypto.HeaderProtection_remove a0 a1) s (fun r s' => HpInv s' ∧ (r = .null → s'.err.isSome)) := by
  obtain ⟨z2, z3, z4, c0, k0, k1⟩ := h
  obtain ⟨b0, b1, b2⟩ := hb0
  unfold HpInv
  c_safety [CCrypto.HeaderProtection_remove] [z2, z3, z4]

/-! ## "rejected with a Python exception and leaves the helper usable"

Corollaries of the per-function theorems: whenever a Buffer pull / push / seek / slice returns
`NULL` (a Python exception), the invariant still holds, the error indicator is set and `pos` is
exactly where it was. -/

/-- what an exceptional return of a Buffer method guarantees -/
def ErrUsable (s : St) (r : PyVal) (s' : St) : Prop :=
  r = .null → BufInv s' ∧ s'.pf 2 = s.pf 2 ∧ s'.err.isSome

theorem BufPost.errUsable {s : St} {r : PyVal} {s' : St} (h : BufPost s r s') : ErrUsable s r s' :=
  fun hr => ⟨h.1, (h.2.2.2.2 hr).1, (h.2.2.2.2 hr).2⟩

theorem error_leaves_usable_pull_uint8 (s : St) (h : BufInv s) :
    Safe CBuffer.Buffer_pull_uint8 s (ErrUsable s) :=
  (Buffer_pull_uint8_safe s h).mono fun _ _ hp => hp.errUsable
theorem error_leaves_usable_pull_uint16 (s : St) (h : BufInv s) :
    Safe CBuffer.Buffer_pull_uint16 s (ErrUsable s) :=
  (Buffer_pull_uint16_safe s h).mono fun _ _ hp => hp.errUsable
theorem error_leaves_usable_pull_uint32 (s : St) (h : BufInv s) :
    Safe CBuffer.Buffer_pull_uint32 s (ErrUsable s) :=
  (Buffer_pull_uint32_safe s h).mono fun _ _ hp => hp.errUsable
theorem error_leaves_usable_pull_uint64 (s : St) (h : BufInv s) :
    Safe CBuffer.Buffer_pull_uint64 s (ErrUsable s) :=
  (Buffer_pull_uint64_safe s h).mono fun _ _ hp => hp.errUsable
theorem error_leaves_usable_pull_uint_var (s : St) (h : BufInv s) :
    Safe CBuffer.Buffer_pull_uint_var s (ErrUsable s) :=
  (Buffer_pull_uint_var_safe s h).mono fun _ _ hp => hp.errUsable
theorem error_leaves_usable_pull_bytes (s : St) (a0 : PyArg) (h : BufInv s) :
    Safe (CBuffer.Buffer_pull_bytes a0) s (ErrUsable s) :=
  (Buffer_pull_bytes_safe s a0 h).mono fun _ _ hp => hp.errUsable
theorem error_leaves_usable_push_uint8 (s : St) (a0 : PyArg) (h : BufInv s) :
    Safe (CBuffer.Buffer_push_uint8 a0) s (ErrUsable s) :=
  (Buffer_push_uint8_safe s a0 h).mono fun _ _ hp => hp.errUsable
theorem error_leaves_usable_push_uint16 (s : St) (a0 : PyArg) (h : BufInv s) :
    Safe (CBuffer.Buffer_push_uint16 a0) s (ErrUsable s) :=
  (Buffer_push_uint16_safe s a0 h).mono fun _ _ hp => hp.errUsable
theorem error_leaves_usable_push_uint32 (s : St) (a0 : PyArg) (h : BufInv s) :
    Safe (CBuffer.Buffer_push_uint32 a0) s (ErrUsable s) :=
  (Buffer_push_uint32_safe s a0 h).mono fun _ _ hp => hp.errUsable
theorem error_leaves_usable_push_uint64 (s : St) (a0 : PyArg) (h : BufInv s) :
    Safe (CBuffer.Buffer_push_uint64 a0) s (ErrUsable s) :=
  (Buffer_push_uint64_safe s a0 h).mono fun _ _ hp => hp.errUsable
theorem error_leaves_usable_push_uint_var (s : St) (a0 : PyArg) (h : BufInv s) :
    Safe (CBuffer.Buffer_push_uint_var a0) s (ErrUsable s) :=
  (Buffer_push_uint_var_safe s a0 h).mono fun _ _ hp => hp.errUsable
theorem error_leaves_usable_seek (s : St) (a0 : PyArg) (h : BufInv s) :
    Safe (CBuffer.Buffer_seek a0) s (ErrUsable s) :=
  (Buffer_seek_safe s a0 h).mono fun _ _ hp => hp.errUsable
theorem error_leaves_usable_data_slice (s : St) (a0 a1 : PyArg) (h : BufInv s) :
    Safe (CBuffer.Buffer_data_slice a0 a1) s (ErrUsable s) :=
  (Buffer_data_slice_safe s a0 a1 h).mono fun _ _ hp => hp.errUsable
theorem error_leaves_usable_push_bytes (s : St) (a0 : PyArg) (h : BufInv s) (hb : BytesArg s 10) :
    Safe (CBuffer.Buffer_push_bytes a0) s (ErrUsable s) :=
  (Buffer_push_bytes_safe s a0 h hb).mono fun _ _ hp => hp.errUsable

/-! ## Call sites (`quic/crypto.py`, `quic/packet_builder.py`, `quic/connection.py`)

`CryptoContext.decrypt_packet(packet, encrypted_offset, …)` calls `hp.remove(packet,
encrypted_offset)` and then `aead.decrypt(…)` with slices of a datagram handed to
`receive_datagram`; `encrypt_packet(plain_header, plain_payload, …)` calls `aead.encrypt` and
`hp.apply` with what `QuicPacketBuilder._end_packet` produced for the configured
`max_datagram_size`.  The theorems above hold for ALL argument values, so the call-site
statements are instances: whatever the datagram length (0..65535) and whatever header/token/length
field layout decided `encrypted_offset`, and whatever `max_datagram_size ≥ 1200` sized the
plaintext, the C code stays in bounds or raises `CryptoError`, and the object stays usable. -/

/-- `decrypt_packet`, header protection: any datagram of length 0..65535, any offset. -/
theorem decrypt_packet_remove_in_bounds (s : St) (pn_offset : Int) (h : HpInv s) (hb : BytesArg s 10)
    (hlen : s.size 10 ≤ 65535) :
    Safe (CCrypto.HeaderProtection_remove .bytes (.int pn_offset)) s
      (fun r s' => HpInv s' ∧ (r = .null → s'.err.isSome)) :=
  HeaderProtection_remove_safe s _ _ h hb

/-- `decrypt_packet`, payload: any ciphertext / associated-data lengths up to 65535, any packet number. -/
theorem decrypt_packet_aead_in_bounds (s : St) (pn : Int) (h : AeadInv s) (hb0 : BytesArg s 10) (hb1 : BytesArg s 11)
    (hlen : s.size 10 ≤ 65535 ∧ s.size 11 ≤ 65535) :
    Safe (CCrypto.AEAD_decrypt .bytes .bytes (.int pn)) s (fun r s' => AeadInv s' ∧ (r = .null → s'.err.isSome)) :=
  AEAD_decrypt_safe s _ _ _ h hb0 hb1

/-- `encrypt_packet`, sealing: any plaintext length `0..max_datagram_size` for any setting `≥ 1200`
    (too long for `buffer[1500]` ⇒ `CryptoError`, never an overflow), any header length. -/
theorem encrypt_packet_aead_in_bounds (s : St) (mds pn : Int) (h : AeadInv s) (hb0 : BytesArg s 10)
    (hb1 : BytesArg s 11) (hm : 1200 ≤ mds) (hlen : s.size 10 ≤ mds ∧ s.size 11 ≤ mds) :
    Safe (CCrypto.AEAD_encrypt .bytes .bytes (.int pn)) s (fun r s' => AeadInv s' ∧ (r = .null → s'.err.isSome)) :=
  AEAD_encrypt_safe s _ _ _ h hb0 hb1

/-- `encrypt_packet`, header protection: any header / protected-payload lengths for any
    `max_datagram_size ≥ 1200`. -/
theorem encrypt_packet_apply_in_bounds (s : St) (mds : Int) (h : HpInv s) (hb0 : BytesArg s 10)
    (hb1 : BytesArg s 11) (hm : 1200 ≤ mds) (hlen : s.size 10 + s.size 11 ≤ mds + 16) :
    Safe (CCrypto.HeaderProtection_apply .bytes .bytes) s (fun r s' => HpInv s' ∧ (r = .null → s'.err.isSome)) :=
  HeaderProtection_apply_safe s _ _ h hb0 hb1

/-! ## the hypotheses are satisfiable -/
example : ∃ s : St, BufInv s ∧ BytesArg s 10 :=
  ⟨{ size := fun o => if o = 1 then 4 else 1, data := fun _ _ => 0, nul := fun _ => true,
     pf := fun k => if k = 1 then ⟨1, 4⟩ else if k = 2 then ⟨1, 2⟩ else ⟨1, 0⟩, nf := fun _ => 0, err := none,
     ora := fun _ => 0, oraB := fun _ _ => 0, tick := 0, cklen := fun _ => 0, civlen := fun _ => 0 },
   by simp [BufInv], by simp [BytesArg]⟩
example : ∃ s : St, AeadInv s :=
  ⟨{ size := fun o => if o = 2 then 1500 else if o = 3 then 32 else 12, data := fun _ _ => 0, nul := fun _ => false,
     pf := fun k => ⟨30 + k, 0⟩, nf := fun _ => 0, err := none, ora := fun _ => 0, oraB := fun _ _ => 0,
     tick := 0, cklen := fun _ => 16, civlen := fun _ => 12 }, by simp [AeadInv]⟩
example : ∃ s : St, HpInv s :=
  ⟨{ size := fun o => if o = 2 then 1500 else if o = 3 then 31 else 5, data := fun _ _ => 0, nul := fun _ => false,
     pf := fun k => ⟨30 + k, 0⟩, nf := fun _ => 0, err := none, ora := fun _ => 0, oraB := fun _ _ => 0,
     tick := 0, cklen := fun _ => 16, civlen := fun _ => 16 }, by simp [HpInv]⟩

end AQ.C04
