/-
  Property C01, key-update part: "For every sequence of application writes,
  resets and KEY UPDATES … If the network eventually delivers datagrams, every
  written byte … is delivered".

  Model: AQ/Model/KeyUpdate.lean — the generation bookkeeping of
  `CryptoPair` (update_key / key_phase / encrypt_packet / decrypt_packet /
  _update_key) and of `QuicConnection.request_key_update` (`_key_update_pn`
  guard), two endpoints, every packet ever sent deliverable any number of times
  in any order or never.  `run (init pa pb) ops` executes ANY sequence of
  `request` / `send` / `deliver` steps (`pa`, `pb` ≥ 1: the packet numbers at
  which the 1-RTT phase starts; the handshake has used packet number 0).

  What is proved is about WHICH KEYS are used — the cause of the two stalls that
  were fixed.  That a fair network then delivers the stream data is the business
  of the stream theorems (C01) and of loss recovery (C08); that an accepted
  packet's ACK frame is honest is C12 (here: an ACK reports the largest packet
  number its sender has accepted).  AEAD abstraction: a packet authenticates
  under a key iff the key has the generation that protected it.
-/
import AQ.Proofs.KeyUpdate

namespace AQ.Props.C01Keys
open AQ.KeyUpdate

/-- "at any time sender and receiver key generations differ by at most one":
    in every reachable state, for both directions, the protecting endpoint's send
    generation equals the peer's receive generation or is exactly one ahead, and
    each endpoint's own send generation equals its receive generation or is one
    ahead.  In particular an endpoint never changes its send keys twice before
    the peer has accepted a packet protected with the first new keys. -/
theorem c01_keys_sync (pa pb : Nat) (ha : 1 ≤ pa) (hb : 1 ≤ pb) (ops : List Op) (x : Bool) :
    let s := run (init pa pb) ops
    (s.get (!x)).pair.recvGen ≤ (s.get x).pair.sendGen ∧
    (s.get x).pair.sendGen ≤ (s.get (!x)).pair.recvGen + 1 ∧
    (s.get x).pair.recvGen ≤ (s.get x).pair.sendGen ∧
    (s.get x).pair.sendGen ≤ (s.get x).pair.recvGen + 1 := by
  intro s
  have h : Inv s := inv_run (inv_init pa pb ha hb) ops
  cases x with
  | true => exact ⟨h.ab.i1.1, h.ab.i1.2, h.ab.i7.1, h.ab.i7.2⟩
  | false => exact ⟨h.ba.i1.1, h.ba.i1.2, h.ba.i7.1, h.ba.i7.2⟩

/-- a receiver at receive generation `r` unprotects exactly the packets of
    generations `r` (current keys) and `r + 1` (next keys, then it updates) -/
theorem c01_keys_window (P : Pair) (g : Nat) :
    (P.decrypt false g (g % 2)).isSome = true ↔ (g = P.recvGen ∨ g = P.recvGen + 1) :=
  decrypt_isSome P g

/-- "a receiver can always decrypt packets of the sender's current generation"
    — no stall from key updates under loss.  In every reachable state, whatever
    was lost, duplicated or reordered before: (1) the packet an endpoint would
    build NOW (with the pending requested update applied) is unprotected
    successfully by the peer NOW; (2) so is every packet already sent whose
    generation is the sender's current one; (3) every packet already sent by the
    sender carries the key phase bit of its generation and a generation at most
    the current one. -/
theorem c01_keys_current_accepted (pa pb : Nat) (ha : 1 ≤ pa) (hb : 1 ≤ pb) (ops : List Op) (x : Bool) :
    let s := run (init pa pb) ops
    accepts s x (nextGen s x) = true ∧
    (∀ p ∈ s.wire, p.fromA = x → p.gen = (s.get x).pair.sendGen →
        ((s.get (!x)).pair.decrypt false p.gen p.bit).isSome = true) ∧
    (∀ p ∈ s.wire, p.fromA = x → p.bit = p.gen % 2 ∧ p.gen ≤ (s.get x).pair.sendGen) := by
  intro s
  have h : Inv s := inv_run (inv_init pa pb ha hb) ops
  have key : ∀ (X Y : End), D X Y s.wire x → s.get x = X → s.get (!x) = Y →
      accepts s x (nextGen s x) = true ∧
      (∀ p ∈ s.wire, p.fromA = x → p.gen = X.pair.sendGen → (Y.pair.decrypt false p.gen p.bit).isSome = true) ∧
      (∀ p ∈ s.wire, p.fromA = x → p.bit = p.gen % 2 ∧ p.gen ≤ X.pair.sendGen) := by
    intro X Y d hX hY
    refine ⟨?_, ?_, ?_⟩
    · unfold accepts nextGen
      rw [hX, hY, h.q1]
      rw [decrypt_isSome]
      have := d.i1
      cases hr : X.pair.requested with
      | true => have := d.i2 hr; simp only [hr, if_true]; omega
      | false => simp only [hr, Bool.false_eq_true, if_false]; omega
    · intro p hp hf hg
      have := d.i3 p hp hf
      rw [this.2.1, decrypt_isSome]
      have := d.i1; omega
    · intro p hp hf
      have := d.i3 p hp hf
      exact ⟨this.2.1, this.1⟩
  cases x with
  | true => exact key s.a s.b h.ab rfl rfl
  | false => exact key s.b s.a h.ba rfl rfl

/-- the guard of `request_key_update` at work: a request is accepted only when
    the requester's own receive keys and the peer's receive keys have both caught
    up with its send keys -/
theorem c01_keys_request_safe (pa pb : Nat) (ha : 1 ≤ pa) (hb : 1 ≤ pb) (ops : List Op) (x : Bool)
    (hr : ((run (init pa pb) ops).get x).pair.requested = true) :
    let s := run (init pa pb) ops
    (s.get x).pair.sendGen = (s.get (!x)).pair.recvGen ∧ (s.get x).pair.recvGen = (s.get x).pair.sendGen := by
  intro s
  have h : Inv s := inv_run (inv_init pa pb ha hb) ops
  cases x with
  | true => exact ⟨h.ab.i2 hr, h.ab.i2b hr⟩
  | false => exact ⟨h.ba.i2 hr, h.ba.i2b hr⟩

/-! ## The two pre-fix behaviours, by evaluation -/

/-- Code before "fix: keep the receive keys on a local key update"
    (`quirkLocalRecv`): after ONE `request_key_update()` and one packet, the
    updater can no longer read what the peer sends with the keys it still has to
    use — the peer's current-generation packet is rejected (with the current code
    it is accepted).  If the updater's packet is lost and it has only ACKs to
    send, nothing ever repairs this. -/
theorem c01_keys_counterexample_local_recv :
    accepts (run { quirkLocalRecv := true } [.request true, .send true false]) false
      (nextGen (run { quirkLocalRecv := true } [.request true, .send true false]) false) = false ∧
    accepts (run {} [.request true, .send true false]) false
      (nextGen (run {} [.request true, .send true false]) false) = true := by decide

/-- Code before "fix: do not start another key update before the current keys
    were acknowledged" (`quirkNoGuard`): two requests with a packet in between put
    the sender TWO generations ahead; with only one key phase bit the peer can
    never read its packets again, however many it sends (current code: the second
    request is refused, the sender stays one generation ahead and is readable). -/
theorem c01_keys_counterexample_no_guard :
    let ops := [Op.request true, .send true false, .request true, .send true false, .send true true]
    ((run { quirkNoGuard := true } ops).get true).pair.sendGen = 2 ∧
    ((run { quirkNoGuard := true } ops).get false).pair.recvGen = 0 ∧
    accepts (run { quirkNoGuard := true } ops) true (nextGen (run { quirkNoGuard := true } ops) true) = false ∧
    ((run {} ops).get true).pair.sendGen = 1 ∧
    accepts (run {} ops) true (nextGen (run {} ops) true) = true := by decide

/-! ## The hypotheses are satisfiable (tests) -/

/-- A updates, its first new-generation packet is lost, B's old-generation packet
    is still read by A, A's second packet reaches B which follows, B's answer
    completes the update at A; a new request is refused until a packet sent after
    that (receive-)key change is acknowledged, then accepted. -/
def exOps : List Op :=
  [ .send false false, .request true, .send true false, .deliver 0, .send true true, .deliver 2,
    .request true, .send false true, .deliver 3, .request true, .send true false, .deliver 4,
    .send false true, .deliver 5, .request true, .send true false ]

example : ((run (init 1 1) (exOps.take 4)).get true).largestRecv = some 1 ∧
    ((run (init 1 1) (exOps.take 7)).get true).pair.requested = false ∧
    ((run (init 1 1) (exOps.take 10)).get true).pair.requested = false ∧
    ((run (init 1 1) (exOps.take 15)).get true).pair.requested = true ∧
    ((run (init 1 1) exOps).get true).pair.sendGen = 2 ∧
    ((run (init 1 1) exOps).get false).pair.recvGen = 1 := by decide

end AQ.Props.C01Keys

#print axioms AQ.Props.C01Keys.c01_keys_sync
#print axioms AQ.Props.C01Keys.c01_keys_window
#print axioms AQ.Props.C01Keys.c01_keys_current_accepted
#print axioms AQ.Props.C01Keys.c01_keys_request_safe
#print axioms AQ.Props.C01Keys.c01_keys_counterexample_local_recv
#print axioms AQ.Props.C01Keys.c01_keys_counterexample_no_guard
