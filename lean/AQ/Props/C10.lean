/-
  Property C10 — stream send and receive halves conform to a reference model.

  Only the final theorems live here.  Receive half: the implementation model
  `AQ.Stream.Recv` (AQ/Model/Stream.lean, tied to stream.py by the
  correspondence check) against the reference model `AQ.Stream.RSpec`
  (AQ/Model/StreamSpec.lean — the "simple offset-to-byte map"), both run on the
  same arbitrary list of operations (`implRun`, `specRun` in
  AQ/Proofs/StreamRecvRun.lean).

  Send half.
  Setting (definitions and the invariant are in AQ/Proofs/StreamSend.lean):
  * `SOp` is one call on the sender; `step`/`run` execute the model
    (`AQ.Stream.Send`, differentially tested against the Python) and, next to it,
    a ghost history `Ghost` that records only what the caller saw: bytes
    written, FIN written, reset called, frames emitted and not yet reported
    (`outstanding`), frames reported ACKED before any reset (`acked`), RESET
    frames in flight, RESET acknowledged.
  * `WFHist σ0 ops` is the caller's side of the contract, nothing more: a
    delivery report names a frame that was emitted and not yet reported; a RESET
    frame is requested only after `reset()`; only emitted RESET frames are
    reported.  Writes, frame requests (every `max_size`, every `max_offset`) and
    resets are unconstrained; calls the sender refuses are no-ops.
  * every theorem is about `run σ0 ops` for ALL such `ops`.
-/
import AQ.Proofs.StreamRecvRun
import AQ.Proofs.StreamSend

namespace AQ.Props.C10
open AQ AQ.RangeSet AQ.Stream

/-! ## Receive half -/

/-- "For every sequence of frames (any offsets, overlaps, duplicates, FIN
    positions) and resets applied to the receive half of a stream, the bytes …
    it delivers equal those of a simple offset-to-byte map, and a final-size
    error is raised exactly when [the reference model raises one]".

    For every operation list: the final abstract states agree (same
    undelivered known bytes, same delivered count, same final size, same
    highest offset), every operation raises an error in the implementation iff
    it does in the reference model (and then it is `FinalSizeError`), every
    operation delivers exactly the same bytes, and an end marker delivered by
    the implementation is also delivered by the reference model (this last part
    holds even after a reset). -/
theorem recv_refines_reference (ops : List ROp) :
    abs (implRun {} ops).1 = (specRun {} ops).1 ∧
    (implRun {} ops).2.map ROut.err? = (specRun {} ops).2.map ROut.err? ∧
    (∀ e ∈ (implRun {} ops).2.map ROut.err?, e = none ∨ e = some Err.finalSize) ∧
    (implRun {} ops).2.map ROut.data = (specRun {} ops).2.map ROut.data ∧
    (∀ i : Nat, ((implRun {} ops).2[i]?.map ROut.endMarker) = some true →
        ((specRun {} ops).2[i]?.map ROut.endMarker) = some true) := by
  have h := run_refines ops inv_init
  rw [abs_init] at h
  have hm := h.2.2.maps
  refine ⟨h.2.1, hm.1, ?_, hm.2.1, hm.2.2⟩
  rw [hm.1]
  exact specRun_err _ ops

/-- "… the bytes and (until a reset is accepted) the end marker it delivers
    equal those of a simple offset-to-byte map".

    As long as no reset has been accepted, the implementation's outputs —
    errors, presence of an event, its bytes and its end marker — are
    *identical* to the reference model's, operation by operation.  Stated for
    every split `pre ++ post` of the history: the outputs of the first
    `pre.length` operations agree whenever `pre` contains no accepted reset. -/
theorem recv_equals_reference_until_reset (pre post : List ROp)
    (hnr : ROut.reset ∉ (specRun {} pre).2) :
    (implRun {} (pre ++ post)).2.take pre.length = (specRun {} (pre ++ post)).2.take pre.length := by
  have h := run_refines_strict pre inv_init finCovered_init (by rw [abs_init]; exact hnr)
  rw [abs_init] at h
  rw [implRun_append, specRun_append]
  simp only []
  rw [List.take_left' (implRun_length _ _), List.take_left' (specRun_length _ _)]
  exact h.1

/-- "… (until a reset is accepted) the end marker it delivers equal[s] …":
    as long as no reset has been accepted, a frame's event carries the end
    marker exactly when, after that frame, every byte below the fixed final
    size has been delivered (delivery offset = final size).  In particular the
    marker is never set while bytes are missing and never omitted on the frame
    that completes the stream. -/
theorem recv_end_marker_iff (ops : List ROp) (hnr : ROut.reset ∉ (implRun {} ops).2)
    (f : Frame) (s' : Recv) (ev : Option DataEv)
    (h : handleFrame (implRun {} ops).1 f = .ok (s', ev)) :
    evEnd ev = true ↔ some s'.bufStart = s'.finalSize := by
  have hr := run_refines ops inv_init
  have hnr' : ROut.reset ∉ (specRun (abs {}) ops).2 := fun hx => hnr (hr.2.2.reset_mem.2 hx)
  have hfc := (run_refines_strict ops inv_init finCovered_init hnr').2
  have := handleFrame_refines f hr.1
  unfold FrameRefines at this
  rw [h] at this
  split at this
  · rename_i heq _; cases heq
  · rename_i s'' ev'' t' ev' heq hs
    cases heq
    obtain ⟨-, h2, -, -, h5⟩ := this
    have h6 := (h5 hfc).2
    have := specFrame_end hs
    rw [h6, this, ← h2]
    exact decide_eq_true_iff
  · exact this.elim

/-- "a final-size error is raised exactly when data lies beyond, or a FIN or
    reset disagrees with, an already fixed final size."

    After any history `ops` the fixed final size is the one of the first FIN
    or reset in the history (`firstFinal ops`; it is never changed afterwards),
    and the next frame / reset raises — `FinalSizeError`, nothing else — exactly
    under the stated condition. -/
theorem recv_final_size_error_exactly (ops : List ROp) :
    (implRun {} ops).1.finalSize = firstFinal ops ∧
    (∀ f : Frame, (∃ e, handleFrame (implRun {} ops).1 f = .error e) ↔
        ∃ z, firstFinal ops = some z ∧ (f.stop > z ∨ (f.fin = true ∧ f.stop ≠ z))) ∧
    (∀ f e, handleFrame (implRun {} ops).1 f = .error e → e = .finalSize) ∧
    (∀ y : Nat, (∃ e, handleReset (implRun {} ops).1 y = .error e) ↔
        ∃ z, firstFinal ops = some z ∧ y ≠ z) ∧
    (∀ y e, handleReset (implRun {} ops).1 y = .error e → e = .finalSize) := by
  have h := run_refines ops inv_init
  rw [abs_init] at h
  have hf : (implRun {} ops).1.finalSize = firstFinal ops := by
    have := specRun_final {} ops
    rw [← h.2.1] at this
    exact this
  refine ⟨hf, ?_, ?_, ?_, ?_⟩
  · intro f; rw [handleFrame_error_iff, hf]
  · intro f e he
    have := handleFrame_refines f h.1
    unfold FrameRefines at this
    rw [he] at this
    split at this
    · rename_i heq _; cases heq; exact this
    · rename_i heq _; cases heq
    · exact this.elim
  · intro y; rw [handleReset_error_iff, hf]
  · intro y e he
    have := handleReset_refines y h.1
    rw [he] at this
    split at this
    · rename_i heq _; cases heq; exact this
    · rename_i heq _; cases heq
    · exact this.elim

/-- Nothing deliverable is withheld: after any history the byte at the
    delivery point is unknown (the delivered run was maximal), no byte below it
    is retained, and none is known at or above the highest offset seen. -/
theorem recv_nothing_withheld (ops : List ROp) :
    let t := abs (implRun {} ops).1
    t.known t.delivered = none ∧ (∀ i, i < t.delivered → t.known i = none) ∧
    (∀ i, t.hi ≤ i → t.known i = none) := by
  have h := run_refines ops inv_init
  rw [abs_init] at h
  have hi := specRun_inv ops specInv_init
  simp only []
  rw [h.2.1]
  exact ⟨hi.prompt, hi.below, hi.above⟩

/-- Resource bound used by the flow-control property: after any history the
    reassembly buffer holds at most `highest_offset - _buffer_start` bytes, its
    range set is sorted, non-empty-ranged and non-touching, and every range lies
    strictly inside the buffer window. -/
theorem recv_buffer_bound (ops : List ROp) :
    let s := (implRun {} ops).1
    s.bufStart + s.buffer.length ≤ s.highest ∧ WF s.ranges ∧
    ∀ x, mem x s.ranges → s.bufStart < x ∧ x < s.bufStart + s.buffer.length := by
  have h := (run_refines ops inv_init).1
  exact ⟨h.high, h.wf, fun x hx => ⟨h.lo x hx, h.hi x hx⟩⟩

/-- Corollary (no gaps, no repeats, in order): when every frame of the history
    carries the bytes of one source stream `src` at its offsets — the QUIC
    sender's obligation — the concatenation of all data handed to the
    application, in event order, is exactly `src 0, src 1, …, src (n-1)` where
    `n` is the implementation's delivery offset (`_buffer_start`). -/
theorem recv_delivers_source_prefix (src : Nat → UInt8) (ops : List ROp)
    (hc : ∀ f, ROp.frame f ∈ ops → Consistent src f) :
    ((implRun {} ops).2.map ROut.data).flatten = (List.range (implRun {} ops).1.bufStart).map src := by
  have h := run_refines ops inv_init
  rw [abs_init] at h
  have hs := specRun_src (src := src) (t := {}) ops specInv_init (by intro i b hb; simp at hb) hc
  rw [h.2.2.maps.2.1, hs.2, ← h.2.1]
  simp only [abs, Nat.sub_zero]
  rw [List.range_eq_range']

/-! ### The hypotheses are satisfiable (non-trivial concrete histories) -/

/-- source stream used in the examples: byte `i` is `i + 1` -/
def exSrc : Nat → UInt8 := fun i => UInt8.ofNat (i + 1)

/-- a history with a gap, FIN before the gap is filled, a frame straddling the
    delivered prefix and a buffered range, a duplicate, a frame beyond the
    final size and a conflicting FIN -/
def exOps : List ROp :=
  [ .frame ⟨0, [1, 2], false⟩,          -- fast path: delivers 1 2
    .frame ⟨4, [5, 6], true⟩,           -- FIN at 6 arrives before the gap [2,4) is filled
    .frame ⟨1, [2, 3], false⟩,          -- straddles the delivered prefix: delivers 3
    .frame ⟨0, [1, 2, 3], false⟩,       -- pure duplicate: nothing
    .frame ⟨5, [6, 7], false⟩,          -- beyond the final size: FinalSizeError
    .frame ⟨2, [3, 4, 5], true⟩,        -- FIN at 5 ≠ 6: FinalSizeError
    .frame ⟨3, [4, 5], false⟩ ]         -- fills the gap, overlaps the buffered range: 4 5 6 + end

example : ∀ f, ROp.frame f ∈ exOps → Consistent exSrc f := by
  intro f hf
  simp only [exOps, List.mem_cons, ROp.frame.injEq, List.mem_nil_iff, or_false] at hf
  rcases hf with rfl | rfl | rfl | rfl | rfl | rfl | rfl <;>
    (intro i hi; simp only [List.length_cons, List.length_nil] at hi;
     have : i = 0 ∨ i = 1 ∨ i = 2 := by omega
     rcases this with rfl | rfl | rfl <;> first | rfl | (simp at hi))

example : (implRun {} exOps).2 =
    [ .ev (some ⟨[1, 2], false⟩), .ev none, .ev (some ⟨[3], false⟩), .ev none,
      .err .finalSize, .err .finalSize, .ev (some ⟨[4, 5, 6], true⟩) ] := by decide

example : (specRun {} exOps).2 = (implRun {} exOps).2 := by decide

/-- after an accepted reset the end marker may be missing on the fast path (the
    reason for "until a reset is accepted"): the implementation delivers the
    last bytes without the marker, the reference model with it -/
example : (implRun {} [.reset 2, .frame ⟨0, [1, 2], false⟩]).2 = [.reset, .ev (some ⟨[1, 2], false⟩)] ∧
          (specRun {} [.reset 2, .frame ⟨0, [1, 2], false⟩]).2 = [.reset, .ev (some ⟨[1, 2], true⟩)] := by
  decide

/-! ## Send half

  "For every sequence of writes, frame requests with any size and offset caps,
   acknowledgements, losses and resets applied to the send half, every frame it
   emits carries exactly the written bytes for its offsets, unacknowledged bytes
   and FIN are re-offered after loss, nothing is offered after a reset, and it
   reports completion exactly when all bytes and the FIN, or the reset, have
   been acknowledged." -/

/-! ### (a) emitted frames carry exactly the written bytes -/

/-- "every frame it emits carries exactly the written bytes for its offsets":
    in every reachable state, for every `max_size` and `max_offset`, a frame
    returned by `get_frame` has as data exactly the written bytes at
    `[offset, offset+len)`, lies inside what was written, respects the size cap
    and (for data) the offset cap, carries FIN only if a FIN was written and the
    frame ends at the final size, and is never an empty non-FIN frame. -/
theorem send_frame_bytes (ops : List SOp) (hw : WFHist σ0 ops) (maxSize : Nat) (maxOffset : Option Nat)
    (s' : Send) (f : OutFrame)
    (hg : getFrame (run σ0 ops).1 maxSize maxOffset = .ok (s', some f)) :
    f.data = ((run σ0 ops).2.written.drop f.offset).take f.data.length ∧
    f.offset + f.data.length ≤ (run σ0 ops).2.written.length ∧
    f.data.length ≤ maxSize ∧
    (∀ mo, maxOffset = some mo → f.data ≠ [] → f.offset + f.data.length ≤ mo) ∧
    (f.fin = true → (run σ0 ops).2.finWritten = true ∧
        f.offset + f.data.length = (run σ0 ops).2.written.length) ∧
    (f.data ≠ [] ∨ f.fin = true) :=
  (SInv_reachable ops hw).frame_spec hg

/-- "…carries exactly the written bytes for its offsets", relative to the whole
    stream: later writes only append (`written` grows by suffixes), so the frame's
    data are still the bytes at its offsets of everything written by any later
    point of the history. -/
theorem send_frame_bytes_stable (ops : List SOp) (hw : WFHist σ0 ops) (maxSize : Nat)
    (maxOffset : Option Nat) (s' : Send) (f : OutFrame)
    (hg : getFrame (run σ0 ops).1 maxSize maxOffset = .ok (s', some f)) (later : List SOp) :
    (run σ0 ops).2.written <+: (run σ0 (ops ++ later)).2.written ∧
    f.data = ((run σ0 (ops ++ later)).2.written.drop f.offset).take f.data.length := by
  have h := (SInv_reachable ops hw).frame_spec hg
  have hp : (run σ0 ops).2.written <+: (run σ0 (ops ++ later)).2.written := by
    rw [run_append]; exact run_written_prefix _ _
  exact ⟨hp, frame_bytes_stable hp h.1 h.2.1⟩

/-! ### (b) nothing unacknowledged is forgotten; loss re-offers -/

/-- "unacknowledged bytes and FIN are re-offered after loss" (conservation form):
    in every reachable state before a reset, every written offset is pending
    (will be offered by `get_frame`), or in a frame in flight, or acknowledged;
    likewise the FIN once written; and while anything is pending the sender does
    not report an empty buffer. -/
theorem send_conservation (ops : List SOp) (hw : WFHist σ0 ops) (hr : (run σ0 ops).2.reset = false) :
    (∀ i, i < (run σ0 ops).2.written.length →
        mem i (run σ0 ops).1.pending ∨
        (∃ f ∈ (run σ0 ops).2.outstanding, f.cov i = true) ∨
        (∃ f ∈ (run σ0 ops).2.acked, f.cov i = true)) ∧
    ((run σ0 ops).2.finWritten = true →
        (run σ0 ops).1.pendingEof = true ∨
        (∃ f ∈ (run σ0 ops).2.outstanding, f.fin = true) ∨
        (∃ f ∈ (run σ0 ops).2.acked, f.fin = true)) ∧
    (((run σ0 ops).1.pending ≠ [] ∨ (run σ0 ops).1.pendingEof = true) →
        (run σ0 ops).1.bufferIsEmpty = false) :=
  (SInv_reachable ops hw).conservation hr

/-- the three places of `send_conservation` are exclusive and hold nothing but
    written offsets: a pending offset is a written one, in no frame in flight and
    not acknowledged; an offset in flight is a written one and not acknowledged
    (so nothing is offered twice concurrently and nothing acknowledged is offered
    again). -/
theorem send_exclusive (ops : List SOp) (hw : WFHist σ0 ops) (hr : (run σ0 ops).2.reset = false) (i : Nat) :
    (mem i (run σ0 ops).1.pending →
        i < (run σ0 ops).2.written.length ∧
        (∀ f ∈ (run σ0 ops).2.outstanding, f.cov i = false) ∧
        ¬ ∃ f ∈ (run σ0 ops).2.acked, f.cov i = true) ∧
    (∀ f ∈ (run σ0 ops).2.outstanding, f.cov i = true →
        i < (run σ0 ops).2.written.length ∧ ¬ ∃ f ∈ (run σ0 ops).2.acked, f.cov i = true) :=
  (SInv_reachable ops hw).exclusive hr i

/-- "unacknowledged bytes and FIN are re-offered after loss" (step form): when a
    frame in flight is reported LOST (before a reset), right after that call all
    its offsets are pending again, its FIN (if it had one) is pending again, and
    the sender reports a non-empty buffer. -/
theorem send_lost_reoffered (ops : List SOp) (hw : WFHist σ0 ops) (hr : (run σ0 ops).2.reset = false)
    (a b : Nat) (fin : Bool) (hf : (⟨a, b, fin⟩ : Fr) ∈ (run σ0 ops).2.outstanding) :
    (∀ i, a ≤ i → i < b → mem i (run σ0 (ops ++ [.delivery .lost a b fin])).1.pending) ∧
    (fin = true → (run σ0 (ops ++ [.delivery .lost a b fin])).1.pendingEof = true) ∧
    ((a < b ∨ fin = true) → (run σ0 (ops ++ [.delivery .lost a b fin])).1.bufferIsEmpty = false) := by
  obtain ⟨s', e, h1, h2, h3⟩ := (SInv_reachable ops hw).lost_reoffered hr hf
  rw [run_append, run_cons, run_nil, e]
  exact ⟨h1, h2, h3⟩

/-! ### (c) what is pending is really offered -/

/-- "…are re-offered": pending is not just a bookkeeping set.  In every
    reachable state before a reset, if some range is pending then `get_frame`
    with a positive size cap and an offset cap above the first pending offset
    returns a non-empty frame starting at that offset (whose bytes are right by
    `send_frame_bytes`); and when only the FIN is pending, every `get_frame`
    returns the FIN-only frame at the final size. -/
theorem send_progress (ops : List SOp) (hw : WFHist σ0 ops) (hr : (run σ0 ops).2.reset = false)
    (maxSize : Nat) (maxOffset : Option Nat) :
    (∀ r rest, (run σ0 ops).1.pending = r :: rest → 0 < maxSize →
        (maxOffset = none ∨ ∃ mo, maxOffset = some mo ∧ r.start < mo) →
        ∃ s' f, getFrame (run σ0 ops).1 maxSize maxOffset = .ok (s', some f) ∧
          f.offset = r.start ∧ f.data ≠ []) ∧
    ((run σ0 ops).1.pending = [] → (run σ0 ops).1.pendingEof = true →
        ∃ s', getFrame (run σ0 ops).1 maxSize maxOffset =
          .ok (s', some ⟨(run σ0 ops).2.written.length, [], true⟩)) :=
  (SInv_reachable ops hw).progress hr maxSize maxOffset

/-! ### (d) nothing after a reset -/

/-- "nothing is offered after a reset": in every reachable state in which
    `reset()` has been called, `get_frame` (any caps) raises AssertionError —
    no frame — and the sender reports an empty buffer, so the packet builder
    does not ask.  Losses reported after the reset change nothing
    (`send_reset_monotone`: the state stays "reset" for the rest of the history). -/
theorem send_nothing_after_reset (ops : List SOp) (hw : WFHist σ0 ops)
    (hr : (run σ0 ops).2.reset = true) (maxSize : Nat) (maxOffset : Option Nat) :
    getFrame (run σ0 ops).1 maxSize maxOffset = .error (.py .assertion) ∧
    (run σ0 ops).1.bufferIsEmpty = true :=
  (SInv_reachable ops hw).after_reset hr maxSize maxOffset

/-- "…after a reset": once `reset()` was called it stays called, whatever follows
    (so `send_nothing_after_reset` applies to every later state). -/
theorem send_reset_monotone (ops later : List SOp) (hr : (run σ0 ops).2.reset = true) :
    (run σ0 (ops ++ later)).2.reset = true := by
  rw [run_append]; exact run_reset_mono _ _ hr

/-! ### (e) completion -/

/-- "it reports completion exactly when all bytes and the FIN, or the reset, have
    been acknowledged": in every reachable state `is_finished` is true iff
    (a FIN was written, a FIN-carrying frame was acknowledged and every written
    offset lies in an acknowledged frame — `DataDone`, acknowledgements counted
    up to the call of `reset()`, because after it on_data_delivery returns early
    and completion "only depends on the reset being acknowledged") or a RESET
    frame was acknowledged; and a RESET can only be acknowledged after `reset()`. -/
theorem send_finished_iff (ops : List SOp) (hw : WFHist σ0 ops) :
    ((run σ0 ops).1.finished = true ↔
        (DataDone (run σ0 ops).2 ∨ (run σ0 ops).2.resetAcked = true)) ∧
    ((run σ0 ops).2.resetAcked = true → (run σ0 ops).2.reset = true) :=
  ⟨(SInv_reachable ops hw).fin_iff, (SInv_reachable ops hw).racked⟩

/-! ### Failed calls -/

/-- "for every sequence of writes, frame requests …, acknowledgements, losses and
    resets": the history semantics treats a call on which the sender raises as a
    no-op.  That is exact: in every reachable state the only exceptions are the
    entry `assert`s of stream.py (first statements, before any mutation) —
    `get_frame` raises only after `reset()`, `write` only after a FIN was written
    or after `reset()`, and reporting a frame in flight never raises. -/
theorem send_errors_are_entry_asserts (ops : List SOp) (hw : WFHist σ0 ops) :
    (∀ ms mo e, getFrame (run σ0 ops).1 ms mo = .error e →
        (run σ0 ops).2.reset = true ∧ e = .py .assertion) ∧
    (∀ data fin e, write (run σ0 ops).1 data fin = .error e →
        ((run σ0 ops).2.finWritten = true ∨ (run σ0 ops).2.reset = true) ∧ e = .py .assertion) ∧
    (∀ d a b fin, (⟨a, b, fin⟩ : Fr) ∈ (run σ0 ops).2.outstanding →
        ∃ s', onDataDelivery (run σ0 ops).1 d a b fin = .ok s') :=
  (SInv_reachable ops hw).errors_are_entry_asserts

/-! ### The hypotheses are satisfiable (tests, not theorems) -/

/-- write 6 bytes; three frames [0,2) [2,4) [4,6); the MIDDLE one is acked first;
    the first is lost and re-offered in two pieces (offset cap 1, then the rest);
    FIN written afterwards, sent alone, lost, re-sent; acks out of order. -/
def exampleOps : List SOp :=
  [ .write [1, 2, 3, 4, 5, 6] false,
    .get 2 none, .get 2 none, .get 100 none,
    .delivery .acked 2 4 false,
    .delivery .lost 0 2 false,
    .get 100 (some 1),
    .get 100 none,
    .write [] true,
    .get 100 none,
    .delivery .acked 1 2 false,
    .delivery .acked 4 6 false,
    .delivery .lost 6 6 true,
    .get 0 (some 0),
    .delivery .acked 0 1 false,
    .delivery .acked 6 6 true ]

example : WFHist σ0 exampleOps ∧ (run σ0 exampleOps).1.finished = true ∧
    (run σ0 (exampleOps.take 15)).1.finished = false := by decide

/-- the re-offered frame after the loss carries bytes 0..1 again -/
example : (getFrame (run σ0 (exampleOps.take 6)).1 100 none).toOption.map (·.2) =
    some (some ⟨0, [1, 2], false⟩) := by decide

/-- a reset in mid-flight: frames are refused, the lost RESET is re-armed, and the
    stream finishes on the RESET acknowledgement only. -/
def exampleResetOps : List SOp :=
  [ .write [7, 8, 9] true, .get 2 none, .reset 5, .get 10 none, .getReset,
    .delivery .acked 0 2 false, .resetDelivery .lost, .getReset, .resetDelivery .acked ]

example : WFHist σ0 exampleResetOps ∧ (run σ0 exampleResetOps).1.finished = true ∧
    (run σ0 exampleResetOps).2.resetAcked = true ∧
    (run σ0 (exampleResetOps.take 8)).1.finished = false := by decide

end AQ.Props.C10

#print axioms AQ.Props.C10.recv_refines_reference
#print axioms AQ.Props.C10.recv_equals_reference_until_reset
#print axioms AQ.Props.C10.recv_end_marker_iff
#print axioms AQ.Props.C10.recv_final_size_error_exactly
#print axioms AQ.Props.C10.recv_nothing_withheld
#print axioms AQ.Props.C10.recv_buffer_bound
#print axioms AQ.Props.C10.recv_delivers_source_prefix
#print axioms AQ.Props.C10.send_frame_bytes
#print axioms AQ.Props.C10.send_frame_bytes_stable
#print axioms AQ.Props.C10.send_conservation
#print axioms AQ.Props.C10.send_exclusive
#print axioms AQ.Props.C10.send_lost_reoffered
#print axioms AQ.Props.C10.send_progress
#print axioms AQ.Props.C10.send_nothing_after_reset
#print axioms AQ.Props.C10.send_reset_monotone
#print axioms AQ.Props.C10.send_finished_iff
#print axioms AQ.Props.C10.send_errors_are_entry_asserts
