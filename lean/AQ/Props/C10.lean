import AQ.Proofs.RangeSet
import AQ.Model.Stream
namespace AQ.Props.C10
open AQ AQ.RangeSet

theorem rangeset_add_wf (a b : Nat) (hab : a < b) (rs : List Rg) (hwf : WF rs) : WF (add a b rs) :=
  add_wf a b hab rs hwf

end AQ.Props.C10
