/-
  C07 — receive-side limits are enforced and buffering stays bounded.

  Model: AQ.Model.FlowRecv (`rxStream`, `rxResetStream`, `getOrCreateStream`,
  `writeConnLimits`, `writeStreamLimits`, `rxCrypto`, `rxPathChallenge`,
  `rxNewConnectionId`, …) = connection.py with the fix commits applied
  (`Quirks` off).  Everything the peer sends, the packet builder (`room`
  inputs) and the delivery reports are inputs; no hypothesis is made on them.

  Scope notes (also in checks/c07.py):
    * frames for a stream whose state was discarded (`_streams_finished`) are
      ignored by the code (`StreamFinishedError`): outcome `ignored`, no state
      change — neither accusation nor buffering;
    * FINAL_SIZE_ERROR is the stream receiver's condition (`frameFinalSizeError`,
      `resetFinalSizeError`); a final size below data already received is
      accepted by the code (RFC 9000 §4.5 observation);
    * enforced = advertised is proved at run level for MAX_DATA
      (`enforced_eq_advertised`), MAX_STREAMS (`streams_enforced_eq_advertised`)
      and MAX_STREAM_DATA (`stream_enforced_eq_advertised`);
    * section "all operation sequences, in terms of the advertised limits" states
      the property text itself for every state reachable from `Start` (fixes in
      place, no stream yet) and every stream: (a) `stream_unread_within_advertised`,
      (b) `stream_frame_against_advertised` / `reset_frame_against_advertised`,
      (c) `connection_unread_within_advertised`, (d) `limits_never_decrease` /
      `limits_never_decrease_run`.  The only hypotheses are on the start state.
-/
import AQ.Proofs.FlowRecvRun4

namespace AQ.Props.C07
open AQ AQ.Stream AQ.Flow

/-! ## accusation ⇔ violation of the limit in force -/

/-- "A peer that sends stream data … beyond a limit … causes the connection to
    close with the matching flow-control … error, and a peer that stays within
    the advertised limits is never accused": a STREAM frame that reaches the
    limit checks (representable, receivable, stream obtained) is answered with
    FLOW_CONTROL_ERROR **iff** it ends beyond the stream limit in force or the
    bytes it newly claims exceed the connection limit in force. -/
theorem stream_flow_control_iff (c c' : Conn) (st : Strm) (sid off : Nat) (data : Bytes) (fin : Bool)
    (henc : off + data.length ≤ UINT_VAR_MAX) (hrecv : c.canReceive sid = true)
    (hg : getOrCreateStream c sid = .ok (c', st)) :
    (rxStream c sid off data fin).2.err = some (.conn FLOW_CONTROL_ERROR) ↔
      (off + data.length > st.maxLocal ∨
       c'.localMaxData.used + (off + data.length - st.recv.highest) > c'.localMaxData.value) := by
  rw [rxStream_err]
  have h0 : ¬ off + data.length > UINT_VAR_MAX := by omega
  simp only [h0, if_false, hrecv, Bool.not_true, Bool.false_eq_true, hg]
  by_cases h1 : off + data.length > st.maxLocal ∨
      c'.localMaxData.used + (off + data.length - st.recv.highest) > c'.localMaxData.value
  · simp [h1]
  · simp only [h1, if_false, iff_false]
    split <;> simp [FLOW_CONTROL_ERROR, FINAL_SIZE_ERROR]

/-- FINAL_SIZE_ERROR **iff** the frame is within both limits and contradicts the
    final size the receiver already knows. -/
theorem stream_final_size_iff (c c' : Conn) (st : Strm) (sid off : Nat) (data : Bytes) (fin : Bool)
    (henc : off + data.length ≤ UINT_VAR_MAX) (hrecv : c.canReceive sid = true)
    (hg : getOrCreateStream c sid = .ok (c', st)) :
    (rxStream c sid off data fin).2.err = some (.conn FINAL_SIZE_ERROR) ↔
      (¬ (off + data.length > st.maxLocal ∨
          c'.localMaxData.used + (off + data.length - st.recv.highest) > c'.localMaxData.value) ∧
       frameFinalSizeError st.recv.finalSize ⟨off, data, fin⟩ = true) := by
  rw [rxStream_err]
  have h0 : ¬ off + data.length > UINT_VAR_MAX := by omega
  simp only [h0, if_false, hrecv, Bool.not_true, Bool.false_eq_true, hg]
  by_cases h1 : off + data.length > st.maxLocal ∨
      c'.localMaxData.used + (off + data.length - st.recv.highest) > c'.localMaxData.value
  · simp [h1, FLOW_CONTROL_ERROR, FINAL_SIZE_ERROR]
  · simp only [h1, if_false, not_false_eq_true, true_and]
    split <;> simp_all

/-- "a peer that stays within the advertised limits is never accused": no error
    at all **iff** within both limits and consistent with the known final size. -/
theorem stream_never_accused_iff (c c' : Conn) (st : Strm) (sid off : Nat) (data : Bytes) (fin : Bool)
    (henc : off + data.length ≤ UINT_VAR_MAX) (hrecv : c.canReceive sid = true)
    (hg : getOrCreateStream c sid = .ok (c', st)) :
    (rxStream c sid off data fin).2.err = none ↔
      (off + data.length ≤ st.maxLocal ∧
       c'.localMaxData.used + (off + data.length - st.recv.highest) ≤ c'.localMaxData.value ∧
       frameFinalSizeError st.recv.finalSize ⟨off, data, fin⟩ = false) := by
  rw [rxStream_err]
  have h0 : ¬ off + data.length > UINT_VAR_MAX := by omega
  simp only [h0, if_false, hrecv, Bool.not_true, Bool.false_eq_true, hg]
  by_cases h1 : off + data.length > st.maxLocal ∨
      c'.localMaxData.used + (off + data.length - st.recv.highest) > c'.localMaxData.value
  · simp only [h1, if_true]
    constructor
    · intro h; simp at h
    · intro ⟨a, b, _⟩; omega
  · simp only [h1, if_false]
    have : off + data.length ≤ st.maxLocal ∧
        c'.localMaxData.used + (off + data.length - st.recv.highest) ≤ c'.localMaxData.value := by omega
    split <;> simp_all

/-- "a stream beyond a limit … stream-limit error": STREAM_LIMIT_ERROR **iff**
    the frame opens a new peer-initiated stream whose count exceeds the
    stream-count limit in force (for a representable frame on a receivable,
    not discarded stream id). -/
theorem stream_limit_iff (c : Conn) (sid off : Nat) (data : Bytes) (fin : Bool)
    (henc : off + data.length ≤ UINT_VAR_MAX) (hrecv : c.canReceive sid = true) :
    (rxStream c sid off data fin).2.err = some (.conn STREAM_LIMIT_ERROR) ↔
      (sid ∉ c.finishedIds ∧ c.find? sid = none ∧ clientInitiated sid ≠ c.isClient ∧
       sid / 4 + 1 > (if unidirectional sid then c.localMaxStreamsUni.value else c.localMaxStreamsBidi.value)) := by
  rw [rxStream_err, ← getOrCreateStream_streamLimit_iff]
  have h0 : ¬ off + data.length > UINT_VAR_MAX := by omega
  simp only [h0, if_false, hrecv, Bool.not_true, Bool.false_eq_true]
  cases hg : getOrCreateStream c sid with
  | error e =>
    cases e with
    | finished => simp
    | conn code => simp
  | ok p =>
    obtain ⟨c', st⟩ := p
    simp only []
    constructor
    · intro h; exfalso
      repeat' split at h
      all_goals simp [FLOW_CONTROL_ERROR, FINAL_SIZE_ERROR, STREAM_LIMIT_ERROR] at h
    · intro h; simp at h

/-- RESET_STREAM: FLOW_CONTROL_ERROR **iff** the final size is beyond the stream
    limit in force or the bytes it newly claims exceed the connection limit. -/
theorem reset_flow_control_iff (c c' : Conn) (st : Strm) (sid z : Nat) (hrecv : c.canReceive sid = true)
    (hg : getOrCreateStream c sid = .ok (c', st)) :
    (rxResetStream c sid z).2.err = some (.conn FLOW_CONTROL_ERROR) ↔
      (z > st.maxLocal ∨ c'.localMaxData.used + (z - st.recv.highest) > c'.localMaxData.value) := by
  rw [rxResetStream_err]
  simp only [hrecv, Bool.not_true, Bool.false_eq_true, if_false, hg]
  by_cases h1 : z > st.maxLocal ∨ c'.localMaxData.used + (z - st.recv.highest) > c'.localMaxData.value
  · simp [h1]
  · simp only [h1, if_false, iff_false]
    split <;> simp [FLOW_CONTROL_ERROR, FINAL_SIZE_ERROR]

/-- RESET_STREAM: FINAL_SIZE_ERROR **iff** within the limits and different from
    the final size already known; no error **iff** within limits and consistent. -/
theorem reset_final_size_iff (c c' : Conn) (st : Strm) (sid z : Nat) (hrecv : c.canReceive sid = true)
    (hg : getOrCreateStream c sid = .ok (c', st)) :
    ((rxResetStream c sid z).2.err = some (.conn FINAL_SIZE_ERROR) ↔
      (¬ (z > st.maxLocal ∨ c'.localMaxData.used + (z - st.recv.highest) > c'.localMaxData.value) ∧
       resetFinalSizeError st.recv.finalSize z = true)) ∧
    ((rxResetStream c sid z).2.err = none ↔
      (z ≤ st.maxLocal ∧ c'.localMaxData.used + (z - st.recv.highest) ≤ c'.localMaxData.value ∧
       resetFinalSizeError st.recv.finalSize z = false)) := by
  rw [rxResetStream_err]
  simp only [hrecv, Bool.not_true, Bool.false_eq_true, if_false, hg]
  by_cases h1 : z > st.maxLocal ∨ c'.localMaxData.used + (z - st.recv.highest) > c'.localMaxData.value
  · simp only [h1, if_true]
    refine ⟨by simp [FLOW_CONTROL_ERROR, FINAL_SIZE_ERROR], ?_⟩
    constructor
    · intro h; simp at h
    · intro ⟨a, b, _⟩; omega
  · simp only [h1, if_false, not_false_eq_true, true_and]
    have : z ≤ st.maxLocal ∧ c'.localMaxData.used + (z - st.recv.highest) ≤ c'.localMaxData.value := by omega
    split <;> simp_all

/-! ## every frame type that names a stream id -/

/-- "a stream beyond a limit … stream-limit error", for ALL frame types that name
    a stream id: RESET_STREAM, STOP_SENDING, MAX_STREAM_DATA and STREAM_DATA_BLOCKED
    (STREAM: `stream_limit_iff`) are answered with STREAM_LIMIT_ERROR **iff** the
    frame may use the stream in that direction and names a never-opened (and never
    discarded) peer-initiated stream whose count exceeds the stream-count limit in
    force (`OverStreamLimit`). -/
theorem stream_id_frames_limit_iff (c : Conn) (sid z v : Nat) :
    ((rxResetStream c sid z).2.err = some (.conn STREAM_LIMIT_ERROR) ↔
        (c.canReceive sid = true ∧ OverStreamLimit c sid)) ∧
    ((rxStopSending c sid).2.err = some (.conn STREAM_LIMIT_ERROR) ↔
        (c.canSend sid = true ∧ OverStreamLimit c sid)) ∧
    ((rxMaxStreamData c sid v).2.err = some (.conn STREAM_LIMIT_ERROR) ↔
        (c.canSend sid = true ∧ OverStreamLimit c sid)) ∧
    ((rxStreamDataBlocked c sid).2.err = some (.conn STREAM_LIMIT_ERROR) ↔
        (c.canReceive sid = true ∧ OverStreamLimit c sid)) := by
  refine ⟨rxResetStream_limit_iff c sid z, ?_, ?_, ?_⟩
  · rw [rxStopSending_err, ← getErrOf_limit_iff]
    by_cases h : c.canSend sid = true <;> simp [h, STREAM_STATE_ERROR, STREAM_LIMIT_ERROR]
  · rw [rxMaxStreamData_err, ← getErrOf_limit_iff]
    by_cases h : c.canSend sid = true <;> simp [h, STREAM_STATE_ERROR, STREAM_LIMIT_ERROR]
  · rw [rxStreamDataBlocked_err, ← getErrOf_limit_iff]
    by_cases h : c.canReceive sid = true <;> simp [h, STREAM_STATE_ERROR, STREAM_LIMIT_ERROR]

/-- wrong direction / wrong initiator, for the frames that carry no other check:
    STOP_SENDING, MAX_STREAM_DATA, STREAM_DATA_BLOCKED are answered with
    STREAM_STATE_ERROR **iff** the stream cannot be used in that direction, or it
    is a stream only this endpoint may open and has not opened (`WrongInitiator`);
    and they raise nothing else than these two codes. -/
theorem stream_id_frames_state_iff (c : Conn) (sid v : Nat) :
    ((rxStopSending c sid).2.err = some (.conn STREAM_STATE_ERROR) ↔
        (c.canSend sid = false ∨ WrongInitiator c sid)) ∧
    ((rxMaxStreamData c sid v).2.err = some (.conn STREAM_STATE_ERROR) ↔
        (c.canSend sid = false ∨ WrongInitiator c sid)) ∧
    ((rxStreamDataBlocked c sid).2.err = some (.conn STREAM_STATE_ERROR) ↔
        (c.canReceive sid = false ∨ WrongInitiator c sid)) := by
  refine ⟨?_, ?_, ?_⟩
  · rw [rxStopSending_err, ← getErrOf_state_iff]
    by_cases h : c.canSend sid = true <;> simp [h]
  · rw [rxMaxStreamData_err, ← getErrOf_state_iff]
    by_cases h : c.canSend sid = true <;> simp [h]
  · rw [rxStreamDataBlocked_err, ← getErrOf_state_iff]
    by_cases h : c.canReceive sid = true <;> simp [h]

/-! ## limit enforcement stays in force until the receive half has finished -/

/-- the write loop discards a stream (after which frames for it are ignored)
    **iff** both halves are finished; after any operation sequence the receive half
    of such a stream has a fixed final size, i.e. it finished by a FIN that was
    reached or by RESET_STREAM — never because STOP_SENDING was written. -/
theorem discard_only_when_receive_finished (c0 : Conn)
    (hf : c0.quirks.resetKeepsHighest = false ∧ c0.streams = [] ∧ c0.localMaxData.used = 0 ∧ c0.goneRecv = 0)
    (ops : List Op) (sid : Nat) (a b : Bool) (fs : Int) :
    (serve (runState c0 ops) sid a b fs).2.discarded = true ↔
      ∃ st, (runState c0 ops).find? sid = some st ∧ st.recv.finished = true ∧
        st.recv.finalSize.isSome = true ∧ st.send.finished = true := by
  have h := run_rinv (rinv_init c0 hf.1 hf.2.1 hf.2.2.1 hf.2.2.2) ops
  rw [serve_discarded_iff]
  constructor
  · rintro ⟨st, h1, h2, h3⟩
    exact ⟨st, h1, h2, (h.strm st (Conn.find?_mem h1).1).2.2 h2, h3⟩
  · rintro ⟨st, h1, h2, _, h3⟩
    exact ⟨st, h1, h2, h3⟩

/-- `_streams_finished` (the ids whose frames are ignored) grows only by such a
    discard: for every operation, either it is unchanged or exactly one id is
    added, that of a live stream whose two halves are finished. -/
theorem ignored_only_after_discard (c : Conn) (hq : FixedQ c) (op : Op) :
    (step c op).1.finishedIds = c.finishedIds ∨
    ∃ sid st, (step c op).1.finishedIds = sid :: c.finishedIds ∧ c.find? sid = some st ∧
      st.recv.finished = true ∧ st.send.finished = true :=
  step_finishedIds c hq op

/-! ## enforced limit = largest value ever advertised -/

/-- "beyond a limit this endpoint has advertised": the connection-level limit
    that `_handle_stream_frame` / `_handle_reset_stream_frame` enforce is, after
    any sequence of operations, the largest of the initial value (the transport
    parameter) and the values carried by the MAX_DATA frames written so far —
    never more (a peer beyond what it was told is closed), never less (a peer
    within what it was told is not accused). -/
theorem enforced_eq_advertised (c : Conn) (hq : c.quirks.raiseBeforeWrite = false) (ops : List Op) :
    (∀ v ∈ advertisedK .data (run c ops).2, v ≤ (run c ops).1.localMaxData.value) ∧
    c.localMaxData.value ≤ (run c ops).1.localMaxData.value ∧
    ((run c ops).1.localMaxData.value = c.localMaxData.value ∨
     (run c ops).1.localMaxData.value ∈ advertisedK .data (run c ops).2) :=
  run_adv c hq .data ops

/-- "a stream beyond a limit this endpoint has advertised": the same for the
    stream-count limits that `_get_or_create_stream` enforces: after any sequence
    of operations `_local_max_streams_bidi/uni.value` is the largest of the
    initial value (transport parameter) and the values of the MAX_STREAMS frames
    of that kind written so far. -/
theorem streams_enforced_eq_advertised (c : Conn) (hq : c.quirks.raiseBeforeWrite = false) (ops : List Op) :
    ((∀ v ∈ advertisedK .streamsBidi (run c ops).2, v ≤ (run c ops).1.localMaxStreamsBidi.value) ∧
     c.localMaxStreamsBidi.value ≤ (run c ops).1.localMaxStreamsBidi.value ∧
     ((run c ops).1.localMaxStreamsBidi.value = c.localMaxStreamsBidi.value ∨
      (run c ops).1.localMaxStreamsBidi.value ∈ advertisedK .streamsBidi (run c ops).2)) ∧
    ((∀ v ∈ advertisedK .streamsUni (run c ops).2, v ≤ (run c ops).1.localMaxStreamsUni.value) ∧
     c.localMaxStreamsUni.value ≤ (run c ops).1.localMaxStreamsUni.value ∧
     ((run c ops).1.localMaxStreamsUni.value = c.localMaxStreamsUni.value ∨
      (run c ops).1.localMaxStreamsUni.value ∈ advertisedK .streamsUni (run c ops).2)) :=
  ⟨run_adv c hq .streamsBidi ops, run_adv c hq .streamsUni ops⟩

/-- before `fix: raise a local flow-control limit only once the frame
    advertising it is written` the enforced value doubled although nothing was
    written (`start_frame` raised): the enforced limit exceeded every advertised
    value. -/
theorem enforced_quirk_counterexample :
    let l : Limit := { value := 100, sent := 100, used := 60 }
    (writeLimit { raiseBeforeWrite := true } l false) = ({ value := 200, sent := 100, used := 60 }, none, true) :=
  writeLimit_quirk_counterexample

/-- per-stream limit, run level: after ANY sequence of operations on a connection
    that starts without streams, `max_stream_data_local` of every live stream —
    the limit `_handle_stream_frame` / `_handle_reset_stream_frame` enforce for it —
    is the largest of the value it was created with (`initLocal`: the transport
    parameter for its stream type) and the values of all MAX_STREAM_DATA frames
    written for its id: every advertised value is within it (a peer within what it
    was told is not accused) and it is the initial value or an advertised one (a
    peer beyond what it was told is closed).  Hypothesis `FixedQ`: the fixes
    `raise … only once the frame advertising it is written` and `refuse to send on a
    stream whose state was already discarded` are in place (a stream id is created
    at most once). -/
theorem stream_enforced_eq_advertised (c0 : Conn) (hq : FixedQ c0) (h0 : c0.streams = []) (ops : List Op) :
    ∀ s ∈ (run c0 ops).1.streams,
      (∀ v ∈ msdOf s.sid (run c0 ops).2, v ≤ s.maxLocal) ∧
      (s.maxLocal = initLocal c0 s.sid ∨ s.maxLocal ∈ msdOf s.sid (run c0 ops).2) := by
  have hQ0 : Q c0 [] := ⟨by simp [h0, ml], by simp [h0, ml], by intro _ _ _ v hv; simp [msdOf] at hv⟩
  obtain ⟨hQ, hcfg⟩ := run_Q hq [] hQ0 ops
  intro s hs
  have := hQ.live (s.sid, s.maxLocal) (List.mem_map.mpr ⟨s, hs, rfl⟩)
  simp only [List.nil_append] at this
  rw [hcfg.initLocal] at this
  exact this

/-! ## bounds -/

/-- a connection before any stream exists -/
def Fresh (c : Conn) : Prop :=
  c.quirks.resetKeepsHighest = false ∧ c.streams = [] ∧ c.localMaxData.used = 0 ∧ c.goneRecv = 0

/-- "The bytes held for reassembly (stream data) never exceed the advertised
    bounds": after ANY sequence of operations (any frames from the peer)
    * `_local_max_data.used` is exactly the sum of the receivers' highest
      offsets, discarded streams included (nothing is charged twice);
    * it is within the enforced connection limit;
    * the bytes buffered by all streams together are within that limit, and the
      bytes buffered by one stream are within its own stream limit. -/
theorem reassembly_bound (c0 : Conn) (hf : Fresh c0) (ops : List Op) :
    let c := runState c0 ops
    c.localMaxData.used = sumRh c.streams + c.goneRecv ∧
    c.localMaxData.used ≤ c.localMaxData.value ∧
    bufferedBytes c.streams ≤ c.localMaxData.value ∧
    (∀ s ∈ c.streams, s.recv.buffer.length ≤ s.maxLocal) := by
  have h := run_rinv (rinv_init c0 hf.1 hf.2.1 hf.2.2.1 hf.2.2.2) ops
  refine ⟨h.ledger, h.within, ?_, ?_⟩
  · have := bufferedBytes_le_sumRh h.strm
    have := h.ledger; have := h.within; omega
  · intro s hs
    obtain ⟨a, ⟨b, _⟩, _⟩ := h.strm s hs
    omega

/-- handshake data: whatever CRYPTO frames arrive in an epoch, at most
    MAX_PENDING_CRYPTO bytes are buffered, and CRYPTO_BUFFER_EXCEEDED is raised
    exactly when a frame would extend the window beyond that. -/
theorem crypto_bound (frames : List (Nat × Bytes)) :
    (runCrypto {} frames).buffer.length ≤ MAX_PENDING_CRYPTO :=
  crypto_buffer_bound (runCrypto_ok CryptoOK.init frames)

theorem crypto_exceeded_iff (r : Recv) (off : Nat) (data : Bytes) :
    rxCrypto r off data = .error CRYPTO_BUFFER_EXCEEDED ↔
      (off + data.length ≤ UINT_VAR_MAX ∧ off + data.length > r.bufStart + MAX_PENDING_CRYPTO) :=
  rxCrypto_exceeded_iff r off data

/-- path challenges: the queue of a network path never holds more than
    MAX_REMOTE_CHALLENGES entries, whatever is received and written. -/
theorem remote_challenges_bound (q : List Bytes) (h : q.length ≤ MAX_REMOTE_CHALLENGES) (d : Bytes)
    (rooms : List Bool) :
    (rxPathChallenge q d).length ≤ MAX_REMOTE_CHALLENGES ∧
    (writePathResponses q rooms).1.length ≤ MAX_REMOTE_CHALLENGES :=
  ⟨rxPathChallenge_le q d h, Nat.le_trans (writePathResponses_le q rooms) h⟩

/-- connection IDs: a NEW_CONNECTION_ID frame that does not close the connection
    leaves at most `active_connection_id_limit` peer CIDs (the one in use
    included) and at most min(4·limit, MAX_PENDING_RETIRES) pending retirements;
    until the next such frame the retirements pending plus those in flight never
    exceed that bound plus the frames that were in flight (re-queued when lost). -/
theorem connection_id_bounds (s : Cids) (seq rpt : Nat) (h : (rxNewConnectionId s seq rpt).2 = none)
    (ops : List CidOp) (hwf : wfCid (rxNewConnectionId s seq rpt).1 ops) :
    let s1 := (rxNewConnectionId s seq rpt).1
    1 + s1.available.length ≤ s.limit ∧
    s1.retire.length ≤ min (s.limit * 4) MAX_PENDING_RETIRES ∧
    (ops.foldl stepCid s1).retire.length + (ops.foldl stepCid s1).inFlight ≤
      min (s.limit * 4) MAX_PENDING_RETIRES + s1.inFlight := by
  obtain ⟨b1, b2, _⟩ := rxNewConnectionId_bounds s seq rpt h
  refine ⟨b1, b2, ?_⟩
  have := runCid_potential _ ops hwf
  omega

/-! ## all operation sequences, in terms of the advertised limits

  `AdvConn c0 outs k L` / `AdvStream c0 outs sid L`: `L` is the largest of the
  transport parameter and the values of the MAX_DATA / MAX_STREAMS /
  MAX_STREAM_DATA frames in the outputs `outs` written so far — what the peer has
  been told.  `Start`: the connection as constructed (no stream, nothing received),
  the fix commits in place.  No hypothesis on the operations: the peer's frames,
  the application calls, the packet builder (`room`), the serve order and the
  delivery reports are arbitrary. -/

/-- the connection as constructed, fix commits applied -/
def Start (c : Conn) : Prop := FixedQ c ∧ Fresh c

/-- (a) at all times, for every stream: its limit in force IS the advertised
    per-stream limit; the bytes received and not yet read by the application
    (highest received offset − bytes handed to the application), a fortiori the
    bytes held in the reassembly buffer, are within it. -/
theorem stream_unread_within_advertised (c0 : Conn) (hs : Start c0) (ops : List Op) :
    ∀ s ∈ (runState c0 ops).streams,
      AdvStream c0 (run c0 ops).2 s.sid s.maxLocal ∧
      s.recv.buffer.length ≤ s.unread ∧ s.unread ≤ s.maxLocal := by
  have h := run_rinv (rinv_init c0 hs.2.1 hs.2.2.1 hs.2.2.2.1 hs.2.2.2.2) ops
  intro s hm
  obtain ⟨a, ⟨b, _⟩, _⟩ := h.strm s hm
  refine ⟨advStream_run c0 hs.1 hs.2.2.1 ops s hm, ?_, ?_⟩ <;> (unfold Strm.unread; omega)

/-- (c) at all times: the connection limit in force IS the advertised MAX_DATA; the
    bytes received and not yet read over all live streams — a fortiori all bytes
    held for reassembly — are within it (so is the sum of all highest offsets,
    discarded streams included). -/
theorem connection_unread_within_advertised (c0 : Conn) (hs : Start c0) (ops : List Op) :
    AdvConn c0 (run c0 ops).2 .data (runState c0 ops).localMaxData.value ∧
    bufferedBytes (runState c0 ops).streams ≤ unreadBytes (runState c0 ops).streams ∧
    unreadBytes (runState c0 ops).streams ≤ (runState c0 ops).localMaxData.value ∧
    sumRh (runState c0 ops).streams + (runState c0 ops).goneRecv ≤ (runState c0 ops).localMaxData.value := by
  have h := run_rinv (rinv_init c0 hs.2.1 hs.2.2.1 hs.2.2.2.1 hs.2.2.2.2) ops
  refine ⟨advConn_run c0 hs.1.1 .data ops, bufferedBytes_le_unread h.strm, ?_, ?_⟩
  · have := unreadBytes_le_sumRh (runState c0 ops).streams
    have := h.ledger; have := h.within; omega
  · have := h.ledger; have := h.within; omega

/-- (b) STREAM: on every reachable state, for a representable frame on a stream id
    the peer may use (receivable, not discarded, not a never-opened stream of this
    endpoint), measured against the ADVERTISED limits `Ld` (MAX_DATA), `Lc`
    (MAX_STREAMS of the id's kind), `Ls` (MAX_STREAM_DATA of the stream):
    STREAM_LIMIT_ERROR iff it opens a stream beyond `Lc`; else FLOW_CONTROL_ERROR iff
    it ends beyond `Ls` or the bytes it newly claims exceed `Ld`; else
    FINAL_SIZE_ERROR iff it contradicts the known final size; else it is accepted
    (a peer within the advertised limits is never accused).  A refused frame
    changes nothing but the close: the state is untouched, or holds in addition
    the empty stream object created by the lookup (`LookupOnly`). -/
theorem stream_frame_against_advertised (c0 : Conn) (hs : Start c0) (ops : List Op)
    (sid off : Nat) (data : Bytes) (fin : Bool) (Ld Lc Ls : Nat)
    (ha : Advertised c0 (run c0 ops).2 sid Ld Lc Ls)
    (henc : off + data.length ≤ UINT_VAR_MAX) (hrecv : (runState c0 ops).canReceive sid = true)
    (hnf : sid ∉ (runState c0 ops).finishedIds)
    (hpeer : clientInitiated sid ≠ (runState c0 ops).isClient ∨ (runState c0 ops).find? sid ≠ none) :
    Decision (runState c0 ops) (step (runState c0 ops) (.rxStream sid off data fin)).1
      (step (runState c0 ops) (.rxStream sid off data fin)).2.err sid (off + data.length) Ld Lc Ls
      (frameFinalSizeError (recvFinal (runState c0 ops) sid) ⟨off, data, fin⟩ = true) :=
  rxStream_adv c0 hs.1 hs.2.2.1 ops sid off data fin Ld Lc Ls ha henc hrecv hnf hpeer

/-- (b) RESET_STREAM: the same with the final size `z` in place of the end offset. -/
theorem reset_frame_against_advertised (c0 : Conn) (hs : Start c0) (ops : List Op)
    (sid z : Nat) (Ld Lc Ls : Nat)
    (ha : Advertised c0 (run c0 ops).2 sid Ld Lc Ls)
    (hrecv : (runState c0 ops).canReceive sid = true)
    (hnf : sid ∉ (runState c0 ops).finishedIds)
    (hpeer : clientInitiated sid ≠ (runState c0 ops).isClient ∨ (runState c0 ops).find? sid ≠ none) :
    Decision (runState c0 ops) (step (runState c0 ops) (.rxResetStream sid z)).1
      (step (runState c0 ops) (.rxResetStream sid z)).2.err sid z Ld Lc Ls
      (resetFinalSizeError (recvFinal (runState c0 ops) sid) z = true) :=
  rxResetStream_adv c0 hs.1 hs.2.2.1 ops sid z Ld Lc Ls ha hrecv hnf hpeer

/-- the advertised limits exist and are unique on every reachable state (so the
    hypothesis `Advertised` of (b) can always be met, by exactly one triple) -/
theorem advertised_exists (c0 : Conn) (hs : Start c0) (ops : List Op) (sid : Nat)
    (hnf : sid ∉ (runState c0 ops).finishedIds) :
    ∃ Ld Lc Ls, Advertised c0 (run c0 ops).2 sid Ld Lc Ls := by
  have hd := advConn_run c0 hs.1.1 .data ops
  have hc := advConn_run c0 hs.1.1 (countKind sid) ops
  cases hf : (runState c0 ops).find? sid with
  | none => exact ⟨_, _, _, hd, hc, advStream_fresh c0 hs.1 hs.2.2.1 ops sid hf hnf⟩
  | some st =>
    obtain ⟨hm, hsid⟩ := Conn.find?_mem hf
    have := advStream_run c0 hs.1 hs.2.2.1 ops st hm
    rw [hsid] at this
    exact ⟨_, _, _, hd, hc, this⟩

/-- (d) one more operation on any reachable state: every connection-level limit
    (MAX_DATA, MAX_STREAMS bidi / uni) and the limit of every live stream does not
    decrease; it is raised only together with the frame that carries exactly the new
    value, and every such frame written carries the value then in force.  (A stream
    may instead be discarded — both halves finished.) -/
theorem limits_never_decrease (c0 : Conn) (hs : Start c0) (ops : List Op) (op : Op) :
    (∀ k, ConnLimStep (runState c0 ops) (step (runState c0 ops) op).1 (step (runState c0 ops) op).2 k) ∧
    (∀ s ∈ (runState c0 ops).streams,
      s.sid ∈ (step (runState c0 ops) op).1.finishedIds ∨
      ∃ s' ∈ (step (runState c0 ops) op).1.streams, s'.sid = s.sid ∧ s.maxLocal ≤ s'.maxLocal ∧
        (s.maxLocal < s'.maxLocal → WFrame.maxStreamData s.sid s'.maxLocal ∈ (step (runState c0 ops) op).2.frames) ∧
        ∀ v, WFrame.maxStreamData s.sid v ∈ (step (runState c0 ops) op).2.frames → v = s'.maxLocal) :=
  limits_step c0 hs.1 hs.2.2.1 ops op

/-- (d) over any continuation `b` of any operation sequence `a` -/
theorem limits_never_decrease_run (c0 : Conn) (hs : Start c0) (k : LimitKind) (a b : List Op) :
    (limOf (runState c0 a) k).value ≤ (limOf (runState c0 (a ++ b)) k).value :=
  limits_run_mono c0 hs.1.1 k a b

/-! ## non-vacuity -/

/-- a server with max_data 10, max_stream_data 6: 4 bytes on stream 0 accepted,
    then a frame ending at 7 is beyond the stream limit -/
example :
    let c0 : Conn := { isClient := false, localMaxData := Limit.init 10, localMaxStreamDataBidiRemote := 6 }
    (step c0 (.rxStream 0 0 [1, 2, 3, 4] false)).2.err = none ∧
    (step (step c0 (.rxStream 0 0 [1, 2, 3, 4] false)).1 (.rxStream 0 4 [5, 6, 7] false)).2.err =
      some (.conn FLOW_CONTROL_ERROR) := by decide

/-- the run-level theorems on a concrete history.  A server advertises
    max_data 10, max_stream_data 6, one bidirectional stream; the peer sends 6 bytes
    on stream 0; the endpoint writes MAX_STREAM_DATA 12 and MAX_DATA 20. -/
def demo0 : Conn :=
  { isClient := false, localMaxData := Limit.init 10, localMaxStreamDataBidiRemote := 6,
    localMaxStreamsBidi := Limit.init 1 }

def demoOps : List Op :=
  [.rxStream 0 0 [1, 2, 3, 4, 5, 6] false, .writeStreamLimits 0 true, .writeConnLimits true true true]

/-- the demo connection is a start state (the hypotheses of the run-level theorems are satisfiable) -/
theorem demo_start : Start demo0 := ⟨⟨rfl, rfl⟩, rfl, rfl, rfl, rfl⟩

/-- the frames were written and the advertised limits are 20 / 2 / 12 -/
theorem demo_advertised : Advertised demo0 (run demo0 demoOps).2 0 20 2 12 :=
  ⟨by unfold AdvConn IsLargest; decide, by unfold AdvConn IsLargest; decide,
   by unfold AdvStream IsLargest; decide⟩

example : (run demo0 demoOps).2.flatMap (·.frames) = [.maxStreamData 0 12, .maxData 20, .maxStreams false 2] := by decide

/-- (a), (c) hold with non-trivial content: 6 bytes unread?  no — all 6 were handed
    to the application (in order); a gap keeps them unread -/
example :
    let c := runState demo0 [.rxStream 0 2 [3, 4, 5, 6] false]
    unreadBytes c.streams = 6 ∧ bufferedBytes c.streams = 6 ∧ c.localMaxData.value = 10 := by decide

example := stream_unread_within_advertised demo0 demo_start demoOps
example := connection_unread_within_advertised demo0 demo_start demoOps

/-- (b): the hypotheses of `stream_frame_against_advertised` are met on the demo
    history and each outcome occurs -/
example : -- ends at 13 > 12 = advertised MAX_STREAM_DATA
    (step (runState demo0 demoOps) (.rxStream 0 6 [7, 8, 9, 10, 11, 12, 13] false)).2.err =
      some (.conn FLOW_CONTROL_ERROR) :=
  (stream_frame_against_advertised demo0 demo_start demoOps 0 6 [7, 8, 9, 10, 11, 12, 13] false 20 2 12
    demo_advertised (by decide) (by decide) (by decide) (by decide)).flowControl.mpr
    ⟨by unfold OverCount; decide, by unfold OverFlow; decide⟩

example : -- ends at 12: accepted
    (step (runState demo0 demoOps) (.rxStream 0 6 [7, 8, 9, 10, 11, 12] true)).2.err = none :=
  (stream_frame_against_advertised demo0 demo_start demoOps 0 6 [7, 8, 9, 10, 11, 12] true 20 2 12
    demo_advertised (by decide) (by decide) (by decide) (by decide)).accepted.mpr
    ⟨by unfold OverCount; decide, by unfold OverFlow; decide, by decide⟩

example : -- stream 8 would be the third bidirectional stream, MAX_STREAMS 2 was advertised
    (step (runState demo0 demoOps) (.rxStream 8 0 [1] false)).2.err = some (.conn STREAM_LIMIT_ERROR) ∧
    LookupOnly (runState demo0 demoOps) (step (runState demo0 demoOps) (.rxStream 8 0 [1] false)).1 8 := by
  have hadv : Advertised demo0 (run demo0 demoOps).2 8 20 2 6 :=
    ⟨by unfold AdvConn IsLargest; decide, by unfold AdvConn IsLargest; decide,
     by unfold AdvStream IsLargest; decide⟩
  have d := stream_frame_against_advertised demo0 demo_start demoOps 8 0 [1] false 20 2 6
    hadv (by decide) (by decide) (by decide) (by decide)
  have h := d.streamLimit.mpr (by unfold OverCount; decide)
  exact ⟨h, d.refused (by rw [h]; simp)⟩

example : -- a FIN at 12, then RESET_STREAM with final size 11: FINAL_SIZE_ERROR; with 13: FLOW_CONTROL_ERROR
    let ops := demoOps ++ [.rxStream 0 6 [7, 8, 9, 10, 11, 12] true]
    (step (runState demo0 ops) (.rxResetStream 0 11)).2.err = some (.conn FINAL_SIZE_ERROR) ∧
    (step (runState demo0 ops) (.rxResetStream 0 13)).2.err = some (.conn FLOW_CONTROL_ERROR) := by
  intro ops
  have hadv : Advertised demo0 (run demo0 ops).2 0 20 2 12 :=
    ⟨by unfold AdvConn IsLargest; decide, by unfold AdvConn IsLargest; decide,
     by unfold AdvStream IsLargest; decide⟩
  exact ⟨(reset_frame_against_advertised demo0 demo_start ops 0 11 20 2 12 hadv (by decide) (by decide)
      (by decide)).finalSize.mpr ⟨by unfold OverCount; decide, by unfold OverFlow; decide, by decide⟩,
    (reset_frame_against_advertised demo0 demo_start ops 0 13 20 2 12 hadv (by decide) (by decide)
      (by decide)).flowControl.mpr ⟨by unfold OverCount; decide, by unfold OverFlow; decide⟩⟩

example : ∃ Ld Lc Ls, Advertised demo0 (run demo0 demoOps).2 0 Ld Lc Ls :=
  advertised_exists demo0 demo_start demoOps 0 (by decide)

/-- (d): the second operation of the demo raises the stream limit 6 → 12 and
    writes exactly that frame; the theorem instance says so -/
example :
    let c := runState demo0 [.rxStream 0 0 [1, 2, 3, 4, 5, 6] false]
    (c.find? 0).map (·.maxLocal) = some 6 ∧
    ((step c (.writeStreamLimits 0 true)).1.find? 0).map (·.maxLocal) = some 12 ∧
    (step c (.writeStreamLimits 0 true)).2.frames = [.maxStreamData 0 12] := by decide

example := limits_never_decrease demo0 demo_start [.rxStream 0 0 [1, 2, 3, 4, 5, 6] false] (.writeStreamLimits 0 true)
example : (limOf (runState demo0 []) .data).value ≤ (limOf (runState demo0 ([] ++ demoOps)) .data).value ∧
    (limOf (runState demo0 demoOps) .data).value = 20 :=
  ⟨limits_never_decrease_run demo0 demo_start .data [] demoOps, by decide⟩

end AQ.Props.C07

#print axioms AQ.Props.C07.stream_flow_control_iff
#print axioms AQ.Props.C07.stream_final_size_iff
#print axioms AQ.Props.C07.stream_never_accused_iff
#print axioms AQ.Props.C07.stream_limit_iff
#print axioms AQ.Props.C07.stream_id_frames_limit_iff
#print axioms AQ.Props.C07.stream_id_frames_state_iff
#print axioms AQ.Props.C07.discard_only_when_receive_finished
#print axioms AQ.Props.C07.ignored_only_after_discard
#print axioms AQ.Props.C07.reset_flow_control_iff
#print axioms AQ.Props.C07.reset_final_size_iff
#print axioms AQ.Props.C07.enforced_eq_advertised
#print axioms AQ.Props.C07.streams_enforced_eq_advertised
#print axioms AQ.Props.C07.enforced_quirk_counterexample
#print axioms AQ.Props.C07.stream_enforced_eq_advertised
#print axioms AQ.Props.C07.reassembly_bound
#print axioms AQ.Props.C07.crypto_bound
#print axioms AQ.Props.C07.crypto_exceeded_iff
#print axioms AQ.Props.C07.remote_challenges_bound
#print axioms AQ.Props.C07.connection_id_bounds
#print axioms AQ.Props.C07.stream_unread_within_advertised
#print axioms AQ.Props.C07.connection_unread_within_advertised
#print axioms AQ.Props.C07.stream_frame_against_advertised
#print axioms AQ.Props.C07.reset_frame_against_advertised
#print axioms AQ.Props.C07.advertised_exists
#print axioms AQ.Props.C07.limits_never_decrease
#print axioms AQ.Props.C07.limits_never_decrease_run
