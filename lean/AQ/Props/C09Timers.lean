/-
  C09 on the PRODUCT of the close/timer model and the recovery model
  (AQ.Model.ConnTimers): the timer sources of `get_timer()` and the probe
  timeout of the closing period are computed by AQ.Model.Recovery
  (`getLossDetectionTime`, `Space.ackAt`, `getProbeTimeout`), not inputs.

  All theorems are for every float arithmetic `A`, every role / congestion
  algorithm / datagram size / initial RTT, and every sequence `ops` of public
  API calls (each with the recovery calls the connection makes inside it) that
  respects `Usage`: a client is fed no datagram before connect(), and packet
  numbers handed to `on_packet_sent` increase within a space (C01Loss's `IncPn`).
-/
import AQ.Proofs.ConnTimers

namespace AQ.Props.C09Timers
open AQ AQ.RangeSet AQ.Recovery AQ.CloseTimer AQ.ConnTimers

variable {F : Type}

/-- "From the first datagram or connect call until termination is reported":
    the close/idle deadline `_close_at` is armed in every reachable started,
    non-terminated state of the product — an invariant of the
    connect()/receive/close/timer transitions, not an assumption. -/
theorem close_deadline_armed (A : FArith F) (c : Bool) (algo : Algo) (mds : Nat) (rtt0 : F)
    (ops : List (ConnTimers.Op F)) (hu : ConnTimers.Usage A (Sys.init A c algo mds rtt0) ops) :
    let y := ConnTimers.run A (Sys.init A c algo mds rtt0) ops
    y.conn.started = true → y.conn.state ≠ .terminated → y.conn.closeAt.isSome = true := by
  intro y hs ht
  exact (inv_run_conn A ops _ (inv_init c) hu).live ht (Or.inl hs)

/-- "A live connection always has a timer": in every reachable started,
    non-terminated state `get_timer()` — the minimum over `_close_at`, the
    spaces' `ack_at`, `get_loss_detection_time()` and `_pacing_at`, computed as the
    code does — is not None. -/
theorem live_has_timer (A : FArith F) (c : Bool) (algo : Algo) (mds : Nat) (rtt0 : F)
    (ops : List (ConnTimers.Op F)) (hu : ConnTimers.Usage A (Sys.init A c algo mds rtt0) ops) :
    let y := ConnTimers.run A (Sys.init A c algo mds rtt0) ops
    y.conn.started = true → y.conn.state ≠ .terminated → (ConnTimers.getTimer A y).2 ≠ none := by
  intro y hs ht hnone
  have h := close_deadline_armed A c algo mds rtt0 ops hu hs ht
  have : y.conn.closeAt = none :=
    (getTimer_none_iff A y.conn (ackAts y) (lossTime A y) y.pacingAt).mp hnone
  rw [this] at h; cases h

/-- ... and it is never later than the close/idle deadline (order facts of the
    arithmetic as hypothesis), and it is one of the four sources. -/
theorem timer_bounded_and_sourced (A : FArith F) (L : OrdLaws A) (c : Bool) (algo : Algo) (mds : Nat) (rtt0 : F)
    (ops : List (ConnTimers.Op F)) (hu : ConnTimers.Usage A (Sys.init A c algo mds rtt0) ops) :
    let y := ConnTimers.run A (Sys.init A c algo mds rtt0) ops
    y.conn.started = true → y.conn.state ≠ .terminated →
    ∃ t d, (ConnTimers.getTimer A y).2 = some t ∧ y.conn.closeAt = some d ∧ A.le t d = true ∧
      (t = d ∨ some t ∈ ackAts y ∨ lossTime A y = some t ∨ y.pacingAt = some t) := by
  intro y hs ht
  obtain ⟨d, hd⟩ := Option.isSome_iff_exists.mp (close_deadline_armed A c algo mds rtt0 ops hu hs ht)
  obtain ⟨t, h1, h2⟩ := getTimer_spec A L y.conn d hd (ackAts y) (lossTime A y) y.pacingAt
  refine ⟨t, d, h1, hd, h2, ?_⟩
  rcases getTimer_source A y.conn _ _ _ t h1 with g | g | g | g
  · left; rw [hd] at g; cases g; rfl
  · right; left; exact g
  · right; right; left; exact g
  · right; right; right; exact g

/-- "Firing the timer makes progress" — exactly what `handle_timer` guarantees.
    In a reachable started, non-terminated state let `get_timer()` return `t`
    (state `y1` afterwards) and let `handle_timer(now)` run with `now >= t`.  Then
    one of:
    (T) the close/idle deadline is due: the connection is TERMINATED and its
        close event is appended;
    (L) the loss-detection deadline `l = get_loss_detection_time()` is due:
        `on_loss_detection_timeout(now)` ran on the recovery object (its effect:
        `fire_loss_time_branch` / `fire_pto_branch`) and nothing else changed but
        the ghost counter;
    (N) neither: `handle_timer` changed NOTHING, and the due deadline `t` is a
        space's `ack_at` or `_pacing_at`.  These are cleared only by
        datagrams_to_send (`space.ack_at = None` after an ACK frame is written,
        `_pacing_at` recomputed when `_write_application` runs); the code gives
        no guarantee that the next `get_timer()` is later (on the real code a
        server blocked by the anti-amplification limit keeps a stale
        `_pacing_at` and re-fires until the PTO or idle deadline passes). -/
theorem fire_progress (A : FArith F) (c : Bool) (algo : Algo) (mds : Nat) (rtt0 : F)
    (ops : List (ConnTimers.Op F)) (hu : ConnTimers.Usage A (Sys.init A c algo mds rtt0) ops)
    (t now : F) :
    let y := ConnTimers.run A (Sys.init A c algo mds rtt0) ops
    let y1 := (ConnTimers.getTimer A y).1
    y.conn.started = true → y.conn.state ≠ .terminated →
    (ConnTimers.getTimer A y).2 = some t → A.le t now = true →
    ((ConnTimers.handleTimer A y1 now).conn.state = .terminated ∧
      (ConnTimers.handleTimer A y1 now).conn.log =
        y.conn.log ++ [Ev.terminated (some (y.conn.closeEvent.getD idleEv))]) ∨
    (∃ l, lossTime A y = some l ∧ A.le l now = true ∧
      (ConnTimers.handleTimer A y1 now).loss = onLossDetectionTimeout A y.loss now ∧
      (ConnTimers.handleTimer A y1 now).conn = { y1.conn with lossFired := y1.conn.lossFired + 1 } ∧
      (ConnTimers.handleTimer A y1 now).pacingAt = y.pacingAt) ∨
    (ConnTimers.handleTimer A y1 now = y1 ∧ (some t ∈ ackAts y ∨ y.pacingAt = some t)) := by
  intro y y1 hs ht hget hdue
  obtain ⟨d, hd⟩ := Option.isSome_iff_exists.mp (close_deadline_armed A c algo mds rtt0 ops hu hs ht)
  exact fire_progress_aux A y d hd t now hget hdue

/-- case (L), a loss time is set in some space (C01Loss `loss_timeout_runs_detect`
    + `loss_time_is_deadline`, on the product): `handle_timer` ran `_detect_loss`
    on the space `_get_loss_space()` picks; every packet of it at or below
    `largest_acked_packet` that meets the packet threshold or was sent at or
    before `now - loss_delay` is untracked and reported LOST; and that space's
    NEW `loss_time`, if any, is not `<= now` — the loss timer does not re-fire at
    the same instant.  Hypothesis `LossOrderFacts` = the order facts of C01Loss
    (`a + d <= n -> a <= n - d` can fail by one ulp in IEEE doubles when `now`
    equals the deadline exactly: the caveat recorded in AQ/Props/C01Loss.lean). -/
theorem fire_loss_time_branch (A : FArith F) (O : LossOrderFacts A) (c : Bool) (algo : Algo) (mds : Nat)
    (rtt0 : F) (ops : List (ConnTimers.Op F)) (hu : ConnTimers.Usage A (Sys.init A c algo mds rtt0) ops)
    (now : F) (j : Nat)
    (hj : getLossSpace A (ConnTimers.run A (Sys.init A c algo mds rtt0) ops).loss = some j) :
    let r := (ConnTimers.run A (Sys.init A c algo mds rtt0) ops).loss
    onLossDetectionTimeout A r now = detectLoss A r j now ∧
    ∃ s t s', r.spaces[j]? = some s ∧ s.lossTime = some t ∧
      (detectLoss A r j now).spaces[j]? = some s' ∧
      (∀ q ∈ s.sent, q.pn ≤ s.largestAcked →
        (q.pn + 3 ≤ s.largestAcked ∨ A.le q.sentTime (timeThreshold A r now) = true) →
        q ∉ s'.sent ∧ (q.uid, Delivery.lost) ∈ (detectLoss A r j now).log) ∧
      (s'.lossTime = none ∨ ∃ t', s'.lossTime = some t' ∧ A.le t' now = false) :=
  timeout_loss_branch A O _ (run_sorted A ops _ (sorted_sys_init A c algo mds rtt0) hu) now j hj

/-- case (L), no loss time anywhere (C01Loss `pto_fires`, on the product): the
    probe timeout fired — `pto_count` increases by one (the next PTO deadline uses
    `2 ** (pto_count+1)`), exactly one probe is requested (`_send_probe`: the next
    datagrams_to_send sends an ack-eliciting PING even beyond the congestion
    window), every tracked CRYPTO packet is reported LOST (handshake data is
    retransmitted) and no earlier report is dropped. -/
theorem fire_pto_branch (A : FArith F) (r : Rec F) (now : F) (hn : getLossSpace A r = none) :
    (onLossDetectionTimeout A r now).ptoCount = r.ptoCount + 1 ∧
    (onLossDetectionTimeout A r now).probes = r.probes + 1 ∧
    (∀ e ∈ r.log, e ∈ (onLossDetectionTimeout A r now).log) ∧
    ∀ (j : Nat) (s : Space F), r.spaces[j]? = some s → ∀ p ∈ s.sent, p.isCrypto = true →
      (p.uid, Delivery.lost) ∈ (onLossDetectionTimeout A r now).log ∧
      ∀ s' : Space F, (onLossDetectionTimeout A r now).spaces[j]? = some s' → p ∉ s'.sent :=
  timeout_pto_branch A r now hn

/-- `get_probe_timeout()` has no back-off: it does not read `pto_count` -/
theorem base_pto_ignores_backoff (A : FArith F) (r : Rec F) (n : Nat) :
    getProbeTimeout A { r with ptoCount := n } = getProbeTimeout A r := rfl

/-- "within three probe timeouts of starting to close", local close / fatal
    error: the datagrams_to_send that finds `_close_pending` enters CLOSING with
    deadline `now + 3 * get_probe_timeout()` where the probe timeout is the
    recovery object's BASE value at that moment (RTT estimate, no `2**pto_count`). -/
theorem local_close_three_base_pto (A : FArith F) (y : Sys F) (now : F) (i : SendIn F) (l : List (ConnTimers.Sub F))
    (hl : y.conn.state.isEnd = false) (hp : y.conn.hasPath = true) (hc : y.conn.closePending = true) :
    (ConnTimers.step A y (.send now i l)).conn.state = .closing ∧
    (ConnTimers.step A y (.send now i l)).conn.closeAt =
      some (A.add now (A.mul (A.ofNat 3) (getProbeTimeout A y.loss))) := by
  simp [ConnTimers.step, ConnTimers.send, hl, hp, datagramsToSend, hc, closeBegin, ConnTimers.pto]

/-- "... a peer close": the packet carrying the first effective CONNECTION_CLOSE
    enters DRAINING with deadline `now + 3 * get_probe_timeout()`, the base probe
    timeout being read AFTER the frames that precede the close frame in that
    packet were handled (`it.pre`, e.g. an ACK that updates the RTT). -/
theorem peer_close_three_base_pto (A : FArith F) (y : Sys F) (now : F) (pre : List (ConnTimers.Sub F)) (n1 : Nat)
    (e : CloseEv) (x : F) (n2 : Nat) (err : Option CloseEv) (idle : F) (post : List (ConnTimers.Sub F))
    (rest : List (Item F)) (hn : y.conn.closeEvent = none) :
    let y' := rxItems A y now (⟨pre, .payload n1 (some e) x n2 err idle, post⟩ :: rest)
    y'.conn.state = .draining ∧ y'.conn.closeEvent = some e ∧
    y'.conn.closeAt = some (A.add now (A.mul (A.ofNat 3) (getProbeTimeout A (subs A y pre).loss))) := by
  intro y'
  have hk := rxPkt_peer_close A (subs A y pre).conn now n1 e (ConnTimers.pto A (subs A y pre)) n2 err idle
    (by rw [subs_conn]; exact hn)
  have hy' : y' = subs A { subs A y pre with conn :=
      (rxPkt A (subs A y pre).conn now (.payload n1 (some e) (ConnTimers.pto A (subs A y pre)) n2 err idle)).1 } post := by
    show rxItems A y now _ = _
    simp only [rxItems, fillPto]
    cases hr : rxPkt A (subs A y pre).conn now (.payload n1 (some e) (ConnTimers.pto A (subs A y pre)) n2 err idle) with
    | mk c b =>
      rw [hr] at hk
      simp only [] at hk
      rw [hk.1]
  rw [hy', subs_conn]
  exact ⟨hk.2.1, hk.2.2.2, hk.2.2.1⟩

/-- "closing always terminates": from a reachable CLOSING / DRAINING state with
    deadline `d` (= close start + 3·PTO_base by the two theorems above), no API
    call — with whatever recovery activity inside — moves the deadline or leaves
    the END states, and any continuation containing a `handle_timer(now)` with
    `now >= d` ends TERMINATED with exactly the recorded close event appended. -/
theorem closing_terminates (A : FArith F) (c : Bool) (algo : Algo) (mds : Nat) (rtt0 : F)
    (ops more : List (ConnTimers.Op F))
    (hu : ConnTimers.Usage A (Sys.init A c algo mds rtt0) ops)
    (hu2 : ConnTimers.Usage A (ConnTimers.run A (Sys.init A c algo mds rtt0) ops) more)
    (he : (ConnTimers.run A (Sys.init A c algo mds rtt0) ops).conn.state.isEnd = true) (d : F)
    (hd : (ConnTimers.run A (Sys.init A c algo mds rtt0) ops).conn.closeAt = some d) :
    (∀ op, (ConnTimers.step A (ConnTimers.run A (Sys.init A c algo mds rtt0) ops) op).conn.state.isEnd = true ∧
      ((ConnTimers.step A (ConnTimers.run A (Sys.init A c algo mds rtt0) ops) op).conn.closeAt = some d ∨
       (ConnTimers.step A (ConnTimers.run A (Sys.init A c algo mds rtt0) ops) op).conn.state = .terminated)) ∧
    (∀ now, ConnTimers.Op.fire now ∈ more → A.le d now = true →
      (ConnTimers.run A (ConnTimers.run A (Sys.init A c algo mds rtt0) ops) more).conn.state = .terminated ∧
      ∃ e, (ConnTimers.run A (Sys.init A c algo mds rtt0) ops).conn.closeEvent = some e ∧
        (ConnTimers.run A (ConnTimers.run A (Sys.init A c algo mds rtt0) ops) more).conn.log =
          (ConnTimers.run A (Sys.init A c algo mds rtt0) ops).conn.log ++ [Ev.terminated (some e)]) := by
  have h0 := inv_run_conn A ops _ (inv_init c) hu
  constructor
  · intro op
    obtain ⟨cop, h1, -, -⟩ := step_proj A (ConnTimers.run A (Sys.init A c algo mds rtt0) ops) op
    rw [h1]
    have := step_end A h0 he cop
    refine ⟨this.1, ?_⟩
    rcases this.2 with ⟨a, _⟩ | b
    · left; rw [a, hd]
    · right; exact b
  · intro now hin hdue
    obtain ⟨cops, g1, g2, g3⟩ := run_proj A more _ hu2
    obtain ⟨e, hev⟩ := Option.isSome_iff_exists.mp (h0.evEnd he)
    have := closing_run A cops h0 he d hd e hev now (g3 now hin) hdue
    rw [g1]
    exact ⟨this.1, e, hev, this.2⟩

/-! ### the hypotheses are satisfiable, the conclusions are not vacuous -/

/-- a client connects (three fresh spaces, one ack-eliciting Initial sent at t=0,
    initial RTT 100 so PTO = 200), the peer is silent: get_timer() is the PTO
    deadline 200 < idle deadline 60000, firing it runs the PTO branch -/
def demo : List (ConnTimers.Op Int) :=
  [.connect 0 60000 [.spaces 3],
   .send 0 ⟨false, true, false, false, 0, 1, 1, 0⟩
     [.sent 0 ⟨0, 1200, true, true, true, 0, 0⟩],
   .timer]

example : ConnTimers.Usage intArith (Sys.init intArith true .reno 1200 100) demo := by
  refine ⟨?_, ?_, trivial, trivial⟩
  · simp [ConnTimers.Op.usageOk, CloseTimer.connect, Sys.init, Conn.init, ConnTimers.SubsOk, ConnTimers.Sub.ok]
  · simp [ConnTimers.Op.usageOk, ConnTimers.SubsOk, ConnTimers.Sub.ok, ConnTimers.step, ConnTimers.subs,
      ConnTimers.sub, CloseTimer.connect, Sys.init, Conn.init, Rec.init, connectInner]
example : (ConnTimers.getTimer intArith (ConnTimers.run intArith (Sys.init intArith true .reno 1200 100) demo)).2
    = some 200 := by decide
example : (ConnTimers.run intArith (Sys.init intArith true .reno 1200 100) (demo ++ [.fire 200])).loss.ptoCount = 1 := by
  decide
example : (ConnTimers.getTimer intArith
    (ConnTimers.run intArith (Sys.init intArith true .reno 1200 100) (demo ++ [.fire 200]))).2 = some 400 := by decide

end AQ.Props.C09Timers

#print axioms AQ.Props.C09Timers.close_deadline_armed
#print axioms AQ.Props.C09Timers.live_has_timer
#print axioms AQ.Props.C09Timers.timer_bounded_and_sourced
#print axioms AQ.Props.C09Timers.fire_progress
#print axioms AQ.Props.C09Timers.fire_loss_time_branch
#print axioms AQ.Props.C09Timers.fire_pto_branch
#print axioms AQ.Props.C09Timers.base_pto_ignores_backoff
#print axioms AQ.Props.C09Timers.local_close_three_base_pto
#print axioms AQ.Props.C09Timers.peer_close_three_base_pto
#print axioms AQ.Props.C09Timers.closing_terminates
