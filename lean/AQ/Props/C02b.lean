/-
  Property C02, packet-protection clauses (the packet-number expansion law is
  AQ.Props.C02):

  "Every protected packet an endpoint emits is recovered bit-exactly by its peer
   and by an independent RFC 9001/9369 implementation, for every cipher suite,
   QUIC version, key phase, packet-number length and payload size […].  A packet
   (including a Retry) in which any bit was altered after protection is
   discarded without emitting events, advancing the handshake, delivering data
   or closing the connection, and the genuine packet is still accepted
   afterwards."

  Models: AQ.Model.PacketProt (_crypto.c helpers, CryptoContext.encrypt_packet /
  decrypt_packet, get_retry_integrity_tag), AQ.Model.RecvGate (receive_datagram
  up to the decrypt decision), both tied to the source by `./check C02`
  (`prot.*` correspondence, bit-flip oracle); AQ.Gen.CryptoTables is regenerated
  from the source on every run.

  All cryptographic facts are HYPOTHESES of the theorems (never axioms):
  `AeadCorrect` (open ∘ seal = id), `SealLen` (ciphertext = plaintext + 16),
  `IntCtxt` (idealised ciphertext integrity: what opens was sealed by the key
  holder — true up to the forgery probability of the AEAD).
-/
import AQ.Proofs.PacketProt
import AQ.Proofs.RecvGate
import AQ.Model.PacketProtSpec
import AQ.Gen.CryptoTables
import AQ.Props.C02
import AQ.Model.PnSpace

namespace AQ.Props.C02b
open AQ AQ.PacketProt

/-! ## constants -/

/-- **C02** "for every cipher suite, QUIC version …": the tables extracted from
crypto.py / packet.py / tls.py (cipher per suite, key length, HKDF labels incl.
key update, Initial salts, Retry keys and nonces, long-header type bits, header
form / fixed bit) are the constants of RFC 9001 §5.1, §5.2, §5.3, §5.4.1, §5.8,
§6.1, RFC 9369 §3.2, §3.3.1, §3.3.3 and RFC 9000 §17.2 as written in
`AQ.PacketProt.Spec`. -/
theorem tables_match_rfc :
    Gen.CryptoTables.cipherSuites = Spec.cipherSuites ∧
    Gen.CryptoTables.initialCipherSuite = Spec.initialCipherSuite ∧
    Gen.CryptoTables.ivLength = Spec.ivLength ∧
    Gen.CryptoTables.sampleSize = Spec.sampleSize ∧
    Gen.CryptoTables.retryTagSize = Spec.retryTagSize ∧
    Gen.CryptoTables.packetNumberMaxSize = Spec.packetNumberMaxSize ∧
    Gen.CryptoTables.version1 = Spec.version1 ∧ Gen.CryptoTables.version2 = Spec.version2 ∧
    Gen.CryptoTables.labelsV1 = Spec.labelsV1 ∧ Gen.CryptoTables.labelsV2 = Spec.labelsV2 ∧
    Gen.CryptoTables.clientInitialLabel = Spec.clientInitialLabel ∧
    Gen.CryptoTables.serverInitialLabel = Spec.serverInitialLabel ∧
    Gen.CryptoTables.initialSaltV1 = Spec.initialSaltV1 ∧ Gen.CryptoTables.initialSaltV2 = Spec.initialSaltV2 ∧
    Gen.CryptoTables.retryKeyV1 = Spec.retryKeyV1 ∧ Gen.CryptoTables.retryNonceV1 = Spec.retryNonceV1 ∧
    Gen.CryptoTables.retryKeyV2 = Spec.retryKeyV2 ∧ Gen.CryptoTables.retryNonceV2 = Spec.retryNonceV2 ∧
    Gen.CryptoTables.longTypesV1 = Spec.longTypesV1 ∧ Gen.CryptoTables.longTypesV2 = Spec.longTypesV2 ∧
    Gen.CryptoTables.headerFormBit = Spec.headerFormBit ∧ Gen.CryptoTables.fixedBit = Spec.fixedBit := by
  decide

/-! ## AEAD nonce -/

/-- **C02** "recovered bit-exactly … by an independent RFC 9001 implementation":
the C loop `nonce[11-i] ^= (uint8_t)(pn >> 8*i)`, i < 8, computes RFC 9001 §5.3's
nonce: the 12-byte iv XOR the packet number as a 96-bit big-endian integer —
for every iv of 12 bytes and every packet number (`beBytes n 12` IS that
encoding: `beNat (beBytes n 12) = n % 2^96`). -/
theorem nonce_spec (iv : Bytes) (pn : Nat) (h : iv.length = 12) :
    nonce iv pn = xorBytes iv (beBytes (u64 pn) 12) ∧
    (nonce iv pn).length = 12 ∧
    beNat (beBytes (u64 pn) 12) = u64 pn := by
  refine ⟨nonce_eq_xor iv pn h, by rw [length_nonce, h], ?_⟩
  rw [beNat_beBytes]
  apply Nat.mod_eq_of_lt
  unfold u64
  calc pn % 2 ^ 64 < 2 ^ 64 := Nat.mod_lt _ (by decide)
    _ ≤ 2 ^ (8 * 12) := Nat.pow_le_pow_right (by decide) (by decide)

/-- no nonce is used for two packet numbers: for a fixed iv the nonce is
injective in the packet number (pn < 2^64; QUIC packet numbers are < 2^62). -/
theorem nonce_injective (iv : Bytes) (pn1 pn2 : Nat) (h : iv.length = 12)
    (h1 : pn1 < 2 ^ 64) (h2 : pn2 < 2 ^ 64) (he : nonce iv pn1 = nonce iv pn2) : pn1 = pn2 :=
  nonce_inj iv pn1 pn2 h h1 h2 he

/-! ## header protection -/

/-- bounds under which `HeaderProtection_apply` does not raise (the checks that
exist in _crypto.c since the C04 fix): total ≤ 1500, `pn_offset ≥ 0`, sample
inside the payload; plus `hdr.length ≥ 1 + pnLen`, i.e. the first byte is not
itself a packet-number byte (true of every QUIC header). -/
def ApplyBounds (hdr payload : Bytes) : Prop :=
  pnLenOf (hdr.getD 0 0) + 1 ≤ hdr.length ∧
  hdr.length + payload.length ≤ 1500 ∧
  4 - pnLenOf (hdr.getD 0 0) + 16 ≤ payload.length

/-- the 16 sample bytes are not touched by `apply`: the receiver samples the
same bytes, hence computes the same mask -/
theorem hp_sample_untouched (maskOf : Bytes → Bytes) (hdr payload x : Bytes) (hb : ApplyBounds hdr payload)
    (hx : hpApply maskOf hdr payload = .ok x) :
    sampleOfPacket x (hdr.length - pnLenOf (hdr.getD 0 0)) = sampleOfPayload payload (pnLenOf (hdr.getD 0 0)) ∧
    x.drop hdr.length = payload ∧ x.length = hdr.length + payload.length := by
  obtain ⟨h1, h2, h3⟩ := hb
  cases hdr with
  | nil => simp at h1
  | cons b0 tl =>
    simp only [List.getD_cons_zero] at *
    rw [hpApply_eq maskOf b0 tl payload h2 (by omega) h3] at hx
    cases hx
    exact ⟨sample_applied _ _ _ _ h1 (pnLenOf_le b0).2, applied_drop _ _ _ _ (by omega) (by omega),
      length_applied _ _ _ _⟩

/-- **C02** "recovered bit-exactly by its peer … for every … packet-number length
and payload size": for every header (long or short: the first-byte mask 0x0f /
0x1f is chosen from the header-form bit, which the mask never touches), every
pn length 1..4 announced by the UNMASKED first byte, every payload within the
bounds and every mask function, `remove` at `pn_offset = len(header) − pnLen`
returns exactly the plain header and the big-endian value of its last `pnLen`
bytes. -/
theorem hp_roundtrip (maskOf : Bytes → Bytes) (hdr payload : Bytes) (hb : ApplyBounds hdr payload) :
    ∃ x, hpApply maskOf hdr payload = .ok x ∧
      hpRemove maskOf x (hdr.length - pnLenOf (hdr.getD 0 0)) =
        .ok (hdr, beNat (hdr.drop (hdr.length - pnLenOf (hdr.getD 0 0)))) := by
  obtain ⟨h1, h2, h3⟩ := hb
  cases hdr with
  | nil => simp at h1
  | cons b0 tl =>
    simp only [List.getD_cons_zero] at *
    obtain ⟨x, hx, -, hr⟩ := hp_roundtrip_cons maskOf b0 tl payload h1 h2 h3
    exact ⟨x, hx, hr⟩

/-- header protection loses nothing: two (header, payload) pairs with the same
packet-number offset that protect to the same bytes are equal. -/
theorem hp_apply_injective (maskOf : Bytes → Bytes) (hdr payload hdr' payload' x : Bytes)
    (hb : ApplyBounds hdr payload) (hb' : ApplyBounds hdr' payload')
    (hoff : hdr.length - pnLenOf (hdr.getD 0 0) = hdr'.length - pnLenOf (hdr'.getD 0 0))
    (hx : hpApply maskOf hdr payload = .ok x) (hx' : hpApply maskOf hdr' payload' = .ok x) :
    hdr = hdr' ∧ payload = payload' := by
  obtain ⟨y, hy, hr⟩ := hp_roundtrip maskOf hdr payload hb
  obtain ⟨y', hy', hr'⟩ := hp_roundtrip maskOf hdr' payload' hb'
  rw [hx] at hy; cases hy
  rw [hx'] at hy'; cases hy'
  rw [hoff, hr'] at hr
  simp only [Except.ok.injEq, Prod.mk.injEq] at hr
  have hh : hdr = hdr' := hr.1.symm
  refine ⟨hh, ?_⟩
  have d1 := (hp_sample_untouched maskOf hdr payload x hb hx).2.1
  have d2 := (hp_sample_untouched maskOf hdr' payload' x hb' hx').2.1
  rw [← d1, ← d2, hh]

/-! ## payload + header protection -/

/-- HYPOTHESIS on the cipher: decryption inverts encryption -/
def AeadCorrect (A : AEAD) : Prop := ∀ k n ad p, A.aeOpen k n ad (A.aeSeal k n ad p) = some p
/-- HYPOTHESIS on the cipher: the ciphertext is the plaintext plus a 16-byte tag -/
def SealLen (A : AEAD) : Prop := ∀ k n ad p, (A.aeSeal k n ad p).length = p.length + 16
/-- HYPOTHESIS on the cipher (idealised INT-CTXT): a ciphertext that opens under
    `key` was produced by `seal` under `key` by the key holder (`Sent`) for exactly
    this nonce, associated data and plaintext -/
def IntCtxt (A : AEAD) (Sent : Bytes → Bytes → Bytes → Bytes → Prop) : Prop :=
  ∀ key n ad ct p, A.aeOpen key n ad ct = some p → Sent key n ad p ∧ ct = A.aeSeal key n ad p

/-- `(first_byte & 4) >> 2` -/
def phaseBit (b : UInt8) : Nat := ((b &&& 4) >>> 2).toNat

/-- the keys `decrypt_packet` selects for a packet whose first byte is `b` -/
def usesNext (c : RecvCtx) (b : UInt8) : Bool := !isLong b && phaseBit b != c.keyPhase

/-- **C02** "Every protected packet an endpoint emits is recovered bit-exactly by
its peer … for every cipher suite, QUIC version, key phase, packet-number length
and payload size": for every cipher (`A` arbitrary, correct), every key material
(hence every suite and version: they only select `A` and the keys), every plain
header with pn length 1..4, every payload with 4 − pnLen ≤ |payload| and
|header| + |payload| + 16 ≤ 1500 (the bounds `AEAD_encrypt` / `HeaderProtection_apply`
check), every packet number and every receiver whose keys for the packet's key
phase are the sender's (current keys when the phase bit matches or the header
is long, the next-phase keys otherwise; the header-protection key is the
current one in both cases) and whose expected packet number puts `pn` inside
the window (`hwin`, discharged by `AQ.Props.C02.pn_roundtrip`):
`encrypt_packet` succeeds and `decrypt_packet` returns exactly the plain header,
the payload, the packet number and whether a key update was detected. -/
theorem protect_roundtrip (A : AEAD) (hA : AeadCorrect A) (hL : SealLen A)
    (k kr : Keys) (c : RecvCtx) (hdr plain : Bytes) (pn expected : Nat)
    (hcur : c.cur = some kr) (hhp : kr.hp = k.hp)
    (hkeys : if usesNext c (hdr.getD 0 0) then c.next.key = k.key ∧ c.next.iv = k.iv
             else kr.key = k.key ∧ kr.iv = k.iv)
    (h1 : pnLenOf (hdr.getD 0 0) + 1 ≤ hdr.length)
    (hmin : 4 - pnLenOf (hdr.getD 0 0) ≤ plain.length)
    (hmax : hdr.length + plain.length + 16 ≤ 1500)
    (hwin : Codec.decodePacketNumber (beNat (hdr.drop (hdr.length - pnLenOf (hdr.getD 0 0))))
              (pnLenOf (hdr.getD 0 0) * 8) expected = pn) :
    ∃ x, encryptPacket A k hdr plain pn = .ok x ∧
      decryptPacket A c x (hdr.length - pnLenOf (hdr.getD 0 0)) expected =
        .ok ⟨hdr, plain, pn, usesNext c (hdr.getD 0 0)⟩ := by
  have hsl := hL k.key (nonce k.iv pn) hdr plain
  have hb : ApplyBounds hdr (A.aeSeal k.key (nonce k.iv pn) hdr plain) := ⟨h1, by omega, by omega⟩
  obtain ⟨x, hx, hr⟩ := hp_roundtrip (A.maskOf k.hp) hdr _ hb
  have hd := (hp_sample_untouched (A.maskOf k.hp) hdr _ x hb hx).2.1
  refine ⟨x, ?_, ?_⟩
  · unfold encryptPacket aeadEncrypt
    have : ¬ plain.length > PACKET_LENGTH_MAX - AEAD_TAG_LENGTH := by
      simp only [PACKET_LENGTH_MAX, AEAD_TAG_LENGTH]; omega
    rw [if_neg this]
    exact hx
  · unfold decryptPacket
    simp only [hcur, hhp, hr, bind, Except.bind, pure, Except.pure]
    have hpl : (hdr.getD 0 0 &&& 3).toNat + 1 = pnLenOf (hdr.getD 0 0) := rfl
    rw [hpl, hwin, hd]
    unfold aeadDecrypt
    have hlen : ¬ ((A.aeSeal k.key (nonce k.iv pn) hdr plain).length < AEAD_TAG_LENGTH ∨
        (A.aeSeal k.key (nonce k.iv pn) hdr plain).length > PACKET_LENGTH_MAX) := by
      simp only [PACKET_LENGTH_MAX, AEAD_TAG_LENGTH]; omega
    rw [if_neg hlen]
    have hu : (!isLong (hdr.getD 0 0) && ((hdr.getD 0 0 &&& 4) >>> 2).toNat != c.keyPhase) = usesNext c (hdr.getD 0 0) := rfl
    rw [hu]
    cases hun : usesNext c (hdr.getD 0 0)
    · rw [hun] at hkeys
      simp only [Bool.false_eq_true, if_false] at hkeys ⊢
      rw [hkeys.1, hkeys.2, hA]
    · rw [hun] at hkeys
      simp only [if_true] at hkeys ⊢
      rw [hkeys.1, hkeys.2, hA]

/-- **C02**, the same with the header layout of packet_builder `_end_packet`
(header prefix ‖ packet number truncated to `pnLen` bytes; the builder uses
pnLen = 2, the theorem holds for 1..4) and the packet-number window of
`AQ.Props.C02.pn_roundtrip` in place of the decoding hypothesis: every packet
number within `expected − 2^(8·pnLen−1) < pn ≤ expected + 2^(8·pnLen−1)` comes back. -/
theorem protect_roundtrip_builder (A : AEAD) (hA : AeadCorrect A) (hL : SealLen A)
    (k kr : Keys) (c : RecvCtx) (p : Plain) (expected : Nat)
    (hcur : c.cur = some kr) (hhp : kr.hp = k.hp)
    (hkeys : if usesNext c (p.pre.getD 0 0) then c.next.key = k.key ∧ c.next.iv = k.iv
             else kr.key = k.key ∧ kr.iv = k.iv)
    (hpre : 1 ≤ p.pre.length) (hpl : pnLenOf (p.pre.getD 0 0) = p.pnLen)
    (hmin : 4 - p.pnLen ≤ p.payload.length)
    (hmax : p.pre.length + p.pnLen + p.payload.length + 16 ≤ 1500)
    (hpn : p.pn < 2 ^ 62)
    (hlo : expected < p.pn + 2 ^ (8 * p.pnLen - 1)) (hhi : p.pn ≤ expected + 2 ^ (8 * p.pnLen - 1)) :
    ∃ x, protect A k p = .ok x ∧
      decryptPacket A c x p.pre.length expected =
        .ok ⟨p.header, p.payload, p.pn, usesNext c (p.pre.getD 0 0)⟩ := by
  have hn1 : 1 ≤ p.pnLen := by rw [← hpl]; exact (pnLenOf_le _).1
  have hhead : p.header.getD 0 0 = p.pre.getD 0 0 := by
    unfold Plain.header
    cases hp : p.pre with
    | nil => simp [hp] at hpre
    | cons b tl => simp
  have hlen : p.header.length = p.pre.length + p.pnLen := by
    simp [Plain.header, length_beBytes]
  have hoff : p.header.length - pnLenOf (p.header.getD 0 0) = p.pre.length := by
    rw [hhead, hpl, hlen]; omega
  have hdrop : p.header.drop (p.header.length - pnLenOf (p.header.getD 0 0)) = beBytes p.pn p.pnLen := by
    rw [hoff]; simp [Plain.header]
  have hwin : Codec.decodePacketNumber (beNat (p.header.drop (p.header.length - pnLenOf (p.header.getD 0 0))))
      (pnLenOf (p.header.getD 0 0) * 8) expected = p.pn := by
    rw [hdrop, beNat_beBytes, hhead, hpl, Nat.mul_comm p.pnLen 8]
    exact C02.pn_roundtrip p.pn (8 * p.pnLen) expected (by omega) hpn hlo hhi
  have := protect_roundtrip A hA hL k kr c p.header p.payload p.pn expected hcur hhp
    (by rw [hhead]; exact hkeys) (by rw [hhead, hpl, hlen]; omega) (by rw [hhead, hpl]; exact hmin)
    (by rw [hlen]; omega) hwin
  rw [hoff, hhead] at this
  exact this

/-- what RFC 9001 §5.3/§5.4 prescribe, within the C helpers' limits, IS `encrypt_packet` -/
theorem encryptPacket_eq_spec (A : AEAD) (k : Keys) (hdr plain x : Bytes) (pn : Nat)
    (h : encryptPacket A k hdr plain pn = .ok x) : x = protectSpec A k hdr plain pn := by
  unfold encryptPacket aeadEncrypt at h
  split at h
  · cases h
  · simp only [bind, Except.bind] at h
    unfold hpApply at h
    cases hdr with
    | nil => cases h
    | cons b0 tl =>
      simp only [] at h
      split at h
      · cases h
      · split at h
        · cases h
        · cases h
          rfl

/-- **C02** "Only authentic packets are accepted": if `decrypt_packet` accepts the
bytes `x` (at any offset ≥ 1, with any expected packet number, in any key phase),
then `x` is, bit for bit, the protection of the returned (header, payload,
packet number) under the receiver's keys for that key phase — a packet the key
holder sealed (`Sent`).  Hence ANY alteration of a protected packet — header
bits, connection IDs, version, token, length, packet-number bytes, sample
bytes, ciphertext, tag — is rejected unless the result is itself a genuine
protected packet (a replay, which the duplicate discard handles).  Within the
C helpers' 1500-byte limit `x` is exactly what `encrypt_packet` returns. -/
theorem accepted_is_genuine (A : AEAD) (Sent : Bytes → Bytes → Bytes → Bytes → Prop) (hI : IntCtxt A Sent)
    (c : RecvCtx) (kr : Keys) (hcur : c.cur = some kr) (x : Bytes) (off expected : Nat) (d : Decrypted)
    (hoff : 1 ≤ off) (hd : decryptPacket A c x off expected = .ok d) :
    let k : Keys := if d.updateKey then { c.next with hp := kr.hp } else kr
    Sent k.key (nonce k.iv d.pn) d.hdr d.payload ∧
    x = protectSpec A k d.hdr d.payload d.pn ∧
    d.updateKey = usesNext c (d.hdr.getD 0 0) ∧
    (x.length ≤ 1500 → d.payload.length ≤ 1484 → encryptPacket A k d.hdr d.payload d.pn = .ok x) := by
  unfold decryptPacket at hd
  simp only [hcur, bind, Except.bind, pure, Except.pure] at hd
  cases hrm : hpRemove (A.maskOf kr.hp) x off with
  | error e => simp [hrm] at hd
  | ok r =>
    obtain ⟨hdr, t⟩ := r
    simp only [hrm] at hd
    generalize hk : (if (!isLong (hdr.getD 0 0) && ((hdr.getD 0 0 &&& 4) >>> 2).toNat != c.keyPhase) = true
        then ({ c.next with hp := kr.hp } : Keys) else kr) = k at hd
    generalize hpn : Codec.decodePacketNumber t (((hdr.getD 0 0) &&& 3).toNat + 1 |>.mul 8) expected = pn at hd
    have hinv := hpRemove_inv (A.maskOf kr.hp) x off hdr t hoff hrm
    simp only [] at hinv
    obtain ⟨ho, hxl, hhl, hxa, hsm, -⟩ := hinv
    cases had : aeadDecrypt A k (x.drop hdr.length) hdr pn with
    | error e => simp [had] at hd
    | ok pl =>
      simp only [had, Except.ok.injEq] at hd
      unfold aeadDecrypt at had
      by_cases hlen : (x.drop hdr.length).length < AEAD_TAG_LENGTH ∨ (x.drop hdr.length).length > PACKET_LENGTH_MAX
      · rw [if_pos hlen] at had; cases had
      · rw [if_neg hlen] at had
        cases hop : A.aeOpen k.key (nonce k.iv pn) hdr (x.drop hdr.length) with
        | none => simp [hop] at had
        | some pl' =>
        simp only [hop, Except.ok.injEq] at had
        subst had
        subst hd
        simp only []
        have hkhp : k.hp = kr.hp := by rw [← hk]; split <;> rfl
        obtain ⟨hsent, hct⟩ := hI _ _ _ _ _ hop
        have hkk : (if (!isLong (hdr.getD 0 0) && ((hdr.getD 0 0 &&& 4) >>> 2).toNat != c.keyPhase) = true
            then ({ c.next with hp := kr.hp } : Keys) else kr) = k := hk
        simp only [hkk]
        have hspec : x = protectSpec A k hdr pl' pn := by
          unfold protectSpec
          simp only [← hct, hkhp]
          have e1 : (hdr.getD 0 0 &&& 3).toNat + 1 = pnLenOf (hdr.getD 0 0) := rfl
          rw [e1, hsm]
          have e2 : hdr.length - pnLenOf (hdr.getD 0 0) = off := by omega
          have := hxa
          unfold applied at this
          rw [e2] at this ⊢
          exact this
        refine ⟨hsent, hspec, rfl, ?_⟩
        intro hx1500 hp1484
        unfold encryptPacket aeadEncrypt
        have c1 : ¬ pl'.length > PACKET_LENGTH_MAX - AEAD_TAG_LENGTH := by
          simp only [PACKET_LENGTH_MAX, AEAD_TAG_LENGTH]; omega
        rw [if_neg c1]
        simp only [bind, Except.bind, ← hct, hkhp]
        cases hdr with
        | nil => simp at hhl; omega
        | cons b0 tl =>
          have hdl : (x.drop (b0 :: tl).length).length = x.length - (b0 :: tl).length := List.length_drop
          simp only [List.getD_cons_zero] at hhl hsm hxa
          have hp4 := (pnLenOf_le b0).2
          have hp1 := (pnLenOf_le b0).1
          rw [hpApply_eq (A.maskOf kr.hp) b0 tl _ (by rw [hdl]; omega) (by omega) (by rw [hdl]; omega), hsm]
          exact congrArg Except.ok hxa.symm

/-- **C02** "A packet in which any bit was altered after protection is discarded":
bytes that are not the protection of something the key holder sealed — whatever
was altered, wherever — make `decrypt_packet` raise (CryptoError), in every key
phase. -/
theorem altered_is_rejected (A : AEAD) (Sent : Bytes → Bytes → Bytes → Bytes → Prop) (hI : IntCtxt A Sent)
    (c : RecvCtx) (kr : Keys) (hcur : c.cur = some kr) (x : Bytes) (off expected : Nat) (hoff : 1 ≤ off)
    (halt : ∀ (k : Keys) hdr payload pn, (k = kr ∨ k = { c.next with hp := kr.hp }) →
      Sent k.key (nonce k.iv pn) hdr payload → x ≠ protectSpec A k hdr payload pn) :
    ∃ e, decryptPacket A c x off expected = .error e := by
  cases hd : decryptPacket A c x off expected with
  | error e => exact ⟨e, rfl⟩
  | ok d =>
    exfalso
    have h := accepted_is_genuine A Sent hI c kr hcur x off expected d hoff hd
    simp only [] at h
    refine halt _ d.hdr d.payload d.pn ?_ h.1 h.2.1
    cases d.updateKey <;> simp

/-! ## Retry -/

/-- **C02** "(including a Retry)": a Retry that passes the comparison of
`_receive_retry_packet` is, bit for bit, its first |packet| − 16 bytes followed
by the integrity tag computed over the pseudo-packet (original DCID length ‖
original DCID ‖ those bytes) with the version's fixed key and nonce. -/
theorem retry_accepted_is_genuine (gcm : AEAD) (key nonce odcid packet : Bytes) (_h16 : 16 ≤ packet.length)
    (h : retryAccept gcm key nonce odcid packet = true) :
    packet = packet.take (packet.length - 16) ++
      retryTag gcm key nonce odcid (packet.take (packet.length - 16)) := by
  unfold retryAccept at h
  simp only [beq_iff_eq] at h
  rw [← h, List.take_append_drop]

/-- an altered Retry is not accepted: `body' ‖ tag'` differs from the genuine
`body ‖ tag(body)` in the body only or in the tag only (any single-bit or
single-byte alteration does).  HYPOTHESIS `hdet`: the tag of a different body is
different (for a single-byte difference this is the injectivity of
multiplication by the non-zero GHASH key). -/
theorem retry_altered_rejected (gcm : AEAD) (key nonce odcid body body' tag' : Bytes)
    (htl : tag'.length = 16)
    (hone : (body' = body ∧ tag' ≠ retryTag gcm key nonce odcid body) ∨
            (body' ≠ body ∧ tag' = retryTag gcm key nonce odcid body))
    (hdet : body' ≠ body → retryTag gcm key nonce odcid body' ≠ retryTag gcm key nonce odcid body) :
    retryAccept gcm key nonce odcid (body' ++ tag') = false := by
  unfold retryAccept
  have e : (body' ++ tag').length - 16 = body'.length := by simp [htl]
  simp only [e, List.take_left', List.drop_left', beq_eq_false_iff_ne, ne_eq]
  rcases hone with ⟨rfl, h2⟩ | ⟨h1, rfl⟩
  · exact h2
  · exact fun h => hdet h1 h.symm

/-! ## the receive path up to the decrypt decision -/

open AQ.RecvGate in
/-- **C02** "… is discarded without emitting events, advancing the handshake,
delivering data or closing the connection": when every packet of a datagram is
turned away (`Rejected`: header parse error, **CryptoError**, missing keys,
**bad Retry integrity tag**, unexpected / non-echoing Version Negotiation,
**duplicate**, …) `receive_datagram` leaves `rest` — event queue, TLS state,
streams, expected packet numbers, ack queues, close flags — the connection
state, the connection IDs, the retry count untouched; a server that has not
accepted anything yet merely re-creates its fresh TLS context / Initial keys
(`Same`).  Only the anti-amplification byte count and the first-datagram idle
deadline move (and a client missing keys may reschedule its crypto data once). -/
theorem drop_changes_nothing {σ : Type} (H : Handlers σ) (c : Conn σ) (n now : Nat) (pkts : List (Pkt σ))
    (hr : ∀ p ∈ pkts, Rejected H n c.core p) :
    let c' := receiveDatagram H c n now pkts
    Same c'.core c.core ∧ c'.core.rest = c.core.rest ∧ c'.core.state = c.core.state ∧
    c'.core.retryCount = c.core.retryCount ∧ c'.core.vnIncompatible = c.core.vnIncompatible ∧
    c'.core.peerCid = c.core.peerCid ∧
    (c.core.state.isEnd = true → c' = c) ∧
    (c.core.state.isEnd = false →
      c'.aux.bytesReceived = (if c.aux.pathValidated then c.aux.bytesReceived else c.aux.bytesReceived + n) ∧
      c'.aux.closeAt = (if c.aux.closeAt.isNone then some (now + c.aux.idleTimeout) else c.aux.closeAt)) := by
  intro c'
  have hsame : Same c'.core c.core := by
    cases he : c.core.state.isEnd with
    | true => simp only [c', receiveDatagram, he, if_true]; exact Same.refl _
    | false =>
      simp only [c']
      rw [receiveDatagram_eq H c n now pkts he]
      exact loop_rejected H n pkts c.core _ (Same.refl _) hr
  have f := same_fields hsame
  refine ⟨hsame, f.1, f.2.2.1, f.2.2.2.2.2.2.2.1, f.2.2.2.2.2.2.2.2.1, f.2.2.2.2.2.1, ?_, ?_⟩
  · intro he; simp only [c', receiveDatagram, he, if_true]
  · intro he
    simp only [c']
    rw [receiveDatagram_eq H c n now pkts he]
    have := loop_aux H n pkts { c with aux := armed c.aux n now }
    rw [this.1, this.2]
    unfold armed
    cases c.aux.pathValidated <;> cases hca : c.aux.closeAt <;> simp [hca]

open AQ.RecvGate in
/-- **C02** "… and the genuine packet is still accepted afterwards": whatever
datagram arrives next is processed exactly as if the dropped datagram had never
arrived — same verdict of every check, same handler calls on the same state,
same resulting connection (`Same`: a server still in its first flight may have
different leftovers of an `_initialize` that the next Initial overwrites). -/
theorem genuine_accepted_after_drop {σ : Type} (H : Handlers σ) (c : Conn σ) (n now : Nat) (dropped : List (Pkt σ))
    (hr : ∀ p ∈ dropped, Rejected H n c.core p) (n' now' : Nat) (next : List (Pkt σ)) :
    Same (receiveDatagram H (receiveDatagram H c n now dropped) n' now' next).core
         (receiveDatagram H c n' now' next).core := by
  have hd := drop_changes_nothing H c n now dropped hr
  simp only [] at hd
  obtain ⟨hsame, -, hst, -, -, -, hend, -⟩ := hd
  cases he : c.core.state.isEnd with
  | true => rw [hend he]; exact Same.refl _
  | false =>
    have he' : (receiveDatagram H c n now dropped).core.state.isEnd = false := by rw [hst]; exact he
    rw [receiveDatagram_eq H _ n' now' next he', receiveDatagram_eq H c n' now' next he]
    exact loop_same H n' next _ _ hsame

/-! ## the hypotheses are satisfiable, the bounds are sharp -/

/-- a toy cipher (identity "encryption", 16 zero bytes as tag, constant mask)
satisfying every hypothesis used above: the theorems are not vacuous -/
def toyAEAD : AEAD where
  aeSeal := fun _ _ _ p => p ++ List.replicate 16 0
  aeOpen := fun _ _ _ c => if c.drop (c.length - 16) = List.replicate 16 0 then some (c.take (c.length - 16)) else none
  maskOf := fun _ _ => [0xa5, 0x5a, 0xff, 0x01, 0x80]

example : AeadCorrect toyAEAD := by
  intro k n ad p
  simp [toyAEAD]
example : SealLen toyAEAD := by
  intro k n ad p
  simp [toyAEAD]
example : IntCtxt toyAEAD (fun _ _ _ _ => True) := by
  intro key n ad ct p h
  simp only [toyAEAD] at h ⊢
  split at h
  · rename_i hz
    cases h
    refine ⟨trivial, ?_⟩
    rw [← hz, List.take_append_drop]
  · cases h

/-- a concrete short-header packet with a 2-byte packet number goes through
`encrypt_packet` / `decrypt_packet` of the model -/
example :
    (encryptPacket toyAEAD ⟨[1], List.replicate 12 0, [2]⟩ [0x41, 9, 9, 0x01, 0x02] [7, 7, 7] 258).toOption.bind
      (fun x => (decryptPacket toyAEAD ⟨some ⟨[1], List.replicate 12 0, [2]⟩, 0, ⟨[3], [4], [5]⟩⟩ x 3 258).toOption)
      = some ⟨[0x41, 9, 9, 0x01, 0x02], [7, 7, 7], 258, false⟩ := by decide

/-- `ApplyBounds` is sharp on the sample side: one payload byte less and
`HeaderProtection_apply` raises "Invalid packet length" -/
example : hpApply (fun _ => [1, 2, 3, 4, 5]) [0x40, 9, 0x07] (List.replicate 18 0) = .error invalidPacketLength := by
  decide
example : ∃ x, hpApply (fun _ => [1, 2, 3, 4, 5]) [0x40, 9, 0x07] (List.replicate 19 0) = .ok x := ⟨_, rfl⟩

/-- without `hdr.length ≥ 1 + pnLen` (first byte = packet-number byte, not a
QUIC header) the round trip fails: the header-form bit itself gets masked -/
theorem hp_roundtrip_degenerate_counterexample :
    (hpApply (fun _ => [0x10, 0x80, 0, 0, 0]) [0x40] (List.replicate 19 0)).toOption.bind
      (fun x => (hpRemove (fun _ => [0x10, 0x80, 0, 0, 0]) x 0).toOption.map (·.1)) ≠ some [0x40] := by
  decide

open AQ.RecvGate in
/-- the gate model is not vacuous: a datagram whose only packet fails
authentication is `Rejected`, one that authenticates and is new is not -/
example : Rejected (σ := Unit) ⟨fun _ _ _ => false, fun c _ _ _ _ => (c, false), fun c _ => c, fun c _ => c⟩ 1200
    ⟨(), true, .connected, [[1]], [1], [2], [1], 0, false, none⟩
    ⟨some ⟨.oneRtt, none, [1], []⟩, fun _ => .cryptoError, fun _ => false⟩ := by
  simp [Rejected, preChecks]
open AQ.RecvGate in
example : ¬ Rejected (σ := Unit) ⟨fun _ _ _ => false, fun c _ _ _ _ => (c, false), fun c _ => c, fun c _ => c⟩ 1200
    ⟨(), true, .connected, [[1]], [1], [2], [1], 0, false, none⟩
    ⟨some ⟨.oneRtt, none, [1], []⟩, fun _ => .ok 5 [] [], fun _ => false⟩ := by
  simp [Rejected, preChecks]

/-! ## the expected packet number of a packet space -/

section PnSpace
open AQ.PnSpace

/-- `expected_packet_number` is the successor of the largest packet number that
    passed the gate — or that number itself when it arrived exactly as expected
    (`if packet_number > expected` is strict; 0 before anything was accepted). -/
def PnInv (s : St) : Prop :=
  match s.largest with
  | none => s.expected = 0
  | some L => L ≤ s.expected ∧ s.expected ≤ L + 1

theorem pn_step_inv (s : St) (e : Ev) (h : PnInv s) : PnInv (step s e) := by
  cases e with
  | dropped => exact h
  | accepted pn =>
    unfold PnInv at h ⊢
    cases hl : s.largest with
    | none =>
      simp only [hl] at h
      simp only [step, hl, h]
      split <;> omega
    | some L =>
      simp only [hl] at h
      simp only [step, hl, Nat.max_def]
      split <;> split <;> omega

/-- **C02** "a truncated packet number is always expanded to the candidate closest
to the NEXT EXPECTED number": after ANY sequence of received packets — in order,
late (below the largest), far ahead, duplicates, packets failing authentication
— the reference value handed to `decode_packet_number` is the largest accepted
packet number + 1 (or that number itself, see `PnInv`): it never drifts. -/
theorem expected_tracks_largest (evs : List Ev) : PnInv (run {} evs) := by
  have : ∀ (s : St), PnInv s → PnInv (run s evs) := by
    induction evs with
    | nil => intro s h; exact h
    | cons e es ih => intro s h; exact ih _ (pn_step_inv s e h)
  exact this {} rfl

/-- a packet that fails authentication (or is a duplicate, or is dropped
earlier) does not move the expected packet number -/
theorem dropped_keeps_expected (s : St) : step s .dropped = s := rfl

theorem largest_is_max_from (evs : List Ev) (pn : Nat) (s : St)
    (h : Ev.accepted pn ∈ evs ∨ ∃ l, s.largest = some l ∧ pn ≤ l) :
    ∃ L, (run s evs).largest = some L ∧ pn ≤ L := by
  induction evs generalizing s with
  | nil =>
    rcases h with h | h
    · cases h
    · exact h
  | cons e es ih =>
    apply ih (step s e)
    rcases h with h | ⟨l, hl, hle⟩
    · rcases List.mem_cons.1 h with rfl | h
      · right
        cases hs : s.largest with
        | none => exact ⟨pn, by simp [step, hs], Nat.le_refl _⟩
        | some l => exact ⟨max l pn, by simp [step, hs], Nat.le_max_right _ _⟩
      · exact Or.inl h
    · right
      cases e with
      | dropped => exact ⟨l, hl, hle⟩
      | accepted q => exact ⟨max l q, by simp [step, hl], Nat.le_trans hle (Nat.le_max_left _ _)⟩

/-- the ghost `largest` really is the maximum of the accepted packet numbers -/
theorem largest_is_max (evs : List Ev) (pn : Nat) (h : Ev.accepted pn ∈ evs) :
    ∃ L, (run {} evs).largest = some L ∧ pn ≤ L :=
  largest_is_max_from evs pn {} (Or.inl h)

/-- **C02** "Every protected packet an endpoint emits is recovered … by its peer
… and a truncated packet number is always expanded …": whatever was received
before (any history `evs`), a packet whose number lies in the window around the
largest accepted number `L` — `L + 1 − 2^(bits−1) < pn ≤ L + 2^(bits−1)`, which
contains every number an RFC 9000 §17.1 sender may encode in `bits` bits — is
expanded to exactly `pn` from its low `bits` bits with the connection's
`expected_packet_number` as reference. -/
theorem genuine_in_window_expands (evs : List Ev) (L bits pn : Nat)
    (hL : (run {} evs).largest = some L) (h1 : 1 ≤ bits) (hpn : pn < 2 ^ 62)
    (hlo : L + 1 < pn + 2 ^ (bits - 1)) (hhi : pn ≤ L + 2 ^ (bits - 1)) :
    Codec.decodePacketNumber (pn % 2 ^ bits) bits (run {} evs).expected = pn := by
  have inv := expected_tracks_largest evs
  unfold PnInv at inv
  simp only [hL] at inv
  exact C02.pn_roundtrip pn bits _ h1 hpn (by omega) (by omega)

/-- the same before anything was accepted in the space (`expected = 0`) -/
theorem first_packet_expands (evs : List Ev) (bits pn : Nat)
    (hL : (run {} evs).largest = none) (h1 : 1 ≤ bits) (hpn : pn < 2 ^ 62) (hhi : pn ≤ 2 ^ (bits - 1)) :
    Codec.decodePacketNumber (pn % 2 ^ bits) bits (run {} evs).expected = pn := by
  have inv := expected_tracks_largest evs
  unfold PnInv at inv
  simp only [hL] at inv
  rw [inv]
  have : 0 < 2 ^ (bits - 1) := Nat.two_pow_pos _
  exact C02.pn_roundtrip pn bits 0 h1 hpn (by omega) (by omega)

/-- the histories the seeded drift needs are covered: 200 late packets after a
forward jump leave `expected` at largest + 1 -/
example : (run {} (Ev.accepted 300 :: (List.range 200).map (fun i => Ev.accepted (100 + i)))).expected = 301 := by
  decide +kernel

end PnSpace

end AQ.Props.C02b

#print axioms AQ.Props.C02b.tables_match_rfc
#print axioms AQ.Props.C02b.nonce_spec
#print axioms AQ.Props.C02b.nonce_injective
#print axioms AQ.Props.C02b.hp_sample_untouched
#print axioms AQ.Props.C02b.hp_roundtrip
#print axioms AQ.Props.C02b.hp_apply_injective
#print axioms AQ.Props.C02b.protect_roundtrip
#print axioms AQ.Props.C02b.protect_roundtrip_builder
#print axioms AQ.Props.C02b.encryptPacket_eq_spec
#print axioms AQ.Props.C02b.accepted_is_genuine
#print axioms AQ.Props.C02b.altered_is_rejected
#print axioms AQ.Props.C02b.retry_accepted_is_genuine
#print axioms AQ.Props.C02b.retry_altered_rejected
#print axioms AQ.Props.C02b.drop_changes_nothing
#print axioms AQ.Props.C02b.genuine_accepted_after_drop
#print axioms AQ.Props.C02b.hp_roundtrip_degenerate_counterexample
#print axioms AQ.Props.C02b.expected_tracks_largest
#print axioms AQ.Props.C02b.dropped_keeps_expected
#print axioms AQ.Props.C02b.largest_is_max
#print axioms AQ.Props.C02b.genuine_in_window_expands
#print axioms AQ.Props.C02b.first_packet_expands
