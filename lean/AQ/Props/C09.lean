/-
  C09 — "A live connection always has a timer, and closing always terminates."

  Theorems about AQ.Model.CloseTimer (connection.py with fixes/C09-*.diff
  applied, C16 close-reason fix assumed), for EVERY time arithmetic `A`, every
  role, and every sequence of public API calls `ops` that respects the
  documented usage `Usage` (a client is fed no datagram before connect()).
  `Conn.init c` is a fresh QuicConnection (c = is_client).
-/
import AQ.Proofs.CloseTimer

namespace AQ.Props.C09
open AQ AQ.Recovery AQ.CloseTimer

variable {T : Type}

/-- "From the first datagram or connect call until termination is reported, the
    connection always names a finite next timer deadline": the close deadline
    `_close_at` is armed in every reachable live state. -/
theorem active_has_deadline (A : FArith T) (c : Bool) (ops : List (Op T))
    (hu : Usage A (Conn.init c) ops) :
    (run A (Conn.init c) ops).started = true →
    (run A (Conn.init c) ops).state ≠ .terminated →
    (run A (Conn.init c) ops).closeAt.isSome = true := by
  intro hs ht
  exact (inv_run A ops (inv_init c) hu).live ht (Or.inl hs)

/-- "... names a finite next timer deadline, so it can never wait forever":
    in every reachable live state `get_timer()` returns a value (it is total in
    the model: no `None < float` comparison is ever evaluated), and that value
    is not later than the close/idle deadline, whatever the ack / loss / pacing
    deadlines are. -/
theorem timer_defined (A : FArith T) (L : OrdLaws A) (c : Bool) (ops : List (Op T))
    (hu : Usage A (Conn.init c) ops)
    (hs : (run A (Conn.init c) ops).started = true)
    (ht : (run A (Conn.init c) ops).state ≠ .terminated)
    (acks : List (Option T)) (loss pacing : Option T) :
    ∃ t d, (getTimer A (run A (Conn.init c) ops) acks loss pacing).2 = some t ∧
      (run A (Conn.init c) ops).closeAt = some d ∧ A.le t d = true := by
  have h := active_has_deadline A c ops hu hs ht
  obtain ⟨d, hd⟩ := Option.isSome_iff_exists.mp h
  obtain ⟨t, h1, h2⟩ := getTimer_spec A L _ d hd acks loss pacing
  exact ⟨t, d, h1, hd, h2⟩

/-- `get_timer()` is None exactly when no deadline is armed, i.e. (by
    `active_has_deadline`) only before the start or after termination. -/
theorem timer_none_iff (A : FArith T) (s : Conn T) (acks : List (Option T)) (loss pacing : Option T) :
    (getTimer A s acks loss pacing).2 = none ↔ s.closeAt = none :=
  getTimer_none_iff A s acks loss pacing

/-- "it reports termination exactly once ... and delivers no stream data or
    other events after the termination event": over any op sequence at most one
    ConnectionTerminated is ever appended to the event queue, it is there iff
    the state is TERMINATED, it carries a real event (never `None`), nothing is
    appended after it, and the queue read by next_event() is the unread tail of
    that log. -/
theorem terminated_once (A : FArith T) (c : Bool) (ops : List (Op T))
    (hu : Usage A (Conn.init c) ops) :
    let s := run A (Conn.init c) ops
    termCount s.log ≤ 1 ∧
    (termCount s.log = 1 ↔ s.state = .terminated) ∧
    (∀ pre post x, s.log = pre ++ [Ev.terminated x] ++ post → post = [] ∧ x.isSome = true) ∧
    (∃ p, s.log = p ++ s.events) := by
  have h := inv_run A ops (inv_init c) hu
  refine ⟨termCount_le_one h, termCount_eq_one_iff h, ?_, h.queue⟩
  intro pre post x hl
  have hp := nothing_after_term h pre post x hl
  refine ⟨hp, ?_⟩
  subst hp
  have ht : (run A (Conn.init c) ops).state = .terminated := by
    apply (termCount_eq_one_iff h).mp
    have h1 := termCount_le_one h
    have : 1 ≤ termCount (run A (Conn.init c) ops).log := by rw [hl]; simp
    omega
  obtain ⟨l, e, hl2, _⟩ := h.logTerm ht
  rw [hl2] at hl
  have hx : l = pre ∧ some e = x := by simpa using hl
  rw [← hx.2]; rfl

/-- "... no events after the termination event": once TERMINATED, no later API
    call (in any order, with any arguments) changes the state or appends
    anything to the event log. -/
theorem terminated_is_final (A : FArith T) (c : Bool) (ops more : List (Op T))
    (hu : Usage A (Conn.init c) ops)
    (ht : (run A (Conn.init c) ops).state = .terminated) :
    (run A (run A (Conn.init c) ops) more).state = .terminated ∧
    (run A (run A (Conn.init c) ops) more).log = (run A (Conn.init c) ops).log :=
  run_terminated A more (inv_run A ops (inv_init c) hu) ht

/-- "sends at most its closing packets": in CLOSING / DRAINING / TERMINATED
    datagrams_to_send returns nothing and changes nothing; a call that builds
    closing packets builds nothing else, builds at most one per packet number
    space with send keys (≤ 3) and enters CLOSING; over any op sequence the close
    branch runs in at most one datagrams_to_send call. -/
theorem closing_packets_only (A : FArith T) (c : Bool) (ops : List (Op T))
    (hu : Usage A (Conn.init c) ops) (now : T) (i : SendIn T) :
    let s := run A (Conn.init c) ops
    (s.state.isEnd = true → datagramsToSend A s now i = (s, {})) ∧
    ((datagramsToSend A s now i).2.closing ≠ 0 →
        (datagramsToSend A s now i).2.data = 0 ∧ (datagramsToSend A s now i).2.closing ≤ 3 ∧
        (datagramsToSend A s now i).1.state = .closing ∧ s.closeBuilds = 0) ∧
    s.closeBuilds ≤ 1 ∧ s.closePkts ≤ 3 := by
  have h := inv_run A ops (inv_init c) hu
  refine ⟨?_, ?_, ?_, ?_⟩
  · intro he; simp [datagramsToSend, he]
  · intro hc
    unfold datagramsToSend at hc ⊢
    split at hc
    · simp at hc
    · rename_i hl
      split at hc
      · simp at hc
      · split at hc
        · rename_i hp hpend
          simp only [hl, hp, hpend, if_true, if_false]
          refine ⟨rfl, Nat.le_trans (Nat.min_le_right _ _) (closePacketCount_le i), by simp [closeBegin], ?_⟩
          rcases h.builds with b | ⟨_, b2, _⟩
          · exact b.1
          · simp [b2] at hl
        · simp at hc
  · rcases h.builds with b | ⟨b1, _, _⟩ <;> omega
  · rcases h.builds with b | ⟨_, _, b3⟩ <;> omega

/-- "After a local close [or] a fatal error ... within three probe timeouts of
    starting to close": close() / a fatal error leave `_close_pending` set; the
    next datagrams_to_send (with a network path) enters CLOSING and sets the
    deadline to exactly `now + 3 * PTO`. -/
theorem local_close_starts_closing (A : FArith T) (s : Conn T) (now : T) (i : SendIn T)
    (hl : s.state.isEnd = false) (hp : s.hasPath = true) (hc : s.closePending = true) :
    (datagramsToSend A s now i).1.state = .closing ∧
    (datagramsToSend A s now i).1.closeAt = some (A.add now (A.mul (A.ofNat 3) i.pto)) ∧
    (datagramsToSend A s now i).1.closePending = false := by
  simp [datagramsToSend, hl, hp, hc, closeBegin]

/-- "After ... a peer close": a CONNECTION_CLOSE frame handled while no close
    event exists enters DRAINING with the deadline `now + 3 * PTO` and records
    the peer's error as the event to report. -/
theorem peer_close_starts_draining (A : FArith T) (s : Conn T) (e : CloseEv) (now pto : T)
    (hn : s.closeEvent = none) :
    (handleCloseFrame A s e now pto).state = .draining ∧
    (handleCloseFrame A s e now pto).closeAt = some (A.add now (A.mul (A.ofNat 3) pto)) ∧
    (handleCloseFrame A s e now pto).closeEvent = some e := by
  simp [handleCloseFrame, hn, closeBegin]

/-- "closing always terminates ... within three probe timeouts of starting to
    close": from a reachable CLOSING / DRAINING state with deadline `d`, no API
    call moves the deadline or leaves the END states, and ANY continuation that
    contains a `handle_timer(now)` with `now >= d` ends TERMINATED with exactly
    the recorded close event appended. -/
theorem closing_terminates (A : FArith T) (c : Bool) (ops : List (Op T))
    (hu : Usage A (Conn.init c) ops)
    (he : (run A (Conn.init c) ops).state.isEnd = true) (d : T)
    (hd : (run A (Conn.init c) ops).closeAt = some d)
    (more : List (Op T)) (now : T) (hin : Op.fire now ∈ more) (hdue : A.le d now = true) :
    (run A (run A (Conn.init c) ops) more).state = .terminated ∧
    ∃ e, (run A (Conn.init c) ops).closeEvent = some e ∧
      (run A (run A (Conn.init c) ops) more).log =
        (run A (Conn.init c) ops).log ++ [Ev.terminated (some e)] := by
  have h0 := inv_run A ops (inv_init c) hu
  obtain ⟨e, hev⟩ := Option.isSome_iff_exists.mp (h0.evEnd he)
  have := closing_run A more h0 he d hd e hev now hin hdue
  exact ⟨this.1, e, hev, this.2⟩

/-- "... or an idle period of the negotiated length ... (or at the idle
    deadline)": with no close in progress, `handle_timer(now)` at/after the
    armed deadline terminates the connection and reports the idle-timeout
    event (INTERNAL_ERROR, "Idle timeout"). -/
theorem idle_terminates (A : FArith T) (s : Conn T) (d now : T)
    (hd : s.closeAt = some d) (hn : s.closeEvent = none) (hdue : A.le d now = true) :
    (handleTimer A s now).state = .terminated ∧
    (handleTimer A s now).closeAt = none ∧
    (handleTimer A s now).log = s.log ++ [Ev.terminated (some idleEv)] := by
  have := handleTimer_due A s d now hd hdue
  simpa [hn] using this

/-- "an idle period of the negotiated length": in a reachable live state the
    idle deadline `d` is moved only by connect() and by accepted packets.
    close(), get_timer(), next_event(), a timer firing before `d`, a
    datagrams_to_send, and a datagram all of whose packets are dropped / an
    ignored Version Negotiation / an invalid Retry / reserved-bits / a payload
    whose handling raised, leave it at `d` (or start closing / terminate). -/
theorem idle_deadline_stable (A : FArith T) (c : Bool) (ops : List (Op T))
    (hu : Usage A (Conn.init c) ops)
    (hl : (run A (Conn.init c) ops).state.isEnd = false) (d : T)
    (hd : (run A (Conn.init c) ops).closeAt = some d) (op : Op T)
    (husage : op.usageOk (run A (Conn.init c) ops)) (hop : op.passive) :
    (step A (run A (Conn.init c) ops) op).closeAt = some d ∨
    (step A (run A (Conn.init c) ops) op).state.isEnd = true :=
  step_passive A (inv_run A ops (inv_init c) hu) hl d hd op husage hop

/-- "... or an idle period of the negotiated length, it reports termination
    ... at the idle deadline" over whole sequences: from a reachable live state
    with idle deadline `d`, over ANY continuation in which nothing is accepted
    from the peer (`AllPassive`: no connect(), every received packet inert —
    arbitrary get_timer / handle_timer / datagrams_to_send / close / next_event
    calls, i.e. however often the ack / loss / pacing timers fire), once a
    `handle_timer(now)` with `now >= d` has run the connection is TERMINATED or
    in its closing period (which `closing_terminates` bounds by 3 PTO); repeated
    timer firings cannot postpone this. -/
theorem idle_run_terminates (A : FArith T) (c : Bool) (ops more : List (Op T))
    (hu : Usage A (Conn.init c) (ops ++ more))
    (hl : (run A (Conn.init c) ops).state.isEnd = false) (d : T)
    (hd : (run A (Conn.init c) ops).closeAt = some d) (hp : AllPassive more)
    (now : T) (hin : Op.fire now ∈ more) (hdue : A.le d now = true) :
    (run A (run A (Conn.init c) ops) more).state.isEnd = true := by
  have hu' := (usage_append A ops more _).mp hu
  exact passive_run_due A more (inv_run A ops (inv_init c) hu'.1) hl d hd hu'.2 hp now hin hdue

/-- "... always names a finite next timer deadline" during an idle period: over
    any passive continuation the connection either has started closing /
    terminated, or its deadline is still exactly `d` and `get_timer()` returns a
    value not later than `d` — so a caller that sleeps until `get_timer()` always
    fires at or before the idle deadline. -/
theorem idle_timer_bounded (A : FArith T) (L : OrdLaws A) (c : Bool) (ops more : List (Op T))
    (hu : Usage A (Conn.init c) (ops ++ more))
    (hl : (run A (Conn.init c) ops).state.isEnd = false) (d : T)
    (hd : (run A (Conn.init c) ops).closeAt = some d) (hp : AllPassive more)
    (acks : List (Option T)) (loss pacing : Option T) :
    (run A (run A (Conn.init c) ops) more).state.isEnd = true ∨
    ((run A (run A (Conn.init c) ops) more).closeAt = some d ∧
      ∃ t, (getTimer A (run A (run A (Conn.init c) ops) more) acks loss pacing).2 = some t ∧
        A.le t d = true) := by
  have hu' := (usage_append A ops more _).mp hu
  rcases passive_run A more (inv_run A ops (inv_init c) hu'.1) hl d hd hu'.2 hp with h1 | ⟨_, h2⟩
  · exact Or.inl h1
  · exact Or.inr ⟨h2, getTimer_spec A L _ d h2 acks loss pacing⟩

/-! ### the hypotheses are satisfiable, the conclusions are not vacuous -/

/-- integer time: an arithmetic satisfying `OrdLaws` -/
def natArith : FArith Nat where
  add := (· + ·)
  sub := (· - ·)
  mul := (· * ·)
  div := (· / ·)
  pow := (· ^ ·)
  neg := id
  abs := id
  lt := fun a b => decide (a < b)
  le := fun a b => decide (a ≤ b)
  eq := fun a b => decide (a = b)
  ofNat := id
  ofInt := Int.toNat
  toInt := Int.ofNat
  inf := 0

example : OrdLaws natArith :=
  ⟨fun a b h => by simp [natArith] at *; omega, fun a => by simp [natArith],
   fun a b c h1 h2 => by simp [natArith] at *; omega⟩

/-- a client that connects, closes, sends its closing packet at t=1 with PTO=2
    and whose timer fires at 1 + 3*2 = 7 -/
def demoOps : List (Op Nat) :=
  [.connect 0 60, .close ⟨0, none, "bye"⟩, .send 1 ⟨false, true, false, false, 2, 1, 1, 0⟩, .fire 7, .next]

example : Usage natArith (Conn.init true) demoOps := ⟨trivial, trivial, trivial, trivial, trivial, trivial⟩
example : (run natArith (Conn.init true) (demoOps.take 3)).state = .closing := by decide
example : (run natArith (Conn.init true) (demoOps.take 3)).closeAt = some 7 := by decide
example : (run natArith (Conn.init true) demoOps).state = .terminated := by decide
example : termCount (run natArith (Conn.init true) demoOps).log = 1 := by decide

/-- a server that hears one processed packet at t=5 (idle 30) and then nothing -/
def demoIdle : List (Op Nat) :=
  [.rx 5 30 [.payload 1 none 0 0 none 30], .timer [none] (some 6) none, .fire 35]

example : Usage natArith (Conn.init false) demoIdle := ⟨(fun h => nomatch h), trivial, trivial, trivial⟩
example : (run natArith (Conn.init false) (demoIdle.take 2)).closeAt = some 35 := by decide
example : (getTimer natArith (run natArith (Conn.init false) (demoIdle.take 1)) [none] (some 6) none).2 = some 6 := by
  decide
example : (run natArith (Conn.init false) demoIdle).log = [.other, .terminated (some idleEv)] := by decide
example : AllPassive (demoIdle.drop 1) := ⟨trivial, trivial, trivial⟩
example : Usage natArith (Conn.init false) (demoIdle.take 1 ++ demoIdle.drop 1) :=
  ⟨(fun h => nomatch h), trivial, trivial, trivial⟩

end AQ.Props.C09

#print axioms AQ.Props.C09.active_has_deadline
#print axioms AQ.Props.C09.timer_defined
#print axioms AQ.Props.C09.timer_none_iff
#print axioms AQ.Props.C09.terminated_once
#print axioms AQ.Props.C09.terminated_is_final
#print axioms AQ.Props.C09.closing_packets_only
#print axioms AQ.Props.C09.local_close_starts_closing
#print axioms AQ.Props.C09.peer_close_starts_draining
#print axioms AQ.Props.C09.closing_terminates
#print axioms AQ.Props.C09.idle_terminates
#print axioms AQ.Props.C09.idle_deadline_stable
#print axioms AQ.Props.C09.idle_run_terminates
#print axioms AQ.Props.C09.idle_timer_bounded
