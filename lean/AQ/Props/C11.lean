import AQ.Proofs.TlsFlight
/-
  C11 — TLS handshake messages are accepted only in protocol order.

  All theorems are about the machine REGENERATED from src/aioquic/tls.py
  (`AQ.Gen.Tls`: dispatch table + handler action lists) under the interpreter of
  `AQ.Model.TlsMachine`, for ALL message sequences and ALL environments (parser /
  negotiation / verification results, truth of every `if` test).  The RFC side
  (`AQ.Model.TlsSpec`) is written from RFC 8446 / RFC 9001.
-/
namespace AQ.Props.C11
open AQ.Gen.Tls AQ.Tls AQ.TlsSpec

/-- "In every handshake state, only the message types TLS 1.3 permits next are
    processed": for all 13 states and every handshake type, a type that has a
    handler is one the RFC automaton allows in that state. -/
theorem accepts_subset_rfc : ∀ s t f, dispatch s t = some f → rfcAllows s t = true := by
  intro s t; cases s <;> cases t <;> decide

/-- ... and conversely every type the RFC (with the QUIC restrictions) allows has
    a handler: the accepted set EQUALS the RFC table in every state. -/
theorem accepts_eq_rfc : ∀ s t, (dispatch s t).isSome = rfcAllows s t := by
  intro s t; cases s <;> cases t <;> decide

/-- "any other type is refused with an unexpected-message alert without changing
    state or installing keys": when the table has no handler, processing raises
    AlertUnexpectedMessage and the configuration (state, attributes, log of
    performed actions, hence released keys and transcript) is unchanged; and
    nothing at all runs before the dispatch. -/
theorem refusal_is_clean (env : Env) (c : Cfg) (t : HT) (hs : c.st ≠ startState)
    (h : dispatch c.st t = none) :
    stepMsg env c t = (c, .raised (.alert .AlertUnexpectedMessage)) ∧ preDispatchActions = [] := by
  constructor
  · simp [stepMsg, handlerFor, hs, h, unexpectedAlert]
  · rfl

/-- in the start state the input is not looked at: the hello sender runs whatever the type -/
theorem start_ignores_input (t : HT) : handlerFor startState t = some startFn := by
  simp [handlerFor]

/-- "a client never accepts Finished without a verified CertificateVerify unless
    it offered, and the server selected, a pre-shared key" — for ALL message
    sequences fed to a fresh client (exceptions do not stop the feeding): if the
    client ends in CLIENT_POST_HANDSHAKE then a Finished was verified, and before
    it either the CertificateVerify signature was verified or the resumption flag
    is set, in which case the client hello had offered a PSK. -/
theorem no_skip_client (l : List (HT × Env)) (hc : Consistent initClient l)
    (h : (run initClient l).st = .CLIENT_POST_HANDSHAKE) :
    ∃ pre a post, (run initClient l).log = pre ++ .verifyFinished a :: post ∧
      (.verifySig ∈ pre ∨
        ((run initClient l).attr .session_resumed = .true ∧ PskOffered (run initClient l).log)) := by
  have hi := clientInv_run initClient l clientInv_init hc
  rcases hi.post h with ⟨pre, a, post, h1, h2⟩
  refine ⟨pre, a, post, h1, ?_⟩
  rcases h2 with h2 | h2
  · exact Or.inl h2
  · exact Or.inr ⟨h2, hi.resumed h2⟩

/-- the resumption flag is set by the ServerHello handler only, and only when the
    ServerHello carries `pre_shared_key` (test `ch_psk_selected`) and the
    rejection test is false, i.e. NOT (`_key_schedule_psk is None` [no PSK offered]
    or selected identity != 0 or cipher suite != the ticket's). -/
theorem resumed_only_under_psk (env : Env) (s : St) (t : HT) (f : Fn) (v : AVal)
    (hs : isClientState s = true) (hf : handlerFor s t = some f)
    (h : Act.setAttr .session_resumed v ∈ (exec env (flat f)).1) :
    f = .client_handle_hello ∧ v = .true ∧
      env.test .ch_psk_selected = true ∧ env.test .ch_psk_reject = false := by
  rcases exec_mem env (flat f) _ h with ⟨x, hx, ha, hc⟩
  rcases resumed_sources f s t hs hf x hx v ha with ⟨hf1, hcond⟩
  have hv := resumed_vals f x hx v ha
  subst hf1; subst hv
  have hsel := condHolds_single env x _ _ hcond hc
  refine ⟨rfl, rfl, hsel, ?_⟩
  cases hrj : env.test .ch_psk_reject with
  | false => rfl
  | true =>
    have := blocked_sound _ _ _ env _ hello_blocked hsel hrj _ h
    simp at this

/-- the names used above denote exactly these source conditions of tls.py -/
theorem test_texts :
    testText .ch_psk_selected = "peer_hello.pre_shared_key is not None" ∧
    testText .ch_psk_reject = "self._key_schedule_psk is None or peer_hello.pre_shared_key != 0 or cipher_suite != self._key_schedule_psk.cipher_suite" ∧
    testText .ee_resumed = "self._session_resumed" ∧
    testText .cv_verify_required = "self._verify_mode != ssl.CERT_NONE" ∧
    testText .fin_cert_requested = "self._certificate_request is not None" := by
  refine ⟨rfl, rfl, rfl, rfl, rfl⟩

/-- server: SERVER_POST_HANDSHAKE is reached only after the client Finished verified -/
theorem no_skip_server (l : List (HT × Env)) (h : (run initServer l).st = .SERVER_POST_HANDSHAKE) :
    ∃ a, .verifyFinished a ∈ (run initServer l).log :=
  serverInv_run initServer l (by intro h; simp [initServer] at h) h

/-- "No ordering, omission or repetition of the server's flight other than the
    legal one lets a client finish, even when the sender knows all keys and
    recomputes every MAC": whatever the verification results (so also when every
    MAC and signature verifies), a client waiting for EncryptedExtensions that
    processes a message sequence without exception and ends completed has
    received exactly a legal flight of RFC 8446 (then only session tickets).  Every
    other sequence — any permutation, sub-multiset or repetition — hits a Raise
    or does not complete. -/
theorem illegal_flight_raises (c c' : Cfg) (l : List (HT × Env))
    (hs : c.st = .CLIENT_EXPECT_ENCRYPTED_EXTENSIONS) (hc : Consistent c l)
    (h : runStrict c l = (c', .done)) (hp : c'.st = .CLIENT_POST_HANDSHAKE) :
    ∃ fl ∈ legalServerFlight (c.attr .session_resumed == .true), ∃ n,
      l.map (·.1) = fl ++ List.replicate n .NEW_SESSION_TICKET := by
  have := client_run_rfc c c' l (by rw [hs]; rfl) hc h
  rw [hs, hp] at this
  exact path_legal _ _ this

/-- message by message: after ServerHello an accepted message moves the client
    exactly as RFC 8446 Appendix A.1 prescribes -/
theorem client_follows_rfc (env : Env) (c c' : Cfg) (t : HT) (hs : afterServerHello c.st = true)
    (he : EnvOK c env) (h : stepMsg env c t = (c', .done)) :
    clientNext (c.attr .session_resumed == .true) c.st t = some c'.st :=
  (client_step_rfc env c c' t hs he h).1

/-- role of each handler -/
def roleClient (f : Fn) : Bool := clientFn f

theorem key_dom : ∀ f : Fn, ∀ d e,
    domC (keyGuard (roleClient f) d e) (fun a => a == .releaseKey d e) [] (flat f) = true := by
  intro f d e; cases f <;> cases d <;> cases e <;> decide

/-- "Traffic keys for an epoch are released only after the messages that
    authenticate them were verified": in every run of every handler, each
    release of the (direction, epoch) secret is preceded, in the same run, by the
    action RFC 8446 requires first (`keyGuard`): the (EC)DHE extraction after the
    peer hello for handshake secrets, the verified peer Finished for the
    client's 1-RTT secrets and the server's 1-RTT read secret, the server's own
    Finished for its 1-RTT write secret, the verified binder for the server's
    0-RTT read secret; a secret with no entry in the table is never released. -/
theorem keys_after_auth (env : Env) (f : Fn) (d : Dir) (e : Epoch) :
    GuardedIn (keyGuard (roleClient f) d e) (fun a => a == .releaseKey d e) (exec env (flat f)).1 :=
  domC_sound _ _ env _ (key_dom f d e)

/-- ... and across handlers, for all message sequences fed to a fresh client:
    every 1-RTT secret in the log was released after a verified Finished and
    after a verified CertificateVerify (or with an accepted PSK). -/
theorem client_app_keys_authenticated (l : List (HT × Env)) (hc : Consistent initClient l)
    (pre post : List Act) (d : Dir)
    (h : (run initClient l).log = pre ++ .releaseKey d .ONE_RTT :: post) :
    (∃ a, .verifyFinished a ∈ pre) ∧
      (.verifySig ∈ pre ∨ (run initClient l).attr .session_resumed = .true) :=
  keyInv_run initClient l clientInv_init (by intro pre d post h; simp [initClient] at h) hc pre d post h

/-- `VerifySig` really verifies: the signature check function raises unless the
    algorithm was advertised and the cryptographic verification over
    `certificate_verify_data(<peer context string>)` ran without InvalidSignature
    (the `except` test false). -/
theorem verifySig_checks (env : Env)
    (h : (exec env (flat .check_certificate_verify_signature)).2 = .done) :
    Act.cryptoVerify .peer ∈ (exec env (flat .check_certificate_verify_signature)).1 ∧
      env.test .check_certificate_verify_signature_exc0 = false := by
  have hP := execU_done env (enabled env (flat .check_certificate_verify_signature))
    (by
      intro s hs
      have := (enabled_sublist env _).subset hs
      have h2 := List.all_eq_true.mp (noRet_all .check_certificate_verify_signature) s this
      simpa using h2) h
  unfold exec at h ⊢
  constructor
  · rw [hP]
    have : ∀ s ∈ flat .check_certificate_verify_signature, s.act = .cryptoVerify .peer → s.cond = [] := by decide
    have hm : ∃ s ∈ flat .check_certificate_verify_signature, s.act = .cryptoVerify .peer := by decide
    rcases hm with ⟨s, hs, ha⟩
    refine List.mem_map.mpr ⟨s, ?_, ha⟩
    unfold enabled
    exact List.mem_filter.mpr ⟨hs, condHolds_nil env s (by simp [this s hs ha])⟩
  · -- a true `except` test enables the `raise` of the handler, which cannot be `done`
    cases ht : env.test .check_certificate_verify_signature_exc0 with
    | false => rfl
    | true =>
      exfalso
      have hraise : ∃ s ∈ flat .check_certificate_verify_signature, isRaise s.act = true ∧
          s.cond = [(.check_certificate_verify_signature_exc0, true)] := by decide
      rcases hraise with ⟨s, hs, hr, hc⟩
      have hen : s ∈ enabled env (flat .check_certificate_verify_signature) := by
        unfold enabled
        exact List.mem_filter.mpr ⟨hs, by simp [condHolds, hc, ht]⟩
      have : s.act ∈ (execU env (enabled env (flat .check_certificate_verify_signature))).1 := by
        rw [hP]; exact List.mem_map.mpr ⟨s, hen, rfl⟩
      have := performed_not_raise env _ _ this
      cases hsa : s.act <;> simp [hsa, isRaise] at hr
      exact this _ hsa

/-! ### the hypotheses are satisfiable: the legal flights do complete -/

/-- all checks pass, certificate path -/
def okEnv (resumed : Bool) : Env :=
  { test := fun t => match t with
      | .ee_resumed => resumed
      | .ch_psk_selected => resumed
      | .cv_verify_required => true
      | _ => false,
    fails := fun _ => none }

example : (runStrict ⟨.CLIENT_EXPECT_ENCRYPTED_EXTENSIONS, initAttr, []⟩
    [(.ENCRYPTED_EXTENSIONS, okEnv false), (.CERTIFICATE, okEnv false), (.CERTIFICATE_VERIFY, okEnv false),
     (.FINISHED, okEnv false)]).1.st = .CLIENT_POST_HANDSHAKE := by decide

example : (runStrict ⟨.CLIENT_EXPECT_ENCRYPTED_EXTENSIONS, initAttr, []⟩
    [(.ENCRYPTED_EXTENSIONS, okEnv false), (.FINISHED, okEnv false)]).2
      = .raised (.alert .AlertUnexpectedMessage) := by decide

example : (run initClient [(.unknown, okEnv false), (.SERVER_HELLO, okEnv false),
    (.ENCRYPTED_EXTENSIONS, okEnv false), (.CERTIFICATE, okEnv false), (.CERTIFICATE_VERIFY, okEnv false),
    (.FINISHED, okEnv false)]).st = .CLIENT_POST_HANDSHAKE := by decide

end AQ.Props.C11

#print axioms AQ.Props.C11.accepts_subset_rfc
#print axioms AQ.Props.C11.accepts_eq_rfc
#print axioms AQ.Props.C11.refusal_is_clean
#print axioms AQ.Props.C11.no_skip_client
#print axioms AQ.Props.C11.resumed_only_under_psk
#print axioms AQ.Props.C11.no_skip_server
#print axioms AQ.Props.C11.illegal_flight_raises
#print axioms AQ.Props.C11.keys_after_auth
#print axioms AQ.Props.C11.client_app_keys_authenticated
#print axioms AQ.Props.C11.verifySig_checks
