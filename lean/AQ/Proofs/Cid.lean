/-
  Invariants of the connection-ID model (AQ.Model.Cid) and their preservation
  by every step.  Core Lean only.
-/
import AQ.Model.Cid

namespace AQ.Cid
open AQ

/-- every recorded peer sequence number is either held (current / spare) or its
    retirement is queued, in flight, or acknowledged -/
def Accounted (s : State) (x : Nat) : Prop :=
  x = s.peerCid ∨ x ∈ s.peerAvailable ∨ x ∈ s.retireQueue ∨ x ∈ s.retireInflight ∨ x ∈ s.retireAcked

instance (s : State) (x : Nat) : Decidable (Accounted s x) := by unfold Accounted; infer_instance

structure Inv (c : Cfg) (s : State) : Prop where
  dest : s.peerRetirePriorTo ≤ s.peerCid
  avail : ∀ a ∈ s.peerAvailable, s.peerRetirePriorTo ≤ a
  stock : 1 + s.peerAvailable.length ≤ c.localLimit
  issued : s.hostCids.length ≤ min 8 c.remoteLimit
  hostLt : ∀ h ∈ s.hostCids, h.seq < s.hostSeq
  accounted : ∀ x ∈ s.peerSeen, Accounted s x

theorem inv_init (c : Cfg) (hl : 1 ≤ c.localLimit) (hr : 1 ≤ c.remoteLimit) : Inv c State.init := by
  refine ⟨by simp [State.init], by simp [State.init], by simpa [State.init] using hl, ?_, ?_, ?_⟩
  · simp [State.init]; omega
  · simp [State.init]
  · simp [State.init, Accounted]

/-! ### NEW_CONNECTION_ID -/

theorem ncidLimitChecks_state (c : Cfg) (s : State) : (ncidLimitChecks c s).1 = s := by
  unfold ncidLimitChecks; repeat' split
  all_goals rfl

theorem ncidLimitChecks_ok (c : Cfg) (s : State) (h : (ncidLimitChecks c s).2 = none) :
    1 + s.peerAvailable.length ≤ c.localLimit := by
  unfold ncidLimitChecks at h
  split at h
  · simp at h
  · omega

theorem ncidLimitChecks_not_py (c : Cfg) (s : State) (e : PyExc) : (ncidLimitChecks c s).2 ≠ some (.py e) := by
  unfold ncidLimitChecks; repeat' split
  all_goals simp

theorem ncidCore_rpt (c : Cfg) (s : State) (seq rpt : Nat) :
    (ncidCore c s seq rpt).peerRetirePriorTo = max rpt s.peerRetirePriorTo := by
  unfold ncidCore; simp only []; repeat' split
  all_goals rfl

theorem ncidCore_peerCid (c : Cfg) (s : State) (seq rpt : Nat) :
    (ncidCore c s seq rpt).peerCid = s.peerCid := by
  unfold ncidCore; simp only []; repeat' split
  all_goals rfl

theorem ncidCore_host (c : Cfg) (s : State) (seq rpt : Nat) :
    (ncidCore c s seq rpt).hostCids = s.hostCids ∧ (ncidCore c s seq rpt).hostSeq = s.hostSeq
    ∧ (ncidCore c s seq rpt).retireInflight = s.retireInflight
    ∧ (ncidCore c s seq rpt).retireAcked = s.retireAcked ∧ (ncidCore c s seq rpt).hostCid = s.hostCid := by
  unfold ncidCore; simp only []; repeat' split
  all_goals simp

theorem ncidCore_avail (c : Cfg) (s : State) (seq rpt : Nat) :
    ∀ a ∈ (ncidCore c s seq rpt).peerAvailable, max rpt s.peerRetirePriorTo ≤ a := by
  intro a
  unfold ncidCore; simp only []
  split
  · rename_i h
    simp only [List.mem_append, List.mem_filter, decide_eq_true_eq, List.mem_singleton]
    rintro (⟨_, h1⟩ | rfl)
    · exact h1
    · exact h.2
  · split <;> (simp only [List.mem_filter, decide_eq_true_eq]; exact fun h => h.2)

theorem ncidCore_seen_mono (c : Cfg) (s : State) (seq rpt : Nat) :
    ∀ x ∈ s.peerSeen, x ∈ (ncidCore c s seq rpt).peerSeen := by
  intro x hx
  unfold ncidCore; simp only []
  repeat' split
  all_goals simp [hx]

theorem ncidCore_seen_new (c : Cfg) (s : State) (seq rpt : Nat) (hq : c.quirkDropReordered = false) :
    seq ∈ (ncidCore c s seq rpt).peerSeen := by
  unfold ncidCore; simp only []
  by_cases hf : s.peerSeen.contains seq = true
  · have : seq ∈ s.peerSeen := by simpa using hf
    repeat' split
    all_goals simp [this]
  · simp only [Bool.not_eq_true] at hf
    simp only [hf, hq, Bool.not_false, true_and, and_self]
    repeat' split
    all_goals first | (exfalso; simp_all; done) | simp

/-- an ID that was a spare stays a spare or goes to the retire queue -/
theorem ncidCore_avail_kept (c : Cfg) (s : State) (seq rpt : Nat) (x : Nat) (hx : x ∈ s.peerAvailable) :
    x ∈ (ncidCore c s seq rpt).peerAvailable ∨ x ∈ (ncidCore c s seq rpt).retireQueue := by
  by_cases hlt : x < max rpt s.peerRetirePriorTo
  · right
    have hm : x ∈ s.peerAvailable.filter (fun x => decide (x < max rpt s.peerRetirePriorTo)) := by
      simp [List.mem_filter, hx, hlt]
    unfold ncidCore; simp only []
    repeat' split
    all_goals simp [hm]
  · left
    have hm : x ∈ s.peerAvailable.filter (fun x => decide (max rpt s.peerRetirePriorTo ≤ x)) := by
      simp [List.mem_filter, hx]; omega
    unfold ncidCore; simp only []
    repeat' split
    all_goals simp [hm]

theorem ncidCore_rq_mono (c : Cfg) (s : State) (seq rpt : Nat) (x : Nat) (hx : x ∈ s.retireQueue) :
    x ∈ (ncidCore c s seq rpt).retireQueue := by
  unfold ncidCore; simp only []
  repeat' split
  all_goals simp [hx]

theorem ncidCore_cur_retired (c : Cfg) (s : State) (seq rpt : Nat)
    (h : s.peerCid < max rpt s.peerRetirePriorTo) : s.peerCid ∈ (ncidCore c s seq rpt).retireQueue := by
  unfold ncidCore; simp only []
  repeat' split
  all_goals simp_all

/-- a sequence number recorded for the first time becomes a spare or is retired at once -/
theorem ncidCore_new_placed (c : Cfg) (s : State) (seq rpt : Nat) (x : Nat)
    (hx : x ∈ (ncidCore c s seq rpt).peerSeen) (hn : x ∉ s.peerSeen) :
    x ∈ (ncidCore c s seq rpt).peerAvailable ∨ x ∈ (ncidCore c s seq rpt).retireQueue := by
  unfold ncidCore at hx ⊢; simp only [] at hx ⊢
  split at hx
  · next h1 => simp only [if_pos h1]; simp_all
  · next h1 =>
    simp only [if_neg h1]
    split at hx
    · next h2 => simp only [if_pos h2]; simp_all
    · next h2 => simp only [if_neg h2]; simp_all

theorem ncidCore_accounted (c : Cfg) (s : State) (seq rpt : Nat)
    (h : ∀ x ∈ s.peerSeen, Accounted s x) :
    ∀ x ∈ (ncidCore c s seq rpt).peerSeen, Accounted (ncidCore c s seq rpt) x := by
  intro x hx
  have hh := ncidCore_host c s seq rpt
  unfold Accounted
  rw [ncidCore_peerCid, hh.2.2.1, hh.2.2.2.1]
  by_cases hold : x ∈ s.peerSeen
  · rcases h x hold with h1 | h1 | h1 | h1 | h1
    · exact Or.inl h1
    · rcases ncidCore_avail_kept c s seq rpt x h1 with h2 | h2
      · exact Or.inr (Or.inl h2)
      · exact Or.inr (Or.inr (Or.inl h2))
    · exact Or.inr (Or.inr (Or.inl (ncidCore_rq_mono c s seq rpt x h1)))
    · exact Or.inr (Or.inr (Or.inr (Or.inl h1)))
    · exact Or.inr (Or.inr (Or.inr (Or.inr h1)))
  · rcases ncidCore_new_placed c s seq rpt x hx hold with h2 | h2
    · exact Or.inr (Or.inl h2)
    · exact Or.inr (Or.inr (Or.inl h2))

/-- shape of a successful `ncidFinish` -/
theorem ncidFinish_ok (c : Cfg) (s1 s' : State) (b : Bool) (h : ncidFinish c s1 b = (s', none)) :
    1 + s'.peerAvailable.length ≤ c.localLimit ∧
    ((b = false ∧ s' = s1) ∨
     (b = true ∧ ∃ a rest, s1.peerAvailable = a :: rest ∧ s' = { s1 with peerCid := a, peerAvailable := rest })) := by
  unfold ncidFinish at h
  cases b with
  | false =>
    simp only [Bool.false_eq_true, if_false] at h
    have h1 := ncidLimitChecks_state c s1
    have h2 := ncidLimitChecks_ok c s1 (by rw [h])
    rw [h] at h1; simp only at h1
    subst h1
    exact ⟨h2, Or.inl ⟨rfl, rfl⟩⟩
  | true =>
    simp only [if_true] at h
    split at h
    · split at h <;> simp at h
    · next a rest heq =>
      have h1 := ncidLimitChecks_state c { s1 with peerCid := a, peerAvailable := rest }
      have h2 := ncidLimitChecks_ok c { s1 with peerCid := a, peerAvailable := rest } (by rw [h])
      rw [h] at h1; simp only at h1
      subst h1
      exact ⟨h2, Or.inr ⟨rfl, a, rest, heq, rfl⟩⟩

theorem rxNcid_shape (c : Cfg) (s s' : State) (seq rpt n : Nat)
    (h : rxNewConnectionId c s seq rpt n = (s', none)) :
    ncidFinish c (ncidCore c s seq rpt) (decide (s.peerCid < max rpt s.peerRetirePriorTo)) = (s', none) := by
  unfold rxNewConnectionId at h
  split at h
  · simp at h
  · split at h
    · simp at h
    · exact h

theorem rxNcid_inv (c : Cfg) (s s' : State) (seq rpt n : Nat) (hinv : Inv c s)
    (h : rxNewConnectionId c s seq rpt n = (s', none)) : Inv c s' := by
  have hf := rxNcid_shape c s s' seq rpt n h
  obtain ⟨hstock, hcase⟩ := ncidFinish_ok c _ s' _ hf
  have hh := ncidCore_host c s seq rpt
  have hav := ncidCore_avail c s seq rpt
  have hacc := ncidCore_accounted c s seq rpt hinv.accounted
  rcases hcase with ⟨hb, rfl⟩ | ⟨hb, a, rest, heq, rfl⟩
  · have hge : ¬ s.peerCid < max rpt s.peerRetirePriorTo := by simpa using hb
    refine ⟨?_, ?_, hstock, ?_, ?_, hacc⟩
    · rw [ncidCore_rpt, ncidCore_peerCid]; omega
    · rw [ncidCore_rpt]; exact hav
    · rw [hh.1]; exact hinv.issued
    · rw [hh.1, hh.2.1]; exact hinv.hostLt
  · have hlt : s.peerCid < max rpt s.peerRetirePriorTo := by simpa using hb
    have hcur := ncidCore_cur_retired c s seq rpt hlt
    refine ⟨?_, ?_, hstock, ?_, ?_, ?_⟩
    · show (ncidCore c s seq rpt).peerRetirePriorTo ≤ a
      rw [ncidCore_rpt]; exact hav a (by rw [heq]; simp)
    · intro x hx
      show (ncidCore c s seq rpt).peerRetirePriorTo ≤ x
      rw [ncidCore_rpt]; exact hav x (by rw [heq]; simp [show x ∈ rest from hx])
    · show (ncidCore c s seq rpt).hostCids.length ≤ _
      rw [hh.1]; exact hinv.issued
    · intro x hx
      show x.seq < (ncidCore c s seq rpt).hostSeq
      rw [hh.2.1]; exact hinv.hostLt x (by rw [← hh.1]; exact hx)
    · intro x hx
      have := hacc x hx
      unfold Accounted at this ⊢
      rw [ncidCore_peerCid, heq] at this
      rcases this with h1 | h1 | h1 | h1 | h1
      · exact Or.inr (Or.inr (Or.inl (by rw [h1]; exact hcur)))
      · rcases List.mem_cons.mp h1 with h2 | h2
        · exact Or.inl h2
        · exact Or.inr (Or.inl h2)
      · exact Or.inr (Or.inr (Or.inl h1))
      · exact Or.inr (Or.inr (Or.inr (Or.inl h1)))
      · exact Or.inr (Or.inr (Or.inr (Or.inr h1)))

theorem rxNcid_seen (c : Cfg) (s s' : State) (seq rpt n : Nat) (hq : c.quirkDropReordered = false)
    (h : rxNewConnectionId c s seq rpt n = (s', none)) : seq ∈ s'.peerSeen ∧ ∀ x ∈ s.peerSeen, x ∈ s'.peerSeen := by
  have hf := rxNcid_shape c s s' seq rpt n h
  obtain ⟨_, hcase⟩ := ncidFinish_ok c _ s' _ hf
  have h1 := ncidCore_seen_new c s seq rpt hq
  have h2 := ncidCore_seen_mono c s seq rpt
  rcases hcase with ⟨_, rfl⟩ | ⟨_, a, rest, _, rfl⟩
  · exact ⟨h1, h2⟩
  · exact ⟨h1, h2⟩

theorem rxNcid_not_py (c : Cfg) (s : State) (seq rpt n : Nat) (hq : c.quirkConsume = false) (e : PyExc) :
    (rxNewConnectionId c s seq rpt n).2 ≠ some (.py e) := by
  unfold rxNewConnectionId
  split
  · simp
  · split
    · simp
    · unfold ncidFinish
      split
      · split
        · simp [hq]
        · exact ncidLimitChecks_not_py c _ e
      · exact ncidLimitChecks_not_py c _ e

/-! ### locally issued IDs -/

def seqs (hs : List HostCid) : List Nat := hs.map (·.seq)

theorem hasHost_iff (seq : Nat) (hs : List HostCid) : hasHost seq hs = true ↔ seq ∈ seqs hs := by
  unfold hasHost seqs
  simp only [List.any_eq_true, beq_iff_eq, List.mem_map]

theorem replenishLoop_spec (target : Nat) : ∀ (fuel : Nat) (hs : List HostCid) (seq : Nat),
    target - hs.length ≤ fuel →
    let r := replenishLoop target fuel hs seq
    r.1.length = max hs.length target ∧ seq ≤ r.2 ∧
    (∀ h ∈ hs, h ∈ r.1) ∧ (∀ h ∈ r.1, h ∈ hs ∨ (seq ≤ h.seq ∧ h.seq < r.2)) := by
  intro fuel
  induction fuel with
  | zero =>
    intro hs seq hf
    simp only [replenishLoop]
    refine ⟨by omega, Nat.le_refl _, fun h hh => hh, fun h hh => Or.inl hh⟩
  | succ fuel ih =>
    intro hs seq hf
    simp only [replenishLoop]
    split
    · next hlt =>
      have := ih (hs ++ [⟨seq, false⟩]) (seq + 1) (by simp; omega)
      simp only [List.length_append, List.length_singleton] at this
      obtain ⟨h1, h2, h3, h4⟩ := this
      refine ⟨by omega, by omega, fun h hh => h3 h (by simp [hh]), ?_⟩
      intro h hh
      rcases h4 h hh with h5 | h5
      · rcases List.mem_append.mp h5 with h6 | h6
        · exact Or.inl h6
        · simp only [List.mem_singleton] at h6
          subst h6
          exact Or.inr ⟨Nat.le_refl _, Nat.lt_of_succ_le h2⟩
      · exact Or.inr ⟨by omega, h5.2⟩
    · next hge =>
      refine ⟨?_, Nat.le_refl _, fun h hh => hh, fun h hh => Or.inl hh⟩
      show hs.length = max hs.length target
      omega

theorem replenish_spec (c : Cfg) (s : State) :
    (replenish c s).hostCids.length = max s.hostCids.length (min 8 c.remoteLimit) ∧
    s.hostSeq ≤ (replenish c s).hostSeq ∧
    (∀ h ∈ s.hostCids, h ∈ (replenish c s).hostCids) ∧
    (∀ h ∈ (replenish c s).hostCids, h ∈ s.hostCids ∨ (s.hostSeq ≤ h.seq ∧ h.seq < (replenish c s).hostSeq)) := by
  have := replenishLoop_spec (min 8 c.remoteLimit) (min 8 c.remoteLimit) s.hostCids s.hostSeq (by omega)
  simpa [replenish] using this

theorem replenish_peer (c : Cfg) (s : State) :
    (replenish c s).peerCid = s.peerCid ∧ (replenish c s).peerAvailable = s.peerAvailable ∧
    (replenish c s).peerSeen = s.peerSeen ∧ (replenish c s).peerRetirePriorTo = s.peerRetirePriorTo ∧
    (replenish c s).retireQueue = s.retireQueue ∧ (replenish c s).retireInflight = s.retireInflight ∧
    (replenish c s).retireAcked = s.retireAcked := by
  simp [replenish]

theorem delHost_spec (seq : Nat) : ∀ hs : List HostCid,
    (delHost seq hs).length ≤ hs.length ∧ (∀ h ∈ delHost seq hs, h ∈ hs) ∧
    (∀ h ∈ hs, h.seq ≠ seq → h ∈ delHost seq hs) ∧
    (seq ∈ seqs hs → (delHost seq hs).length + 1 = hs.length) := by
  intro hs
  induction hs with
  | nil => simp [delHost, seqs]
  | cons a t ih =>
    simp only [delHost]
    split
    · next he =>
      refine ⟨by simp, fun h hh => by simp [hh], ?_, fun _ => by simp⟩
      intro h hh hne
      rcases List.mem_cons.mp hh with h1 | h1
      · subst h1; exact absurd he hne
      · exact h1
    · next hne =>
      obtain ⟨i1, i2, i3, i4⟩ := ih
      refine ⟨by simp; omega, ?_, ?_, ?_⟩
      · intro h hh
        rcases List.mem_cons.mp hh with h1 | h1
        · simp [h1]
        · simp [i2 h h1]
      · intro h hh hn
        rcases List.mem_cons.mp hh with h1 | h1
        · simp [h1]
        · simp [i3 h h1 hn]
      · intro hm
        simp only [seqs, List.map_cons, List.mem_cons] at hm
        rcases hm with h1 | h1
        · exact absurd h1.symm hne
        · have := i4 h1; simp; omega

theorem delHost_not_mem (seq : Nat) : ∀ hs : List HostCid, seq ∉ seqs hs → delHost seq hs = hs := by
  intro hs
  induction hs with
  | nil => intro _; rfl
  | cons a t ih =>
    intro hnot
    simp only [seqs, List.map_cons, List.mem_cons, not_or] at hnot
    simp only [delHost]
    rw [if_neg (fun e => hnot.1 e.symm), ih (by simpa [seqs] using hnot.2)]

/-- an invariant that only mentions the peer-issued side is untouched when only host fields change -/
theorem Inv.of_host (c : Cfg) (s s' : State) (hinv : Inv c s)
    (hp : s'.peerCid = s.peerCid ∧ s'.peerAvailable = s.peerAvailable ∧ s'.peerSeen = s.peerSeen ∧
          s'.peerRetirePriorTo = s.peerRetirePriorTo ∧ s'.retireQueue = s.retireQueue ∧
          s'.retireInflight = s.retireInflight ∧ s'.retireAcked = s.retireAcked)
    (h1 : s'.hostCids.length ≤ min 8 c.remoteLimit) (h2 : ∀ h ∈ s'.hostCids, h.seq < s'.hostSeq) : Inv c s' := by
  obtain ⟨p1, p2, p3, p4, p5, p6, p7⟩ := hp
  refine ⟨by rw [p4, p1]; exact hinv.dest, by rw [p4, p2]; exact hinv.avail, by rw [p2]; exact hinv.stock, h1, h2, ?_⟩
  intro x hx
  have := hinv.accounted x (by rw [← p3]; exact hx)
  unfold Accounted at this ⊢
  rw [p1, p2, p5, p6, p7]; exact this

theorem replenish_inv (c : Cfg) (s : State) (hinv : Inv c s) : Inv c (replenish c s) := by
  obtain ⟨r1, r2, r3, r4⟩ := replenish_spec c s
  refine Inv.of_host c s _ hinv (replenish_peer c s) ?_ ?_
  · rw [r1]; have := hinv.issued; omega
  · intro h hh
    rcases r4 h hh with h1 | h1
    · have := hinv.hostLt h h1; omega
    · exact h1.2

theorem rxRetire_ok (c : Cfg) (s s' : State) (seq : Nat) (via : Option Nat)
    (h : rxRetire c s seq via = (s', none)) :
    s' = replenish c { s with hostCids := delHost seq s.hostCids } := by
  unfold rxRetire at h
  split at h
  · simp at h
  · split at h
    · split at h
      · simp at h
      · simp at h; exact h.symm
    · next hn =>
      simp at h
      have : delHost seq s.hostCids = s.hostCids :=
        delHost_not_mem seq s.hostCids (by rw [← hasHost_iff]; simpa using hn)
      rw [this]; exact h.symm

theorem rxRetire_inv (c : Cfg) (s s' : State) (seq : Nat) (via : Option Nat) (hinv : Inv c s)
    (h : rxRetire c s seq via = (s', none)) : Inv c s' := by
  rw [rxRetire_ok c s s' seq via h]
  apply replenish_inv
  obtain ⟨d1, d2, _, _⟩ := delHost_spec seq s.hostCids
  refine Inv.of_host c s _ hinv ⟨rfl, rfl, rfl, rfl, rfl, rfl, rfl⟩ ?_ ?_
  · have := hinv.issued; simp only; omega
  · intro h hh; exact hinv.hostLt h (d2 h hh)

theorem rxRetire_not_py (c : Cfg) (s : State) (seq : Nat) (via : Option Nat) (e : PyExc) :
    (rxRetire c s seq via).2 ≠ some (.py e) := by
  unfold rxRetire
  repeat' split
  all_goals simp [PROTOCOL_VIOLATION]

theorem localChange_inv (c : Cfg) (s : State) (hinv : Inv c s) : Inv c (localChange s) := by
  unfold localChange
  split
  · exact hinv
  · next a rest heq =>
    have hav := hinv.avail
    rw [heq] at hav
    refine ⟨hav a (by simp), fun x hx => hav x (by simp [hx]), ?_, hinv.issued, hinv.hostLt, ?_⟩
    · have := hinv.stock; rw [heq] at this; simp at this ⊢; omega
    · intro x hx
      have := hinv.accounted x hx
      unfold Accounted at this ⊢
      rw [heq] at this
      simp only [List.mem_append, List.mem_singleton]
      rcases this with h1 | h1 | h1 | h1 | h1
      · exact Or.inr (Or.inr (Or.inl (Or.inr h1)))
      · rcases List.mem_cons.mp h1 with h2 | h2
        · exact Or.inl h2
        · exact Or.inr (Or.inl h2)
      · exact Or.inr (Or.inr (Or.inl (Or.inl h1)))
      · exact Or.inr (Or.inr (Or.inr (Or.inl h1)))
      · exact Or.inr (Or.inr (Or.inr (Or.inr h1)))

theorem peerSwitched_inv (c : Cfg) (s : State) (via : Option Nat) (hinv : Inv c s) :
    Inv c (peerSwitched c s via) := by
  unfold peerSwitched
  split
  · apply localChange_inv
    exact ⟨hinv.dest, hinv.avail, hinv.stock, hinv.issued, hinv.hostLt, hinv.accounted⟩
  · exact hinv

/-! ### sending and delivery -/

def unsent (hs : List HostCid) : Nat := (hs.filter (fun h => !h.wasSent)).length

theorem writeNewCids_spec : ∀ (hs : List HostCid) (room : Nat),
    seqs (writeNewCids room hs).2.1 = seqs hs ∧
    (unsent hs ≤ room → (writeNewCids room hs).2.2 = false ∧ (writeNewCids room hs).1 = room - unsent hs ∧
        ∀ h ∈ (writeNewCids room hs).2.1, h.wasSent = true) := by
  intro hs
  induction hs with
  | nil => intro room; simp [writeNewCids, seqs, unsent]
  | cons a t ih =>
    intro room
    simp only [writeNewCids]
    split
    · next hs1 =>
      obtain ⟨i1, i2⟩ := ih room
      refine ⟨by simpa [seqs] using i1, ?_⟩
      intro hle
      have hu : unsent (a :: t) = unsent t := by simp [unsent, List.filter, hs1]
      rw [hu] at hle ⊢
      obtain ⟨j1, j2, j3⟩ := i2 hle
      refine ⟨j1, j2, ?_⟩
      intro h hh
      rcases List.mem_cons.mp hh with h1 | h1
      · rw [h1]; exact hs1
      · exact j3 h h1
    · next hs1 =>
      have hu : unsent (a :: t) = unsent t + 1 := by simp [unsent, List.filter, hs1]
      cases room with
      | zero =>
        refine ⟨rfl, ?_⟩
        intro hle; rw [hu] at hle; omega
      | succ r =>
        obtain ⟨i1, i2⟩ := ih r
        refine ⟨by simpa [seqs] using i1, ?_⟩
        intro hle
        rw [hu] at hle ⊢
        obtain ⟨j1, j2, j3⟩ := i2 (by omega)
        refine ⟨j1, by simp only; omega, ?_⟩
        intro h hh
        rcases List.mem_cons.mp hh with h1 | h1
        · rw [h1]
        · exact j3 h h1

theorem writeRetires_spec : ∀ (q : List Nat) (room : Nat),
    q = (writeRetires room q).2 ++ (writeRetires room q).1 ∧
    (q.length ≤ room → (writeRetires room q).1 = []) := by
  intro q
  induction q with
  | nil => intro room; simp [writeRetires]
  | cons x t ih =>
    intro room
    cases room with
    | zero => simp [writeRetires]
    | succ r =>
      obtain ⟨i1, i2⟩ := ih r
      simp only [writeRetires]
      refine ⟨by simp only [List.cons_append]; rw [← i1], ?_⟩
      intro hle; exact i2 (by simp at hle; omega)

theorem seqs_mem {hs hs' : List HostCid} (he : seqs hs' = seqs hs) {h : HostCid} (hh : h ∈ hs') :
    ∃ h0 ∈ hs, h0.seq = h.seq := by
  have : h.seq ∈ seqs hs := by rw [← he]; exact List.mem_map.mpr ⟨h, hh, rfl⟩
  obtain ⟨h0, m, e⟩ := List.mem_map.mp this
  exact ⟨h0, m, e⟩

theorem seqs_length {hs hs' : List HostCid} (he : seqs hs' = seqs hs) : hs'.length = hs.length := by
  have := congrArg List.length he; simpa [seqs] using this

theorem writeCid_hostSeqs (s : State) (room : Nat) : seqs (writeCid s room).hostCids = seqs s.hostCids := by
  have := (writeNewCids_spec s.hostCids room).1
  unfold writeCid; simp only []
  split <;> exact this

theorem writeCid_inv (c : Cfg) (s : State) (room : Nat) (hinv : Inv c s) : Inv c (writeCid s room) := by
  have he := writeCid_hostSeqs s room
  have hlen := seqs_length he
  have hlt : ∀ h ∈ (writeCid s room).hostCids, h.seq < s.hostSeq := by
    intro h hh
    obtain ⟨h0, m, e⟩ := seqs_mem he hh
    rw [← e]; exact hinv.hostLt h0 m
  unfold writeCid at hlen hlt ⊢; simp only [] at hlen hlt ⊢
  split
  · next hstop =>
    rw [if_pos hstop] at hlen hlt
    exact ⟨hinv.dest, hinv.avail, hinv.stock, by simp only; rw [hlen]; exact hinv.issued, hlt, hinv.accounted⟩
  · next hstop =>
    rw [if_neg hstop] at hlen hlt
    refine ⟨hinv.dest, hinv.avail, hinv.stock, by simp only; rw [hlen]; exact hinv.issued, hlt, ?_⟩
    intro x hx
    have := hinv.accounted x hx
    unfold Accounted at this ⊢
    simp only [List.mem_append]
    have hq := (writeRetires_spec s.retireQueue (writeNewCids room s.hostCids).1).1
    rcases this with h1 | h1 | h1 | h1 | h1
    · exact Or.inl h1
    · exact Or.inr (Or.inl h1)
    · rw [hq] at h1
      rcases List.mem_append.mp h1 with h2 | h2
      · exact Or.inr (Or.inr (Or.inr (Or.inl (Or.inr h2))))
      · exact Or.inr (Or.inr (Or.inl h2))
    · exact Or.inr (Or.inr (Or.inr (Or.inl (Or.inl h1))))
    · exact Or.inr (Or.inr (Or.inr (Or.inr h1)))

theorem newCidDelivery_hostSeqs (s : State) (seq : Nat) (a : Bool) :
    seqs (newCidDelivery s seq a).hostCids = seqs s.hostCids := by
  unfold newCidDelivery
  split
  · rfl
  · simp only [seqs, List.map_map]
    apply List.map_congr_left
    intro h _
    simp only [Function.comp]
    split <;> rfl

theorem newCidDelivery_inv (c : Cfg) (s : State) (seq : Nat) (a : Bool) (hinv : Inv c s) :
    Inv c (newCidDelivery s seq a) := by
  have he := newCidDelivery_hostSeqs s seq a
  have hlen := seqs_length he
  refine Inv.of_host c s _ hinv ?_ (by rw [hlen]; exact hinv.issued) ?_
  · unfold newCidDelivery; split <;> simp
  · intro h hh
    obtain ⟨h0, m, e⟩ := seqs_mem he hh
    have : (newCidDelivery s seq a).hostSeq = s.hostSeq := by unfold newCidDelivery; split <;> rfl
    rw [this, ← e]; exact hinv.hostLt h0 m

theorem retireDelivery_inv (c : Cfg) (s : State) (seq : Nat) (a : Bool) (hinv : Inv c s) :
    Inv c (retireDelivery s seq a) := by
  unfold retireDelivery
  split
  · have key : ∀ x ∈ s.retireInflight, x = seq ∨ x ∈ s.retireInflight.erase seq := by
      intro x hx
      by_cases hxe : x = seq
      · exact Or.inl hxe
      · exact Or.inr ((List.mem_erase_of_ne hxe).mpr hx)
    split
    · refine ⟨hinv.dest, hinv.avail, hinv.stock, hinv.issued, hinv.hostLt, ?_⟩
      intro x hx
      have := hinv.accounted x hx
      unfold Accounted at this ⊢
      simp only [List.mem_cons]
      rcases this with h1 | h1 | h1 | h1 | h1
      · exact Or.inl h1
      · exact Or.inr (Or.inl h1)
      · exact Or.inr (Or.inr (Or.inl h1))
      · rcases key x h1 with h2 | h2
        · exact Or.inr (Or.inr (Or.inr (Or.inr (Or.inl h2))))
        · exact Or.inr (Or.inr (Or.inr (Or.inl h2)))
      · exact Or.inr (Or.inr (Or.inr (Or.inr (Or.inr h1))))
    · refine ⟨hinv.dest, hinv.avail, hinv.stock, hinv.issued, hinv.hostLt, ?_⟩
      intro x hx
      have := hinv.accounted x hx
      unfold Accounted at this ⊢
      simp only [List.mem_append, List.mem_singleton]
      rcases this with h1 | h1 | h1 | h1 | h1
      · exact Or.inl h1
      · exact Or.inr (Or.inl h1)
      · exact Or.inr (Or.inr (Or.inl (Or.inl h1)))
      · rcases key x h1 with h2 | h2
        · exact Or.inr (Or.inr (Or.inl (Or.inr h2)))
        · exact Or.inr (Or.inr (Or.inr (Or.inl h2)))
      · exact Or.inr (Or.inr (Or.inr (Or.inr h1)))
  · exact hinv

/-! ### all steps, histories -/

theorem step_inv (c : Cfg) (s s' : State) (op : Op) (hinv : Inv c s) (h : step c s op = (s', none)) : Inv c s' := by
  cases op with
  | rxNewConnectionId seq rpt n => exact rxNcid_inv c s s' seq rpt n hinv h
  | rxRetire seq via => exact rxRetire_inv c s s' seq via hinv h
  | localChange => simp only [step, Prod.mk.injEq, and_true] at h; rw [← h]; exact localChange_inv c s hinv
  | peerSwitched via => simp only [step, Prod.mk.injEq, and_true] at h; rw [← h]; exact peerSwitched_inv c s via hinv
  | writeCid room => simp only [step, Prod.mk.injEq, and_true] at h; rw [← h]; exact writeCid_inv c s room hinv
  | retireDelivery seq a => simp only [step, Prod.mk.injEq, and_true] at h; rw [← h]; exact retireDelivery_inv c s seq a hinv
  | newCidDelivery seq a => simp only [step, Prod.mk.injEq, and_true] at h; rw [← h]; exact newCidDelivery_inv c s seq a hinv
  | replenish => simp only [step, Prod.mk.injEq, and_true] at h; rw [← h]; exact replenish_inv c s hinv

theorem run_inv (c : Cfg) : ∀ (ops : List Op) (s s' : State), Inv c s → run c s ops = (s', none) → Inv c s' := by
  intro ops
  induction ops with
  | nil => intro s s' hinv h; simp only [run, Prod.mk.injEq, and_true] at h; rw [← h]; exact hinv
  | cons op rest ih =>
    intro s s' hinv h
    simp only [run] at h
    split at h
    · next s1 hs => exact ih s1 s' (step_inv c s s1 op hinv hs) h
    · simp at h

theorem step_not_py (c : Cfg) (s : State) (op : Op) (hq : c.quirkConsume = false) (e : PyExc) :
    (step c s op).2 ≠ some (.py e) := by
  cases op with
  | rxNewConnectionId seq rpt n => exact rxNcid_not_py c s seq rpt n hq e
  | rxRetire seq via => exact rxRetire_not_py c s seq via e
  | _ => simp [step]

theorem ncid_hostCids (c : Cfg) (s : State) (seq rpt n : Nat) :
    (rxNewConnectionId c s seq rpt n).1.hostCids = s.hostCids := by
  unfold rxNewConnectionId
  split
  · rfl
  · split
    · rfl
    · unfold ncidFinish
      have hh := (ncidCore_host c s seq rpt).1
      split
      · split
        · split <;> exact hh
        · rw [ncidLimitChecks_state]; exact hh
      · rw [ncidLimitChecks_state]; exact hh

theorem mem_seqs_of {hs hs' : List HostCid} (hsub : ∀ h ∈ hs, h ∈ hs') {q : Nat} (hq : q ∈ seqs hs) : q ∈ seqs hs' := by
  obtain ⟨h, m, e⟩ := List.mem_map.mp hq
  exact List.mem_map.mpr ⟨h, hsub h m, e⟩

/-- an issued ID stays in `_host_cids` across every step except the successful
    processing of a RETIRE_CONNECTION_ID frame for its own sequence number -/
theorem step_keeps_host (c : Cfg) (s : State) (op : Op) (q : Nat) (hq : q ∈ seqs s.hostCids) :
    q ∈ seqs (step c s op).1.hostCids ∨ ∃ via, op = .rxRetire q via ∧ (step c s op).2 = none := by
  cases op with
  | rxNewConnectionId seq rpt n => left; simp only [step]; rw [ncid_hostCids]; exact hq
  | rxRetire seq via =>
    simp only [step]
    by_cases hqs : q = seq
    · subst hqs
      unfold rxRetire
      split
      · left; exact hq
      · split
        · split
          · left; exact hq
          · right; exact ⟨via, rfl, rfl⟩
        · right; exact ⟨via, rfl, rfl⟩
    · left
      unfold rxRetire
      split
      · exact hq
      · have keep : q ∈ seqs (replenish c { s with hostCids := delHost seq s.hostCids }).hostCids := by
          obtain ⟨h, m, e⟩ := List.mem_map.mp hq
          have m1 := (delHost_spec seq s.hostCids).2.2.1 h m (by rw [e]; exact hqs)
          have m2 := (replenish_spec c { s with hostCids := delHost seq s.hostCids }).2.2.1 h m1
          exact List.mem_map.mpr ⟨h, m2, e⟩
        split
        · split
          · exact hq
          · exact keep
        · exact mem_seqs_of (replenish_spec c s).2.2.1 hq
  | localChange => left; simp only [step, localChange]; split <;> exact hq
  | peerSwitched via =>
    left; simp only [step, peerSwitched]
    split
    · simp only [localChange]; split <;> exact hq
    · exact hq
  | writeCid room => left; simp only [step]; rw [writeCid_hostSeqs]; exact hq
  | retireDelivery seq a =>
    left; simp only [step, retireDelivery]
    split
    · split <;> exact hq
    · exact hq
  | newCidDelivery seq a => left; simp only [step]; rw [newCidDelivery_hostSeqs]; exact hq
  | replenish => left; simp only [step]; exact mem_seqs_of (replenish_spec c s).2.2.1 hq

theorem ncid_state_cases (c : Cfg) (s : State) (seq rpt n : Nat) :
    (rxNewConnectionId c s seq rpt n).1 = s ∨
    (rxNewConnectionId c s seq rpt n).1 = ncidCore c s seq rpt ∨
    ∃ a rest, (ncidCore c s seq rpt).peerAvailable = a :: rest ∧
      (rxNewConnectionId c s seq rpt n).1 = { ncidCore c s seq rpt with peerCid := a, peerAvailable := rest } := by
  unfold rxNewConnectionId
  split
  · exact Or.inl rfl
  · split
    · exact Or.inl rfl
    · unfold ncidFinish
      split
      · split
        · right; left; split <;> rfl
        · next a rest heq => right; right; exact ⟨a, rest, heq, by rw [ncidLimitChecks_state]⟩
      · right; left; rw [ncidLimitChecks_state]

theorem step_rpt_seen_mono (c : Cfg) (s : State) (op : Op) :
    s.peerRetirePriorTo ≤ (step c s op).1.peerRetirePriorTo ∧ ∀ x ∈ s.peerSeen, x ∈ (step c s op).1.peerSeen := by
  cases op with
  | rxNewConnectionId seq rpt n =>
    simp only [step]
    rcases ncid_state_cases c s seq rpt n with h | h | ⟨a, rest, _, h⟩
    · rw [h]; exact ⟨Nat.le_refl _, fun x hx => hx⟩
    · rw [h, ncidCore_rpt]; exact ⟨by omega, ncidCore_seen_mono c s seq rpt⟩
    · rw [h]; simp only; rw [ncidCore_rpt]; exact ⟨by omega, ncidCore_seen_mono c s seq rpt⟩
  | rxRetire seq via =>
    simp only [step]; unfold rxRetire
    repeat' split
    all_goals simp [replenish]
  | localChange => simp only [step, localChange]; split <;> simp
  | peerSwitched via =>
    simp only [step, peerSwitched]
    split
    · simp only [localChange]; split <;> simp
    · simp
  | writeCid room => simp only [step, writeCid]; split <;> simp
  | retireDelivery seq a => simp only [step, retireDelivery]; repeat' split
                            all_goals simp
  | newCidDelivery seq a => simp only [step, newCidDelivery]; split <;> simp
  | replenish => simp [step, replenish]

theorem run_rpt_seen_mono (c : Cfg) : ∀ (ops : List Op) (s : State),
    s.peerRetirePriorTo ≤ (run c s ops).1.peerRetirePriorTo ∧ ∀ x ∈ s.peerSeen, x ∈ (run c s ops).1.peerSeen := by
  intro ops
  induction ops with
  | nil => intro s; exact ⟨Nat.le_refl _, fun x hx => hx⟩
  | cons op rest ih =>
    intro s
    have h1 := step_rpt_seen_mono c s op
    simp only [run]
    split
    · next s1 hs =>
      rw [hs] at h1
      have h2 := ih s1
      exact ⟨Nat.le_trans h1.1 h2.1, fun x hx => h2.2 x (h1.2 x hx)⟩
    · next s1 e hs => rw [hs] at h1; exact h1

theorem run_append (c : Cfg) : ∀ (a b : List Op) (s s' : State), run c s (a ++ b) = (s', none) →
    ∃ s1, run c s a = (s1, none) ∧ run c s1 b = (s', none) := by
  intro a
  induction a with
  | nil => intro b s s' h; exact ⟨s, rfl, h⟩
  | cons op rest ih =>
    intro b s s' h
    simp only [List.cons_append, run] at h ⊢
    split at h
    · next s1 hs => exact ih b s1 s' h
    · simp at h

theorem run_cons_ok (c : Cfg) (op : Op) (rest : List Op) (s s' : State) (h : run c s (op :: rest) = (s', none)) :
    ∃ s1, step c s op = (s1, none) ∧ run c s1 rest = (s', none) := by
  simp only [run] at h
  split at h
  · next s1 hs => exact ⟨s1, hs, h⟩
  · simp at h

end AQ.Cid
