/-
  C14: chunk independence of unidirectional streams (`_receive_stream_data_uni`):
  stream-type varint, control, push, WebTransport, QPACK encoder/decoder, unknown.
-/
import AQ.Proofs.H3Conn
namespace AQ.H3
section
variable {σ : Type} (o : Oracle σ)

/-- `_receive_stream_data_uni` up to (not including) the unblocked-stream loop and the
    store into the stream table: connection, stream, unblocked ids, events -/
def uniCore (c : Conn σ) (s : Stream) (data : Bytes) (ea : Bool) :
    Outcome (Conn σ × Stream × List Nat × List Event) :=
  match uniLoop o ea ((s.buffer ++ data).length + 2) c
      { s with buffer := [], receivingEnded := s.receivingEnded || ea } (s.buffer ++ data) [] with
  | .error e => .error e
  | .ok (.ret c1 s1 evs) => .ok (c1, s1, [], evs)
  | .ok (.brk c1 s1 rest unb) => .ok (c1, { s1 with buffer := rest }, unb, [])

abbrev URes (σ : Type) := Outcome (Conn σ × Stream × List Nat × List Event)

/-- two deliveries, the first one without FIN -/
def uniSeq (c : Conn σ) (s : Stream) (c1 c2 : Bytes) (e : Bool) : URes σ :=
  match uniCore o c s c1 false with
  | .error x => .error x
  | .ok (ca, sa, unb1, ev1) =>
    match uniCore o ca sa c2 e with
    | .error x => .error x
    | .ok (cb, sb, unb2, ev2) => .ok (cb, sb, unb1 ++ unb2, ev1 ++ ev2)

/-- same error; or same connection, stream, unblocked ids and normal form of events -/
def UEq (x y : URes σ) : Prop :=
  match x, y with
  | .ok (c1, s1, u1, e1), .ok (c2, s2, u2, e2) => c1 = c2 ∧ s1 = s2 ∧ u1 = u2 ∧ NEq e1 e2
  | .error a, .error b => a = b
  | _, _ => False

theorem UEq.refl (x : URes σ) : UEq x x := by
  cases x with
  | error e => simp [UEq]
  | ok v => obtain ⟨a, b, c, d⟩ := v; simp [UEq, NEq.refl]

theorem UEq.of_eq {x y : URes σ} (h : x = y) : UEq x y := h ▸ UEq.refl x

theorem UEq.trans {x y z : URes σ} (h : UEq x y) (h' : UEq y z) : UEq x z := by
  cases x with
  | error a => cases y with
    | error b => cases z with
      | error c => simp [UEq] at *; exact h.trans h'
      | ok _ => simp [UEq] at h'
    | ok v => simp [UEq] at h
  | ok v => cases y with
    | error b => simp [UEq] at h
    | ok w => cases z with
      | error c => simp [UEq] at h'
      | ok u =>
        obtain ⟨a1, a2, a3, a4⟩ := v; obtain ⟨b1, b2, b3, b4⟩ := w; obtain ⟨c1, c2, c3, c4⟩ := u
        simp [UEq] at *
        exact ⟨h.1.trans h'.1, h.2.1.trans h'.2.1, h.2.2.1.trans h'.2.2.1, h.2.2.2.trans h'.2.2.2⟩

theorem uniLoop_succ (ea : Bool) (fuel : Nat) (c : Conn σ) (s : Stream) (rest : Bytes) (unb : List Nat) :
    uniLoop o ea (fuel + 1) c s rest unb =
      if isLoopingType s.streamType = false ∧ rest = [] then .ok (.brk c s rest unb)
      else
        match uniType c s rest with
        | .error e => .error e
        | .ok none => .ok (.brk c s rest unb)
        | .ok (some (c, s, rest)) =>
          match s.streamType with
          | some 0 =>
            if ea then .error (.h3 0x104)
            else
              match parseFrame rest with
              | none => .ok (.brk c s rest unb)
              | some (ft, fd, r) =>
                match handleControlFrame c ft fd with
                | .error e => .error e
                | .ok c1 => uniLoop o ea fuel c1 s r unb
          | some 1 =>
            let r : Option (Stream × Bytes) :=
              match s.pushId with
              | some _ => some (s, rest)
              | none =>
                match pullVarint rest with
                | none => none
                | some (pid, r) => some ({ s with p := { s.p with pushId := some pid } }, r)
            match r with
            | none => .ok (.brk c s rest unb)
            | some (s1, r) =>
              match recvReq o c.cfg { s1 with buffer := r } c.q [] ea with
              | .error e => .error e
              | .ok (s2, q2, evs) => .ok (.ret { c with q := q2 } s2 evs)
          | some 0x54 =>
            let r : Option (Stream × Bytes) :=
              match s.sessionId with
              | some _ => some (s, rest)
              | none =>
                match pullVarint rest with
                | none => none
                | some (p, r) => some ({ s with sessionId := some p }, r)
            match r with
            | none => .ok (.brk c s rest unb)
            | some (s1, r) =>
              match s1.sessionId with
              | none => .ok (.brk c s rest unb)
              | some sess =>
                .ok (.ret c { s1 with buffer := [] }
                  (if r ≠ [] ∨ ea = true then [.wt r s.streamId s1.receivingEnded sess] else []))
          | some 3 =>
            match o.feedDecoder c.q rest with
            | (false, _) => .error (.h3 0x202)
            | (true, q1) => uniLoop o ea fuel { c with q := q1 } s [] unb
          | some 2 =>
            match o.feedEncoder c.q rest with
            | (.error, _) => .error (.h3 0x201)
            | (.unblocked ids, q1) => uniLoop o ea fuel { c with q := q1 } s [] (unb ++ ids)
          | _ => uniLoop o ea fuel c s [] unb := by
  rw [uniLoop]; rfl

/-- a stream whose type is not yet known keeps buffering until the varint is complete -/
theorem uniLoop_noType (ea : Bool) (fuel : Nat) (c : Conn σ) (s : Stream) (rest : Bytes)
    (ht : s.streamType = none) (hp : pullVarint rest = none) :
    uniLoop o ea (fuel + 1) c s rest [] = .ok (.brk c s rest []) := by
  rw [uniLoop_succ]
  by_cases hr : rest = []
  · simp [ht, hr, isLoopingType]
  · simp [ht, hr, isLoopingType, uniType, hp]


/-- a unidirectional stream on which nothing has been received yet -/
structure UniFresh (s : Stream) : Prop where
  fresh : Fresh s
  streamType : s.streamType = none
  pushId : s.p.pushId = none

theorem uniCore_noType (c : Conn σ) {s : Stream} (hs : UniFresh s) (P : Bytes) (ea : Bool)
    (hp : pullVarint P = none) :
    uniCore o c s P ea = .ok (c, { s with buffer := P, receivingEnded := ea }, [], []) := by
  unfold uniCore
  simp only [hs.fresh.buffer, List.nil_append, hs.fresh.receivingEnded, Bool.false_or]
  rw [show P.length + 2 = (P.length + 1) + 1 from rfl, uniLoop_noType o ea (P.length + 1) c _ P _ hp]
  exact hs.streamType

/-- while the stream-type varint is incomplete, deliveries just accumulate -/
theorem uni_merge_noType (c : Conn σ) {s : Stream} (hs : UniFresh s) (P c2 : Bytes) (e : Bool)
    (hp : pullVarint P = none) : UEq (uniSeq o c s P c2 e) (uniCore o c s (P ++ c2) e) := by
  unfold uniSeq
  rw [uniCore_noType o c hs P false hp]
  dsimp only
  have : uniCore o c { s with buffer := P, receivingEnded := false } c2 e = uniCore o c s (P ++ c2) e := by
    unfold uniCore
    simp only [hs.fresh.buffer, List.nil_append, hs.fresh.receivingEnded, Bool.false_or]
  rw [this]
  cases uniCore o c s (P ++ c2) e with
  | error x => simp [UEq]
  | ok v => obtain ⟨a, b, u, ev⟩ := v; simp [UEq, NEq.refl]


/-! ### push streams (type 1): push id, then the request parser -/

/-- result of the push branch once the bytes after the stream type are `r` -/
def pushRun (c : Conn σ) (s1 : Stream) (r : Bytes) (ea : Bool) : URes σ :=
  match pullVarint r with
  | none => .ok (c, { s1 with buffer := r }, [], [])
  | some (pid, r') =>
    match recvReq o c.cfg { s1 with p := { s1.p with pushId := some pid }, buffer := r' } c.q [] ea with
    | .error x => .error x
    | .ok (s2, q2, evs) => .ok ({ c with q := q2 }, s2, [], evs)

theorem uniCore_push_first (c : Conn σ) {s : Stream} (hs : UniFresh s) (P r : Bytes) (ea : Bool)
    (hp : pullVarint P = some (1, r)) :
    uniCore o c s P ea = pushRun o c { s with buffer := [], receivingEnded := ea, streamType := some 1 } r ea := by
  have hne : P ≠ [] := by intro h; subst h; simp [pullVarint] at hp
  unfold uniCore pushRun
  simp only [hs.fresh.buffer, List.nil_append, hs.fresh.receivingEnded, Bool.false_or]
  rw [show P.length + 2 = (P.length + 1) + 1 from rfl, uniLoop_succ]
  simp only [hs.streamType, isLoopingType, hne, and_false, ↓reduceIte, uniType, hp]
  simp only [reduceCtorEq, ↓reduceIte, Nat.reduceEqDiff, Stream.pushId, hs.pushId]
  cases pullVarint r with
  | none => rfl
  | some x =>
    obtain ⟨pid, r'⟩ := x
    dsimp only
    cases recvReq o c.cfg _ c.q [] ea with
    | error e => rfl
    | ok v => obtain ⟨a, b, d⟩ := v; rfl


/-- a later delivery on a push stream whose push id is still incomplete -/
theorem uniCore_push_noId (c : Conn σ) (sa : Stream) (d : Bytes) (ea : Bool)
    (ht : sa.streamType = some 1) (hid : sa.p.pushId = none) :
    uniCore o c sa d ea =
      pushRun o c { sa with buffer := [], receivingEnded := sa.receivingEnded || ea } (sa.buffer ++ d) ea := by
  unfold uniCore pushRun
  rw [show (sa.buffer ++ d).length + 2 = ((sa.buffer ++ d).length + 1) + 1 from rfl, uniLoop_succ]
  simp only [ht, isLoopingType, uniType]
  simp only [reduceCtorEq, ↓reduceIte, Nat.reduceEqDiff, Stream.pushId, hid, decide_true, Bool.true_or,
    Bool.or_true, Bool.true_eq_false, false_and]
  cases pullVarint (sa.buffer ++ d) with
  | none => rfl
  | some x =>
    obtain ⟨pid, r'⟩ := x
    dsimp only
    cases recvReq o c.cfg _ c.q [] ea with
    | error e => rfl
    | ok v => obtain ⟨a, b, e'⟩ := v; rfl

/-- a later delivery on a push stream whose push id is known: the request parser -/
theorem uniCore_push_id (c : Conn σ) (sb : Stream) (d : Bytes) (ea : Bool) (pid : Nat)
    (ht : sb.streamType = some 1) (hid : sb.p.pushId = some pid) :
    uniCore o c sb d ea =
      match recvReq o c.cfg { sb with buffer := sb.buffer ++ d, receivingEnded := sb.receivingEnded || ea }
          c.q [] ea with
      | .error x => .error x
      | .ok (s2, q2, evs) => .ok ({ c with q := q2 }, s2, [], evs) := by
  unfold uniCore
  rw [show (sb.buffer ++ d).length + 2 = ((sb.buffer ++ d).length + 1) + 1 from rfl, uniLoop_succ]
  simp only [ht, isLoopingType, uniType]
  simp only [reduceCtorEq, ↓reduceIte, Nat.reduceEqDiff, Stream.pushId, hid, decide_true, Bool.true_or,
    Bool.or_true, Bool.true_eq_false, false_and]
  cases recvReq o c.cfg _ c.q [] ea with
  | error e => rfl
  | ok v => obtain ⟨a, b, e'⟩ := v; rfl

/-- the buffer of the stream and the new data are just concatenated -/
theorem recvReq_shift (cfg : Cfg) (s : Stream) (q : σ) (b d : Bytes) (ea : Bool) :
    recvReq o cfg { s with buffer := b ++ d } q [] ea = recvReq o cfg { s with buffer := b } q d ea := by
  unfold recvReq
  simp only [List.append_nil]


theorem recvReq_shift2 (cfg : Cfg) (s : Stream) (q : σ) (d : Bytes) (ea : Bool) :
    recvReq o cfg { s with buffer := s.buffer ++ d, receivingEnded := s.receivingEnded || ea } q [] ea =
      recvReq o cfg s q d ea := by
  unfold recvReq
  simp only [List.append_nil, Bool.or_assoc, Bool.or_self]

theorem recvReq_re_irrel (cfg : Cfg) (s : Stream) (q : σ) (d : Bytes) (ea : Bool) :
    recvReq o cfg { s with receivingEnded := ea } q d ea = recvReq o cfg { s with receivingEnded := false } q d ea := by
  unfold recvReq
  simp only [Bool.or_self, Bool.false_or]

/-- the push stream right after its push id -/
def pushFresh (s : Stream) (pid : Nat) (re : Bool) : Stream :=
  { s with buffer := [], receivingEnded := re, streamType := some 1, p := { s.p with pushId := some pid } }

theorem uni_merge_push (c : Conn σ) (ht : c.cfg.k.truncatedNoError = false)
    (hsil : c.cfg.k.silentFrameNoEnd = false) (hlog : c.cfg.k.logDecode = false)
    {s : Stream} (hs : UniFresh s) (P r c2 : Bytes) (e : Bool) (hp : pullVarint P = some (1, r)) :
    UEq (uniSeq o c s P c2 e) (uniCore o c s (P ++ c2) e) := by
  unfold uniSeq
  rw [uniCore_push_first o c hs P r false hp,
    uniCore_push_first o c hs (P ++ c2) (r ++ c2) e (pullVarint_append c2 hp)]
  unfold pushRun
  cases hpid : pullVarint r with
  | none =>
    -- the push id is not complete after the first delivery
    dsimp only
    rw [uniCore_push_noId o c _ c2 e]
    rotate_left
    · rfl
    · exact hs.pushId
    unfold pushRun
    simp only [Bool.false_or]
    generalize (match pullVarint (r ++ c2) with
      | none => _
      | some (pid, r') => _ : URes σ) = X
    cases X with
    | error x => simp [UEq]
    | ok v => obtain ⟨a, b, u, ev⟩ := v; simp [UEq, NEq.refl]
  | some x =>
    obtain ⟨pid, r'⟩ := x
    rw [pullVarint_append c2 hpid]
    dsimp only
    have hfr : Fresh (pushFresh s pid false) :=
      ⟨hs.fresh.frameSize, hs.fresh.frameType, hs.fresh.sessionId, hs.fresh.blocked, rfl, rfl⟩
    have hm := merge o c.cfg ht hsil hlog hfr c.q r' c2 e
    have e1 := recvReq_shift o c.cfg (pushFresh s pid false) c.q [] r' false
    have e2 := recvReq_shift o c.cfg (pushFresh s pid e) c.q [] (r' ++ c2) e
    simp only [List.nil_append, pushFresh] at e1 e2 hm
    rw [e1, e2]
    have e3 := recvReq_re_irrel o c.cfg (pushFresh s pid false) c.q (r' ++ c2) e
    simp only [pushFresh] at e3
    rw [e3]
    cases hA : recvReq o c.cfg (pushFresh s pid false) c.q r' false with
    | error x =>
      simp only [pushFresh] at hA
      rw [hA] at hm ⊢
      simp only [andThen] at hm
      dsimp only
      generalize recvReq o c.cfg _ c.q (r' ++ c2) e = W at hm ⊢
      cases W with
      | error y => simp only [REq] at hm; simp [UEq, hm]
      | ok v => obtain ⟨a, b, d⟩ := v; simp [REq] at hm
    | ok v =>
      obtain ⟨s2, q2, ev1⟩ := v
      have hk := recvReq_keep o c.cfg _ _ _ _ _ _ _ hA
      simp only [pushFresh] at hA
      rw [hA] at hm ⊢
      dsimp only
      rw [uniCore_push_id o { c with q := q2 } s2 c2 e pid (by rw [hk.1]; rfl) (by rw [hk.2.1]; rfl)]
      dsimp only
      rw [recvReq_shift2]
      simp only [andThen] at hm
      generalize recvReq o c.cfg _ c.q (r' ++ c2) e = W at hm ⊢
      cases hB : recvReq o c.cfg s2 q2 c2 e with
      | error x =>
        rw [hB] at hm
        cases W with
        | error y => simp only [REq] at hm; simp [UEq, hm]
        | ok w => obtain ⟨a, b, d⟩ := w; simp [REq] at hm
      | ok w =>
        obtain ⟨s3, q3, ev2⟩ := w
        rw [hB] at hm
        cases W with
        | error y => simp [REq] at hm
        | ok u =>
          obtain ⟨a, b, d⟩ := u
          simp only [REq] at hm
          obtain ⟨rfl, rfl, hn⟩ := hm
          simp only [UEq, List.nil_append, true_and]
          exact hn


/-! ### unknown stream types: everything is discarded -/

def KnownType (t : Nat) : Prop := t = 0 ∨ t = 1 ∨ t = 2 ∨ t = 3 ∨ t = 0x54

theorem uniLoop_unknown (ea : Bool) (fuel : Nat) (c : Conn σ) (s : Stream) (rest : Bytes) (t : Nat)
    (ht : s.streamType = some t) (hk : ¬ KnownType t) :
    uniLoop o ea (fuel + 2) c s rest [] = .ok (.brk c s [] []) := by
  have h0 : t ≠ 0 := fun h => hk (.inl h)
  have h1 : t ≠ 1 := fun h => hk (.inr (.inl h))
  have h2 : t ≠ 2 := fun h => hk (.inr (.inr (.inl h)))
  have h3 : t ≠ 3 := fun h => hk (.inr (.inr (.inr (.inl h))))
  have h54 : t ≠ 0x54 := fun h => hk (.inr (.inr (.inr (.inr h))))
  have hloop : isLoopingType s.streamType = false := by simp [isLoopingType, ht, h0, h1, h54]
  rw [uniLoop_succ]
  by_cases hr : rest = []
  · subst hr; simp [hloop]
  · simp only [hloop, hr, and_false, ↓reduceIte, uniType, ht]
    split
    all_goals first
      | (rename_i h; simp [ht] at h; omega)
      | (rw [uniLoop_succ]; simp [hloop])

theorem uniCore_unknown_first (c : Conn σ) {s : Stream} (hs : UniFresh s) (P r : Bytes) (ea : Bool) (t : Nat)
    (hp : pullVarint P = some (t, r)) (hk : ¬ KnownType t) :
    uniCore o c s P ea = .ok (c, { s with buffer := [], receivingEnded := ea, streamType := some t }, [], []) := by
  have h0 : t ≠ 0 := fun h => hk (.inl h)
  have h1 : t ≠ 1 := fun h => hk (.inr (.inl h))
  have h2 : t ≠ 2 := fun h => hk (.inr (.inr (.inl h)))
  have h3 : t ≠ 3 := fun h => hk (.inr (.inr (.inr (.inl h))))
  have h54 : t ≠ 0x54 := fun h => hk (.inr (.inr (.inr (.inr h))))
  have hne : P ≠ [] := by intro h; subst h; simp [pullVarint] at hp
  have this := uniLoop_unknown o ea (P.length - 1) c
    { s with buffer := [], receivingEnded := ea, streamType := some t } [] t rfl hk
  have hl : P.length - 1 + 2 = P.length + 1 := by
    have : P.length ≠ 0 := fun h => hne (List.length_eq_zero_iff.mp h)
    omega
  rw [hl] at this
  have hloop : uniLoop o ea (P.length + 2) c { s with buffer := [], receivingEnded := ea } P [] =
      .ok (.brk c { s with buffer := [], receivingEnded := ea, streamType := some t } [] []) := by
    rw [show P.length + 2 = (P.length + 1) + 1 from rfl, uniLoop_succ]
    simp only [hs.streamType, isLoopingType, hne, and_false, ↓reduceIte, uniType, hp, h0, h2, h3]
    split
    all_goals first
      | (rename_i h; simp at h; omega)
      | (rw [this])
  unfold uniCore
  simp only [hs.fresh.buffer, List.nil_append, hs.fresh.receivingEnded, Bool.false_or]
  rw [hloop]

theorem uniCore_unknown_next (c : Conn σ) (sa : Stream) (d : Bytes) (ea : Bool) (t : Nat)
    (ht : sa.streamType = some t) (hk : ¬ KnownType t) :
    uniCore o c sa d ea = .ok (c, { sa with buffer := [], receivingEnded := sa.receivingEnded || ea }, [], []) := by
  unfold uniCore
  rw [uniLoop_unknown o ea (sa.buffer ++ d).length c _ (sa.buffer ++ d) t]
  · exact ht
  · exact hk

theorem uni_merge_unknown (c : Conn σ) {s : Stream} (hs : UniFresh s) (P r c2 : Bytes) (e : Bool) (t : Nat)
    (hp : pullVarint P = some (t, r)) (hk : ¬ KnownType t) :
    UEq (uniSeq o c s P c2 e) (uniCore o c s (P ++ c2) e) := by
  unfold uniSeq
  rw [uniCore_unknown_first o c hs P r false t hp hk,
    uniCore_unknown_first o c hs (P ++ c2) (r ++ c2) e t (pullVarint_append c2 hp) hk]
  dsimp only
  rw [uniCore_unknown_next o c _ c2 e t rfl hk]
  simp [UEq, NEq.refl]


/-! ### QPACK decoder stream (type 3): unframed bytes fed to the encoder -/

/-- the decoder-stream consumer treats its input as one byte stream -/
def DecAdditive (o : Oracle σ) : Prop :=
  (∀ q, o.feedDecoder q [] = (true, q)) ∧
  ∀ q a b, match o.feedDecoder q a with
    | (false, _) => (o.feedDecoder q (a ++ b)).1 = false
    | (true, q1) => o.feedDecoder q (a ++ b) = o.feedDecoder q1 b

theorem uniLoop_nil_nonloop (ea : Bool) (fuel : Nat) (c : Conn σ) (s : Stream) (unb : List Nat)
    (h : isLoopingType s.streamType = false) : uniLoop o ea fuel c s [] unb = .ok (.brk c s [] unb) := by
  cases fuel with
  | zero => rfl
  | succ n => rw [uniLoop_succ]; simp [h]

theorem uniCore_dec_first (c : Conn σ) {s : Stream} (hs : UniFresh s) (P r : Bytes) (ea : Bool)
    (hp : pullVarint P = some (3, r)) :
    uniCore o c s P ea =
      if c.peerDecoder.isSome then .error (.h3 0x103)
      else match o.feedDecoder c.q r with
        | (false, _) => .error (.h3 0x202)
        | (true, q1) =>
          .ok ({ c with peerDecoder := some s.streamId, q := q1 },
               { s with buffer := [], receivingEnded := ea, streamType := some 3 }, [], []) := by
  have hne : P ≠ [] := by intro h; subst h; simp [pullVarint] at hp
  unfold uniCore
  simp only [hs.fresh.buffer, List.nil_append, hs.fresh.receivingEnded, Bool.false_or]
  rw [show P.length + 2 = (P.length + 1) + 1 from rfl, uniLoop_succ]
  simp only [hs.streamType, isLoopingType, hne, and_false, ↓reduceIte, uniType, hp]
  simp only [reduceCtorEq, ↓reduceIte, Nat.reduceEqDiff, Stream.streamId]
  by_cases hd : c.peerDecoder.isSome = true
  · simp [hd]
  · simp only [hd, Bool.false_eq_true, ↓reduceIte]
    cases hf : o.feedDecoder c.q r with
    | mk b q1 =>
      cases b with
      | false => rfl
      | true =>
        dsimp only
        rw [uniLoop_nil_nonloop o ea _ _ _ _ (by simp [isLoopingType])]

theorem uniCore_dec_next (c : Conn σ) (sa : Stream) (d : Bytes) (ea : Bool) (ht : sa.streamType = some 3) :
    uniCore o c sa d ea =
      if sa.buffer ++ d = [] then
        .ok (c, { sa with buffer := [], receivingEnded := sa.receivingEnded || ea }, [], [])
      else match o.feedDecoder c.q (sa.buffer ++ d) with
        | (false, _) => .error (.h3 0x202)
        | (true, q1) =>
          .ok ({ c with q := q1 }, { sa with buffer := [], receivingEnded := sa.receivingEnded || ea }, [], []) := by
  unfold uniCore
  rw [show (sa.buffer ++ d).length + 2 = ((sa.buffer ++ d).length + 1) + 1 from rfl, uniLoop_succ]
  by_cases hb : sa.buffer ++ d = []
  · simp [hb, ht, isLoopingType]
  · simp only [ht, isLoopingType, hb, uniType]
    simp only [reduceCtorEq, ↓reduceIte, Nat.reduceEqDiff, decide_false, Bool.or_self, and_false]
    cases hf : o.feedDecoder c.q (sa.buffer ++ d) with
    | mk b q1 =>
      cases b with
      | false => rfl
      | true =>
        dsimp only
        rw [uniLoop_nil_nonloop o ea _ _ _ _ (by simp [isLoopingType, ht])]

theorem uni_merge_dec (hadd : DecAdditive o) (c : Conn σ) {s : Stream} (hs : UniFresh s) (P r c2 : Bytes) (e : Bool)
    (hp : pullVarint P = some (3, r)) :
    UEq (uniSeq o c s P c2 e) (uniCore o c s (P ++ c2) e) := by
  unfold uniSeq
  rw [uniCore_dec_first o c hs P r false hp,
    uniCore_dec_first o c hs (P ++ c2) (r ++ c2) e (pullVarint_append c2 hp)]
  by_cases hd : c.peerDecoder.isSome = true
  · simp [hd, UEq]
  · simp only [hd, Bool.false_eq_true, ↓reduceIte]
    have h2 := hadd.2 c.q r c2
    cases hf : o.feedDecoder c.q r with
    | mk b q1 =>
      rw [hf] at h2
      cases b with
      | false =>
        dsimp only at h2 ⊢
        cases hw : o.feedDecoder c.q (r ++ c2) with
        | mk b2 q2 => rw [hw] at h2; dsimp only at h2; subst h2; simp [UEq]
      | true =>
        dsimp only at h2 ⊢
        rw [uniCore_dec_next o _ _ c2 e rfl]
        by_cases hc2 : c2 = []
        · subst hc2
          simp only [List.append_nil, ↓reduceIte, Bool.false_or] at h2 ⊢
          rw [h2, hadd.1 q1]
          simp [UEq, NEq.refl]
        · simp only [List.nil_append, hc2, ↓reduceIte, Bool.false_or]
          rw [h2]
          cases o.feedDecoder q1 c2 with
          | mk b3 q3 => cases b3 <;> simp [UEq, NEq.refl]


/-! ### QPACK encoder stream (type 2) -/

/-- chunk-additive QPACK encoder-stream consumer: feeding `a ++ b` is feeding `a`
    then `b` — same final decoder state, unblocked ids concatenated, an error in
    either part is an error of the whole -/
def EncAdditive (o : Oracle σ) : Prop :=
  (∀ q, o.feedEncoder q [] = (.unblocked [], q)) ∧
  ∀ q a b, match o.feedEncoder q a with
    | (.error, _) => (o.feedEncoder q (a ++ b)).1 = .error
    | (.unblocked ids1, q1) =>
      match o.feedEncoder q1 b with
      | (.error, _) => (o.feedEncoder q (a ++ b)).1 = .error
      | (.unblocked ids2, q2) => o.feedEncoder q (a ++ b) = (.unblocked (ids1 ++ ids2), q2)

theorem uniCore_enc_first (c : Conn σ) {s : Stream} (hs : UniFresh s) (P r : Bytes) (ea : Bool)
    (hp : pullVarint P = some (2, r)) :
    uniCore o c s P ea =
      if c.peerEncoder.isSome then .error (.h3 0x103)
      else match o.feedEncoder c.q r with
        | (.error, _) => .error (.h3 0x201)
        | (.unblocked ids, q1) =>
          .ok ({ c with peerEncoder := some s.streamId, q := q1 },
               { s with buffer := [], receivingEnded := ea, streamType := some 2 }, ids, []) := by
  have hne : P ≠ [] := by intro h; subst h; simp [pullVarint] at hp
  unfold uniCore
  simp only [hs.fresh.buffer, List.nil_append, hs.fresh.receivingEnded, Bool.false_or]
  rw [show P.length + 2 = (P.length + 1) + 1 from rfl, uniLoop_succ]
  simp only [hs.streamType, isLoopingType, hne, and_false, ↓reduceIte, uniType, hp]
  simp only [reduceCtorEq, ↓reduceIte, Nat.reduceEqDiff, Stream.streamId]
  by_cases hd : c.peerEncoder.isSome = true
  · simp [hd]
  · simp only [hd, Bool.false_eq_true, ↓reduceIte]
    cases hf : o.feedEncoder c.q r with
    | mk b q1 =>
      cases b with
      | error => rfl
      | unblocked ids =>
        dsimp only
        rw [uniLoop_nil_nonloop o ea _ _ _ _ (by simp [isLoopingType])]
        simp

theorem uniCore_enc_next (c : Conn σ) (sa : Stream) (d : Bytes) (ea : Bool) (ht : sa.streamType = some 2) :
    uniCore o c sa d ea =
      if sa.buffer ++ d = [] then
        .ok (c, { sa with buffer := [], receivingEnded := sa.receivingEnded || ea }, [], [])
      else match o.feedEncoder c.q (sa.buffer ++ d) with
        | (.error, _) => .error (.h3 0x201)
        | (.unblocked ids, q1) =>
          .ok ({ c with q := q1 }, { sa with buffer := [], receivingEnded := sa.receivingEnded || ea }, ids, []) := by
  unfold uniCore
  rw [show (sa.buffer ++ d).length + 2 = ((sa.buffer ++ d).length + 1) + 1 from rfl, uniLoop_succ]
  by_cases hb : sa.buffer ++ d = []
  · simp [hb, ht, isLoopingType]
  · simp only [ht, isLoopingType, hb, uniType]
    simp only [reduceCtorEq, ↓reduceIte, Nat.reduceEqDiff, decide_false, Bool.or_self, and_false]
    cases hf : o.feedEncoder c.q (sa.buffer ++ d) with
    | mk b q1 =>
      cases b with
      | error => rfl
      | unblocked ids =>
        dsimp only
        rw [uniLoop_nil_nonloop o ea _ _ _ _ (by simp [isLoopingType, ht])]
        simp

theorem uni_merge_enc (hadd : EncAdditive o) (c : Conn σ) {s : Stream} (hs : UniFresh s) (P r c2 : Bytes) (e : Bool)
    (hp : pullVarint P = some (2, r)) :
    UEq (uniSeq o c s P c2 e) (uniCore o c s (P ++ c2) e) := by
  unfold uniSeq
  rw [uniCore_enc_first o c hs P r false hp,
    uniCore_enc_first o c hs (P ++ c2) (r ++ c2) e (pullVarint_append c2 hp)]
  by_cases hd : c.peerEncoder.isSome = true
  · simp [hd, UEq]
  · simp only [hd, Bool.false_eq_true, ↓reduceIte]
    have h2 := hadd.2 c.q r c2
    cases hf : o.feedEncoder c.q r with
    | mk b q1 =>
      rw [hf] at h2
      cases b with
      | error =>
        dsimp only at h2 ⊢
        cases hw : o.feedEncoder c.q (r ++ c2) with
        | mk b2 q2 => rw [hw] at h2; dsimp only at h2; subst h2; simp [UEq]
      | unblocked ids1 =>
        dsimp only at h2 ⊢
        rw [uniCore_enc_next o _ _ c2 e rfl]
        by_cases hc2 : c2 = []
        · subst hc2
          rw [hadd.1 q1] at h2
          dsimp only at h2
          simp only [List.append_nil, ↓reduceIte, Bool.false_or] at h2 ⊢
          rw [h2]
          simp [UEq, NEq.refl]
        · simp only [List.nil_append, hc2, ↓reduceIte, Bool.false_or]
          cases hf2 : o.feedEncoder q1 c2 with
          | mk b3 q3 =>
            rw [hf2] at h2
            cases b3 with
            | error =>
              dsimp only at h2 ⊢
              cases hw : o.feedEncoder c.q (r ++ c2) with
              | mk b2 q2 => rw [hw] at h2; dsimp only at h2; subst h2; simp [UEq]
            | unblocked ids2 =>
              dsimp only at h2 ⊢
              rw [h2]
              simp [UEq, NEq.refl]


/-! ### WebTransport unidirectional streams (type 0x54): session id, then raw data -/

def wtRun (c : Conn σ) (s1 : Stream) (r : Bytes) (ea : Bool) : URes σ :=
  match pullVarint r with
  | none => .ok (c, { s1 with buffer := r }, [], [])
  | some (sess, r') =>
    .ok (c, { s1 with sessionId := some sess, buffer := [] }, [],
      if r' ≠ [] ∨ ea = true then [.wt r' s1.streamId s1.receivingEnded sess] else [])

theorem uniCore_wt_first (c : Conn σ) {s : Stream} (hs : UniFresh s) (P r : Bytes) (ea : Bool)
    (hp : pullVarint P = some (0x54, r)) :
    uniCore o c s P ea = wtRun c { s with buffer := [], receivingEnded := ea, streamType := some 0x54 } r ea := by
  have hne : P ≠ [] := by intro h; subst h; simp [pullVarint] at hp
  unfold uniCore wtRun
  simp only [hs.fresh.buffer, List.nil_append, hs.fresh.receivingEnded, Bool.false_or]
  rw [show P.length + 2 = (P.length + 1) + 1 from rfl, uniLoop_succ]
  simp only [hs.streamType, isLoopingType, hne, and_false, ↓reduceIte, uniType, hp]
  simp only [reduceCtorEq, ↓reduceIte, Nat.reduceEqDiff, hs.fresh.sessionId]
  cases pullVarint r with
  | none => rfl
  | some x => obtain ⟨sess, r'⟩ := x; rfl

theorem uniCore_wt_noSession (c : Conn σ) (sa : Stream) (d : Bytes) (ea : Bool)
    (ht : sa.streamType = some 0x54) (hsess : sa.sessionId = none) :
    uniCore o c sa d ea =
      wtRun c { sa with buffer := [], receivingEnded := sa.receivingEnded || ea } (sa.buffer ++ d) ea := by
  unfold uniCore wtRun
  rw [show (sa.buffer ++ d).length + 2 = ((sa.buffer ++ d).length + 1) + 1 from rfl, uniLoop_succ]
  simp only [ht, isLoopingType, uniType]
  simp only [reduceCtorEq, ↓reduceIte, Nat.reduceEqDiff, hsess, decide_true, Bool.true_or,
    Bool.or_true, Bool.true_eq_false, false_and]
  cases pullVarint (sa.buffer ++ d) with
  | none => rfl
  | some x => obtain ⟨sess, r'⟩ := x; rfl

theorem uniCore_wt_session (c : Conn σ) (sb : Stream) (d : Bytes) (ea : Bool) (sess : Nat)
    (ht : sb.streamType = some 0x54) (hsess : sb.sessionId = some sess) :
    uniCore o c sb d ea =
      .ok (c, { sb with buffer := [], receivingEnded := sb.receivingEnded || ea }, [],
        if sb.buffer ++ d ≠ [] ∨ ea = true then
          [.wt (sb.buffer ++ d) sb.streamId (sb.receivingEnded || ea) sess] else []) := by
  unfold uniCore
  rw [show (sb.buffer ++ d).length + 2 = ((sb.buffer ++ d).length + 1) + 1 from rfl, uniLoop_succ]
  simp only [ht, isLoopingType, uniType]
  simp only [reduceCtorEq, ↓reduceIte, Nat.reduceEqDiff, hsess, decide_true, Bool.true_or,
    Bool.or_true, Bool.true_eq_false, false_and]

theorem uni_merge_wt (c : Conn σ) {s : Stream} (hs : UniFresh s) (P r c2 : Bytes) (e : Bool)
    (hp : pullVarint P = some (0x54, r)) :
    UEq (uniSeq o c s P c2 e) (uniCore o c s (P ++ c2) e) := by
  unfold uniSeq
  rw [uniCore_wt_first o c hs P r false hp,
    uniCore_wt_first o c hs (P ++ c2) (r ++ c2) e (pullVarint_append c2 hp)]
  unfold wtRun
  cases hsess : pullVarint r with
  | none =>
    dsimp only
    rw [uniCore_wt_noSession o c _ c2 e]
    rotate_left
    · rfl
    · exact hs.fresh.sessionId
    unfold wtRun
    simp only [Bool.false_or]
    generalize (match pullVarint (r ++ c2) with
      | none => _
      | some (sess, r') => _ : URes σ) = X
    cases X with
    | error x => simp [UEq]
    | ok v => obtain ⟨a, b, u, ev⟩ := v; simp [UEq, NEq.refl]
  | some x =>
    obtain ⟨sess, r'⟩ := x
    rw [pullVarint_append c2 hsess]
    dsimp only
    rw [uniCore_wt_session o c _ c2 e sess rfl rfl]
    simp only [UEq, List.nil_append, Bool.false_or, List.append_nil, true_and, Stream.streamId]
    intro sid
    by_cases h1 : r' = [] <;> by_cases h2 : c2 = [] <;> cases e <;>
      simp [h1, h2, normOf, normEv, Norm.append, Norm.empty, orFirst] <;> (try split) <;> simp


/-! ### the control stream (type 0): complete frames are handled one by one -/

/-- "fetch next frame … `_handle_control_frame`" until a frame is incomplete -/
def ctrlRun : Nat → Conn σ → Bytes → Outcome (Conn σ × Bytes)
  | 0, c, rest => .ok (c, rest)
  | f + 1, c, rest =>
    match parseFrame rest with
    | none => .ok (c, rest)
    | some (ft, fd, r) =>
      match handleControlFrame c ft fd with
      | .error e => .error e
      | .ok c1 => ctrlRun f c1 r

theorem parseFrame_append {x r p : Bytes} {t : Nat} (y : Bytes) (h : parseFrame x = some (t, p, r)) :
    parseFrame (x ++ y) = some (t, p, r ++ y) := by
  unfold parseFrame at h ⊢
  cases h1 : pullVarint x with
  | none => simp [h1] at h
  | some a =>
    obtain ⟨t', r1⟩ := a
    simp only [h1] at h
    cases h2 : pullVarint r1 with
    | none => simp [h2] at h
    | some b =>
      obtain ⟨n, r2⟩ := b
      simp only [h2] at h
      split at h
      · simp at h
      · rename_i hlen
        simp at h
        obtain ⟨rfl, rfl, rfl⟩ := h
        rw [pullVarint_append y h1]
        simp only [pullVarint_append y h2]
        have hl : n ≤ r2.length := by omega
        have : ¬ (r2 ++ y).length < n := by simp; omega
        simp only [this, ↓reduceIte]
        rw [List.take_append_of_le_length hl, List.drop_append_of_le_length hl]

theorem parseFrame_length {x r p : Bytes} {t : Nat} (h : parseFrame x = some (t, p, r)) : r.length < x.length := by
  unfold parseFrame at h
  cases h1 : pullVarint x with
  | none => simp [h1] at h
  | some a =>
    obtain ⟨t', r1⟩ := a
    simp only [h1] at h
    cases h2 : pullVarint r1 with
    | none => simp [h2] at h
    | some b =>
      obtain ⟨n, r2⟩ := b
      simp only [h2] at h
      split at h
      · simp at h
      · simp at h
        obtain ⟨_, _, rfl⟩ := h
        have := pullVarint_length h1
        have := pullVarint_length h2
        simp; omega

theorem ctrlRun_fuel : ∀ (f1 f2 : Nat) (c : Conn σ) (rest : Bytes), rest.length < f1 → rest.length < f2 →
    ctrlRun f1 c rest = ctrlRun f2 c rest := by
  intro f1
  induction f1 with
  | zero => intro f2 c rest h; omega
  | succ n ih =>
    intro f2 c rest h1 h2
    cases f2 with
    | zero => omega
    | succ m =>
      simp only [ctrlRun]
      cases hp : parseFrame rest with
      | none => rfl
      | some v =>
        obtain ⟨ft, fd, r⟩ := v
        dsimp only
        cases handleControlFrame c ft fd with
        | error e => rfl
        | ok c1 =>
          have := parseFrame_length hp
          exact ih m c1 r (by omega) (by omega)

/-- the control-stream consumer with enough fuel -/
def ctrl (c : Conn σ) (rest : Bytes) : Outcome (Conn σ × Bytes) := ctrlRun (rest.length + 1) c rest

theorem ctrl_append : ∀ (n : Nat) (c : Conn σ) (x y : Bytes), x.length ≤ n →
    ctrl c (x ++ y) =
      match ctrl c x with
      | .error e => .error e
      | .ok (c', r') => ctrl c' (r' ++ y) := by
  intro n
  induction n with
  | zero =>
    intro c x y h
    have : x = [] := List.length_eq_zero_iff.mp (by omega)
    subst this
    simp [ctrl, ctrlRun, parseFrame, pullVarint]
  | succ n ih =>
    intro c x y h
    unfold ctrl
    simp only [ctrlRun]
    cases hp : parseFrame x with
    | none => rfl
    | some v =>
      obtain ⟨ft, fd, r⟩ := v
      rw [parseFrame_append y hp]
      dsimp only
      cases hc : handleControlFrame c ft fd with
      | error e => rfl
      | ok c1 =>
        dsimp only
        have hl := parseFrame_length hp
        rw [ctrlRun_fuel (x ++ y).length ((r ++ y).length + 1) c1 (r ++ y) (by simp; omega) (by omega)]
        rw [ctrlRun_fuel x.length (r.length + 1) c1 r hl (by omega)]
        exact ih c1 r y (by omega)


theorem uniLoop_ctrl : ∀ (fuel : Nat) (c : Conn σ) (s : Stream) (rest : Bytes), s.streamType = some 0 →
    uniLoop o false fuel c s rest [] =
      match ctrlRun fuel c rest with
      | .error e => .error e
      | .ok (c', rest') => .ok (.brk c' s rest' []) := by
  intro fuel
  induction fuel with
  | zero => intro c s rest _; rfl
  | succ n ih =>
    intro c s rest ht
    rw [uniLoop_succ]
    simp only [ht, isLoopingType, uniType, ctrlRun]
    simp only [reduceCtorEq, ↓reduceIte, decide_true, Bool.or_true, Bool.true_or, Bool.true_eq_false,
      false_and, Bool.false_eq_true]
    cases parseFrame rest with
    | none => rfl
    | some v =>
      obtain ⟨ft, fd, r⟩ := v
      dsimp only
      cases handleControlFrame c ft fd with
      | error e => rfl
      | ok c1 => exact ih c1 s r ht

theorem uniCore_ctrl_first (c : Conn σ) {s : Stream} (hs : UniFresh s) (P r : Bytes)
    (hp : pullVarint P = some (0, r)) :
    uniCore o c s P false =
      if c.peerControl.isSome then .error (.h3 0x103)
      else match ctrl { c with peerControl := some s.streamId } r with
        | .error e => .error e
        | .ok (c', rest') =>
          .ok (c', { s with buffer := rest', receivingEnded := false, streamType := some 0 }, [], []) := by
  have hne : P ≠ [] := by intro h; subst h; simp [pullVarint] at hp
  have hl := pullVarint_length hp
  unfold uniCore
  simp only [hs.fresh.buffer, List.nil_append, hs.fresh.receivingEnded, Bool.false_or]
  rw [show P.length + 2 = (P.length + 1) + 1 from rfl, uniLoop_succ]
  simp only [hs.streamType, isLoopingType, hne, and_false, ↓reduceIte, uniType, hp]
  simp only [reduceCtorEq, ↓reduceIte, Nat.reduceEqDiff, Stream.streamId, Bool.false_eq_true]
  by_cases hd : c.peerControl.isSome = true
  · simp [hd]
  · simp only [hd, Bool.false_eq_true, ↓reduceIte]
    unfold ctrl
    rw [ctrlRun_fuel (r.length + 1) P.length _ r (by omega) hl]
    obtain ⟨k, hk⟩ : ∃ k, P.length = k + 1 := ⟨P.length - 1, by omega⟩
    rw [hk]
    simp only [ctrlRun]
    cases hpf : parseFrame r with
    | none => rfl
    | some v =>
      obtain ⟨ft, fd, r1⟩ := v
      dsimp only
      cases hcf : handleControlFrame { c with peerControl := some s.p.streamId } ft fd with
      | error e => rfl
      | ok c1 =>
        dsimp only
        have hl1 := parseFrame_length hpf
        rw [uniLoop_ctrl o _ c1 _ r1 rfl]
        rw [ctrlRun_fuel (k + 1 + 1) k c1 r1 (by omega) (by omega)]
        cases ctrlRun k c1 r1 with
        | error e => rfl
        | ok w => obtain ⟨a, b⟩ := w; rfl


theorem uniCore_ctrl_next (c : Conn σ) (sa : Stream) (d : Bytes) (ht : sa.streamType = some 0) :
    uniCore o c sa d false =
      match ctrl c (sa.buffer ++ d) with
      | .error e => .error e
      | .ok (c', rest') => .ok (c', { sa with buffer := rest', receivingEnded := sa.receivingEnded || false }, [], []) := by
  unfold uniCore ctrl
  rw [uniLoop_ctrl o _ c _ (sa.buffer ++ d)]
  rotate_left
  · exact ht
  rw [ctrlRun_fuel ((sa.buffer ++ d).length + 2) ((sa.buffer ++ d).length + 1) c _ (by omega) (by omega)]
  cases ctrlRun ((sa.buffer ++ d).length + 1) c (sa.buffer ++ d) with
  | error e => rfl
  | ok w => obtain ⟨a, b⟩ := w; rfl

/-- control stream, no FIN (closing it is a connection error in every chunking,
    H3_CLOSED_CRITICAL_STREAM, but an earlier frame error may win in some) -/
theorem uni_merge_ctrl (c : Conn σ) {s : Stream} (hs : UniFresh s) (P r c2 : Bytes)
    (hp : pullVarint P = some (0, r)) :
    UEq (uniSeq o c s P c2 false) (uniCore o c s (P ++ c2) false) := by
  unfold uniSeq
  rw [uniCore_ctrl_first o c hs P r hp,
    uniCore_ctrl_first o c hs (P ++ c2) (r ++ c2) (pullVarint_append c2 hp)]
  by_cases hd : c.peerControl.isSome = true
  · simp [hd, UEq]
  · simp only [hd, Bool.false_eq_true, ↓reduceIte]
    rw [ctrl_append r.length _ r c2 (Nat.le_refl _)]
    cases hc : ctrl { c with peerControl := some s.streamId } r with
    | error e => simp [UEq]
    | ok w =>
      obtain ⟨c', r'⟩ := w
      dsimp only
      rw [uniCore_ctrl_next o c' _ c2 rfl]
      dsimp only
      cases ctrl c' (r' ++ c2) with
      | error e => simp [UEq]
      | ok u => obtain ⟨a, b⟩ := u; simp [UEq, NEq.refl]


/-! ### all stream types together, any number of deliveries -/

/-- two consecutive deliveries on a fresh unidirectional stream = one delivery of the
    concatenation; `hctl`: a FIN is only considered on streams that are not the control stream -/
theorem uni_merge (hdec : DecAdditive o) (henc : EncAdditive o) (c : Conn σ)
    (ht : c.cfg.k.truncatedNoError = false) (hsil : c.cfg.k.silentFrameNoEnd = false)
    (hlog : c.cfg.k.logDecode = false) {s : Stream} (hs : UniFresh s) (P c2 : Bytes) (e : Bool)
    (hctl : e = false ∨ ∀ r, pullVarint (P ++ c2) ≠ some (0, r)) :
    UEq (uniSeq o c s P c2 e) (uniCore o c s (P ++ c2) e) := by
  cases hp : pullVarint P with
  | none => exact uni_merge_noType o c hs P c2 e hp
  | some v =>
    obtain ⟨t, r⟩ := v
    by_cases h0 : t = 0
    · subst h0
      have he : e = false := by
        rcases hctl with h | h
        · exact h
        · exact absurd (pullVarint_append c2 hp) (h _)
      subst he
      exact uni_merge_ctrl o c hs P r c2 hp
    · by_cases h1 : t = 1
      · subst h1; exact uni_merge_push o c ht hsil hlog hs P r c2 e hp
      · by_cases h2 : t = 2
        · subst h2; exact uni_merge_enc o henc c hs P r c2 e hp
        · by_cases h3 : t = 3
          · subst h3; exact uni_merge_dec o hdec c hs P r c2 e hp
          · by_cases h54 : t = 0x54
            · subst h54; exact uni_merge_wt o c hs P r c2 e hp
            · exact uni_merge_unknown o c hs P r c2 e t hp (by
                intro hk; rcases hk with h | h | h | h | h <;> contradiction)

def uAndThen (x : URes σ) (f : Conn σ → Stream → URes σ) : URes σ :=
  match x with
  | .error e => .error e
  | .ok (c, s, u, ev) =>
    match f c s with
    | .error e => .error e
    | .ok (c', s', u', ev') => .ok (c', s', u ++ u', ev ++ ev')

/-- deliver `(bytes, fin)` one after the other on a unidirectional stream -/
def uniFeed : Conn σ → Stream → List (Bytes × Bool) → URes σ
  | c, s, [] => .ok (c, s, [], [])
  | c, s, (d, f) :: r => uAndThen (uniCore o c s d f) (fun c1 s1 => uniFeed c1 s1 r)

theorem uniSeq_eq (c : Conn σ) (s : Stream) (c1 c2 : Bytes) (e : Bool) :
    uniSeq o c s c1 c2 e = uAndThen (uniCore o c s c1 false) (fun ca sa => uniCore o ca sa c2 e) := by
  unfold uniSeq uAndThen
  cases uniCore o c s c1 false with
  | error x => rfl
  | ok v => obtain ⟨a, b, u, ev⟩ := v; rfl

theorem UEq.uAndThen {x y : URes σ} (h : UEq x y) (f : Conn σ → Stream → URes σ) :
    UEq (uAndThen x f) (uAndThen y f) := by
  cases x with
  | error a => cases y with
    | error b => simp [UEq] at h; subst h; exact UEq.refl _
    | ok v => simp [UEq] at h
  | ok v => cases y with
    | error b => simp [UEq] at h
    | ok w =>
      obtain ⟨c1, s1, u1, e1⟩ := v; obtain ⟨c2, s2, u2, e2⟩ := w
      simp [UEq] at h
      obtain ⟨rfl, rfl, rfl, hn⟩ := h
      simp only [AQ.H3.uAndThen]
      cases f c1 s1 with
      | error z => simp [UEq]
      | ok u => obtain ⟨a, b, d, g⟩ := u; simp [UEq]; exact NEq.append hn (NEq.refl _)

theorem uAndThen_ret (x : URes σ) : uAndThen x (fun c s => .ok (c, s, [], [])) = x := by
  cases x with
  | error e => rfl
  | ok v => obtain ⟨a, b, u, ev⟩ := v; simp [uAndThen]

theorem uAndThen_assoc (x : URes σ) (f g : Conn σ → Stream → URes σ) :
    uAndThen (uAndThen x f) g = uAndThen x (fun c s => uAndThen (f c s) g) := by
  cases x with
  | error a => rfl
  | ok v =>
    obtain ⟨c, s, u, e⟩ := v
    simp only [uAndThen]
    cases f c s with
    | error z => rfl
    | ok w =>
      obtain ⟨c2, s2, u2, e2⟩ := w
      simp only
      cases g c2 s2 with
      | error z => rfl
      | ok w3 => obtain ⟨c3, s3, u3, e3⟩ := w3; simp [List.append_assoc]

theorem uniFeed_append (a b : List (Bytes × Bool)) : ∀ (c : Conn σ) (s : Stream),
    uniFeed o c s (a ++ b) = uAndThen (uniFeed o c s a) (fun c1 s1 => uniFeed o c1 s1 b) := by
  induction a with
  | nil =>
    intro c s
    simp only [List.nil_append, uniFeed, uAndThen]
    cases uniFeed o c s b with
    | error z => rfl
    | ok w => obtain ⟨c3, s3, u3, e3⟩ := w; simp
  | cons x r ih =>
    intro c s
    obtain ⟨d, f⟩ := x
    simp only [List.cons_append, uniFeed]
    rw [uAndThen_assoc]
    congr 1
    funext c1 s1
    exact ih c1 s1

theorem uniFeed_single (c : Conn σ) (s : Stream) (d : Bytes) (f : Bool) :
    uniFeed o c s [(d, f)] = uniCore o c s d f := by
  simp [uniFeed, uAndThen_ret]

theorem uniCore_nil_fresh (c : Conn σ) {s : Stream} (hs : UniFresh s) :
    uniCore o c s [] false = .ok (c, s, [], []) := by
  rw [uniCore_noType o c hs [] false (by simp [pullVarint])]
  have h1 := hs.fresh.buffer
  have h2 := hs.fresh.receivingEnded
  congr
  all_goals first | exact h2.symm | exact h1.symm | (cases s; simp_all)

theorem uniFeed_nofin (hdec : DecAdditive o) (henc : EncAdditive o) (c : Conn σ)
    (ht : c.cfg.k.truncatedNoError = false) (hsil : c.cfg.k.silentFrameNoEnd = false)
    (hlog : c.cfg.k.logDecode = false) {s : Stream} (hs : UniFresh s) (chunks : List Bytes) :
    UEq (uniFeed o c s (chunks.map (·, false))) (uniCore o c s chunks.flatten false) := by
  suffices h : ∀ rc : List Bytes,
      UEq (uniFeed o c s (rc.reverse.map (·, false))) (uniCore o c s rc.reverse.flatten false) by
    have := h chunks.reverse
    rwa [List.reverse_reverse] at this
  intro rc
  induction rc with
  | nil =>
    simp only [List.reverse_nil, List.map_nil, uniFeed, List.flatten_nil]
    rw [uniCore_nil_fresh o c hs]
    exact UEq.refl _
  | cons d ds ih =>
    rw [List.reverse_cons, List.map_append, uniFeed_append]
    simp only [List.map_cons, List.map_nil, uniFeed_single, List.flatten_append, List.flatten_cons,
      List.flatten_nil, List.append_nil]
    refine UEq.trans (UEq.uAndThen ih _) ?_
    rw [← uniSeq_eq]
    exact uni_merge o hdec henc c ht hsil hlog hs _ d false (.inl rfl)

theorem uniFeed_chunks (hdec : DecAdditive o) (henc : EncAdditive o) (c : Conn σ)
    (ht : c.cfg.k.truncatedNoError = false) (hsil : c.cfg.k.silentFrameNoEnd = false)
    (hlog : c.cfg.k.logDecode = false) {s : Stream} (hs : UniFresh s) (chunks : List Bytes) (last : Bytes)
    (fin : Bool) (hctl : fin = false ∨ ∀ r, pullVarint (chunks.flatten ++ last) ≠ some (0, r)) :
    UEq (uniFeed o c s (chunks.map (·, false) ++ [(last, fin)]))
        (uniCore o c s (chunks.flatten ++ last) fin) := by
  rw [uniFeed_append]
  simp only [uniFeed_single]
  refine UEq.trans (UEq.uAndThen (uniFeed_nofin o hdec henc c ht hsil hlog hs chunks) _) ?_
  rw [← uniSeq_eq]
  exact uni_merge o hdec henc c ht hsil hlog hs _ last fin hctl

end
end AQ.H3
