/-
  (b) STREAM / RESET_STREAM frames against the ADVERTISED limits, on every state
  reachable from a connection without streams: which error code, and that a
  refused frame changes nothing besides the stream lookup.
-/
import AQ.Proofs.FlowRecvRun2

namespace AQ.Flow
open AQ AQ.Stream AQ.RangeSet

/-- highest offset the receiver has recorded for `sid` (0: no stream object) -/
def recvHighest (c : Conn) (sid : Nat) : Nat :=
  match c.find? sid with | some st => st.recv.highest | none => 0

/-- final size the receiver knows for `sid` -/
def recvFinal (c : Conn) (sid : Nat) : Option Nat :=
  match c.find? sid with | some st => st.recv.finalSize | none => none

/-- the MAX_STREAMS kind that applies to a stream id -/
def countKind (sid : Nat) : LimitKind := if unidirectional sid then .streamsUni else .streamsBidi

theorem countLimit_eq (c : Conn) (sid : Nat) : countLimit c sid = (limOf c (countKind sid)).value := by
  unfold countLimit countKind; split <;> rfl

/-- the limits put on the wire up to now: connection, stream count (of the kind of
    `sid`), stream `sid` -/
structure Advertised (c0 : Conn) (outs : List Out) (sid : Nat) (Ld Lc Ls : Nat) : Prop where
  data : AdvConn c0 outs .data Ld
  count : AdvConn c0 outs (countKind sid) Lc
  stream : AdvStream c0 outs sid Ls

/-- the frame would open a new stream beyond the advertised stream count -/
def OverCount (c : Conn) (sid Lc : Nat) : Prop := c.find? sid = none ∧ sid / 4 + 1 > Lc

/-- stream lookup on a reachable state, in terms of the advertised limits -/
theorem lookup_adv (c0 : Conn) (hq : FixedQ c0) (h0 : c0.streams = []) (ops : List Op) (sid Ld Lc Ls : Nat)
    (ha : Advertised c0 (run c0 ops).2 sid Ld Lc Ls)
    (hnf : sid ∉ (runState c0 ops).finishedIds)
    (hpeer : clientInitiated sid ≠ (runState c0 ops).isClient ∨ (runState c0 ops).find? sid ≠ none) :
    (OverCount (runState c0 ops) sid Lc ∧
      getOrCreateStream (runState c0 ops) sid = .error (.conn STREAM_LIMIT_ERROR)) ∨
    (¬ OverCount (runState c0 ops) sid Lc ∧
      ∃ c' st, getOrCreateStream (runState c0 ops) sid = .ok (c', st) ∧
        st.maxLocal = Ls ∧ c'.localMaxData.value = Ld ∧
        c'.localMaxData.used = (runState c0 ops).localMaxData.used ∧
        st.recv.highest = recvHighest (runState c0 ops) sid ∧
        st.recv.finalSize = recvFinal (runState c0 ops) sid ∧
        LookupOnly (runState c0 ops) c' sid) := by
  have e1 : (runState c0 ops).localMaxData.value = Ld := (advConn_run c0 hq.1 .data ops).unique ha.data
  have e2 : countLimit (runState c0 ops) sid = Lc := by
    rw [countLimit_eq]; exact (advConn_run c0 hq.1 (countKind sid) ops).unique ha.count
  unfold OverCount
  rcases getOrCreateStream_cases (runState c0 ops) sid with
    ⟨h, _⟩ | ⟨_, st, hf, hg⟩ | ⟨_, hn, hi, _⟩ | ⟨_, hn, _, hl, hg⟩ | ⟨_, hn, _, hl, c', st, hg, hnew⟩
  · exact absurd h hnf
  · right
    obtain ⟨hm, hsid⟩ := Conn.find?_mem hf
    have := advStream_run c0 hq h0 ops st hm
    rw [hsid] at this
    refine ⟨by simp [hf], _, st, hg, this.unique ha.stream, e1, rfl, ?_, ?_, .inl rfl⟩
    · simp [recvHighest, hf]
    · simp [recvFinal, hf]
  · rcases hpeer with h | h
    · exact absurd hi h
    · exact absurd hn h
  · left; exact ⟨⟨hn, by omega⟩, hg⟩
  · right
    have hcfg : Cfg c0 (runState c0 ops) := by
      have := (run_Q hq [] ⟨by simp [h0, ml], by simp [h0, ml], by intro _ _ _ v hv; simp [msdOf] at hv⟩ ops).2
      rwa [run_fst] at this
    have hls : initLocal c0 sid = Ls := (advStream_fresh c0 hq h0 ops sid hn hnf).unique ha.stream
    refine ⟨by intro ⟨_, h⟩; omega, c', st, hg, ?_, ?_, ?_, ?_, ?_, .inr ⟨st, hnew⟩⟩
    · rw [hnew.maxLocal, hcfg.initLocal, hls]
    · rw [hnew.lmd, e1]
    · rw [hnew.lmd]
    · simp [recvHighest, hn, hnew.recv]
    · simp [recvFinal, hn, hnew.recv]

/-! ## the state after a refused frame -/

theorem rxStream_state_of_err (c : Conn) (sid off : Nat) (data : Bytes) (fin : Bool) :
    (rxStream c sid off data fin).2.err ≠ none →
    ((rxStream c sid off data fin).1 = c ∨
     ∃ st, getOrCreateStream c sid = .ok ((rxStream c sid off data fin).1, st)) := by
  unfold rxStream
  simp only []
  by_cases h1 : off + data.length > UINT_VAR_MAX
  · simp only [if_pos h1]; exact fun _ => .inl trivial
  simp only [if_neg h1]
  by_cases h2 : (!c.canReceive sid) = true
  · simp only [if_pos h2]; exact fun _ => .inl trivial
  simp only [if_neg h2]
  cases hg : getOrCreateStream c sid with
  | error e => exact fun _ => .inl rfl
  | ok p =>
    obtain ⟨c', st⟩ := p
    simp only []
    by_cases h3 : off + data.length > st.maxLocal
    · simp only [if_pos h3]; exact fun _ => .inr ⟨st, rfl⟩
    simp only [if_neg h3]
    by_cases h4 : c'.localMaxData.used + (off + data.length - st.recv.highest) > c'.localMaxData.value
    · simp only [if_pos h4]; exact fun _ => .inr ⟨st, rfl⟩
    simp only [if_neg h4]
    cases hh : handleFrame st.recv ⟨off, data, fin⟩ with
    | error e => exact fun _ => .inr ⟨st, rfl⟩
    | ok q => intro h; exact absurd rfl h

theorem rxResetStream_state_of_err (c : Conn) (sid z : Nat) :
    (rxResetStream c sid z).2.err ≠ none →
    ((rxResetStream c sid z).1 = c ∨ ∃ st, getOrCreateStream c sid = .ok ((rxResetStream c sid z).1, st)) := by
  unfold rxResetStream
  simp only []
  by_cases h2 : (!c.canReceive sid) = true
  · simp only [if_pos h2]; exact fun _ => .inl trivial
  simp only [if_neg h2]
  cases hg : getOrCreateStream c sid with
  | error e => exact fun _ => .inl rfl
  | ok p =>
    obtain ⟨c', st⟩ := p
    simp only []
    by_cases h3 : z > st.maxLocal
    · simp only [if_pos h3]; exact fun _ => .inr ⟨st, rfl⟩
    simp only [if_neg h3]
    by_cases h4 : c'.localMaxData.used + (z - st.recv.highest) > c'.localMaxData.value
    · simp only [if_pos h4]; exact fun _ => .inr ⟨st, rfl⟩
    simp only [if_neg h4]
    cases hh : handleResetQ c'.quirks st.recv z with
    | error e => exact fun _ => .inr ⟨st, rfl⟩
    | ok q => intro h; exact absurd rfl h

/-! ## the decision against the advertised limits -/

/-- a frame whose data / final size ends at `stop` is beyond the advertised stream
    limit `Ls`, or the bytes it newly claims exceed the advertised connection limit `Ld` -/
def OverFlow (c : Conn) (sid stop Ld Ls : Nat) : Prop :=
  stop > Ls ∨ c.localMaxData.used + (stop - recvHighest c sid) > Ld

/-- outcome of a STREAM / RESET_STREAM frame: `fse` = it contradicts the known final size -/
structure Decision (c c' : Conn) (err : Option Err) (sid stop Ld Lc Ls : Nat) (fse : Prop) : Prop where
  streamLimit : err = some (.conn STREAM_LIMIT_ERROR) ↔ OverCount c sid Lc
  flowControl : err = some (.conn FLOW_CONTROL_ERROR) ↔ (¬ OverCount c sid Lc ∧ OverFlow c sid stop Ld Ls)
  finalSize : err = some (.conn FINAL_SIZE_ERROR) ↔
    (¬ OverCount c sid Lc ∧ ¬ OverFlow c sid stop Ld Ls ∧ fse)
  accepted : err = none ↔ (¬ OverCount c sid Lc ∧ ¬ OverFlow c sid stop Ld Ls ∧ ¬ fse)
  refused : err ≠ none → LookupOnly c c' sid

theorem decision_of {c c' cl : Conn} {err : Option Err} {sid stop Ld Lc Ls : Nat} {fse : Bool} {st : Strm}
    (hlook : (OverCount c sid Lc ∧ getOrCreateStream c sid = .error (.conn STREAM_LIMIT_ERROR) ∧
        err = some (.conn STREAM_LIMIT_ERROR)) ∨
      (¬ OverCount c sid Lc ∧ getOrCreateStream c sid = .ok (cl, st) ∧ LookupOnly c cl sid ∧
        err = if stop > Ls ∨ c.localMaxData.used + (stop - recvHighest c sid) > Ld then some (.conn FLOW_CONTROL_ERROR)
              else if fse then some (.conn FINAL_SIZE_ERROR) else none))
    (hstate : err ≠ none → (c' = c ∨ ∃ st', getOrCreateStream c sid = .ok (c', st'))) :
    Decision c c' err sid stop Ld Lc Ls (fse = true) := by
  rcases hlook with ⟨hoc, hg, he⟩ | ⟨hnoc, hg, hl, he⟩
  · subst he
    refine ⟨by simp [hoc], by simp [hoc, FLOW_CONTROL_ERROR, STREAM_LIMIT_ERROR],
      by simp [hoc, FINAL_SIZE_ERROR, STREAM_LIMIT_ERROR], by simp [hoc], ?_⟩
    intro h
    rcases hstate h with h1 | ⟨st', h1⟩
    · exact .inl h1
    · rw [hg] at h1; simp at h1
  · have hst : err ≠ none → LookupOnly c c' sid := by
      intro h
      rcases hstate h with h1 | ⟨st', h1⟩
      · exact .inl h1
      · rw [hg] at h1; simp at h1; rw [← h1.1]; exact hl
    by_cases ho : stop > Ls ∨ c.localMaxData.used + (stop - recvHighest c sid) > Ld
    · rw [if_pos ho] at he; subst he
      exact ⟨by simp [OverFlow, hnoc, FLOW_CONTROL_ERROR, STREAM_LIMIT_ERROR], by simp [OverFlow, hnoc, ho],
        by simp [OverFlow, ho, FLOW_CONTROL_ERROR, FINAL_SIZE_ERROR], by simp [OverFlow, ho], hst⟩
    · rw [if_neg ho] at he
      by_cases hf : fse = true
      · rw [if_pos hf] at he; subst he
        exact ⟨by simp [OverFlow, hnoc, FINAL_SIZE_ERROR, STREAM_LIMIT_ERROR], by simp [OverFlow, ho, FLOW_CONTROL_ERROR, FINAL_SIZE_ERROR],
          by simp [OverFlow, hnoc, ho, hf], by simp [OverFlow, hf], hst⟩
      · rw [if_neg hf] at he; subst he
        exact ⟨by simp [OverFlow, hnoc], by simp [OverFlow, ho], by simp [OverFlow, hf], by simp [OverFlow, hnoc, ho, hf], hst⟩

/-- (b) for STREAM frames -/
theorem rxStream_adv (c0 : Conn) (hq : FixedQ c0) (h0 : c0.streams = []) (ops : List Op)
    (sid off : Nat) (data : Bytes) (fin : Bool) (Ld Lc Ls : Nat)
    (ha : Advertised c0 (run c0 ops).2 sid Ld Lc Ls)
    (henc : off + data.length ≤ UINT_VAR_MAX) (hrecv : (runState c0 ops).canReceive sid = true)
    (hnf : sid ∉ (runState c0 ops).finishedIds)
    (hpeer : clientInitiated sid ≠ (runState c0 ops).isClient ∨ (runState c0 ops).find? sid ≠ none) :
    Decision (runState c0 ops) (rxStream (runState c0 ops) sid off data fin).1
      (rxStream (runState c0 ops) sid off data fin).2.err sid (off + data.length) Ld Lc Ls
      (frameFinalSizeError (recvFinal (runState c0 ops) sid) ⟨off, data, fin⟩ = true) := by
  have herr := rxStream_err (runState c0 ops) sid off data fin
  have h1 : ¬ off + data.length > UINT_VAR_MAX := by omega
  simp only [if_neg h1, hrecv, Bool.not_true, Bool.false_eq_true, if_false] at herr
  rcases lookup_adv c0 hq h0 ops sid Ld Lc Ls ha hnf hpeer with ⟨hoc, hg⟩ | ⟨hnoc, c', st, hg, e1, e2, e3, e4, e5, e6⟩
  · rw [hg] at herr
    exact decision_of (st := default) (cl := default) (.inl ⟨hoc, hg, herr⟩) (rxStream_state_of_err _ _ _ _ _)
  · rw [hg] at herr
    simp only [e1, e2, e3, e4, e5] at herr
    exact decision_of (.inr ⟨hnoc, hg, e6, herr⟩) (rxStream_state_of_err _ _ _ _ _)

/-- (b) for RESET_STREAM frames -/
theorem rxResetStream_adv (c0 : Conn) (hq : FixedQ c0) (h0 : c0.streams = []) (ops : List Op)
    (sid z : Nat) (Ld Lc Ls : Nat)
    (ha : Advertised c0 (run c0 ops).2 sid Ld Lc Ls)
    (hrecv : (runState c0 ops).canReceive sid = true)
    (hnf : sid ∉ (runState c0 ops).finishedIds)
    (hpeer : clientInitiated sid ≠ (runState c0 ops).isClient ∨ (runState c0 ops).find? sid ≠ none) :
    Decision (runState c0 ops) (rxResetStream (runState c0 ops) sid z).1
      (rxResetStream (runState c0 ops) sid z).2.err sid z Ld Lc Ls
      (resetFinalSizeError (recvFinal (runState c0 ops) sid) z = true) := by
  have herr := rxResetStream_err (runState c0 ops) sid z
  simp only [hrecv, Bool.not_true, Bool.false_eq_true, if_false] at herr
  rcases lookup_adv c0 hq h0 ops sid Ld Lc Ls ha hnf hpeer with ⟨hoc, hg⟩ | ⟨hnoc, c', st, hg, e1, e2, e3, e4, e5, e6⟩
  · rw [hg] at herr
    exact decision_of (st := default) (cl := default) (.inl ⟨hoc, hg, herr⟩) (rxResetStream_state_of_err _ _ _)
  · rw [hg] at herr
    simp only [e1, e2, e3, e4, e5] at herr
    exact decision_of (.inr ⟨hnoc, hg, e6, herr⟩) (rxResetStream_state_of_err _ _ _)

end AQ.Flow
