/-
  Lemmas about AQ.Model.RecvGate for AQ.Props.C02b.
-/
import AQ.Model.RecvGate

namespace AQ.RecvGate
open AQ

variable {σ : Type}

/-- a server that has not accepted any packet yet -/
def Core.firstServer (c : Core σ) : Bool := !c.isClient && c.state == .firstflight

/-- the core the cryptographic gate of packet `h` sees (`_initialize` done) -/
abbrev gateCore (c : Core σ) (h : Hdr) : Core σ := serverInit c h

/-- For a server still in FIRSTFLIGHT the arguments of the last `_initialize` are
    overwritten by the next Initial before anything reads them: forget them. -/
def norm (c : Core σ) : Core σ := { c with fresh := if c.firstServer then none else c.fresh }

/-- same connection as far as any later packet can tell -/
def Same (a b : Core σ) : Prop := norm a = norm b

theorem Same.refl (a : Core σ) : Same a a := rfl
theorem Same.symm {a b : Core σ} (h : Same a b) : Same b a := Eq.symm h
theorem Same.trans {a b c : Core σ} (h1 : Same a b) (h2 : Same b c) : Same a c := Eq.trans h1 h2

theorem same_fields {a b : Core σ} (h : Same a b) :
    a.rest = b.rest ∧ a.isClient = b.isClient ∧ a.state = b.state ∧ a.hostCids = b.hostCids ∧
    a.hostCid = b.hostCid ∧ a.peerCid = b.peerCid ∧ a.supportedVersions = b.supportedVersions ∧
    a.retryCount = b.retryCount ∧ a.vnIncompatible = b.vnIncompatible ∧
    (a.firstServer = false → a.fresh = b.fresh) := by
  unfold Same norm at h
  cases a; cases b
  simp only [Core.firstServer, Core.mk.injEq] at *
  obtain ⟨h1, h2, h3, h4, h5, h6, h7, h8, h9, h10⟩ := h
  subst h1 h2 h3 h4 h5 h6 h7 h8 h9
  refine ⟨rfl, rfl, rfl, rfl, rfl, rfl, rfl, rfl, rfl, ?_⟩
  intro hf
  simpa [hf] using h10

theorem same_firstServer {a b : Core σ} (h : Same a b) : a.firstServer = b.firstServer := by
  have := same_fields h
  simp [Core.firstServer, this.2.1, this.2.2.1]

theorem gateCore_same {a b : Core σ} (h : Same a b) (hd : Hdr) : gateCore a hd = gateCore b hd := by
  have hf := same_firstServer h
  have := same_fields h
  unfold gateCore serverInit
  change (if a.firstServer then _ else _) = (if b.firstServer then _ else _)
  rw [← hf]
  cases hfs : a.firstServer
  · cases a; cases b; simp_all
  · cases a; cases b; simp_all

theorem same_of_fresh (c : Core σ) (x : Option (Bytes × Option Nat)) (h : c.firstServer = true) :
    Same { c with fresh := x } c := by
  unfold Same norm
  have : ({ c with fresh := x } : Core σ).firstServer = true := by simpa [Core.firstServer] using h
  simp [this, h]

theorem gateCore_same_self (c : Core σ) (hd : Hdr) : Same (gateCore c hd) c := by
  unfold gateCore serverInit
  change Same (if c.firstServer then _ else _) c
  split
  · rename_i h; exact same_of_fresh c _ h
  · exact Same.refl c

theorem same_eq_of_client {a b : Core σ} (h : Same a b) (hc : a.isClient = true) : a = b := by
  have f := same_fields h
  have hfs : a.firstServer = false := by simp [Core.firstServer, hc]
  have hfr := f.2.2.2.2.2.2.2.2.2 hfs
  obtain ⟨h1, h2, h3, h4, h5, h6, h7, h8, h9, -⟩ := f
  cases a; cases b
  simp_all

theorem preChecks_same (n : Nat) {a b : Core σ} (h : Same a b) (p : Pkt σ) :
    preChecks n a p = preChecks n b p := by
  obtain ⟨-, h2, h3, h4, h5, h6, h7, h8, h9, -⟩ := same_fields h
  unfold preChecks
  rw [h2, h3, h4, h5, h6, h7, h8, h9]

theorem preChecks_vn_client (n : Nat) (c : Core σ) (p : Pkt σ) (h : Hdr)
    (hp : preChecks n c p = .versionNegotiation h) : c.isClient = true := by
  unfold preChecks at hp
  split at hp
  · cases hp
  · repeat' (split at hp)
    all_goals first | cases hp | skip
    all_goals simp_all

theorem preChecks_retry_client (n : Nat) (c : Core σ) (p : Pkt σ) (h : Hdr)
    (hp : preChecks n c p = .retry h) : c.isClient = true := by
  unfold preChecks at hp
  split at hp
  · cases hp
  · repeat' (split at hp)
    all_goals first | cases hp | skip
    all_goals simp_all

/-- The packet is turned away: by a check before the cryptographic gate (header
    parse error, small Initial datagram, unknown connection ID, unexpected or
    non-echoing Version Negotiation, unsupported version, unexpected Retry or
    **bad Retry integrity tag**, non-Initial first packet), by the gate itself
    (**CryptoError**, KeyUnavailableError) or by the **duplicate** discard. -/
def Rejected (H : Handlers σ) (n : Nat) (c : Core σ) (p : Pkt σ) : Prop :=
  match preChecks n c p with
  | .drop => True
  | .versionNegotiation _ => False
  | .retry _ => False
  | .crypto h =>
    match p.dec (serverInit c h) with
    | .ok pn _ _ => H.isDuplicate (serverInit c h) h.ptype pn = true
    | _ => True

theorem rejected_same (H : Handlers σ) (n : Nat) {a b : Core σ} (h : Same a b) (p : Pkt σ)
    (hr : Rejected H n a p) : Rejected H n b p := by
  unfold Rejected at *
  rw [← preChecks_same n h p]
  cases hpc : preChecks n a p with
  | drop => trivial
  | versionNegotiation x => simp [hpc] at hr
  | retry x => simp [hpc] at hr
  | crypto x =>
    simp only [hpc] at hr ⊢
    have := gateCore_same h x
    unfold gateCore at this
    rw [← this]; exact hr

/-- a rejected packet leaves the core alone (up to the re-doable server initialisation) -/
theorem step_rejected (H : Handlers σ) (n : Nat) (c : Conn σ) (p : Pkt σ) (hr : Rejected H n c.core p) :
    Same (stepPacket H n c p).1.core c.core := by
  unfold Rejected at hr
  unfold stepPacket
  cases hpc : preChecks n c.core p with
  | drop => exact Same.refl _
  | versionNegotiation x => simp [hpc] at hr
  | retry x => simp [hpc] at hr
  | crypto x =>
    simp only [hpc] at hr ⊢
    unfold cryptoStep
    cases hd : p.dec (serverInit c.core x) with
    | keyUnavailable =>
      simp only [hd]
      split <;> exact gateCore_same_self c.core x
    | cryptoError =>
      simp only [hd]
      exact gateCore_same_self c.core x
    | ok pn ph pl =>
      simp only [hd] at hr ⊢
      rw [if_pos hr]
      exact gateCore_same_self c.core x

/-- two connections that are the same (up to the re-doable server initialisation)
    treat the next packet the same way -/
theorem step_same (H : Handlers σ) (n : Nat) (c1 c2 : Conn σ) (p : Pkt σ) (h : Same c1.core c2.core) :
    Same (stepPacket H n c1 p).1.core (stepPacket H n c2 p).1.core ∧
    (stepPacket H n c1 p).2 = (stepPacket H n c2 p).2 := by
  unfold stepPacket
  rw [← preChecks_same n h p]
  cases hpc : preChecks n c1.core p with
  | drop => exact ⟨h, rfl⟩
  | versionNegotiation x =>
    have := same_eq_of_client h (preChecks_vn_client n _ p x hpc)
    simp only [this]
    exact ⟨Same.refl _, trivial⟩
  | retry x =>
    have := same_eq_of_client h (preChecks_retry_client n _ p x hpc)
    simp only [this]
    exact ⟨Same.refl _, trivial⟩
  | crypto x =>
    simp only []
    unfold cryptoStep
    have hg := gateCore_same h x
    unfold gateCore at hg
    simp only [← hg]
    cases hd : p.dec (serverInit c1.core x) with
    | keyUnavailable =>
      simp only []
      split <;> split <;> first | exact ⟨Same.refl _, rfl⟩ | exact ⟨Same.refl _, trivial⟩
    | cryptoError =>
      simp only []
      first | exact ⟨Same.refl _, rfl⟩ | exact ⟨Same.refl _, trivial⟩
    | ok pn ph pl =>
      simp only []
      split <;> first | exact ⟨Same.refl _, rfl⟩ | exact ⟨Same.refl _, trivial⟩

theorem loop_same (H : Handlers σ) (n : Nat) (pkts : List (Pkt σ)) (c1 c2 : Conn σ) (h : Same c1.core c2.core) :
    Same (loop H n c1 pkts).core (loop H n c2 pkts).core := by
  induction pkts generalizing c1 c2 with
  | nil => exact h
  | cons p ps ih =>
    have hs := step_same H n c1 c2 p h
    unfold loop
    generalize stepPacket H n c1 p = r1 at *
    generalize stepPacket H n c2 p = r2 at *
    obtain ⟨a1, f1⟩ := r1
    obtain ⟨a2, f2⟩ := r2
    simp only at hs
    obtain ⟨hs1, rfl⟩ := hs
    cases f1 with
    | return_ => exact hs1
    | continue_ => exact ih a1 a2 hs1

theorem loop_rejected (H : Handlers σ) (n : Nat) (pkts : List (Pkt σ)) (c0 : Core σ) (c : Conn σ)
    (hc : Same c.core c0) (hr : ∀ p ∈ pkts, Rejected H n c0 p) :
    Same (loop H n c pkts).core c0 := by
  induction pkts generalizing c with
  | nil => exact hc
  | cons p ps ih =>
    have hrp : Rejected H n c.core p := rejected_same H n (Same.symm hc) p (hr p (by simp))
    have hs := Same.trans (step_rejected H n c p hrp) hc
    unfold loop
    generalize stepPacket H n c p = r at *
    obtain ⟨a, f⟩ := r
    cases f with
    | return_ => exact hs
    | continue_ => exact ih a hs (fun q hq => hr q (by simp [hq]))

/-- `aux` of the connection when the datagram loop starts -/
def armed (a : Aux) (payloadLength now : Nat) : Aux :=
  let a1 := if !a.pathValidated then { a with bytesReceived := a.bytesReceived + payloadLength } else a
  if a1.closeAt.isNone then { a1 with closeAt := some (now + a1.idleTimeout) } else a1

theorem receiveDatagram_eq (H : Handlers σ) (c : Conn σ) (n now : Nat) (pkts : List (Pkt σ))
    (he : c.core.state.isEnd = false) :
    receiveDatagram H c n now pkts = loop H n { c with aux := armed c.aux n now } pkts := by
  unfold receiveDatagram armed
  simp [he]

/-- nothing in the loop touches the byte count or the idle deadline -/
theorem step_aux (H : Handlers σ) (n : Nat) (c : Conn σ) (p : Pkt σ) :
    (stepPacket H n c p).1.aux.bytesReceived = c.aux.bytesReceived ∧
    (stepPacket H n c p).1.aux.closeAt = c.aux.closeAt ∧
    (stepPacket H n c p).1.aux.pathValidated = c.aux.pathValidated := by
  unfold stepPacket
  cases preChecks n c.core p with
  | drop => exact ⟨rfl, rfl, rfl⟩
  | versionNegotiation x => exact ⟨rfl, rfl, rfl⟩
  | retry x => exact ⟨rfl, rfl, rfl⟩
  | crypto x =>
    simp only []
    unfold cryptoStep
    cases hd : p.dec (serverInit c.core x) with
    | keyUnavailable => simp only [hd]; split <;> exact ⟨rfl, rfl, rfl⟩
    | cryptoError => simp only [hd]; first | exact ⟨rfl, rfl, rfl⟩ | exact ⟨trivial, trivial, trivial⟩
    | ok pn ph pl => simp only [hd]; split <;> exact ⟨rfl, rfl, rfl⟩

theorem loop_aux (H : Handlers σ) (n : Nat) (pkts : List (Pkt σ)) (c : Conn σ) :
    (loop H n c pkts).aux.bytesReceived = c.aux.bytesReceived ∧
    (loop H n c pkts).aux.closeAt = c.aux.closeAt := by
  induction pkts generalizing c with
  | nil => exact ⟨rfl, rfl⟩
  | cons p ps ih =>
    have hs := step_aux H n c p
    unfold loop
    generalize stepPacket H n c p = r at *
    obtain ⟨a, f⟩ := r
    cases f with
    | return_ => exact ⟨hs.1, hs.2.1⟩
    | continue_ =>
      have := ih a
      exact ⟨this.1.trans hs.1, this.2.trans hs.2.1⟩

end AQ.RecvGate
