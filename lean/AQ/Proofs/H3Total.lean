import AQ.Model.H3Parser
namespace AQ.H3
open AQ

def isH3 : Err → Bool
  | .h3 _ => true
  | _ => false

/-- the only errors are `ProtocolError`s (which `handle_event` catches) -/
def OnlyH3 {α : Type} (x : Outcome α) : Prop := ∀ e, x = .error e → isH3 e = true

/-- closes a leaf `he : .ok _ = .error e` or `he : .error (.h3 c) = .error e` -/
macro "h3leaf" : tactic =>
  `(tactic| first | (simp_all [isH3]; done) | (subst_vars; simp_all [isH3]; done) | (simp at *; subst_vars; simp_all [isH3]; done))

theorem checkCL_onlyH3 (s : PState) : OnlyH3 (checkCL s) := by
  intro e he
  unfold checkCL at he
  split at he
  · split at he <;> h3leaf
  · h3leaf

section
variable {σ : Type} (o : Oracle σ) (cfg : Cfg)

theorem logStep_onlyH3 (h : cfg.k.logDecode = false) (q : σ) (hs : Headers) : OnlyH3 (logStep o cfg q hs) := by
  intro e he
  unfold logStep at he
  split at he
  · split at he <;> h3leaf
  · h3leaf

theorem endOfSilent_onlyH3 (s : PState) (b : Bool) : OnlyH3 (endOfSilent cfg s b) := by
  intro e he
  unfold endOfSilent at he
  split at he
  · split at he
    · rename_i e' h'
      cases he
      exact checkCL_onlyH3 s _ h'
    · h3leaf
  · h3leaf

theorem finishHeaders_onlyH3 (h : cfg.k.logDecode = false) (s : PState) (q : σ) (hs : Headers) (b : Bool) :
    OnlyH3 (finishHeaders o cfg s q hs b) := by
  intro e he
  unfold finishHeaders at he
  simp only at he
  split at he
  · h3leaf
  · split at he
    · rename_i e' h'
      cases he
      split at h'
      · exact checkCL_onlyH3 _ _ h'
      · h3leaf
    · split at he
      · rename_i e' h'
        cases he
        exact logStep_onlyH3 o cfg h _ _ _ h'
      · h3leaf

theorem finishPush_onlyH3 (h : cfg.k.logDecode = false) (s : PState) (q : σ) (pid : Nat) (hs : Headers) (b : Bool) :
    OnlyH3 (finishPush o cfg s q pid hs b) := by
  intro e he
  unfold finishPush at he
  split at he
  · h3leaf
  · split at he
    · rename_i e' h'
      cases he
      exact logStep_onlyH3 o cfg h _ _ _ h'
    · split at he
      · rename_i e' h'
        cases he
        exact endOfSilent_onlyH3 cfg _ _ _ h'
      · h3leaf

end
end AQ.H3


namespace AQ.H3

theorem iteCheckCL_onlyH3 (b : Bool) (s : PState) :
    OnlyH3 (if b = true then checkCL s else (Except.ok () : Outcome Unit)) := by
  intro e he
  split at he
  · exact checkCL_onlyH3 _ _ he
  · h3leaf

section
variable {σ : Type} (o : Oracle σ) (cfg : Cfg)

theorem handleFrame_onlyH3 (h1 : cfg.k.logDecode = false) (h2 : cfg.k.pushPromiseBufferRead = false)
    (ft : Option Nat) (fd : Bytes) (s : PState) (q : σ) (b : Bool) :
    OnlyH3 (handleFrame o cfg ft fd s q b) := by
  intro e he
  unfold handleFrame at he
  simp only at he
  repeat' (split at he)
  all_goals first
    | h3leaf
    | (cases he; first
        | exact checkCL_onlyH3 _ _ ‹_›
        | exact iteCheckCL_onlyH3 _ _ _ ‹_›
        | exact finishHeaders_onlyH3 o cfg h1 _ _ _ _ _ ‹_›
        | exact finishPush_onlyH3 o cfg h1 _ _ _ _ _ _ ‹_›
        | exact endOfSilent_onlyH3 cfg _ _ _ ‹_›)

theorem resumeFrame_onlyH3 (h1 : cfg.k.logDecode = false) (s : PState) (bp : Option Nat) (q : σ) (b : Bool) :
    OnlyH3 (resumeFrame o cfg s bp q b) := by
  intro e he
  unfold resumeFrame at he
  repeat' (split at he)
  all_goals first
    | h3leaf
    | exact finishHeaders_onlyH3 o cfg h1 _ _ _ _ _ he
    | exact finishPush_onlyH3 o cfg h1 _ _ _ _ _ _ he

theorem frameBody_onlyH3 (h1 : cfg.k.logDecode = false) (h2 : cfg.k.pushPromiseBufferRead = false)
    (s : Stream) (q : σ) (rest : Bytes) : OnlyH3 (frameBody o cfg s q rest) := by
  intro e he
  unfold frameBody at he
  simp only at he
  repeat' (split at he)
  all_goals first
    | h3leaf
    | (cases he; exact handleFrame_onlyH3 o cfg h1 h2 _ _ _ _ _ _ ‹_›)

theorem reqLoop_onlyH3 (h1 : cfg.k.logDecode = false) (h2 : cfg.k.pushPromiseBufferRead = false)
    (ea : Bool) : ∀ (fuel : Nat) (s : Stream) (q : σ) (rest : Bytes),
    OnlyH3 (reqLoop o cfg ea fuel s q rest) := by
  intro fuel
  induction fuel with
  | zero => intro s q rest e he; simp [reqLoop] at he
  | succ n ih =>
    intro s q rest e he
    unfold reqLoop at he
    repeat' (split at he)
    all_goals first
      | h3leaf
      | (cases he; first
          | exact frameBody_onlyH3 o cfg h1 h2 _ _ _ _ ‹_›
          | exact ih _ _ _ _ ‹_›)

end
end AQ.H3

namespace AQ.H3

/-- the quirk-free parser: no escaping-exception quirk is on -/
structure NoEscape (k : Quirks) : Prop where
  maxPush : k.maxPushIdRaises = false
  settings : k.settingsBufferRead = false
  pushPromise : k.pushPromiseBufferRead = false
  keyError : k.unblockedKeyError = false
  logDecode : k.logDecode = false

section
variable {σ : Type} (o : Oracle σ) (cfg : Cfg)

theorem recvReqMain_onlyH3 (hk : NoEscape cfg.k) (s : Stream) (q : σ) (ea : Bool) :
    OnlyH3 (recvReqMain o cfg s q ea) := by
  intro e he
  unfold recvReqMain loneFin loopPost at he
  repeat' (split at he)
  all_goals first
    | h3leaf
    | (cases he; first
        | exact checkCL_onlyH3 _ _ ‹_›
        | exact reqLoop_onlyH3 o cfg hk.logDecode hk.pushPromise _ _ _ _ _ _ ‹_›)

theorem recvReq_onlyH3 (hk : NoEscape cfg.k) (s : Stream) (q : σ) (d : Bytes) (ea : Bool) :
    OnlyH3 (recvReq o cfg s q d ea) := by
  intro e he
  unfold recvReq at he
  simp only at he
  repeat' (split at he)
  all_goals first
    | h3leaf
    | exact recvReqMain_onlyH3 o cfg hk _ _ _ _ he

theorem parseSettings_onlyH3 (k : Quirks) (hk : k.settingsBufferRead = false) :
    ∀ (fuel : Nat) (b : Bytes) (acc : List (Nat × Nat)), OnlyH3 (parseSettings k fuel b acc) := by
  intro fuel
  induction fuel with
  | zero => intro b acc e he; simp [parseSettings] at he
  | succ n ih =>
    intro b acc e he
    unfold parseSettings at he
    repeat' (split at he)
    all_goals first
      | h3leaf
      | exact ih _ _ _ he

theorem parseMaxPushId_onlyH3 (k : Quirks) (hk : k.maxPushIdRaises = false) (b : Bytes) :
    OnlyH3 (parseMaxPushId k b) := by
  intro e he
  unfold parseMaxPushId at he
  repeat' (split at he)
  all_goals h3leaf

theorem validateSettings_onlyH3 (st : List (Nat × Nat)) : OnlyH3 (validateSettings cfg st) := by
  intro e he
  unfold validateSettings at he
  repeat' (split at he)
  all_goals h3leaf

theorem handleControlFrame_onlyH3 (c : Conn σ) (hk : NoEscape c.cfg.k) (ft : Nat) (fd : Bytes) :
    OnlyH3 (handleControlFrame c ft fd) := by
  intro e he
  unfold handleControlFrame at he
  repeat' (split at he)
  all_goals first
    | h3leaf
    | (cases he; first
        | exact parseSettings_onlyH3 _ hk.settings _ _ _ _ ‹_›
        | exact validateSettings_onlyH3 _ _ _ ‹_›
        | exact parseMaxPushId_onlyH3 _ hk.maxPush _ _ ‹_›)

theorem recvDatagram_onlyH3 (d : Bytes) : OnlyH3 (recvDatagram d) := by
  intro e he
  unfold recvDatagram at he
  repeat' (split at he)
  all_goals h3leaf

end
end AQ.H3

namespace AQ.H3
section
variable {σ : Type} (o : Oracle σ)

theorem handleControlFrame_cfg (c c1 : Conn σ) (ft : Nat) (fd : Bytes)
    (h : handleControlFrame c ft fd = .ok c1) : c1.cfg = c.cfg := by
  unfold handleControlFrame at h
  repeat' (split at h)
  all_goals first
    | (simp at h; done)
    | (cases h; rfl)

theorem uniType_cfg (c c1 : Conn σ) (s s1 : Stream) (rest r1 : Bytes)
    (h : uniType c s rest = .ok (some (c1, s1, r1))) : c1.cfg = c.cfg := by
  unfold uniType at h
  repeat' (split at h)
  all_goals first
    | (simp at h; done)
    | (simp at h; obtain ⟨rfl, _, _⟩ := h; rfl)

theorem uniType_onlyH3 (c : Conn σ) (s : Stream) (rest : Bytes) : OnlyH3 (uniType c s rest) := by
  intro e he
  unfold uniType at he
  repeat' (split at he)
  all_goals h3leaf

theorem uniLoop_onlyH3 (ea : Bool) : ∀ (fuel : Nat) (c : Conn σ) (_ : NoEscape c.cfg.k) (s : Stream) (rest : Bytes)
    (unb : List Nat), OnlyH3 (uniLoop o ea fuel c s rest unb) := by
  intro fuel
  induction fuel with
  | zero => intro c _ s rest unb e he; simp [uniLoop] at he
  | succ n ih =>
    intro c hk s rest unb e he
    unfold uniLoop at he
    split at he
    · h3leaf
    · split at he
      · cases he; exact uniType_onlyH3 _ _ _ _ ‹_›
      · h3leaf
      · rename_i c1 s1 r1 hty
        have hc1 : c1.cfg = c.cfg := uniType_cfg _ _ _ _ _ _ hty
        have hk1 : NoEscape c1.cfg.k := hc1 ▸ hk
        simp only at he
        repeat' (split at he)
        all_goals first
          | h3leaf
          | (cases he; first
              | exact handleControlFrame_onlyH3 _ hk1 _ _ _ ‹_›
              | exact recvReq_onlyH3 o _ hk1 _ _ _ _ _ ‹_›)
          | (refine ih _ ?_ _ _ _ _ he; first
              | exact hk1
              | (rw [handleControlFrame_cfg _ _ _ _ ‹_›]; exact hk1))

end
end AQ.H3

namespace AQ.H3
section
variable {σ : Type} (o : Oracle σ)

theorem uniLoop_cfg (ea : Bool) : ∀ (fuel : Nat) (c : Conn σ) (s : Stream) (rest : Bytes) (unb : List Nat) (r : UniRes σ),
    uniLoop o ea fuel c s rest unb = .ok r →
    (match r with | .brk c1 _ _ _ => c1.cfg = c.cfg | .ret c1 _ _ => c1.cfg = c.cfg) := by
  intro fuel
  induction fuel with
  | zero => intro c s rest unb r h; simp [uniLoop] at h; subst h; rfl
  | succ n ih =>
    intro c s rest unb r h
    unfold uniLoop at h
    split at h
    · simp at h; subst h; rfl
    · split at h
      · simp at h
      · simp at h; subst h; rfl
      · rename_i c1 s1 r1 hty
        have hc1 : c1.cfg = c.cfg := uniType_cfg _ _ _ _ _ _ hty
        simp only at h
        repeat' (split at h)
        all_goals first
          | (simp at h; done)
          | (simp at h; subst h; exact hc1)
          | (have := ih _ _ _ _ _ h
             first
              | (rw [← hc1]; exact this)
              | (rw [← hc1, ← handleControlFrame_cfg _ _ _ _ ‹_›]; exact this))

theorem resumeStream_onlyH3 (cfg : Cfg) (hk : NoEscape cfg.k) (st : Stream) (q : σ) :
    OnlyH3 (resumeStream o cfg st q) := by
  intro e he
  unfold resumeStream at he
  dsimp only at he
  repeat' (split at he)
  all_goals first
    | h3leaf
    | (cases he; first
        | exact resumeFrame_onlyH3 o _ hk.logDecode _ _ _ _ _ ‹_›
        | exact recvReq_onlyH3 o _ hk _ _ _ _ _ ‹_›)

theorem processUnblocked_onlyH3 : ∀ (ids : List Nat) (c : Conn σ) (_ : NoEscape c.cfg.k) (evs : List Event),
    OnlyH3 (processUnblocked o ids c evs) := by
  intro ids
  induction ids with
  | nil => intro c _ evs e he; simp [processUnblocked] at he
  | cons id ids ih =>
    intro c hk evs e he
    unfold processUnblocked at he
    repeat' (split at he)
    all_goals first
      | h3leaf
      | (have := hk.keyError; simp_all; done)
      | (cases he; exact resumeStream_onlyH3 o _ hk _ _ _ ‹_›)
      | (refine ih _ ?_ _ _ he; exact hk)

theorem recvUni_onlyH3 (c : Conn σ) (hk : NoEscape c.cfg.k) (s : Stream) (d : Bytes) (ea : Bool) :
    OnlyH3 (recvUni o c s d ea) := by
  intro e he
  unfold recvUni at he
  simp only at he
  split at he
  · cases he; exact uniLoop_onlyH3 o _ _ _ hk _ _ _ _ ‹_›
  · h3leaf
  · rename_i c1 s1 rest unb hl
    have := uniLoop_cfg o _ _ _ _ _ _ _ hl
    simp only at this
    exact processUnblocked_onlyH3 o _ _ (by simpa [this] using hk) _ _ he

theorem recvStreamData_onlyH3 (c : Conn σ) (hk : NoEscape c.cfg.k) (sid : Nat) (d : Bytes) (f : Bool) :
    OnlyH3 (recvStreamData o c sid d f) := by
  intro e he
  unfold recvStreamData at he
  simp only at he
  repeat' (split at he)
  all_goals first
    | h3leaf
    | (cases he
       rename_i hr
       split at hr
       · (refine recvUni_onlyH3 o _ ?_ _ _ _ _ hr; exact hk)
       · repeat' (split at hr)
         all_goals first
          | h3leaf
          | (cases hr; exact recvReq_onlyH3 o _ hk _ _ _ _ _ ‹_›))

theorem dispatch_onlyH3 (c : Conn σ) (hk : NoEscape c.cfg.k) (ev : QuicEvent) : OnlyH3 (dispatch o c ev) := by
  intro e hx
  unfold dispatch at hx
  cases ev with
  | streamData sid d f => exact recvStreamData_onlyH3 o c hk _ _ _ _ hx
  | datagram d =>
    simp only at hx
    split at hx
    · cases hx; exact recvDatagram_onlyH3 _ _ ‹_›
    · cases hx
  | other => cases hx

/-- `handleEvent` for a parser without escaping-exception quirks: either the
    connection was already done, or the body returned normally, or it raised a
    ProtocolError which became `isDone` + close code -/
theorem handleEvent_cases (c : Conn σ) (hk : NoEscape c.cfg.k) (ev : QuicEvent) :
    (c.isDone = true ∧ handleEvent o c ev = .ok (c, [])) ∨
    (∃ x, dispatch o c ev = .ok x ∧ handleEvent o c ev = .ok x) ∨
    (∃ code, dispatch o c ev = .error (.h3 code) ∧
      handleEvent o c ev = .ok ({ c with isDone := true, closeCode := some code }, [])) := by
  unfold handleEvent
  split
  · exact .inl ⟨‹_›, rfl⟩
  · split
    · rename_i x hx; exact .inr (.inl ⟨x, hx, rfl⟩)
    · rename_i code hx; exact .inr (.inr ⟨code, hx, rfl⟩)
    · rename_i e hne hx
      exfalso
      have : isH3 e = true := dispatch_onlyH3 o c hk ev _ hx
      cases e <;> simp [isH3] at this
      exact hne _ rfl

end
end AQ.H3
