/-
  Helper lemmas for AQ.Props.C07 (receive side): classification of the
  outcome of STREAM / RESET_STREAM handling, the `Limit` writer, the
  reassembly-buffer invariant of `QuicStreamReceiver`.
-/
import AQ.Proofs.FlowEmit

namespace AQ.Flow
open AQ AQ.Stream AQ.RangeSet

/-! ## outcome of `handle_frame` / `handle_reset` -/

theorem handleFrame_error_iff (r : Recv) (f : Frame) :
    (∃ e, handleFrame r f = .error e) ↔ frameFinalSizeError r.finalSize f = true := by
  constructor
  · intro ⟨e, h⟩
    by_cases hfe : frameFinalSizeError r.finalSize f = true
    · exact hfe
    · exfalso; unfold handleFrame at h; grind
  · intro h; exact ⟨.finalSize, by unfold handleFrame; simp [h]⟩

/-- the condition under which `handle_reset` raises FinalSizeError -/
def resetFinalSizeError (fs : Option Nat) (finalSize : Nat) : Bool :=
  match fs with
  | none => false
  | some z => decide (finalSize ≠ z)

theorem handleResetQ_error_iff (q : Quirks) (r : Recv) (z : Nat) :
    (∃ e, handleResetQ q r z = .error e) ↔ resetFinalSizeError r.finalSize z = true := by
  unfold handleResetQ handleReset resetFinalSizeError
  cases hfs : r.finalSize with
  | none => simp
  | some w =>
    by_cases hw : z = w <;> simp [hw]

/-- complete decision list of `_handle_stream_frame` -/
theorem rxStream_err (c : Conn) (sid off : Nat) (data : Bytes) (fin : Bool) :
    (rxStream c sid off data fin).2.err =
      if off + data.length > UINT_VAR_MAX then some (.conn FRAME_ENCODING_ERROR)
      else if !c.canReceive sid then some (.conn STREAM_STATE_ERROR)
      else match getOrCreateStream c sid with
        | .error .finished => none
        | .error (.conn code) => some (.conn code)
        | .ok (c', st) =>
          if off + data.length > st.maxLocal ∨
             c'.localMaxData.used + (off + data.length - st.recv.highest) > c'.localMaxData.value then
            some (.conn FLOW_CONTROL_ERROR)
          else if frameFinalSizeError st.recv.finalSize ⟨off, data, fin⟩ then some (.conn FINAL_SIZE_ERROR)
          else none := by
  unfold rxStream
  simp only []
  by_cases h0 : off + data.length > UINT_VAR_MAX
  · simp [h0, Out.connError]
  · by_cases hr : (!c.canReceive sid) = true
    · simp [h0, hr, Out.connError]
    · simp only [h0, hr, if_false]
      cases hg : getOrCreateStream c sid with
      | error e => cases e <;> simp [GetErr.out, Out.connError]
      | ok p =>
        obtain ⟨c', st⟩ := p
        simp only []
        by_cases h1 : off + data.length > st.maxLocal
        · simp [h1, Out.connError]
        · by_cases h2 : c'.localMaxData.used + (off + data.length - st.recv.highest) > c'.localMaxData.value
          · simp [h1, h2, Out.connError]
          · simp only [h1, h2, if_false, or_self]
            by_cases h3 : frameFinalSizeError st.recv.finalSize ⟨off, data, fin⟩ = true
            · obtain ⟨e, he⟩ := (handleFrame_error_iff st.recv ⟨off, data, fin⟩).mpr h3
              simp [he, h3, Out.connError]
            · have : ¬ ∃ e, handleFrame st.recv ⟨off, data, fin⟩ = .error e :=
                fun h => h3 ((handleFrame_error_iff _ _).mp h)
              cases hh : handleFrame st.recv ⟨off, data, fin⟩ with
              | error e => exact absurd ⟨e, hh⟩ this
              | ok p => simp [h3]

/-- complete decision list of `_handle_reset_stream_frame` -/
theorem rxResetStream_err (c : Conn) (sid z : Nat) :
    (rxResetStream c sid z).2.err =
      if !c.canReceive sid then some (.conn STREAM_STATE_ERROR)
      else match getOrCreateStream c sid with
        | .error .finished => none
        | .error (.conn code) => some (.conn code)
        | .ok (c', st) =>
          if z > st.maxLocal ∨ c'.localMaxData.used + (z - st.recv.highest) > c'.localMaxData.value then
            some (.conn FLOW_CONTROL_ERROR)
          else if resetFinalSizeError st.recv.finalSize z then some (.conn FINAL_SIZE_ERROR)
          else none := by
  unfold rxResetStream
  by_cases hr : (!c.canReceive sid) = true
  · simp [hr, Out.connError]
  · simp only [hr, if_false]
    cases hg : getOrCreateStream c sid with
    | error e => cases e <;> simp [GetErr.out, Out.connError]
    | ok p =>
      obtain ⟨c', st⟩ := p
      simp only []
      by_cases h1 : z > st.maxLocal
      · simp [h1, Out.connError]
      · by_cases h2 : c'.localMaxData.used + (z - st.recv.highest) > c'.localMaxData.value
        · simp [h1, h2, Out.connError]
        · simp only [h1, h2, if_false, or_self]
          by_cases h3 : resetFinalSizeError st.recv.finalSize z = true
          · obtain ⟨e, he⟩ := (handleResetQ_error_iff c'.quirks st.recv z).mpr h3
            simp [he, h3, Out.connError]
          · have : ¬ ∃ e, handleResetQ c'.quirks st.recv z = .error e :=
              fun h => h3 ((handleResetQ_error_iff _ _ _).mp h)
            cases hh : handleResetQ c'.quirks st.recv z with
            | error e => exact absurd ⟨e, hh⟩ this
            | ok p => simp [h3]

/-- the stream-count check of `_get_or_create_stream`: STREAM_LIMIT_ERROR exactly
    for a new peer-initiated stream whose count exceeds the limit in force; no
    other outcome carries that code -/
theorem getOrCreateStream_streamLimit_iff (c : Conn) (sid : Nat) :
    getOrCreateStream c sid = .error (.conn STREAM_LIMIT_ERROR) ↔
      (sid ∉ c.finishedIds ∧ c.find? sid = none ∧ clientInitiated sid ≠ c.isClient ∧
       sid / 4 + 1 > (if unidirectional sid then c.localMaxStreamsUni.value else c.localMaxStreamsBidi.value)) := by
  unfold getOrCreateStream
  by_cases hfin : sid ∈ c.finishedIds
  · simp [hfin]
  · cases hf : c.find? sid with
    | some st => simp [hfin]
    | none =>
      by_cases hi : clientInitiated sid = c.isClient
      · simp [hfin, hi, STREAM_STATE_ERROR, STREAM_LIMIT_ERROR]
      · by_cases hu : unidirectional sid = true
        · by_cases hl : sid / 4 + 1 > c.localMaxStreamsUni.value
          · simp [hfin, hi, hu, hl]
          · simp [hfin, hi, hu, hl]
        · by_cases hl : sid / 4 + 1 > c.localMaxStreamsBidi.value
          · simp [hfin, hi, hu, hl]
          · simp [hfin, hi, hu, hl]

/-! ## `Limit` writer (`_write_connection_limits`) -/

/-- fixed code: the enforced value changes only together with a frame that
    advertises exactly the new value, and never decreases -/
theorem writeLimit_spec (q : Quirks) (hq : q.raiseBeforeWrite = false) (l : Limit) (room : Bool) :
    ((writeLimit q l room).2.1 = none ∧ (writeLimit q l room).1.value = l.value ∧
        ((writeLimit q l room).1.sent = l.sent)) ∨
    (∃ v, (writeLimit q l room).2.1 = some v ∧ (writeLimit q l room).1.value = v ∧
        (writeLimit q l room).1.sent = v ∧ l.value ≤ v ∧ (writeLimit q l room).2.2 = false) := by
  unfold writeLimit
  simp only [hq, Bool.false_eq_true, if_false]
  repeat' split
  all_goals simp
  all_goals omega

theorem writeLimit_used (q : Quirks) (l : Limit) (room : Bool) : (writeLimit q l room).1.used = l.used := by
  unfold writeLimit
  simp only []
  repeat' split
  all_goals rfl

/-- before the fix (`raiseBeforeWrite`): no room for the frame, nothing written,
    yet the enforced value doubled -/
theorem writeLimit_quirk_counterexample :
    let l : Limit := { value := 100, sent := 100, used := 60 }
    (writeLimit { raiseBeforeWrite := true } l false) = ({ value := 200, sent := 100, used := 60 }, none, true) := by
  decide

end AQ.Flow
