/-
  Packet headers: which exceptions `pull_quic_header` can raise, and the
  malformed inputs it rejects.
-/
import AQ.Proofs.CodecHeaderWF

namespace AQ.Codec
open AQ AQ.Frame

/-- error classes of a reader run on a buffer shorter than 2^63 bytes (so that
    `capacity - tell() - 16` fits a `Py_ssize_t`) -/
def Rd.ErrInL {α : Type} (P : Err → Prop) (rd : Rd α) : Prop :=
  ∀ s e, s.length < 9223372036854775808 → rd s = .error e → P e

theorem Rd.ErrIn.toL {α : Type} {P : Err → Prop} {rd : Rd α} (h : Rd.ErrIn P rd) : Rd.ErrInL P rd :=
  fun s e _ he => h s e he

theorem Rd.ErrInL.bind' {α β : Type} {P : Err → Prop} {m : Rd α} {f : α → Rd β} (hm : Rd.ErrInL P m)
    (hs : Rd.Suffix m) (hf : ∀ s a s', m s = .ok (a, s') → Rd.ErrInL P (f a)) : Rd.ErrInL P (m >>= f) := by
  intro s e hl h
  rw [Rd.bind_apply] at h
  split at h
  · rename_i a s' hms
    obtain ⟨pre, rfl⟩ := hs _ _ _ hms
    exact hf _ a s' hms s' e (by simp only [List.length_append] at hl; omega) h
  · rename_i e' hms
    cases h
    exact hm s e hl hms

theorem Rd.ErrInL.bind {α β : Type} {P : Err → Prop} {m : Rd α} {f : α → Rd β} (hm : Rd.ErrInL P m)
    (hs : Rd.Suffix m) (hf : ∀ a, Rd.ErrInL P (f a)) : Rd.ErrInL P (m >>= f) :=
  Rd.ErrInL.bind' hm hs (fun _ a _ _ => hf a)

theorem Rd.ErrInL.pure {α : Type} {P : Err → Prop} (a : α) : Rd.ErrInL P (pure a : Rd α) :=
  (Rd.ErrIn.pure a).toL

theorem pe {α : Type} {rd : Rd α} (h : Rd.ErrIn (· = .bufferRead) rd) : Rd.ErrInL IsParseErr rd :=
  (h.mono (fun _ => pr_br)).toL

theorem guardL (c : Bool) : Rd.ErrInL IsParseErr (Rd.guard c (.py .value)) :=
  (Rd.ErrIn.guard c _ (Or.inr rfl)).toL

theorem pullBytesL (n : Nat) (hn : n < 9223372036854775808) : Rd.ErrInL IsParseErr (pullBytes (n : Int)) :=
  pe (Rd.ErrIn.pullBytes (n : Int) (by omega) (by omega))

theorem pullLongRest_errL (v fb : Nat) : Rd.ErrInL IsParseErr (pullLongRest v fb) := by
  unfold pullLongRest
  refine Rd.ErrInL.bind (guardL _) (Rd.Suffix.guard _ _) (fun _ => ?_)
  have hc := longTypeDecode_cases v ((fb &&& 48) / 16)
  rcases hc with hc | hc | hc | hc <;> simp only [hc]
  · refine Rd.ErrInL.bind' (pe Rd.ErrIn.pullUintVar) Rd.Suffix.pullUintVar (fun s tl s' htl => ?_)
    have := (pullUintVar_inv _ _ _ htl).1
    refine Rd.ErrInL.bind (pullBytesL tl (by omega)) (Rd.Suffix.pullBytes _) (fun _ => ?_)
    exact Rd.ErrInL.bind (pe Rd.ErrIn.pullUintVar) Rd.Suffix.pullUintVar (fun _ => Rd.ErrInL.pure _)
  · exact Rd.ErrInL.bind (pe Rd.ErrIn.pullUintVar) Rd.Suffix.pullUintVar (fun _ => Rd.ErrInL.pure _)
  · exact Rd.ErrInL.bind (pe Rd.ErrIn.pullUintVar) Rd.Suffix.pullUintVar (fun _ => Rd.ErrInL.pure _)
  · intro s e hl h
    simp only [Rd.bind_apply, Rd.remaining_apply] at h
    have hb : Rd.ErrIn (· = .bufferRead) (pullBytes ((s.length : Int) - 16)) :=
      Rd.ErrIn.pullBytes _ (by omega) (by omega)
    split at h
    · rename_i tok s1 _
      split at h
      · simp only [Rd.pure_apply] at h; cases h
      · rename_i e' he
        cases h
        exact Or.inl (Rd.ErrIn.pullBytes 16 (by omega) (by omega) _ _ he)
    · rename_i e' he
      cases h
      exact Or.inl (hb _ _ he)

theorem pullVersions_err : ∀ (s : Bytes) (e : Err), pullVersions s = .error e → e = .bufferRead
  | [], e, h => by simp [pullVersions] at h
  | [_], e, h => by simp only [pullVersions] at h; cases h; rfl
  | [_, _], e, h => by simp only [pullVersions] at h; cases h; rfl
  | [_, _, _], e, h => by simp only [pullVersions] at h; cases h; rfl
  | _ :: _ :: _ :: _ :: r, e, h => by
    simp only [pullVersions] at h
    split at h
    · cases h
    · rename_i e' he'
      cases h
      exact pullVersions_err r e he'

theorem pullAllVersions_err : Rd.ErrIn (· = .bufferRead) pullAllVersions := by
  intro s e h
  unfold pullAllVersions at h
  split at h
  · cases h
  · rename_i e' he
    cases h
    exact pullVersions_err s e he

theorem Rd.Suffix.pullAllVersions : Rd.Suffix pullAllVersions := by
  intro s a s' h
  unfold Codec.pullAllVersions at h
  split at h
  · cases h; exact ⟨s, by simp⟩
  · cases h

theorem Rd.Suffix.pullLongRest (v fb : Nat) : Rd.Suffix (pullLongRest v fb) := by
  intro s a s' h
  obtain ⟨pt, token, tag, rl⟩ := a
  obtain ⟨_, _, hc⟩ := pullLongRest_inv v fb s s' pt token tag rl h
  rcases hc with ⟨_, _, p1, p2, _, _, e⟩ | ⟨_, _, _, p2, _, e⟩ | ⟨_, _, rfl, _, e⟩
  · exact ⟨p1 ++ (token ++ p2), by rw [e]; simp⟩
  · exact ⟨p2, e⟩
  · exact ⟨s, by simp⟩

/-- the error class allowed for `host_cid_length`: an int that fits `Py_ssize_t` -/
def HclOK : Option Int → Prop
  | none => False
  | some n => -9223372036854775808 ≤ n ∧ n < 9223372036854775808

theorem pullQuicHeaderFrom_errL (n0 : Nat) (hcl : Option Int) (hh : HclOK hcl) :
    Rd.ErrInL IsParseErr (pullQuicHeaderFrom n0 hcl) := by
  unfold pullQuicHeaderFrom
  refine Rd.ErrInL.bind (pe Rd.ErrIn.pullUint8) Rd.Suffix.pullUint8 (fun fb => ?_)
  by_cases hlong : (fb &&& 128 != 0) = true
  · simp only [hlong, if_true]
    refine Rd.ErrInL.bind (pe Rd.ErrIn.pullUint32) Rd.Suffix.pullUint32 (fun v => ?_)
    refine Rd.ErrInL.bind' (pe Rd.ErrIn.pullUint8) Rd.Suffix.pullUint8 (fun s dl s' hdl => ?_)
    have hdl' := pullUint8_lt _ _ _ hdl
    refine Rd.ErrInL.bind (guardL _) (Rd.Suffix.guard _ _) (fun _ => ?_)
    refine Rd.ErrInL.bind (pullBytesL dl (by omega)) (Rd.Suffix.pullBytes _) (fun dcid => ?_)
    refine Rd.ErrInL.bind' (pe Rd.ErrIn.pullUint8) Rd.Suffix.pullUint8 (fun s2 sl s2' hsl => ?_)
    have hsl' := pullUint8_lt _ _ _ hsl
    refine Rd.ErrInL.bind (guardL _) (Rd.Suffix.guard _ _) (fun _ => ?_)
    refine Rd.ErrInL.bind (pullBytesL sl (by omega)) (Rd.Suffix.pullBytes _) (fun scid => ?_)
    by_cases hv0 : v = 0
    · simp only [hv0, if_true]
      refine Rd.ErrInL.bind (pe pullAllVersions_err) Rd.Suffix.pullAllVersions (fun _ => ?_)
      exact Rd.ErrInL.bind (Rd.ErrIn.remaining).toL Rd.Suffix.remaining (fun _ => Rd.ErrInL.pure _)
    · simp only [hv0, if_false]
      refine Rd.ErrInL.bind (pullLongRest_errL v fb) (Rd.Suffix.pullLongRest v fb) (fun x => ?_)
      obtain ⟨pt, token, tag, rl⟩ := x
      refine Rd.ErrInL.bind (Rd.ErrIn.remaining).toL Rd.Suffix.remaining (fun _ => ?_)
      exact Rd.ErrInL.bind (guardL _) (Rd.Suffix.guard _ _) (fun _ => Rd.ErrInL.pure _)
  · have hshort : (fb &&& 128 != 0) = false := by simpa using hlong
    simp only [hshort, Bool.false_eq_true, if_false]
    refine Rd.ErrInL.bind (guardL _) (Rd.Suffix.guard _ _) (fun _ => ?_)
    cases hcl with
    | none => exact absurd hh (by simp [HclOK])
    | some n =>
      refine Rd.ErrInL.bind ?_ (Rd.Suffix.pullBytes _) (fun _ => Rd.ErrInL.pure _)
      exact pe (Rd.ErrIn.pullBytes n hh.1 hh.2)

/-- **the documented parse error**: on a buffer shorter than 2^63 bytes and with an
    integer `host_cid_length`, `pull_quic_header` raises nothing but `ValueError`
    (incl. its subclass `BufferReadError`) -/
theorem pullQuicHeader_err (hcl : Option Int) (hh : HclOK hcl) (s : Bytes) (hs : s.length < 9223372036854775808)
    (e : Err) (h : pullQuicHeader hcl s = .error e) : IsParseErr e :=
  pullQuicHeaderFrom_errL s.length hcl hh s e hs h

/-! ### malformed inputs -/

/-- a connection-id length above 20 is refused with ValueError (destination) -/
theorem dcid_too_long (n0 : Nat) (hcl : Option Int) (fb v dl : Nat) (rest : Bytes) (hfb : fb < 256)
    (hlong : (fb &&& 128 != 0) = true) (hv : v < 4294967296) (h20 : 20 < dl) (h256 : dl < 256) :
    pullQuicHeaderFrom n0 hcl (byte fb :: (be4 v ++ (byte dl :: rest))) = .error (.py .value) := by
  have hg : decide (dl ≤ 20) = false := by simpa using h20
  simp only [pullQuicHeaderFrom, Rd.bind_apply, pullUint8_byte _ _ hfb, hlong, if_true, uint32_roundtrip _ _ hv,
    pullUint8_byte _ _ h256, hg, Rd.guard_false]

/-- … and for the source connection id -/
theorem scid_too_long (n0 : Nat) (hcl : Option Int) (fb v sl : Nat) (dcid rest : Bytes) (hfb : fb < 256)
    (hlong : (fb &&& 128 != 0) = true) (hv : v < 4294967296) (hd : dcid.length ≤ 20) (h20 : 20 < sl) (h256 : sl < 256) :
    pullQuicHeaderFrom n0 hcl (byte fb :: (be4 v ++ (byte dcid.length :: (dcid ++ (byte sl :: rest))))) =
      .error (.py .value) := by
  have hg : decide (sl ≤ 20) = false := by simpa using h20
  have hdl : dcid.length < 256 := by omega
  simp only [pullQuicHeaderFrom, Rd.bind_apply, pullUint8_byte _ _ hfb, hlong, if_true, uint32_roundtrip _ _ hv,
    pullUint8_byte _ _ hdl, show decide (dcid.length ≤ 20) = true from by simpa using hd, Rd.guard_true,
    pullBytes_append _ _ (show dcid.length < 9223372036854775808 by omega), pullUint8_byte _ _ h256, hg,
    Rd.guard_false]

/-- a long header (version ≠ 0) whose fixed bit is zero is refused with ValueError -/
theorem fixed_bit_zero_long (n0 : Nat) (hcl : Option Int) (fb v : Nat) (dcid scid rest : Bytes) (hfb : fb < 256)
    (hlong : (fb &&& 128 != 0) = true) (hfix : (fb &&& 64 != 0) = false) (hv : v < 4294967296) (hv0 : v ≠ 0)
    (hd : dcid.length ≤ 20) (hs : scid.length ≤ 20) :
    pullQuicHeaderFrom n0 hcl (longPrefix fb v dcid scid rest) = .error (.py .value) := by
  rw [long_header_step n0 hcl fb v dcid scid rest hfb hlong hv hv0 hd hs]
  simp only [pullLongRest, Rd.bind_apply, hfix, Rd.guard_false]

/-- … and a short header -/
theorem fixed_bit_zero_short (n0 : Nat) (hcl : Option Int) (fb : Nat) (rest : Bytes) (hfb : fb < 256)
    (hshort : (fb &&& 128 != 0) = false) (hfix : (fb &&& 64 != 0) = false) :
    pullQuicHeaderFrom n0 hcl (byte fb :: rest) = .error (.py .value) := by
  simp only [pullQuicHeaderFrom, Rd.bind_apply, pullUint8_byte _ _ hfb, hshort, Bool.false_eq_true, if_false, hfix,
    Rd.guard_false]

theorem pullVersions_mod4 : ∀ (s : Bytes), s.length % 4 ≠ 0 → pullVersions s = .error .bufferRead
  | [], h => by simp at h
  | [_], _ => rfl
  | [_, _], _ => rfl
  | [_, _, _], _ => rfl
  | _ :: _ :: _ :: _ :: r, h => by
    have : r.length % 4 ≠ 0 := by simp only [List.length_cons] at h; omega
    simp only [pullVersions, pullVersions_mod4 r this]

/-- a Version Negotiation packet whose version list is cut inside a version is refused -/
theorem vn_truncated_list (n0 : Nat) (hcl : Option Int) (fb : Nat) (dcid scid rest : Bytes) (hfb : fb < 256)
    (hlong : (fb &&& 128 != 0) = true) (hd : dcid.length ≤ 20) (hs : scid.length ≤ 20) (h4 : rest.length % 4 ≠ 0) :
    pullQuicHeaderFrom n0 hcl (longPrefix fb 0 dcid scid rest) = .error .bufferRead := by
  unfold longPrefix
  have hdl : dcid.length < 256 := by omega
  have hsl : scid.length < 256 := by omega
  simp only [pullQuicHeaderFrom, Rd.bind_apply, pullUint8_byte _ _ hfb, hlong, if_true,
    uint32_roundtrip _ _ (show 0 < 4294967296 by omega), pullUint8_byte _ _ hdl, pullUint8_byte _ _ hsl,
    show decide (dcid.length ≤ 20) = true from by simpa using hd,
    show decide (scid.length ≤ 20) = true from by simpa using hs, Rd.guard_true,
    pullBytes_append _ _ (show dcid.length < 9223372036854775808 by omega),
    pullBytes_append _ _ (show scid.length < 9223372036854775808 by omega),
    pullAllVersions, pullVersions_mod4 rest h4]

/-- an accepted header never claims more bytes than the buffer holds, and at least what it consumed -/
theorem header_fits (hcl : Option Int) (s r : Bytes) (h : Header) (hdec : pullQuicHeader hcl s = .ok (h, r)) :
    h.packetLength ≤ s.length ∧ s.length - r.length ≤ h.packetLength ∧ r.length ≤ s.length := by
  have hsh := header_shape hcl s r h hdec
  cases hsh with
  | vn fb dcid scid vs h1 h2 h3 h4 h5 es er eh => subst er eh; simp
  | retry fb v dcid scid token tag hft hv hv0 hd hs htag es er eh => subst er eh; simp
  | initial fb v dcid scid token p1 p2 len hft hv hv0 hd hs hp1 hp2 hlen es eh =>
    have : r.length ≤ s.length := by rw [es]; simp [longPrefix_length]; omega
    subst eh; simp only []; omega
  | plain fb v pt dcid scid p2 len hpt hft hv hv0 hd hs hp2 hlen es eh =>
    have : r.length ≤ s.length := by rw [es]; simp [longPrefix_length]; omega
    subst eh; simp only []; omega
  | short fb dcid h1 h2 h3 ehcl hd63 es eh =>
    have : r.length ≤ s.length := by rw [es]; simp; omega
    subst eh; simp only []; omega

/-- the packet type is decided by the first byte and the version field -/
theorem shape_type (hcl : Option Int) (s r : Bytes) (h : Header) (hdec : pullQuicHeader hcl s = .ok (h, r)) :
    ∃ fb t, s = byte fb :: t ∧ fb < 256 ∧
      (((fb &&& 128 != 0) = false ∧ h.ptype = .oneRtt) ∨
       ((fb &&& 128 != 0) = true ∧ ∃ v rest, t = be4 v ++ rest ∧ v < 4294967296 ∧
          h.ptype = (if v = 0 then .versionNegotiation else longTypeDecode v ((fb &&& 48) / 16)))) := by
  have hsh := header_shape hcl s r h hdec
  cases hsh with
  | vn fb dcid scid vs h1 h2 h3 h4 h5 es er eh =>
    exact ⟨fb, _, es, h1, Or.inr ⟨h2, 0, _, rfl, by omega, by subst eh; simp⟩⟩
  | retry fb v dcid scid token tag hft hv hv0 hd hs htag es er eh =>
    exact ⟨fb, _, es, hft.1, Or.inr ⟨hft.2.1, v, _, rfl, hv, by subst eh; simp [hv0, hft.2.2.2]⟩⟩
  | initial fb v dcid scid token p1 p2 len hft hv hv0 hd hs hp1 hp2 hlen es eh =>
    exact ⟨fb, _, es, hft.1, Or.inr ⟨hft.2.1, v, _, rfl, hv, by subst eh; simp [hv0, hft.2.2.2]⟩⟩
  | plain fb v pt dcid scid p2 len hpt hft hv hv0 hd hs hp2 hlen es eh =>
    exact ⟨fb, _, es, hft.1, Or.inr ⟨hft.2.1, v, _, rfl, hv, by subst eh; simp [hv0, hft.2.2.2]⟩⟩
  | short fb dcid h1 h2 h3 ehcl hd63 es eh =>
    exact ⟨fb, _, es, h1, Or.inl ⟨h2, by subst eh; rfl⟩⟩

theorem byte_inj (a b : Nat) (ha : a < 256) (hb : b < 256) (h : byte a = byte b) : a = b := by
  have := congrArg UInt8.toNat h
  rw [toNat_byte, toNat_byte] at this
  omega

theorem be4_inj (v w : Nat) (r1 r2 : Bytes) (hv : v < 4294967296) (hw : w < 4294967296)
    (h : be4 v ++ r1 = be4 w ++ r2) : v = w := by
  have h1 := uint32_roundtrip v r1 hv
  rw [h, uint32_roundtrip w r2 hw] at h1
  cases h1; rfl

/-- a buffer and an extension of it are headers of the same type (when both are accepted) -/
theorem ptype_prefix (hcl : Option Int) (s y r r2 : Bytes) (h h2 : Header)
    (h1 : pullQuicHeader hcl s = .ok (h, r)) (h2' : pullQuicHeader hcl (s ++ y) = .ok (h2, r2)) :
    h.ptype = h2.ptype := by
  obtain ⟨fb, t, es, hfb, hc⟩ := shape_type hcl s r h h1
  obtain ⟨fb', t', es', hfb', hc'⟩ := shape_type hcl (s ++ y) r2 h2 h2'
  rw [es, List.cons_append] at es'
  have hb := byte_inj fb fb' hfb hfb' (List.cons.inj es').1
  have ht := (List.cons.inj es').2
  subst hb
  rcases hc with ⟨hs, hp⟩ | ⟨hl, v, rest, et, hv, hp⟩
  · rcases hc' with ⟨_, hp'⟩ | ⟨hl', _⟩
    · rw [hp, hp']
    · rw [hs] at hl'; cases hl'
  · rcases hc' with ⟨hs', _⟩ | ⟨_, v', rest', et', hv', hp'⟩
    · rw [hl] at hs'; cases hs'
    · rw [et, et', List.append_assoc] at ht
      have := be4_inj v v' _ _ hv hv' ht
      subst this
      rw [hp, hp']

/-- **truncation**: a well-formed long-header packet (Initial / 0-RTT / Handshake)
    cut anywhere before the end of its declared payload is refused with the
    documented parse error -/
theorem header_truncated (hcl : Option Int) (hh : HclOK hcl) (h : Header) (o : HdrOpts) (x : Bytes) (k : Nat)
    (hpt : h.ptype = .initial ∨ h.ptype = .zeroRtt ∨ h.ptype = .handshake)
    (hwf : hdrWF hcl h o = true) (ht : hdrTailOK h o x = true)
    (hlen : (hdrBytes h o ++ x).length < 9223372036854775808)
    (hk : k < (hdrBytes h o).length + o.length) :
    ∃ e, pullQuicHeader hcl ((hdrBytes h o ++ x).take k) = .error e ∧ IsParseErr e := by
  have hfull := header_roundtrip_wf hcl h o x hwf ht
  cases hp : pullQuicHeader hcl ((hdrBytes h o ++ x).take k) with
  | error e =>
    exact ⟨e, rfl, pullQuicHeader_err hcl hh _ (by rw [List.length_take]; omega) e hp⟩
  | ok a =>
    exfalso
    obtain ⟨h', r'⟩ := a
    have hsplit : (hdrBytes h o ++ x).take k ++ (hdrBytes h o ++ x).drop k = hdrBytes h o ++ x := List.take_append_drop _ _
    have hfull' := hfull
    rw [← hsplit] at hfull'
    have hty := ptype_prefix hcl _ _ r' x h' _ hp hfull'
    simp only [] at hty
    obtain ⟨hf1, hf2, hf3⟩ := header_fits hcl _ r' h' hp
    obtain ⟨pre, epre, hb1, _, _⟩ := Codec.header_bounded hcl _ r' h' hp
    have hpt' : h'.ptype = .initial ∨ h'.ptype = .zeroRtt ∨ h'.ptype = .handshake := by rw [hty]; exact hpt
    have hpl : pre.length + r'.length = ((hdrBytes h o ++ x).take k).length := by rw [epre]; simp
    have hext := hb1 hpt' (r' ++ (hdrBytes h o ++ x).drop k) (by simp only [List.length_append]; omega)
    rw [← List.append_assoc, ← epre, hsplit, hfull] at hext
    have heq := (Prod.mk.inj (Except.ok.inj hext)).1
    have hpl2 : h'.packetLength = hdrPacketLength h o x := by rw [← heq]
    have : hdrPacketLength h o x = (hdrBytes h o).length + o.length := by
      rcases hpt with e | e | e <;> simp [hdrPacketLength, e]
    rw [List.length_take] at hf1
    omega

/-- a Retry packet with fewer than 16 bytes after the connection ids (no room for the integrity tag) is refused -/
theorem retry_too_short (n0 : Nat) (hcl : Option Int) (fb v : Nat) (dcid scid rest : Bytes)
    (hft : FbType fb v .retry) (hv : v < 4294967296) (hv0 : v ≠ 0) (hd : dcid.length ≤ 20) (hs : scid.length ≤ 20)
    (h16 : rest.length < 16) :
    pullQuicHeaderFrom n0 hcl (longPrefix fb v dcid scid rest) = .error .bufferRead := by
  rw [long_header_step n0 hcl fb v dcid scid rest hft.1 hft.2.1 hv hv0 hd hs]
  have : pullBytes ((rest.length : Int) - 16) rest = .error .bufferRead := by
    unfold pullBytes
    rw [if_neg (by omega), if_pos (by omega)]
  simp only [pullLongRest, Rd.bind_apply, hft.2.2.1, Rd.guard_true, hft.2.2.2, Rd.remaining_apply, this]

/-! ### the library's encoders write `hdrBytes` -/

theorem builderLong_hdrBytes (version : Nat) (pt : PType) (dcid scid token : Bytes) (length pn pl : Nat)
    (hpt : pt = .initial ∨ pt = .zeroRtt ∨ pt = .handshake) (htoken : pt ≠ .initial → token = [])
    (hv : version < 4294967296) (hd : dcid.length < 256) (hs : scid.length < 256)
    (htok : token.length < 4611686018427387904) (hlen : length < 16384) :
    (builderLongHeaderScript version pt dcid scid token length pn).bytes =
      .ok (hdrBytes ⟨some version, pt, pl, dcid, scid, token, [], []⟩ ⟨1, 1, length⟩ ++ be2 (pn % 65536)) := by
  rw [builderLongHeader_bytes version pt dcid scid token length pn hpt hv hd hs htok hlen]
  rcases hpt with rfl | rfl | rfl
  · simp [hdrBytes, builderRest, longPrefix, specVarint_eq _ htok, encVarintW1]
  · have := htoken (by simp); subst this
    simp [hdrBytes, builderRest, longPrefix, encVarintW1]
  · have := htoken (by simp); subst this
    simp [hdrBytes, builderRest, longPrefix, encVarintW1]

theorem builderShort_hdrBytes (spin kp : Nat) (dcid : Bytes) (pn pl : Nat) (hsp : spin < 2) (hkp : kp < 2) :
    (builderShortHeaderScript spin kp dcid pn).bytes =
      .ok (hdrBytes ⟨none, .oneRtt, pl, dcid, [], [], [], []⟩ ⟨32 * spin + 4 * kp + 1, 0, 0⟩ ++ be2 (pn % 65536)) := by
  rw [builderShortHeader_bytes spin kp dcid pn hsp hkp]
  have : CodecSpec.shortFirstByte spin kp 2 = 64 + (32 * spin + 4 * kp + 1) := by
    unfold CodecSpec.shortFirstByte; omega
  simp [hdrBytes, this]

theorem encodeRetry_hdrBytes (version unused : Nat) (scid dcid token tag : Bytes) (pl : Nat)
    (hv : version < 4294967296) (hu : unused < 16) (hd : dcid.length < 256) (hs : scid.length < 256)
    (htag : tag.length = 16) :
    encodeQuicRetry version scid dcid token tag unused =
      .ok (hdrBytes ⟨some version, .retry, pl, dcid, scid, token, tag, []⟩ ⟨unused, 0, 0⟩) := by
  rw [encodeQuicRetry_eq version unused scid dcid token tag hv hu hd hs htag]
  simp [hdrBytes]

theorem encodeVN_hdrBytes (rnd : Nat) (scid dcid : Bytes) (vs : List Nat) (pl : Nat)
    (hr : rnd < 128) (hd : dcid.length < 256) (hs : scid.length < 256) (hvs : ∀ v ∈ vs, v < 4294967296) :
    encodeQuicVersionNegotiation rnd scid dcid (vs.map (fun (v : Nat) => (v : Int))) =
      .ok (hdrBytes ⟨some 0, .versionNegotiation, pl, dcid, scid, [], [], vs⟩ ⟨rnd, 0, 0⟩) := by
  rw [encodeQuicVersionNegotiation_eq rnd scid dcid vs (by omega) hd hs hvs]
  have hor : rnd ||| 128 = 128 + rnd := by
    have : ∀ x, x < 128 → x ||| 128 = 128 + x := by decide +kernel
    exact this rnd hr
  simp [hdrBytes, hor]

/-- the RFC 9000 §17.2 encoder with an explicit packet number of 1–4 bytes (before
    header protection) is `hdrBytes` with `low = pnLen − 1` followed by the packet number -/
theorem specLong_hdrBytes (version : Nat) (pt : PType) (dcid scid token : Bytes) (k length pnLen pn pl : Nat)
    (hpt : pt = .initial ∨ pt = .zeroRtt ∨ pt = .handshake) (htoken : pt ≠ .initial → token = []) :
    CodecSpec.encLongHeader version pt dcid scid token k length pnLen pn =
      hdrBytes ⟨some version, pt, pl, dcid, scid, token, [], []⟩ ⟨pnLen - 1, k, length⟩ ++ CodecSpec.beBytes pnLen pn := by
  rcases hpt with rfl | rfl | rfl
  · simp [CodecSpec.encLongHeader, hdrBytes, longPrefix, beBytes4, byte]
  · have := htoken (by simp); subst this
    simp [CodecSpec.encLongHeader, hdrBytes, longPrefix, beBytes4, byte]
  · have := htoken (by simp); subst this
    simp [CodecSpec.encLongHeader, hdrBytes, longPrefix, beBytes4, byte]

end AQ.Codec
