/-
  C14, interleaving with the QPACK encoder stream: a request whose first HEADERS
  frame is blocked and resumed later behaves like the same request decoded at once.
-/
import AQ.Proofs.H3Roundtrip2
namespace AQ.H3
section
variable {σ : Type} (o : Oracle σ) (cfg : Cfg)

/-- the `H3Stream` left behind by a delivery whose first HEADERS frame blocked -/
def blockedState (S : Stream) (fin : Bool) (blkLen : Nat) (rest : Bytes) : Stream :=
  { S with receivingEnded := fin, frameSize := none, frameType := none, blocked := true,
           blockedFrameSize := some blkLen, blockedPush := none, buffer := rest }

/-- order B, first half: the request arrives before the encoder stream -/
theorem recvReq_blocks (hv : VarintLaw) {S : Stream} (hS : Fresh S) (hrs : S.p.recvState ≠ .afterTrailers)
    (q qb : σ) (blk fH rest : Bytes) (fin : Bool) (hfH : encodeFrame 1 blk = some fH)
    (hdec : o.decode q S.p.streamId blk = (.blocked, qb)) :
    recvReq o cfg S q (fH ++ rest) fin = .ok (blockedState S fin blk.length rest, qb, []) := by
  have hfHne := encodeFrame_ne_nil hfH
  rw [recvReq_entry o cfg S q _ fin hS.blocked hS.sessionId hS.receivingEnded
    (by intro sz _ hz; rw [hS.frameSize] at hz; cases hz) (by rw [hS.buffer]; simp [hfHne])]
  rw [hS.buffer, hS.eta]
  simp only [List.nil_append]
  rw [reqLoop_oneFrame o cfg hv fin _ (withRE fin S) q 1 blk fH rest hfH (by decide) hS.frameSize]
  rw [handleFrame_headers]
  have hrs' : ¬ (withRE fin S).p.recvState = HState.afterTrailers := hrs
  rw [if_neg hrs']
  have hd' : o.decode q (withRE fin S).p.streamId blk = (.blocked, qb) := hdec
  rw [hd']
  simp only [loopPost, withRE, blockedState, Bool.true_eq_false, and_false, false_and, ↓reduceIte]


/-- order B, second half, against order A: resuming the blocked stream once the
    encoder stream has arrived gives what decoding the request after the encoder
    stream gives — provided QPACK is deterministic: `resume` (state `qb'`) yields
    the header list and decoder state that an unblocked `decode` (state `qa`) yields -/
theorem resume_eq_unblocked (hv : VarintLaw) {S : Stream} (hS : Fresh S) (hrs : S.p.recvState ≠ .afterTrailers)
    (hbfs : S.blockedFrameSize = none) (hbp : S.blockedPush = none)
    (qa qb' qf : σ) (blk fH rest : Bytes) (fin : Bool) (hs : Headers) (hfH : encodeFrame 1 blk = some fH)
    (hres : o.resume qb' S.p.streamId = (.headers hs, qf))
    (hdecA : o.decode qa S.p.streamId blk = (.headers hs, qf)) :
    REq (resumeStream o cfg (blockedState S fin blk.length rest) qb')
        (recvReq o cfg S qa (fH ++ rest) fin) := by
  have hfHne := encodeFrame_ne_nil hfH
  -- order A
  rw [recvReq_entry o cfg S qa _ fin hS.blocked hS.sessionId hS.receivingEnded
    (by intro sz _ hz; rw [hS.frameSize] at hz; cases hz) (by rw [hS.buffer]; simp [hfHne])]
  rw [hS.buffer, hS.eta]
  simp only [List.nil_append]
  rw [reqLoop_oneFrame o cfg hv fin _ (withRE fin S) qa 1 blk fH rest hfH (by decide) hS.frameSize]
  rw [handleFrame_headers]
  have hrs' : ¬ (withRE fin S).p.recvState = HState.afterTrailers := hrs
  rw [if_neg hrs']
  have hd' : o.decode qa (withRE fin S).p.streamId blk = (.headers hs, qf) := hdecA
  rw [hd']
  -- order B
  unfold resumeStream resumeFrame
  have hbp' : (blockedState S fin blk.length rest).blockedPush = none := rfl
  have hp' : (blockedState S fin blk.length rest).p = S.p := rfl
  rw [hbp', hp']
  dsimp only
  rw [if_neg hrs, hres]
  have hre' : (blockedState S fin blk.length rest).receivingEnded = fin := rfl
  have hbuf' : (blockedState S fin blk.length rest).buffer = rest := rfl
  have hwre : (withRE fin S).receivingEnded = fin := rfl
  have hwp : (withRE fin S).p = S.p := rfl
  rw [hre', hbuf', hwre, hwp]
  dsimp only
  cases hfin : finishHeaders o cfg S.p qf hs (fin && rest.isEmpty) with
  | error e => simp [loopPost, REq]
  | ok v =>
    obtain ⟨p2, q2, ev⟩ := v
    dsimp only
    by_cases hrest : rest = []
    · subst hrest
      simp only [hbuf', ↓reduceIte, reqLoop_nil, prepend_brk, List.append_nil]
      simp only [loopPost, Option.isSome_none, ne_eq, not_true_eq_false, Bool.false_eq_true, or_self,
        and_false, ↓reduceIte, REq]
      refine ⟨?_, trivial, NEq.refl _⟩
      simp [blockedState, withRE, hS.blocked, hS.buffer, hbfs, hbp]
    · rw [if_neg hrest]
      rw [recvReq_main o cfg]
      rotate_left
      · rfl
      · exact hS.sessionId
      · intro sz _ hz; cases hz
      unfold recvReqMain
      dsimp only
      rw [if_neg (show ¬ (fin = true ∧ rest ++ [] = []) from fun h => hrest (by simpa using h.2))]
      simp only [List.append_nil, Bool.or_self]
      rw [reqLoop_fuel o cfg fin (rest.length + 1) (fH ++ rest).length _ q2 rest (Nat.lt_succ_self _)
        (by have : fH.length ≠ 0 := fun h => hfHne (List.length_eq_zero_iff.mp h)
            simp only [List.length_append]; omega) (by simp [blockedState])]
      simp only [blockedState, withRE, hS.blocked, hS.buffer, hbfs, hbp]
      generalize reqLoop o cfg fin (fH ++ rest).length _ q2 rest = R
      cases R with
      | error e => simp [loopPost, REq]
      | ok res =>
        cases res with
        | ret s1 q1 evs => simp [loopPost, LoopRes.prepend, REq, NEq.refl]
        | brk s1 q1 r1 evs =>
          simp only [loopPost, LoopRes.prepend]
          by_cases hc : cfg.k.truncatedNoError = false ∧ s1.receivingEnded = true ∧ s1.blocked = false ∧
              (r1 ≠ [] ∨ s1.frameSize.isSome)
          · rw [if_pos hc, if_pos hc]; simp [REq]
          · rw [if_neg hc, if_neg hc]; simp [REq, NEq.refl]

end
end AQ.H3
