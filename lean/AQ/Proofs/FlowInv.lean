/-
  The send-side invariant `Inv` (AQ.Proofs.FlowSend) is preserved by every
  operation of AQ.Model.FlowRecv.step.
-/
import AQ.Proofs.FlowSend

namespace AQ.Flow
open AQ AQ.Stream AQ.RangeSet

/-! ## `_unblock_streams` -/

theorem unblockSplit_eq (m : Nat) (ids : List Nat) :
    unblockSplit false m ids = (ids.filter (fun x => !decide (x / 4 < m)), ids.filter (fun x => decide (x / 4 < m))) := by
  induction ids with
  | nil => rfl
  | cons x xs ih =>
    unfold unblockSplit
    by_cases hx : x / 4 < m <;> simp [hx, ih, List.filter_cons]

theorem releaseIn_sids (x : Nat) (ids : List Nat) (ss : List Strm) :
    (releaseIn x ids ss).map (·.sid) = ss.map (·.sid) := by
  unfold releaseIn
  rw [List.map_map]
  apply List.map_congr_left
  intro s _
  simp only [Function.comp]
  split <;> rfl

theorem releaseIn_sum (x : Nat) (ids : List Nat) (ss : List Strm) :
    sumHi (releaseIn x ids ss) = sumHi ss := by
  unfold releaseIn sumHi
  rw [List.map_map]
  congr 1
  apply List.map_congr_left
  intro s _
  simp only [Function.comp]
  split <;> rfl

theorem mem_releaseIn {x : Nat} {ids : List Nat} {ss : List Strm} {s' : Strm} (h : s' ∈ releaseIn x ids ss) :
    ∃ s ∈ ss, s' = (if ids.contains s.sid then { s with isBlocked := false, maxRemote := x } else s) := by
  unfold releaseIn at h
  obtain ⟨s, h1, h2⟩ := List.mem_map.mp h
  exact ⟨s, h1, h2.symm⟩

theorem unblockStreams_inv {c : Conn} (h : Inv c) (uni : Bool) : Inv (unblockStreams c uni) := by
  unfold unblockStreams
  have hq := h.fixed
  cases uni with
  | true =>
    simp only [if_true, hq, unblockSplit_eq]
    refine ⟨hq, by simp [releaseIn_sids]; exact h.nodup, by simp [releaseIn_sum]; exact h.ledger, h.connLimit, ?_, ?_, h.kindBidi, ?_⟩
    · intro s' hs'
      obtain ⟨s, hs, rfl⟩ := mem_releaseIn hs'
      have hi := h.strm s hs
      split
      · rename_i hc
        simp at hc
        have hl : s.isBlocked = true := hi.listed (.inr hc.1)
        have hz := hi.blockedZero hl
        refine ⟨by simp [hz.1], by simp, ?_, ?_⟩
        · intro _ _
          have hk := h.kindUni _ hc.1
          simp [maxStreamsFor, hk]; exact hc.2
        · intro hor
          exfalso
          simp at hor
          rcases hor with hb | hb
          · have := h.kindBidi _ hb; have := h.kindUni _ hc.1; simp_all
          · have := hc.2; have := hb.2; omega
      · refine ⟨hi.limit, hi.blockedZero, hi.count, ?_⟩
        intro hor
        simp at hor
        rcases hor with hb | hb
        · exact hi.listed (.inl hb)
        · exact hi.listed (.inr hb.1)
    · intro sid hsid
      simp at hsid
      have : sid ∈ c.blockedBidi ∨ sid ∈ c.blockedUni := by
        rcases hsid with hb | hb
        · exact .inl hb
        · exact .inr hb.1
      obtain ⟨s, h1, h2⟩ := h.listedHas sid this
      have : sid ∈ (releaseIn c.remoteMaxStreamDataUni (c.blockedUni.filter fun x => decide (x / 4 < c.remoteMaxStreamsUni)) c.streams).map (·.sid) := by
        rw [releaseIn_sids]; exact List.mem_map.mpr ⟨s, h1, h2⟩
      obtain ⟨s', h3, h4⟩ := List.mem_map.mp this
      exact ⟨s', h3, h4⟩
    · intro sid hsid
      simp at hsid
      exact h.kindUni sid hsid.1
  | false =>
    simp only [Bool.false_eq_true, if_false, hq, unblockSplit_eq]
    refine ⟨hq, by simp [releaseIn_sids]; exact h.nodup, by simp [releaseIn_sum]; exact h.ledger, h.connLimit, ?_, ?_, ?_, h.kindUni⟩
    · intro s' hs'
      obtain ⟨s, hs, rfl⟩ := mem_releaseIn hs'
      have hi := h.strm s hs
      split
      · rename_i hc
        simp at hc
        have hl : s.isBlocked = true := hi.listed (.inl hc.1)
        have hz := hi.blockedZero hl
        refine ⟨by simp [hz.1], by simp, ?_, ?_⟩
        · intro _ _
          have hk := h.kindBidi _ hc.1
          simp [maxStreamsFor, hk]; exact hc.2
        · intro hor
          exfalso
          simp at hor
          rcases hor with hb | hb
          · have := hc.2; have := hb.2; omega
          · have := h.kindUni _ hb; have := h.kindBidi _ hc.1; simp_all
      · refine ⟨hi.limit, hi.blockedZero, hi.count, ?_⟩
        intro hor
        simp at hor
        rcases hor with hb | hb
        · exact hi.listed (.inl hb.1)
        · exact hi.listed (.inr hb)
    · intro sid hsid
      simp at hsid
      have : sid ∈ c.blockedBidi ∨ sid ∈ c.blockedUni := by
        rcases hsid with hb | hb
        · exact .inl hb.1
        · exact .inr hb
      obtain ⟨s, h1, h2⟩ := h.listedHas sid this
      have : sid ∈ (releaseIn c.remoteMaxStreamDataBidiRemote (c.blockedBidi.filter fun x => decide (x / 4 < c.remoteMaxStreamsBidi)) c.streams).map (·.sid) := by
        rw [releaseIn_sids]; exact List.mem_map.mpr ⟨s, h1, h2⟩
      obtain ⟨s', h3, h4⟩ := List.mem_map.mp this
      exact ⟨s', h3, h4⟩
    · intro sid hsid
      simp at hsid
      exact h.kindBidi sid hsid.1

/-! ## `_get_or_create_stream` -/

theorem getOrCreateStream_inv {c c' : Conn} {sid : Nat} {st : Strm} (h : Inv c)
    (hg : getOrCreateStream c sid = .ok (c', st)) :
    Inv c' ∧ st ∈ c'.streams ∧ st.sid = sid ∧ c'.remoteMaxData = c.remoteMaxData := by
  unfold getOrCreateStream at hg
  split at hg
  · simp at hg
  · split at hg
    · rename_i st' hf
      simp at hg
      obtain ⟨rfl, rfl⟩ := hg
      exact ⟨h, (Conn.find?_mem hf).1, (Conn.find?_mem hf).2, rfl⟩
    · rename_i hf
      have hfresh := find?_none hf
      split at hg
      · simp at hg
      · rename_i hloc
        have hnl : ¬ (localSid c sid = true) := by simpa [localSid] using hloc
        simp only [] at hg
        split at hg
        · split at hg
          · simp at hg
          · simp at hg
            obtain ⟨rfl, rfl⟩ := hg
            refine ⟨?_, by simp [Conn.addStrm], rfl, rfl⟩
            refine h.add (st := Strm.create sid c.localMaxStreamDataUni 0 false)
              (by simpa [Strm.create] using hfresh) (by simp [Conn.addStrm]) (by simp [Strm.create, Send.init])
              rfl rfl rfl rfl rfl rfl rfl (.inl rfl) (.inl rfl) (by simp [Strm.create]) ?_
            intro hl; exact absurd hl hnl
        · split at hg
          · simp at hg
          · simp at hg
            obtain ⟨rfl, rfl⟩ := hg
            refine ⟨?_, by simp [Conn.addStrm], rfl, rfl⟩
            refine h.add (st := Strm.create sid c.localMaxStreamDataBidiRemote c.remoteMaxStreamDataBidiLocal true)
              (by simpa [Strm.create] using hfresh) (by simp [Conn.addStrm]) (by simp [Strm.create, Send.init])
              rfl rfl rfl rfl rfl rfl rfl (.inl rfl) (.inl rfl) (by simp [Strm.create]) ?_
            intro hl; exact absurd hl hnl

/-! ## the operations -/

theorem Inv.withLocalMaxData {c : Conn} (h : Inv c) (l : Limit) : Inv { c with localMaxData := l } :=
  h.same ⟨rfl, Nat.le_refl _, Nat.le_refl _, rfl, rfl, rfl⟩ rfl rfl rfl (Nat.le_refl _)
theorem Inv.withLocalMaxStreamsBidi {c : Conn} (h : Inv c) (l : Limit) : Inv { c with localMaxStreamsBidi := l } :=
  h.same ⟨rfl, Nat.le_refl _, Nat.le_refl _, rfl, rfl, rfl⟩ rfl rfl rfl (Nat.le_refl _)
theorem Inv.withLocalMaxStreamsUni {c : Conn} (h : Inv c) (l : Limit) : Inv { c with localMaxStreamsUni := l } :=
  h.same ⟨rfl, Nat.le_refl _, Nat.le_refl _, rfl, rfl, rfl⟩ rfl rfl rfl (Nat.le_refl _)

theorem sendStreamData_inv {c : Conn} (h : Inv c) (sid : Nat) (d : Bytes) (fin : Bool) :
    Inv (sendStreamData c sid d fin).1 := by
  unfold sendStreamData
  split
  · exact h
  · rename_i c' st hg
    obtain ⟨h', hm, _⟩ := getOrCreateStreamForSend_inv h hg
    split
    · exact h'
    · rename_i snd hw
      have hi := h'.strm st hm
      have := write_highest hw
      exact h'.setStrm hm rfl this.1 ⟨by simp [this.1]; exact hi.limit,
        by intro hb; simp [this]; exact hi.blockedZero hb, hi.count, hi.listed⟩

theorem resetStream_inv {c : Conn} (h : Inv c) (sid code : Nat) : Inv (resetStream c sid code).1 := by
  unfold resetStream
  split
  · exact h
  · rename_i c' st hg
    obtain ⟨h', hm, _⟩ := getOrCreateStreamForSend_inv h hg
    have hi := h'.strm st hm
    have := reset_highest st.send code
    exact h'.setStrm hm rfl this.1 ⟨by simp [this.1]; exact hi.limit,
      by intro hb; simp [this]; exact hi.blockedZero hb, hi.count, hi.listed⟩

theorem stopStream_inv {c : Conn} (h : Inv c) (sid : Nat) : Inv (stopStream c sid).1 := by
  unfold stopStream
  split
  · exact h
  · split
    · exact h
    · rename_i st hf
      have hm := (Conn.find?_mem hf).1
      have hi := h.strm st hm
      exact h.setStrm hm rfl rfl ⟨hi.limit, hi.blockedZero, hi.count, hi.listed⟩

theorem rxMaxData_inv {c : Conn} (h : Inv c) (v : Nat) : Inv (rxMaxData c v).1 := by
  unfold rxMaxData
  split
  · exact h.same ⟨rfl, Nat.le_refl _, Nat.le_refl _, rfl, rfl, rfl⟩ rfl rfl rfl (by simp; omega)
  · exact h

theorem rxMaxStreams_inv {c : Conn} (h : Inv c) (uni : Bool) (v : Nat) : Inv (rxMaxStreams c uni v).1 := by
  unfold rxMaxStreams
  split
  · exact h
  · split
    · split
      · refine unblockStreams_inv (c := { c with remoteMaxStreamsUni := v }) ?_ true
        exact h.same ⟨rfl, Nat.le_refl _, by simp; omega, rfl, rfl, rfl⟩ rfl rfl rfl (Nat.le_refl _)
      · exact h
    · split
      · refine unblockStreams_inv (c := { c with remoteMaxStreamsBidi := v }) ?_ false
        exact h.same ⟨rfl, by simp; omega, Nat.le_refl _, rfl, rfl, rfl⟩ rfl rfl rfl (Nat.le_refl _)
      · exact h

/-- the transport parameters do not reduce a limit the connection already holds
    (what RFC 9000 §7.4.1 requires from a server that accepts 0-RTT; the code
    does not check it) -/
def TP.monotone (c : Conn) (tp : TP) : Prop :=
  (∀ v, tp.maxData = some v → c.remoteMaxData ≤ v) ∧
  (∀ v, tp.maxStreamsBidi = some v → c.remoteMaxStreamsBidi ≤ v) ∧
  (∀ v, tp.maxStreamsUni = some v → c.remoteMaxStreamsUni ≤ v)

theorem transportParams_inv {c : Conn} (h : Inv c) (tp : TP) (hm : tp.monotone c) :
    Inv (transportParams c tp) := by
  obtain ⟨h1, h2, h3⟩ := hm
  refine h.same ⟨rfl, ?_, ?_, rfl, rfl, rfl⟩ rfl rfl rfl ?_
  · simp [transportParams]; cases hv : tp.maxStreamsBidi <;> simp; exact h2 _ hv
  · simp [transportParams]; cases hv : tp.maxStreamsUni <;> simp; exact h3 _ hv
  · simp [transportParams]; cases hv : tp.maxData <;> simp; exact h1 _ hv

/-- the comparison with the remembered values is performed: the code with the fix
    `client refuses transport parameters reduced after accepted 0-RTT data`, on the
    handshake parameters of a server that accepted this client's early data -/
def TP.guarded (c : Conn) (tp : TP) : Prop := tp.checked = true ∧ c.quirks.acceptReducedParams = false

theorem TP.monotone_of_not_reduced {c : Conn} {tp : TP} (h : tp.reduced c = false) : tp.monotone c := by
  unfold TP.reduced at h
  simp only [Bool.or_eq_false_iff, decide_eq_false_iff_not, Nat.not_lt] at h
  obtain ⟨⟨⟨⟨⟨h1, _⟩, _⟩, _⟩, h5⟩, h6⟩ := h
  refine ⟨?_, ?_, ?_⟩
  · intro v hv; rw [hv] at h1; exact h1
  · intro v hv; rw [hv] at h5; exact h5
  · intro v hv; rw [hv] at h6; exact h6

/-- what `_parse_transport_parameters` does when the check is performed: it
    refuses (nothing changes) or the parameters are not below the remembered ones -/
theorem rxTransportParams_guarded {c : Conn} {tp : TP} (hg : tp.guarded c) :
    ((rxTransportParams c tp) = (c, Out.connError PROTOCOL_VIOLATION) ∧ tp.reduced c = true) ∨
    ((rxTransportParams c tp) = (transportParams c tp, {}) ∧ tp.reduced c = false) := by
  unfold rxTransportParams
  cases hr : tp.reduced c
  · right; simp
  · left; simp [hg.1, hg.2]

theorem rxTransportParams_cases (c : Conn) (tp : TP) :
    rxTransportParams c tp = (c, Out.connError PROTOCOL_VIOLATION) ∨
    rxTransportParams c tp = (transportParams c tp, {}) := by
  unfold rxTransportParams; split
  · exact .inl rfl
  · exact .inr rfl

theorem rxTransportParams_inv {c : Conn} (h : Inv c) (tp : TP) (hwf : tp.guarded c ∨ tp.monotone c) :
    Inv (rxTransportParams c tp).1 := by
  rcases hwf with hg | hm
  · rcases rxTransportParams_guarded hg with ⟨he, _⟩ | ⟨he, hr⟩
    · rw [he]; exact h
    · rw [he]; exact transportParams_inv h tp (TP.monotone_of_not_reduced hr)
  · unfold rxTransportParams
    split
    · exact h
    · exact transportParams_inv h tp hm

theorem rxMaxStreamData_inv {c : Conn} (h : Inv c) (sid v : Nat) : Inv (rxMaxStreamData c sid v).1 := by
  unfold rxMaxStreamData
  split
  · exact h
  · split
    · exact h
    · rename_i c' st hg
      obtain ⟨h', hm, _, _⟩ := getOrCreateStream_inv h hg
      split
      · have hi := h'.strm st hm
        exact h'.setStrm hm rfl rfl ⟨by simp; have := hi.limit; omega, hi.blockedZero, hi.count, hi.listed⟩
      · exact h'

theorem rxStopSending_inv {c : Conn} (h : Inv c) (sid : Nat) : Inv (rxStopSending c sid).1 := by
  unfold rxStopSending
  split
  · exact h
  · split
    · exact h
    · rename_i c' st hg
      obtain ⟨h', hm, _, _⟩ := getOrCreateStream_inv h hg
      have hi := h'.strm st hm
      have := reset_highest st.send 0
      exact h'.setStrm hm rfl this.1 ⟨by simp [this.1]; exact hi.limit,
        by intro hb; simp [this]; exact hi.blockedZero hb, hi.count, hi.listed⟩

theorem rxStreamDataBlocked_inv {c : Conn} (h : Inv c) (sid : Nat) : Inv (rxStreamDataBlocked c sid).1 := by
  unfold rxStreamDataBlocked
  split
  · exact h
  · split
    · exact h
    · rename_i c' st hg
      exact (getOrCreateStream_inv h hg).1

theorem rxStream_inv {c : Conn} (h : Inv c) (sid off : Nat) (d : Bytes) (fin : Bool) :
    Inv (rxStream c sid off d fin).1 := by
  unfold rxStream
  simp only []
  split
  · exact h
  · split
    · exact h
    · split
      · exact h
      · rename_i c' st hg
        obtain ⟨h', hm, _, _⟩ := getOrCreateStream_inv h hg
        split
        · exact h'
        · split
          · exact h'
          · split
            · exact h'
            · have hi := h'.strm st hm
              show Inv { c'.setStrm _ with localMaxData := _ }
              apply Inv.withLocalMaxData
              refine h'.setStrm hm (by rfl) (by rfl) ?_
              exact ⟨hi.limit, hi.blockedZero, hi.count, hi.listed⟩

theorem rxResetStream_inv {c : Conn} (h : Inv c) (sid fs : Nat) : Inv (rxResetStream c sid fs).1 := by
  unfold rxResetStream
  split
  · exact h
  · split
    · exact h
    · rename_i c' st hg
      obtain ⟨h', hm, _, _⟩ := getOrCreateStream_inv h hg
      simp only []
      split
      · exact h'
      · split
        · exact h'
        · split
          · exact h'
          · have hi := h'.strm st hm
            show Inv { c'.setStrm _ with localMaxData := _ }
            apply Inv.withLocalMaxData
            refine h'.setStrm hm (by rfl) (by rfl) ?_
            exact ⟨hi.limit, hi.blockedZero, hi.count, hi.listed⟩

end AQ.Flow
