import AQ.Model.Amplification
import AQ.Proofs.Builder

namespace AQ.Builder

/-- bytes of the packets in flight inside a list of datagrams -/
def inflightTotal : List Dgram → Int
  | [] => 0
  | d :: ds => inflightSum d.pkts + inflightTotal ds

theorem inflightTotal_le_sumFlight (c : Cfg) (ds : List Dgram) (h : ∀ d ∈ ds, d.Good c) :
    inflightTotal ds ≤ sumFlight ds := by
  induction ds with
  | nil => simp [inflightTotal, sumFlight]
  | cons d ds ih =>
    simp only [inflightTotal, sumFlight]
    have := (h d (by simp)).flight_ge
    have := ih (fun x hx => h x (by simp [hx]))
    omega

/-- everything a disciplined run hands out -/
def allOut (s : St) : List Dgram := s.out ++ s.datagrams

theorem run_total_le {c : Cfg} {pn : Nat} {ops : List Op} (hd : DisciplinedRun (St.init c pn) ops) (m : Int)
    (hm : c.maxTotal = some m) : sumSizes (allOut (run (St.init c pn) ops).1) ≤ max m 0 := by
  have ⟨hi, _, hc⟩ := run_inv (inv_init c pn) hd
  have := (hi.total m (by rw [hc]; exact hm)).1
  rw [hi.sums.1] at this
  exact this

theorem run_flight_le {c : Cfg} {pn : Nat} {ops : List Op} (hd : DisciplinedRun (St.init c pn) ops) (m : Int)
    (hm : c.maxFlight = some m) : inflightTotal (allOut (run (St.init c pn) ops).1) ≤ max m 0 := by
  have ⟨hi, _, hc⟩ := run_inv (inv_init c pn) hd
  have h1 := (hi.flight m (by rw [hc]; exact hm)).1
  rw [hi.sums.2] at h1
  have h2 := inflightTotal_le_sumFlight _ _ hi.good
  unfold allOut
  omega

end AQ.Builder

namespace AQ.Amp
open AQ.Builder

theorem totalSize_eq (ds : List Dgram) : (totalSize ds : Int) = sumSizes ds := by
  induction ds with
  | nil => simp [totalSize, sumSizes]
  | cons d ds ih => simp only [totalSize, sumSizes]; push_cast; omega

/-- the ledger invariant: an unvalidated path never got more than 3x what it sent us -/
def Ok (n : Net) : Prop := ∀ p ∈ n.paths, p.validated = false → p.bytesSent ≤ 3 * p.bytesReceived

/-- every `datagrams_to_send` call of the history drives the builder in a disciplined way -/
def SendsDisciplined : Net → List Op → Prop
  | _, [] => True
  | n, op :: ops =>
    (match op, n.paths with
     | .send c, p :: _ => DisciplinedRun (St.init (builderCfg p c) c.packetNumber) c.ops
     | _, _ => True) ∧ SendsDisciplined (step n op) ops

theorem ok_set {n : Net} {i : Nat} {q : Path} (h : Ok n)
    (hq : q.validated = false → q.bytesSent ≤ 3 * q.bytesReceived) : Ok { paths := n.paths.set i q } := by
  intro p hp hv
  rcases List.mem_or_eq_of_mem_set hp with h1 | h1
  · exact h p h1 hv
  · subst h1; exact hq hv

theorem step_ok {n : Net} {op : Op} (h : Ok n)
    (hd : match op, n.paths with
      | .send c, p :: _ => DisciplinedRun (St.init (builderCfg p c) c.packetNumber) c.ops
      | _, _ => True) : Ok (step n op) := by
  cases op with
  | rx i len =>
    simp only [step]
    cases hp : n.paths[i]? with
    | none => exact h
    | some p =>
      simp only
      split
      · exact h
      · rename_i hv
        apply ok_set h
        intro _
        have := h p (List.mem_of_getElem? hp) (by simpa using hv)
        simp only; omega
  | rxNew addr len acc =>
    simp only [step]
    split
    · intro p hp hv
      rcases List.mem_append.mp hp with h1 | h1
      · exact h p h1 hv
      · simp only [List.mem_singleton] at h1; subst h1; simp
    · exact h
  | rxFirst addr len =>
    intro p hp hv
    simp only [step, List.mem_singleton] at hp; subst hp; simp
  | validate i =>
    simp only [step]
    cases hp : n.paths[i]? with
    | none => exact h
    | some p => exact ok_set h (by intro hv; cases hv)
  | promote i =>
    simp only [step]
    cases hp : n.paths[i]? with
    | none => exact h
    | some p =>
      intro q hq hv
      simp only [List.mem_cons] at hq
      rcases hq with h1 | h1
      · subst h1; exact h q (List.mem_of_getElem? hp) hv
      · exact h q (List.mem_of_mem_eraseIdx h1) hv
  | send c =>
    simp only [step]
    cases hps : n.paths with
    | nil => simpa [hps] using h
    | cons p rest =>
      simp only [sent, hps]
      rw [hps] at hd
      simp only at hd
      intro q hq hv
      simp only [List.mem_cons] at hq
      rcases hq with h1 | h1
      · subst h1
        simp only at hv ⊢
        have hold := h p (by rw [hps]; simp) hv
        have hmt : (builderCfg p c).maxTotal = some ((p.bytesReceived : Int) * 3 - p.bytesSent) := by
          simp [builderCfg, Path.maxTotal, hv]
        have h1 : sumSizes (sendOut p c) ≤ max ((p.bytesReceived : Int) * 3 - p.bytesSent) 0 := run_total_le hd _ hmt
        have h2 := totalSize_eq (sendOut p c)
        omega
      · exact h q (by rw [hps]; simp [h1]) hv

theorem run_ok {n : Net} {ops : List Op} (h : Ok n) (hd : SendsDisciplined n ops) : Ok (run n ops) := by
  induction ops generalizing n with
  | nil => exact h
  | cons op ops ih => exact ih (step_ok h hd.1) hd.2

end AQ.Amp
